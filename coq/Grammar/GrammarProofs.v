(* Proofs about the generic parser model: CFG derivations, soundness, fuel adequacy, greedy completeness,
   and soundness of the boolean structural checks.  Generic in the grammar table. *)
From Coq Require Import List NArith Bool Arith Lia.
Import ListNotations.
From BWGrammar Require Import Grammar.
Open Scope N_scope.

(* ------------------------------------------------------------------ spec: derivations ---------- *)
Section Spec.
  Variable g : grammar.

  Inductive der : N -> list N -> Prop :=
  | der_alt : forall s a w, In a (rules g s) -> ders a w -> der s w
  with ders : alt -> list N -> Prop :=
  | ders_nil : ders [] []
  | ders_T : forall t es w, ders es w -> ders (T t :: es) (t :: w)
  | ders_NT : forall s es w1 w2, der s w1 -> ders es w2 -> ders (NT s :: es) (w1 ++ w2).

  (* reachability of rules from a start symbol *)
  Inductive reach (start : N) : N -> Prop :=
  | reach_start : reach start start
  | reach_ref : forall s a s', reach start s -> In a (rules g s) -> In (NT s') a -> reach start s'.

  Variable eof : N.

  (* greedy derivations: an empty alternative is used only when the next token starts none of the rule's
     alternatives.  [gder s w rest]: s derives w in a context where [rest] follows. *)
  Inductive gder : N -> list N -> list N -> Prop :=
  | gder_alt : forall s a w rest,
      In a (rules g s) ->
      (a = [] -> forall a' t', In a' (rules g s) -> first_tok a' = Some t' -> t' <> cur eof (w ++ rest)) ->
      gders a w rest -> gder s w rest
  with gders : alt -> list N -> list N -> Prop :=
  | gders_nil : forall rest, gders [] [] rest
  | gders_T : forall t es w rest, gders es w rest -> gders (T t :: es) (t :: w) rest
  | gders_NT : forall s es w1 w2 rest,
      gder s w1 (w2 ++ rest) -> gders es w2 rest -> gders (NT s :: es) (w1 ++ w2) rest.
End Spec.

Scheme gder_mut := Induction for gder Sort Prop
  with gders_mut := Induction for gders Sort Prop.

(* ------------------------------------------------------------------ small facts ---------------- *)
Lemma memb_In x l : memb x l = true <-> In x l.
Proof.
  unfold memb. rewrite existsb_exists. split.
  - intros [y [Hy He]]. apply N.eqb_eq in He. subst. exact Hy.
  - intros H. exists x. split; [exact H | apply N.eqb_refl].
Qed.

Lemma nodupb_NoDup l : nodupb l = true -> NoDup l.
Proof.
  induction l as [|x r IH]; cbn [nodupb]; intros H; [constructor|].
  apply andb_true_iff in H. destruct H as [H1 H2]. constructor.
  - intros Hin. apply memb_In in Hin. unfold memb in Hin. rewrite Hin in H1. discriminate.
  - apply IH. exact H2.
Qed.

Lemma rules_in g s a : In a (rules g s) -> exists r, In r g /\ fst r = s /\ In a (snd r).
Proof.
  induction g as [|[s' als] g' IH]; cbn [rules]; intros H; [contradiction|].
  destruct (N.eqb_spec s s') as [E|E].
  - exists (s', als). cbn. auto.
  - destruct (IH H) as [r [Hr1 Hr2]]. exists r. split; [right; exact Hr1 | exact Hr2].
Qed.

Lemma rules_of_in g s als : NoDup (keys g) -> In (s, als) g -> rules g s = als.
Proof.
  induction g as [|[s' als'] g' IH]; cbn [rules keys map fst]; intros Hnd Hin; [contradiction|].
  inversion Hnd as [|x l Hnotin Hnd']; subst.
  destruct Hin as [Heq|Hin].
  - inversion Heq; subst. rewrite N.eqb_refl. reflexivity.
  - destruct (N.eqb_spec s s') as [E|E].
    + subst. exfalso. apply Hnotin. apply in_map_iff. exists (s', als). auto.
    + apply IH; assumption.
Qed.

Lemma no_tokb_alt g eof s a : no_tokb eof g = true -> In a (rules g s) -> ~ In eof (elem_toks a).
Proof.
  intros H Hin. destruct (rules_in _ _ _ Hin) as [r [Hr [_ Ha]]].
  unfold no_tokb in H. rewrite forallb_forall in H. specialize (H r Hr).
  rewrite forallb_forall in H. specialize (H a Ha).
  intros Hc. apply memb_In in Hc. rewrite Hc in H. discriminate.
Qed.

Lemma rule_ok_alt g s : forallb (fun r => rule_ok (snd r)) g = true -> rule_ok (rules g s) = true.
Proof.
  induction g as [|[s' als] g' IH]; cbn [rules forallb snd]; intros H; [reflexivity|].
  apply andb_true_iff in H. destruct H as [H1 H2].
  destruct (N.eqb s s'); [exact H1 | apply IH; exact H2].
Qed.

(* ------------------------------------------------------------------ soundness ------------------ *)
Section Sound.
  Variable g : grammar.
  Variable eof : N.

  Definition rec_sound (rec : N -> list N -> pres) : Prop :=
    forall s ts rest tr, rec s ts = Ok rest tr -> exists w, ts = w ++ rest /\ der g s w.

  Lemma expect_sound rec es :
    rec_sound rec -> ~ In eof (elem_toks es) ->
    forall ts rest tr, expect eof rec es ts = Ok rest tr -> exists w, ts = w ++ rest /\ ders g es w.
  Proof.
    intros Hrec. induction es as [|e es IH]; intros Hne ts rest tr H; cbn [expect] in H.
    - inversion H; subst. exists []. split; [reflexivity | constructor].
    - destruct e as [t|s].
      + destruct (N.eqb_spec (cur eof ts) t) as [E|E]; [|discriminate].
        destruct ts as [|t0 ts'].
        * cbn in E. subst t. exfalso. apply Hne. cbn. left. reflexivity.
        * cbn in E. subst t0. cbn [adv tl] in H.
          assert (Hne' : ~ In eof (elem_toks es)) by (intros Hc; apply Hne; cbn; right; exact Hc).
          destruct (IH Hne' _ _ _ H) as [w [Hw Hd]].
          exists (t :: w). split; [cbn; rewrite Hw; reflexivity | constructor; exact Hd].
      + destruct (rec s ts) as [ts' tr1| |] eqn:Er; try discriminate.
        destruct (expect eof rec es ts') as [ts'' tr2| |] eqn:Ee; try discriminate.
        inversion H; subst.
        assert (Hne' : ~ In eof (elem_toks es)) by (intros Hc; apply Hne; cbn; exact Hc).
        destruct (Hrec _ _ _ _ Er) as [w1 [Hw1 Hd1]].
        destruct (IH Hne' _ _ _ Ee) as [w2 [Hw2 Hd2]].
        exists (w1 ++ w2). split; [rewrite <- app_assoc, <- Hw2; exact Hw1 | constructor; assumption].
  Qed.

  Lemma alts_sound rec s als :
    rec_sound rec -> (forall a, In a als -> ~ In eof (elem_toks a)) ->
    forall i ts rest tr, alts eof rec s i als ts = Ok rest tr ->
      exists a w, In a als /\ ts = w ++ rest /\ ders g a w.
  Proof.
    intros Hrec. induction als as [|a als IH]; intros Hne i ts rest tr H; cbn [alts] in H; [discriminate|].
    destruct a as [|[t|s'] es].
    - inversion H; subst. exists [], []. repeat split; [left; reflexivity | constructor].
    - destruct (N.eqb (cur eof ts) t) eqn:E.
      + destruct (expect eof rec (T t :: es) ts) as [ts' tr'| |] eqn:Ee; try discriminate.
        inversion H; subst.
        destruct (expect_sound rec (T t :: es) Hrec (Hne _ (or_introl eq_refl)) _ _ _ Ee) as [w [Hw Hd]].
        exists (T t :: es), w. repeat split; [left; reflexivity | exact Hw | exact Hd].
      + destruct (IH (fun a Ha => Hne a (or_intror Ha)) _ _ _ _ H) as [a [w [Ha [Hw Hd]]]].
        exists a, w. repeat split; [right; exact Ha | exact Hw | exact Hd].
    - discriminate.
  Qed.

  Theorem consume_sound :
    no_tokb eof g = true ->
    forall fuel s ts rest tr, consume g eof fuel s ts = Ok rest tr -> exists w, ts = w ++ rest /\ der g s w.
  Proof.
    intros Hno. induction fuel as [|f IH]; intros s ts rest tr H; cbn [consume] in H; [discriminate|].
    destruct (alts_sound (consume g eof f) s (rules g s) IH
                (fun a Ha => no_tokb_alt g eof s a Hno Ha) _ _ _ _ H) as [a [w [Ha [Hw Hd]]]].
    exists w. split; [exact Hw | econstructor; eassumption].
  Qed.

  (* accepted ==> a derivable statement followed by end of input *)
  Theorem parse_sound_whole start :
    no_tokb eof g = true ->
    forall ts rest tr, parse g eof start ts = Ok rest tr ->
      exists w, der g start w /\ ts = w ++ rest /\ (rest = [] \/ exists more, rest = eof :: more).
  Proof.
    intros Hno ts rest tr H. unfold parse in H.
    destruct (consume g eof (fuel_for ts) start ts) as [rest' tr'| |] eqn:Ec; try discriminate.
    destruct (N.eqb_spec (cur eof rest') eof) as [E|E]; [|discriminate].
    inversion H; subst.
    destruct (consume_sound Hno _ _ _ _ _ Ec) as [w [Hw Hd]].
    exists w. repeat split; [exact Hd | exact Hw |].
    destruct rest as [|t more]; [left; reflexivity | right]. cbn in E. subst. eauto.
  Qed.
End Sound.

(* ------------------------------------------------------------------ fuel adequacy -------------- *)
Section Fuel.
  Variable g : grammar.
  Variable eof : N.

  Definition rec_len (rec : N -> list N -> pres) : Prop :=
    forall s ts rest tr, rec s ts = Ok rest tr -> (length rest <= length ts)%nat.

  Lemma expect_len rec es : rec_len rec ->
    forall ts rest tr, expect eof rec es ts = Ok rest tr -> (length rest <= length ts)%nat.
  Proof.
    intros Hrec. induction es as [|e es IH]; intros ts rest tr H; cbn [expect] in H.
    - inversion H; subst. lia.
    - destruct e as [t|s].
      + destruct (N.eqb (cur eof ts) t); [|discriminate].
        apply IH in H. destruct ts; cbn in *; lia.
      + destruct (rec s ts) as [ts' tr1| |] eqn:Er; try discriminate.
        destruct (expect eof rec es ts') as [ts'' tr2| |] eqn:Ee; try discriminate.
        inversion H; subst. apply Hrec in Er. apply IH in Ee. lia.
  Qed.

  Lemma alts_len rec s als : rec_len rec ->
    forall i ts rest tr, alts eof rec s i als ts = Ok rest tr -> (length rest <= length ts)%nat.
  Proof.
    intros Hrec. induction als as [|a als IH]; intros i ts rest tr H; cbn [alts] in H; [discriminate|].
    destruct a as [|[t|s'] es].
    - inversion H; subst. lia.
    - destruct (N.eqb (cur eof ts) t).
      + destruct (expect eof rec (T t :: es) ts) as [ts' tr'| |] eqn:Ee; try discriminate.
        inversion H; subst. eapply expect_len; eassumption.
      + eapply IH; eassumption.
    - discriminate.
  Qed.

  Lemma consume_len fuel : rec_len (consume g eof fuel).
  Proof.
    induction fuel as [|f IH]; intros s ts rest tr H; cbn [consume] in H; [discriminate|].
    eapply alts_len; eassumption.
  Qed.

  Lemma expect_no_oof rec es n :
    rec_len rec -> (forall s ts, (length ts <= n)%nat -> rec s ts <> OutOfFuel) ->
    forall ts, (length ts <= n)%nat -> expect eof rec es ts <> OutOfFuel.
  Proof.
    intros Hlen Hrec. induction es as [|e es IH]; intros ts Hn; cbn [expect]; [discriminate|].
    destruct e as [t|s].
    - destruct (N.eqb (cur eof ts) t); [|discriminate]. apply IH. destruct ts; cbn in *; lia.
    - destruct (rec s ts) as [ts' tr1| |] eqn:Er; [| discriminate | exfalso; eapply Hrec; eassumption].
      assert (Hn' : (length ts' <= n)%nat) by (apply Hlen in Er; lia).
      specialize (IH ts' Hn').
      destruct (expect eof rec es ts'); [discriminate | discriminate | contradiction].
  Qed.

  Theorem consume_fuel_enough :
    no_tokb eof g = true ->
    forall fuel s ts, (length ts < fuel)%nat -> consume g eof fuel s ts <> OutOfFuel.
  Proof.
    intros Hno. induction fuel as [|f IH]; intros s ts Hlt; [lia|].
    cbn [consume].
    assert (Hal : forall als i, (forall a, In a als -> ~ In eof (elem_toks a)) ->
                   alts eof (consume g eof f) s i als ts <> OutOfFuel).
    { induction als as [|a als IHa]; intros i Hne; cbn [alts]; [discriminate|].
      destruct a as [|[t|s'] es]; [discriminate | | discriminate].
      destruct (N.eqb_spec (cur eof ts) t) as [E|E].
      - destruct ts as [|t0 ts'].
        + cbn in E. subst. exfalso. apply (Hne _ (or_introl eq_refl)). cbn. left. reflexivity.
        + cbn [expect]. cbn in E. subst t0. cbn [cur]. rewrite N.eqb_refl. cbn [adv tl].
          pose proof (expect_no_oof (consume g eof f) es (length ts') (consume_len f)) as Hx.
          assert (Hr : forall s0 ts0, (length ts0 <= length ts')%nat -> consume g eof f s0 ts0 <> OutOfFuel).
          { intros s0 ts0 Hl. apply IH. cbn in Hlt. lia. }
          specialize (Hx Hr ts' (le_n _)).
          destruct (expect eof (consume g eof f) es ts'); [discriminate | discriminate | contradiction].
      - apply IHa. intros a Ha. apply Hne. right. exact Ha. }
    apply Hal. intros a Ha. eapply no_tokb_alt; eassumption.
  Qed.
End Fuel.

(* ------------------------------------------------------------------ greedy completeness -------- *)
Section Complete.
  Variable g : grammar.
  Variable eof : N.

  Lemma first_in_firsts a t als : In a als -> first_tok a = Some t -> In t (firsts als).
  Proof.
    induction als as [|a0 als IH]; intros Hin Hf; [contradiction|]. cbn [firsts].
    destruct Hin as [E|Hin].
    - subst. rewrite Hf. left. reflexivity.
    - destruct (first_tok a0); [right|]; apply IH; assumption.
  Qed.

  Lemma empty_only_last_head a als : empty_only_last (a :: als) = true -> als <> [] -> a <> [].
  Proof.
    cbn [empty_only_last]. destruct als as [|b als]; [intros _ H; contradiction|].
    intros H _ E. subst. cbn in H. discriminate.
  Qed.

  Lemma empty_only_last_tail a als : empty_only_last (a :: als) = true -> empty_only_last als = true.
  Proof.
    cbn [empty_only_last]. destruct als as [|b als]; [reflexivity|].
    intros H. apply andb_true_iff in H. apply H.
  Qed.

  Definition alt_result (rec : N -> list N -> pres) (s : N) (j : nat) (a : alt) (ts : list N) : pres :=
    match a with
    | [] => Ok ts [(s, j)]
    | _ => match expect eof rec a ts with Ok ts' tr => Ok ts' ((s, j) :: tr) | r => r end
    end.

  Lemma alts_select rec s a ts :
    forall als i,
      rule_ok als = true -> In a als ->
      (a = [] -> forall a' t', In a' als -> first_tok a' = Some t' -> t' <> cur eof ts) ->
      (forall t es, a = T t :: es -> cur eof ts = t) ->
      exists j, alts eof rec s i als ts = alt_result rec s j a ts.
  Proof.
    induction als as [|a0 als IH]; intros i Hok Hin Hemp Htok; [contradiction|].
    unfold rule_ok in Hok. apply andb_true_iff in Hok. destruct Hok as [Hok Hlast].
    apply andb_true_iff in Hok. destruct Hok as [Hst Hnd].
    cbn [forallb] in Hst. apply andb_true_iff in Hst. destruct Hst as [Hst0 Hst].
    destruct Hin as [E|Hin].
    - subst a0. exists i. cbn [alts]. destruct a as [|[t|s'] es]; [reflexivity | | discriminate].
      rewrite (Htok t es eq_refl), N.eqb_refl. reflexivity.
    - assert (Hne : a0 <> []).
      { apply (empty_only_last_head _ _ Hlast). intros E. subst. contradiction. }
      cbn [alts]. destruct a0 as [|[t0|s0] es0]; [contradiction | | discriminate].
      destruct (N.eqb_spec (cur eof ts) t0) as [E|E].
      + exfalso. destruct a as [|[t|s'] es].
        * apply (Hemp eq_refl (T t0 :: es0) t0); [left; reflexivity | reflexivity | symmetry; exact E].
        * pose proof (Htok t es eq_refl) as Ht. rewrite E in Ht. subst t.
          cbn [firsts first_tok] in Hnd. cbn [nodupb] in Hnd. apply andb_true_iff in Hnd.
          destruct Hnd as [Hn1 _].
          assert (Hi : In t0 (firsts als)) by (eapply first_in_firsts; [exact Hin | reflexivity]).
          apply memb_In in Hi. unfold memb in Hi. rewrite Hi in Hn1. discriminate.
        * rewrite forallb_forall in Hst. specialize (Hst _ Hin). discriminate.
      + apply IH.
        * unfold rule_ok. rewrite Hst. cbn [firsts first_tok nodupb] in Hnd.
          apply andb_true_iff in Hnd. destruct Hnd as [_ Hnd]. rewrite Hnd.
          rewrite (empty_only_last_tail _ _ Hlast). reflexivity.
        * exact Hin.
        * intros Ea a' t' Ha'. apply Hemp; [exact Ea | right; exact Ha'].
        * exact Htok.
  Qed.

  Hypothesis Hrules : forallb (fun r => rule_ok (snd r)) g = true.

  Lemma gder_consume :
    forall s w rest, gder g eof s w rest ->
      forall fuel, consume g eof fuel s (w ++ rest) = OutOfFuel \/
                   exists tr, consume g eof fuel s (w ++ rest) = Ok rest tr.
  Proof.
    apply (gder_mut g eof
      (fun s w rest _ => forall fuel, consume g eof fuel s (w ++ rest) = OutOfFuel \/
                                      exists tr, consume g eof fuel s (w ++ rest) = Ok rest tr)
      (fun a w rest _ => forall f, expect eof (consume g eof f) a (w ++ rest) = OutOfFuel \/
                                   exists tr, expect eof (consume g eof f) a (w ++ rest) = Ok rest tr)).
    - (* gder_alt *)
      intros s a w rest Hin Hemp Hd IH fuel. destruct fuel as [|f]; [left; reflexivity|].
      cbn [consume].
      assert (Htok : forall t es, a = T t :: es -> cur eof (w ++ rest) = t).
      { intros t es E. subst a. inversion Hd; subst. reflexivity. }
      destruct (alts_select (consume g eof f) s a (w ++ rest) (rules g s) 0%nat
                  (rule_ok_alt g s Hrules) Hin Hemp Htok) as [j Hj].
      rewrite Hj. unfold alt_result. destruct a as [|e es].
      + inversion Hd; subst. right. eexists. reflexivity.
      + destruct (IH f) as [Ho|[tr Ho]]; rewrite Ho; [left; reflexivity | right; eexists; reflexivity].
    - intros rest f. right. eexists. reflexivity.
    - intros t es w rest Hd IH f. cbn [expect app cur]. rewrite N.eqb_refl. cbn [adv tl]. apply IH.
    - intros s es w1 w2 rest Hd1 IH1 Hd2 IH2 f. cbn [expect]. rewrite <- app_assoc.
      destruct (IH1 f) as [Ho|[tr Ho]]; rewrite Ho; [left; reflexivity|].
      destruct (IH2 f) as [Ho2|[tr2 Ho2]]; rewrite Ho2; [left; reflexivity | right; eexists; reflexivity].
  Qed.

  Theorem parse_complete_greedy start :
    no_tokb eof g = true ->
    forall w rest, gder g eof start w rest -> cur eof rest = eof ->
      exists tr, parse g eof start (w ++ rest) = Ok rest tr.
  Proof.
    intros Hno w rest Hd Hc. unfold parse.
    destruct (gder_consume _ _ _ Hd (fuel_for (w ++ rest))) as [Ho|[tr Ho]].
    - exfalso. eapply consume_fuel_enough; [exact Hno | | exact Ho]. unfold fuel_for. lia.
    - rewrite Ho, Hc, N.eqb_refl. eexists. reflexivity.
  Qed.
End Complete.

(* ------------------------------------------------------------------ structural checks ---------- *)
Section Checks.
  Variable g : grammar.

  Lemma dedup_step_In x l : In x (dedup_step l) -> In x l.
  Proof.
    induction l as [|y r IH]; cbn [dedup_step]; [auto|].
    destruct (existsb (N.eqb y) r); intros H; [right; auto|].
    destruct H as [E|H]; [left; exact E | right; auto].
  Qed.

  Lemma iter_inv {A} (P : A -> Prop) (f : A -> A) :
    (forall x, P x -> P (f x)) -> forall n x, P x -> P (iter n f x).
  Proof. intros Hf. induction n as [|n IH]; intros x Hx; cbn [iter]; auto. Qed.

  Lemma reach_set_sound start s : In s (reach_set g start) -> reach g start s.
  Proof.
    unfold reach_set. revert s.
    apply (iter_inv (fun acc => forall s, In s acc -> reach g start s)).
    - intros acc Hacc s Hs. apply dedup_step_In in Hs. unfold reach_step in Hs.
      apply in_app_or in Hs. destruct Hs as [Hs|Hs]; [auto|].
      apply in_flat_map in Hs. destruct Hs as [s0 [Hs0 Hs]].
      apply in_flat_map in Hs. destruct Hs as [a [Ha Hs]].
      unfold elem_syms in Hs. apply in_flat_map in Hs. destruct Hs as [e [He Hs]].
      destruct e as [t|s1]; [contradiction|]. destruct Hs as [E|[]]. subst s1.
      eapply reach_ref; [apply Hacc; exact Hs0 | exact Ha | exact He].
    - intros s [E|[]]. subst. constructor.
  Qed.

  Lemma alt_productive_sound acc a :
    (forall s, In s acc -> exists w, der g s w) -> alt_productiveb acc a = true -> exists w, ders g a w.
  Proof.
    intros Hacc. unfold alt_productiveb. induction a as [|e es IH]; intros H.
    - exists []. constructor.
    - destruct e as [t|s].
      + cbn in H. destruct (IH H) as [w Hw]. exists (t :: w). constructor. exact Hw.
      + cbn [elem_syms flat_map app forallb] in H. apply andb_true_iff in H. destruct H as [H1 H2].
        apply memb_In in H1. destruct (Hacc _ H1) as [w1 Hw1]. destruct (IH H2) as [w2 Hw2].
        exists (w1 ++ w2). constructor; assumption.
  Qed.

  Lemma prod_set_sound : NoDup (keys g) -> forall s, In s (prod_set g) -> exists w, der g s w.
  Proof.
    intros Hnd. unfold prod_set.
    apply (iter_inv (fun acc => forall s, In s acc -> exists w, der g s w)).
    - intros acc Hacc s Hs. unfold prod_step in Hs. apply dedup_step_In in Hs.
      apply in_app_or in Hs. destruct Hs as [Hs|Hs]; [auto|].
      apply in_map_iff in Hs. destruct Hs as [[s' als] [E Hs]]. cbn in E. subst s'.
      apply filter_In in Hs. destruct Hs as [Hin Hex]. cbn [snd] in Hex.
      apply existsb_exists in Hex. destruct Hex as [a [Ha Hp]].
      destruct (alt_productive_sound acc a Hacc Hp) as [w Hw].
      exists w. econstructor; [|exact Hw]. rewrite (rules_of_in g s als Hnd Hin). exact Ha.
    - intros s [].
  Qed.

  (* what ll1_ok means, property by property *)
  Definition distinct_first : Prop :=
    forall s, NoDup (firsts (rules g s)) /\
              forall a, In a (rules g s) -> a = [] \/ exists t es, a = T t :: es.
  Definition empty_last : Prop :=
    forall s pre a post, rules g s = pre ++ a :: post -> a = [] -> post = [].
  Definition closed : Prop :=
    forall s a s', In a (rules g s) -> In (NT s') a -> In s' (keys g).
  Definition all_reachable (start : N) : Prop := forall s, In s (keys g) -> reach g start s.
  Definition all_productive : Prop := forall s, In s (keys g) -> exists w, der g s w.

  Lemma empty_only_last_spec als : empty_only_last als = true ->
    forall pre a post, als = pre ++ a :: post -> a = [] -> post = [].
  Proof.
    induction als as [|a0 als IH]; intros H pre a post E Ea.
    - destruct pre; discriminate.
    - destruct pre as [|p pre]; cbn in E; inversion E; subst.
      + destruct post as [|b post]; [reflexivity|]. cbn in H. discriminate.
      + eapply IH; [| reflexivity | reflexivity].
        eapply empty_only_last_tail. exact H.
  Qed.

  Theorem ll1_ok_sound start eof :
    ll1_ok g start eof = true ->
    NoDup (keys g) /\ distinct_first /\ empty_last /\ closed /\ all_reachable start /\ all_productive
    /\ In start (keys g).
  Proof.
    unfold ll1_ok. intros H.
    repeat (apply andb_true_iff in H; let H' := fresh "H" in destruct H as [H H']).
    assert (Hnd : NoDup (keys g)) by (apply nodupb_NoDup; assumption).
    split; [exact Hnd|]. split; [|split; [|split; [|split; [|split]]]].
    - intros s. pose proof (rule_ok_alt g s H5) as Hr. unfold rule_ok in Hr.
      apply andb_true_iff in Hr. destruct Hr as [Hr _]. apply andb_true_iff in Hr. destruct Hr as [Hst Hn].
      split; [apply nodupb_NoDup; exact Hn|].
      intros a Ha. rewrite forallb_forall in Hst. specialize (Hst a Ha).
      destruct a as [|[t|s'] es]; [left; reflexivity | right; eauto | discriminate].
    - intros s pre a post E Ea. pose proof (rule_ok_alt g s H5) as Hr. unfold rule_ok in Hr.
      apply andb_true_iff in Hr. destruct Hr as [_ Hl]. eapply empty_only_last_spec; eassumption.
    - intros s a s' Ha Hs'. destruct (rules_in _ _ _ Ha) as [r [Hr [_ Har]]].
      unfold closedb in H4. rewrite forallb_forall in H4. specialize (H4 r Hr).
      rewrite forallb_forall in H4. specialize (H4 a Har). rewrite forallb_forall in H4.
      apply memb_In. apply H4. unfold elem_syms. apply in_flat_map. exists (NT s'). split; [exact Hs'|left; reflexivity].
    - intros s Hs. apply reach_set_sound. unfold all_reachableb in H1. cbv zeta in H1.
      rewrite forallb_forall in H1. apply memb_In. apply H1. exact Hs.
    - intros s Hs. apply prod_set_sound; [exact Hnd|]. unfold all_productiveb in H0. cbv zeta in H0.
      rewrite forallb_forall in H0. apply memb_In. apply H0. exact Hs.
    - apply memb_In. exact H2.
  Qed.

  Lemma ll1_ok_parts start eof :
    ll1_ok g start eof = true ->
    forallb (fun r => rule_ok (snd r)) g = true /\ no_tokb eof g = true.
  Proof.
    unfold ll1_ok. intros H.
    repeat (apply andb_true_iff in H; let H' := fresh "H" in destruct H as [H H']).
    split; assumption.
  Qed.
End Checks.

(* ------------------------------------------------------------------ certificates --------------- *)
Lemma memp_In x l : memp x l = true -> In x l.
Proof.
  unfold memp. rewrite existsb_exists. intros [y [Hy He]]. apply andb_true_iff in He. destruct He as [E1 E2].
  apply N.eqb_eq in E1. apply Nat.eqb_eq in E2. destruct x, y. cbn in *. subst. exact Hy.
Qed.

Lemma all_alternatives_In g s i :
  In (s, rules g s) g -> (i < length (rules g s))%nat -> In (s, i) (all_alternatives g).
Proof.
  intros Hin Hi. unfold all_alternatives. apply in_flat_map. exists (s, rules g s). split; [exact Hin|].
  cbn [fst snd]. apply in_map. apply in_seq. lia.
Qed.

Theorem witnesses_cover_sound g start eof ws :
  no_tokb eof g = true -> witnesses_cover g start eof ws = true ->
  forall s i, In (s, i) (all_alternatives g) ->
    exists w tr, parse g eof start w = Ok [] tr /\ In (s, i) tr /\ der g start w.
Proof.
  intros Hno H s i Hin. unfold witnesses_cover in H. apply andb_true_iff in H. destruct H as [Ht Hc].
  rewrite forallb_forall in Hc. specialize (Hc _ Hin). apply memp_In in Hc.
  apply in_map_iff in Hc. destruct Hc as [[[s' i'] toks] [E Hw]]. cbn in E. inversion E; subst.
  rewrite forallb_forall in Ht. specialize (Ht _ Hw). unfold takes in Ht.
  destruct (parse g eof start toks) as [rest tr| |] eqn:Ep; try discriminate.
  destruct rest; [|discriminate]. exists toks, tr. split; [exact Ep|]. split; [apply memp_In; exact Ht|].
  destruct (parse_sound_whole g eof start Hno _ _ _ Ep) as [w [Hd [Hw' _]]].
  rewrite app_nil_r in Hw'. subst. exact Hd.
Qed.

Lemma list_eqb_eq {A} (eqb : A -> A -> bool) :
  (forall x y, eqb x y = true -> x = y) -> forall l1 l2, list_eqb eqb l1 l2 = true -> l1 = l2.
Proof.
  intros He. induction l1 as [|x r IH]; destruct l2 as [|y r2]; cbn; intros H; try discriminate; [reflexivity|].
  apply andb_true_iff in H. destruct H as [H1 H2]. f_equal; [apply He; exact H1 | apply IH; exact H2].
Qed.

Theorem grammar_eqb_eq g1 g2 : grammar_eqb g1 g2 = true -> g1 = g2.
Proof.
  apply list_eqb_eq. intros [s1 a1] [s2 a2] H. cbn in H. apply andb_true_iff in H. destruct H as [H1 H2].
  apply N.eqb_eq in H1. subst. f_equal.
  revert H2. apply list_eqb_eq. apply list_eqb_eq.
  intros [x|x] [y|y] H; cbn in H; try discriminate; apply N.eqb_eq in H; subst; reflexivity.
Qed.
