(* Generic model of badwolf's table-driven predictive parser (bql/grammar/parser.go: consume / expect,
   bql/grammar/llk.go: LLk with infinite EOF padding), over token KINDS.  Definitions only. *)
From Coq Require Import List NArith Bool Arith.
Import ListNotations.
Open Scope N_scope.

Inductive elem := T (t : N) | NT (s : N).
Definition alt := list elem.
Definition grammar := list (N * list alt).

Fixpoint rules (g : grammar) (s : N) : list alt :=
  match g with
  | [] => []
  | (s', a) :: g' => if N.eqb s s' then a else rules g' s
  end.

Definition keys (g : grammar) : list N := map fst g.

(* result of the parser model *)
Inductive pres :=
| Ok (rest : list N) (trace : list (N * nat))   (* tokens left, alternatives taken (rule, index) in order *)
| Reject
| OutOfFuel.

Section Parser.
  Variable g : grammar.
  Variable eof : N.

  (* LLk.Current / CanAccept / Consume: the look-ahead window is padded with EOF once the channel is closed *)
  Definition cur (ts : list N) : N := match ts with [] => eof | t :: _ => t end.
  Definition adv (ts : list N) : list N := tl ts.

  Section Inner.
    Variable rec : N -> list N -> pres.

    (* Parser.expect: satisfy all elements of the chosen clause *)
    Fixpoint expect (es : alt) (ts : list N) : pres :=
      match es with
      | [] => Ok ts []
      | T t :: es' => if N.eqb (cur ts) t then expect es' (adv ts) else Reject
      | NT s :: es' =>
          match rec s ts with
          | Ok ts' tr =>
              match expect es' ts' with
              | Ok ts'' tr' => Ok ts'' (tr ++ tr')
              | r => r
              end
          | r => r
          end
      end.

    (* Parser.consume: the loop over the clauses of a symbol, in order *)
    Fixpoint alts (s : N) (i : nat) (als : list alt) (ts : list N) : pres :=
      match als with
      | [] => Reject                                      (* "could not consume token" *)
      | a :: rest =>
          match a with
          | [] => Ok ts [(s, i)]                          (* empty clause: return true, nil *)
          | NT _ :: _ => Reject                           (* "not left factored grammar" *)
          | T t :: _ =>
              if N.eqb (cur ts) t
              then match expect a ts with
                   | Ok ts' tr => Ok ts' ((s, i) :: tr)
                   | r => r
                   end
              else alts s (S i) rest ts
          end
      end.
  End Inner.

  Fixpoint consume (fuel : nat) (s : N) (ts : list N) : pres :=
    match fuel with
    | O => OutOfFuel
    | S f => alts (consume f) s 0%nat (rules g s) ts
    end.

  Definition fuel_for (ts : list N) : nat := S (S (length ts)).

  (* Parser.Parse as written in the repo (after the fix: commit that adds the end-of-input check):
     consume START, then the current token must be EOF. *)
  Definition parse (start : N) (ts : list N) : pres :=
    match consume (fuel_for ts) start ts with
    | Ok rest tr => if N.eqb (cur rest) eof then Ok rest tr else Reject
    | r => r
    end.

  (* Parser.Parse without the end-of-input check (the pinned tree before the fix) *)
  Definition parse_nocheck (start : N) (ts : list N) : pres := consume (fuel_for ts) start ts.
End Parser.

(* ---------- structural checks (booleans), all computable over a concrete table ---------- *)

Definition first_tok (a : alt) : option N := match a with T t :: _ => Some t | _ => None end.
Definition is_empty (a : alt) : bool := match a with [] => true | _ => false end.
Definition starts_with_token (a : alt) : bool := match a with [] => true | T _ :: _ => true | NT _ :: _ => false end.

Fixpoint nodupb (l : list N) : bool :=
  match l with [] => true | x :: r => negb (existsb (N.eqb x) r) && nodupb r end.

Fixpoint firsts (als : list alt) : list N :=
  match als with [] => [] | a :: r => match first_tok a with Some t => t :: firsts r | None => firsts r end end.

(* an empty alternative may only be the last one *)
Fixpoint empty_only_last (als : list alt) : bool :=
  match als with
  | [] => true
  | [a] => true
  | a :: r => negb (is_empty a) && empty_only_last r
  end.

Definition rule_ok (als : list alt) : bool :=
  forallb starts_with_token als && nodupb (firsts als) && empty_only_last als.

Definition elem_syms (a : alt) : list N :=
  flat_map (fun e => match e with NT s => [s] | T _ => [] end) a.
Definition elem_toks (a : alt) : list N :=
  flat_map (fun e => match e with T t => [t] | NT _ => [] end) a.


Definition memb (x : N) (l : list N) : bool := existsb (N.eqb x) l.

Definition closedb (g : grammar) : bool :=
  forallb (fun r => forallb (fun a => forallb (fun s => memb s (keys g)) (elem_syms a)) (snd r)) g.

Definition no_tokb (t : N) (g : grammar) : bool :=
  forallb (fun r => forallb (fun a => negb (memb t (elem_toks a))) (snd r)) g.

(* reachability from a start symbol: iterate "add everything referenced by what is reached" |g| times *)
Definition reach_step (g : grammar) (acc : list N) : list N :=
  acc ++ flat_map (fun s => flat_map elem_syms (rules g s)) acc.
Fixpoint iter {A} (n : nat) (f : A -> A) (x : A) : A := match n with O => x | S k => iter k f (f x) end.
Fixpoint dedup_step (l : list N) : list N :=
  match l with [] => [] | x :: r => if existsb (N.eqb x) r then dedup_step r else x :: dedup_step r end.
Definition reach_set (g : grammar) (start : N) : list N :=
  iter (length g) (fun acc => dedup_step (reach_step g acc)) [start].
Definition all_reachableb (g : grammar) (start : N) : bool :=
  let rs := reach_set g start in forallb (fun s => memb s rs) (keys g).

(* productivity: a symbol is productive when some alternative has only tokens and productive symbols *)
Definition alt_productiveb (acc : list N) (a : alt) : bool := forallb (fun s => memb s acc) (elem_syms a).
Definition prod_step (g : grammar) (acc : list N) : list N :=
  dedup_step (acc ++ map fst (filter (fun r => existsb (alt_productiveb acc) (snd r)) g)).
Definition prod_set (g : grammar) : list N := iter (length g) (prod_step g) [].
Definition all_productiveb (g : grammar) : bool := let ps := prod_set g in forallb (fun s => memb s ps) (keys g).

Definition ll1_ok (g : grammar) (start eof : N) : bool :=
  nodupb (keys g) && forallb (fun r => rule_ok (snd r)) g && closedb g && no_tokb eof g
  && memb start (keys g) && all_reachableb g start && all_productiveb g.

(* ---------- certificates for liveness of alternatives ---------- *)

Definition memp (x : N * nat) (l : list (N * nat)) : bool :=
  existsb (fun y => N.eqb (fst x) (fst y) && Nat.eqb (snd x) (snd y)) l.

(* the witness sentence is accepted as a whole (nothing left) and its parse takes alternative (s,i) *)
Definition takes (g : grammar) (start eof : N) (w : N * nat * list N) : bool :=
  match w with
  | (s, i, toks) =>
      match parse g eof start toks with
      | Ok [] tr => memp (s, i) tr
      | _ => false
      end
  end.

Definition all_alternatives (g : grammar) : list (N * nat) :=
  flat_map (fun r => map (fun i => (fst r, i)) (seq 0 (length (snd r)))) g.

Definition witnesses_cover (g : grammar) (start eof : N) (ws : list (N * nat * list N)) : bool :=
  forallb (takes g start eof) ws
  && forallb (fun a => memp a (map (fun w => (fst (fst w), snd (fst w))) ws)) (all_alternatives g).

(* same table (rules and alternatives) *)
Definition elem_eqb (a b : elem) : bool :=
  match a, b with T x, T y => N.eqb x y | NT x, NT y => N.eqb x y | _, _ => false end.
Fixpoint list_eqb {A} (eqb : A -> A -> bool) (l1 l2 : list A) : bool :=
  match l1, l2 with
  | [], [] => true
  | x :: r1, y :: r2 => eqb x y && list_eqb eqb r1 r2
  | _, _ => false
  end.
Definition grammar_eqb (g1 g2 : grammar) : bool :=
  list_eqb (fun r1 r2 => N.eqb (fst r1) (fst r2) && list_eqb (list_eqb elem_eqb) (snd r1) (snd r2)) g1 g2.
