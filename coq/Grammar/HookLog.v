(* Which tokens does a hook closure see, and in which order?  The parser with hooks is run with a ghost log of every
   ProcessedElement call (whatever the user hooks do, also when they fail).  For a closure attached to a set of
   alternatives, the tokens it sees are the log entries of those alternatives that are tokens.  Two theorems:
   - if the closure is attached only to token-only alternatives that begin with a "reset" token, the visible
     sequence of any run is empty or begins with a reset token (collectGlobalBounds);
   - if the closure is attached to START alternatives that begin with a reset token and otherwise only to rules
     referenced exclusively from alternatives it is attached to, the same holds for a run from START (dataAccumulator). *)
From Coq Require Import List NArith Bool Arith Lia.
Import ListNotations.
From BWGrammar Require Import Grammar HookParser.
Open Scope N_scope.

Section Log.
  Variable g : grammar.
  Variables Tok USt : Type.
  Variable kind : Tok -> N.
  Variable eof_tok : Tok.
  Variable ustart uend : N -> nat -> USt -> USt * bool.
  Variable uelem : N -> nat -> elem -> Tok -> USt -> USt * bool.

  Definition entry := (N * nat * elem * Tok)%type.
  Definition LSt := (USt * list entry)%type.

  Definition lstart (s : N) (i : nat) (st : LSt) : LSt * bool :=
    let (u, b) := ustart s i (fst st) in ((u, snd st), b).
  Definition lend (s : N) (i : nat) (st : LSt) : LSt * bool :=
    let (u, b) := uend s i (fst st) in ((u, snd st), b).
  Definition lelem (s : N) (i : nat) (e : elem) (t : Tok) (st : LSt) : LSt * bool :=
    let (u, b) := uelem s i e t (fst st) in ((u, snd st ++ [(s, i, e, t)]), b).

  Notation lexpect_elems := (hexpect_elems Tok LSt kind eof_tok lelem).
  Notation lexpect := (hexpect Tok LSt kind eof_tok lstart lend lelem).
  Notation lalts := (halts Tok LSt kind eof_tok lstart lend lelem).
  Notation lconsume := (hconsume g Tok LSt kind eof_tok lstart lend lelem).

  Variable attached : N -> nat -> bool.     (* the closure is the ProcessedElement hook of alternative (s,i) *)

  Definition vis_entry (x : entry) : bool :=
    match x with (s, i, T _, _) => attached s i | _ => false end.
  Definition visible (l : list entry) : list Tok := map snd (filter vis_entry l).

  Lemma visible_app l1 l2 : visible (l1 ++ l2) = visible l1 ++ visible l2.
  Proof. unfold visible. rewrite filter_app, map_app. reflexivity. Qed.

  (* "whatever the outcome, the log grew by some d whose visible part satisfies Q" *)
  Definition ext (Q : list Tok -> Prop) (st0 : LSt) (r : hres Tok LSt) : Prop :=
    match r with
    | HOk _ st' | HReject st' | HHookErr st' => exists d, snd st' = snd st0 ++ d /\ Q (visible d)
    | HOutOfFuel => True
    end.

  Lemma ext_weaken (Q Q' : list Tok -> Prop) st0 r : (forall v, Q v -> Q' v) -> ext Q st0 r -> ext Q' st0 r.
  Proof. intros H. destruct r; cbn; try exact (fun x => x); intros [d [E Hq]]; exists d; split; auto. Qed.

  Lemma ext_refl (Q : list Tok -> Prop) (st : LSt) : Q [] -> (exists d, snd st = snd st ++ d /\ Q (visible d)).
  Proof. intros H. exists []. rewrite app_nil_r. split; [reflexivity | exact H]. Qed.

  (* chaining: first the log grows by d1 (reaching st1), then by d2 *)
  Lemma ext_trans (Q : list Tok -> Prop) (st0 st1 : LSt) r d1 :
    (forall v1 v2, Q v1 -> Q v2 -> Q (v1 ++ v2)) ->
    snd st1 = snd st0 ++ d1 -> Q (visible d1) -> ext Q st1 r -> ext Q st0 r.
  Proof.
    intros Happ E1 Q1. destruct r; cbn; try exact (fun x => x); intros [d2 [E2 Q2]];
      exists (d1 ++ d2); (split; [rewrite E2, E1, app_assoc; reflexivity | rewrite visible_app; apply Happ; assumption]).
  Qed.

  Section Elems.
    Variable rec : N -> list Tok -> LSt -> hres Tok LSt.
    Variable Q : list Tok -> Prop.
    Hypothesis Qnil : Q [].
    Hypothesis Qapp : forall v1 v2, Q v1 -> Q v2 -> Q (v1 ++ v2).

    (* the elements of an alternative whose own hook entries preserve Q (e.g. because the closure is NOT attached to
       it, so they are invisible): only nested rules contribute *)
    Lemma elems_gen s i : (forall e t v, Q v -> Q (v ++ visible [(s, i, e, t)])) ->
      forall es, (forall r, In (NT r) es -> forall ts st, ext Q st (rec r ts st)) ->
      forall ts st, ext Q st (lexpect_elems rec s i es ts st).
    Proof.
      intros Hx. induction es as [|e es IH]; intros Hrec ts st; cbn [HookParser.hexpect_elems].
      - cbn. apply ext_refl. exact Qnil.
      - assert (Hrec' : forall r, In (NT r) es -> forall ts st, ext Q st (rec r ts st))
          by (intros r Hr; apply Hrec; right; exact Hr).
        (* one element: after consuming it the log has grown by a Q-piece; then the hook entry (invisible) *)
        assert (Hstep : forall ts' st', (exists d, snd st' = snd st ++ d /\ Q (visible d)) ->
                  ext Q st (match lelem s i e (hcur Tok eof_tok ts) st' with
                            | (st'', true) => lexpect_elems rec s i es ts' st''
                            | (st'', false) => HHookErr st'' end)).
        { intros ts' st' [d [Ed Qd]]. unfold lelem. destruct (uelem s i e (hcur Tok eof_tok ts) (fst st')) as [u b].
          set (st'' := (u, snd st' ++ [(s, i, e, hcur Tok eof_tok ts)])).
          assert (E'' : snd st'' = snd st ++ (d ++ [(s, i, e, hcur Tok eof_tok ts)])).
          { unfold st''. cbn [snd]. rewrite Ed, app_assoc. reflexivity. }
          assert (Q'' : Q (visible (d ++ [(s, i, e, hcur Tok eof_tok ts)]))).
          { rewrite visible_app. apply Hx. exact Qd. }
          destruct b.
          - eapply ext_trans; [exact Qapp | exact E'' | exact Q'' | apply IH; exact Hrec'].
          - cbn. eexists. split; [exact E'' | exact Q'']. }
        destruct e as [t|r].
        + destruct (N.eqb (kind (hcur Tok eof_tok ts)) t).
          * apply Hstep. apply ext_refl. exact Qnil.
          * cbn. apply ext_refl. exact Qnil.
        + pose proof (Hrec r (or_introl eq_refl) ts st) as Hr.
          destruct (rec r ts st) as [ts' st'|st'|st'|]; cbn in Hr |- *; try exact Hr.
          apply Hstep. exact Hr.
    Qed.

    Lemma expect_gen s i a : (forall e t v, Q v -> Q (v ++ visible [(s, i, e, t)])) ->
      (forall r, In (NT r) a -> forall ts st, ext Q st (rec r ts st)) ->
      forall ts st, ext Q st (lexpect rec s i a ts st).
    Proof.
      intros Hx Hrec ts st. unfold HookParser.hexpect, lstart.
      destruct (ustart s i (fst st)) as [u [|]]; [|cbn; apply ext_refl; exact Qnil].
      pose proof (elems_gen s i Hx a Hrec ts (u, snd st)) as He.
      destruct (lexpect_elems rec s i a ts (u, snd st)) as [ts' st2|st2|st2|]; cbn in He |- *; try exact He.
      unfold lend. destruct (uend s i (fst st2)) as [u3 [|]]; cbn; exact He.
    Qed.
  End Elems.

  Lemma unattached_invisible s i : attached s i = false ->
    forall (Q : list Tok -> Prop) e t v, Q v -> Q (v ++ visible [(s, i, e, t)]).
  Proof.
    intros Hna Q e t v Hv. unfold visible. cbn. destruct e; [rewrite Hna|]; cbn; rewrite app_nil_r; exact Hv.
  Qed.

  Variable reset : N -> bool.

  Definition okd (v : list Tok) : Prop := v = [] \/ exists t r, v = t :: r /\ reset (kind t) = true.

  Lemma okd_nil : okd [].
  Proof. left. reflexivity. Qed.

  Lemma okd_app v1 v2 : okd v1 -> okd v2 -> okd (v1 ++ v2).
  Proof.
    intros [->|[t [r [-> Ht]]]] H2; [exact H2|]. right. exists t, (r ++ v2). split; [reflexivity | exact Ht].
  Qed.

  Definition grows (rec : N -> list Tok -> LSt -> hres Tok LSt) : Prop :=
    forall r ts st, ext (fun _ => True) st (rec r ts st).

  (* an alternative the closure IS attached to and that begins with a reset token: the first thing the run does after
     selecting it is to consume that token and call the hook on it *)
  Lemma expect_attached_first rec s i t es ts st :
    grows rec -> attached s i = true -> reset t = true -> N.eqb (kind (hcur Tok eof_tok ts)) t = true ->
    ext okd st (lexpect rec s i (T t :: es) ts st).
  Proof.
    intros Hg Ha Hr Hk. unfold HookParser.hexpect, lstart.
    destruct (ustart s i (fst st)) as [u [|]]; [|cbn; apply ext_refl; apply okd_nil].
    cbn [HookParser.hexpect_elems]. rewrite Hk. unfold lelem at 1. cbn [fst snd].
    destruct (uelem s i (T t) (hcur Tok eof_tok ts) u) as [u2 b].
    set (x := (s, i, T t, hcur Tok eof_tok ts)).
    assert (Hgrow : forall st' : LSt, (exists d, snd st' = (snd st ++ [x]) ++ d /\ True) ->
                    exists d, snd st' = snd st ++ d /\ okd (visible d)).
    { intros st' [d [Ed _]]. exists ([x] ++ d). split; [rewrite Ed, <- app_assoc; reflexivity|].
      rewrite visible_app. unfold visible at 1. cbn. rewrite Ha. cbn. right.
      exists (hcur Tok eof_tok ts), (visible d). split; [reflexivity|].
      apply N.eqb_eq in Hk. rewrite Hk. exact Hr. }
    destruct b; [|cbn; apply (Hgrow (u2, snd st ++ [x])); exists []; cbn [snd]; rewrite app_nil_r; split; [reflexivity | exact I]].
    pose proof (elems_gen rec (fun _ => True) I (fun _ _ _ _ => I) s i (fun _ _ _ _ => I) es
                  (fun r _ ts0 st0 => Hg r ts0 st0) (tl ts) (u2, snd st ++ [x])) as He.
    destruct (lexpect_elems rec s i es (tl ts) (u2, snd st ++ [x])) as [ts' st2|st2|st2|]; cbn in He |- *;
      try (apply Hgrow; exact He); try exact I.
    unfold lend. destruct (uend s i (fst st2)) as [u3 [|]]; cbn; apply Hgrow; exact He.
  Qed.
End Log.
