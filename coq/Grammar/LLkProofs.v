(* The look-ahead window of llk.go is a faithful view of the token list, for every k, every token list and every run
   of Consume attempts: Current is the head of the remaining list (EOF pad when it is exhausted), Peek(j) its j-th
   element, a successful Consume advances the list by exactly one token, a failed one changes nothing. *)
From Coq Require Import List NArith Bool Arith Lia.
Import ListNotations.
From BWGrammar Require Import Grammar LLk.

Section LLkProofs.
  Variable Tok : Type.
  Variable pad : Tok.
  Variable kind : Tok -> N.

  Notation llk := (llk Tok).
  Notation append_next := (append_next Tok pad).
  Notation fill := (fill Tok pad).
  Notation new_llk := (new_llk Tok pad).
  Notation current := (current Tok).
  Notation peek := (peek Tok).
  Notation consume_tok := (consume_tok Tok pad kind).
  Notation consumes := (consumes Tok pad kind).
  Notation lcur := (lcur Tok pad).
  Notation lnth := (lnth Tok pad).

  (* what the window and the not yet delivered stream hold together: the remaining list followed by the pads appended so far *)
  Definition holds (l : llk) (ts : list Tok) : Prop :=
    exists m, win Tok l ++ stream Tok l = ts ++ repeat pad m /\ (m <> 0%nat -> stream Tok l = []).

  Definition R (l : llk) (ts : list Tok) : Prop := length (win Tok l) = S (la Tok l) /\ holds l ts.

  Lemma repeat_snoc (x : Tok) m : repeat x m ++ [x] = repeat x (S m).
  Proof. induction m as [|m IH]; cbn; [reflexivity|]. rewrite IH. reflexivity. Qed.

  Lemma holds_append l ts : holds l ts -> holds (append_next l) ts.
  Proof.
    intros [m [E Hm]]. unfold LLk.append_next. destruct (stream Tok l) as [|t r] eqn:Es; unfold holds; simpl.
    - exists (S m). split; [|reflexivity]. rewrite app_nil_r in *. rewrite E. rewrite <- app_assoc, repeat_snoc. reflexivity.
    - exists m. split.
      + rewrite <- app_assoc. cbn. exact E.
      + intros Hne. specialize (Hm Hne). discriminate.
  Qed.

  Lemma append_len l : length (win Tok (append_next l)) = S (length (win Tok l)) /\ la Tok (append_next l) = la Tok l.
  Proof.
    unfold LLk.append_next. destruct (stream Tok l); cbn [win la]; rewrite app_length; cbn; split; try lia; reflexivity.
  Qed.

  Lemma fill_spec n : forall l ts, holds l ts ->
    holds (fill n l) ts /\ length (win Tok (fill n l)) = (n + length (win Tok l))%nat /\ la Tok (fill n l) = la Tok l.
  Proof.
    induction n as [|n IH]; intros l ts H; cbn [LLk.fill]; [split; [exact H | split; reflexivity]|].
    destruct (IH (append_next l) ts (holds_append l ts H)) as [H1 [H2 H3]].
    destruct (append_len l) as [L1 L2]. split; [exact H1 | split; [rewrite H2, L1; lia | rewrite H3, L2; reflexivity]].
  Qed.

  Theorem new_R toks k : R (new_llk toks k) toks /\ la Tok (new_llk toks k) = k.
  Proof.
    unfold LLk.new_llk.
    assert (H0 : holds (mkLLk Tok k toks []) toks) by (exists 0%nat; cbn; rewrite app_nil_r; split; [reflexivity | intros C; contradiction]).
    destruct (fill_spec (S k) _ _ H0) as [H1 [H2 H3]]. cbn [win la length] in H2, H3.
    split; [split; [rewrite H2, H3; lia | exact H1] | exact H3].
  Qed.

  Lemma nth_pads (ts : list Tok) m j : nth j (ts ++ repeat pad m) pad = nth j ts pad.
  Proof.
    destruct (Nat.lt_ge_cases j (length ts)) as [Hlt|Hge].
    - apply app_nth1. exact Hlt.
    - rewrite app_nth2 by exact Hge. rewrite (nth_overflow ts) by exact Hge.
      generalize (j - length ts)%nat. induction m as [|m IH]; intros [|i]; cbn; auto.
  Qed.

  Lemma win_nth l ts j : R l ts -> (j <= la Tok l)%nat -> nth_error (win Tok l) j = Some (lnth ts j).
  Proof.
    intros [Hl [m [E _]]] Hj. unfold LLk.lnth.
    assert (Hlt : (j < length (win Tok l))%nat) by lia.
    rewrite <- (nth_pads ts m j), <- E, app_nth1 by exact Hlt.
    apply nth_error_nth'. exact Hlt.
  Qed.

  Theorem current_spec l ts : R l ts -> current l = Some (lcur ts).
  Proof.
    intros H. unfold LLk.current. rewrite (win_nth l ts 0 H) by lia. unfold LLk.lnth, LLk.lcur. destruct ts; reflexivity.
  Qed.

  Theorem peek_spec l ts j : R l ts -> (1 <= j <= la Tok l)%nat -> peek l j = Some (lnth ts j).
  Proof.
    intros H [H1 H2]. unfold LLk.peek.
    apply Nat.leb_le in H1. pose proof H2 as H2'. apply Nat.leb_le in H2. rewrite H1, H2. cbn [andb]. apply win_nth; assumption.
  Qed.

  Theorem peek_out_of_range l j : (j = 0 \/ la Tok l < j)%nat -> peek l j = None.
  Proof.
    intros H. unfold LLk.peek. destruct H as [->|H]; [reflexivity|].
    assert (E : (j <=? la Tok l)%nat = false) by (apply Nat.leb_gt; exact H). rewrite E, andb_false_r. reflexivity.
  Qed.

  Lemma holds_tl w0 wr s ts (la0 : nat) :
    holds (mkLLk Tok la0 s (w0 :: wr)) ts -> holds (mkLLk Tok la0 s wr) (tl ts).
  Proof.
    intros [m [E Hm]]. cbn [win stream] in *. destruct ts as [|t ts'].
    - destruct m as [|m']; cbn in E; [discriminate|]. inversion E as [[E0 E1]].
      exists m'. cbn. split; [exact E1|]. intros _. apply Hm. discriminate.
    - cbn in E. inversion E as [[E0 E1]]. exists m. cbn. split; [exact E1 | exact Hm].
  Qed.

  Theorem consume_spec l ts ty : R l ts ->
    let (l', b) := consume_tok l ty in
    b = N.eqb (kind (lcur ts)) ty /\ R l' (if b then tl ts else ts) /\ la Tok l' = la Tok l.
  Proof.
    intros H. unfold LLk.consume_tok, LLk.can_accept. rewrite (current_spec l ts H).
    destruct (N.eqb (kind (lcur ts)) ty); [|repeat split; [destruct H; assumption | destruct H; assumption]].
    destruct H as [Hl Hh]. destruct l as [k s w]. cbn [win la stream] in *.
    destruct w as [|w0 wr]; [discriminate|]. cbn [tl].
    pose proof (holds_tl w0 wr s ts k Hh) as Ht.
    pose proof (holds_append _ _ Ht) as Ha. destruct (append_len (mkLLk Tok k s wr)) as [L1 L2]. cbn [win la] in L1, L2.
    repeat split; [rewrite L1, L2; cbn in Hl; lia | exact Ha | exact L2].
  Qed.

  (* any run of Consume attempts: the outcomes are those of matching the list head by head, and the state reached
     is a view of the list that remains *)
  Fixpoint lconsumes (ts : list Tok) (tys : list N) : list Tok * list bool :=
    match tys with
    | [] => (ts, [])
    | ty :: r => let b := N.eqb (kind (lcur ts)) ty in
                 let (ts', bs) := lconsumes (if b then tl ts else ts) r in (ts', b :: bs)
    end.

  Theorem consumes_spec tys : forall l ts, R l ts ->
    snd (consumes l tys) = snd (lconsumes ts tys) /\ R (fst (consumes l tys)) (fst (lconsumes ts tys)).
  Proof.
    induction tys as [|ty r IH]; intros l ts H; cbn [LLk.consumes lconsumes]; [split; [reflexivity | exact H]|].
    pose proof (consume_spec l ts ty H) as Hc. destruct (consume_tok l ty) as [l' b]. destruct Hc as [Eb [HR _]].
    rewrite <- Eb. specialize (IH l' _ HR).
    destruct (consumes l' r) as [l'' bs]. destruct (lconsumes (if b then tl ts else ts) r) as [ts' bs'].
    cbn [fst snd] in *. destruct IH as [I1 I2]. split; [rewrite I1; reflexivity | exact I2].
  Qed.

  (* the parser model's view: its [cur] over token kinds is the kind of the window's current token *)
  Theorem current_is_parser_cur l ts : R l ts ->
    option_map kind (current l) = Some (cur (kind pad) (map kind ts)).
  Proof. intros H. rewrite (current_spec l ts H). destruct ts; reflexivity. Qed.
End LLkProofs.
