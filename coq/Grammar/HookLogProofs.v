From Coq Require Import List NArith Bool Arith Lia.
Import ListNotations.
From BWGrammar Require Import Grammar HookParser HookLog.
Open Scope N_scope.

(* boolean table checks and their meaning *)
Fixpoint alts_check (P : nat -> alt -> bool) (i : nat) (als : list alt) : bool :=
  match als with [] => true | a :: r => P i a && alts_check P (S i) r end.

Lemma alts_check_nth P als : forall i0, alts_check P i0 als = true ->
  forall i a, nth_error als i = Some a -> P (i0 + i)%nat a = true.
Proof.
  induction als as [|a0 als IH]; intros i0 H i a Hn; [destruct i; discriminate|].
  cbn in H. apply andb_true_iff in H. destruct H as [H0 H1]. destruct i as [|i]; cbn in Hn.
  - inversion Hn; subst. rewrite Nat.add_0_r. exact H0.
  - replace (i0 + S i)%nat with (S i0 + i)%nat by lia. eapply IH; eassumption.
Qed.

Definition table_check (g : grammar) (P : N -> nat -> alt -> bool) : bool :=
  forallb (fun s => alts_check (P s) 0 (rules g s)) (keys g).

Lemma rules_not_key g s : ~ In s (keys g) -> rules g s = [].
Proof.
  induction g as [|[s' a] g IH]; cbn; intros H; [reflexivity|].
  destruct (N.eqb_spec s s') as [E|E]; [exfalso; apply H; left; symmetry; exact E|]. apply IH. intros C. apply H. right. exact C.
Qed.

Lemma table_check_spec g P : table_check g P = true ->
  forall s i a, nth_error (rules g s) i = Some a -> P s i a = true.
Proof.
  intros H s i a Hn. destruct (in_dec N.eq_dec s (keys g)) as [Hin|Hnin].
  - unfold table_check in H. rewrite forallb_forall in H. specialize (H s Hin).
    apply (alts_check_nth (P s) (rules g s) 0%nat H i a Hn).
  - rewrite (rules_not_key g s Hnin) in Hn. destruct i; discriminate.
Qed.

Section Visible.
  Variable g : grammar.
  Variables Tok USt : Type.
  Variable kind : Tok -> N.
  Variable eof_tok : Tok.
  Variable ustart uend : N -> nat -> USt -> USt * bool.
  Variable uelem : N -> nat -> elem -> Tok -> USt -> USt * bool.
  Variable attached : N -> nat -> bool.
  Variable reset : N -> bool.

  Notation LSt := (LSt Tok USt).
  Notation lconsume := (hconsume g Tok LSt kind eof_tok (lstart Tok USt ustart) (lend Tok USt uend) (lelem Tok USt uelem)).
  Notation lalts := (halts Tok LSt kind eof_tok (lstart Tok USt ustart) (lend Tok USt uend) (lelem Tok USt uelem)).
  Notation ext := (ext Tok USt attached).
  Notation okd := (okd Tok kind reset).

  (* generic induction over the alternatives of a rule: [sel] says what is known about the selected alternative *)
  Lemma alts_ext (Q : list Tok -> Prop) rec s :
    Q [] ->
    (forall i a ts st, nth_error (rules g s) i = Some a -> a <> [] ->
        (exists t es, a = T t :: es /\ N.eqb (kind (hcur Tok eof_tok ts)) t = true) ->
        ext Q st (hexpect Tok LSt kind eof_tok (lstart Tok USt ustart) (lend Tok USt uend) (lelem Tok USt uelem) rec s i a ts st)) ->
    forall als i0, (forall i a, nth_error als i = Some a -> nth_error (rules g s) (i0 + i) = Some a) ->
    forall ts st, ext Q st (lalts rec s i0 als ts st).
  Proof.
    intros Qnil Hsel. induction als as [|a als IH]; intros i0 Hnth ts st; cbn [HookParser.halts].
    - cbn. exists []. rewrite app_nil_r. split; [reflexivity | exact Qnil].
    - destruct a as [|[t|r] es].
      + cbn. exists []. rewrite app_nil_r. split; [reflexivity | exact Qnil].
      + destruct (N.eqb (kind (hcur Tok eof_tok ts)) t) eqn:E.
        * apply Hsel; [specialize (Hnth 0%nat (T t :: es) eq_refl); rewrite Nat.add_0_r in Hnth; exact Hnth
                      | discriminate | exists t, es; split; [reflexivity | exact E]].
        * apply IH. intros i a Hn. replace (S i0 + i)%nat with (i0 + S i)%nat by lia. apply Hnth. exact Hn.
      + cbn. exists []. rewrite app_nil_r. split; [reflexivity | exact Qnil].
  Qed.

  Lemma consume_grows : forall f, grows Tok USt attached (lconsume f).
  Proof.
    induction f as [|f IH]; intros s ts st; cbn [HookParser.hconsume]; [exact I|].
    apply (alts_ext (fun _ => True) (lconsume f) s I); [|intros i a H; exact H].
    intros i a ts0 st0 _ _ _. apply (expect_gen Tok USt kind eof_tok ustart uend uelem attached (lconsume f) (fun _ => True) I (fun _ _ _ _ => I)).
    - intros; exact I.
    - intros r _ ts1 st1. apply IH.
  Qed.

  (* ---------- closures attached only to alternatives that are empty or begin with a reset token ---------- *)
  Section AllReset.
    Hypothesis Hatt : forall s i a, nth_error (rules g s) i = Some a -> attached s i = true ->
      a = [] \/ exists t es, a = T t :: es /\ reset t = true.

    Theorem visible_starts_with_reset : forall f s ts st, ext okd st (lconsume f s ts st).
    Proof.
      induction f as [|f IH]; intros s ts st; cbn [HookParser.hconsume]; [exact I|].
      apply (alts_ext okd (lconsume f) s (okd_nil Tok kind reset)); [|intros i a H; exact H].
      intros i a ts0 st0 Hn Hne [t [es [Ea Hk]]]. subst a.
      destruct (attached s i) eqn:Ha.
      - destruct (Hatt s i _ Hn Ha) as [C|[t' [es' [E Hr]]]]; [discriminate|]. inversion E; subst t' es'.
        apply expect_attached_first; [apply consume_grows | exact Ha | exact Hr | exact Hk].
      - apply (expect_gen Tok USt kind eof_tok ustart uend uelem attached (lconsume f) okd (okd_nil Tok kind reset) (okd_app Tok kind reset)).
        + intros e t0 v Hv. apply unattached_invisible; assumption.
        + intros r _ ts1 st1. apply IH.
    Qed.
  End AllReset.

  (* ---------- closures attached to START alternatives beginning with a reset token, and otherwise only to rules
                that are referenced exclusively from alternatives they are attached to ---------- *)
  Section Guarded.
    Variable start : N.
    Variable hrule : N -> bool.
    Hypothesis Hhrule : forall s i, attached s i = true -> hrule s = true.
    Hypothesis Hstart : forall i a, nth_error (rules g start) i = Some a -> attached start i = true ->
      exists t es, a = T t :: es /\ reset t = true.
    Hypothesis Hguard : forall s i a, nth_error (rules g s) i = Some a -> attached s i = false ->
      forall r, In (NT r) a -> hrule r = false /\ r <> start.

    Lemma quiet : forall f s ts st, hrule s = false -> s <> start ->
      ext (fun v => v = []) st (lconsume f s ts st).
    Proof.
      induction f as [|f IH]; intros s ts st Hs Hne; cbn [HookParser.hconsume]; [exact I|].
      apply (alts_ext (fun v => v = []) (lconsume f) s eq_refl); [|intros i a H; exact H].
      intros i a ts0 st0 Hn _ _.
      assert (Ha : attached s i = false).
      { destruct (attached s i) eqn:E; [|reflexivity]. rewrite (Hhrule s i E) in Hs. discriminate. }
      apply (expect_gen Tok USt kind eof_tok ustart uend uelem attached (lconsume f) (fun v => v = []) eq_refl).
      - intros v1 v2 -> ->. reflexivity.
      - intros e t0 v Hv. apply (unattached_invisible Tok attached s i Ha (fun v => v = [])). exact Hv.
      - intros r Hr ts1 st1. destruct (Hguard s i a Hn Ha r Hr) as [H1 H2]. apply IH; assumption.
    Qed.

    Theorem start_visible_starts_with_reset : forall f ts st, ext okd st (lconsume f start ts st).
    Proof.
      intros [|f] ts st; cbn [HookParser.hconsume]; [exact I|].
      apply (alts_ext okd (lconsume f) start (okd_nil Tok kind reset)); [|intros i a H; exact H].
      intros i a ts0 st0 Hn Hne [t [es [Ea Hk]]]. subst a.
      destruct (attached start i) eqn:Ha.
      - destruct (Hstart i _ Hn Ha) as [t' [es' [E Hr]]]. inversion E; subst t' es'.
        apply expect_attached_first; [apply consume_grows | exact Ha | exact Hr | exact Hk].
      - eapply ext_weaken; [intros v Hv; left; exact Hv|].
        apply (expect_gen Tok USt kind eof_tok ustart uend uelem attached (lconsume f) (fun v => v = []) eq_refl).
        + intros v1 v2 -> ->. reflexivity.
        + intros e t0 v Hv. apply (unattached_invisible Tok attached start i Ha (fun v => v = [])). exact Hv.
        + intros r Hr ts1 st1. destruct (Hguard start i _ Hn Ha r Hr) as [H1 H2]. apply quiet; assumption.
    Qed.
  End Guarded.
End Visible.
