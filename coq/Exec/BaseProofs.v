(* placeholder *)
