(* Lemmas about Base.v and Values.v: boolean equalities decide equality; list-as-set operations. *)
From Coq Require Import List Bool NArith ZArith Arith Lia Permutation.
From Coq.Strings Require Import Byte.
From BWExec Require Import Base Values.
Import ListNotations.

Lemma byte_eqb_spec : forall a b : byte, Byte.eqb a b = true <-> a = b.
Proof.
  intros a b. split.
  - apply Byte.byte_dec_bl.
  - apply Byte.byte_dec_lb.
Qed.

Lemma str_eqb_spec : forall a b, str_eqb a b = true <-> a = b.
Proof.
  induction a as [|x a IH]; destruct b as [|y b]; cbn; split; intro H; try reflexivity; try discriminate.
  - apply andb_true_iff in H. destruct H as [H1 H2]. apply byte_eqb_spec in H1. apply IH in H2. congruence.
  - inversion H; subst. apply andb_true_iff. split; [apply byte_eqb_spec; reflexivity | apply IH; reflexivity].
Qed.

Lemma str_eqb_refl : forall a, str_eqb a a = true.
Proof. intro a. apply str_eqb_spec. reflexivity. Qed.

Lemma str_eqb_neq : forall a b, str_eqb a b = false <-> a <> b.
Proof.
  intros a b. split; intro H.
  - intro E. apply str_eqb_spec in E. congruence.
  - destruct (str_eqb a b) eqn:E; [apply str_eqb_spec in E; contradiction | reflexivity].
Qed.

Lemma str_eqb_sym : forall a b, str_eqb a b = str_eqb b a.
Proof.
  intros a b. destruct (str_eqb a b) eqn:E.
  - apply str_eqb_spec in E. subst. symmetry. apply str_eqb_refl.
  - symmetry. apply str_eqb_neq. apply str_eqb_neq in E. congruence.
Qed.

Definition eqb_ok {A : Type} (eqb : A -> A -> bool) : Prop := forall a b, eqb a b = true <-> a = b.

Lemma str_eqb_ok : eqb_ok str_eqb.
Proof. exact str_eqb_spec. Qed.

Lemma N_eqb_ok : eqb_ok N.eqb.
Proof. exact N.eqb_eq. Qed.

Lemma option_eqb_ok : forall {A} (eqb : A -> A -> bool), eqb_ok eqb -> eqb_ok (option_eqb eqb).
Proof.
  intros A eqb H [a|] [b|]; cbn; split; intro E; try reflexivity; try discriminate.
  - apply H in E. congruence.
  - inversion E; subst. apply H. reflexivity.
Qed.

Lemma node_eqb_ok : eqb_ok node_eqb.
Proof.
  intros [t i|k] [t' i'|k']; cbn; split; intro E; try discriminate.
  - apply andb_true_iff in E. destruct E as [E1 E2]. apply str_eqb_spec in E1, E2. congruence.
  - inversion E; subst. rewrite !str_eqb_refl. reflexivity.
  - apply N.eqb_eq in E. congruence.
  - inversion E; subst. apply N.eqb_refl.
Qed.

Lemma pred_eqb_ok : eqb_ok pred_eqb.
Proof.
  intros [i a] [i' a']. unfold pred_eqb. cbn. split; intro E.
  - apply andb_true_iff in E. destruct E as [E1 E2]. apply str_eqb_spec in E1.
    apply (option_eqb_ok Z.eqb Z.eqb_eq) in E2. congruence.
  - inversion E; subst. rewrite str_eqb_refl. cbn. apply (option_eqb_ok Z.eqb Z.eqb_eq). reflexivity.
Qed.

Lemma obj_eqb_ok : eqb_ok obj_eqb.
Proof.
  intros [n|p|l] [n'|p'|l']; cbn; split; intro E; try discriminate.
  - apply node_eqb_ok in E. congruence.
  - inversion E; subst. apply node_eqb_ok. reflexivity.
  - apply pred_eqb_ok in E. congruence.
  - inversion E; subst. apply pred_eqb_ok. reflexivity.
  - apply str_eqb_spec in E. congruence.
  - inversion E; subst. apply str_eqb_refl.
Qed.

Lemma triple_eqb_ok : eqb_ok triple_eqb.
Proof.
  intros [[s p] o] [[s' p'] o']. cbn. split; intro E.
  - apply andb_true_iff in E. destruct E as [E E3]. apply andb_true_iff in E. destruct E as [E1 E2].
    apply node_eqb_ok in E1. apply pred_eqb_ok in E2. apply obj_eqb_ok in E3. congruence.
  - inversion E; subst. apply andb_true_iff. split; [apply andb_true_iff; split|].
    + apply node_eqb_ok. reflexivity.
    + apply pred_eqb_ok. reflexivity.
    + apply obj_eqb_ok. reflexivity.
Qed.

Section SetLemmas.
  Context {A : Type} (eqb : A -> A -> bool) (Heqb : eqb_ok eqb).

  Lemma mem_In : forall x l, mem eqb x l = true <-> In x l.
  Proof.
    intros x l. induction l as [|y r IH]; cbn.
    - split; [discriminate | tauto].
    - rewrite orb_true_iff, IH. split; intros [H|H]; auto.
      + apply Heqb in H. auto.
      + left. apply Heqb. auto.
  Qed.

  Lemma mem_false : forall x l, mem eqb x l = false <-> ~ In x l.
  Proof.
    intros x l. rewrite <- mem_In. destruct (mem eqb x l).
    - split; [discriminate | intro H; exfalso; apply H; reflexivity].
    - split; [intros _ H; discriminate | reflexivity].
  Qed.

  Lemma set_add_In : forall l x y, In y (set_add eqb l x) <-> In y l \/ y = x.
  Proof.
    intros l x y. unfold set_add. destruct (mem eqb x l) eqn:E.
    - apply mem_In in E. split; [auto | intros [H|H]; subst; auto].
    - rewrite in_app_iff. cbn. split; intros [H|H]; auto.
      + destruct H as [H|[]]. auto.
  Qed.

  Lemma set_add_all_In : forall xs l y, In y (set_add_all eqb xs l) <-> In y l \/ In y xs.
  Proof.
    induction xs as [|x xs IH]; intros l y; cbn.
    - tauto.
    - unfold set_add_all in *. cbn. rewrite IH, set_add_In. split; intros H; intuition (subst; auto).
  Qed.

  Lemma set_remove_all_In : forall xs l y, In y (set_remove_all eqb xs l) <-> In y l /\ ~ In y xs.
  Proof.
    intros xs l y. unfold set_remove_all. rewrite filter_In, negb_true_iff, mem_false. tauto.
  Qed.

  Lemma NoDup_snoc : forall (l : list A) x, NoDup l -> ~ In x l -> NoDup (l ++ [x]).
  Proof.
    induction l as [|y r IH]; intros x Hnd Hx; cbn.
    - constructor; [tauto | constructor].
    - inversion Hnd; subst. constructor.
      + rewrite in_app_iff. cbn. intros [H|[H|[]]]; [contradiction | subst; apply Hx; left; reflexivity].
      + apply IH; [assumption | intro H; apply Hx; right; exact H].
  Qed.

  Lemma set_add_NoDup : forall l x, NoDup l -> NoDup (set_add eqb l x).
  Proof.
    intros l x H. unfold set_add. destruct (mem eqb x l) eqn:E; [exact H|].
    apply mem_false in E. apply NoDup_snoc; assumption.
  Qed.

  Lemma set_add_all_NoDup : forall xs l, NoDup l -> NoDup (set_add_all eqb xs l).
  Proof.
    induction xs as [|x xs IH]; intros l H; cbn; [exact H|].
    unfold set_add_all in *. cbn. apply IH. apply set_add_NoDup. exact H.
  Qed.

  Lemma filter_NoDup : forall (f : A -> bool) l, NoDup l -> NoDup (filter f l).
  Proof.
    intros f l H. induction H as [|x l Hx Hnd IH]; cbn; [constructor|].
    destruct (f x); [constructor; [rewrite filter_In; tauto | exact IH] | exact IH].
  Qed.

  Lemma set_remove_all_NoDup : forall xs l, NoDup l -> NoDup (set_remove_all eqb xs l).
  Proof. intros xs l H. apply filter_NoDup. exact H. Qed.

  Lemma nodup_b_spec : forall l, nodup_b eqb l = true <-> NoDup l.
  Proof.
    induction l as [|x r IH]; cbn.
    - split; [constructor | reflexivity].
    - rewrite andb_true_iff, negb_true_iff, mem_false, IH. split.
      + intros [H1 H2]. constructor; assumption.
      + intro H. inversion H; subst. tauto.
  Qed.

  Lemma subset_spec : forall a b, subset eqb a b = true <-> (forall x, In x a -> In x b).
  Proof.
    intros a b. unfold subset. rewrite forallb_forall. split; intros H x Hx.
    - apply mem_In. apply H. exact Hx.
    - apply mem_In. apply H. exact Hx.
  Qed.

  Lemma set_eqb_spec : forall a b, set_eqb eqb a b = true <-> (forall x, In x a <-> In x b).
  Proof.
    intros a b. unfold set_eqb. rewrite andb_true_iff, !subset_spec. split.
    - intros [H1 H2] x. split; auto.
    - intro H. split; intros x Hx; apply H; exact Hx.
  Qed.
End SetLemmas.
