(* The storage driver as the planner sees it (storage.Store / storage.Graph), with fault injection.
   Every driver call has an identity (kind, graph name, occurrence number of that kind+graph within the statement)
   and consumes the entry the fault schedule holds for that identity.  Definitions only.
   Identities instead of arrival positions: `update` runs one goroutine per target graph, so arrival order is not
   determined; (kind, graph, occurrence) is. *)
From Coq Require Import List Bool Arith.
From BWExec Require Import Base Values Store.
Import ListNotations.

Inductive fault := FOk | FBefore | FAfter (j : nat) | FWrite.
Inductive ckind := KGraph | KNewGraph | KDeleteGraph | KGraphNames | KAdd | KRemove | KRead.
Definition call_id := (ckind * str * nat)%type.
Definition schedule := call_id -> fault.
Definition no_faults : schedule := fun _ => FOk.
Definition log := list call_id.

Definition ckind_eqb (a b : ckind) : bool :=
  match a, b with
  | KGraph, KGraph | KNewGraph, KNewGraph | KDeleteGraph, KDeleteGraph | KGraphNames, KGraphNames
  | KAdd, KAdd | KRemove, KRemove | KRead, KRead => true
  | _, _ => false
  end.
Definition call_eqb (a b : call_id) : bool :=
  match a, b with (k, g, n), (k', g', n') => ckind_eqb k k' && str_eqb g g' && Nat.eqb n n' end.

Definition occ (lg : log) (k : ckind) (g : str) : nat :=
  length (filter (fun c => match c with (k', g', _) => ckind_eqb k k' && str_eqb g g' end) lg).
Definition next_id (lg : log) (k : ckind) (g : str) : call_id := (k, g, occ lg k g).

Definition is_fail (f : fault) : bool := match f with FOk => false | _ => true end.

(* driver state: the store and the calls made so far *)
Record dst := mkD { d_store : store; d_log : log }.

(* Store.Graph(name): a handle, or an error (injected, or the graph does not exist) *)
Definition d_graph (sch : schedule) (d : dst) (n : str) : bool * dst :=
  let id := next_id (d_log d) KGraph n in
  (negb (is_fail (sch id)) && has (d_store d) n, mkD (d_store d) (d_log d ++ [id])).

Definition d_new_graph (sch : schedule) (d : dst) (n : str) : bool * dst :=
  let id := next_id (d_log d) KNewGraph n in
  let lg := d_log d ++ [id] in
  if is_fail (sch id) then (false, mkD (d_store d) lg) else
  match new_graph (d_store d) n with
  | Some s' => (true, mkD s' lg)
  | None => (false, mkD (d_store d) lg)
  end.

Definition d_delete_graph (sch : schedule) (d : dst) (n : str) : bool * dst :=
  let id := next_id (d_log d) KDeleteGraph n in
  let lg := d_log d ++ [id] in
  if is_fail (sch id) then (false, mkD (d_store d) lg) else
  match delete_graph (d_store d) n with
  | Some s' => (true, mkD s' lg)
  | None => (false, mkD (d_store d) lg)
  end.

(* Graph.AddTriples / RemoveTriples on a handle for graph n.  A failing driver either does nothing, or (FAfter j)
   applies the first j triples and then fails. *)
Definition apply_write (add : bool) (s : store) (n : str) (ts : list triple) : store :=
  set_graph s n ((if add then add_triples else remove_triples) (getd s n) ts).

Definition d_write (add : bool) (sch : schedule) (d : dst) (n : str) (ts : list triple) : bool * dst :=
  let id := next_id (d_log d) (if add then KAdd else KRemove) n in
  let lg := d_log d ++ [id] in
  match sch id with
  | FOk => (true, mkD (apply_write add (d_store d) n ts) lg)
  | FAfter j => (false, mkD (apply_write add (d_store d) n (firstn j ts)) lg)
  | _ => (false, mkD (d_store d) lg)
  end.

(* Store.GraphNames: streams the names; a failing driver delivers none, or the first j, and then reports an error *)
Definition d_graph_names (sch : schedule) (d : dst) : list str * bool * dst :=
  let id := next_id (d_log d) KGraphNames [] in
  let d' := mkD (d_store d) (d_log d ++ [id]) in
  match sch id with
  | FOk => (names (d_store d), true, d')
  | FAfter j => (firstn j (names (d_store d)), false, d')
  | _ => ([], false, d')
  end.

(* any lookup / Exist issued while matching the pattern against graph n; what it delivers is not modelled here
   (the rows are an input of the executor), only whether it reports an error *)
Definition d_read (sch : schedule) (d : dst) (n : str) : bool * dst :=
  let id := next_id (d_log d) KRead n in
  (negb (is_fail (sch id)), mkD (d_store d) (d_log d ++ [id])).
