(* The store: graph name -> set of triples (lists without duplicates).  Definitions only.
   storage/memory: memoryStore.graphs (map name -> graph), memory.idx (map triple-key -> triple). *)
From Coq Require Import List Bool.
From BWExec Require Import Base Values.
Import ListNotations.

Definition graph := list triple.
Definition store := list (str * graph).

Fixpoint get (s : store) (n : str) : option graph :=
  match s with
  | [] => None
  | (k, g) :: r => if str_eqb k n then Some g else get r n
  end.
Definition has (s : store) (n : str) : bool := match get s n with Some _ => true | None => false end.
Definition getd (s : store) (n : str) : graph := match get s n with Some g => g | None => [] end.
Definition names (s : store) : list str := map fst s.

(* NewGraph: error when the name exists *)
Definition new_graph (s : store) (n : str) : option store :=
  if has s n then None else Some (s ++ [(n, [])]).
(* DeleteGraph: error when the name does not exist *)
Definition delete_graph (s : store) (n : str) : option store :=
  if has s n then Some (filter (fun e => negb (str_eqb (fst e) n)) s) else None.
Definition set_graph (s : store) (n : str) (g : graph) : store :=
  map (fun e => if str_eqb (fst e) n then (fst e, g) else e) s.

Definition add_triples (g : graph) (ts : list triple) : graph := set_add_all triple_eqb ts g.
Definition remove_triples (g : graph) (ts : list triple) : graph := set_remove_all triple_eqb ts g.

Definition tmem (t : triple) (g : graph) : bool := mem triple_eqb t g.

(* well-formedness: names distinct, no triple listed twice *)
Definition wf_store (s : store) : bool :=
  nodup_b str_eqb (names s) && forallb (fun e => nodup_b triple_eqb (snd e)) s.

Definition store_blanks (s : store) : list BinNums.N := flat_map (fun e => flat_map triple_blanks (snd e)) s.
