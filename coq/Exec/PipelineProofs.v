(* Every schedule of a contract-abiding pipeline ends with all three goroutines done, within `measure` steps;
   a source that returns without closing leaves the other two blocked forever. *)
From Coq Require Import Arith Bool List Lia.
From BWExec Require Import Pipeline.
Import ListNotations.

Lemma pstep_measure : forall p q, pstep p q -> measure q < measure p.
Proof.
  intros p q H. destruct H; unfold measure; cbn [src mid snk buf1 buf2 src_left mid_left snk_left]; try lia.
  destruct drop; cbn; lia.
Qed.

Lemma psteps_bounded : forall n p q, psteps n p q -> n + measure q <= measure p.
Proof.
  intros n p q H. induction H as [p | n p q r S _ IH]; [lia|]. apply pstep_measure in S. lia.
Qed.

Lemma pwf_init : forall n c1 c2 cl, 1 <= c1 -> 1 <= c2 -> pwf (pinit n c1 c2 cl).
Proof.
  intros n c1 c2 cl H1 H2. unfold pwf, pinit. cbn. repeat split; try lia; try discriminate; intros; try discriminate.
  destruct H as [X _]. discriminate.
Qed.

Lemma pwf_step : forall p q, pwf p -> pstep p q -> pwf q.
Proof.
  intros p q W H. unfold pwf in *. destruct H; cbn in *;
    destruct W as [W1 [W2 [W3 [W4 [W5 [W6 [W7 W8]]]]]]];
    repeat split; try lia; try tauto; try discriminate; intros;
    try (destruct drop; discriminate); try (exfalso; intuition discriminate); try (intuition congruence); try reflexivity.
Qed.

Lemma pwf_steps : forall n p q, pwf p -> psteps n p q -> pwf q.
Proof. intros n p q W H. induction H; [exact W | apply IHpsteps; eapply pwf_step; eassumption]. Qed.

(* no deadlock: a well-formed state of a pipeline whose source closes its channel is final or can move *)
Theorem pipeline_progress : forall p, pwf p -> closes p = true -> final p \/ exists q, pstep p q.
Proof.
  intros [sr c b1 c1 cl1 m b2 c2 cl2 s] W Hc. unfold pwf in W. cbn in *. subst c.
  destruct W as [W1 [W2 [W3 [W4 [W5 [W6 [W7 W8]]]]]]].
  destruct s.
  2:{ (* consumer done: then everything is done *)
    destruct (W8 eq_refl) as [B2 C2]. subst b2 cl2. assert (M : m = MidDone) by (apply W6; reflexivity). subst m.
    destruct (W7 eq_refl) as [B1 C1]. subst b1 cl1. assert (S : sr = SrcDone) by (apply W5; reflexivity). subst sr.
    left. unfold final. cbn. auto. }
  (* consumer running *)
  destruct b2 as [|b2].
  2:{ right. eexists. apply St_consume. }
  destruct cl2.
  { right. eexists. apply St_snk_end. }
  (* output channel empty and open: the forwarder is not done *)
  destruct m.
  - (* MidRecv *) destruct b1 as [|b1].
    + destruct cl1.
      * right. eexists. apply St_mid_end.
      * (* channel 1 empty and open: the source is still running *)
        destruct sr as [[|k]|].
        -- right. eexists. apply St_close.
        -- right. eexists. apply St_send. lia.
        -- exfalso. assert (X : false = true) by (apply W5; split; reflexivity). discriminate.
    + right. eexists. apply (St_recv _ _ _ _ _ _ _ _ _ false).
  - right. eexists. apply St_fwd. lia.
  - right. eexists. apply St_drop.
  - exfalso. assert (X : false = true) by (apply W6; reflexivity). discriminate.
Qed.

(* all schedules: from the start, after at most `measure` steps no further step is possible, and then (no deadlock)
   every goroutine has returned *)
Theorem pipeline_terminates : forall n c1 c2, 1 <= c1 -> 1 <= c2 ->
  (forall k q, psteps k (pinit n c1 c2 true) q -> k <= 5 * n + 3) /\
  (forall k q, psteps k (pinit n c1 c2 true) q -> (forall r, ~ pstep q r) -> final q).
Proof.
  intros n c1 c2 H1 H2. split.
  - intros k q H. apply psteps_bounded in H. unfold measure, pinit in H. cbn in H. lia.
  - intros k q H Hstuck. assert (W : pwf q) by (apply (pwf_steps k (pinit n c1 c2 true) q (pwf_init n c1 c2 true H1 H2) H)).
    assert (C : closes q = true).
    { clear Hstuck W. remember (pinit n c1 c2 true) as p0. assert (closes p0 = true) by (subst; reflexivity). clear Heqp0.
      induction H as [p | k p q r S _ IH]; [assumption|]. apply IH. destruct S; cbn in *; assumption. }
    destruct (pipeline_progress q W C) as [F|[r S]]; [exact F | exfalso; apply (Hstuck r S)].
Qed.

(* the source that returns without closing (constructPlan.Execute before F13, template error before any triple):
   one step, then nothing can move and two goroutines are not done *)
Theorem pipeline_abandoned_leaks : forall c1 c2,
  exists q, psteps 1 (pinit 0 c1 c2 false) q /\ (forall r, ~ pstep q r) /\ ~ final q.
Proof.
  intros c1 c2. exists (mkP SrcDone false 0 c1 false MidRecv 0 c2 false SnkRun). split; [|split].
  - eapply Ps_S; [apply St_abandon | apply Ps_0].
  - intros r S. inversion S.
  - unfold final. cbn. intros [_ [X _]]. discriminate.
Qed.
