(* Proofs for C20: a schedule entry consumed as a failure makes the statement return an error, for every schedule,
   store and statement.  Method: every executor extends the call log, and its success flag is false whenever one of
   the entries it appended is a failure entry. *)
From Coq Require Import List Bool NArith ZArith Arith Lia.
From Coq.Strings Require Import Byte.
From BWExec Require Import Base Values Store Driver Exec Fault Spec BaseProofs StoreProofs ExecProofs.
Import ListNotations.

Definition failing (sch : schedule) (l : log) : bool := existsb (fun id => is_fail (sch id)) l.

Lemma failing_app : forall sch a b, failing sch (a ++ b) = failing sch a || failing sch b.
Proof. intros. unfold failing. apply existsb_app. Qed.

(* d' extends the log of d by `new`; if some new entry is a failure entry then ok is false *)
Definition sound (sch : schedule) (d d' : dst) (ok : bool) : Prop :=
  exists new, d_log d' = d_log d ++ new /\ (failing sch new = true -> ok = false).

Lemma sound_refl : forall sch d ok, sound sch d d ok.
Proof. intros. exists []. split; [rewrite app_nil_r; reflexivity | cbn; discriminate]. Qed.

Lemma sound_trans : forall sch d d1 d2 ok1 ok2, sound sch d d1 ok1 -> sound sch d1 d2 ok2 -> sound sch d d2 (ok1 && ok2).
Proof.
  intros sch d d1 d2 ok1 ok2 [n1 [L1 F1]] [n2 [L2 F2]]. exists (n1 ++ n2). split; [rewrite L2, L1, app_assoc; reflexivity|].
  rewrite failing_app. intro H. apply orb_true_iff in H. destruct H as [H|H]; [rewrite (F1 H) | rewrite (F2 H), andb_false_r]; reflexivity.
Qed.

Lemma sound_weaken : forall sch d d' ok, sound sch d d' ok -> sound sch d d' false.
Proof. intros sch d d' ok [n [L _]]. exists n. split; [exact L | reflexivity]. Qed.

Lemma failing_one : forall sch id, failing sch [id] = is_fail (sch id).
Proof. intros. unfold failing. cbn. apply orb_false_r. Qed.

Lemma d_graph_sound : forall sch d n ok d', d_graph sch d n = (ok, d') -> sound sch d d' ok.
Proof.
  intros sch d n ok d' H. unfold d_graph in H. inversion H; subst. eexists. split; [reflexivity|]. cbn [d_log].
  rewrite failing_one. intro F. rewrite F. reflexivity.
Qed.

Lemma d_read_sound : forall sch d n ok d', d_read sch d n = (ok, d') -> sound sch d d' ok.
Proof.
  intros sch d n ok d' H. unfold d_read in H. inversion H; subst. eexists. split; [reflexivity|]. cbn [d_log].
  rewrite failing_one. intro F. rewrite F. reflexivity.
Qed.

Lemma d_new_graph_sound : forall sch d n ok d', d_new_graph sch d n = (ok, d') -> sound sch d d' ok.
Proof.
  intros sch d n ok d' H. unfold d_new_graph in H. destruct (is_fail (sch (next_id (d_log d) KNewGraph n))) eqn:F.
  - inversion H; subst. eexists. split; [reflexivity | reflexivity].
  - destruct (new_graph (d_store d) n); inversion H; subst; eexists; (split; [reflexivity|]); cbn [d_log];
      rewrite failing_one, F; discriminate.
Qed.

Lemma d_delete_graph_sound : forall sch d n ok d', d_delete_graph sch d n = (ok, d') -> sound sch d d' ok.
Proof.
  intros sch d n ok d' H. unfold d_delete_graph in H. destruct (is_fail (sch (next_id (d_log d) KDeleteGraph n))) eqn:F.
  - inversion H; subst. eexists. split; [reflexivity | reflexivity].
  - destruct (delete_graph (d_store d) n); inversion H; subst; eexists; (split; [reflexivity|]); cbn [d_log];
      rewrite failing_one, F; discriminate.
Qed.

Lemma d_write_sound : forall add sch d n ts ok d', d_write add sch d n ts = (ok, d') -> sound sch d d' ok.
Proof.
  intros add sch d n ts ok d' H. unfold d_write in H.
  destruct (sch (next_id (d_log d) (if add then KAdd else KRemove) n)) eqn:F; inversion H; subst;
    eexists; (split; [reflexivity|]); cbn [d_log]; rewrite failing_one, F; cbn; try reflexivity; discriminate.
Qed.

Lemma d_graph_names_sound : forall sch d ns ok d', d_graph_names sch d = (ns, ok, d') -> sound sch d d' ok.
Proof.
  intros sch d ns ok d' H. unfold d_graph_names in H.
  destruct (sch (next_id (d_log d) KGraphNames [])) eqn:F; inversion H; subst;
    eexists; (split; [reflexivity|]); cbn [d_log]; rewrite failing_one, F; cbn; try reflexivity; discriminate.
Qed.

Lemma x_update_sound : forall add sch ts gbs d ok d', x_update add sch d ts gbs = (ok, d') -> sound sch d d' ok.
Proof.
  intros add sch ts gbs. induction gbs as [|g r IH]; intros d ok d' H; cbn [x_update] in H.
  - inversion H; subst. apply sound_refl.
  - destruct (d_graph sch d g) as [okg d1] eqn:E1. apply d_graph_sound in E1.
    destruct (if okg then d_write add sch d1 g ts else (false, d1)) as [ok1 d2] eqn:E2.
    destruct (x_update add sch d2 ts r) as [ok2 d3] eqn:E3. inversion H; subst. clear H. apply IH in E3.
    apply sound_trans with (d1 := d2); [|exact E3].
    destruct okg.
    + apply d_write_sound in E2. pose proof (sound_trans _ _ _ _ _ _ E1 E2) as X. cbn in X. exact X.
    + inversion E2; subst. pose proof (sound_trans _ _ _ _ _ _ E1 (sound_refl sch d2 false)) as X. cbn in X. exact X.
Qed.

Lemma x_init_sound : forall sch gs d ok d', x_init sch d gs = (ok, d') -> sound sch d d' ok.
Proof.
  intros sch gs. induction gs as [|g r IH]; intros d ok d' H; cbn [x_init] in H.
  - inversion H; subst. apply sound_refl.
  - destruct (d_graph sch d g) as [okg d1] eqn:E1. apply d_graph_sound in E1. destruct okg.
    + apply IH in H. pose proof (sound_trans _ _ _ _ _ _ E1 H) as X. cbn in X. exact X.
    + inversion H; subst. exact E1.
Qed.

Lemma x_reads_sound : forall sch gs d ok d', x_reads sch d gs = (ok, d') -> sound sch d d' ok.
Proof.
  intros sch gs. induction gs as [|g r IH]; intros d ok d' H; cbn [x_reads] in H.
  - inversion H; subst. apply sound_refl.
  - destruct (d_read sch d g) as [okg d1] eqn:E1. apply d_read_sound in E1. destruct okg.
    + apply IH in H. pose proof (sound_trans _ _ _ _ _ _ E1 H) as X. cbn in X. exact X.
    + inversion H; subst. exact E1.
Qed.

Lemma x_create_sound : forall sch gs d ok d', x_create sch d gs = (ok, d') -> sound sch d d' ok.
Proof.
  intros sch gs. induction gs as [|g r IH]; intros d ok d' H; cbn [x_create] in H.
  - inversion H; subst. apply sound_refl.
  - destruct (d_new_graph sch d g) as [ok1 d1] eqn:E1. apply d_new_graph_sound in E1.
    destruct (x_create sch d1 r) as [ok2 d2] eqn:E2. inversion H; subst. apply IH in E2. eapply sound_trans; eassumption.
Qed.

Lemma x_drop_sound : forall sch gs d ok d', x_drop sch d gs = (ok, d') -> sound sch d d' ok.
Proof.
  intros sch gs. induction gs as [|g r IH]; intros d ok d' H; cbn [x_drop] in H.
  - inversion H; subst. apply sound_refl.
  - destruct (d_delete_graph sch d g) as [ok1 d1] eqn:E1. apply d_delete_graph_sound in E1.
    destruct (x_drop sch d1 r) as [ok2 d2] eqn:E2. inversion H; subst. apply IH in E2. eapply sound_trans; eassumption.
Qed.

Lemma writer_sound : forall add bulk sch outs sent d pending okacc p' ok' d',
  writer add bulk sch d outs sent pending okacc = (p', ok', d') -> sound sch d d' ok' /\ (okacc = false -> ok' = false).
Proof.
  intros add bulk sch outs sent. induction sent as [|t r IH]; intros d pending okacc p' ok' d' H; cbn [writer] in H.
  - inversion H; subst. split; [apply sound_refl | auto].
  - destruct (bulk <=? length (pending ++ [t])).
    + destruct (x_update add sch d (pending ++ [t]) outs) as [ok d1] eqn:E. apply x_update_sound in E.
      apply IH in H. destruct H as [S K]. split.
      * destruct ok.
        -- pose proof (sound_trans _ _ _ _ _ _ E S) as X. cbn in X. exact X.
        -- rewrite andb_false_r in K. rewrite (K eq_refl). eapply sound_weaken. eapply sound_trans; eassumption.
      * intro Z. subst okacc. apply K. reflexivity.
    + apply IH in H. exact H.
Qed.

(* the result of a statement is an error whenever an entry appended to the log is a failure entry *)
Definition rsound (sch : schedule) (d d' : dst) (r : result) : Prop :=
  exists new, d_log d' = d_log d ++ new /\ (failing sch new = true -> exists e, r = RErr e).

Lemma sound_rsound : forall sch d d' ok (r : result), sound sch d d' ok -> (ok = false -> exists e, r = RErr e) -> rsound sch d d' r.
Proof. intros sch d d' ok r [n [L F]] H. exists n. split; [exact L | intro X; apply H; apply F; exact X]. Qed.

Lemma x_construct_rsound : forall add bulk sch d tmpl outs ins q draw r d',
  x_construct add bulk sch d tmpl outs ins q draw = (r, d') -> rsound sch d d' r.
Proof.
  intros add bulk sch d tmpl outs ins q draw r d' H. unfold x_construct in H.
  destruct (x_init sch d (ins ++ outs)) as [ok d1] eqn:E1. apply x_init_sound in E1.
  destruct ok; cbn [negb] in H; [|inversion H; subst; eapply sound_rsound; [exact E1 | intros _; eexists; reflexivity]].
  destruct (x_reads sch d1 (q_reads q)) as [okr d2] eqn:E2. apply x_reads_sound in E2.
  pose proof (sound_trans _ _ _ _ _ _ E1 E2) as S2. cbn [andb] in S2.
  destruct okr; cbn [negb] in H; [|inversion H; subst; eapply sound_rsound; [exact S2 | intros _; eexists; reflexivity]].
  destruct (q_ok q); cbn [negb] in H; [|inversion H; subst; eapply sound_rsound; [eapply sound_weaken; exact S2 | intros _; eexists; reflexivity]].
  destruct (produce _ _ _ _ _) as [sent okp].
  destruct (writer add bulk sch d2 outs sent [] true) as [[pending okw] d3] eqn:E3. apply writer_sound in E3. destruct E3 as [S3 _].
  destruct (if is_empty pending then (true, d3) else x_update add sch d3 pending outs) as [okf d4] eqn:E4.
  assert (S4 : sound sch d3 d4 okf).
  { destruct (is_empty pending); [inversion E4; subst; apply sound_refl | eapply x_update_sound; exact E4]. }
  pose proof (sound_trans _ _ _ _ _ _ S2 (sound_trans _ _ _ _ _ _ S3 S4)) as S. cbn [andb] in S.
  destruct okp; inversion H; subst.
  - eapply sound_rsound; [exact S|]. intro X. rewrite X. eexists; reflexivity.
  - eapply sound_rsound; [eapply sound_weaken; exact S | intros _; eexists; reflexivity].
Qed.

Theorem xexec_rsound : forall bulk sch d s r d', xexec bulk sch d s = (r, d') -> rsound sch d d' r.
Proof.
  intros bulk sch d s r d' H. unfold xexec in H.
  destruct (static_ok s); cbn [negb] in H;
    [|inversion H; subst; eapply sound_rsound; [apply (sound_refl sch d' false) | intros _; eexists; reflexivity]].
  destruct s.
  - destruct (x_create sch d gs) as [ok d1] eqn:E. inversion H; subst. apply x_create_sound in E.
    eapply sound_rsound; [exact E | intro X; rewrite X; eexists; reflexivity].
  - destruct (x_drop sch d gs) as [ok d1] eqn:E. inversion H; subst. apply x_drop_sound in E.
    eapply sound_rsound; [exact E | intro X; rewrite X; eexists; reflexivity].
  - destruct (x_update true sch d ts outs) as [ok d1] eqn:E. inversion H; subst. apply x_update_sound in E.
    eapply sound_rsound; [exact E | intro X; rewrite X; eexists; reflexivity].
  - destruct (x_update false sch d ts ins) as [ok d1] eqn:E. inversion H; subst. apply x_update_sound in E.
    eapply sound_rsound; [exact E | intro X; rewrite X; eexists; reflexivity].
  - eapply x_construct_rsound; exact H.
  - unfold x_select in H. destruct (x_init sch d ins) as [ok d1] eqn:E1. apply x_init_sound in E1.
    destruct ok; cbn [negb] in H; [|inversion H; subst; eapply sound_rsound; [exact E1 | intros _; eexists; reflexivity]].
    destruct (x_reads sch d1 (q_reads q)) as [okr d2] eqn:E2. apply x_reads_sound in E2.
    pose proof (sound_trans _ _ _ _ _ _ E1 E2) as S2. cbn [andb] in S2.
    destruct okr; cbn [negb] in H; [|inversion H; subst; eapply sound_rsound; [exact S2 | intros _; eexists; reflexivity]].
    destruct (q_ok q); inversion H; subst.
    + eapply sound_rsound; [exact S2 | discriminate].
    + eapply sound_rsound; [eapply sound_weaken; exact S2 | intros _; eexists; reflexivity].
  - unfold x_show in H. destruct (d_graph_names sch d) as [[ns ok] d1] eqn:E. apply d_graph_names_sound in E.
    destruct ok; inversion H; subst.
    + eapply sound_rsound; [exact E | discriminate].
    + eapply sound_rsound; [exact E | intros _; eexists; reflexivity].
  - inversion H; subst. eapply sound_rsound; [apply (sound_refl sch d' false) | intros _; eexists; reflexivity].
Qed.

Lemma consumed_failure_failing : forall sch lg, consumed_failure sch lg <-> failing sch lg = true.
Proof.
  intros sch lg. unfold consumed_failure, failing. rewrite existsb_exists. split; intros [id [Hin Hf]]; exists id; (split; [exact Hin|]).
  - destruct (sch id); [congruence | reflexivity | reflexivity | reflexivity].
  - intro E. rewrite E in Hf. discriminate.
Qed.

Theorem fexec_error_surfaces : forall bulk sch st s,
  consumed_failure sch (d_log (snd (fexec bulk sch st s))) -> exists e, fst (fexec bulk sch st s) = RErr e.
Proof.
  intros bulk sch st s H. unfold fexec in *. destruct (xexec bulk sch (mkD st []) s) as [r d'] eqn:E. cbn [fst snd] in *.
  apply xexec_rsound in E. destruct E as [new [L F]]. cbn [d_log app] in L. rewrite L in H.
  apply F. apply consumed_failure_failing. exact H.
Qed.

(* no statement ever returns neither a table nor an error *)
Theorem fexec_never_nilnil : forall bulk sch st s, fst (fexec bulk sch st s) <> RNilNil.
Proof.
  intros bulk sch st s. unfold fexec, xexec. destruct (static_ok s); cbn [negb]; [|discriminate].
  destruct s.
  - destruct (x_create sch _ gs) as [[] d]; discriminate.
  - destruct (x_drop sch _ gs) as [[] d]; discriminate.
  - destruct (x_update true sch _ ts outs) as [[] d]; discriminate.
  - destruct (x_update false sch _ ts ins) as [[] d]; discriminate.
  - unfold x_construct. destruct (x_init _ _ _) as [[] d1]; cbn [negb]; [|discriminate].
    destruct (x_reads _ _ _) as [[] d2]; cbn [negb]; [|discriminate].
    destruct (q_ok q); cbn [negb]; [|discriminate].
    destruct (produce _ _ _ _ _) as [sent okp]. destruct (writer _ _ _ _ _ _ _ _) as [[p okw] d3].
    destruct (if is_empty p then _ else _) as [okf d4]. destruct okp; [destruct (okw && okf)|]; discriminate.
  - unfold x_select. destruct (x_init _ _ _) as [[] d1]; cbn [negb]; [|discriminate].
    destruct (x_reads _ _ _) as [[] d2]; cbn [negb]; [|discriminate]. destruct (q_ok q); discriminate.
  - unfold x_show. destruct (d_graph_names sch _) as [[ns []] d]; discriminate.
  - discriminate.
Qed.

(* a failure met before the write phase (Statement.Init, the lookups, the query engine) leaves the store untouched *)
Theorem fexec_early_failure_no_write : forall bulk sch st s e,
  fst (fexec bulk sch st s) = RErr e -> (e = EInit \/ e = EDriver \/ e = EQuery \/ e = EStatic) ->
  d_store (snd (fexec bulk sch st s)) = st.
Proof.
  intros bulk sch st s e H He. unfold fexec, xexec in *. destruct (static_ok s); cbn [negb] in *; [|reflexivity].
  destruct s.
  - destruct (x_create sch _ gs) as [[] d]; cbn in H; [discriminate | inversion H; subst; destruct He as [X|[X|[X|X]]]; discriminate].
  - destruct (x_drop sch _ gs) as [[] d]; cbn in H; [discriminate | inversion H; subst; destruct He as [X|[X|[X|X]]]; discriminate].
  - destruct (x_update true sch _ ts outs) as [[] d]; cbn in H; [discriminate | inversion H; subst; destruct He as [X|[X|[X|X]]]; discriminate].
  - destruct (x_update false sch _ ts ins) as [[] d]; cbn in H; [discriminate | inversion H; subst; destruct He as [X|[X|[X|X]]]; discriminate].
  - unfold x_construct in *. destruct (x_init sch _ _) as [ok d1] eqn:E1. apply x_init_store in E1. cbn [d_store] in E1.
    destruct ok; cbn [negb] in *; [|exact E1].
    destruct (x_reads sch d1 _) as [okr d2] eqn:E2. apply x_reads_store in E2.
    destruct okr; cbn [negb] in *; [|cbn; congruence].
    destruct (q_ok q); cbn [negb] in *; [|cbn; congruence].
    destruct (produce _ _ _ _ _) as [sent okp]. destruct (writer _ _ _ _ _ _ _ _) as [[p okw] d3].
    destruct (if is_empty p then _ else _) as [okf d4]. cbn in H.
    destruct okp; [destruct (okw && okf); [discriminate|]|]; inversion H; subst; destruct He as [X|[X|[X|X]]]; discriminate.
  - unfold x_select in *. destruct (x_init sch _ _) as [ok d1] eqn:E1. apply x_init_store in E1. cbn [d_store] in E1.
    destruct ok; cbn [negb] in *; [|exact E1].
    destruct (x_reads sch d1 _) as [okr d2] eqn:E2. apply x_reads_store in E2.
    destruct okr; cbn [negb] in *; [|cbn; congruence]. destruct (q_ok q); cbn; congruence.
  - unfold x_show, d_graph_names. destruct (sch _); reflexivity.
  - reflexivity.
Qed.

(* ------------------------------------------------------------------ locality: only consumed entries matter *)

Definition agree (sch sch' : schedule) (lg : log) : Prop := forall id, In id lg -> sch id = sch' id.

Lemma agree_incl : forall sch sch' a b, incl a b -> agree sch sch' b -> agree sch sch' a.
Proof. intros sch sch' a b H A id Hin. apply A. apply H. exact Hin. Qed.

Lemma sound_incl : forall sch d d' ok, sound sch d d' ok -> incl (d_log d) (d_log d').
Proof. intros sch d d' ok [n [L _]] id Hin. rewrite L. apply in_or_app. left. exact Hin. Qed.

Lemma in_snoc : forall (l : log) id, In id (l ++ [id]).
Proof. intros. apply in_or_app. right. left. reflexivity. Qed.

Lemma d_graph_local : forall sch sch' d n, agree sch sch' (d_log (snd (d_graph sch d n))) -> d_graph sch d n = d_graph sch' d n.
Proof. intros sch sch' d n A. unfold d_graph in *. cbn [snd d_log] in A. rewrite (A _ (in_snoc _ _)). reflexivity. Qed.

Lemma d_read_local : forall sch sch' d n, agree sch sch' (d_log (snd (d_read sch d n))) -> d_read sch d n = d_read sch' d n.
Proof. intros sch sch' d n A. unfold d_read in *. cbn [snd d_log] in A. rewrite (A _ (in_snoc _ _)). reflexivity. Qed.

Lemma d_new_graph_log : forall sch d n, d_log (snd (d_new_graph sch d n)) = d_log d ++ [next_id (d_log d) KNewGraph n].
Proof. intros. unfold d_new_graph. destruct (is_fail _); [reflexivity|]. destruct (new_graph _ _); reflexivity. Qed.

Lemma d_new_graph_local : forall sch sch' d n, agree sch sch' (d_log (snd (d_new_graph sch d n))) -> d_new_graph sch d n = d_new_graph sch' d n.
Proof. intros sch sch' d n A. rewrite d_new_graph_log in A. unfold d_new_graph. rewrite (A _ (in_snoc _ _)). reflexivity. Qed.

Lemma d_delete_graph_log : forall sch d n, d_log (snd (d_delete_graph sch d n)) = d_log d ++ [next_id (d_log d) KDeleteGraph n].
Proof. intros. unfold d_delete_graph. destruct (is_fail _); [reflexivity|]. destruct (delete_graph _ _); reflexivity. Qed.

Lemma d_delete_graph_local : forall sch sch' d n, agree sch sch' (d_log (snd (d_delete_graph sch d n))) -> d_delete_graph sch d n = d_delete_graph sch' d n.
Proof. intros sch sch' d n A. rewrite d_delete_graph_log in A. unfold d_delete_graph. rewrite (A _ (in_snoc _ _)). reflexivity. Qed.

Lemma d_write_log : forall add sch d n ts, d_log (snd (d_write add sch d n ts)) = d_log d ++ [next_id (d_log d) (if add then KAdd else KRemove) n].
Proof. intros. unfold d_write. destruct (sch _); reflexivity. Qed.

Lemma d_write_local : forall add sch sch' d n ts, agree sch sch' (d_log (snd (d_write add sch d n ts))) -> d_write add sch d n ts = d_write add sch' d n ts.
Proof. intros add sch sch' d n ts A. rewrite d_write_log in A. unfold d_write. rewrite (A _ (in_snoc _ _)). reflexivity. Qed.

Lemma d_graph_names_log : forall sch d, d_log (snd (d_graph_names sch d)) = d_log d ++ [next_id (d_log d) KGraphNames []].
Proof. intros. unfold d_graph_names. destruct (sch _); reflexivity. Qed.

Lemma d_graph_names_local : forall sch sch' d, agree sch sch' (d_log (snd (d_graph_names sch d))) -> d_graph_names sch d = d_graph_names sch' d.
Proof. intros sch sch' d A. rewrite d_graph_names_log in A. unfold d_graph_names. rewrite (A _ (in_snoc _ _)). reflexivity. Qed.

Lemma x_update_local : forall add sch sch' ts gbs d,
  agree sch sch' (d_log (snd (x_update add sch d ts gbs))) -> x_update add sch d ts gbs = x_update add sch' d ts gbs.
Proof.
  intros add sch sch' ts gbs. induction gbs as [|g r IH]; intros d A; [reflexivity|]. cbn [x_update] in *.
  destruct (d_graph sch d g) as [okg d1] eqn:E1.
  destruct (if okg then d_write add sch d1 g ts else (false, d1)) as [ok1 d2] eqn:E2.
  destruct (x_update add sch d2 ts r) as [ok2 d3] eqn:E3. cbn [snd] in A.
  assert (I3 : incl (d_log d2) (d_log d3)) by (eapply sound_incl; eapply x_update_sound; exact E3).
  assert (I2 : incl (d_log d1) (d_log d2)).
  { destruct okg; [eapply sound_incl; eapply d_write_sound; exact E2 | inversion E2; subst; apply incl_refl]. }
  assert (X1 : d_graph sch d g = d_graph sch' d g).
  { apply d_graph_local. rewrite E1. cbn [snd]. eapply agree_incl; [|exact A]. eapply incl_tran; eassumption. }
  rewrite <- X1, E1.
  assert (X2 : (if okg then d_write add sch d1 g ts else (false, d1)) = (if okg then d_write add sch' d1 g ts else (false, d1))).
  { destruct okg; [|reflexivity]. apply d_write_local. rewrite E2. cbn [snd]. eapply agree_incl; [exact I3 | exact A]. }
  rewrite <- X2, E2. rewrite <- (IH d2) by (rewrite E3; exact A). rewrite E3. reflexivity.
Qed.

Lemma x_init_local : forall sch sch' gs d, agree sch sch' (d_log (snd (x_init sch d gs))) -> x_init sch d gs = x_init sch' d gs.
Proof.
  intros sch sch' gs. induction gs as [|g r IH]; intros d A; [reflexivity|]. cbn [x_init] in *.
  destruct (d_graph sch d g) as [okg d1] eqn:E1.
  assert (X1 : d_graph sch d g = d_graph sch' d g).
  { apply d_graph_local. rewrite E1. cbn [snd]. destruct okg; [|exact A].
    eapply agree_incl; [|exact A]. destruct (x_init sch d1 r) as [ok d2] eqn:E. cbn [snd]. eapply sound_incl. eapply x_init_sound. exact E. }
  rewrite <- X1, E1. destruct okg; [apply IH; exact A | reflexivity].
Qed.

Lemma x_reads_local : forall sch sch' gs d, agree sch sch' (d_log (snd (x_reads sch d gs))) -> x_reads sch d gs = x_reads sch' d gs.
Proof.
  intros sch sch' gs. induction gs as [|g r IH]; intros d A; [reflexivity|]. cbn [x_reads] in *.
  destruct (d_read sch d g) as [okg d1] eqn:E1.
  assert (X1 : d_read sch d g = d_read sch' d g).
  { apply d_read_local. rewrite E1. cbn [snd]. destruct okg; [|exact A].
    eapply agree_incl; [|exact A]. destruct (x_reads sch d1 r) as [ok d2] eqn:E. cbn [snd]. eapply sound_incl. eapply x_reads_sound. exact E. }
  rewrite <- X1, E1. destruct okg; [apply IH; exact A | reflexivity].
Qed.

Lemma x_create_local : forall sch sch' gs d, agree sch sch' (d_log (snd (x_create sch d gs))) -> x_create sch d gs = x_create sch' d gs.
Proof.
  intros sch sch' gs. induction gs as [|g r IH]; intros d A; [reflexivity|]. cbn [x_create] in *.
  destruct (d_new_graph sch d g) as [ok1 d1] eqn:E1. destruct (x_create sch d1 r) as [ok2 d2] eqn:E2. cbn [snd] in A.
  assert (X1 : d_new_graph sch d g = d_new_graph sch' d g).
  { apply d_new_graph_local. rewrite E1. cbn [snd]. eapply agree_incl; [|exact A]. eapply sound_incl. eapply x_create_sound. exact E2. }
  rewrite <- X1, E1. rewrite <- (IH d1) by (rewrite E2; exact A). rewrite E2. reflexivity.
Qed.

Lemma x_drop_local : forall sch sch' gs d, agree sch sch' (d_log (snd (x_drop sch d gs))) -> x_drop sch d gs = x_drop sch' d gs.
Proof.
  intros sch sch' gs. induction gs as [|g r IH]; intros d A; [reflexivity|]. cbn [x_drop] in *.
  destruct (d_delete_graph sch d g) as [ok1 d1] eqn:E1. destruct (x_drop sch d1 r) as [ok2 d2] eqn:E2. cbn [snd] in A.
  assert (X1 : d_delete_graph sch d g = d_delete_graph sch' d g).
  { apply d_delete_graph_local. rewrite E1. cbn [snd]. eapply agree_incl; [|exact A]. eapply sound_incl. eapply x_drop_sound. exact E2. }
  rewrite <- X1, E1. rewrite <- (IH d1) by (rewrite E2; exact A). rewrite E2. reflexivity.
Qed.

Lemma writer_local : forall add bulk sch sch' outs sent d pending okacc,
  agree sch sch' (d_log (snd (writer add bulk sch d outs sent pending okacc))) ->
  writer add bulk sch d outs sent pending okacc = writer add bulk sch' d outs sent pending okacc.
Proof.
  intros add bulk sch sch' outs sent. induction sent as [|t r IH]; intros d pending okacc A; [reflexivity|]. cbn [writer] in *.
  destruct (bulk <=? length (pending ++ [t])); [|apply IH; exact A].
  destruct (x_update add sch d (pending ++ [t]) outs) as [ok d1] eqn:E.
  assert (X : x_update add sch d (pending ++ [t]) outs = x_update add sch' d (pending ++ [t]) outs).
  { apply x_update_local. rewrite E. cbn [snd]. eapply agree_incl; [|exact A].
    destruct (writer add bulk sch d1 outs r [] (okacc && ok)) as [[p' ok'] d'] eqn:W. cbn [snd].
    apply writer_sound in W. destruct W as [S _]. eapply sound_incl. exact S. }
  rewrite <- X, E. apply IH. exact A.
Qed.

Theorem xexec_local : forall bulk sch sch' d s,
  agree sch sch' (d_log (snd (xexec bulk sch d s))) -> xexec bulk sch d s = xexec bulk sch' d s.
Proof.
  intros bulk sch sch' d s A. unfold xexec in *. destruct (static_ok s); cbn [negb] in *; [|reflexivity].
  destruct s.
  - destruct (x_create sch d gs) as [ok d1] eqn:E. cbn [snd] in A. rewrite <- (x_create_local sch sch' gs d) by (rewrite E; exact A). rewrite E. reflexivity.
  - destruct (x_drop sch d gs) as [ok d1] eqn:E. cbn [snd] in A. rewrite <- (x_drop_local sch sch' gs d) by (rewrite E; exact A). rewrite E. reflexivity.
  - destruct (x_update true sch d ts outs) as [ok d1] eqn:E. cbn [snd] in A. rewrite <- (x_update_local true sch sch' ts outs d) by (rewrite E; exact A). rewrite E. reflexivity.
  - destruct (x_update false sch d ts ins) as [ok d1] eqn:E. cbn [snd] in A. rewrite <- (x_update_local false sch sch' ts ins d) by (rewrite E; exact A). rewrite E. reflexivity.
  - unfold x_construct in *.
    destruct (x_init sch d (ins ++ outs)) as [ok d1] eqn:E1.
    assert (S1 := x_init_sound _ _ _ _ _ E1).
    destruct ok; cbn [negb] in *.
    2:{ rewrite <- (x_init_local sch sch' (ins ++ outs) d) by (rewrite E1; exact A). rewrite E1. reflexivity. }
    destruct (x_reads sch d1 (q_reads q)) as [okr d2] eqn:E2. assert (S2 := x_reads_sound _ _ _ _ _ E2).
    destruct okr; cbn [negb] in *.
    2:{ rewrite <- (x_init_local sch sch' (ins ++ outs) d) by (rewrite E1; cbn [snd]; eapply agree_incl; [eapply sound_incl; exact S2 | exact A]).
        rewrite E1. cbn [negb]. rewrite <- (x_reads_local sch sch' (q_reads q) d1) by (rewrite E2; exact A). rewrite E2. reflexivity. }
    destruct (q_ok q); cbn [negb] in *.
    2:{ rewrite <- (x_init_local sch sch' (ins ++ outs) d) by (rewrite E1; cbn [snd]; eapply agree_incl; [eapply sound_incl; exact S2 | exact A]).
        rewrite E1. cbn [negb]. rewrite <- (x_reads_local sch sch' (q_reads q) d1) by (rewrite E2; exact A). rewrite E2. reflexivity. }
    destruct (produce _ _ _ _ _) as [sent okp].
    destruct (writer add bulk sch d2 outs sent [] true) as [[pending okw] d3] eqn:E3.
    assert (S3 : sound sch d2 d3 okw) by (apply writer_sound in E3; tauto).
    destruct (if is_empty pending then (true, d3) else x_update add sch d3 pending outs) as [okf d4] eqn:E4.
    assert (S4 : sound sch d3 d4 okf).
    { destruct (is_empty pending); [inversion E4; subst; apply sound_refl | eapply x_update_sound; exact E4]. }
    assert (A4 : agree sch sch' (d_log d4)) by (destruct okp; exact A).
    assert (A3 : agree sch sch' (d_log d3)) by (eapply agree_incl; [eapply sound_incl; exact S4 | exact A4]).
    assert (A2 : agree sch sch' (d_log d2)) by (eapply agree_incl; [eapply sound_incl; exact S3 | exact A3]).
    assert (A1 : agree sch sch' (d_log d1)) by (eapply agree_incl; [eapply sound_incl; exact S2 | exact A2]).
    rewrite <- (x_init_local sch sch' (ins ++ outs) d) by (rewrite E1; exact A1). rewrite E1. cbn [negb].
    rewrite <- (x_reads_local sch sch' (q_reads q) d1) by (rewrite E2; exact A2). rewrite E2. cbn [negb].
    rewrite <- (writer_local add bulk sch sch' outs sent d2 [] true) by (rewrite E3; exact A3). rewrite E3.
    assert (X4 : (if is_empty pending then (true, d3) else x_update add sch d3 pending outs) =
                 (if is_empty pending then (true, d3) else x_update add sch' d3 pending outs)).
    { destruct (is_empty pending); [reflexivity|]. apply x_update_local. rewrite E4. exact A4. }
    rewrite <- X4, E4. reflexivity.
  - unfold x_select in *.
    destruct (x_init sch d ins) as [ok d1] eqn:E1. destruct ok; cbn [negb] in *.
    2:{ rewrite <- (x_init_local sch sch' ins d) by (rewrite E1; exact A). rewrite E1. reflexivity. }
    destruct (x_reads sch d1 (q_reads q)) as [okr d2] eqn:E2. assert (S2 := x_reads_sound _ _ _ _ _ E2).
    assert (A2 : agree sch sch' (d_log d2)) by (destruct okr; cbn [negb] in A; [destruct (q_ok q)|]; exact A).
    rewrite <- (x_init_local sch sch' ins d) by (rewrite E1; cbn [snd]; eapply agree_incl; [eapply sound_incl; exact S2 | exact A2]).
    rewrite E1. cbn [negb]. rewrite <- (x_reads_local sch sch' (q_reads q) d1) by (rewrite E2; exact A2). rewrite E2. reflexivity.
  - unfold x_show in *. destruct (d_graph_names sch d) as [[ns ok] d1] eqn:E.
    assert (A1 : agree sch sch' (d_log d1)) by (destruct ok; exact A).
    rewrite <- (d_graph_names_local sch sch' d) by (rewrite E; exact A1). rewrite E. reflexivity.
  - reflexivity.
Qed.

(* a schedule none of whose consumed entries is a failure behaves exactly like the driver that never fails *)
Theorem fexec_no_consumed_failure : forall bulk sch st s,
  (forall id, In id (d_log (snd (fexec bulk sch st s))) -> sch id = FOk) ->
  fexec bulk sch st s = fexec bulk no_faults st s.
Proof. intros bulk sch st s H. unfold fexec in *. apply xexec_local. intros id Hin. rewrite (H id Hin). reflexivity. Qed.
