(* Soundness of the comparison used by the checks (Corr.v): when `stores_iso` answers true the model store, with its
   new blank ids renamed injectively into new blank ids of the observation, has the same graph names and the same
   triple sets as the observed store. *)
From Coq Require Import List Bool Arith NArith ZArith Lia.
From Coq.Strings Require Import Byte.
From BWExec Require Import Base Values Store Driver Exec Fault Spec BaseProofs StoreProofs Corr.
Import ListNotations.
Open Scope N_scope.

Definition store_equiv (a b : store) : Prop :=
  (forall n, In n (names a) <-> In n (names b)) /\
  (forall n, In n (names a) -> forall t, In t (getd a n) <-> In t (getd b n)).

Lemma store_eqb_sound : forall a b, store_eqb a b = true -> store_equiv a b.
Proof.
  intros a b H. unfold store_eqb in H. apply andb_true_iff in H. destruct H as [H1 H2]. split.
  - apply (set_eqb_spec str_eqb str_eqb_ok). exact H1.
  - intros n Hn. rewrite forallb_forall in H2. apply (set_eqb_spec triple_eqb triple_eqb_ok). apply H2. exact Hn.
Qed.

Lemma dedup_In : forall l x, In x (dedup l) <-> In x l.
Proof.
  induction l as [|y l IH]; intro x; cbn; [tauto|]. destruct (mem N.eqb y l) eqn:M.
  - rewrite IH. split; [auto|]. intros [E|H]; [subst; apply (mem_In N.eqb N_eqb_ok); exact M | exact H].
  - cbn. rewrite IH. tauto.
Qed.

Lemma dedup_NoDup : forall l, NoDup (dedup l).
Proof.
  induction l as [|y l IH]; cbn; [constructor|]. destruct (mem N.eqb y l) eqn:M; [exact IH|].
  constructor; [|exact IH]. rewrite dedup_In. apply (mem_false N.eqb N_eqb_ok). exact M.
Qed.

Lemma remove_first_incl : forall x l, incl (remove_first x l) l.
Proof.
  intros x l. induction l as [|y l IH]; cbn; [apply incl_refl|]. destruct (N.eqb x y).
  - apply incl_tl. apply incl_refl.
  - intros z [E|H]; [left; exact E | right; apply IH; exact H].
Qed.

Lemma remove_first_NoDup : forall x l, NoDup l -> NoDup (remove_first x l) /\ ~ In x (remove_first x l).
Proof.
  intros x l H. induction H as [|y l Hy Hnd IH]; cbn; [split; [constructor | tauto]|].
  destruct (N.eqb x y) eqn:E.
  - apply N.eqb_eq in E. subst y. split; assumption.
  - apply N.eqb_neq in E. destruct IH as [I1 I2]. split.
    + constructor; [|exact I1]. intro X. apply Hy. apply (remove_first_incl x l). exact X.
    + intros [X|X]; [congruence | contradiction].
Qed.

Lemma match_blanks_sound : forall ms os sm so l, match_blanks ms os sm so = Some l -> NoDup os ->
  map fst l = ms /\ incl (map snd l) os /\ NoDup (map snd l).
Proof.
  induction ms as [|m ms IH]; intros os sm so l H Hnd; cbn [match_blanks] in H.
  - inversion H. cbn. split; [reflexivity|]. split; [intros x [] | constructor].
  - destruct (find _ os) as [o|] eqn:F; [|discriminate].
    destruct (match_blanks ms (remove_first o os) sm so) as [l'|] eqn:M; [|discriminate]. inversion H; subst l. clear H.
    apply find_some in F. destruct F as [Fin _].
    destruct (remove_first_NoDup o os Hnd) as [R1 R2].
    destruct (IH _ _ _ _ M R1) as [A [B C]]. cbn. split; [rewrite A; reflexivity|]. split.
    + intros x [E|X]; [subst; exact Fin | apply (remove_first_incl o os); apply B; exact X].
    + constructor; [|exact C]. intro X. apply R2. apply B. exact X.
Qed.

(* the answer `true` of stores_iso, unpacked *)
Theorem stores_iso_sound : forall old base sm so, stores_iso old base sm so = true ->
  exists l : list (N * N),
    NoDup (map fst l) /\ NoDup (map snd l) /\
    (forall a, In a (map fst l) <-> (In a (store_blanks sm) /\ base <= a)) /\
    (forall b, In b (map snd l) -> In b (store_blanks so) /\ ~ In b old) /\
    store_equiv (ren_store l sm) so.
Proof.
  intros old base sm so H. unfold stores_iso in H.
  destruct (match_blanks _ _ sm so) as [l|] eqn:M; [|discriminate].
  apply andb_true_iff in H. destruct H as [_ E].
  destruct (match_blanks_sound _ _ _ _ _ M (dedup_NoDup _)) as [A [B C]].
  exists l. split; [rewrite A; apply dedup_NoDup|]. split; [exact C|]. split; [|split].
  - intro a. rewrite A, dedup_In, filter_In, N.leb_le. tauto.
  - intros b Hb. apply B in Hb. rewrite dedup_In, filter_In, negb_true_iff in Hb. destruct Hb as [X Y].
    split; [exact X | apply (mem_false N.eqb N_eqb_ok); exact Y].
  - apply store_eqb_sound. exact E.
Qed.
