(* C20 — storage driver failures surface as errors: never success, never (nil, nil), never a table from partial data.
   PARTIAL: bounded time and goroutine exit are observed by the harness watchdog (h_fault: 5 s, NumGoroutine), not proved.
   Object of the theorems: `fexec` (coq/Exec/Fault.v) = the executors of Exec.v over a driver whose every call
   consumes the entry the fault schedule holds for that call; tied to bql/planner by the h_fault correspondence.
   The model follows the tree AFTER repository commits 7876d7e (F12) and 72fbbb8 (F13); the refutations found on the
   tree before them are kept in coq/Exec/History.v. *)
From Coq Require Import List NArith ZArith Bool Arith.
From Coq.Strings Require Import Byte.
Import ListNotations.
From BWExec Require Import Base Values Store Driver Exec Fault Spec BaseProofs StoreProofs ExecProofs FaultProofs History Pipeline PipelineProofs.

(* ---- for ALL schedules, stores and statements: a consumed failure entry => the statement returns an error ---- *)
Theorem C20_error_surfaces :
  forall bulk (sch : schedule) (st : store) (s : stmt),
  (exists id, In id (d_log (snd (fexec bulk sch st s))) /\ sch id <> FOk) ->
  exists e, fst (fexec bulk sch st s) = RErr e.
Proof. exact fexec_error_surfaces. Qed.
Print Assumptions C20_error_surfaces.

(* ---- the same, per plan type (instances written out) ---- *)
Theorem C20_error_surfaces_per_plan :
  forall bulk sch st,
  (forall gs ts, consumed_failure sch (d_log (snd (fexec bulk sch st (SInsert gs ts)))) -> is_err (fst (fexec bulk sch st (SInsert gs ts))) = true) /\
  (forall gs ts, consumed_failure sch (d_log (snd (fexec bulk sch st (SDelete gs ts)))) -> is_err (fst (fexec bulk sch st (SDelete gs ts))) = true) /\
  (forall gs, consumed_failure sch (d_log (snd (fexec bulk sch st (SCreate gs)))) -> is_err (fst (fexec bulk sch st (SCreate gs))) = true) /\
  (forall gs, consumed_failure sch (d_log (snd (fexec bulk sch st (SDrop gs)))) -> is_err (fst (fexec bulk sch st (SDrop gs))) = true) /\
  (forall add tmpl outs ins wb q draw,
      consumed_failure sch (d_log (snd (fexec bulk sch st (SConstruct add tmpl outs ins wb q draw)))) ->
      is_err (fst (fexec bulk sch st (SConstruct add tmpl outs ins wb q draw))) = true) /\
  (forall ins vars wb q, consumed_failure sch (d_log (snd (fexec bulk sch st (SSelect ins vars wb q)))) ->
      is_err (fst (fexec bulk sch st (SSelect ins vars wb q))) = true) /\
  (consumed_failure sch (d_log (snd (fexec bulk sch st SShow))) -> is_err (fst (fexec bulk sch st SShow)) = true).
Proof.
  intros bulk sch st.
  assert (X : forall s, consumed_failure sch (d_log (snd (fexec bulk sch st s))) -> is_err (fst (fexec bulk sch st s)) = true).
  { intros s H. destruct (fexec_error_surfaces bulk sch st s H) as [e E]. rewrite E. reflexivity. }
  repeat split; intros; apply X; assumption.
Qed.
Print Assumptions C20_error_surfaces_per_plan.

(* ---- never (nil, nil) ---- *)
Theorem C20_never_nilnil : forall bulk sch st s, fst (fexec bulk sch st s) <> RNilNil.
Proof. exact fexec_never_nilnil. Qed.
Print Assumptions C20_never_nilnil.

(* ---- a failure met before the write phase (Init, a lookup of the pattern, the query engine) writes nothing;
   and under any schedule a statement only ever touches the graphs it names as targets ---- *)
Theorem C20_failure_effects :
  (forall bulk sch st s e, fst (fexec bulk sch st s) = RErr e -> (e = EInit \/ e = EDriver \/ e = EQuery \/ e = EStatic) ->
      d_store (snd (fexec bulk sch st s)) = st) /\
  (forall bulk sch st s g, ~ In g (targets s) -> get (d_store (snd (fexec bulk sch st s))) g = get st g).
Proof.
  split; [exact fexec_early_failure_no_write|].
  intros bulk sch st s g Hg. unfold fexec. destruct (xexec bulk sch (mkD st []) s) as [r d] eqn:E. cbn [snd].
  apply (xexec_frame _ _ _ _ _ _ E g Hg).
Qed.
Print Assumptions C20_failure_effects.

(* ---- only consumed entries matter: two schedules that agree on the calls a statement makes give the same run; in
   particular a schedule none of whose consumed entries is a failure behaves exactly like the fault-free driver.  (This
   is what makes "inject at every call the statement makes" an exhaustive enumeration of single failures.) ---- *)
Theorem C20_only_consumed_entries_matter :
  (forall bulk sch sch' st s,
      (forall id, In id (d_log (snd (fexec bulk sch st s))) -> sch id = sch' id) ->
      fexec bulk sch st s = fexec bulk sch' st s) /\
  (forall bulk sch st s,
      (forall id, In id (d_log (snd (fexec bulk sch st s))) -> sch id = FOk) ->
      fexec bulk sch st s = fexec bulk no_faults st s).
Proof.
  split; [|exact fexec_no_consumed_failure].
  intros bulk sch sch' st s H. unfold fexec in *. apply xexec_local. exact H.
Qed.
Print Assumptions C20_only_consumed_entries_matter.

(* ---- why no goroutine is left behind and the statement returns (model of the channel protocol only; the tie to
   the code is the harness watchdog + goroutine count, hence C20 stays PARTIAL).  Pipeline.v: source -> channel ->
   forwarder -> channel -> consumer, as built by simpleFetch (driver lookup -> main loop -> addTriples) and by
   constructPlan (template loops -> writer).  n = number of items the source delivers before it closes its channel
   (fail_before: 0, fail_after j: j, no failure: all); the forwarder may drop any item (lErr), the consumer keeps
   receiving whatever happens (drainChannel).  For every n, all capacities >= 1 and EVERY schedule: at most 5n+3 steps,
   and when nothing can move any more all three goroutines have returned. ---- *)
Theorem C20_pipeline_terminates :
  forall n c1 c2, 1 <= c1 -> 1 <= c2 ->
  (forall k q, psteps k (pinit n c1 c2 true) q -> k <= 5 * n + 3) /\
  (forall k q, psteps k (pinit n c1 c2 true) q -> (forall r, ~ pstep q r) -> final q).
Proof. exact pipeline_terminates. Qed.
Print Assumptions C20_pipeline_terminates.

(* a source that returns without closing its channel -- constructPlan.Execute before F13 on a template error --
   leaves forwarder and consumer blocked for ever *)
Theorem C20_pipeline_abandoned_leaks_before_F13 :
  forall c1 c2, exists q, psteps 1 (pinit 0 c1 c2 false) q /\ (forall r, ~ pstep q r) /\ ~ final q.
Proof. exact pipeline_abandoned_leaks. Qed.
Print Assumptions C20_pipeline_abandoned_leaks_before_F13.

(* ---- the tree before the fixes did not satisfy C20_error_surfaces: replayable witnesses (History.v) ---- *)
Theorem C20_show_refuted_before_F12 :
  exists sch st, let rd := x_show_before_F12 sch (mkD st []) in
                 consumed_failure sch (d_log (snd rd)) /\ fst rd = RNilNil.
Proof. exact show_before_F12_refuted. Qed.
Print Assumptions C20_show_refuted_before_F12.

Theorem C20_construct_refuted_before_F13 :
  exists sch st, let rd := x_construct_before_F13 true 1 sch (mkD st []) witness_tmpl [gB] [gA] witness_q (fun _ => 0%N) in
                 consumed_failure sch (d_log (snd rd)) /\ fst rd = ROk /\ get (d_store (snd rd)) gB = Some [].
Proof. exact construct_before_F13_refuted. Qed.
Print Assumptions C20_construct_refuted_before_F13.

(* ---- non-vacuity: the same two witnesses on the current model give errors; a schedule that fails AddTriples after
   one triple leaves a partial write AND an error ---- *)
Definition ex_construct : stmt := SConstruct true witness_tmpl [gB] [gA] [bS; bO] witness_q (fun _ => 0%N).
Definition ex_st : store := [(gA, [(nA, pP, ONode nB)]); (gB, [])].
Example C20_nonvacuous :
  fst (fexec 1 (single (KGraphNames, [], 0) FBefore) [(gA, [])] SShow) = RErr EDriver /\
  fst (fexec 1 (single (KAdd, gB, 0) FWrite) ex_st ex_construct) = RErr EUpdate /\
  fst (fexec 1 no_faults ex_st ex_construct) = ROk /\
  consumed_failure_b (single (KAdd, gB, 0) FWrite) (d_log (snd (fexec 1 (single (KAdd, gB, 0) FWrite) ex_st ex_construct))) = true /\
  fst (fexec 1 (single (KRead, gA, 0) (FAfter 1)) ex_st ex_construct) = RErr EDriver /\
  fst (fexec 1 (single (KAdd, gA, 0) (FAfter 1)) ex_st
        (SInsert [gA] [(nB, pP, ONode nA); (nB, pP2, ONode nA)])) = RErr EUpdate /\
  length (getd (d_store (snd (fexec 1 (single (KAdd, gA, 0) (FAfter 1)) ex_st
        (SInsert [gA] [(nB, pP, ONode nA); (nB, pP2, ONode nA)])))) gA) = 2.
Proof. vm_compute. repeat split; reflexivity. Qed.
