(* C20 — storage driver failures surface as errors.  Stage: model of the UNFIXED tree; the two refutations.
   partial: bounded time and goroutine exit are observed by the harness watchdog, not proved. *)
From Coq Require Import List NArith ZArith Bool.
From Coq.Strings Require Import Byte.
Import ListNotations.
From BWExec Require Import Base Values Store Driver Exec Fault.

Definition gA : str := [x3f;x61].
Definition gB : str := [x3f;x62].
Definition bS : str := [x3f;x73].
Definition bO : str := [x3f;x6f].
Definition nA : node := Node [x2f;x75] [x61].
Definition nB : node := Node [x2f;x75] [x62].
Definition pP : pred := mkPred [x70] None.
Definition pP2 : pred := mkPred [x70;x32] None.

(* SHOW GRAPHS over a store whose GraphNames fails: (nil, nil) *)
Theorem C20_show_refuted :
  exists sch st, consumed_failure sch (d_log (snd (fexec 1 sch st SShow))) /\ fst (fexec 1 sch st SShow) = RNilNil.
Proof.
  exists (single (KGraphNames, [], 0) FBefore), [(gA, [])]. split.
  - exists (KGraphNames, [], 0). split; [vm_compute; auto 12 | vm_compute; discriminate].
  - vm_compute. reflexivity.
Qed.
Print Assumptions C20_show_refuted.

(* CONSTRUCT { ?s "p2"@[] ?o } INTO ?b FROM ?a WHERE { ?s "p"@[] ?o } with one solution row, AddTriples on ?b fails:
   the statement reports success and ?b is unchanged *)
Definition witness_construct : stmt :=
  SConstruct true
    [mkCC None bS (mkPop (Some pP2) [] [] [] false None bO [] [] false) []]
    [gB] [gA] [bS; bO]
    (mkQ [gA] true [[(bS, CNode nA); (bO, CNode nB)]]) (fun _ => 0%N).

Theorem C20_construct_refuted :
  exists sch st, consumed_failure sch (d_log (snd (fexec 1 sch st witness_construct)))
                 /\ fst (fexec 1 sch st witness_construct) = ROk
                 /\ get (d_store (snd (fexec 1 sch st witness_construct))) gB = Some [].
Proof.
  exists (single (KAdd, gB, 0) FWrite), [(gA, [(nA, pP, ONode nB)]); (gB, [])]. split; [|split].
  - exists (KAdd, gB, 0). split; [vm_compute; auto 12 | vm_compute; discriminate].
  - vm_compute. reflexivity.
  - vm_compute. reflexivity.
Qed.
Print Assumptions C20_construct_refuted.
