From BWExec Require Import Fault.
