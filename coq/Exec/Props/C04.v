(* C04 — data and graph statements change the store exactly as stated, nothing else.
   Object of the theorems: `exec` (coq/Exec/Exec.v), the executor model run over a driver that never fails; it is
   tied to bql/planner + storage/memory by the h_exec correspondence.  Inputs of the model (not computed by it):
   the solution rows of the WHERE pattern (q_rows), whether the query engine failed (q_ok), the blank-node draws. *)
From Coq Require Import List NArith ZArith Bool Arith.
From Coq.Strings Require Import Byte.
Import ListNotations.
From BWExec Require Import Base Values Store Driver Exec Spec BaseProofs StoreProofs ExecProofs Corr CorrProofs.
Open Scope nat_scope.

(* ---- INSERT / DELETE: every named graph that exists gets exactly the union / difference; the statement succeeds
   iff every named graph exists; when one is missing the others are still written (update() joins the errors) ---- *)
Theorem C04_insert_delete :
  forall bulk st gs ts, gs <> [] -> ts <> [] ->
  (forall r st', exec bulk st (SInsert gs ts) = (r, st') ->
     names st' = names st /\
     (forall g, In g gs -> has st g = true -> forall t, In t (getd st' g) <-> In t (getd st g) \/ In t ts) /\
     (forall g, ~ In g gs -> get st' g = get st g) /\
     (r = ROk <-> forall g, In g gs -> has st g = true) /\ (r = ROk \/ r = RErr EUpdate)) /\
  (forall r st', exec bulk st (SDelete gs ts) = (r, st') ->
     names st' = names st /\
     (forall g, In g gs -> has st g = true -> forall t, In t (getd st' g) <-> In t (getd st g) /\ ~ In t ts) /\
     (forall g, ~ In g gs -> get st' g = get st g) /\
     (r = ROk <-> forall g, In g gs -> has st g = true) /\ (r = ROk \/ r = RErr EUpdate)).
Proof.
  intros bulk st gs ts Hg Ht. split; intros r st' H.
  - destruct (exec_update_spec true bulk st gs ts r st' H Hg Ht) as [A [B [C [D E]]]].
    split; [exact A|]. split; [exact C|]. split; [exact B|]. split; [exact D | exact E].
  - destruct (exec_update_spec false bulk st gs ts r st' H Hg Ht) as [A [B [C [D E]]]].
    split; [exact A|]. split; [exact C|]. split; [exact B|]. split; [exact D | exact E].
Qed.
Print Assumptions C04_insert_delete.

(* ---- CREATE / DROP: exactly the named graphs appear (empty) / disappear; existing graphs keep their contents ---- *)
Theorem C04_create_drop :
  forall bulk st gs, gs <> [] ->
  (forall r st', exec bulk st (SCreate gs) = (r, st') ->
     (forall g, has st' g = has st g || mem str_eqb g gs) /\
     (forall g, has st g = true -> get st' g = get st g) /\
     (forall g, In g gs -> has st g = false -> get st' g = Some []) /\
     (r = ROk <-> NoDup gs /\ forall g, In g gs -> has st g = false) /\ (r = ROk \/ r = RErr EUpdate)) /\
  (forall r st', exec bulk st (SDrop gs) = (r, st') ->
     (forall g, has st' g = has st g && negb (mem str_eqb g gs)) /\
     (forall g, ~ In g gs -> get st' g = get st g) /\
     (r = ROk <-> NoDup gs /\ forall g, In g gs -> has st g = true) /\ (r = ROk \/ r = RErr EUpdate)).
Proof.
  intros bulk st gs Hg. split; intros r st' H.
  - exact (exec_create_spec bulk st gs r st' H Hg).
  - exact (exec_drop_spec bulk st gs r st' H Hg).
Qed.
Print Assumptions C04_create_drop.

(* ---- CONSTRUCT: every output graph = old contents ∪ the template groups, one group per (clause, solution row) ---- *)
Theorem C04_construct :
  forall bulk st tmpl outs ins wb q draw r st',
  exec bulk st (SConstruct true tmpl outs ins wb q draw) = (r, st') ->
  static_ok (SConstruct true tmpl outs ins wb q draw) = true ->
  (forall g, In g (ins ++ outs) -> has st g = true) -> q_ok q = true -> r = ROk ->
  exists gs i',
    produced (output_bindings tmpl) draw 0 (list_prod tmpl (q_rows q)) gs i' /\
    (length gs = length tmpl * length (q_rows q))%nat /\
    (forall g, In g outs -> forall t, In t (getd st' g) <-> In t (getd st g) \/ In t (concat gs)) /\
    (forall g, ~ In g outs -> get st' g = get st g).
Proof.
  intros bulk st tmpl outs ins wb q draw r st' H HS Hall Hq Hr.
  destruct (exec_construct_spec true bulk st tmpl outs ins wb q draw r st' H HS Hall Hq) as [_ X].
  destruct (X Hr) as [gs [i' [Hp Hc]]]. exists gs, i'. split; [exact Hp|]. split; [|split; [exact Hc|]].
  - rewrite (produced_length _ _ _ _ _ _ Hp). apply prod_length.
  - intros g Hg. change st' with (snd (r, st')). rewrite <- H. apply (exec_frame bulk st _ g). exact Hg.
Qed.
Print Assumptions C04_construct.

(* ---- what a group is: without `;` the instantiated triple; with `;` exactly 3 + (#pairs - 1) triples, all on the
   blank node drawn for this (clause, row); the reified triple itself is not added ---- *)
Theorem C04_construct_groups :
  forall bs c r b g, group_of bs c r b g ->
  (cRest c = [] -> exists t, process_cc bs r c = Some t /\ g = [t]) /\
  (cRest c <> [] ->
     length g = 3 + length (cRest c) /\
     (forall t, In t g -> subject_of t = Blank b) /\
     (exists t, process_cc bs r c = Some t /\ firstn 3 g = reify t b /\ (subject_of t <> Blank b -> ~ In t g))).
Proof.
  intros bs c r b g H. split; intro R.
  - destruct H as [t R' E | t es R' E F]; [exists t; auto | congruence].
  - split; [|split].
    + rewrite (group_of_length _ _ _ _ _ H). destruct (cRest c); [congruence | reflexivity].
    + exact (group_of_subjects _ _ _ _ _ H R).
    + destruct H as [t R' E | t es R' E F]; [congruence|]. exists t. split; [exact E|]. split.
      * destruct t as [[s p] o]. reflexivity.
      * intro Hs. apply (group_of_not_original bs c r b _ t (G_reified bs c r b t es R' E F) R E Hs).
Qed.
Print Assumptions C04_construct_groups.

(* ---- freshness: with a fresh supply, a blank id that is not old (store, template, rows) is mentioned by the
   triples of at most ONE group, and every reified group sits on such a blank ---- *)
Theorem C04_construct_fresh :
  forall st tmpl rows draw gs i',
  fresh_supply (old_ids st tmpl rows) draw ->
  produced (output_bindings tmpl) draw 0 (list_prod tmpl rows) gs i' ->
  (forall n1 n2 g1 g2 k t1 t2, n1 <> n2 -> nth_error gs n1 = Some g1 -> nth_error gs n2 = Some g2 ->
      ~ In k (old_ids st tmpl rows) -> In t1 g1 -> mentions k t1 -> In t2 g2 -> mentions k t2 -> False) /\
  (forall i, ~ In (draw i) (store_blanks st)).
Proof.
  intros st tmpl rows draw gs i' Hf Hp. split.
  - apply (produced_sep _ _ _ _ _ _ _ Hp Hf). intros c r Hin. apply in_prod_iff in Hin. destruct Hin as [Hc Hr].
    unfold old_ids. intros k Hk. apply in_app_iff in Hk. apply in_app_iff. right. apply in_app_iff.
    destruct Hk as [Hk|Hk]; [left | right]; apply in_flat_map; eexists; split; eassumption.
  - intros i Hin. destruct Hf as [Hf _]. apply (Hf i). unfold old_ids. apply in_app_iff. left. exact Hin.
Qed.
Print Assumptions C04_construct_fresh.

(* ---- the same, per (clause, row): the group of a clause with `;` sits on ONE blank node b (the subject of all its
   triples) that does not occur in the old store and is mentioned by no triple of any OTHER group ---- *)
Theorem C04_reified_blank_private :
  forall st tmpl rows draw gs i',
  fresh_supply (old_ids st tmpl rows) draw ->
  produced (output_bindings tmpl) draw 0 (list_prod tmpl rows) gs i' ->
  forall n g c r, nth_error gs n = Some g -> nth_error (list_prod tmpl rows) n = Some (c, r) -> cRest c <> [] ->
  exists b, (forall t, In t g -> subject_of t = Blank b) /\
            ~ In b (store_blanks st) /\
            (forall n' g' t', n' <> n -> nth_error gs n' = Some g' -> In t' g' -> ~ mentions b t').
Proof. exact reified_blank_is_private. Qed.
Print Assumptions C04_reified_blank_private.

(* ---- DECONSTRUCT: every output graph = old contents minus the instantiated triples (no `;` in the grammar) ---- *)
Theorem C04_deconstruct :
  forall bulk st tmpl outs ins wb q draw r st',
  exec bulk st (SConstruct false tmpl outs ins wb q draw) = (r, st') ->
  static_ok (SConstruct false tmpl outs ins wb q draw) = true ->
  (forall g, In g (ins ++ outs) -> has st g = true) -> q_ok q = true -> r = ROk ->
  exists gs i',
    produced (output_bindings tmpl) draw 0 (list_prod tmpl (q_rows q)) gs i' /\
    (length gs = length tmpl * length (q_rows q))%nat /\
    (forall g, In g outs -> forall t, In t (getd st' g) <-> In t (getd st g) /\ ~ In t (concat gs)) /\
    (forall g, ~ In g outs -> get st' g = get st g).
Proof.
  intros bulk st tmpl outs ins wb q draw r st' H HS Hall Hq Hr.
  destruct (exec_construct_spec false bulk st tmpl outs ins wb q draw r st' H HS Hall Hq) as [_ X].
  destruct (X Hr) as [gs [i' [Hp Hc]]]. exists gs, i'. split; [exact Hp|]. split; [|split; [exact Hc|]].
  - rewrite (produced_length _ _ _ _ _ _ Hp). apply prod_length.
  - intros g Hg. change st' with (snd (r, st')). rewrite <- H. apply (exec_frame bulk st _ g). exact Hg.
Qed.
Print Assumptions C04_deconstruct.

(* ---- a CONSTRUCT / DECONSTRUCT that stops at a template error (a binding of the wrong kind in some row) has written
   exactly the triples produced before the failing pair -- the prefix `fst (produce ...)` -- and nothing else ---- *)
Theorem C04_construct_template_error :
  forall (add : bool) bulk st tmpl outs ins wb q draw r st',
  exec bulk st (SConstruct add tmpl outs ins wb q draw) = (r, st') ->
  static_ok (SConstruct add tmpl outs ins wb q draw) = true ->
  (forall g, In g (ins ++ outs) -> has st g = true) -> q_ok q = true ->
  let sent := fst (produce (output_bindings tmpl) tmpl (q_rows q) draw 0) in
  r = (if snd (produce (output_bindings tmpl) tmpl (q_rows q) draw 0) then ROk else RErr ETemplate) /\
  (forall g, In g outs -> forall t,
     In t (getd st' g) <-> (if add then In t (getd st g) \/ In t sent else In t (getd st g) /\ ~ In t sent)) /\
  (forall g, ~ In g outs -> get st' g = get st g).
Proof.
  intros add bulk st tmpl outs ins wb q draw r st' H HS Hall Hq sent.
  destruct (exec_construct_sent add bulk st tmpl outs ins wb q draw r st' H HS Hall Hq) as [A B].
  split; [exact A|]. split.
  - intros g Hg t. specialize (B g Hg t). unfold W in B. destruct add; exact B.
  - intros g Hg. change st' with (snd (r, st')). rewrite <- H. apply (exec_frame bulk st _ g). exact Hg.
Qed.
Print Assumptions C04_construct_template_error.

(* ---- frame: a statement, whatever its outcome, leaves every graph it does not name as a target unchanged;
   so does a whole sequence ---- *)
Theorem C04_frame :
  (forall bulk st s g, ~ In g (targets s) -> get (step bulk st s) g = get st g) /\
  (forall bulk ss st g, (forall s, In s ss -> ~ In g (targets s)) -> get (run bulk st ss) g = get st g).
Proof. split; [exact exec_frame | exact run_frame]. Qed.
Print Assumptions C04_frame.

(* ---- rejected before execution starts (parser / semantic checks, or Statement.Init: CONSTRUCT / DECONSTRUCT /
   SELECT naming a graph that does not exist): an error, every graph unchanged; dropping such a statement from a
   sequence changes nothing.  Statements that only read never change the store. ---- *)
Theorem C04_rejected_no_effect :
  (forall bulk st s, rejected st s = true -> step bulk st s = st /\ exists e, fst (exec bulk st s) = RErr e) /\
  (forall bulk st ss1 s ss2, rejected (run bulk st ss1) s = true ->
      run bulk st (ss1 ++ s :: ss2) = run bulk st (ss1 ++ ss2)) /\
  (forall bulk st s, static_ok s = true -> forallb (has st) (init_graphs s) = true ->
      (match s with SConstruct _ _ _ _ _ q _ | SSelect _ _ _ q => q_ok q = false | _ => False end) ->
      exec bulk st s = (RErr EQuery, st)) /\
  (forall bulk st s, (match s with SSelect _ _ _ _ | SShow | SBad => True | _ => False end) -> snd (exec bulk st s) = st).
Proof. split; [exact rejected_step | split; [exact run_rejected | split; [exact exec_query_fail | exact exec_readonly]]]. Qed.
Print Assumptions C04_rejected_no_effect.

(* ---- refinement, for every statement and every SEQUENCE of statements: seen as a map name -> set of triples
   (Spec.abs), the store after a statement is the store before it changed by exactly `effect_of` (Spec.v): nothing for a
   rejected / failing-query / read-only statement; union resp. difference of the listed triples in the named graphs
   that exist (INSERT, DELETE); of the triples the template yields for the rows in the output graphs (CONSTRUCT,
   DECONSTRUCT); the named graphs added empty / removed (CREATE, DROP); every other graph the same set as before ---- *)
Theorem C04_refines_spec :
  (forall bulk st s, apply_effect (effect_of st s) (abs st) (abs (step bulk st s))) /\
  (forall bulk ss st, follows bulk st ss (run bulk st ss)).
Proof. split; [exact step_has_effect | exact run_follows]. Qed.
Print Assumptions C04_refines_spec.

(* ---- the store stays a map from distinct names to duplicate-free triple lists, along any statement sequence ---- *)
Theorem C04_wellformed : forall bulk ss st, WF st -> WF (run bulk st ss).
Proof. exact run_WF. Qed.
Print Assumptions C04_wellformed.

(* ---- what the differential comparison of the check means (Corr.stores_iso, evaluated by vm_compute on every observed
   step): when it answers true, there is an injective renaming of the blank ids that are new in the model store
   (>= base) into blank ids that are new in the observed store (not old) under which both stores have the same graph
   names and every graph the same set of triples ---- *)
Theorem C04_comparison_sound :
  forall old base sm so, stores_iso old base sm so = true ->
  exists l : list (N * N),
    NoDup (map fst l) /\ NoDup (map snd l) /\
    (forall a, In a (map fst l) <-> (In a (store_blanks sm) /\ (base <= a)%N)) /\
    (forall b, In b (map snd l) -> In b (store_blanks so) /\ ~ In b old) /\
    (forall n, In n (names (ren_store l sm)) <-> In n (names so)) /\
    (forall n, In n (names (ren_store l sm)) -> forall t, In t (getd (ren_store l sm) n) <-> In t (getd so n)).
Proof.
  intros old base sm so H. destruct (stores_iso_sound old base sm so H) as [l [A [B [C [D E]]]]].
  exists l. destruct E as [E1 E2].
  split; [exact A|]. split; [exact B|]. split; [exact C|]. split; [exact D|]. split; [exact E1 | exact E2].
Qed.
Print Assumptions C04_comparison_sound.

(* ---- the freshness hypothesis is satisfiable: counting upwards from above every old id ---- *)
Theorem C04_fresh_supply_exists : forall old, fresh_supply old (counter_supply old).
Proof. exact counter_supply_fresh. Qed.
Print Assumptions C04_fresh_supply_exists.

(* ---- non-vacuity: CONSTRUCT { ?s "p2"@[] ?o ; "q"@[] /u<a> ; "q2"@[] ?s } INTO ?b FROM ?a WHERE { ?s "p"@[] ?o }
   over two solution rows: success, 2 x (3 + 2) triples on two distinct blank nodes, ?a untouched ---- *)
Definition gA : str := [x3f;x61].
Definition gB : str := [x3f;x62].
Definition bS : str := [x3f;x73].
Definition bO : str := [x3f;x6f].
Definition nA : node := Node [x2f;x75] [x61].
Definition nB : node := Node [x2f;x75] [x62].
Definition ex_pop (p : str) (o : option obj) (ob : str) : pop := mkPop (Some (mkPred p None)) [] [] [] false o ob [] [] false.
Definition ex_tmpl : list cclause :=
  [mkCC None bS (ex_pop [x70;x32] None bO) [ex_pop [x71] (Some (ONode nA)) []; ex_pop [x71;x32] None bS]].
Definition ex_rows : list row := [[(bS, CNode nA); (bO, CNode nB)]; [(bS, CNode nB); (bO, CNode nA)]].
Definition ex_store : store := [(gA, [(nA, mkPred [x70] None, ONode nB); (nB, mkPred [x70] None, ONode nA)]); (gB, [])].
Definition ex_stmt : stmt := SConstruct true ex_tmpl [gB] [gA] [bS; bO] (mkQ [] true ex_rows) (counter_supply []).

Example C04_nonvacuous :
  fst (exec 3 ex_store ex_stmt) = ROk /\
  length (getd (snd (exec 3 ex_store ex_stmt)) gB) = 10 /\
  map subject_of (getd (snd (exec 3 ex_store ex_stmt)) gB) =
    [Blank 1; Blank 1; Blank 1; Blank 1; Blank 1; Blank 2; Blank 2; Blank 2; Blank 2; Blank 2]%N /\
  get (snd (exec 3 ex_store ex_stmt)) gA = get ex_store gA /\
  static_ok ex_stmt = true /\ rejected ex_store ex_stmt = false /\
  rejected ex_store (SConstruct true ex_tmpl [[x3f;x7a]] [gA] [bS; bO] (mkQ [] true ex_rows) (counter_supply [])) = true.
Proof. vm_compute. repeat split; reflexivity. Qed.
