From BWExec Require Import Exec.
