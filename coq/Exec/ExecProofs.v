(* Proofs about the executors of Exec.v: frame conditions (any schedule), exact contents (fault-free driver),
   template instantiation, well-formedness, statement sequences. *)
From Coq Require Import List Bool NArith ZArith Arith Lia.
From Coq.Strings Require Import Byte.
From BWExec Require Import Base Values Store Driver Exec Spec BaseProofs StoreProofs.
Import ListNotations.

(* ------------------------------------------------------------------ driver calls, any schedule *)

(* a step of the driver: names kept, graphs other than those in `touched` kept *)
Definition frame_on (touched : list str) (s s' : store) : Prop :=
  names s' = names s /\ forall g, ~ In g touched -> get s' g = get s g.

Lemma frame_on_refl : forall l s, frame_on l s s.
Proof. intros l s. split; [reflexivity | intros; reflexivity]. Qed.

Lemma frame_on_trans : forall l s1 s2 s3, frame_on l s1 s2 -> frame_on l s2 s3 -> frame_on l s1 s3.
Proof.
  intros l s1 s2 s3 [N1 F1] [N2 F2]. split; [congruence|]. intros g Hg. rewrite F2, F1 by exact Hg. reflexivity.
Qed.

Lemma frame_on_mono : forall l l' s s', (forall g, In g l -> In g l') -> frame_on l s s' -> frame_on l' s s'.
Proof. intros l l' s s' Hsub [N F]. split; [exact N|]. intros g Hg. apply F. intro X. apply Hg. apply Hsub. exact X. Qed.

Lemma d_graph_store : forall sch d n, d_store (snd (d_graph sch d n)) = d_store d.
Proof. intros. reflexivity. Qed.

Lemma d_graph_ok : forall sch d n d', d_graph sch d n = (true, d') -> has (d_store d) n = true.
Proof.
  intros sch d n d' H. unfold d_graph in H. injection H as H1 H2. apply andb_true_iff in H1. tauto.
Qed.

Lemma apply_write_frame : forall add s n ts, frame_on [n] s (apply_write add s n ts).
Proof.
  intros add s n ts. unfold apply_write. split; [apply names_set_graph|].
  intros g Hg. apply get_set_graph_other. intro E. apply Hg. left. exact E.
Qed.

Lemma d_write_frame : forall add sch d n ts ok d', d_write add sch d n ts = (ok, d') -> frame_on [n] (d_store d) (d_store d').
Proof.
  intros add sch d n ts ok d' H. unfold d_write in H.
  destruct (sch _); inversion H; subst; cbn; try apply frame_on_refl; apply apply_write_frame.
Qed.

Lemma x_update_frame : forall add sch ts gbs d ok d',
  x_update add sch d ts gbs = (ok, d') -> frame_on gbs (d_store d) (d_store d').
Proof.
  intros add sch ts gbs. induction gbs as [|g r IH]; intros d ok d' H; cbn [x_update] in H.
  - inversion H; subst. apply frame_on_refl.
  - destruct (d_graph sch d g) as [okg d1] eqn:E1.
    assert (S1 : d_store d1 = d_store d) by (unfold d_graph in E1; inversion E1; reflexivity).
    destruct (if okg then d_write add sch d1 g ts else (false, d1)) as [ok1 d2] eqn:E2.
    destruct (x_update add sch d2 ts r) as [ok2 d3] eqn:E3. inversion H; subst. clear H.
    apply IH in E3. apply frame_on_trans with (s2 := d_store d2).
    + destruct okg.
      * apply d_write_frame in E2. rewrite S1 in E2. eapply frame_on_mono; [|exact E2]. intros x [X|[]]. left. exact X.
      * inversion E2; subst. rewrite S1. apply frame_on_refl.
    + eapply frame_on_mono; [|exact E3]. intros x X. right. exact X.
Qed.

Lemma x_init_store : forall sch gs d ok d', x_init sch d gs = (ok, d') -> d_store d' = d_store d.
Proof.
  intros sch gs. induction gs as [|g r IH]; intros d ok d' H; cbn [x_init] in H.
  - inversion H; reflexivity.
  - destruct (d_graph sch d g) as [okg d1] eqn:E1.
    assert (S1 : d_store d1 = d_store d) by (unfold d_graph in E1; inversion E1; reflexivity).
    destruct okg; [apply IH in H; congruence | inversion H; subst; exact S1].
Qed.

Lemma x_reads_store : forall sch gs d ok d', x_reads sch d gs = (ok, d') -> d_store d' = d_store d.
Proof.
  intros sch gs. induction gs as [|g r IH]; intros d ok d' H; cbn [x_reads] in H.
  - inversion H; reflexivity.
  - destruct (d_read sch d g) as [okg d1] eqn:E1.
    assert (S1 : d_store d1 = d_store d) by (unfold d_read in E1; inversion E1; reflexivity).
    destruct okg; [apply IH in H; congruence | inversion H; subst; exact S1].
Qed.

Lemma writer_frame : forall add bulk sch outs sent d pending okacc p' ok' d',
  writer add bulk sch d outs sent pending okacc = (p', ok', d') -> frame_on outs (d_store d) (d_store d').
Proof.
  intros add bulk sch outs sent. induction sent as [|t r IH]; intros d pending okacc p' ok' d' H; cbn [writer] in H.
  - inversion H; subst. apply frame_on_refl.
  - destruct (bulk <=? length (pending ++ [t])).
    + destruct (x_update add sch d (pending ++ [t]) outs) as [ok d1] eqn:E. apply x_update_frame in E.
      apply IH in H. eapply frame_on_trans; eassumption.
    + apply IH in H. exact H.
Qed.

Lemma x_construct_frame : forall add bulk sch d tmpl outs ins q draw r d',
  x_construct add bulk sch d tmpl outs ins q draw = (r, d') -> frame_on outs (d_store d) (d_store d').
Proof.
  intros add bulk sch d tmpl outs ins q draw r d' H. unfold x_construct in H.
  destruct (x_init sch d (ins ++ outs)) as [ok d1] eqn:E1. apply x_init_store in E1.
  destruct ok; cbn [negb] in H; [|inversion H; subst; rewrite E1; apply frame_on_refl].
  destruct (x_reads sch d1 (q_reads q)) as [okr d2] eqn:E2. apply x_reads_store in E2.
  destruct okr; cbn [negb] in H; [|inversion H; subst; rewrite E2, E1; apply frame_on_refl].
  destruct (q_ok q); cbn [negb] in H; [|inversion H; subst; rewrite E2, E1; apply frame_on_refl].
  destruct (produce _ _ _ _ _) as [sent okp].
  destruct (writer add bulk sch d2 outs sent [] true) as [[pending okw] d3] eqn:E3. apply writer_frame in E3.
  rewrite E2, E1 in E3.
  destruct (if is_empty pending then (true, d3) else x_update add sch d3 pending outs) as [okf d4] eqn:E4.
  assert (F4 : frame_on outs (d_store d3) (d_store d4)).
  { destruct (is_empty pending); [inversion E4; subst; apply frame_on_refl | apply x_update_frame in E4; exact E4]. }
  assert (d' = d4) by (destruct okp; inversion H; reflexivity). subst d'.
  eapply frame_on_trans; eassumption.
Qed.

Lemma x_create_frame : forall sch gs d ok d', x_create sch d gs = (ok, d') ->
  forall g, ~ In g gs -> get (d_store d') g = get (d_store d) g.
Proof.
  intros sch gs. induction gs as [|n r IH]; intros d ok d' H g Hg; cbn [x_create] in H.
  - inversion H; reflexivity.
  - destruct (d_new_graph sch d n) as [ok1 d1] eqn:E1. destruct (x_create sch d1 r) as [ok2 d2] eqn:E2.
    inversion H; subst. rewrite (IH _ _ _ E2 g) by (intro X; apply Hg; right; exact X).
    unfold d_new_graph in E1. destruct (is_fail _); [inversion E1; reflexivity|].
    destruct (new_graph (d_store d) n) as [s'|] eqn:N; inversion E1; subst; cbn; [|reflexivity].
    apply new_graph_spec in N. destruct N as [_ [_ [_ N]]]. apply N. intro X. apply Hg. left. congruence.
Qed.

Lemma x_drop_frame : forall sch gs d ok d', x_drop sch d gs = (ok, d') ->
  forall g, ~ In g gs -> get (d_store d') g = get (d_store d) g.
Proof.
  intros sch gs. induction gs as [|n r IH]; intros d ok d' H g Hg; cbn [x_drop] in H.
  - inversion H; reflexivity.
  - destruct (d_delete_graph sch d n) as [ok1 d1] eqn:E1. destruct (x_drop sch d1 r) as [ok2 d2] eqn:E2.
    inversion H; subst. rewrite (IH _ _ _ E2 g) by (intro X; apply Hg; right; exact X).
    unfold d_delete_graph in E1. destruct (is_fail _); [inversion E1; reflexivity|].
    destruct (delete_graph (d_store d) n) as [s'|] eqn:N; inversion E1; subst; cbn; [|reflexivity].
    apply delete_graph_spec in N. destruct N as [_ [_ [N _]]]. apply N. intro X. apply Hg. left. congruence.
Qed.

(* the graphs a statement may write *)
Definition targets (s : stmt) : list str :=
  match s with
  | SCreate gs | SDrop gs => gs
  | SInsert gs _ | SDelete gs _ => gs
  | SConstruct _ _ outs _ _ _ _ => outs
  | _ => []
  end.

Lemma xexec_frame : forall bulk sch d s r d', xexec bulk sch d s = (r, d') ->
  forall g, ~ In g (targets s) -> get (d_store d') g = get (d_store d) g.
Proof.
  intros bulk sch d s r d' H g Hg. unfold xexec in H.
  destruct (static_ok s); cbn [negb] in H; [|inversion H; reflexivity].
  destruct s; cbn [targets] in Hg.
  - destruct (x_create sch d gs) as [ok d1] eqn:E. inversion H; subst. eapply x_create_frame; eassumption.
  - destruct (x_drop sch d gs) as [ok d1] eqn:E. inversion H; subst. eapply x_drop_frame; eassumption.
  - destruct (x_update true sch d ts outs) as [ok d1] eqn:E. inversion H; subst. apply x_update_frame in E. apply E. exact Hg.
  - destruct (x_update false sch d ts ins) as [ok d1] eqn:E. inversion H; subst. apply x_update_frame in E. apply E. exact Hg.
  - apply x_construct_frame in H. apply H. exact Hg.
  - unfold x_select in H. destruct (x_init sch d ins) as [ok d1] eqn:E1. apply x_init_store in E1.
    destruct ok; cbn [negb] in H; [|inversion H; subst; rewrite E1; reflexivity].
    destruct (x_reads sch d1 (q_reads q)) as [okr d2] eqn:E2. apply x_reads_store in E2.
    destruct okr; cbn [negb] in H; [|inversion H; subst; rewrite E2, E1; reflexivity].
    destruct (q_ok q); inversion H; subst; rewrite E2, E1; reflexivity.
  - unfold x_show in H. unfold d_graph_names in H. destruct (sch _); inversion H; reflexivity.
  - inversion H; reflexivity.
Qed.

(* ------------------------------------------------------------------ the fault-free driver *)

Lemma d_graph_nf : forall d n, d_graph no_faults d n = (has (d_store d) n, mkD (d_store d) (d_log d ++ [next_id (d_log d) KGraph n])).
Proof. intros. reflexivity. Qed.

Lemma d_write_nf : forall add d n ts,
  d_write add no_faults d n ts =
  (true, mkD (apply_write add (d_store d) n ts) (d_log d ++ [next_id (d_log d) (if add then KAdd else KRemove) n])).
Proof. intros. reflexivity. Qed.

(* contents after writing ts: union (add) or difference (remove) *)
Definition W (add : bool) (ts old : list triple) (t : triple) : Prop :=
  if add then In t old \/ In t ts else In t old /\ ~ In t ts.

Lemma W_congr : forall add ts a b t, (forall x, In x a <-> In x b) -> (W add ts a t <-> W add ts b t).
Proof. intros add ts a b t H. unfold W. destruct add; rewrite (H t); tauto. Qed.

Lemma W_idem : forall add ts a b t, (forall x, In x a <-> W add ts b x) -> (W add ts a t <-> W add ts b t).
Proof. intros add ts a b t H. unfold W in *. destruct add; rewrite (H t); tauto. Qed.

Lemma W_app : forall add ts1 ts2 a b t, (forall x, In x a <-> W add ts1 b x) -> (W add ts2 a t <-> W add (ts1 ++ ts2) b t).
Proof. intros add ts1 ts2 a b t H. unfold W in *. destruct add; rewrite (H t), in_app_iff; tauto. Qed.

Lemma W_nil : forall add a t, W add [] a t <-> In t a.
Proof. intros add a t. unfold W. destruct add; cbn; tauto. Qed.

Lemma apply_write_W : forall add s n ts, has s n = true ->
  forall t, In t (getd (apply_write add s n ts) n) <-> W add ts (getd s n) t.
Proof.
  intros add s n ts Hh t. unfold apply_write. rewrite getd_set_graph_same by exact Hh. unfold W.
  destruct add; [apply add_triples_In | apply remove_triples_In].
Qed.

Lemma forallb_has_names : forall s s' l, names s' = names s -> forallb (has s') l = forallb (has s) l.
Proof.
  intros s s' l Hn. induction l as [|g l IH]; cbn; [reflexivity|]. rewrite IH. f_equal. destruct (has s g) eqn:E.
  - apply has_In_names. rewrite Hn. apply has_In_names. exact E.
  - destruct (has s' g) eqn:E'; [|reflexivity]. apply has_In_names in E'. rewrite Hn in E'. apply has_In_names in E'. congruence.
Qed.

Lemma has_names_eq : forall s s' g, names s' = names s -> has s' g = has s g.
Proof.
  intros s s' g Hn. pose proof (forallb_has_names s s' [g] Hn) as X. cbn in X. rewrite !andb_true_r in X. exact X.
Qed.

Lemma x_update_nf : forall add ts gbs d ok d',
  x_update add no_faults d ts gbs = (ok, d') ->
  ok = forallb (has (d_store d)) gbs /\
  (forall g, In g gbs -> has (d_store d) g = true ->
             forall t, In t (getd (d_store d') g) <-> W add ts (getd (d_store d) g) t).
Proof.
  intros add ts gbs. induction gbs as [|g r IH]; intros d ok d' H; cbn [x_update] in H.
  - inversion H; subst. split; [reflexivity | intros g []].
  - rewrite d_graph_nf in H. destruct (has (d_store d) g) eqn:Hg.
    + rewrite d_write_nf in H.
      match type of H with context [x_update add no_faults ?D ts r] => set (d2 := D) in * end.
      destruct (x_update add no_faults d2 ts r) as [ok2 d3] eqn:E3. inversion H; subst ok d'. clear H.
      pose proof (x_update_frame _ _ _ _ _ _ _ E3) as F3. apply IH in E3. destruct E3 as [Hok Hc].
      assert (S2 : d_store d2 = apply_write add (d_store d) g ts) by reflexivity.
      assert (N2 : names (d_store d2) = names (d_store d)) by (rewrite S2; apply names_set_graph).
      split.
      * cbn [forallb]. rewrite Hg. cbn. rewrite Hok. apply forallb_has_names. exact N2.
      * intros g' Hin Hh t. destruct (mem str_eqb g' r) eqn:M.
        -- apply (mem_In str_eqb str_eqb_ok) in M. rewrite (Hc g' M) by (rewrite (has_names_eq _ _ _ N2); exact Hh).
           destruct (str_eqb g g') eqn:E.
           ++ apply str_eqb_spec in E. subst g'. apply W_idem. intro x. rewrite S2. apply apply_write_W. exact Hg.
           ++ apply str_eqb_neq in E. rewrite S2. unfold apply_write. rewrite getd_set_graph_other by exact E. tauto.
        -- apply (mem_false str_eqb str_eqb_ok) in M. destruct Hin as [E|Hin]; [subst g'|contradiction].
           destruct F3 as [_ F3]. unfold getd at 1. rewrite (F3 g M). fold (getd (d_store d2) g). rewrite S2.
           apply apply_write_W. exact Hg.
    + destruct (x_update add no_faults _ ts r) as [ok2 d3] eqn:E3. inversion H; subst ok d'. clear H.
      apply IH in E3. cbn [d_store] in E3. destruct E3 as [Hok Hc]. split.
      * cbn [forallb]. rewrite Hg. reflexivity.
      * intros g' Hin Hh t. destruct Hin as [E|Hin]; [subst g'; congruence|]. apply Hc; assumption.
Qed.

(* ------------------------------------------------------------------ INSERT / DELETE *)

Lemma exec_update_spec : forall (add : bool) bulk st gs ts r st',
  exec bulk st (if add then SInsert gs ts else SDelete gs ts) = (r, st') -> gs <> [] -> ts <> [] ->
  names st' = names st /\
  (forall g, ~ In g gs -> get st' g = get st g) /\
  (forall g, In g gs -> has st g = true -> forall t, In t (getd st' g) <-> W add ts (getd st g) t) /\
  (r = ROk <-> forall g, In g gs -> has st g = true) /\
  (r = ROk \/ r = RErr EUpdate).
Proof.
  intros add bulk st gs ts r st' H Hgs Hts.
  assert (S : static_ok (if add then SInsert gs ts else SDelete gs ts) = true).
  { destruct add; cbn; destruct gs; try congruence; destruct ts; try congruence; reflexivity. }
  unfold exec in H.
  assert (X : xexec bulk no_faults (mkD st []) (if add then SInsert gs ts else SDelete gs ts) =
              (let '(ok, d') := x_update add no_faults (mkD st []) ts gs in (if ok then ROk else RErr EUpdate, d'))).
  { unfold xexec. rewrite S. destruct add; reflexivity. }
  rewrite X in H. clear X S.
  destruct (x_update add no_faults (mkD st []) ts gs) as [ok d'] eqn:E. inversion H; subst r st'. clear H.
  pose proof (x_update_frame _ _ _ _ _ _ _ E) as [N F]. apply x_update_nf in E. destruct E as [Hok Hc]. cbn [d_store] in *.
  split; [exact N|]. split; [exact F|]. split; [exact Hc|]. split.
  - subst ok. rewrite <- forallb_forall. destruct (forallb (has st) gs); split; intro H; try reflexivity; discriminate.
  - destruct ok; auto.
Qed.

(* ------------------------------------------------------------------ CREATE / DROP *)

Lemma new_graph_step : forall d n,
  let ok1 := fst (d_new_graph no_faults d n) in
  let d1 := snd (d_new_graph no_faults d n) in
  ok1 = negb (has (d_store d) n) /\
  (forall g, has (d_store d1) g = has (d_store d) g || str_eqb g n) /\
  (forall g, has (d_store d) g = true -> get (d_store d1) g = get (d_store d) g) /\
  (has (d_store d) n = false -> get (d_store d1) n = Some []).
Proof.
  intros d n. unfold d_new_graph. cbn [no_faults is_fail].
  destruct (new_graph (d_store d) n) as [s'|] eqn:N; cbn [fst snd d_store].
  - apply new_graph_spec in N. destruct N as [Hh [_ [Hn Ho]]]. rewrite Hh. split; [reflexivity|]. split; [|split].
    + intro g. destruct (str_eqb g n) eqn:E.
      * apply str_eqb_spec in E. subst g. unfold has at 1. rewrite Hn. rewrite orb_true_r. reflexivity.
      * apply str_eqb_neq in E. unfold has. rewrite (Ho g E). rewrite orb_false_r. reflexivity.
    + intros g Hg. apply Ho. intro E. subst g. congruence.
    + intros _. exact Hn.
  - apply new_graph_none in N. rewrite N. split; [reflexivity|]. split; [|split].
    + intro g. destruct (str_eqb g n) eqn:E; [|rewrite orb_false_r; reflexivity].
      apply str_eqb_spec in E. subst g. rewrite N. reflexivity.
    + intros; reflexivity.
    + intro X. congruence.
Qed.

Lemma delete_graph_step : forall d n,
  let ok1 := fst (d_delete_graph no_faults d n) in
  let d1 := snd (d_delete_graph no_faults d n) in
  ok1 = has (d_store d) n /\
  (forall g, has (d_store d1) g = has (d_store d) g && negb (str_eqb g n)) /\
  (forall g, g <> n -> get (d_store d1) g = get (d_store d) g).
Proof.
  intros d n. unfold d_delete_graph. cbn [no_faults is_fail].
  destruct (delete_graph (d_store d) n) as [s'|] eqn:N; cbn [fst snd d_store].
  - apply delete_graph_spec in N. destruct N as [Hh [Hn [Ho _]]]. rewrite Hh. split; [reflexivity|]. split.
    + intro g. destruct (str_eqb g n) eqn:E.
      * apply str_eqb_spec in E. subst g. unfold has at 1. rewrite Hn. rewrite andb_false_r. reflexivity.
      * apply str_eqb_neq in E. unfold has. rewrite (Ho g E). rewrite andb_true_r. reflexivity.
    + exact Ho.
  - apply delete_graph_none in N. rewrite N. split; [reflexivity|]. split; [|intros; reflexivity].
    intro g. destruct (str_eqb g n) eqn:E; [|rewrite andb_true_r; reflexivity].
    apply str_eqb_spec in E. subst g. rewrite N. reflexivity.
Qed.

Lemma x_create_nf : forall gs d ok d', x_create no_faults d gs = (ok, d') ->
  (forall g, has (d_store d') g = has (d_store d) g || mem str_eqb g gs) /\
  (forall g, has (d_store d) g = true -> get (d_store d') g = get (d_store d) g) /\
  (forall g, In g gs -> has (d_store d) g = false -> get (d_store d') g = Some []) /\
  (ok = true <-> NoDup gs /\ forall g, In g gs -> has (d_store d) g = false).
Proof.
  induction gs as [|n r IH]; intros d ok d' H; cbn [x_create] in H.
  - inversion H; subst. split; [intro g; cbn; rewrite orb_false_r; reflexivity|]. split; [intros; reflexivity|].
    split; [intros g []|]. split; [intros _; split; [constructor | intros g []] | reflexivity].
  - pose proof (new_graph_step d n) as ST. cbv zeta in ST.
    destruct (d_new_graph no_faults d n) as [ok1 d1] eqn:E1. cbn [fst snd] in ST. destruct ST as [S1 [S2 [S3 S4]]].
    destruct (x_create no_faults d1 r) as [ok2 d2] eqn:E2. inversion H; subst ok d'. clear H.
    apply IH in E2. destruct E2 as [I1 [I2 [I3 I4]]]. split; [|split; [|split]].
    + intro g. rewrite I1, S2. cbn [mem]. rewrite orb_assoc. reflexivity.
    + intros g Hg. rewrite I2 by (rewrite S2, Hg; reflexivity). apply S3. exact Hg.
    + intros g Hin Hg. destruct (str_eqb g n) eqn:E.
      * apply str_eqb_spec in E. subst g. rewrite I2 by (rewrite S2, str_eqb_refl, orb_true_r; reflexivity). apply S4. exact Hg.
      * destruct Hin as [X|Hin]; [subst g; rewrite str_eqb_refl in E; discriminate|].
        apply I3; [exact Hin|]. rewrite S2, Hg, E. reflexivity.
    + rewrite andb_true_iff, I4, S1, negb_true_iff. split.
      * intros [Hn [Hnd Hall]]. split.
        -- constructor; [|exact Hnd]. intro X. specialize (Hall n X). rewrite S2, str_eqb_refl, orb_true_r in Hall. discriminate.
        -- intros g [X|X]; [subst; exact Hn|]. specialize (Hall g X). rewrite S2 in Hall. apply orb_false_iff in Hall. tauto.
      * intros [Hnd Hall]. inversion Hnd; subst. split; [apply Hall; left; reflexivity|]. split; [assumption|].
        intros g X. rewrite S2. apply orb_false_iff. split; [apply Hall; right; exact X|].
        apply str_eqb_neq. intro E. subst g. contradiction.
Qed.

Lemma x_drop_nf : forall gs d ok d', x_drop no_faults d gs = (ok, d') ->
  (forall g, has (d_store d') g = has (d_store d) g && negb (mem str_eqb g gs)) /\
  (forall g, ~ In g gs -> get (d_store d') g = get (d_store d) g) /\
  (ok = true <-> NoDup gs /\ forall g, In g gs -> has (d_store d) g = true).
Proof.
  induction gs as [|n r IH]; intros d ok d' H; cbn [x_drop] in H.
  - inversion H; subst. split; [intro g; cbn; rewrite andb_true_r; reflexivity|]. split; [intros; reflexivity|].
    split; [intros _; split; [constructor | intros g []] | reflexivity].
  - pose proof (delete_graph_step d n) as ST. cbv zeta in ST.
    destruct (d_delete_graph no_faults d n) as [ok1 d1] eqn:E1. cbn [fst snd] in ST. destruct ST as [S1 [S2 S3]].
    destruct (x_drop no_faults d1 r) as [ok2 d2] eqn:E2. inversion H; subst ok d'. clear H.
    apply IH in E2. destruct E2 as [I1 [I2 I4]]. split; [|split].
    + intro g. rewrite I1, S2. cbn [mem]. rewrite negb_orb, andb_assoc. reflexivity.
    + intros g Hg. rewrite I2 by (intro X; apply Hg; right; exact X). apply S3. intro E. apply Hg. left. congruence.
    + rewrite andb_true_iff, I4, S1. split.
      * intros [Hn [Hnd Hall]]. split.
        -- constructor; [|exact Hnd]. intro X. specialize (Hall n X). rewrite S2, str_eqb_refl, andb_false_r in Hall. discriminate.
        -- intros g [X|X]; [subst; exact Hn|]. specialize (Hall g X). rewrite S2 in Hall. apply andb_true_iff in Hall. tauto.
      * intros [Hnd Hall]. inversion Hnd; subst. split; [apply Hall; left; reflexivity|]. split; [assumption|].
        intros g X. rewrite S2. apply andb_true_iff. split; [apply Hall; right; exact X|].
        apply negb_true_iff. apply str_eqb_neq. intro E. subst g. contradiction.
Qed.

Lemma exec_create_spec : forall bulk st gs r st', exec bulk st (SCreate gs) = (r, st') -> gs <> [] ->
  (forall g, has st' g = has st g || mem str_eqb g gs) /\
  (forall g, has st g = true -> get st' g = get st g) /\
  (forall g, In g gs -> has st g = false -> get st' g = Some []) /\
  (r = ROk <-> NoDup gs /\ forall g, In g gs -> has st g = false) /\ (r = ROk \/ r = RErr EUpdate).
Proof.
  intros bulk st gs r st' H Hgs. unfold exec, xexec in H.
  assert (S : static_ok (SCreate gs) = true) by (destruct gs; [congruence | reflexivity]). rewrite S in H. cbn [negb] in H.
  destruct (x_create no_faults (mkD st []) gs) as [ok d'] eqn:E. inversion H; subst r st'. clear H.
  apply x_create_nf in E. cbn [d_store] in E. destruct E as [A [B [C D]]].
  split; [exact A|]. split; [exact B|]. split; [exact C|]. split.
  - destruct ok.
    + split; [intros _; apply D; reflexivity | reflexivity].
    + split; [discriminate | intro X; apply D in X; discriminate].
  - destruct ok; auto.
Qed.

Lemma exec_drop_spec : forall bulk st gs r st', exec bulk st (SDrop gs) = (r, st') -> gs <> [] ->
  (forall g, has st' g = has st g && negb (mem str_eqb g gs)) /\
  (forall g, ~ In g gs -> get st' g = get st g) /\
  (r = ROk <-> NoDup gs /\ forall g, In g gs -> has st g = true) /\ (r = ROk \/ r = RErr EUpdate).
Proof.
  intros bulk st gs r st' H Hgs. unfold exec, xexec in H.
  assert (S : static_ok (SDrop gs) = true) by (destruct gs; [congruence | reflexivity]). rewrite S in H. cbn [negb] in H.
  destruct (x_drop no_faults (mkD st []) gs) as [ok d'] eqn:E. inversion H; subst r st'. clear H.
  apply x_drop_nf in E. cbn [d_store] in E. destruct E as [A [B D]].
  split; [exact A|]. split; [exact B|]. split.
  - destruct ok.
    + split; [intros _; apply D; reflexivity | reflexivity].
    + split; [discriminate | intro X; apply D in X; discriminate].
  - destruct ok; auto.
Qed.

(* ------------------------------------------------------------------ CONSTRUCT / DECONSTRUCT: the write side *)

Lemma x_init_nf : forall gs d ok d', x_init no_faults d gs = (ok, d') -> ok = forallb (has (d_store d)) gs.
Proof.
  induction gs as [|g r IH]; intros d ok d' H; cbn [x_init] in H.
  - inversion H; reflexivity.
  - rewrite d_graph_nf in H. cbn [forallb]. destruct (has (d_store d) g); [apply IH in H; exact H | inversion H; reflexivity].
Qed.

Lemma x_reads_nf : forall gs d ok d', x_reads no_faults d gs = (ok, d') -> ok = true.
Proof.
  induction gs as [|g r IH]; intros d ok d' H; cbn [x_reads] in H.
  - inversion H; reflexivity.
  - unfold d_read in H. cbn [no_faults is_fail negb] in H. apply IH in H. exact H.
Qed.

Lemma forallb_has_In : forall s l, forallb (has s) l = true -> forall g, In g l -> has s g = true.
Proof. intros s l H g Hg. rewrite forallb_forall in H. apply H. exact Hg. Qed.

Lemma writer_nf : forall (add : bool) bulk outs sent d pending okacc p' ok' d',
  writer add bulk no_faults d outs sent pending okacc = (p', ok', d') ->
  forallb (has (d_store d)) outs = true ->
  exists written, pending ++ sent = written ++ p' /\ ok' = okacc /\
    (forall g, In g outs -> forall t, In t (getd (d_store d') g) <-> W add written (getd (d_store d) g) t).
Proof.
  intros add bulk outs sent. induction sent as [|x r IH]; intros d pending okacc p' ok' d' H Hall; cbn [writer] in H.
  - inversion H; subst. exists []. rewrite app_nil_r. split; [reflexivity|]. split; [reflexivity|].
    intros g Hg t. symmetry. apply W_nil.
  - destruct (bulk <=? length (pending ++ [x])).
    + destruct (x_update add no_faults d (pending ++ [x]) outs) as [ok d1] eqn:E.
      pose proof (x_update_frame _ _ _ _ _ _ _ E) as [N1 _]. apply x_update_nf in E. destruct E as [Hok Hc].
      rewrite Hall in Hok. subst ok. rewrite andb_true_r in H.
      apply IH in H; [|rewrite (forallb_has_names _ _ _ N1); exact Hall].
      destruct H as [w [Hw [Hk Hc']]]. exists ((pending ++ [x]) ++ w). split; [|split; [exact Hk|]].
      * cbn in Hw. rewrite <- app_assoc. cbn. rewrite <- app_assoc, <- Hw. reflexivity.
      * intros g Hg t. rewrite (Hc' g Hg t). apply W_app. intro y. apply Hc; [exact Hg | apply (forallb_has_In _ _ Hall); exact Hg].
    + apply IH in H; [|exact Hall]. destruct H as [w [Hw [Hk Hc']]]. exists w. split; [|split; assumption].
      rewrite <- Hw, <- app_assoc. reflexivity.
Qed.

Lemma forallb_app_true : forall {A} (f : A -> bool) a b, forallb f (a ++ b) = true -> forallb f a = true /\ forallb f b = true.
Proof. intros A f a b H. rewrite forallb_app in H. apply andb_true_iff in H. exact H. Qed.

Lemma x_construct_nf : forall (add : bool) bulk st tmpl outs ins q draw r d',
  x_construct add bulk no_faults (mkD st []) tmpl outs ins q draw = (r, d') ->
  let sent := fst (produce (output_bindings tmpl) tmpl (q_rows q) draw 0) in
  let okp := snd (produce (output_bindings tmpl) tmpl (q_rows q) draw 0) in
  if forallb (has st) (ins ++ outs) then
    if q_ok q then
      r = (if okp then ROk else RErr ETemplate) /\
      forall g, In g outs -> forall t, In t (getd (d_store d') g) <-> W add sent (getd st g) t
    else r = RErr EQuery /\ d_store d' = st
  else r = RErr EInit /\ d_store d' = st.
Proof.
  intros add bulk st tmpl outs ins q draw r d' H sent okp. unfold x_construct in H.
  destruct (x_init no_faults (mkD st []) (ins ++ outs)) as [ok d1] eqn:E1.
  pose proof (x_init_store _ _ _ _ _ E1) as S1. apply x_init_nf in E1. cbn [d_store] in *. rewrite <- E1.
  destruct ok; cbn [negb] in H; [|inversion H; subst r d'; split; [reflexivity | exact S1]].
  destruct (x_reads no_faults d1 (q_reads q)) as [okr d2] eqn:E2.
  pose proof (x_reads_store _ _ _ _ _ E2) as S2. apply x_reads_nf in E2. subst okr. cbn [negb] in H.
  destruct (q_ok q); cbn [negb] in H; [|inversion H; subst r d'; split; [reflexivity | congruence]].
  subst sent okp. destruct (produce (output_bindings tmpl) tmpl (q_rows q) draw 0) as [sent okp]. cbn [fst snd].
  symmetry in E1. apply forallb_app_true in E1. destruct E1 as [_ Hout].
  assert (S12 : d_store d2 = st) by congruence.
  destruct (writer add bulk no_faults d2 outs sent [] true) as [[pending okw] d3] eqn:E3.
  pose proof (writer_frame _ _ _ _ _ _ _ _ _ _ _ E3) as [N3 _].
  apply writer_nf in E3; [|rewrite S12; exact Hout]. destruct E3 as [w [Hw [Hk Hc]]]. subst okw. cbn [app] in Hw.
  rewrite S12 in *.
  destruct (if is_empty pending then (true, d3) else x_update add no_faults d3 pending outs) as [okf d4] eqn:E4.
  assert (X : okf = true /\ forall g, In g outs -> forall t, In t (getd (d_store d4) g) <-> W add sent (getd st g) t).
  { destruct pending as [|p ps]; cbn [is_empty] in E4.
    - inversion E4; subst okf d4. split; [reflexivity|]. rewrite app_nil_r in Hw. subst w. exact Hc.
    - apply x_update_nf in E4. destruct E4 as [Hok Hc4]. rewrite (forallb_has_names _ _ _ N3), Hout in Hok. split; [exact Hok|].
      intros g Hg t. rewrite (Hc4 g Hg) by (rewrite (has_names_eq _ _ _ N3); apply (forallb_has_In _ _ Hout); exact Hg).
      rewrite Hw. apply W_app. intro y. apply Hc. exact Hg. }
  destruct X as [Hf Hc4]. subst okf. cbn [andb] in H.
  destruct okp; inversion H; subst r d'; split; try reflexivity; exact Hc4.
Qed.

(* ------------------------------------------------------------------ CONSTRUCT: the template side *)

Lemma triple_new_some : forall s p o t, triple_new s p o = Some t -> exists a b c, s = Some a /\ p = Some b /\ o = Some c /\ t = (a, b, c).
Proof.
  intros [a|] [b|] [c|] t H; cbn in H; try discriminate. inversion H. exists a, b, c. repeat split; reflexivity.
Qed.

Definition extra_rel (bs : list str) (r : row) (b : N) (p : pop) (e : triple) : Prop :=
  exists rp ro, process_pop bs r p = Some (Some rp, Some ro) /\ e = (Blank b, rp, ro).

Lemma extras_ok : forall bs r b ps l, extras bs r b ps = (l, true) -> Forall2 (extra_rel bs r b) ps l.
Proof.
  intros bs r b ps. induction ps as [|p ps IH]; intros l H; cbn [extras] in H.
  - inversion H. constructor.
  - destruct (process_pop bs r p) as [[rp ro]|] eqn:E; [|discriminate].
    destruct (triple_new (Some (Blank b)) rp ro) as [t|] eqn:T; [|discriminate].
    destruct (extras bs r b ps) as [l' ok] eqn:E'. inversion H; subst. clear H.
    apply triple_new_some in T. destruct T as [a [x [y [Ha [Hx [Hy Ht]]]]]]. inversion Ha; subst.
    constructor; [exists x, y; split; [exact E | reflexivity] | apply IH; reflexivity].
Qed.

Lemma inst_row_ok : forall bs c r b l drew, inst_row bs c r b = (l, true, drew) ->
  group_of bs c r b l /\ drew = negb (is_empty (cRest c)).
Proof.
  intros bs c r b l drew H. unfold inst_row in H. destruct (process_cc bs r c) as [t|] eqn:E; [|discriminate].
  destruct (cRest c) as [|p ps] eqn:R.
  - inversion H; subst. split; [apply G_plain; assumption | reflexivity].
  - destruct (extras bs r b (p :: ps)) as [l' ok] eqn:X. inversion H; subst. split; [|reflexivity].
    apply G_reified; [rewrite R; discriminate | exact E |]. rewrite R. apply extras_ok. exact X.
Qed.

Lemma produced_app : forall bs draw i w1 gs1 i1 w2 gs2 i2,
  produced bs draw i w1 gs1 i1 -> produced bs draw i1 w2 gs2 i2 -> produced bs draw i (w1 ++ w2) (gs1 ++ gs2) i2.
Proof.
  intros bs draw i w1 gs1 i1 w2 gs2 i2 H1 H2. induction H1; cbn.
  - exact H2.
  - apply P_plain; auto.
  - apply P_reified; auto.
Qed.

Lemma produce_rows_ok : forall bs c rows draw i l i', produce_rows bs c rows draw i = (l, true, i') ->
  exists gs, l = concat gs /\ produced bs draw i (map (pair c) rows) gs i'.
Proof.
  intros bs c rows draw. induction rows as [|r rows IH]; intros i l i' H; cbn [produce_rows] in H.
  - inversion H; subst. exists []. split; [reflexivity | constructor].
  - destruct (inst_row bs c r (draw i)) as [[g ok] drew] eqn:E. destruct ok; [|discriminate].
    destruct (produce_rows bs c rows draw (if drew then S i else i)) as [[l' ok'] i''] eqn:E'.
    inversion H; subst. clear H. apply IH in E'. destruct E' as [gs [Hl Hp]]. subst l'.
    apply inst_row_ok in E. destruct E as [Hg Hd]. exists (g :: gs). split; [reflexivity|]. cbn [map].
    destruct (cRest c) as [|p ps] eqn:R; cbn in Hd; subst drew.
    + apply P_plain; assumption.
    + apply P_reified; [rewrite R; discriminate | exact Hg | exact Hp].
Qed.

Lemma produce_ok : forall bs tmpl rows draw i l, produce bs tmpl rows draw i = (l, true) ->
  exists gs i', l = concat gs /\ produced bs draw i (list_prod tmpl rows) gs i'.
Proof.
  intros bs tmpl rows draw. induction tmpl as [|c tmpl IH]; intros i l H; cbn [produce] in H.
  - inversion H; subst. exists [], i. split; [reflexivity | constructor].
  - destruct (produce_rows bs c rows draw i) as [[l1 ok] i1] eqn:E. destruct ok; [|discriminate].
    destruct (produce bs tmpl rows draw i1) as [l2 ok2] eqn:E2. inversion H; subst. clear H.
    apply produce_rows_ok in E. destruct E as [gs1 [Hl1 Hp1]]. apply IH in E2. destruct E2 as [gs2 [i2 [Hl2 Hp2]]].
    exists (gs1 ++ gs2), i2. split; [subst; rewrite concat_app; reflexivity|].
    cbn [list_prod]. eapply produced_app; eassumption.
Qed.

Lemma produced_length : forall bs draw i w gs i', produced bs draw i w gs i' -> length gs = length w.
Proof. intros bs draw i w gs i' H. induction H; cbn; congruence. Qed.

Lemma Forall2_len : forall {A B} (R : A -> B -> Prop) l l', Forall2 R l l' -> length l = length l'.
Proof. intros A B R l l' H. induction H; cbn; congruence. Qed.

(* sizes and subjects of a group *)
Lemma group_of_length : forall bs c r b g, group_of bs c r b g ->
  length g = match cRest c with [] => 1 | ps => 3 + length ps end.
Proof.
  intros bs c r b g H. destruct H as [t R E | t es R E F].
  - rewrite R. reflexivity.
  - destruct t as [[s p] o]. rewrite app_length. apply Forall2_len in F.
    revert F R. destruct (cRest c) as [|p0 ps]; intros F R; [congruence|]. cbn [reify length] in *. f_equal. symmetry. exact F.
Qed.

Lemma group_of_subjects : forall bs c r b g, group_of bs c r b g -> cRest c <> [] ->
  forall t, In t g -> subject_of t = Blank b.
Proof.
  intros bs c r b g H Hne. destruct H as [t R E | t es R E F]; [congruence|].
  intros x Hx. apply in_app_iff in Hx. destruct Hx as [Hx|Hx].
  - destruct t as [[s p] o]. cbn in Hx. destruct Hx as [X|[X|[X|[]]]]; subst x; reflexivity.
  - clear R E Hne. induction F as [|p e ps es' Hpe F IH]; [destruct Hx|].
    destruct Hx as [X|X]; [subst x; destruct Hpe as [rp [ro [_ He]]]; subst e; reflexivity | apply IH; exact X].
Qed.

(* the reified triple itself is not part of the group (its subject would have to be the fresh blank) *)
Lemma group_of_not_original : forall bs c r b g t, group_of bs c r b g -> cRest c <> [] ->
  process_cc bs r c = Some t -> subject_of t <> Blank b -> ~ In t g.
Proof.
  intros bs c r b g t H Hne E Hs Hin. apply (group_of_subjects _ _ _ _ _ H Hne) in Hin. contradiction.
Qed.

(* ------------------------------------------------------------------ which blank ids a group mentions *)

Lemma lookup_blanks : forall r b c, lookup r b = Some c -> incl (cell_blanks c) (row_blanks r).
Proof.
  induction r as [|[k v] r IH]; intros b c H; cbn [lookup] in H; [discriminate|].
  unfold row_blanks. cbn [flat_map snd]. destruct (str_eqb k b).
  - inversion H; subst. apply incl_appl. apply incl_refl.
  - apply incl_appr. apply (IH b c H).
Qed.

Lemma process_pop_blanks : forall bs r p rp o, process_pop bs r p = Some (rp, Some o) ->
  incl (obj_blanks o) (pop_blanks p ++ row_blanks r).
Proof.
  intros bs r p rp o H. unfold process_pop in H.
  match type of H with (match ?X with _ => _ end) = _ => destruct X as [rprd|]; [|discriminate] end.
  unfold pop_blanks. destruct (pO p) as [o'|] eqn:EO.
  - inversion H; subst. apply incl_appl. apply incl_refl.
  - destruct (mem str_eqb (pOBinding p) bs).
    + destruct (lookup r (pOBinding p)) as [[n|x|l|t|z|]|] eqn:L; inversion H; subst; cbn [obj_blanks app];
        try (intros k []). apply (lookup_blanks _ _ _ L).
    + destruct (pOTemporal p && nonempty (pOAnchorBinding p)); [|discriminate].
      destruct (lookup r (pOAnchorBinding p)) as [[n|x|l|t|z|]|]; try discriminate.
      destruct (is_empty (pOID p)); inversion H; subst. intros k [].
Qed.

Lemma incl_pop_cc_first : forall c, incl (pop_blanks (cFirst c)) (cc_blanks c).
Proof. intros c. unfold cc_blanks. cbn [flat_map]. apply incl_appr. apply incl_appl. apply incl_refl. Qed.

Lemma incl_pop_cc_rest : forall c p, In p (cRest c) -> incl (pop_blanks p) (cc_blanks c).
Proof.
  intros c p H. unfold cc_blanks. cbn [flat_map]. apply incl_appr. apply incl_appr.
  intros k Hk. apply in_flat_map. exists p. split; assumption.
Qed.

Lemma process_cc_blanks : forall bs r c t, process_cc bs r c = Some t ->
  incl (triple_blanks t) (cc_blanks c ++ row_blanks r).
Proof.
  intros bs r c t H. unfold process_cc in H.
  assert (HS : forall s, (match cS c with
                         | Some n => Some (Some n)
                         | None => if mem str_eqb (cSBinding c) bs
                                   then match lookup r (cSBinding c) with Some (CNode n) => Some (Some n) | _ => None end
                                   else Some None
                         end) = Some (Some s) -> incl (node_blanks s) (cc_blanks c ++ row_blanks r)).
  { intros s X. destruct (cS c) as [n|] eqn:ES.
    - inversion X; subst. apply incl_appl. unfold cc_blanks. rewrite ES. apply incl_appl. apply incl_refl.
    - destruct (mem str_eqb (cSBinding c) bs); [|discriminate].
      destruct (lookup r (cSBinding c)) as [[n|x|l|t'|z|]|] eqn:L; try discriminate. inversion X; subst.
      apply incl_appr. apply (lookup_blanks _ _ _ L). }
  match type of H with (match ?X with _ => _ end) = _ => destruct X as [s|] eqn:ES; [|discriminate] end.
  destruct (process_pop bs r (cFirst c)) as [[p o]|] eqn:EP; [|discriminate].
  apply triple_new_some in H. destruct H as [a [b [o' [Ha [Hb [Ho Ht]]]]]]. subst. unfold triple_blanks.
  apply incl_app.
  - apply HS. reflexivity.
  - apply process_pop_blanks in EP. intros k Hk. apply EP in Hk. apply in_app_iff in Hk. apply in_app_iff.
    destruct Hk as [Hk|Hk]; [left; apply (incl_pop_cc_first c); exact Hk | right; exact Hk].
Qed.

Lemma group_of_mentions : forall bs c r b g, group_of bs c r b g ->
  forall t k, In t g -> mentions k t -> (cRest c <> [] /\ k = b) \/ In k (cc_blanks c ++ row_blanks r).
Proof.
  intros bs c r b g H. destruct H as [t R E | t es R E F]; intros x k Hx Hk.
  - destruct Hx as [X|[]]. subst x. right. apply (process_cc_blanks _ _ _ _ E). exact Hk.
  - pose proof (process_cc_blanks _ _ _ _ E) as B. destruct t as [[s p] o]. unfold triple_blanks in B.
    apply in_app_iff in Hx. destruct Hx as [Hx|Hx].
    + cbn in Hx. destruct Hx as [X|[X|[X|[]]]]; subst x; unfold mentions, triple_blanks in Hk; cbn in Hk.
      * destruct Hk as [Hk|Hk]; [left; split; [exact R | congruence]|]. right. apply B. apply in_app_iff. left. exact Hk.
      * destruct Hk as [Hk|[]]. left. split; [exact R | congruence].
      * destruct Hk as [Hk|Hk]; [left; split; [exact R | congruence]|]. right. apply B. apply in_app_iff. right. exact Hk.
    + assert (G : forall ps es', Forall2 (fun p e => exists rp ro, process_pop bs r p = Some (Some rp, Some ro) /\ e = (Blank b, rp, ro)) ps es' ->
                  (forall p, In p ps -> In p (cRest c)) -> In x es' -> (cRest c <> [] /\ k = b) \/ In k (cc_blanks c ++ row_blanks r)).
      { intros ps es' F'. induction F' as [|p1 e ps' es'' Hpe F' IH]; intros Hsub Hin; [destruct Hin|].
        destruct Hin as [X|X]; [|apply IH; [intros q Hq; apply Hsub; right; exact Hq | exact X]].
        subst x. destruct Hpe as [rp [ro [EP He]]]. subst e. unfold mentions, triple_blanks in Hk. cbn in Hk.
        destruct Hk as [Hk|Hk]; [left; split; [exact R | congruence]|]. right.
        apply process_pop_blanks in EP. apply EP in Hk. apply in_app_iff in Hk. apply in_app_iff.
        destruct Hk as [Hk|Hk]; [left; apply (incl_pop_cc_rest c p1); [apply Hsub; left; reflexivity | exact Hk] | right; exact Hk]. }
      apply (G (cRest c) es F); [auto | exact Hx].
Qed.

(* every blank mentioned by the produced groups is old or one of the draws made from index i on;
   a group without `;` mentions only old ones *)
Lemma produced_mentions : forall bs draw old i w gs i', produced bs draw i w gs i' ->
  (forall c r, In (c, r) w -> incl (cc_blanks c ++ row_blanks r) old) ->
  forall g t k, In g gs -> In t g -> mentions k t -> In k old \/ exists j, i <= j /\ k = draw j.
Proof.
  intros bs draw old i w gs i' H. induction H as [i | i c r g w gs i' R G P IH | i c r g w gs i' R G P IH]; intros Hold g0 t k Hg Ht Hk.
  - destruct Hg.
  - destruct Hg as [X|Hg].
    + subst g0. destruct (group_of_mentions _ _ _ _ _ G t k Ht Hk) as [[X _]|X]; [congruence|].
      left. apply (Hold c r); [left; reflexivity | exact X].
    + apply (IH (fun c' r' Hin => Hold c' r' (or_intror Hin)) g0 t k Hg Ht Hk).
  - destruct Hg as [X|Hg].
    + subst g0. destruct (group_of_mentions _ _ _ _ _ G t k Ht Hk) as [[_ X]|X].
      * right. exists i. split; [lia | exact X].
      * left. apply (Hold c r); [left; reflexivity | exact X].
    + destruct (IH (fun c' r' Hin => Hold c' r' (or_intror Hin)) g0 t k Hg Ht Hk) as [X|[j [Hj X]]]; [left; exact X|].
      right. exists j. split; [lia | exact X].
Qed.

(* a new blank (not old) is mentioned by at most one group *)
Lemma produced_sep : forall bs draw old i w gs i', produced bs draw i w gs i' ->
  fresh_supply old draw ->
  (forall c r, In (c, r) w -> incl (cc_blanks c ++ row_blanks r) old) ->
  forall n1 n2 g1 g2 k t1 t2, n1 <> n2 -> nth_error gs n1 = Some g1 -> nth_error gs n2 = Some g2 ->
    ~ In k old -> In t1 g1 -> mentions k t1 -> In t2 g2 -> mentions k t2 -> False.
Proof.
  intros bs draw old i w gs i' H [Hf Hinj]. induction H as [i | i c r g w gs i' R G P IH | i c r g w gs i' R G P IH];
    intros Hold n1 n2 g1 g2 k t1 t2 Hne H1 H2 Hk I1 M1 I2 M2.
  - destruct n1; discriminate.
  - assert (Hold' : forall c' r', In (c', r') w -> incl (cc_blanks c' ++ row_blanks r') old)
      by (intros c' r' Hin; apply Hold; right; exact Hin).
    assert (Hhead : forall t, In t g -> mentions k t -> False).
    { intros t It Mt. destruct (group_of_mentions _ _ _ _ _ G t k It Mt) as [[X _]|X]; [congruence|].
      apply Hk. apply (Hold c r); [left; reflexivity | exact X]. }
    destruct n1 as [|n1]; [inversion H1; subst g1; apply (Hhead t1 I1 M1)|].
    destruct n2 as [|n2]; [inversion H2; subst g2; apply (Hhead t2 I2 M2)|].
    cbn in H1, H2. apply (IH Hold' n1 n2 g1 g2 k t1 t2); auto.
  - assert (Hold' : forall c' r', In (c', r') w -> incl (cc_blanks c' ++ row_blanks r') old)
      by (intros c' r' Hin; apply Hold; right; exact Hin).
    assert (Hhead : forall t, In t g -> mentions k t -> k = draw i).
    { intros t It Mt. destruct (group_of_mentions _ _ _ _ _ G t k It Mt) as [[_ X]|X]; [exact X|].
      exfalso. apply Hk. apply (Hold c r); [left; reflexivity | exact X]. }
    assert (Htail : forall g' t, In g' gs -> In t g' -> mentions k t -> k <> draw i).
    { intros g' t Ig It Mt E. destruct (produced_mentions _ _ _ _ _ _ _ P Hold' g' t k Ig It Mt) as [X|[j [Hj X]]]; [contradiction|].
      rewrite X in E. apply Hinj in E. lia. }
    destruct n1 as [|n1]; destruct n2 as [|n2]; try congruence; cbn in H1, H2.
    + inversion H1; subst g1. apply nth_error_In in H2. apply (Htail g2 t2 H2 I2 M2). apply (Hhead t1 I1 M1).
    + inversion H2; subst g2. apply nth_error_In in H1. apply (Htail g1 t1 H1 I1 M1). apply (Hhead t2 I2 M2).
    + apply (IH Hold' n1 n2 g1 g2 k t1 t2); auto.
Qed.

(* ------------------------------------------------------------------ CONSTRUCT / DECONSTRUCT: the statement *)

Lemma exec_construct_unfold : forall (add : bool) bulk st tmpl outs ins wb q draw,
  static_ok (SConstruct add tmpl outs ins wb q draw) = true ->
  exec bulk st (SConstruct add tmpl outs ins wb q draw) =
  (let '(r, d) := x_construct add bulk no_faults (mkD st []) tmpl outs ins q draw in (r, d_store d)).
Proof. intros. unfold exec, xexec. rewrite H. reflexivity. Qed.

Lemma exec_construct_spec : forall (add : bool) bulk st tmpl outs ins wb q draw r st',
  exec bulk st (SConstruct add tmpl outs ins wb q draw) = (r, st') ->
  static_ok (SConstruct add tmpl outs ins wb q draw) = true ->
  (forall g, In g (ins ++ outs) -> has st g = true) -> q_ok q = true ->
  (r = ROk \/ r = RErr ETemplate) /\
  (r = ROk ->
   exists gs i', produced (output_bindings tmpl) draw 0 (list_prod tmpl (q_rows q)) gs i' /\
     (forall g, In g outs -> forall t, In t (getd st' g) <-> W add (concat gs) (getd st g) t)).
Proof.
  intros add bulk st tmpl outs ins wb q draw r st' H HS Hall Hq. rewrite exec_construct_unfold in H by exact HS.
  destruct (x_construct add bulk no_faults (mkD st []) tmpl outs ins q draw) as [r0 d] eqn:E. inversion H; subst r0 st'. clear H.
  pose proof (x_construct_nf _ _ _ _ _ _ _ _ _ _ E) as X. cbv zeta in X.
  assert (A : forallb (has st) (ins ++ outs) = true) by (apply forallb_forall; exact Hall). rewrite A, Hq in X.
  destruct (produce (output_bindings tmpl) tmpl (q_rows q) draw 0) as [sent okp] eqn:P. cbn [fst snd] in X. destruct X as [Hr Hc].
  split; [destruct okp; auto|]. intro Hok. destruct okp; [|subst r; discriminate].
  apply produce_ok in P. destruct P as [gs [i' [Hs Hp]]]. exists gs, i'. split; [exact Hp|]. subst sent. exact Hc.
Qed.

(* ------------------------------------------------------------------ rejected statements *)

Lemma exec_static_reject : forall bulk st s, static_ok s = false -> exec bulk st s = (RErr EStatic, st).
Proof. intros bulk st s H. unfold exec, xexec. rewrite H. reflexivity. Qed.

(* a statement that names a graph that does not exist where Statement.Init resolves the names *)
Definition init_graphs (s : stmt) : list str :=
  match s with
  | SConstruct _ _ outs ins _ _ _ => ins ++ outs
  | SSelect ins _ _ _ => ins
  | _ => []
  end.

Lemma exec_init_reject : forall bulk st s, static_ok s = true -> forallb (has st) (init_graphs s) = false ->
  exec bulk st s = (RErr EInit, st).
Proof.
  intros bulk st s HS HI. unfold exec, xexec. rewrite HS. cbn [negb]. destruct s; cbn [init_graphs forallb] in HI; try discriminate.
  - unfold x_construct. destruct (x_init no_faults (mkD st []) (ins ++ outs)) as [ok d1] eqn:E.
    pose proof (x_init_store _ _ _ _ _ E) as S1. apply x_init_nf in E. cbn [d_store] in *. rewrite HI in E. subst ok. cbn. congruence.
  - unfold x_select. destruct (x_init no_faults (mkD st []) ins) as [ok d1] eqn:E.
    pose proof (x_init_store _ _ _ _ _ E) as S1. apply x_init_nf in E. cbn [d_store] in *. rewrite HI in E. subst ok. cbn. congruence.
Qed.

Lemma exec_query_fail : forall bulk st s, static_ok s = true -> forallb (has st) (init_graphs s) = true ->
  (match s with SConstruct _ _ _ _ _ q _ | SSelect _ _ _ q => q_ok q = false | _ => False end) ->
  exec bulk st s = (RErr EQuery, st).
Proof.
  intros bulk st s HS HI HQ. unfold exec, xexec. rewrite HS. cbn [negb]. destruct s; try contradiction; cbn [init_graphs] in HI.
  - unfold x_construct. destruct (x_init no_faults (mkD st []) (ins ++ outs)) as [ok d1] eqn:E.
    pose proof (x_init_store _ _ _ _ _ E) as S1. apply x_init_nf in E. cbn [d_store] in *. rewrite HI in E. subst ok. cbn [negb].
    destruct (x_reads no_faults d1 (q_reads q)) as [okr d2] eqn:E2. pose proof (x_reads_store _ _ _ _ _ E2) as S2.
    apply x_reads_nf in E2. subst okr. cbn [negb]. rewrite HQ. cbn. congruence.
  - unfold x_select. destruct (x_init no_faults (mkD st []) ins) as [ok d1] eqn:E.
    pose proof (x_init_store _ _ _ _ _ E) as S1. apply x_init_nf in E. cbn [d_store] in *. rewrite HI in E. subst ok. cbn [negb].
    destruct (x_reads no_faults d1 (q_reads q)) as [okr d2] eqn:E2. pose proof (x_reads_store _ _ _ _ _ E2) as S2.
    apply x_reads_nf in E2. subst okr. cbn [negb]. rewrite HQ. cbn. congruence.
Qed.

(* statements that only read *)
Lemma exec_readonly : forall bulk st s, (match s with SSelect _ _ _ _ | SShow | SBad => True | _ => False end) ->
  snd (exec bulk st s) = st.
Proof.
  intros bulk st s H. unfold exec. destruct (xexec bulk no_faults (mkD st []) s) as [r d] eqn:E. cbn [snd].
  destruct s; try contradiction.
  - unfold xexec in E. destruct (static_ok _); cbn [negb] in E; [|inversion E; reflexivity].
    unfold x_select in E. destruct (x_init no_faults (mkD st []) ins) as [ok d1] eqn:E1. apply x_init_store in E1.
    destruct ok; cbn [negb] in E; [|inversion E; subst; exact E1].
    destruct (x_reads no_faults d1 (q_reads q)) as [okr d2] eqn:E2. apply x_reads_store in E2.
    destruct okr; cbn [negb] in E; [|inversion E; subst; cbn in *; congruence].
    destruct (q_ok q); inversion E; subst; cbn in *; congruence.
  - inversion E; reflexivity.
  - inversion E; reflexivity.
Qed.

Lemma exec_show_spec : forall bulk st, exec bulk st SShow = (RShow (names st), st).
Proof. intros. reflexivity. Qed.

(* ------------------------------------------------------------------ well-formedness is preserved (any schedule) *)

Lemma apply_write_WF : forall add s n ts, WF s -> WF (apply_write add s n ts).
Proof.
  intros add s n ts H. unfold apply_write. apply WF_set_graph; [exact H|].
  destruct add; [apply add_triples_NoDup | apply remove_triples_NoDup]; apply In_get_NoDup; exact H.
Qed.

Lemma x_update_WF : forall add sch ts gbs d ok d', x_update add sch d ts gbs = (ok, d') -> WF (d_store d) -> WF (d_store d').
Proof.
  intros add sch ts gbs. induction gbs as [|g r IH]; intros d ok d' H Hwf; cbn [x_update] in H.
  - inversion H; subst. exact Hwf.
  - destruct (d_graph sch d g) as [okg d1] eqn:E1.
    assert (S1 : d_store d1 = d_store d) by (unfold d_graph in E1; inversion E1; reflexivity).
    destruct (if okg then d_write add sch d1 g ts else (false, d1)) as [ok1 d2] eqn:E2.
    destruct (x_update add sch d2 ts r) as [ok2 d3] eqn:E3. inversion H; subst. clear H.
    apply (IH _ _ _ E3). destruct okg; [|inversion E2; subst; rewrite S1; exact Hwf].
    unfold d_write in E2. destruct (sch _); inversion E2; subst; cbn [d_store]; rewrite ?S1; try exact Hwf;
      apply apply_write_WF; rewrite ?S1; exact Hwf.
Qed.

Lemma writer_WF : forall add bulk sch outs sent d pending okacc p' ok' d',
  writer add bulk sch d outs sent pending okacc = (p', ok', d') -> WF (d_store d) -> WF (d_store d').
Proof.
  intros add bulk sch outs sent. induction sent as [|t r IH]; intros d pending okacc p' ok' d' H Hwf; cbn [writer] in H.
  - inversion H; subst. exact Hwf.
  - destruct (bulk <=? length (pending ++ [t])).
    + destruct (x_update add sch d (pending ++ [t]) outs) as [ok d1] eqn:E. apply x_update_WF in E; [|exact Hwf].
      apply (IH _ _ _ _ _ _ H E).
    + apply (IH _ _ _ _ _ _ H Hwf).
Qed.

Lemma xexec_WF : forall bulk sch d s r d', xexec bulk sch d s = (r, d') -> WF (d_store d) -> WF (d_store d').
Proof.
  intros bulk sch d s r d' H Hwf. unfold xexec in H.
  destruct (static_ok s); cbn [negb] in H; [|inversion H; subst; exact Hwf].
  destruct s.
  - destruct (x_create sch d gs) as [ok d1] eqn:E. inversion H; subst. clear H. revert d ok d' E Hwf.
    induction gs as [|n gs IH]; intros d ok d' E Hwf; cbn [x_create] in E; [inversion E; subst; exact Hwf|].
    destruct (d_new_graph sch d n) as [ok1 d1] eqn:E1. destruct (x_create sch d1 gs) as [ok2 d2] eqn:E2.
    inversion E; subst. apply (IH _ _ _ E2). unfold d_new_graph in E1. destruct (is_fail _); [inversion E1; subst; exact Hwf|].
    destruct (new_graph (d_store d) n) as [s'|] eqn:N; inversion E1; subst; cbn [d_store]; [|exact Hwf].
    eapply WF_new_graph; eassumption.
  - destruct (x_drop sch d gs) as [ok d1] eqn:E. inversion H; subst. clear H. revert d ok d' E Hwf.
    induction gs as [|n gs IH]; intros d ok d' E Hwf; cbn [x_drop] in E; [inversion E; subst; exact Hwf|].
    destruct (d_delete_graph sch d n) as [ok1 d1] eqn:E1. destruct (x_drop sch d1 gs) as [ok2 d2] eqn:E2.
    inversion E; subst. apply (IH _ _ _ E2). unfold d_delete_graph in E1. destruct (is_fail _); [inversion E1; subst; exact Hwf|].
    destruct (delete_graph (d_store d) n) as [s'|] eqn:N; inversion E1; subst; cbn [d_store]; [|exact Hwf].
    eapply WF_delete_graph; eassumption.
  - destruct (x_update true sch d ts outs) as [ok d1] eqn:E. inversion H; subst. eapply x_update_WF; eassumption.
  - destruct (x_update false sch d ts ins) as [ok d1] eqn:E. inversion H; subst. eapply x_update_WF; eassumption.
  - unfold x_construct in H.
    destruct (x_init sch d (ins ++ outs)) as [ok d1] eqn:E1. apply x_init_store in E1.
    destruct ok; cbn [negb] in H; [|inversion H; subst; rewrite E1; exact Hwf].
    destruct (x_reads sch d1 (q_reads q)) as [okr d2] eqn:E2. apply x_reads_store in E2.
    destruct okr; cbn [negb] in H; [|inversion H; subst; rewrite E2, E1; exact Hwf].
    destruct (q_ok q); cbn [negb] in H; [|inversion H; subst; rewrite E2, E1; exact Hwf].
    destruct (produce _ _ _ _ _) as [sent okp].
    destruct (writer add bulk sch d2 outs sent [] true) as [[pending okw] d3] eqn:E3.
    apply writer_WF in E3; [|rewrite E2, E1; exact Hwf].
    destruct (if is_empty pending then (true, d3) else x_update add sch d3 pending outs) as [okf d4] eqn:E4.
    assert (W4 : WF (d_store d4)).
    { destruct (is_empty pending); [inversion E4; subst; exact E3 | eapply x_update_WF; eassumption]. }
    destruct okp; inversion H; subst; exact W4.
  - unfold x_select in H. destruct (x_init sch d ins) as [ok d1] eqn:E1. apply x_init_store in E1.
    destruct ok; cbn [negb] in H; [|inversion H; subst; rewrite E1; exact Hwf].
    destruct (x_reads sch d1 (q_reads q)) as [okr d2] eqn:E2. apply x_reads_store in E2.
    destruct okr; cbn [negb] in H; [|inversion H; subst; rewrite E2, E1; exact Hwf].
    destruct (q_ok q); inversion H; subst; rewrite E2, E1; exact Hwf.
  - unfold x_show, d_graph_names in H. destruct (sch _); inversion H; subst; exact Hwf.
  - inversion H; subst; exact Hwf.
Qed.

(* ------------------------------------------------------------------ sequences of statements *)

Lemma exec_frame : forall bulk st s g, ~ In g (targets s) -> get (step bulk st s) g = get st g.
Proof.
  intros bulk st s g Hg. unfold step, exec. destruct (xexec bulk no_faults (mkD st []) s) as [r d] eqn:E. cbn [snd].
  apply (xexec_frame _ _ _ _ _ _ E g Hg).
Qed.

Lemma run_app : forall bulk st a b, run bulk st (a ++ b) = run bulk (run bulk st a) b.
Proof. intros. unfold run. apply fold_left_app. Qed.

Lemma run_frame : forall bulk ss st g, (forall s, In s ss -> ~ In g (targets s)) -> get (run bulk st ss) g = get st g.
Proof.
  intros bulk ss. induction ss as [|s ss IH]; intros st g H; [reflexivity|].
  unfold run. cbn [fold_left]. fold (run bulk (step bulk st s) ss).
  rewrite IH by (intros s' Hs'; apply H; right; exact Hs'). apply exec_frame. apply H. left. reflexivity.
Qed.

Lemma step_WF : forall bulk st s, WF st -> WF (step bulk st s).
Proof.
  intros bulk st s H. unfold step, exec. destruct (xexec bulk no_faults (mkD st []) s) as [r d] eqn:E. cbn [snd].
  apply (xexec_WF _ _ _ _ _ _ E H).
Qed.

Lemma run_WF : forall bulk ss st, WF st -> WF (run bulk st ss).
Proof.
  intros bulk ss. induction ss as [|s ss IH]; intros st H; [exact H|].
  unfold run. cbn [fold_left]. apply IH. apply step_WF. exact H.
Qed.

(* rejected before execution starts: by the parser / semantic checks, or by Statement.Init *)
Definition rejected (st : store) (s : stmt) : bool :=
  negb (static_ok s) || negb (forallb (has st) (init_graphs s)).

Lemma rejected_step : forall bulk st s, rejected st s = true ->
  step bulk st s = st /\ exists e, fst (exec bulk st s) = RErr e.
Proof.
  intros bulk st s H. unfold rejected in H. unfold step. destruct (static_ok s) eqn:HS.
  - cbn in H. apply negb_true_iff in H. rewrite (exec_init_reject bulk st s HS H). split; [reflexivity | eexists; reflexivity].
  - rewrite (exec_static_reject bulk st s HS). split; [reflexivity | eexists; reflexivity].
Qed.

Lemma run_rejected : forall bulk st ss1 s ss2, rejected (run bulk st ss1) s = true ->
  run bulk st (ss1 ++ s :: ss2) = run bulk st (ss1 ++ ss2).
Proof.
  intros bulk st ss1 s ss2 H. rewrite !run_app. unfold run at 1. cbn [fold_left].
  destruct (rejected_step bulk _ s H) as [E _]. rewrite E. reflexivity.
Qed.

(* ------------------------------------------------------------------ the counter supply is fresh *)
Lemma max_id_ge : forall l k, In k l -> (k <= max_id l)%N.
Proof.
  induction l as [|x l IH]; intros k H; [destruct H|]. cbn [max_id fold_right]. destruct H as [H|H].
  - subst. apply N.le_max_l.
  - apply N.le_trans with (m := max_id l); [apply IH; exact H | apply N.le_max_r].
Qed.

Lemma counter_supply_fresh : forall old, fresh_supply old (counter_supply old).
Proof.
  intros old. split.
  - intros i H. apply max_id_ge in H. unfold counter_supply in H. lia.
  - intros i j H. unfold counter_supply in H. lia.
Qed.

(* whatever the outcome of the template loops: the output graphs hold exactly what was handed to the writer *)
Lemma exec_construct_sent : forall (add : bool) bulk st tmpl outs ins wb q draw r st',
  exec bulk st (SConstruct add tmpl outs ins wb q draw) = (r, st') ->
  static_ok (SConstruct add tmpl outs ins wb q draw) = true ->
  (forall g, In g (ins ++ outs) -> has st g = true) -> q_ok q = true ->
  r = (if snd (produce (output_bindings tmpl) tmpl (q_rows q) draw 0) then ROk else RErr ETemplate) /\
  forall g, In g outs -> forall t,
    In t (getd st' g) <-> W add (fst (produce (output_bindings tmpl) tmpl (q_rows q) draw 0)) (getd st g) t.
Proof.
  intros add bulk st tmpl outs ins wb q draw r st' H HS Hall Hq. rewrite exec_construct_unfold in H by exact HS.
  destruct (x_construct add bulk no_faults (mkD st []) tmpl outs ins q draw) as [r0 d] eqn:E. inversion H; subst r0 st'. clear H.
  pose proof (x_construct_nf _ _ _ _ _ _ _ _ _ _ E) as X. cbv zeta in X.
  assert (A : forallb (has st) (ins ++ outs) = true) by (apply forallb_forall; exact Hall). rewrite A, Hq in X. exact X.
Qed.

(* ------------------------------------------------------------------ refinement: exec has the stated effect *)

Lemma same_set_refl : forall a, same_set a a.
Proof. intros [P|]; cbn; [tauto | exact I]. Qed.

Lemma abs_same_get : forall st st' g, get st' g = get st g -> same_set (abs st' g) (abs st g).
Proof. intros st st' g H. unfold abs. rewrite H. apply same_set_refl. Qed.

Lemma init_names_init_graphs : forall s, init_names s = init_graphs s.
Proof. intros []; reflexivity. Qed.

Lemma has_getd : forall st g, has st g = true -> get st g = Some (getd st g).
Proof. intros st g H. apply has_get in H. destruct H as [l H]. rewrite H. f_equal. symmetry. apply getd_get. exact H. Qed.

Lemma write_effect : forall (add : bool) st st' gs ts,
  names st' = names st ->
  (forall g, ~ In g gs -> get st' g = get st g) ->
  (forall g, In g gs -> has st g = true -> forall t, In t (getd st' g) <-> W add ts (getd st g) t) ->
  apply_effect (Eff_write add gs ts) (abs st) (abs st').
Proof.
  intros add st st' gs ts N F C g. split.
  - intro Hg. unfold abs. destruct (get st g) as [l|] eqn:G.
    + assert (Hh : has st g = true) by (apply has_get; eexists; exact G).
      assert (Hh' : has st' g = true) by (rewrite (has_names_eq _ _ g N); exact Hh).
      rewrite (has_getd _ _ Hh'). cbn. intro t. rewrite (C g Hg Hh t). rewrite (getd_get _ _ _ G).
      unfold W, written. destruct add; tauto.
    + assert (Hh : has st g = false) by (apply has_false_get; exact G).
      assert (Hh' : has st' g = false) by (rewrite (has_names_eq _ _ g N); exact Hh).
      apply has_false_get in Hh'. rewrite Hh'. reflexivity.
  - intro Hg. apply abs_same_get. apply F. exact Hg.
Qed.

Theorem step_has_effect : forall bulk st s, apply_effect (effect_of st s) (abs st) (abs (step bulk st s)).
Proof.
  intros bulk st s. unfold effect_of. rewrite init_names_init_graphs.
  destruct (negb (static_ok s) || negb (forallb (has st) (init_graphs s))) eqn:R.
  - destruct (rejected_step bulk st s R) as [E _]. rewrite E. intro g. apply same_set_refl.
  - apply orb_false_iff in R. destruct R as [R1 R2]. apply negb_false_iff in R1, R2.
    unfold step. destruct (exec bulk st s) as [r st'] eqn:E. cbn [snd].
    destruct s.
    + assert (Hg : gs <> []) by (destruct gs; [discriminate | discriminate]).
      destruct (exec_create_spec bulk st gs r st' E Hg) as [A [B [C _]]]. intro g. unfold abs at 1.
      destruct (get st g) as [l|] eqn:G.
      * assert (Hh : has st g = true) by (apply has_get; eexists; exact G). unfold abs. rewrite (B g Hh), G. cbn. tauto.
      * assert (Hh : has st g = false) by (apply has_false_get; exact G). split.
        -- intro Hin. unfold abs. rewrite (C g Hin Hh). cbn. tauto.
        -- intro Hin. unfold abs. assert (X : has st' g = false).
           { rewrite A, Hh. cbn. apply (mem_false str_eqb str_eqb_ok). exact Hin. }
           apply has_false_get in X. rewrite X. reflexivity.
    + assert (Hg : gs <> []) by (destruct gs; [discriminate | discriminate]).
      destruct (exec_drop_spec bulk st gs r st' E Hg) as [A [B _]]. intro g. split.
      * intro Hin. unfold abs. assert (X : has st' g = false).
        { rewrite A. apply andb_false_iff. right. apply negb_false_iff. apply (mem_In str_eqb str_eqb_ok). exact Hin. }
        apply has_false_get in X. rewrite X. reflexivity.
      * intro Hin. apply abs_same_get. apply B. exact Hin.
    + cbn in R1. apply andb_true_iff in R1. destruct R1 as [G T].
      assert (Hg : outs <> []) by (destruct outs; [discriminate | discriminate]).
      assert (Ht : ts <> []) by (destruct ts; [discriminate | discriminate]).
      destruct (exec_update_spec true bulk st outs ts r st' E Hg Ht) as [A [B [C _]]]. apply write_effect; assumption.
    + cbn in R1. apply andb_true_iff in R1. destruct R1 as [G T].
      assert (Hg : ins <> []) by (destruct ins; [discriminate | discriminate]).
      assert (Ht : ts <> []) by (destruct ts; [discriminate | discriminate]).
      destruct (exec_update_spec false bulk st ins ts r st' E Hg Ht) as [A [B [C _]]]. apply write_effect; assumption.
    + cbn [init_graphs] in R2. destruct (q_ok q) eqn:Q.
      * assert (Hall : forall g, In g (ins ++ outs) -> has st g = true) by (apply forallb_has_In; exact R2).
        destruct (exec_construct_sent add bulk st tmpl outs ins wb q draw r st' E R1 Hall Q) as [_ C].
        assert (F : forall g, ~ In g outs -> get st' g = get st g).
        { intros g Hg. change st' with (snd (r, st')). rewrite <- E. apply (exec_frame bulk st _ g). exact Hg. }
        assert (N : names st' = names st).
        { rewrite exec_construct_unfold in E by exact R1.
          destruct (x_construct add bulk no_faults (mkD st []) tmpl outs ins q draw) as [r0 d] eqn:X. inversion E; subst.
          apply x_construct_frame in X. destruct X as [N _]. exact N. }
        apply write_effect; [exact N | exact F | intros g Hg _; apply C; exact Hg].
      * rewrite (exec_query_fail bulk st _ R1 R2 Q) in E. inversion E; subst. intro g. apply same_set_refl.
    + pose proof (exec_readonly bulk st (SSelect ins vars wb q) I) as X. rewrite E in X. cbn in X. subst st'.
      intro g. apply same_set_refl.
    + pose proof (exec_readonly bulk st SShow I) as X. rewrite E in X. cbn in X. subst st'. intro g. apply same_set_refl.
    + discriminate.
Qed.

Theorem run_follows : forall bulk ss st, follows bulk st ss (run bulk st ss).
Proof.
  intros bulk ss. induction ss as [|s ss IH]; intro st; [constructor|].
  unfold run. cbn [fold_left]. fold (run bulk (step bulk st s) ss).
  eapply F_cons; [apply step_has_effect | apply IH].
Qed.

(* ------------------------------------------------------------------ each reified group sits on ITS OWN new blank *)
Lemma Forall2_weaken : forall {A B} (R R' : A -> B -> Prop) l l', (forall a b, R a b -> R' a b) -> Forall2 R l l' -> Forall2 R' l l'.
Proof. intros A B R R' l l' H F. induction F; constructor; auto. Qed.

Lemma produced_groups : forall bs draw i w gs i', produced bs draw i w gs i' ->
  Forall2 (fun cr g => exists k, i <= k /\ group_of bs (fst cr) (snd cr) (draw k) g) w gs.
Proof.
  intros bs draw i w gs i' H. induction H as [i | i c r g w gs i' R G P IH | i c r g w gs i' R G P IH].
  - constructor.
  - constructor; [exists i; split; [lia | exact G] | exact IH].
  - constructor; [exists i; split; [lia | exact G]|].
    eapply Forall2_weaken; [|exact IH]. intros [c' r'] g' [k [Hk Hg]]. exists k. split; [lia | exact Hg].
Qed.

Lemma Forall2_nth_error : forall {A B} (R : A -> B -> Prop) l l' n b, Forall2 R l l' -> nth_error l' n = Some b ->
  exists a, nth_error l n = Some a /\ R a b.
Proof.
  intros A B R l l' n b H. revert n. induction H as [|x y l l' Hxy H IH]; intros n Hn; [destruct n; discriminate|].
  destruct n as [|n]; cbn in *; [inversion Hn; subst; exists x; auto | apply IH; exact Hn].
Qed.

Theorem reified_blank_is_private : forall st tmpl rows draw gs i',
  fresh_supply (old_ids st tmpl rows) draw ->
  produced (output_bindings tmpl) draw 0 (list_prod tmpl rows) gs i' ->
  forall n g c r, nth_error gs n = Some g -> nth_error (list_prod tmpl rows) n = Some (c, r) -> cRest c <> [] ->
  exists b, (forall t, In t g -> subject_of t = Blank b) /\
            ~ In b (store_blanks st) /\
            (forall n' g' t', n' <> n -> nth_error gs n' = Some g' -> In t' g' -> ~ mentions b t').
Proof.
  intros st tmpl rows draw gs i' Hf Hp n g c r Hg Hw HR.
  pose proof (produced_groups _ _ _ _ _ _ Hp) as F.
  destruct (Forall2_nth_error _ _ _ n g F Hg) as [[c' r'] [Hw' [k [_ G]]]]. rewrite Hw in Hw'. inversion Hw'; subst c' r'. cbn in G.
  exists (draw k). split; [exact (group_of_subjects _ _ _ _ _ G HR)|].
  assert (Hnew : ~ In (draw k) (old_ids st tmpl rows)) by (destruct Hf as [Hf _]; apply Hf).
  split; [intro X; apply Hnew; unfold old_ids; apply in_app_iff; left; exact X|].
  intros n' g' t' Hne Hg' Ht' M.
  (* the group itself mentions its blank: its first triple has it as subject *)
  assert (Hmine : exists t, In t g /\ mentions (draw k) t).
  { destruct G as [t R E | t es R E Fes]; [congruence|]. destruct t as [[s p] o]. eexists. split; [left; reflexivity|].
    unfold mentions, triple_blanks. cbn. left. reflexivity. }
  destruct Hmine as [t [Ht Mt]].
  assert (Hold : forall c0 r0, In (c0, r0) (list_prod tmpl rows) -> incl (cc_blanks c0 ++ row_blanks r0) (old_ids st tmpl rows)).
  { intros c0 r0 Hin. apply in_prod_iff in Hin. destruct Hin as [Hc Hr]. unfold old_ids. intros x Hx.
    apply in_app_iff in Hx. apply in_app_iff. right. apply in_app_iff.
    destruct Hx as [Hx|Hx]; [left | right]; apply in_flat_map; eexists; split; eassumption. }
  apply (produced_sep _ _ _ _ _ _ _ Hp Hf Hold n n' g g' (draw k) t t'); auto.
Qed.
