(* The same executors over a failing driver: vocabulary for C20.  Definitions only. *)
From Coq Require Import List Bool Arith NArith.
From BWExec Require Import Base Values Store Driver Exec.
Import ListNotations.

(* one statement, each statement starts with an empty call log (the schedule is per statement) *)
Definition fexec (bulk : nat) (sch : schedule) (st : store) (s : stmt) : result * dst :=
  xexec bulk sch (mkD st []) s.

(* a schedule entry was consumed as a failure: some call that was made found a failure entry *)
Definition consumed_failure (sch : schedule) (lg : log) : Prop := exists id, In id lg /\ sch id <> FOk.
Definition consumed_failure_b (sch : schedule) (lg : log) : bool := existsb (fun id => is_fail (sch id)) lg.

Definition is_err (r : result) : bool := match r with RErr _ => true | _ => false end.

(* schedules given as finite tables (what the harness injects): one failing identity, everything else ok *)
Definition single (id : call_id) (f : fault) : schedule := fun c => if call_eqb c id then f else FOk.
Fixpoint table_sched (tbl : list (call_id * fault)) : schedule :=
  match tbl with
  | [] => no_faults
  | (id, f) :: r => fun c => if call_eqb c id then f else table_sched r c
  end.
