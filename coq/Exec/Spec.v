(* SPEC side of C04: what a template contributes per solution row, stated declaratively. *)
From Coq Require Import List Bool NArith ZArith Arith.
From Coq.Strings Require Import Byte.
From BWExec Require Import Base Values Store Driver Exec.
Import ListNotations.

(* the triples one template clause contributes for one row, b being the blank node drawn for this (clause, row):
   - no `;`: the instantiated triple;
   - with `;`: the three reification triples of the instantiated triple t (t itself is NOT added) followed by one
     extra fact per further predicate-object pair, all with subject b *)
Inductive group_of (bs : list str) (c : cclause) (r : row) (b : N) : list triple -> Prop :=
| G_plain : forall t, cRest c = [] -> process_cc bs r c = Some t -> group_of bs c r b [t]
| G_reified : forall t es, cRest c <> [] -> process_cc bs r c = Some t ->
    Forall2 (fun p e => exists rp ro, process_pop bs r p = Some (Some rp, Some ro) /\ e = (Blank b, rp, ro)) (cRest c) es ->
    group_of bs c r b (reify t b ++ es).

(* one group per (clause, row) in the order of the two loops; a clause with `;` consumes one draw per row *)
Inductive produced (bs : list str) (draw : nat -> N) : nat -> list (cclause * row) -> list (list triple) -> nat -> Prop :=
| P_nil : forall i, produced bs draw i [] [] i
| P_plain : forall i c r g w gs i', cRest c = [] -> group_of bs c r (draw i) g ->
    produced bs draw i w gs i' -> produced bs draw i ((c, r) :: w) (g :: gs) i'
| P_reified : forall i c r g w gs i', cRest c <> [] -> group_of bs c r (draw i) g ->
    produced bs draw (S i) w gs i' -> produced bs draw i ((c, r) :: w) (g :: gs) i'.

(* blank ids written literally in a template (a user may write /_<uuid>) *)
Definition pop_blanks (p : pop) : list N := match pO p with Some o => obj_blanks o | None => [] end.
Definition cc_blanks (c : cclause) : list N :=
  (match cS c with Some n => node_blanks n | None => [] end) ++ flat_map pop_blanks (cFirst c :: cRest c).

(* the blank-node supply: every draw differs from every id already around and from every other draw *)
Definition fresh_supply (old : list N) (draw : nat -> N) : Prop :=
  (forall i, ~ In (draw i) old) /\ (forall i j, draw i = draw j -> i = j).

Definition old_ids (st : store) (tmpl : list cclause) (rows : list row) : list N :=
  store_blanks st ++ flat_map cc_blanks tmpl ++ flat_map row_blanks rows.

Definition subject_of (t : triple) : node := fst (fst t).
Definition mentions (k : N) (t : triple) : Prop := In k (triple_blanks t).

(* a concrete supply satisfying the freshness law: count upwards from above every old id *)
Definition max_id (l : list N) : N := fold_right N.max 0%N l.
Definition counter_supply (old : list N) : nat -> N := fun i => (1 + max_id old + N.of_nat i)%N.

(* ---------------------------------------------------------------- the store as a map name -> set, and the effect
   of a statement stated on that view *)
Definition sstore := str -> option (triple -> Prop).
Definition abs (st : store) : sstore := fun g => match get st g with Some l => Some (fun t => In t l) | None => None end.

Definition same_set (a b : option (triple -> Prop)) : Prop :=
  match a, b with
  | None, None => True
  | Some P, Some Q => forall t, P t <-> Q t
  | _, _ => False
  end.

Inductive effect :=
| Eff_none
| Eff_write (add : bool) (gs : list str) (ts : list triple)
| Eff_create (gs : list str)
| Eff_drop (gs : list str).

Definition written (add : bool) (ts : list triple) (P : triple -> Prop) : triple -> Prop :=
  fun t => if add then P t \/ In t ts else P t /\ ~ In t ts.

Definition apply_effect (e : effect) (a b : sstore) : Prop :=
  match e with
  | Eff_none => forall g, same_set (b g) (a g)
  | Eff_write add gs ts =>
      forall g, (In g gs -> match a g with Some P => same_set (b g) (Some (written add ts P)) | None => b g = None end) /\
                (~ In g gs -> same_set (b g) (a g))
  | Eff_create gs =>
      forall g, match a g with
                | Some P => same_set (b g) (Some P)
                | None => (In g gs -> same_set (b g) (Some (fun _ => False))) /\ (~ In g gs -> b g = None)
                end
  | Eff_drop gs => forall g, (In g gs -> b g = None) /\ (~ In g gs -> same_set (b g) (a g))
  end.

Definition init_names (s : stmt) : list str :=
  match s with
  | SConstruct _ _ outs ins _ _ _ => ins ++ outs
  | SSelect ins _ _ _ => ins
  | _ => []
  end.

(* what a statement does to the store it is executed on: nothing when it is rejected (static checks, Init) or only
   reads; union / difference of the listed triples, resp. of the triples the template yields for the rows *)
Definition effect_of (st : store) (s : stmt) : effect :=
  if negb (static_ok s) || negb (forallb (has st) (init_names s)) then Eff_none else
  match s with
  | SCreate gs => Eff_create gs
  | SDrop gs => Eff_drop gs
  | SInsert gs ts => Eff_write true gs ts
  | SDelete gs ts => Eff_write false gs ts
  | SConstruct add tmpl outs _ _ q draw =>
      if q_ok q then Eff_write add outs (fst (produce (output_bindings tmpl) tmpl (q_rows q) draw 0)) else Eff_none
  | _ => Eff_none
  end.

(* a run of a statement list in which every step has the stated effect *)
Inductive follows (bulk : nat) : store -> list stmt -> store -> Prop :=
| F_nil : forall st, follows bulk st [] st
| F_cons : forall st s st1 ss st2, apply_effect (effect_of st s) (abs st) (abs st1) ->
    follows bulk st1 ss st2 -> follows bulk st (s :: ss) st2.
