(* Values of the data model as far as the data statements look into them.  Definitions only.
   node      : a typed node (/type<id>; the text `_:v` is the node of type "/_" and id "v"), or a blank node drawn
               at run time by node.NewBlankNode (type "/_", id = a random UUID) -- the UUID is abstracted to a
               number k; the supply of those numbers is an oracle (see Exec.v).
   pred      : predicate id + optional time anchor (None = immutable; Some ns = temporal, instant in ns, UTC).
   literal   : opaque, identified by its canonical printed form.
   The memory driver identifies triples by the SHA-1 of these components; here a triple is identified by its
   structure (injectivity of that hash pre-image is property C06, not this family's). *)
From Coq Require Import List Bool NArith ZArith.
From Coq.Strings Require Import Byte.
From BWExec Require Import Base.
Import ListNotations.

Inductive node := Node (ty id : str) | Blank (k : N).
Record pred := mkPred { pid : str; panchor : option Z }.
Inductive obj := ONode (n : node) | OPred (p : pred) | OLit (l : str).
Definition triple := (node * pred * obj)%type.

Definition node_eqb (a b : node) : bool :=
  match a, b with
  | Node t i, Node t' i' => str_eqb t t' && str_eqb i i'
  | Blank k, Blank k' => N.eqb k k'
  | _, _ => false
  end.
Definition pred_eqb (a b : pred) : bool :=
  str_eqb (pid a) (pid b) && option_eqb Z.eqb (panchor a) (panchor b).
Definition obj_eqb (a b : obj) : bool :=
  match a, b with
  | ONode x, ONode y => node_eqb x y
  | OPred x, OPred y => pred_eqb x y
  | OLit x, OLit y => str_eqb x y
  | _, _ => false
  end.
Definition triple_eqb (a b : triple) : bool :=
  match a, b with
  | (s, p, o), (s', p', o') => node_eqb s s' && pred_eqb p p' && obj_eqb o o'
  end.

(* table cells: node / predicate / literal / time anchor / a string (ID and TYPE aliases) / the empty cell an OPTIONAL
   clause leaves behind *)
Inductive cell := CNode (n : node) | CPred (p : pred) | CLit (l : str) | CTime (t : Z) | CStr (s : str) | CNull.
Definition row := list (str * cell).

Fixpoint lookup (r : row) (b : str) : option cell :=
  match r with
  | [] => None
  | (k, v) :: r' => if str_eqb k b then Some v else lookup r' b
  end.

(* blank-node ids occurring in values *)
Definition node_blanks (n : node) : list N := match n with Blank k => [k] | _ => [] end.
Definition obj_blanks (o : obj) : list N := match o with ONode n => node_blanks n | _ => [] end.
Definition triple_blanks (t : triple) : list N :=
  match t with (s, _, o) => node_blanks s ++ obj_blanks o end.
Definition cell_blanks (c : cell) : list N := match c with CNode n => node_blanks n | _ => [] end.
Definition row_blanks (r : row) : list N := flat_map (fun kv => cell_blanks (snd kv)) r.
