(* Executable comparison of the executor model with observations of the real engine (written by the harness).
   Not part of the model: renaming of freshly drawn blank-node ids, outcome classes. *)
From Coq Require Import List Bool Arith NArith ZArith.
From Coq.Strings Require Import Byte.
From BWExec Require Import Base Values Store Driver Exec Fault Spec.
Import ListNotations.
Open Scope N_scope.

Inductive oclass := OOk | OReject | OError | ONilNil | OOther.
Definition oclass_eqb (a b : oclass) : bool :=
  match a, b with
  | OOk, OOk | OReject, OReject | OError, OError | ONilNil, ONilNil | OOther, OOther => true
  | _, _ => false
  end.
Definition class_of (r : result) : oclass :=
  match r with
  | ROk | RShow _ => OOk
  | RErr EStatic => OReject
  | RErr _ => OError
  | RNilNil => ONilNil
  end.

(* ---- blank renaming ---- *)
Definition max_list (l : list N) : N := fold_left N.max l 0.
Fixpoint dedup (l : list N) : list N :=
  match l with [] => [] | x :: r => if mem N.eqb x r then dedup r else x :: dedup r end.

Definition sig := (str * pred * obj)%type.
Definition sig_eqb (a b : sig) : bool :=
  match a, b with (g, p, o), (g', p', o') => str_eqb g g' && pred_eqb p p' && obj_eqb o o' end.
Definition sig_of (s : store) (b : N) : list sig :=
  flat_map (fun e => flat_map (fun t => match t with
                                        | (Blank k, p, o) => if N.eqb k b then [(fst e, p, o)] else []
                                        | _ => []
                                        end) (snd e)) s.

Fixpoint remove_first (x : N) (l : list N) : list N :=
  match l with [] => [] | y :: r => if N.eqb x y then r else y :: remove_first x r end.

(* for each new blank of the model (in order) the first unused new blank of the observation carrying the same
   facts; blanks with equal facts are interchangeable because a new blank never occurs as an object *)
Fixpoint match_blanks (ms os : list N) (sm so : store) : option (list (N * N)) :=
  match ms with
  | [] => Some []
  | m :: r =>
      match find (fun o => set_eqb sig_eqb (sig_of sm m) (sig_of so o)) os with
      | None => None
      | Some o => match match_blanks r (remove_first o os) sm so with
                  | None => None
                  | Some l => Some ((m, o) :: l)
                  end
      end
  end.

Fixpoint rho (l : list (N * N)) (k : N) : N :=
  match l with [] => k | (a, b) :: r => if N.eqb a k then b else rho r k end.
Definition ren_node (l : list (N * N)) (n : node) : node := match n with Blank k => Blank (rho l k) | _ => n end.
Definition ren_obj (l : list (N * N)) (o : obj) : obj := match o with ONode n => ONode (ren_node l n) | _ => o end.
Definition ren_triple (l : list (N * N)) (t : triple) : triple :=
  match t with (s, p, o) => (ren_node l s, p, ren_obj l o) end.
Definition ren_store (l : list (N * N)) (s : store) : store := map (fun e => (fst e, map (ren_triple l) (snd e))) s.

Definition store_eqb (a b : store) : bool :=
  set_eqb str_eqb (names a) (names b) &&
  forallb (fun n => set_eqb triple_eqb (getd a n) (getd b n)) (names a).

Definition stmt_rows (s : stmt) : list row :=
  match s with SConstruct _ _ _ _ _ q _ | SSelect _ _ _ q => q_rows q | _ => [] end.

(* ---- one observed step ---- *)
Record obs := mkObs { o_class : oclass; o_show : option (list str); o_after : store }.

(* equality of two stores modulo a renaming of the blank nodes that are new (model: >= base; observation: not old) *)
Definition stores_iso (old : list N) (base : N) (sm so : store) : bool :=
  let newm := dedup (filter (fun k => base <=? k) (store_blanks sm)) in
  let newo := dedup (filter (fun k => negb (mem N.eqb k old)) (store_blanks so)) in
  match match_blanks newm newo sm so with
  | None => false
  | Some l => Nat.eqb (length newm) (length newo) && store_eqb (ren_store l sm) so
  end.

(* blank ids written in the statement itself (a user may name an existing -- or no longer existing -- blank as /_<uuid>) *)
Definition stmt_blanks (s : stmt) : list N :=
  match s with
  | SInsert _ ts | SDelete _ ts => flat_map triple_blanks ts
  | SConstruct _ tmpl _ _ _ _ _ => flat_map cc_blanks tmpl
  | _ => []
  end.
Definition old_blanks (prev : store) (mk : (nat -> N) -> stmt) : list N :=
  store_blanks prev ++ flat_map row_blanks (stmt_rows (mk (fun _ => 0))) ++ stmt_blanks (mk (fun _ => 0)).
Definition base_of (old : list N) (after : store) : N := 1 + N.max (max_list old) (max_list (store_blanks after)).

(* frame only: same graph names, every graph that is not a target of the statement is exactly as before *)
Definition stmt_targets (s : stmt) : list str :=
  match s with
  | SConstruct _ _ outs _ _ _ _ => outs
  | SInsert gs _ | SDelete gs _ => gs
  | _ => []
  end.
Definition frame_agrees (prev : store) (s : stmt) (after : store) : bool :=
  set_eqb str_eqb (names prev) (names after) &&
  forallb (fun n => mem str_eqb n (stmt_targets s) || set_eqb triple_eqb (getd prev n) (getd after n)) (names prev).

Definition is_template_err (r : result) : bool := match r with RErr ETemplate => true | _ => false end.

(* exact = the order of the solution rows inside the engine is determined (single-clause pattern).  Otherwise a
   statement that stops at a template error has processed a scheduler-dependent subset of the rows: then only the
   outcome and the frame condition are compared. *)
Definition step_agrees (exact : bool) (bulk : nat) (prev : store) (mk : (nat -> N) -> stmt) (o : obs) : bool :=
  let old := old_blanks prev mk in
  let base := base_of old (o_after o) in
  let s := mk (fun i => base + N.of_nat i) in
  let '(r, st') := exec bulk prev s in
  oclass_eqb (class_of r) (o_class o) &&
  wf_store st' &&
  match r, o_show o with
  | RShow ns, Some ns' => set_eqb str_eqb ns ns'
  | RShow _, None => false
  | _, _ => true
  end &&
  if negb exact && is_template_err r then frame_agrees prev s (o_after o)
  else stores_iso old base st' (o_after o).

Definition case := (bool * nat * store * ((nat -> N) -> stmt) * obs)%type.
Fixpoint mismatches_from (i : N) (l : list case) : list N :=
  match l with
  | [] => []
  | (exact, bulk, prev, mk, o) :: r =>
      if step_agrees exact bulk prev mk o then mismatches_from (i + 1) r else i :: mismatches_from (i + 1) r
  end.

(* ---- fault runs (C20): statement, schedule table, observed class, observed calls, observed store ---- *)
Definition is_read (c : call_id) : bool := match c with (KRead, _, _) => true | _ => false end.
Definition log_eqb (a b : log) : bool := subset call_eqb a b && subset call_eqb b a && Nat.eqb (length a) (length b).
Definition failing_in (tbl : list (call_id * fault)) (lg : log) : list call_id :=
  filter (fun id => mem call_eqb id lg) (map fst (filter (fun e => is_fail (snd e)) tbl)).

Record fobs := mkFObs { f_class : oclass; f_calls : log; f_after : store }.

(* Calls other than lookups must be the same (as multisets: update's goroutines run in any order).  Lookups run in
   an order the model does not fix (errgroup over rows): there only "some failing lookup was consumed" must agree. *)
Definition fault_agrees (exact : bool) (bulk : nat) (prev : store) (mk : (nat -> N) -> stmt) (tbl : list (call_id * fault)) (o : fobs) : bool :=
  let old := old_blanks prev mk in
  let base := base_of old (f_after o) in
  let s := mk (fun i => base + N.of_nat i) in
  let '(r, d) := fexec bulk (table_sched tbl) prev s in
  let nr := filter (fun c => negb (is_read c)) in
  oclass_eqb (class_of r) (f_class o) &&
  Bool.eqb (existsb is_read (failing_in tbl (d_log d))) (existsb is_read (failing_in tbl (f_calls o))) &&
  if negb exact && (is_template_err r || negb (is_empty (failing_in tbl (d_log d)))) then
    frame_agrees prev s (f_after o)
  else
    log_eqb (nr (d_log d)) (nr (f_calls o)) && stores_iso old base (d_store d) (f_after o).

Definition fcase := (bool * nat * store * ((nat -> N) -> stmt) * list (call_id * fault) * fobs)%type.
Fixpoint fmismatches_from (i : N) (l : list fcase) : list N :=
  match l with
  | [] => []
  | (exact, bulk, prev, mk, tbl, o) :: r =>
      if fault_agrees exact bulk prev mk tbl o then fmismatches_from (i + 1) r else i :: fmismatches_from (i + 1) r
  end.
