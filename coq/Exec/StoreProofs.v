(* Lemmas about the store operations of Store.v. *)
From Coq Require Import List Bool NArith Arith Lia.
From Coq.Strings Require Import Byte.
From BWExec Require Import Base Values Store BaseProofs.
Import ListNotations.

Lemma has_get : forall s n, has s n = true <-> exists g, get s n = Some g.
Proof.
  intros s n. unfold has. destruct (get s n) as [g|]; split; intro H; try reflexivity; try discriminate.
  - exists g. reflexivity.
  - destruct H as [g H]. discriminate.
Qed.

Lemma has_false_get : forall s n, has s n = false <-> get s n = None.
Proof.
  intros s n. unfold has. destruct (get s n); split; intro H; try reflexivity; discriminate.
Qed.

Lemma has_In_names : forall s n, has s n = true <-> In n (names s).
Proof.
  intros s n. unfold has. induction s as [|[k g] r IH]; cbn.
  - split; [discriminate | tauto].
  - destruct (str_eqb k n) eqn:E.
    + apply str_eqb_spec in E. subst. split; auto.
    + apply str_eqb_neq in E. rewrite IH. split; [auto | intros [H|H]; [contradiction | exact H]].
Qed.

Lemma getd_get : forall s n g, get s n = Some g -> getd s n = g.
Proof. intros s n g H. unfold getd. rewrite H. reflexivity. Qed.

(* ---- set_graph ---- *)
Lemma names_set_graph : forall s n g, names (set_graph s n g) = names s.
Proof.
  intros s n g. unfold names, set_graph. rewrite map_map. apply map_ext.
  intros [k x]. cbn. destruct (str_eqb k n); reflexivity.
Qed.

Lemma get_set_graph_same : forall s n g, has s n = true -> get (set_graph s n g) n = Some g.
Proof.
  intros s n g. unfold has. induction s as [|[k x] r IH]; cbn; [discriminate|].
  destruct (str_eqb k n) eqn:E; cbn; rewrite E; [reflexivity | exact IH].
Qed.

Lemma get_set_graph_none : forall s n g, has s n = false -> set_graph s n g = s.
Proof.
  intros s n g. unfold has. induction s as [|[k x] r IH]; cbn; [reflexivity|].
  destruct (str_eqb k n) eqn:E; [discriminate|]. intro H. unfold set_graph in IH. rewrite (IH H). reflexivity.
Qed.

Lemma get_set_graph_other : forall s n g n', n <> n' -> get (set_graph s n g) n' = get s n'.
Proof.
  intros s n g n' Hne. induction s as [|[k x] r IH]; cbn; [reflexivity|].
  destruct (str_eqb k n) eqn:E; cbn.
  - apply str_eqb_spec in E. subst k. apply str_eqb_neq in Hne. rewrite Hne. exact IH.
  - destruct (str_eqb k n'); [reflexivity | exact IH].
Qed.

Lemma has_set_graph : forall s n g n', has (set_graph s n g) n' = has s n'.
Proof.
  intros s n g n'. destruct (has s n') eqn:E.
  - apply has_In_names. rewrite names_set_graph. apply has_In_names. exact E.
  - destruct (has (set_graph s n g) n') eqn:E'; [|reflexivity].
    apply has_In_names in E'. rewrite names_set_graph in E'. apply has_In_names in E'. congruence.
Qed.

Lemma getd_set_graph_same : forall s n g, has s n = true -> getd (set_graph s n g) n = g.
Proof. intros s n g H. apply getd_get. apply get_set_graph_same. exact H. Qed.

Lemma getd_set_graph_other : forall s n g n', n <> n' -> getd (set_graph s n g) n' = getd s n'.
Proof. intros s n g n' H. unfold getd. rewrite get_set_graph_other by exact H. reflexivity. Qed.

(* ---- new_graph ---- *)
Lemma get_app_some : forall s s' n g, get s n = Some g -> get (s ++ s') n = Some g.
Proof.
  induction s as [|[k x] r IH]; cbn; intros s' n g H; [discriminate|].
  destruct (str_eqb k n); [exact H | apply IH; exact H].
Qed.

Lemma get_app_none : forall s s' n, get s n = None -> get (s ++ s') n = get s' n.
Proof.
  induction s as [|[k x] r IH]; cbn; intros s' n H; [reflexivity|].
  destruct (str_eqb k n); [discriminate | apply IH; exact H].
Qed.

Lemma new_graph_spec : forall s n s', new_graph s n = Some s' ->
  has s n = false /\ names s' = names s ++ [n] /\ get s' n = Some [] /\ (forall n', n' <> n -> get s' n' = get s n').
Proof.
  intros s n s'. unfold new_graph. destruct (has s n) eqn:E; [discriminate|]. intro H. inversion H; subst s'. clear H.
  split; [reflexivity|]. split; [unfold names; rewrite map_app; reflexivity|]. split.
  - apply has_false_get in E. rewrite get_app_none by exact E. cbn. rewrite str_eqb_refl. reflexivity.
  - intros n' Hne. destruct (get s n') as [g|] eqn:G.
    + apply get_app_some. exact G.
    + rewrite get_app_none by exact G. cbn. assert (X : str_eqb n n' = false) by (apply str_eqb_neq; congruence).
      rewrite X. reflexivity.
Qed.

Lemma new_graph_none : forall s n, new_graph s n = None <-> has s n = true.
Proof. intros s n. unfold new_graph. destruct (has s n); split; intro H; try reflexivity; discriminate. Qed.

(* ---- delete_graph ---- *)
Lemma get_filter_other : forall s n n', n' <> n ->
  get (filter (fun e => negb (str_eqb (fst e) n)) s) n' = get s n'.
Proof.
  intros s n n' Hne. induction s as [|[k x] r IH]; cbn; [reflexivity|].
  destruct (str_eqb k n) eqn:E; cbn.
  - apply str_eqb_spec in E. subst k. assert (X : str_eqb n n' = false) by (apply str_eqb_neq; congruence).
    rewrite X. exact IH.
  - destruct (str_eqb k n'); [reflexivity | exact IH].
Qed.

Lemma get_filter_same : forall s n, get (filter (fun e => negb (str_eqb (fst e) n)) s) n = None.
Proof.
  intros s n. induction s as [|[k x] r IH]; cbn; [reflexivity|].
  destruct (str_eqb k n) eqn:E; cbn; [exact IH | rewrite E; exact IH].
Qed.

Lemma delete_graph_spec : forall s n s', delete_graph s n = Some s' ->
  has s n = true /\ get s' n = None /\ (forall n', n' <> n -> get s' n' = get s n') /\
  names s' = filter (fun k => negb (str_eqb k n)) (names s).
Proof.
  intros s n s'. unfold delete_graph. destruct (has s n) eqn:E; [|discriminate]. intro H. inversion H; subst s'. clear H.
  split; [reflexivity|]. split; [apply get_filter_same|]. split; [intros n' Hne; apply get_filter_other; exact Hne|].
  unfold names. clear E. induction s as [|[k x] r IH]; cbn; [reflexivity|].
  destruct (str_eqb k n); cbn; [exact IH | rewrite IH; reflexivity].
Qed.

Lemma delete_graph_none : forall s n, delete_graph s n = None <-> has s n = false.
Proof. intros s n. unfold delete_graph. destruct (has s n); split; intro H; try reflexivity; discriminate. Qed.

(* ---- contents after a write ---- *)
Lemma add_triples_In : forall g ts t, In t (add_triples g ts) <-> In t g \/ In t ts.
Proof. intros g ts t. unfold add_triples. apply set_add_all_In. exact triple_eqb_ok. Qed.

Lemma remove_triples_In : forall g ts t, In t (remove_triples g ts) <-> In t g /\ ~ In t ts.
Proof. intros g ts t. unfold remove_triples. apply set_remove_all_In. exact triple_eqb_ok. Qed.

Lemma add_triples_NoDup : forall g ts, NoDup g -> NoDup (add_triples g ts).
Proof. intros g ts H. unfold add_triples. apply set_add_all_NoDup; [exact triple_eqb_ok | exact H]. Qed.

Lemma remove_triples_NoDup : forall g ts, NoDup g -> NoDup (remove_triples g ts).
Proof. intros g ts H. unfold remove_triples. apply set_remove_all_NoDup. exact H. Qed.

(* ---- well-formedness as a proposition ---- *)
Definition WF (s : store) : Prop := NoDup (names s) /\ forall n g, In (n, g) s -> NoDup g.

Lemma wf_store_spec : forall s, wf_store s = true <-> WF s.
Proof.
  intros s. unfold wf_store, WF. rewrite andb_true_iff, (nodup_b_spec str_eqb str_eqb_ok), forallb_forall.
  split; intros [H1 H2]; split; try exact H1.
  - intros n g Hin. specialize (H2 (n, g) Hin). cbn in H2. apply (nodup_b_spec triple_eqb triple_eqb_ok). exact H2.
  - intros [n g] Hin. cbn. apply (nodup_b_spec triple_eqb triple_eqb_ok). apply (H2 n g Hin).
Qed.

Lemma WF_set_graph : forall s n g, WF s -> NoDup g -> WF (set_graph s n g).
Proof.
  intros s n g [H1 H2] Hg. split; [rewrite names_set_graph; exact H1|].
  intros n' g' Hin. unfold set_graph in Hin. apply in_map_iff in Hin. destruct Hin as [[k x] [E Hin]]. cbn in E.
  destruct (str_eqb k n); inversion E; subst; [exact Hg | apply (H2 _ _ Hin)].
Qed.

Lemma In_get_NoDup : forall s n, WF s -> NoDup (getd s n).
Proof.
  intros s n [_ H2]. unfold getd. destruct (get s n) as [g|] eqn:E; [|constructor].
  assert (X : In (n, g) s).
  { clear H2. induction s as [|[k x] r IH]; cbn in *; [discriminate|].
    destruct (str_eqb k n) eqn:E'; [apply str_eqb_spec in E'; inversion E; subst; left; reflexivity | right; apply IH; exact E]. }
  apply (H2 _ _ X).
Qed.

Lemma WF_new_graph : forall s n s', WF s -> new_graph s n = Some s' -> WF s'.
Proof.
  intros s n s' [H1 H2] H. pose proof (new_graph_spec _ _ _ H) as [Hh [Hn _]].
  unfold new_graph in H. rewrite Hh in H. inversion H; subst s'. split.
  - rewrite Hn. apply NoDup_snoc; [exact H1|]. intro X. apply has_In_names in X. congruence.
  - intros n' g Hin. apply in_app_iff in Hin. destruct Hin as [Hin|[Hin|[]]]; [apply (H2 _ _ Hin)|].
    inversion Hin; subst. constructor.
Qed.

Lemma WF_delete_graph : forall s n s', WF s -> delete_graph s n = Some s' -> WF s'.
Proof.
  intros s n s' [H1 H2] H. pose proof (delete_graph_spec _ _ _ H) as [Hh [_ [_ Hn]]].
  unfold delete_graph in H. rewrite Hh in H. inversion H; subst s'. split.
  - rewrite Hn. apply filter_NoDup. exact H1.
  - intros n' g Hin. apply filter_In in Hin. destruct Hin as [Hin _]. apply (H2 _ _ Hin).
Qed.
