(* Executors of the data and graph statements (bql/planner/planner.go: createPlan, dropPlan, update, insertPlan,
   deletePlan, constructPlan, showPlan; bql/semantic/semantic.go: Statement.Init; triple.Reify), written over the
   driver of Driver.v.  `exec` is the instance with a driver that never fails.  Definitions only.

   What is an INPUT here and not computed: the solution rows of the WHERE pattern (q_rows: the query engine is
   modelled and proved elsewhere), whether that engine failed for reasons of its own (q_ok), which graphs its
   lookups touch (q_reads), and the ids the runtime draws for blank nodes (draw). *)
From Coq Require Import List Bool Arith NArith ZArith.
From Coq.Strings Require Import Byte.
From BWExec Require Import Base Values Store Driver.
Import ListNotations.

(* ---- templates (semantic.ConstructClause / ConstructPredicateObjectPair) ---- *)
Record pop := mkPop {
  pP : option pred; pPBinding : str; pPID : str; pPAnchorBinding : str; pPTemporal : bool;
  pO : option obj;  pOBinding : str; pOID : str; pOAnchorBinding : str; pOTemporal : bool }.
(* the grammar guarantees at least one predicate-object pair: cFirst; cRest are the pairs after `;` *)
Record cclause := mkCC { cS : option node; cSBinding : str; cFirst : pop; cRest : list pop }.

Record qinput := mkQ { q_reads : list str; q_ok : bool; q_rows : list row }.

Inductive stmt :=
| SCreate (gs : list str)
| SDrop (gs : list str)
| SInsert (outs : list str) (ts : list triple)
| SDelete (ins : list str) (ts : list triple)
| SConstruct (add : bool) (tmpl : list cclause) (outs ins : list str) (wb : list str) (q : qinput) (draw : nat -> N)
| SSelect (ins : list str) (vars wb : list str) (q : qinput)
| SShow
| SBad.

Inductive errclass := EStatic | EInit | EQuery | EDriver | ETemplate | EUpdate.
Inductive result := ROk | RShow (ns : list str) | RErr (e : errclass) | RNilNil.

(* ---- checks made while parsing (grammar + semantic hooks): rejected statements never reach a plan ---- *)
Definition nonempty (s : str) : bool := negb (is_empty s).
Definition pop_bindings (p : pop) : list str :=
  filter nonempty [pPBinding p; pPAnchorBinding p; pOBinding p; pOAnchorBinding p].
Definition cc_bindings (c : cclause) : list str :=
  filter nonempty [cSBinding c] ++ flat_map pop_bindings (cFirst c :: cRest c).
(* Statement.InputBindings for a construct statement *)
Definition input_bindings (tmpl : list cclause) : list str := flat_map cc_bindings tmpl.
(* Statement.OutputBindings for a construct statement: the same, without repetitions, in order *)
Definition output_bindings (tmpl : list cclause) : list str :=
  fold_left (fun acc b => if mem str_eqb b acc then acc else acc ++ [b]) (input_bindings tmpl) [].

Definition static_ok (s : stmt) : bool :=
  match s with
  | SCreate gs | SDrop gs => negb (is_empty gs)
  | SInsert gs ts | SDelete gs ts => negb (is_empty gs) && negb (is_empty ts)
  | SConstruct add tmpl outs ins wb _ _ =>
      negb (is_empty tmpl) && negb (is_empty outs) && negb (is_empty ins) &&
      subset str_eqb (input_bindings tmpl) wb &&            (* bindingsGraphChecker *)
      (add || forallb (fun c => is_empty (cRest c)) tmpl)    (* DECONSTRUCT has no `;` in the grammar *)
  | SSelect ins vars wb _ => negb (is_empty ins) && negb (is_empty vars) && subset str_eqb vars wb
  | SShow => true
  | SBad => false
  end.

(* ---- template instantiation (processPredicateObjectPair / processConstructClause) ---- *)
Definition process_pop (bs : list str) (r : row) (p : pop) : option (option pred * option obj) :=
  let rp : option (option pred) :=
    match pP p with
    | Some x => Some (Some x)
    | None =>
        if mem str_eqb (pPBinding p) bs then
          match lookup r (pPBinding p) with
          | Some (CPred x) => Some (Some x)
          | _ => None                                  (* row misses binding / requires a predicate *)
          end
        else if pPTemporal p && nonempty (pPAnchorBinding p) then
          match lookup r (pPAnchorBinding p) with
          | Some (CTime t) => if is_empty (pPID p) then None else Some (Some (mkPred (pPID p) (Some t)))
          | _ => None
          end
        else Some None
    end in
  match rp with
  | None => None
  | Some rprd =>
      match pO p with
      | Some o => Some (rprd, Some o)
      | None =>
          if mem str_eqb (pOBinding p) bs then
            match lookup r (pOBinding p) with
            | Some (CNode n) => Some (rprd, Some (ONode n))
            | Some (CPred x) => Some (rprd, Some (OPred x))
            | Some (CLit l) => Some (rprd, Some (OLit l))
            | _ => None    (* missing, time cell, empty cell; a string cell: cellToObject builds type:string, which does not parse *)
            end
          else if pOTemporal p && nonempty (pOAnchorBinding p) then
            match lookup r (pOAnchorBinding p) with
            | Some (CTime t) => if is_empty (pOID p) then None else Some (rprd, Some (OPred (mkPred (pOID p) (Some t))))
            | _ => None
            end
          else Some (rprd, None)
      end
  end.

(* triple.New: error on a nil component *)
Definition triple_new (s : option node) (p : option pred) (o : option obj) : option triple :=
  match s, p, o with Some a, Some b, Some c => Some (a, b, c) | _, _, _ => None end.

Definition process_cc (bs : list str) (r : row) (c : cclause) : option triple :=
  let sbj : option (option node) :=
    match cS c with
    | Some n => Some (Some n)
    | None =>
        if mem str_eqb (cSBinding c) bs then
          match lookup r (cSBinding c) with
          | Some (CNode n) => Some (Some n)
          | _ => None
          end
        else Some None
    end in
  match sbj with
  | None => None
  | Some s =>
      match process_pop bs r (cFirst c) with
      | None => None
      | Some (p, o) => triple_new s p o
      end
  end.

(* triple.Reify: the three triples the planner keeps (rts[1:]); the reification predicates carry the anchor of the
   reified triple's predicate *)
Definition s_subject : str := [x5f;x73;x75;x62;x6a;x65;x63;x74].
Definition s_predicate : str := [x5f;x70;x72;x65;x64;x69;x63;x61;x74;x65].
Definition s_object : str := [x5f;x6f;x62;x6a;x65;x63;x74].
Definition reify (t : triple) (b : N) : list triple :=
  match t with
  | (s, p, o) =>
      [ (Blank b, mkPred s_subject (panchor p), ONode s);
        (Blank b, mkPred s_predicate (panchor p), OPred p);
        (Blank b, mkPred s_object (panchor p), o) ]
  end.

(* the extra facts after `;`, all on the blank node; stops at the first failing pair (what was sent stays sent) *)
Fixpoint extras (bs : list str) (r : row) (b : N) (ps : list pop) : list triple * bool :=
  match ps with
  | [] => ([], true)
  | p :: ps' =>
      match process_pop bs r p with
      | None => ([], false)
      | Some (rp, ro) =>
          match triple_new (Some (Blank b)) rp ro with
          | None => ([], false)
          | Some t => let '(l, ok) := extras bs r b ps' in (t :: l, ok)
          end
      end
  end.

(* one (clause, row) iteration of constructPlan.Execute: triples sent to the writer, success, whether a blank was drawn *)
Definition inst_row (bs : list str) (c : cclause) (r : row) (b : N) : list triple * bool * bool :=
  match process_cc bs r c with
  | None => ([], false, false)
  | Some t =>
      match cRest c with
      | [] => ([t], true, false)
      | ps => let '(l, ok) := extras bs r b ps in (reify t b ++ l, ok, true)
      end
  end.

(* for _, r := range tbl.Rows(): i counts the draws made so far *)
Fixpoint produce_rows (bs : list str) (c : cclause) (rows : list row) (draw : nat -> N) (i : nat)
  : list triple * bool * nat :=
  match rows with
  | [] => ([], true, i)
  | r :: rows' =>
      let '(l, ok, drew) := inst_row bs c r (draw i) in
      let i' := if drew then S i else i in
      if ok then let '(l', ok', i'') := produce_rows bs c rows' draw i' in (l ++ l', ok', i'')
      else (l, false, i')
  end.

(* for _, cc := range ConstructClauses() *)
Fixpoint produce (bs : list str) (tmpl : list cclause) (rows : list row) (draw : nat -> N) (i : nat)
  : list triple * bool :=
  match tmpl with
  | [] => ([], true)
  | c :: tmpl' =>
      let '(l, ok, i') := produce_rows bs c rows draw i in
      if ok then let '(l', ok') := produce bs tmpl' rows draw i' in (l ++ l', ok')
      else (l, false)
  end.

(* ---- plans over the driver ---- *)

(* update(): one goroutine per target graph: Graph(name), then the write; errors are joined, the other graphs are
   still written.  The goroutines touch different graphs (or write the same set), so their order is immaterial;
   the model runs them in list order. *)
Fixpoint x_update (add : bool) (sch : schedule) (d : dst) (ts : list triple) (gbs : list str) : bool * dst :=
  match gbs with
  | [] => (true, d)
  | g :: r =>
      let '(okg, d1) := d_graph sch d g in
      let '(ok1, d2) := if okg then d_write add sch d1 g ts else (false, d1) in
      let '(ok2, d3) := x_update add sch d2 ts r in
      (ok1 && ok2, d3)
  end.

(* Statement.Init: resolve every graph name, stop at the first error *)
Fixpoint x_init (sch : schedule) (d : dst) (gs : list str) : bool * dst :=
  match gs with
  | [] => (true, d)
  | g :: r => let '(ok, d1) := d_graph sch d g in if ok then x_init sch d1 r else (false, d1)
  end.

(* the lookups of the pattern: any error aborts the query (simpleFetch / simpleExist / errgroup) *)
Fixpoint x_reads (sch : schedule) (d : dst) (gs : list str) : bool * dst :=
  match gs with
  | [] => (true, d)
  | g :: r => let '(ok, d1) := d_read sch d g in if ok then x_reads sch d1 r else (false, d1)
  end.

Fixpoint x_create (sch : schedule) (d : dst) (gs : list str) : bool * dst :=
  match gs with
  | [] => (true, d)
  | g :: r => let '(ok1, d1) := d_new_graph sch d g in let '(ok2, d2) := x_create sch d1 r in (ok1 && ok2, d2)
  end.
Fixpoint x_drop (sch : schedule) (d : dst) (gs : list str) : bool * dst :=
  match gs with
  | [] => (true, d)
  | g :: r => let '(ok1, d1) := d_delete_graph sch d g in let '(ok2, d2) := x_drop sch d1 r in (ok1 && ok2, d2)
  end.

(* the writer goroutine of constructPlan.Execute: collect bulkSize triples, then update() *)
Fixpoint writer (add : bool) (bulk : nat) (sch : schedule) (d : dst) (outs : list str)
         (sent pending : list triple) (okacc : bool) : list triple * bool * dst :=
  match sent with
  | [] => (pending, okacc, d)
  | t :: r =>
      let p' := pending ++ [t] in
      if bulk <=? length p' then
        let '(ok, d1) := x_update add sch d p' outs in writer add bulk sch d1 outs r [] (okacc && ok)
      else writer add bulk sch d outs r p' okacc
  end.

Definition x_construct (add : bool) (bulk : nat) (sch : schedule) (d : dst) (tmpl : list cclause)
           (outs ins : list str) (q : qinput) (draw : nat -> N) : result * dst :=
  let '(ok, d1) := x_init sch d (ins ++ outs) in
  if negb ok then (RErr EInit, d1) else
  let '(okr, d2) := x_reads sch d1 (q_reads q) in
  if negb okr then (RErr EDriver, d2) else
  if negb (q_ok q) then (RErr EQuery, d2) else
  let '(sent, okp) := produce (output_bindings tmpl) tmpl (q_rows q) draw 0 in
  let '(pending, okw, d3) := writer add bulk sch d2 outs sent [] true in
  (* close(tripChan) -- at the end, or by abort() on a template error: the writer flushes what is pending and
     reports the joined errors of its update() calls *)
  let '(okf, d4) := if is_empty pending then (true, d3) else x_update add sch d3 pending outs in
  if okp then (if okw && okf then ROk else RErr EUpdate, d4)
  else (RErr ETemplate, d4).

Definition x_select (sch : schedule) (d : dst) (ins : list str) (q : qinput) : result * dst :=
  let '(ok, d1) := x_init sch d ins in
  if negb ok then (RErr EInit, d1) else
  let '(okr, d2) := x_reads sch d1 (q_reads q) in
  if negb okr then (RErr EDriver, d2) else
  if negb (q_ok q) then (RErr EQuery, d2) else (ROk, d2).

Definition x_show (sch : schedule) (d : dst) : result * dst :=
  let '(ns, ok, d1) := d_graph_names sch d in
  if ok then (RShow ns, d1) else (RErr EDriver, d1).

Definition xexec (bulk : nat) (sch : schedule) (d : dst) (s : stmt) : result * dst :=
  if negb (static_ok s) then (RErr EStatic, d) else
  match s with
  | SCreate gs => let '(ok, d') := x_create sch d gs in (if ok then ROk else RErr EUpdate, d')
  | SDrop gs => let '(ok, d') := x_drop sch d gs in (if ok then ROk else RErr EUpdate, d')
  | SInsert outs ts => let '(ok, d') := x_update true sch d ts outs in (if ok then ROk else RErr EUpdate, d')
  | SDelete ins ts => let '(ok, d') := x_update false sch d ts ins in (if ok then ROk else RErr EUpdate, d')
  | SConstruct add tmpl outs ins _ q draw => x_construct add bulk sch d tmpl outs ins q draw
  | SSelect ins _ _ q => x_select sch d ins q
  | SShow => x_show sch d
  | SBad => (RErr EStatic, d)
  end.

(* ---- the fault-free instance: what C04 is about ---- *)
Definition exec (bulk : nat) (st : store) (s : stmt) : result * store :=
  let '(r, d) := xexec bulk no_faults (mkD st []) s in (r, d_store d).

Definition step (bulk : nat) (st : store) (s : stmt) : store := snd (exec bulk st s).
Definition run (bulk : nat) (st : store) (ss : list stmt) : store := fold_left (step bulk) ss st.
(* results along the way *)
Fixpoint run_results (bulk : nat) (st : store) (ss : list stmt) : list (result * store) :=
  match ss with
  | [] => []
  | s :: r => let '(res, st') := exec bulk st s in (res, st') :: run_results bulk st' r
  end.
