(* Producer / forwarder / consumer pipelines over buffered Go channels, as the planner builds them:
     simpleFetch:     driver lookup  --os/ps/ss-->  main loop (triple.New, lErr => keep draining)  --ts-->  addTriples
                      (addTriples keeps receiving after an error: `defer drainChannel(ts)`)
     constructPlan:   template loops --tripChan--> writer goroutine            (forwarder = identity)
   Items are anonymous (only their number matters for blocking).  Each process has exactly one action in each state;
   the scheduler picks which enabled process moves.  Definitions only.
   Channel capacities are >= 1 here (chanSize 0 = rendezvous channels are not modelled). *)
From Coq Require Import Arith Bool List.
Import ListNotations.

(* the source: k items still to deliver, then it closes its channel -- unless it is a source that returns without
   closing (closes = false): constructPlan.Execute before fix F13 on a template error *)
Inductive src_state := SrcRun (k : nat) | SrcDone.
(* the forwarder: waiting for an item / holding one that it will forward / holding one that it will drop (lErr) / done *)
Inductive mid_state := MidRecv | MidFwd | MidDrop | MidDone.
(* the consumer: receiving (also when it has failed: it drains) / done *)
Inductive snk_state := SnkRun | SnkDone.

Record pstate := mkP {
  src : src_state; closes : bool;
  buf1 : nat; cap1 : nat; closed1 : bool;
  mid : mid_state;
  buf2 : nat; cap2 : nat; closed2 : bool;
  snk : snk_state }.

Inductive pstep : pstate -> pstate -> Prop :=
(* source sends one item when there is room *)
| St_send : forall k c b1 c1 m b2 c2 cl2 s, b1 < c1 ->
    pstep (mkP (SrcRun (S k)) c b1 c1 false m b2 c2 cl2 s) (mkP (SrcRun k) c (S b1) c1 false m b2 c2 cl2 s)
(* source is out of items (all delivered, or the failure point is reached): close the channel, return *)
| St_close : forall b1 c1 m b2 c2 cl2 s,
    pstep (mkP (SrcRun 0) true b1 c1 false m b2 c2 cl2 s) (mkP SrcDone true b1 c1 true m b2 c2 cl2 s)
(* a source that returns WITHOUT closing *)
| St_abandon : forall b1 c1 m b2 c2 cl2 s,
    pstep (mkP (SrcRun 0) false b1 c1 false m b2 c2 cl2 s) (mkP SrcDone false b1 c1 false m b2 c2 cl2 s)
(* forwarder receives an item and will forward it, or (error state) will drop it *)
| St_recv : forall sr c b1 c1 cl1 b2 c2 cl2 s (drop : bool),
    pstep (mkP sr c (S b1) c1 cl1 MidRecv b2 c2 cl2 s) (mkP sr c b1 c1 cl1 (if drop then MidDrop else MidFwd) b2 c2 cl2 s)
| St_fwd : forall sr c b1 c1 cl1 b2 c2 s, b2 < c2 ->
    pstep (mkP sr c b1 c1 cl1 MidFwd b2 c2 false s) (mkP sr c b1 c1 cl1 MidRecv (S b2) c2 false s)
| St_drop : forall sr c b1 c1 cl1 b2 c2 cl2 s,
    pstep (mkP sr c b1 c1 cl1 MidDrop b2 c2 cl2 s) (mkP sr c b1 c1 cl1 MidRecv b2 c2 cl2 s)
(* input closed and empty: the range loop ends, the forwarder closes its output *)
| St_mid_end : forall sr c c1 b2 c2 s,
    pstep (mkP sr c 0 c1 true MidRecv b2 c2 false s) (mkP sr c 0 c1 true MidDone b2 c2 true s)
(* consumer receives (processing or draining) *)
| St_consume : forall sr c b1 c1 cl1 m b2 c2 cl2,
    pstep (mkP sr c b1 c1 cl1 m (S b2) c2 cl2 SnkRun) (mkP sr c b1 c1 cl1 m b2 c2 cl2 SnkRun)
| St_snk_end : forall sr c b1 c1 cl1 m c2,
    pstep (mkP sr c b1 c1 cl1 m 0 c2 true SnkRun) (mkP sr c b1 c1 cl1 m 0 c2 true SnkDone).

Definition final (p : pstate) : Prop := src p = SrcDone /\ mid p = MidDone /\ snk p = SnkDone.

(* start: n items to deliver, empty open channels *)
Definition pinit (n c1 c2 : nat) (closes : bool) : pstate :=
  mkP (SrcRun n) closes 0 c1 false MidRecv 0 c2 false SnkRun.

Inductive psteps : nat -> pstate -> pstate -> Prop :=
| Ps_0 : forall p, psteps 0 p p
| Ps_S : forall n p q r, pstep p q -> psteps n q r -> psteps (S n) p r.

(* invariants of a pipeline started by pinit *)
Definition pwf (p : pstate) : Prop :=
  1 <= cap1 p /\ 1 <= cap2 p /\ buf1 p <= cap1 p /\ buf2 p <= cap2 p /\
  (closed1 p = true <-> (src p = SrcDone /\ closes p = true)) /\
  (closed2 p = true <-> mid p = MidDone) /\
  (mid p = MidDone -> buf1 p = 0 /\ closed1 p = true) /\
  (snk p = SnkDone -> buf2 p = 0 /\ closed2 p = true).

Definition src_left (s : src_state) : nat := match s with SrcRun k => 5 * k + 1 | SrcDone => 0 end.
Definition mid_left (m : mid_state) : nat := match m with MidRecv => 1 | MidFwd => 4 | MidDrop => 4 | MidDone => 0 end.
Definition snk_left (s : snk_state) : nat := match s with SnkRun => 1 | SnkDone => 0 end.
(* number of steps still possible: every step strictly decreases it *)
Definition measure (p : pstate) : nat :=
  src_left (src p) + 4 * buf1 p + mid_left (mid p) + 2 * buf2 p + snk_left (snk p).
