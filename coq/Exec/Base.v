(* Strings (list byte) and list-as-set operations with a boolean equality.  Definitions only. *)
From Coq Require Import List Bool.
From Coq.Strings Require Import Byte.
Import ListNotations.

Definition str := list byte.

Fixpoint str_eqb (a b : str) : bool :=
  match a, b with
  | [], [] => true
  | x :: a', y :: b' => Byte.eqb x y && str_eqb a' b'
  | _, _ => false
  end.

Definition is_empty {A : Type} (l : list A) : bool := match l with [] => true | _ => false end.

Section SetOps.
  Context {A : Type} (eqb : A -> A -> bool).

  Fixpoint mem (x : A) (l : list A) : bool :=
    match l with [] => false | y :: r => eqb x y || mem x r end.

  (* Go: m[key] = v on a map keyed by identity: adding a present element changes nothing *)
  Definition set_add (l : list A) (x : A) : list A := if mem x l then l else l ++ [x].
  Definition set_add_all (xs l : list A) : list A := fold_left set_add xs l.
  (* Go: delete(m, key) for each listed element *)
  Definition set_remove_all (xs l : list A) : list A := filter (fun y => negb (mem y xs)) l.

  Definition subset (a b : list A) : bool := forallb (fun x => mem x b) a.
  Definition set_eqb (a b : list A) : bool := subset a b && subset b a.

  Fixpoint nodup_b (l : list A) : bool :=
    match l with [] => true | x :: r => negb (mem x r) && nodup_b r end.

  Fixpoint list_eqb (a b : list A) : bool :=
    match a, b with
    | [], [] => true
    | x :: a', y :: b' => eqb x y && list_eqb a' b'
    | _, _ => false
    end.
End SetOps.

Definition option_eqb {A : Type} (eqb : A -> A -> bool) (a b : option A) : bool :=
  match a, b with
  | None, None => true
  | Some x, Some y => eqb x y
  | _, _ => false
  end.
