(* Historical: the two executors as they were before repository commits 7876d7e (F12) and 72fbbb8 (F13), kept so
   that the refutations found on that tree stay replayable in Coq.  Nothing else depends on this file. *)
From Coq Require Import List Bool Arith NArith ZArith.
From Coq.Strings Require Import Byte.
From BWExec Require Import Base Values Store Driver Exec Fault.
Import ListNotations.

(* showPlan.Execute before F12: `if <-errs != nil { return nil, err }` returned the nil error of table.New *)
Definition x_show_before_F12 (sch : schedule) (d : dst) : result * dst :=
  let '(ns, ok, d1) := d_graph_names sch d in
  if ok then (RShow ns, d1) else (RNilNil, d1).

(* constructPlan.Execute before F13: results of update() not looked at; on a template error the pending triples
   were never written (and the writer goroutine never ended) *)
Definition x_construct_before_F13 (add : bool) (bulk : nat) (sch : schedule) (d : dst) (tmpl : list cclause)
           (outs ins : list str) (q : qinput) (draw : nat -> N) : result * dst :=
  let '(ok, d1) := x_init sch d (ins ++ outs) in
  if negb ok then (RErr EInit, d1) else
  let '(okr, d2) := x_reads sch d1 (q_reads q) in
  if negb okr then (RErr EDriver, d2) else
  if negb (q_ok q) then (RErr EQuery, d2) else
  let '(sent, okp) := produce (output_bindings tmpl) tmpl (q_rows q) draw 0 in
  let '(pending, okw, d3) := writer add bulk sch d2 outs sent [] true in
  if okp then
    let '(okf, d4) := if is_empty pending then (true, d3) else x_update add sch d3 pending outs in
    (ROk, d4)
  else (RErr ETemplate, d3).

Definition gA : str := [x3f;x61].
Definition gB : str := [x3f;x62].
Definition bS : str := [x3f;x73].
Definition bO : str := [x3f;x6f].
Definition nA : node := Node [x2f;x75] [x61].
Definition nB : node := Node [x2f;x75] [x62].
Definition pP : pred := mkPred [x70] None.
Definition pP2 : pred := mkPred [x70;x32] None.

Lemma show_before_F12_refuted :
  exists sch st, let rd := x_show_before_F12 sch (mkD st []) in
                 consumed_failure sch (d_log (snd rd)) /\ fst rd = RNilNil.
Proof.
  exists (single (KGraphNames, [], 0) FBefore), [(gA, [])]. split.
  - exists (KGraphNames, [], 0). split; [vm_compute; auto 12 | vm_compute; discriminate].
  - vm_compute. reflexivity.
Qed.

Definition witness_tmpl : list cclause := [mkCC None bS (mkPop (Some pP2) [] [] [] false None bO [] [] false) []].
Definition witness_q : qinput := mkQ [gA] true [[(bS, CNode nA); (bO, CNode nB)]].

Lemma construct_before_F13_refuted :
  exists sch st, let rd := x_construct_before_F13 true 1 sch (mkD st []) witness_tmpl [gB] [gA] witness_q (fun _ => 0%N) in
                 consumed_failure sch (d_log (snd rd)) /\ fst rd = ROk /\ get (d_store (snd rd)) gB = Some [].
Proof.
  exists (single (KAdd, gB, 0) FWrite), [(gA, [(nA, pP, ONode nB)]); (gB, [])]. split; [|split].
  - exists (KAdd, gB, 0). split; [vm_compute; auto 12 | vm_compute; discriminate].
  - vm_compute. reflexivity.
  - vm_compute. reflexivity.
Qed.
