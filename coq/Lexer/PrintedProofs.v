(* Printed forms are single tokens (C16): literal, binding, BQL blank node, node, predicate, predicate bound,
   each on a stated domain of ASCII spellings (the excluded spellings are the listed findings). *)
From Coq Require Import List ZArith NArith Bool Arith Lia.
From Coq.Strings Require Import Byte.
Import ListNotations.
From BWLexer Require Import Utf8 Unicode Lexer LexerProofs Utf8Proofs CaseProofs.
From BWLexer.Gen Require Import LexTablesGen.

Lemma more_consts : r_colon = 58%Z /\ r_lt = 60%Z /\ r_gt = 62%Z /\ r_comma = 44%Z /\ r_rightSquarePar = 93%Z.
Proof. repeat split; reflexivity. Qed.

Lemma case_variant_refl : forall w, case_variant w w.
Proof. induction w; constructor; auto. Qed.

Section Printed.
Variable U : uni.
Hypothesis HU : ascii_ok U.

(* after a token that ends the input: lexSpace, lexToken, EOF *)
Lemma run_S f s l : run U (S f) s l =
  match step U s l with
  | (toks, None, _) => (toks, true)
  | (toks, Some s', l') => let '(ts, fin) := run U f s' l' in (toks ++ ts, fin)
  end.
Proof. reflexivity. Qed.

Lemma run_at_end k p f : run U (S (S f)) SSpace (mkLx [] p p k) = ([(ItemEOF, p, p)], true).
Proof. reflexivity. Qed.

Lemma fuel_split rs n : n <= 4 -> rs <> [] -> exists f, fuel_for rs = n + S (S f).
Proof. intros Hn Hne. unfold fuel_for. destruct rs; [congruence|]. cbn [length]. exists (4 * S (length rs) + 4 - n - 2). lia. Qed.

(* ---------------------------------------------------------------- literal *)
Theorem printed_literal : forall body ty,
  plain_body body -> In ty literal_types ->
  let inp := x22 :: body ++ s_literalType ++ ty in
  lex_with U inp = ([(ItemLiteral, 0, length inp); (ItemEOF, length inp, length inp)], true).
Proof.
  intros body ty Hb Hty inp.
  assert (Hlt : lower_or_digit_word ty = true).
  { pose proof literal_types_lower_or_digit as K. rewrite forallb_forall in K. exact (K _ Hty). }
  pose proof (case_variant_refl ty) as Hv.
  destruct (lod_of_variant U HU ty ty Hlt Hv) as [L1 _].
  unfold lex_with, lex_runes. subst inp.
  replace (x22 :: body ++ s_literalType ++ ty) with (x22 :: body ++ s_literalType ++ ty ++ []) by (now rewrite app_nil_r).
  rewrite decode_literal_bytes by (eapply Forall_impl; [|exact L1]; cbn; intros a [H _]; lia).
  cbn [decode_all]. set (rs := literal_runes (decode_all body) ty []).
  destruct (fuel_split rs 3 ltac:(lia)) as [f Ef]; [subst rs; unfold literal_runes; congruence|].
  rewrite Ef. cbn [plus].
  destruct (literal_steps U HU (decode_all body) ty ty [] (init_lx rs) (plain_body_runes body Hb) Hty Hv I eq_refl) as (S1 & S2 & S3).
  rewrite run_S, S1, run_S, S2, run_S, S3. cbn [init_lx start pos]. rewrite run_at_end. cbn [app].
  rewrite (wsum_decode_all (length body)) by apply le_n.
  cbn [length plus]. rewrite !app_length. cbn [length]. rewrite Nat.add_0_r.
  rewrite Nat.add_assoc. reflexivity.
Qed.

(* ---------------------------------------------------------------- binding  ?name *)
Definition ident_byte (b : byte) : Prop :=
  (0 <= bz b < 128)%Z /\ (ascii_letter (bz b) || ascii_digit (bz b) || Z.eqb (bz b) 95)%bool = true.

Lemma scan_ident : forall name ps, Forall ident_byte name ->
  scan_while (ident_rune U) ps (ascii_runes name) = (ps + length name, []).
Proof.
  induction name as [|a name IH]; intros ps Hn; cbn [ascii_runes map scan_while length]; [now rewrite Nat.add_0_r|].
  inversion Hn as [|? ? [R L] Hn']; subst. destruct (HU (bz a) R) as (E1 & E2 & _).
  unfold ident_rune at 1. rewrite E1, E2, L. fold (ascii_runes name). rewrite IH by assumption. f_equal. lia.
Qed.

Theorem printed_binding : forall name, Forall ident_byte name ->
  let inp := x3f :: name in
  lex_with U inp = ([(ItemBinding, 0, length inp); (ItemEOF, length inp, length inp)], true).
Proof.
  intros name Hn inp. unfold lex_with, lex_runes. subst inp.
  replace (x3f :: name) with ((x3f :: name) ++ []) by apply app_nil_r.
  rewrite decode_all_ascii.
  2:{ constructor; [reflexivity|]. eapply Forall_impl; [|exact Hn]. cbn. intros a [H _]. lia. }
  cbn [decode_all app]. rewrite app_nil_r.
  destruct (fuel_split (ascii_runes (x3f :: name)) 2 ltac:(lia)) as [f Ef]; [cbn; congruence|]. rewrite Ef. cbn [plus].
  destruct rune_consts as (Q & B & Bi & Sl & Un).
  rewrite run_S. cbn [step init_lx ascii_runes map lex_token rest start pos last].
  destruct (HU 63%Z ltac:(lia)) as (_ & Ed & _). change (bz x3f) with 63%Z. rewrite Ed. replace (ascii_digit 63%Z) with false by reflexivity. cbn [andb].
  rewrite Bi. cbn [Z.eqb Pos.eqb].
  rewrite run_S. cbn [step]. unfold lex_binding. cbn [rest pos]. fold (ascii_runes name). rewrite scan_ident by assumption.
  unfold emit. cbn [start]. rewrite run_at_end. cbn [app length]. rewrite app_nil_r. reflexivity.
Qed.

(* ---------------------------------------------------------------- BQL blank node  _:label *)
Theorem printed_bql_blank_node : forall a name,
  (0 <= bz a < 128)%Z -> ascii_letter (bz a) = true -> Forall ident_byte name ->
  let inp := x5f :: x3a :: a :: name in
  lex_with U inp = ([(ItemBlankNode, 0, length inp); (ItemEOF, length inp, length inp)], true).
Proof.
  intros a name Ra La Hn inp. unfold lex_with, lex_runes. subst inp.
  replace (x5f :: x3a :: a :: name) with ((x5f :: x3a :: a :: name) ++ []) by apply app_nil_r.
  rewrite decode_all_ascii.
  2:{ constructor; [reflexivity|]. constructor; [reflexivity|]. constructor; [lia|].
      eapply Forall_impl; [|exact Hn]. cbn. intros b [H _]. lia. }
  cbn [decode_all app]. rewrite app_nil_r.
  destruct (fuel_split (ascii_runes (x5f :: x3a :: a :: name)) 2 ltac:(lia)) as [f Ef]; [cbn; congruence|]. rewrite Ef. cbn [plus].
  destruct rune_consts as (Q & B & Bi & Sl & Un). destruct more_consts as (Co & _).
  rewrite run_S. cbn [step init_lx ascii_runes map lex_token rest start pos last].
  destruct (HU 95%Z ltac:(lia)) as (_ & Ed & _). change (bz x5f) with 95%Z. rewrite Ed. replace (ascii_digit 95%Z) with false by reflexivity. cbn [andb].
  rewrite Bi, Sl, Un. cbn [Z.eqb Pos.eqb].
  rewrite run_S. cbn [step]. unfold lex_blank_node. cbn [rest pos]. change (bz x3a) with 58%Z. rewrite Co. cbn [Z.eqb Pos.eqb negb].
  destruct (HU (bz a) Ra) as (El & _). rewrite El, La. cbn [negb].
  fold (ascii_runes name). rewrite scan_ident by assumption.
  unfold emit. cbn [start]. rewrite run_at_end. cbn [app length]. rewrite app_nil_r.
  replace (0 + 1 + 1 + 1 + length name) with (S (S (S (length name)))) by lia. reflexivity.
Qed.

(* ---------------------------------------------------------------- binding / blank node on decoded runes, any alphabet *)
Lemma scan_ident_runes : forall name ps, Forall (fun p : rw => ident_rune U (fst p) = true) name ->
  scan_while (ident_rune U) ps name = (ps + wsum name, []).
Proof.
  induction name as [|[r w] name IH]; intros ps Hn; cbn [scan_while wsum]; [now rewrite Nat.add_0_r|].
  inversion Hn as [|? ? L Hn']; subst. cbn [fst] in L. rewrite L. rewrite IH by assumption. f_equal. lia.
Qed.

Theorem printed_binding_runes : forall name, Forall (fun p : rw => ident_rune U (fst p) = true) name ->
  lex_runes U ((63%Z, 1) :: name) =
  ([(ItemBinding, 0, 1 + wsum name); (ItemEOF, 1 + wsum name, 1 + wsum name)], true).
Proof.
  intros name Hn. unfold lex_runes.
  destruct (fuel_split ((63%Z, 1) :: name) 2 ltac:(lia)) as [f Ef]; [congruence|]. rewrite Ef. cbn [plus].
  destruct rune_consts as (Q & B & Bi & Sl & Un).
  rewrite run_S. cbn [step init_lx lex_token rest start pos last].
  destruct (HU 63%Z ltac:(lia)) as (_ & Ed & _). rewrite Ed. replace (ascii_digit 63%Z) with false by reflexivity. cbn [andb].
  rewrite Bi. cbn [Z.eqb Pos.eqb].
  rewrite run_S. cbn [step]. unfold lex_binding. cbn [rest pos]. rewrite scan_ident_runes by assumption.
  unfold emit. cbn [start]. rewrite run_at_end. reflexivity.
Qed.

Theorem printed_blank_node_runes : forall a wa name,
  is_letter U a = true -> Forall (fun p : rw => ident_rune U (fst p) = true) name ->
  lex_runes U ((95%Z, 1) :: (58%Z, 1) :: (a, wa) :: name) =
  ([(ItemBlankNode, 0, 2 + wa + wsum name); (ItemEOF, 2 + wa + wsum name, 2 + wa + wsum name)], true).
Proof.
  intros a wa name La Hn. unfold lex_runes.
  destruct (fuel_split ((95%Z, 1) :: (58%Z, 1) :: (a, wa) :: name) 2 ltac:(lia)) as [f Ef]; [congruence|]. rewrite Ef. cbn [plus].
  destruct rune_consts as (Q & B & Bi & Sl & Un). destruct more_consts as (Co & _).
  rewrite run_S. cbn [step init_lx lex_token rest start pos last].
  destruct (HU 95%Z ltac:(lia)) as (_ & Ed & _). rewrite Ed. replace (ascii_digit 95%Z) with false by reflexivity. cbn [andb].
  rewrite Bi, Sl, Un. cbn [Z.eqb Pos.eqb].
  rewrite run_S. cbn [step]. unfold lex_blank_node. cbn [rest pos]. rewrite Co. cbn [Z.eqb Pos.eqb negb].
  rewrite La. cbn [negb]. rewrite scan_ident_runes by assumption.
  unfold emit. cbn [start]. rewrite run_at_end. cbn [app].
  replace (0 + 1 + 1 + wa + wsum name) with (2 + wa + wsum name) by lia. reflexivity.
Qed.

(* ---------------------------------------------------------------- node  /type<id> *)
(* any bytes (valid UTF-8 or not) except '<' '>' and backslash *)
Definition node_byte (b : byte) : Prop := bz b <> 60%Z /\ bz b <> 62%Z /\ bz b <> 92%Z.
Definition node_rune (p : rw) : Prop := fst p <> 60%Z /\ fst p <> 62%Z /\ fst p <> 92%Z.

Lemma avoid3 (P : byte -> Prop) c1 c2 c3 x :
  (0 <= c1 < 128)%Z -> (0 <= c2 < 128)%Z -> (0 <= c3 < 128)%Z ->
  Forall (fun b => bz b <> c1 /\ bz b <> c2 /\ bz b <> c3) x ->
  Forall (fun p : rw => fst p <> c1 /\ fst p <> c2 /\ fst p <> c3) (decode_all x).
Proof.
  intros H1 H2 H3 H.
  assert (A : Forall (fun p : rw => fst p <> c1) (decode_all x))
    by (apply (decode_avoid c1 H1 (length x)); [apply le_n|eapply Forall_impl; [|exact H]; cbn; tauto]).
  assert (B : Forall (fun p : rw => fst p <> c2) (decode_all x))
    by (apply (decode_avoid c2 H2 (length x)); [apply le_n|eapply Forall_impl; [|exact H]; cbn; tauto]).
  assert (C : Forall (fun p : rw => fst p <> c3) (decode_all x))
    by (apply (decode_avoid c3 H3 (length x)); [apply le_n|eapply Forall_impl; [|exact H]; cbn; tauto]).
  induction (decode_all x) as [|p r IH]; [constructor|]. inversion A; inversion B; inversion C; subst. constructor; auto.
Qed.

Lemma node_bytes_runes x : Forall node_byte x -> Forall node_rune (decode_all x).
Proof. intro H. apply (avoid3 (fun _ => True) 60 62 92); try lia. exact H. Qed.

Lemma node_loop_plain l : forall x tl0 ltid ps, Forall node_rune x ->
  node_loop l ltid ps (x ++ tl0) = node_loop l ltid (ps + wsum x) tl0.
Proof.
  destruct rune_consts as (Q & B & _). destruct more_consts as (_ & Lt & Gt & _).
  induction x as [|[r w] x IH]; intros tl0 ltid ps Hx; cbn [app wsum]; [now rewrite Nat.add_0_r|].
  inversion Hx as [|? ? (N1 & N2 & N3) Hx']; subst. cbn [fst] in *. cbn [node_loop]. rewrite B, Lt, Gt.
  destruct (Z.eqb_spec r 92); [congruence|]. destruct (Z.eqb_spec r 60); [congruence|].
  destruct (Z.eqb_spec r 62); [congruence|].
  rewrite IH by assumption. f_equal. lia.
Qed.

(* decoding in front of / behind ASCII delimiters *)
Lemma decode_cons_ascii a s : (bz a < 128)%Z -> decode_all (a :: s) = (bz a, 1) :: decode_all s.
Proof. intro H. change (a :: s) with ([a] ++ s). rewrite decode_all_ascii by (repeat constructor; exact H). reflexivity. Qed.

Lemma decode_mid x a s : (bz a < 128)%Z -> decode_all (x ++ a :: s) = decode_all x ++ (bz a, 1) :: decode_all s.
Proof. intro H. rewrite (decode_all_split (length x) x (le_n _) a s H). now rewrite decode_cons_ascii. Qed.

Theorem printed_node : forall ty id, Forall node_byte ty -> Forall node_byte id ->
  let inp := x2f :: ty ++ x3c :: id ++ [x3e] in
  lex_with U inp = ([(ItemNode, 0, length inp); (ItemEOF, length inp, length inp)], true).
Proof.
  intros ty id Ht Hi inp. unfold lex_with, lex_runes.
  assert (Ed : decode_all inp = (47%Z, 1) :: decode_all ty ++ (60%Z, 1) :: decode_all id ++ [(62%Z, 1)]).
  { subst inp. rewrite decode_cons_ascii by reflexivity. f_equal.
    rewrite decode_mid by reflexivity. f_equal. f_equal. rewrite decode_mid by reflexivity. reflexivity. }
  rewrite Ed. set (rs := (47%Z, 1) :: decode_all ty ++ (60%Z, 1) :: decode_all id ++ [(62%Z, 1)]).
  destruct (fuel_split rs 2 ltac:(lia)) as [f Ef]; [subst rs; congruence|]. rewrite Ef. cbn [plus].
  destruct rune_consts as (Q & B & Bi & Sl & Un). destruct more_consts as (_ & Lt & Gt & _).
  subst rs. rewrite run_S. cbn [step init_lx lex_token rest start pos last].
  destruct (HU 47%Z ltac:(lia)) as (_ & Ed' & _). rewrite Ed'. replace (ascii_digit 47%Z) with false by reflexivity. cbn [andb].
  rewrite Bi, Sl. cbn [Z.eqb Pos.eqb].
  rewrite run_S. cbn [step]. unfold lex_node. cbn [rest pos node_loop]. rewrite B, Lt, Gt. cbn [Z.eqb Pos.eqb].
  rewrite node_loop_plain by (now apply node_bytes_runes).
  cbn [node_loop]. rewrite B, Lt. cbn [Z.eqb Pos.eqb].
  rewrite node_loop_plain by (now apply node_bytes_runes).
  cbn [node_loop]. rewrite B, Lt, Gt. cbn [Z.eqb Pos.eqb].
  unfold emit. cbn [start]. rewrite run_at_end. cbn [app].
  rewrite !(wsum_decode_all _ _ (le_n _)).
  subst inp. cbn [length]. rewrite !app_length. cbn [length]. rewrite !app_length. cbn [length].
  replace (0 + 1 + length ty + 1 + length id + 1) with (S (length ty + S (length id + 1))) by lia. reflexivity.
Qed.

(* ---------------------------------------------------------------- predicate  QUOTE id QUOTE @[anchor]  and bound *)
Lemma anchor_is : s_anchor = [x22; x40; x5b].
Proof. reflexivity. Qed.
Lemma marker_is : exists m', s_literalType = x22 :: x5e :: m'.
Proof. eexists. reflexivity. Qed.

(* id: any bytes except the double quote and the backslash *)
Definition pred_id_ok (id : list byte) : Prop := plain_body id.
(* time anchor text: any bytes except double quote, ']' and ',' *)
Definition anchor_byte (b : byte) : Prop := bz b <> 34%Z /\ bz b <> 93%Z /\ bz b <> 44%Z.
Definition anchor_rune (p : rw) : Prop := fst p <> 34%Z /\ fst p <> 93%Z /\ fst p <> 44%Z.
Definition noquote_rune (p : rw) : Prop := fst p <> 34%Z.

Lemma anchor_bytes_runes x : Forall anchor_byte x -> Forall anchor_rune (decode_all x).
Proof. intro H. apply (avoid3 (fun _ => True) 34 93 44); try lia. exact H. Qed.
Lemma anchor_noquote an : Forall anchor_rune an -> Forall noquote_rune an.
Proof. intro H. eapply Forall_impl; [|exact H]. unfold anchor_rune, noquote_rune. tauto. Qed.

Definition pred_runes (id an : list rw) : list rw :=
  (34%Z, 1) :: id ++ ascii_runes s_anchor ++ an ++ [(93%Z, 1)].

Lemma lex_token_quote l rs : rest l = (34%Z, 1) :: rs -> step U SToken l = ([], Some SPredOrLit, l).
Proof.
  intro E. destruct rune_consts as (Q & B & Bi & Sl & Un). cbn [step]. rewrite E. cbn [lex_token].
  destruct (HU 34%Z ltac:(lia)) as (_ & Ed & _). rewrite Ed. replace (ascii_digit 34%Z) with false by reflexivity. cbn [andb].
  rewrite Bi, Sl, Un, Q. cbn [Z.eqb Pos.eqb]. destruct l as [r0 st ps lk]. cbn in *. now subst.
Qed.

Lemma is_prefix_no_quote : forall pat A q, Forall (fun z => z <> 34%Z) A -> is_prefix (34%Z :: pat) (skipn q A) = false.
Proof.
  intros pat A. induction A as [|a A IH]; intros q H; [destruct q; reflexivity|].
  inversion H; subst. destruct q as [|q]; [|cbn [skipn]; now apply IH].
  cbn [skipn is_prefix]. destruct (Z.eqb_spec 34 a); [congruence|reflexivity].
Qed.

Lemma index_of_none : forall pat rs, (forall q, is_prefix pat (skipn q rs) = false) -> index_of pat rs = None.
Proof.
  intros pat. induction rs as [|r rs IH]; intros H; cbn [index_of].
  - pose proof (H 0) as H0. cbn [skipn] in H0. now rewrite H0.
  - pose proof (H 0) as H0. cbn [skipn] in H0. rewrite H0. rewrite IH; [reflexivity|]. intro q. exact (H (S q)).
Qed.

Lemma skipn_app_lt {A} : forall (x y : list A) q, q <= length x -> skipn q (x ++ y) = skipn q x ++ y.
Proof. induction x as [|a x IH]; intros y q H; destruct q; cbn in *; try reflexivity; try lia. apply IH. lia. Qed.

Lemma skipn_app_ge {A} : forall (x y : list A) q, length x <= q -> skipn q (x ++ y) = skipn (q - length x) y.
Proof. induction x as [|a x IH]; intros y q H; cbn [app length]; [now rewrite Nat.sub_0_r|]. destruct q; [cbn in H; lia|]. cbn. apply IH. cbn in H. lia. Qed.

Lemma pred_decision id an : plain_runes id -> Forall noquote_rune an ->
  let text := tl (map fst (pred_runes id an)) in
  index_of (zs s_literalType) text = None /\ exists p, index_of (zs s_anchor) text = Some p.
Proof.
  intros Hid Han text. destruct marker_is as (m' & Em).
  assert (Et : text = map fst id ++ 34%Z :: 64%Z :: 91%Z :: (map fst an ++ [93%Z])).
  { subst text. unfold pred_runes. rewrite anchor_is. cbn [map tl]. rewrite !map_app, !map_fst_ascii. reflexivity. }
  assert (NA : Forall (fun z => z <> 34%Z) (map fst id)).
  { apply Forall_map. eapply Forall_impl; [|exact Hid]. cbn. tauto. }
  assert (NB : Forall (fun z => z <> 34%Z) (64%Z :: 91%Z :: (map fst an ++ [93%Z]))).
  { constructor; [lia|]. constructor; [lia|]. apply Forall_app. split; [|repeat constructor; lia].
    apply Forall_map. exact Han. }
  (* a pattern starting with a quote can match inside text only at |id| *)
  assert (Only : forall pat q, is_prefix (34%Z :: pat) (skipn q text) = true -> q = length id).
  { intros pat q H. rewrite Et in H. unfold rw in *.
    destruct (Nat.lt_ge_cases q (length (map fst id))) as [L|L].
    - exfalso. rewrite skipn_app_lt in H by lia.
      destruct (skipn q (map fst id)) as [|z zs0] eqn:Es.
      + apply (f_equal (@length Z)) in Es. rewrite skipn_length in Es. cbn in Es. lia.
      + assert (Hz : z <> 34%Z).
        { assert (Hin : In z (skipn q (map fst id))) by (rewrite Es; now left).
          rewrite Forall_forall in NA. apply NA. rewrite <- (firstn_skipn q (map fst id)). apply in_or_app. now right. }
        cbn [app is_prefix] in H. destruct (Z.eqb_spec 34 z); [congruence|discriminate].
    - rewrite skipn_app_ge in H by lia. rewrite map_length in *.
      destruct (q - length id) as [|d] eqn:Ed; [unfold rw in *; lia|].
      exfalso. cbn [skipn] in H. rewrite (is_prefix_no_quote pat _ d NB) in H. discriminate. }
  split.
  - apply index_of_none. intro q. rewrite Em. cbn [zs map]. change (bz x22) with 34%Z.
    destruct (is_prefix (34%Z :: bz x5e :: map bz m') (skipn q text)) eqn:E; [|reflexivity]. exfalso.
    rewrite (Only _ _ E) in E. rewrite Et in E.
    rewrite skipn_app_ge in E by (rewrite map_length; unfold rw; lia). rewrite map_length in E. unfold rw in E. rewrite Nat.sub_diag in E. cbn in E. discriminate.
  - assert (M : is_prefix (zs s_anchor) (skipn (length id) text) = true).
    { rewrite Et, anchor_is. rewrite skipn_app_ge by (rewrite map_length; unfold rw; lia). rewrite map_length. unfold rw. rewrite Nat.sub_diag. reflexivity. }
    destruct (index_of_complete _ _ _ M) as (p & Ep & Hp).
    { rewrite Et. rewrite app_length, map_length. cbn. unfold rw. lia. }
    exists p. exact Ep.
Qed.

Lemma pred_loop_body l : forall body tl0 ps, plain_runes body ->
  pred_loop U l ps (body ++ tl0) = pred_loop U l (ps + wsum body) tl0.
Proof.
  destruct rune_consts as (Q & B & _).
  induction body as [|[r w] body IH]; intros tl0 ps Hb; cbn [app wsum]; [now rewrite Nat.add_0_r|].
  inversion Hb as [|? ? (NQ & NB) Hb']; subst. cbn [fst] in *. cbn [pred_loop]. rewrite Q, B.
  destruct (Z.eqb_spec r 92); [congruence|]. destruct (Z.eqb_spec r 34); [congruence|].
  rewrite IH by assumption. f_equal. lia.
Qed.

Lemma pred_loop_quote l mk tl0 ps : hd_error mk = Some x22 ->
  pred_loop U l ps (ascii_runes mk ++ tl0) =
  (let '(b, p1, rs1) := consume U (zs s_anchor) ps (ascii_runes mk ++ tl0) in
   if b then bounds_loop l 0 p1 rs1 else emit_error l p1 rs1).
Proof.
  destruct rune_consts as (Q & B & _). destruct mk as [|a mk]; [discriminate|]. intros [= ->].
  cbn [ascii_runes map app pred_loop]. change (bz x22) with 34%Z. rewrite B, Q. reflexivity.
Qed.

Lemma bounds_plain l : forall an tl0 c ps, Forall anchor_rune an ->
  bounds_loop l c ps (an ++ tl0) = bounds_loop l c (ps + wsum an) tl0.
Proof.
  destruct more_consts as (_ & _ & _ & Cm & Rs).
  induction an as [|[r w] an IH]; intros tl0 c ps Ha; cbn [app wsum]; [now rewrite Nat.add_0_r|].
  inversion Ha as [|? ? (N1 & N2 & N3) Ha']; subst. cbn [fst] in *. cbn [bounds_loop]. rewrite Cm, Rs.
  destruct (Z.eqb_spec r 44); [congruence|]. destruct (Z.eqb_spec r 93); [congruence|].
  rewrite IH by assumption. f_equal. lia.
Qed.

Lemma pred_first_steps id an l : plain_runes id -> Forall noquote_rune an -> rest l = pred_runes id an ->
  step U SToken l = ([], Some SPredOrLit, l) /\ step U SPredOrLit l = ([], Some SPredicate, l) /\
  step U SPredicate l = bounds_loop l 0 (pos l + S (wsum id) + length s_anchor) (an ++ [(93%Z, 1)]).
Proof.
  intros Hid Han Hrest. split; [|split].
  - apply (lex_token_quote l (id ++ ascii_runes s_anchor ++ an ++ [(93%Z, 1)])). exact Hrest.
  - cbn [step]. unfold lex_pred_or_lit. rewrite Hrest. destruct (pred_decision id an Hid Han) as (E1 & p & E2).
    cbn zeta in E1, E2. rewrite E1, E2. reflexivity.
  - cbn [step]. unfold lex_predicate. rewrite Hrest. unfold pred_runes.
    rewrite pred_loop_body by exact Hid.
    rewrite pred_loop_quote by reflexivity. rewrite consume_self. f_equal. lia.
Qed.

Lemma decode_pred id an : decode_all (x22 :: id ++ s_anchor ++ an ++ [x5d]) =
  pred_runes (decode_all id) (decode_all an).
Proof.
  unfold pred_runes. rewrite decode_cons_ascii by reflexivity. change (bz x22) with 34%Z. f_equal.
  rewrite anchor_is. cbn [app]. rewrite decode_mid by reflexivity. f_equal.
  cbn [ascii_runes map app]. f_equal. rewrite !decode_cons_ascii by reflexivity. f_equal. f_equal.
  rewrite decode_mid by reflexivity. reflexivity.
Qed.

Theorem printed_predicate : forall id an, pred_id_ok id -> Forall anchor_byte an ->
  let inp := x22 :: id ++ s_anchor ++ an ++ [x5d] in
  lex_with U inp = ([(ItemPredicate, 0, length inp); (ItemEOF, length inp, length inp)], true).
Proof.
  intros id an Hid Han inp. unfold lex_with, lex_runes. subst inp. rewrite decode_pred.
  set (rs := pred_runes (decode_all id) (decode_all an)).
  destruct (fuel_split rs 3 ltac:(lia)) as [f Ef]; [subst rs; unfold pred_runes; congruence|]. rewrite Ef. cbn [plus].
  pose proof (anchor_bytes_runes an Han) as Har.
  destruct (pred_first_steps (decode_all id) (decode_all an) (init_lx rs) (plain_body_runes id Hid) (anchor_noquote _ Har) eq_refl)
    as (S1 & S2 & S3).
  rewrite run_S, S1, run_S, S2, run_S, S3. rewrite bounds_plain by assumption.
  destruct more_consts as (_ & _ & _ & Cm & Rs). cbn [bounds_loop]. rewrite Cm, Rs. cbn [Z.eqb Pos.eqb Nat.ltb Nat.leb Nat.eqb].
  unfold emit. cbn [init_lx start pos]. rewrite run_at_end. cbn [app].
  rewrite !(wsum_decode_all _ _ (le_n _)).
  cbn [length]. rewrite ?app_length. cbn [length]. repeat f_equal; lia.
Qed.

Theorem printed_bound : forall id a1 a2, pred_id_ok id -> Forall anchor_byte a1 -> Forall anchor_byte a2 ->
  let inp := x22 :: id ++ s_anchor ++ (a1 ++ x2c :: a2) ++ [x5d] in
  lex_with U inp = ([(ItemPredicateBound, 0, length inp); (ItemEOF, length inp, length inp)], true).
Proof.
  intros id a1 a2 Hid H1 H2 inp. unfold lex_with, lex_runes. subst inp. rewrite decode_pred.
  assert (Ea : decode_all (a1 ++ x2c :: a2) = decode_all a1 ++ (44%Z, 1) :: decode_all a2) by (now rewrite decode_mid).
  rewrite Ea. set (an := decode_all a1 ++ (44%Z, 1) :: decode_all a2).
  pose proof (anchor_bytes_runes a1 H1) as R1. pose proof (anchor_bytes_runes a2 H2) as R2.
  assert (Han : Forall noquote_rune an).
  { subst an. apply Forall_app. split; [now apply anchor_noquote|]. constructor; [unfold noquote_rune; cbn; lia|now apply anchor_noquote]. }
  set (rs := pred_runes (decode_all id) an).
  destruct (fuel_split rs 3 ltac:(lia)) as [f Ef]; [subst rs; unfold pred_runes; congruence|]. rewrite Ef. cbn [plus].
  destruct (pred_first_steps (decode_all id) an (init_lx rs) (plain_body_runes id Hid) Han eq_refl) as (S1 & S2 & S3).
  rewrite run_S, S1, run_S, S2, run_S, S3.
  destruct more_consts as (_ & _ & _ & Cm & Rs).
  subst an. rewrite <- app_assoc. rewrite bounds_plain by assumption.
  cbn [app bounds_loop]. rewrite Cm, Rs. cbn [Z.eqb Pos.eqb].
  rewrite bounds_plain by assumption. cbn [bounds_loop]. rewrite Cm, Rs. cbn [Z.eqb Pos.eqb Nat.ltb Nat.leb Nat.eqb].
  unfold emit. cbn [init_lx start pos]. rewrite run_at_end. cbn [app].
  rewrite !(wsum_decode_all _ _ (le_n _)).
  cbn [length]. rewrite ?app_length. cbn [length]. rewrite ?app_length. cbn [length]. repeat f_equal; lia.
Qed.

End Printed.
