(* Printed forms are single tokens (C16): literal, binding, BQL blank node, node, predicate, predicate bound,
   each on a stated domain of ASCII spellings (the excluded spellings are the listed findings). *)
From Coq Require Import List ZArith NArith Bool Arith Lia.
From Coq.Strings Require Import Byte.
Import ListNotations.
From BWLexer Require Import Utf8 Unicode Lexer LexerProofs CaseProofs.
From BWLexer.Gen Require Import LexTablesGen.

Lemma more_consts : r_colon = 58%Z /\ r_lt = 60%Z /\ r_gt = 62%Z /\ r_comma = 44%Z /\ r_rightSquarePar = 93%Z.
Proof. repeat split; reflexivity. Qed.

Lemma case_variant_refl : forall w, case_variant w w.
Proof. induction w; constructor; auto. Qed.

Section Printed.
Variable U : uni.
Hypothesis HU : ascii_ok U.

(* after a token that ends the input: lexSpace, lexToken, EOF *)
Lemma run_S f s l : run U (S f) s l =
  match step U s l with
  | (toks, None, _) => (toks, true)
  | (toks, Some s', l') => let '(ts, fin) := run U f s' l' in (toks ++ ts, fin)
  end.
Proof. reflexivity. Qed.

Lemma run_at_end k p f : run U (S (S f)) SSpace (mkLx [] p p k) = ([(ItemEOF, p, p)], true).
Proof. reflexivity. Qed.

Lemma fuel_split rs n : n <= 4 -> rs <> [] -> exists f, fuel_for rs = n + S (S f).
Proof. intros Hn Hne. unfold fuel_for. destruct rs; [congruence|]. cbn [length]. exists (4 * S (length rs) + 4 - n - 2). lia. Qed.

(* ---------------------------------------------------------------- literal *)
Theorem printed_literal : forall body ty,
  plain_body body -> In ty literal_types ->
  let inp := x22 :: body ++ s_literalType ++ ty in
  lex_with U inp = ([(ItemLiteral, 0, length inp); (ItemEOF, length inp, length inp)], true).
Proof.
  intros body ty Hb Hty inp.
  assert (Hlt : lower_or_digit_word ty = true).
  { pose proof literal_types_lower_or_digit as K. rewrite forallb_forall in K. exact (K _ Hty). }
  pose proof (case_variant_refl ty) as Hv.
  destruct (lod_of_variant U HU ty ty Hlt Hv) as [L1 _].
  unfold lex_with, lex_runes.
  replace inp with ((x22 :: body ++ s_literalType ++ ty) ++ []) by apply app_nil_r.
  rewrite decode_all_ascii.
  2:{ constructor; [reflexivity|]. apply Forall_app. split.
      - eapply Forall_impl; [|exact Hb]. cbn. tauto.
      - apply Forall_app. split; [repeat constructor|]. eapply Forall_impl; [|exact L1]. cbn. intros a [H _]. lia. }
  assert (Er : ascii_runes (x22 :: body ++ s_literalType ++ ty) ++ decode_all [] = literal_runes body ty []).
  { unfold literal_runes. change (x22 :: body ++ s_literalType ++ ty) with ((x22 :: body) ++ s_literalType ++ ty).
    rewrite !ascii_runes_app, <- !app_assoc. reflexivity. }
  rewrite Er. set (rs := literal_runes body ty []).
  destruct (fuel_split rs 3 ltac:(lia)) as [f Ef]; [subst rs; unfold literal_runes; cbn; congruence|].
  rewrite Ef. cbn [plus].
  destruct (literal_steps U HU body ty ty [] (init_lx rs) Hb Hty Hv I eq_refl) as (S1 & S2 & S3).
  rewrite run_S, S1, run_S, S2, run_S, S3. cbn [init_lx start pos]. rewrite run_at_end. cbn [app].
  rewrite ?app_nil_r. cbn [length plus]. rewrite !app_length.
  rewrite Nat.add_assoc. reflexivity.
Qed.

(* ---------------------------------------------------------------- binding  ?name *)
Definition ident_byte (b : byte) : Prop :=
  (0 <= bz b < 128)%Z /\ (ascii_letter (bz b) || ascii_digit (bz b) || Z.eqb (bz b) 95)%bool = true.

Lemma scan_ident : forall name ps, Forall ident_byte name ->
  scan_while (ident_rune U) ps (ascii_runes name) = (ps + length name, []).
Proof.
  induction name as [|a name IH]; intros ps Hn; cbn [ascii_runes map scan_while length]; [now rewrite Nat.add_0_r|].
  inversion Hn as [|? ? [R L] Hn']; subst. destruct (HU (bz a) R) as (E1 & E2 & _).
  unfold ident_rune at 1. rewrite E1, E2, L. fold (ascii_runes name). rewrite IH by assumption. f_equal. lia.
Qed.

Theorem printed_binding : forall name, Forall ident_byte name ->
  let inp := x3f :: name in
  lex_with U inp = ([(ItemBinding, 0, length inp); (ItemEOF, length inp, length inp)], true).
Proof.
  intros name Hn inp. unfold lex_with, lex_runes. subst inp.
  replace (x3f :: name) with ((x3f :: name) ++ []) by apply app_nil_r.
  rewrite decode_all_ascii.
  2:{ constructor; [reflexivity|]. eapply Forall_impl; [|exact Hn]. cbn. intros a [H _]. lia. }
  cbn [decode_all app]. rewrite app_nil_r.
  destruct (fuel_split (ascii_runes (x3f :: name)) 2 ltac:(lia)) as [f Ef]; [cbn; congruence|]. rewrite Ef. cbn [plus].
  destruct rune_consts as (Q & B & Bi & Sl & Un).
  rewrite run_S. cbn [step init_lx ascii_runes map lex_token rest start pos last].
  destruct (HU 63%Z ltac:(lia)) as (_ & Ed & _). change (bz x3f) with 63%Z. rewrite Ed. replace (ascii_digit 63%Z) with false by reflexivity. cbn [andb].
  rewrite Bi. cbn [Z.eqb Pos.eqb].
  rewrite run_S. cbn [step]. unfold lex_binding. cbn [rest pos]. fold (ascii_runes name). rewrite scan_ident by assumption.
  unfold emit. cbn [start]. rewrite run_at_end. cbn [app length]. rewrite app_nil_r. reflexivity.
Qed.

(* ---------------------------------------------------------------- BQL blank node  _:label *)
Theorem printed_bql_blank_node : forall a name,
  (0 <= bz a < 128)%Z -> ascii_letter (bz a) = true -> Forall ident_byte name ->
  let inp := x5f :: x3a :: a :: name in
  lex_with U inp = ([(ItemBlankNode, 0, length inp); (ItemEOF, length inp, length inp)], true).
Proof.
  intros a name Ra La Hn inp. unfold lex_with, lex_runes. subst inp.
  replace (x5f :: x3a :: a :: name) with ((x5f :: x3a :: a :: name) ++ []) by apply app_nil_r.
  rewrite decode_all_ascii.
  2:{ constructor; [reflexivity|]. constructor; [reflexivity|]. constructor; [lia|].
      eapply Forall_impl; [|exact Hn]. cbn. intros b [H _]. lia. }
  cbn [decode_all app]. rewrite app_nil_r.
  destruct (fuel_split (ascii_runes (x5f :: x3a :: a :: name)) 2 ltac:(lia)) as [f Ef]; [cbn; congruence|]. rewrite Ef. cbn [plus].
  destruct rune_consts as (Q & B & Bi & Sl & Un). destruct more_consts as (Co & _).
  rewrite run_S. cbn [step init_lx ascii_runes map lex_token rest start pos last].
  destruct (HU 95%Z ltac:(lia)) as (_ & Ed & _). change (bz x5f) with 95%Z. rewrite Ed. replace (ascii_digit 95%Z) with false by reflexivity. cbn [andb].
  rewrite Bi, Sl, Un. cbn [Z.eqb Pos.eqb].
  rewrite run_S. cbn [step]. unfold lex_blank_node. cbn [rest pos]. change (bz x3a) with 58%Z. rewrite Co. cbn [Z.eqb Pos.eqb negb].
  destruct (HU (bz a) Ra) as (El & _). rewrite El, La. cbn [negb].
  fold (ascii_runes name). rewrite scan_ident by assumption.
  unfold emit. cbn [start]. rewrite run_at_end. cbn [app length]. rewrite app_nil_r.
  replace (0 + 1 + 1 + 1 + length name) with (S (S (S (length name)))) by lia. reflexivity.
Qed.

(* ---------------------------------------------------------------- node  /type<id> *)
(* ASCII without '<' '>' and backslash *)
Definition node_byte (b : byte) : Prop := (bz b < 128)%Z /\ bz b <> 60%Z /\ bz b <> 62%Z /\ bz b <> 92%Z.

Lemma node_loop_plain l : forall x tl ltid ps, Forall node_byte x ->
  node_loop l ltid ps (ascii_runes x ++ tl) = node_loop l ltid (ps + length x) tl.
Proof.
  destruct rune_consts as (Q & B & _). destruct more_consts as (_ & Lt & Gt & _).
  induction x as [|a x IH]; intros tl ltid ps Hx; cbn [ascii_runes map app length]; [now rewrite Nat.add_0_r|].
  inversion Hx as [|? ? (R & N1 & N2 & N3) Hx']; subst. cbn [node_loop]. rewrite B, Lt, Gt.
  destruct (Z.eqb_spec (bz a) 92); [congruence|]. destruct (Z.eqb_spec (bz a) 60); [congruence|].
  destruct (Z.eqb_spec (bz a) 62); [congruence|].
  fold (ascii_runes x). rewrite IH by assumption. f_equal. lia.
Qed.

Theorem printed_node : forall ty id, Forall node_byte ty -> Forall node_byte id ->
  let inp := x2f :: ty ++ x3c :: id ++ [x3e] in
  lex_with U inp = ([(ItemNode, 0, length inp); (ItemEOF, length inp, length inp)], true).
Proof.
  intros ty id Ht Hi inp. unfold lex_with, lex_runes. subst inp.
  set (w := x2f :: ty ++ x3c :: id ++ [x3e]).
  replace w with (w ++ []) by apply app_nil_r.
  rewrite decode_all_ascii.
  2:{ subst w. constructor; [reflexivity|]. apply Forall_app. split; [eapply Forall_impl; [|exact Ht]; intros a0 [H0 _]; exact H0|].
      constructor; [reflexivity|]. apply Forall_app. split; [eapply Forall_impl; [|exact Hi]; intros a0 [H0 _]; exact H0|repeat constructor]. }
  cbn [decode_all app]. rewrite app_nil_r.
  destruct (fuel_split (ascii_runes w) 2 ltac:(lia)) as [f Ef]; [subst w; cbn; congruence|]. rewrite Ef. cbn [plus].
  destruct rune_consts as (Q & B & Bi & Sl & Un). destruct more_consts as (_ & Lt & Gt & _).
  subst w. rewrite run_S. cbn [step init_lx ascii_runes map lex_token rest start pos last].
  destruct (HU 47%Z ltac:(lia)) as (_ & Ed & _). change (bz x2f) with 47%Z. rewrite Ed. replace (ascii_digit 47%Z) with false by reflexivity. cbn [andb].
  rewrite Bi, Sl. cbn [Z.eqb Pos.eqb].
  rewrite run_S. cbn [step]. unfold lex_node. cbn [rest pos node_loop]. rewrite B, Lt, Gt. cbn [Z.eqb Pos.eqb].
  rewrite map_app. fold (ascii_runes ty). rewrite node_loop_plain by assumption.
  cbn [map node_loop]. change (bz x3c) with 60%Z. rewrite B, Lt. cbn [Z.eqb Pos.eqb].
  rewrite map_app. fold (ascii_runes id). rewrite node_loop_plain by assumption.
  cbn [map node_loop]. change (bz x3e) with 62%Z. rewrite B, Lt, Gt. cbn [Z.eqb Pos.eqb].
  unfold emit. cbn [start]. rewrite run_at_end. cbn [app length]. rewrite !app_length. cbn [length].
  rewrite !app_length. cbn [length]. repeat f_equal; lia.
Qed.

(* ---------------------------------------------------------------- predicate  QUOTE id QUOTE @[anchor]  and bound *)
Lemma anchor_is : s_anchor = [x22; x40; x5b].
Proof. reflexivity. Qed.
Lemma marker_is : exists m', s_literalType = x22 :: x5e :: m'.
Proof. eexists. reflexivity. Qed.

(* id: ASCII, no double quote, no backslash *)
Definition pred_id_ok (id : list byte) : Prop := plain_body id.
(* time anchor text: ASCII without double quote, ']' and ',' *)
Definition anchor_byte (b : byte) : Prop := (bz b < 128)%Z /\ bz b <> 34%Z /\ bz b <> 93%Z /\ bz b <> 44%Z.

Definition noquote_byte (b : byte) : Prop := (bz b < 128)%Z /\ bz b <> 34%Z.
Lemma anchor_noquote an : Forall anchor_byte an -> Forall noquote_byte an.
Proof. intro H. eapply Forall_impl; [|exact H]. unfold anchor_byte, noquote_byte. tauto. Qed.

Definition pred_runes (id an : list byte) : list rw :=
  ascii_runes (x22 :: id) ++ ascii_runes s_anchor ++ ascii_runes an ++ [(93%Z, 1)].

Lemma lex_token_quote l rs : rest l = (34%Z, 1) :: rs -> step U SToken l = ([], Some SPredOrLit, l).
Proof.
  intro E. destruct rune_consts as (Q & B & Bi & Sl & Un). cbn [step]. rewrite E. cbn [lex_token].
  destruct (HU 34%Z ltac:(lia)) as (_ & Ed & _). rewrite Ed. replace (ascii_digit 34%Z) with false by reflexivity. cbn [andb].
  rewrite Bi, Sl, Un, Q. cbn [Z.eqb Pos.eqb]. destruct l as [r0 st ps lk]. cbn in *. now subst.
Qed.

Lemma is_prefix_no_quote : forall pat A q, Forall (fun z => z <> 34%Z) A -> is_prefix (34%Z :: pat) (skipn q A) = false.
Proof.
  intros pat A. induction A as [|a A IH]; intros q H; [destruct q; reflexivity|].
  inversion H; subst. destruct q as [|q]; [|cbn [skipn]; now apply IH].
  cbn [skipn is_prefix]. destruct (Z.eqb_spec 34 a); [congruence|reflexivity].
Qed.

Lemma index_of_none : forall pat rs, (forall q, is_prefix pat (skipn q rs) = false) -> index_of pat rs = None.
Proof.
  intros pat. induction rs as [|r rs IH]; intros H; cbn [index_of].
  - pose proof (H 0) as H0. cbn [skipn] in H0. now rewrite H0.
  - pose proof (H 0) as H0. cbn [skipn] in H0. rewrite H0. rewrite IH; [reflexivity|]. intro q. exact (H (S q)).
Qed.

Lemma skipn_app_lt {A} : forall (x y : list A) q, q <= length x -> skipn q (x ++ y) = skipn q x ++ y.
Proof. induction x as [|a x IH]; intros y q H; destruct q; cbn in *; try reflexivity; try lia. apply IH. lia. Qed.

Lemma skipn_app_ge {A} : forall (x y : list A) q, length x <= q -> skipn q (x ++ y) = skipn (q - length x) y.
Proof. induction x as [|a x IH]; intros y q H; cbn [app length]; [now rewrite Nat.sub_0_r|]. destruct q; [cbn in H; lia|]. cbn. apply IH. cbn in H. lia. Qed.

Lemma pred_decision id an : pred_id_ok id -> Forall noquote_byte an ->
  let text := tl (map fst (pred_runes id an)) in
  index_of (zs s_literalType) text = None /\ exists p, index_of (zs s_anchor) text = Some p.
Proof.
  intros Hid Han text. destruct marker_is as (m' & Em).
  assert (Et : text = map bz id ++ 34%Z :: 64%Z :: 91%Z :: (map bz an ++ [93%Z])).
  { subst text. unfold pred_runes. rewrite anchor_is. rewrite !map_app, !map_fst_ascii. reflexivity. }
  assert (NA : Forall (fun z => z <> 34%Z) (map bz id)).
  { apply Forall_map. eapply Forall_impl; [|exact Hid]. cbn. tauto. }
  assert (NB : Forall (fun z => z <> 34%Z) (64%Z :: 91%Z :: (map bz an ++ [93%Z]))).
  { constructor; [lia|]. constructor; [lia|]. apply Forall_app. split; [|repeat constructor; lia].
    apply Forall_map. eapply Forall_impl; [|exact Han]. unfold noquote_byte. cbn. tauto. }
  (* a pattern starting with a quote can match inside text only at |id| *)
  assert (Only : forall pat q, is_prefix (34%Z :: pat) (skipn q text) = true -> q = length id).
  { intros pat q H. rewrite Et in H.
    destruct (Nat.lt_ge_cases q (length (map bz id))) as [L|L].
    - exfalso. rewrite skipn_app_lt in H by lia.
      destruct (skipn q (map bz id)) as [|z zs0] eqn:Es.
      + apply (f_equal (@length Z)) in Es. rewrite skipn_length in Es. cbn in Es. lia.
      + assert (Hz : z <> 34%Z).
        { assert (Hin : In z (skipn q (map bz id))) by (rewrite Es; now left).
          rewrite Forall_forall in NA. apply NA. rewrite <- (firstn_skipn q (map bz id)). apply in_or_app. now right. }
        cbn [app is_prefix] in H. destruct (Z.eqb_spec 34 z); [congruence|discriminate].
    - rewrite skipn_app_ge in H by lia. rewrite map_length in *.
      destruct (q - length id) as [|d] eqn:Ed; [lia|].
      exfalso. cbn [skipn] in H. rewrite (is_prefix_no_quote pat _ d NB) in H. discriminate. }
  split.
  - apply index_of_none. intro q. rewrite Em. cbn [zs map]. change (bz x22) with 34%Z.
    destruct (is_prefix (34%Z :: bz x5e :: map bz m') (skipn q text)) eqn:E; [|reflexivity]. exfalso.
    rewrite (Only _ _ E) in E. rewrite Et in E.
    rewrite skipn_app_ge in E by (rewrite map_length; lia). rewrite map_length, Nat.sub_diag in E. cbn in E. discriminate.
  - assert (M : is_prefix (zs s_anchor) (skipn (length id) text) = true).
    { rewrite Et, anchor_is. rewrite skipn_app_ge by (rewrite map_length; lia). rewrite map_length, Nat.sub_diag. reflexivity. }
    destruct (index_of_complete _ _ _ M) as (p & Ep & Hp).
    { rewrite Et. rewrite app_length, map_length. cbn. lia. }
    exists p. exact Ep.
Qed.

Lemma pred_loop_body l : forall body tl0 ps, plain_body body ->
  pred_loop U l ps (ascii_runes body ++ tl0) = pred_loop U l (ps + length body) tl0.
Proof.
  destruct rune_consts as (Q & B & _).
  induction body as [|a body IH]; intros tl0 ps Hb; cbn [ascii_runes map app length]; [now rewrite Nat.add_0_r|].
  inversion Hb as [|? ? (R & NQ & NB) Hb']; subst. cbn [pred_loop]. rewrite Q, B.
  destruct (Z.eqb_spec (bz a) 92); [congruence|]. destruct (Z.eqb_spec (bz a) 34); [congruence|].
  fold (ascii_runes body). rewrite IH by assumption. f_equal. lia.
Qed.

Lemma pred_loop_quote l mk tl0 ps : hd_error mk = Some x22 ->
  pred_loop U l ps (ascii_runes mk ++ tl0) =
  (let '(b, p1, rs1) := consume U (zs s_anchor) ps (ascii_runes mk ++ tl0) in
   if b then bounds_loop l 0 p1 rs1 else emit_error l p1 rs1).
Proof.
  destruct rune_consts as (Q & B & _). destruct mk as [|a mk]; [discriminate|]. intros [= ->].
  cbn [ascii_runes map app pred_loop]. change (bz x22) with 34%Z. rewrite B, Q. reflexivity.
Qed.

Lemma bounds_plain l : forall an tl0 c ps, Forall anchor_byte an ->
  bounds_loop l c ps (ascii_runes an ++ tl0) = bounds_loop l c (ps + length an) tl0.
Proof.
  destruct more_consts as (_ & _ & _ & Cm & Rs).
  induction an as [|a an IH]; intros tl0 c ps Ha; cbn [ascii_runes map app length]; [now rewrite Nat.add_0_r|].
  inversion Ha as [|? ? (R & N1 & N2 & N3) Ha']; subst. cbn [bounds_loop]. rewrite Cm, Rs.
  destruct (Z.eqb_spec (bz a) 44); [congruence|]. destruct (Z.eqb_spec (bz a) 93); [congruence|].
  fold (ascii_runes an). rewrite IH by assumption. f_equal. lia.
Qed.

Lemma pred_first_steps id an l : pred_id_ok id -> Forall noquote_byte an -> rest l = pred_runes id an ->
  step U SToken l = ([], Some SPredOrLit, l) /\ step U SPredOrLit l = ([], Some SPredicate, l) /\
  step U SPredicate l = bounds_loop l 0 (pos l + S (length id) + length s_anchor) (ascii_runes an ++ [(93%Z, 1)]).
Proof.
  intros Hid Han Hrest. split; [|split].
  - apply (lex_token_quote l (ascii_runes id ++ ascii_runes s_anchor ++ ascii_runes an ++ [(93%Z, 1)])). exact Hrest.
  - cbn [step]. unfold lex_pred_or_lit. rewrite Hrest. destruct (pred_decision id an Hid Han) as (E1 & p & E2).
    cbn zeta in E1, E2. rewrite E1, E2. reflexivity.
  - cbn [step]. unfold lex_predicate. rewrite Hrest. unfold pred_runes. cbn [ascii_runes map app].
    fold (ascii_runes id). rewrite pred_loop_body by exact Hid.
    rewrite pred_loop_quote by reflexivity. rewrite consume_self. f_equal. lia.
Qed.

Lemma pred_decode w : Forall (fun b => (bz b < 128)%Z) w -> decode_all w = ascii_runes w.
Proof. intro H. rewrite <- (app_nil_r w) at 1. rewrite decode_all_ascii by assumption. cbn. apply app_nil_r. Qed.

Theorem printed_predicate : forall id an, pred_id_ok id -> Forall anchor_byte an ->
  let inp := x22 :: id ++ s_anchor ++ an ++ [x5d] in
  lex_with U inp = ([(ItemPredicate, 0, length inp); (ItemEOF, length inp, length inp)], true).
Proof.
  intros id an Hid Han inp. unfold lex_with, lex_runes. rewrite pred_decode.
  2:{ subst inp. constructor; [reflexivity|]. apply Forall_app. split.
      - eapply Forall_impl; [|exact Hid]. cbn. tauto.
      - apply Forall_app. split; [repeat constructor|]. apply Forall_app. split; [|repeat constructor].
        eapply Forall_impl; [|exact Han]. intros a0 [H0 _]. exact H0. }
  assert (Er : ascii_runes inp = pred_runes id an).
  { subst inp. unfold pred_runes. change (x22 :: id ++ s_anchor ++ an ++ [x5d]) with ((x22 :: id) ++ s_anchor ++ an ++ [x5d]).
    rewrite !ascii_runes_app. reflexivity. }
  rewrite Er. set (rs := pred_runes id an).
  destruct (fuel_split rs 3 ltac:(lia)) as [f Ef]; [subst rs; unfold pred_runes; cbn; congruence|]. rewrite Ef. cbn [plus].
  destruct (pred_first_steps id an (init_lx rs) Hid (anchor_noquote an Han) eq_refl) as (S1 & S2 & S3).
  rewrite run_S, S1, run_S, S2, run_S, S3. rewrite bounds_plain by assumption.
  destruct more_consts as (_ & _ & _ & Cm & Rs). cbn [bounds_loop]. rewrite Cm, Rs. cbn [Z.eqb Pos.eqb Nat.ltb Nat.leb Nat.eqb].
  unfold emit. cbn [init_lx start pos]. rewrite run_at_end. cbn [app].
  subst inp. cbn [length]. rewrite !app_length. cbn [length]. repeat f_equal; lia.
Qed.

Theorem printed_bound : forall id a1 a2, pred_id_ok id -> Forall anchor_byte a1 -> Forall anchor_byte a2 ->
  let inp := x22 :: id ++ s_anchor ++ (a1 ++ x2c :: a2) ++ [x5d] in
  lex_with U inp = ([(ItemPredicateBound, 0, length inp); (ItemEOF, length inp, length inp)], true).
Proof.
  intros id a1 a2 Hid H1 H2 inp. unfold lex_with, lex_runes.
  assert (Han : Forall noquote_byte (a1 ++ x2c :: a2)).
  { apply Forall_app. split; [now apply anchor_noquote|]. constructor; [split; [reflexivity|discriminate]|now apply anchor_noquote]. }
  rewrite pred_decode.
  2:{ subst inp. constructor; [reflexivity|]. apply Forall_app. split.
      - eapply Forall_impl; [|exact Hid]. cbn. tauto.
      - apply Forall_app. split; [repeat constructor|]. apply Forall_app. split; [|repeat constructor].
        eapply Forall_impl; [|exact Han]. intros a0 [H0 _]. exact H0. }
  assert (Er : ascii_runes inp = pred_runes id (a1 ++ x2c :: a2)).
  { subst inp. unfold pred_runes.
    change (x22 :: id ++ s_anchor ++ (a1 ++ x2c :: a2) ++ [x5d]) with ((x22 :: id) ++ s_anchor ++ (a1 ++ x2c :: a2) ++ [x5d]).
    rewrite !ascii_runes_app. reflexivity. }
  rewrite Er. set (rs := pred_runes id (a1 ++ x2c :: a2)).
  destruct (fuel_split rs 3 ltac:(lia)) as [f Ef]; [subst rs; unfold pred_runes; cbn; congruence|]. rewrite Ef. cbn [plus].
  destruct (pred_first_steps id (a1 ++ x2c :: a2) (init_lx rs) Hid Han eq_refl) as (S1 & S2 & S3).
  rewrite run_S, S1, run_S, S2, run_S, S3.
  destruct more_consts as (_ & _ & _ & Cm & Rs).
  rewrite ascii_runes_app, <- app_assoc. rewrite bounds_plain by assumption.
  cbn [ascii_runes map app bounds_loop]. change (bz x2c) with 44%Z. rewrite Cm, Rs. cbn [Z.eqb Pos.eqb].
  fold (ascii_runes a2). rewrite bounds_plain by assumption. cbn [bounds_loop]. rewrite Cm, Rs. cbn [Z.eqb Pos.eqb Nat.ltb Nat.leb Nat.eqb].
  unfold emit. cbn [init_lx start pos]. rewrite run_at_end. cbn [app].
  subst inp. cbn [length]. rewrite ?app_length. cbn [length]. rewrite ?app_length. cbn [length]. repeat f_equal; lia.
Qed.

End Printed.
