(* The behaviour of Go's unicode package that the lexer depends on.
   The lexer model is parametrised by a record [uni]; the structural theorems hold for EVERY such record.
   [go_uni] is the concrete instance used for the correspondence runs: ASCII and Latin-1 are computed exactly as
   Go's tables say; beyond U+00FF only the code points listed in [extra_table] are classified (everything else is
   treated as "no letter, no digit, no space, ToLower = identity"), so agreement with the implementation is
   claimed only for inputs whose runes satisfy [in_uni_domain]. *)
From Coq Require Import List ZArith Bool.
Import ListNotations.
Local Open Scope Z_scope.

Record uni := mkUni {
  is_letter : Z -> bool;
  is_digit : Z -> bool;
  is_space : Z -> bool;
  to_lower : Z -> Z
}.

Definition between (lo hi z : Z) : bool := (lo <=? z) && (z <=? hi).

Definition ascii_letter (r : Z) : bool := between 65 90 r || between 97 122 r.
Definition ascii_digit (r : Z) : bool := between 48 57 r.
Definition ascii_space (r : Z) : bool := between 9 13 r || (r =? 32).
Definition ascii_lower (r : Z) : Z := if between 65 90 r then r + 32 else r.

(* Latin-1 (U+0080..U+00FF), from unicode/tables.go: L = AA B5 BA C0-D6 D8-F6 F8-FF; White_Space = 85 A0; Nd = none;
   lower case: C0-D6 and D8-DE map +32 *)
Definition latin1_letter (r : Z) : bool :=
  (r =? 170) || (r =? 181) || (r =? 186) || between 192 214 r || between 216 246 r || between 248 255 r.
Definition latin1_space (r : Z) : bool := (r =? 133) || (r =? 160).
Definition latin1_lower (r : Z) : Z := if between 192 214 r || between 216 222 r then r + 32 else r.

(* code point, letter, digit, space, lower *)
Definition extra_table : list (Z * (bool * bool * bool * Z)) := [
  (304,    (true,  false, false, 105));     (* U+0130 LATIN CAPITAL LETTER I WITH DOT ABOVE, ToLower = 'i' *)
  (305,    (true,  false, false, 305));     (* U+0131 dotless i *)
  (383,    (true,  false, false, 383));     (* U+017F long s (EqualFold-equal to 's') *)
  (8490,   (true,  false, false, 107));     (* U+212A KELVIN SIGN, ToLower = 'k' *)
  (913,    (true,  false, false, 945));     (* U+0391 Alpha *)
  (945,    (true,  false, false, 945));     (* U+03B1 alpha *)
  (19990,  (true,  false, false, 19990));   (* U+4E16 CJK *)
  (1633,   (false, true,  false, 1633));    (* U+0661 ARABIC-INDIC DIGIT ONE (Nd) *)
  (8544,   (false, false, false, 8560));    (* U+2160 ROMAN NUMERAL ONE (Nl: neither letter nor digit), ToLower = U+2170 *)
  (8195,   (false, false, true,  8195));    (* U+2003 EM SPACE *)
  (8232,   (false, false, true,  8232));    (* U+2028 LINE SEPARATOR *)
  (12288,  (false, false, true,  12288));   (* U+3000 IDEOGRAPHIC SPACE *)
  (65533,  (false, false, false, 65533));   (* U+FFFD replacement character / RuneError *)
  (128512, (false, false, false, 128512))   (* U+1F600 *)
].

Fixpoint lookup_extra (r : Z) (t : list (Z * (bool * bool * bool * Z))) : option (bool * bool * bool * Z) :=
  match t with
  | [] => None
  | (c, v) :: t' => if r =? c then Some v else lookup_extra r t'
  end.

Definition go_is_letter (r : Z) : bool :=
  if r <? 128 then ascii_letter r else if r <? 256 then latin1_letter r
  else match lookup_extra r extra_table with Some (l, _, _, _) => l | None => false end.
Definition go_is_digit (r : Z) : bool :=
  if r <? 128 then ascii_digit r else if r <? 256 then false
  else match lookup_extra r extra_table with Some (_, d, _, _) => d | None => false end.
Definition go_is_space (r : Z) : bool :=
  if r <? 128 then ascii_space r else if r <? 256 then latin1_space r
  else match lookup_extra r extra_table with Some (_, _, s, _) => s | None => false end.
Definition go_to_lower (r : Z) : Z :=
  if r <? 128 then ascii_lower r else if r <? 256 then latin1_lower r
  else match lookup_extra r extra_table with Some (_, _, _, lo) => lo | None => r end.

Definition go_uni : uni := mkUni go_is_letter go_is_digit go_is_space go_to_lower.

(* runes on which go_uni is claimed to agree with Go's unicode package *)
Definition in_uni_domain (r : Z) : bool :=
  (r <? 256) || match lookup_extra r extra_table with Some _ => true | None => false end.

(* what the case-insensitivity theorems need of a unicode record: it agrees with ASCII on ASCII *)
Definition ascii_ok (U : uni) : Prop :=
  forall r, 0 <= r < 128 ->
    is_letter U r = ascii_letter r /\ is_digit U r = ascii_digit r /\ is_space U r = ascii_space r /\
    to_lower U r = ascii_lower r.

(* strings.EqualFold on one rune pair where [k] comes from an ASCII keyword: equal, or ASCII case pair, or the
   non-ASCII member of k's SimpleFold orbit (only K/k -> U+212A and S/s -> U+017F have one) *)
Definition fold_extra (k : Z) : option Z :=
  if (k =? 107) || (k =? 75) then Some 8490
  else if (k =? 115) || (k =? 83) then Some 383
  else None.

Definition fold_eq_rune (k c : Z) : bool :=
  if c =? k then true
  else
    let sr := Z.min k c in
    let tr := Z.max k c in
    if tr <? 128 then between 65 90 sr && (tr =? sr + 32)
    else if k <? 128 then match fold_extra k with Some x => c =? x | None => false end
    else false.
