(* Case insensitivity of keywords and literal type names (C16), for every entry of the GENERATED tables and every
   ASCII case variant, for every unicode record that agrees with ASCII on ASCII ([ascii_ok]). *)
From Coq Require Import List ZArith NArith Bool Arith Lia.
From Coq.Strings Require Import Byte.
Import ListNotations.
From BWLexer Require Import Utf8 Unicode Lexer LexerProofs Utf8Proofs.
From BWLexer.Gen Require Import LexTablesGen.

(* ---------------------------------------------------------------- small tools *)
Fixpoint lb_eqb (a b : list byte) : bool :=
  match a, b with
  | [], [] => true
  | x :: a', y :: b' => Byte.eqb x y && lb_eqb a' b'
  | _, _ => false
  end.

Lemma lb_eqb_eq : forall a b, lb_eqb a b = true -> a = b.
Proof.
  induction a as [|x a IH]; intros [|y b] H; cbn in H; try discriminate; [reflexivity|].
  apply andb_prop in H. destruct H as [H1 H2]. apply Byte.byte_dec_bl in H1. apply IH in H2. congruence.
Qed.

Lemma lb_eqb_refl : forall a, lb_eqb a a = true.
Proof. induction a as [|x a IH]; cbn; [reflexivity|]. rewrite IH, (Byte.byte_dec_lb eq_refl). reflexivity. Qed.

Fixpoint nodup_b (l : list (list byte)) : bool :=
  match l with
  | [] => true
  | x :: r => negb (existsb (lb_eqb x) r) && nodup_b r
  end.

Lemma nodup_b_ok : forall l, nodup_b l = true -> NoDup l.
Proof.
  induction l as [|x r IH]; intro H; cbn in H; [constructor|].
  apply andb_prop in H. destruct H as [H1 H2]. constructor; [|auto].
  intro Hin. apply negb_true_iff in H1. assert (existsb (lb_eqb x) r = true); [|congruence].
  apply existsb_exists. exists x. split; [exact Hin|apply lb_eqb_refl].
Qed.

Lemma bz_inj a b : bz a = bz b -> a = b.
Proof. unfold bz. intro H. apply N2Z.inj in H. apply (f_equal Byte.of_N) in H. rewrite !Byte.of_to_N in H. congruence. Qed.

Lemma bz_range b : (0 <= bz b < 256)%Z.
Proof. unfold bz. pose proof (Byte.to_N_bounded b). lia. Qed.

(* ---------------------------------------------------------------- case variants *)
Local Open Scope Z_scope.

Definition is_lower_z (z : Z) : bool := between 97 122 z.
Definition is_lower_or_digit_z (z : Z) : bool := between 97 122 z || between 48 57 z.

(* v spells kw with some of its lower-case ASCII letters replaced by the corresponding capital *)
Definition case_variant (v kw : list byte) : Prop :=
  Forall2 (fun a b => a = b \/ (is_lower_z (bz b) = true /\ bz a = bz b - 32)) v kw.

Definition ascii_runes (v : list byte) : list rw := map (fun b => (bz b, 1%nat)) v.

Lemma first_info_ascii z : z < 128 -> first_info z = LAscii.
Proof. intro H. unfold first_info. destruct (Z.ltb_spec z 128); [reflexivity|lia]. Qed.

Lemma decode_all_ascii : forall v s, Forall (fun b => bz b < 128) v ->
  decode_all (v ++ s) = ascii_runes v ++ decode_all s.
Proof.
  induction v as [|a v IH]; intros s H; [reflexivity|]. inversion H; subst.
  cbn [app decode_all]. rewrite first_info_ascii by assumption. cbn [ascii_runes map app]. f_equal. now apply IH.
Qed.

Ltac zb :=
  repeat match goal with
         | H : context [Z.eqb ?a ?b] |- _ => destruct (Z.eqb_spec a b)
         | H : context [Z.ltb ?a ?b] |- _ => destruct (Z.ltb_spec a b)
         | H : context [Z.leb ?a ?b] |- _ => destruct (Z.leb_spec a b)
         | |- context [Z.eqb ?a ?b] => destruct (Z.eqb_spec a b)
         | |- context [Z.ltb ?a ?b] => destruct (Z.ltb_spec a b)
         | |- context [Z.leb ?a ?b] => destruct (Z.leb_spec a b)
         end; cbn [andb orb negb] in *; try congruence; try lia.

Lemma fold_eq_variant k c : is_lower_or_digit_z k = true -> (c = k \/ (is_lower_z k = true /\ c = k - 32)) ->
  fold_eq_rune k c = true.
Proof.
  unfold is_lower_or_digit_z, is_lower_z, fold_eq_rune, between. intros Hk [H|[Hl H]]; subst.
  - now rewrite Z.eqb_refl.
  - destruct (Z.eqb_spec (k - 32) k); [lia|].
    rewrite Z.min_r, Z.max_l by lia. zb.
Qed.

(* for an ASCII letter or digit c and a lower-case/digit k: EqualFold-equal means ToLower c = k *)
Lemma fold_eq_lower k c : is_lower_or_digit_z k = true -> 0 <= c < 128 ->
  fold_eq_rune k c = true -> ascii_lower c = k.
Proof.
  unfold is_lower_or_digit_z, fold_eq_rune, ascii_lower, between. intros Hk Hc H.
  destruct (Z.eqb_spec c k).
  - subst. zb.
  - destruct (Z.max_spec k c) as [[? E]|[? E]]; destruct (Z.min_spec k c) as [[? E']|[? E']]; rewrite E, E' in H; zb.
Qed.

Definition lower_or_digit_word (kw : list byte) : bool := forallb (fun b => is_lower_or_digit_z (bz b)) kw.

Lemma variant_lower a b : is_lower_or_digit_z (bz b) = true ->
  (a = b \/ (is_lower_z (bz b) = true /\ bz a = bz b - 32)) -> ascii_lower (bz a) = bz b /\ 0 <= bz a < 128.
Proof.
  unfold is_lower_or_digit_z, is_lower_z, ascii_lower, between. intros Hb [H|[Hl H]]; subst; [|rewrite H]; zb.
Qed.

Lemma equal_fold_variant : forall v kw, lower_or_digit_word kw = true -> case_variant v kw ->
  equal_fold (map bz v) (zs kw) = true.
Proof.
  intros v kw Hl Hv. induction Hv as [|a b v kw Hab Hv IH]; [reflexivity|].
  cbn in Hl. apply andb_prop in Hl. destruct Hl as [Hb Hl]. cbn [map zs equal_fold].
  fold (zs kw). rewrite IH by assumption. rewrite fold_eq_variant; [reflexivity|assumption|].
  destruct Hab as [->|[H1 H2]]; [now left|right; auto].
Qed.

(* if a case variant of kw is EqualFold-equal to another lower-case word kw', then kw' = kw *)
Lemma equal_fold_same : forall v kw kw', lower_or_digit_word kw = true -> lower_or_digit_word kw' = true ->
  case_variant v kw -> equal_fold (map bz v) (zs kw') = true -> kw' = kw.
Proof.
  intros v kw kw' Hl Hl' Hv. revert kw' Hl'. induction Hv as [|a b v kw Hab Hv IH]; intros kw' Hl' He.
  - destruct kw'; [reflexivity|discriminate].
  - destruct kw' as [|b' kw']; [discriminate|]. cbn in Hl, Hl', He.
    apply andb_prop in Hl. destruct Hl as [Hb Hl]. apply andb_prop in Hl'. destruct Hl' as [Hb' Hl'].
    apply andb_prop in He. destruct He as [He1 He2].
    destruct (variant_lower a b Hb Hab) as [E R].
    apply (fold_eq_lower _ _ Hb' R) in He1. f_equal.
    + apply bz_inj. congruence.
    + apply IH; assumption.
Qed.

Lemma find_keyword_variant : forall tbl kw k v,
  NoDup (map fst tbl) -> forallb (fun p => lower_or_digit_word (fst p)) tbl = true ->
  In (kw, k) tbl -> case_variant v kw -> find_keyword (map bz v) tbl = Some k.
Proof.
  induction tbl as [|[kw0 k0] t IH]; intros kw k v Hnd Hl Hin Hv; [destruct Hin|].
  cbn in Hnd, Hl. inversion Hnd as [|? ? Hnotin Hnd']; subst. apply andb_prop in Hl. destruct Hl as [Hl0 Hl].
  cbn [find_keyword]. destruct (equal_fold (map bz v) (zs kw0)) eqn:E.
  - assert (Hk : lower_or_digit_word kw = true).
    { rewrite forallb_forall in Hl. destruct Hin as [Hin|Hin]; [inversion Hin; subst; assumption|exact (Hl _ Hin)]. }
    pose proof (equal_fold_same v kw kw0 Hk Hl0 Hv E) as ->.
    destruct Hin as [Hin|Hin]; [congruence|]. exfalso. apply Hnotin. apply in_map_iff. exists (kw, k). auto.
  - destruct Hin as [Hin|Hin].
    + inversion Hin; subst. rewrite equal_fold_variant in E; [discriminate|assumption|assumption].
    + eapply IH; eauto.
Qed.

Local Close Scope Z_scope.

(* ---------------------------------------------------------------- facts about the generated tables *)
Lemma keywords_nodup : NoDup (map fst keywords).
Proof. apply nodup_b_ok. vm_compute. reflexivity. Qed.
Lemma keywords_lower : forallb (fun p => forallb (fun b => is_lower_z (bz b)) (fst p)) keywords = true.
Proof. vm_compute. reflexivity. Qed.
Lemma keywords_lower_or_digit : forallb (fun p => lower_or_digit_word (fst p)) keywords = true.
Proof. vm_compute. reflexivity. Qed.
Lemma literal_types_lower_or_digit : forallb lower_or_digit_word literal_types = true.
Proof. vm_compute. reflexivity. Qed.
Lemma literal_types_nonempty : forallb (fun t => match t with [] => false | _ => true end) literal_types = true.
Proof. vm_compute. reflexivity. Qed.
(* the initial lastTokenType (ItemError) does not switch letters to lexFilterFunction *)
Lemma init_not_filter : mem_N ItemError last_filter_function = false.
Proof. vm_compute. reflexivity. Qed.
(* the special runes of lexToken are no ASCII letters *)
Lemma special_not_letters :
  forallb (fun r => negb (ascii_letter r)) [r_binding; r_slash; r_underscore; r_quote] = true.
Proof. vm_compute. reflexivity. Qed.

(* ---------------------------------------------------------------- keywords *)
Section Case.
Variable U : uni.
Hypothesis HU : ascii_ok U.

(* what may follow: nothing, or a rune that is not a letter *)
Definition letter_boundary (rr : list rw) : Prop :=
  match rr with [] => True | (r, _) :: _ => is_letter U r = false end.

Lemma letters_of_variant : forall v kw, forallb (fun b => is_lower_z (bz b)) kw = true -> case_variant v kw ->
  Forall (fun b => (0 <= bz b < 128)%Z /\ ascii_letter (bz b) = true) v.
Proof.
  intros v kw Hl Hv. induction Hv as [|a b v kw Hab Hv IH]; [constructor|].
  cbn in Hl. apply andb_prop in Hl. destruct Hl as [Hb Hl]. constructor; [|auto].
  unfold is_lower_z, ascii_letter, between in *. destruct Hab as [->|[_ H]]; [|rewrite H]; zb.
Qed.

Lemma take_while_letters : forall v rr,
  Forall (fun b => (0 <= bz b < 128)%Z /\ ascii_letter (bz b) = true) v -> letter_boundary rr ->
  take_while (is_letter U) (ascii_runes v ++ rr) = map bz v.
Proof.
  induction v as [|a v IH]; intros rr Hv Hb; cbn [ascii_runes map app take_while].
  - destruct rr as [|[r w] rr]; [reflexivity|]. cbn in *. now rewrite Hb.
  - inversion Hv as [|? ? [R L] Hv']; subst. destruct (HU (bz a) R) as (E & _). rewrite E, L. f_equal. now apply IH.
Qed.

Lemma scan_while_letters : forall v rr ps,
  Forall (fun b => (0 <= bz b < 128)%Z /\ ascii_letter (bz b) = true) v -> letter_boundary rr ->
  scan_while (is_letter U) ps (ascii_runes v ++ rr) = (ps + length v, rr).
Proof.
  induction v as [|a v IH]; intros rr ps Hv Hb; cbn [ascii_runes map app scan_while length].
  - rewrite Nat.add_0_r. destruct rr as [|[r w] rr]; [reflexivity|]. cbn in *. now rewrite Hb.
  - inversion Hv as [|? ? [R L] Hv']; subst. destruct (HU (bz a) R) as (E & _). rewrite E, L.
    fold (ascii_runes v). rewrite IH by assumption. f_equal. lia.
Qed.

(* lexToken on an ASCII letter goes to lexKeyword (unless the last token was FILTER) without moving *)
Lemma lex_token_letter c w rs lastk st ps :
  (0 <= c < 128)%Z -> ascii_letter c = true -> mem_N lastk last_filter_function = false ->
  lex_token U lastk st ps ((c, w) :: rs) = ([], Some SKeyword, mkLx ((c, w) :: rs) st ps lastk).
Proof.
  intros R L F. cbn [lex_token]. destruct (HU c R) as (El & Ed & _). rewrite Ed, El, L, F.
  assert (Hd : ascii_digit c = false).
  { unfold ascii_letter, ascii_digit, between in *. zb. }
  rewrite Hd. cbn [andb].
  pose proof special_not_letters as S. cbn [forallb] in S.
  repeat (apply andb_prop in S; let S1 := fresh "S" in destruct S as [S1 S]).
  repeat match goal with
         | H : negb (ascii_letter ?x) = true |- context [Z.eqb c ?x] =>
           destruct (Z.eqb_spec c x); [subst c; rewrite L in H; discriminate H|]; clear H
         end.
  reflexivity.
Qed.

Theorem keyword_steps : forall kw k v rr l,
  In (kw, k) keywords -> case_variant v kw -> letter_boundary rr ->
  rest l = ascii_runes v ++ rr -> mem_N (last l) last_filter_function = false ->
  step U SToken l = ([], Some SKeyword, l) /\
  step U SKeyword l = ([(k, start l, pos l + length v)], Some SSpace,
                       mkLx rr (pos l + length v) (pos l + length v) k).
Proof.
  intros kw k v rr l Hin Hv Hb Hrest Hlast.
  assert (Hlow : forallb (fun b => is_lower_z (bz b)) kw = true).
  { pose proof keywords_lower as K. rewrite forallb_forall in K. exact (K _ Hin). }
  pose proof (letters_of_variant v kw Hlow Hv) as HL.
  assert (Hne : v <> []).
  { pose proof keywords_nonempty as K. rewrite forallb_forall in K. specialize (K _ Hin). cbn in K.
    intro; subst v. inversion Hv; subst. discriminate. }
  split.
  - cbn [step]. rewrite Hrest. destruct v as [|a v]; [congruence|]. cbn [ascii_runes map app].
    inversion HL as [|? ? [R L] HL']; subst. rewrite (lex_token_letter _ _ _ _ _ _ R L Hlast).
    destruct l as [rs st ps lk]. cbn in *. now rewrite Hrest.
  - cbn [step]. unfold lex_keyword. rewrite Hrest, (take_while_letters v rr HL Hb).
    rewrite (find_keyword_variant keywords kw k v keywords_nodup keywords_lower_or_digit Hin Hv).
    rewrite (scan_while_letters v rr (pos l) HL Hb). reflexivity.
Qed.

(* first token of a run that starts in lexToken on such a state *)
Lemma run_keyword : forall kw k v rr l f,
  In (kw, k) keywords -> case_variant v kw -> letter_boundary rr ->
  rest l = ascii_runes v ++ rr -> mem_N (last l) last_filter_function = false ->
  exists more fin, run U (S (S f)) SToken l = ((k, start l, pos l + length v) :: more, fin).
Proof.
  intros kw k v rr l f Hin Hv Hb Hrest Hlast.
  destruct (keyword_steps kw k v rr l Hin Hv Hb Hrest Hlast) as [S1 S2].
  cbn [run]. rewrite S1, S2.
  destruct (run U f SSpace _) as [ts fin]. exists ts, fin. reflexivity.
Qed.

(* ---------------------------------------------------------------- literals: QUOTE bodyQUOTE ^^type:T *)
Lemma rune_consts : r_quote = 34%Z /\ r_backSlash = 92%Z /\ r_binding = 63%Z /\ r_slash = 47%Z /\ r_underscore = 95%Z.
Proof. repeat split; reflexivity. Qed.

Lemma marker_shape : exists m, s_literalType = x22 :: m /\ Forall (fun b => (bz b < 128)%Z /\ bz b <> 34%Z) m.
Proof. eexists. split; [reflexivity|]. repeat constructor; vm_compute; congruence. Qed.

Lemma shapes : exists c am m0 m', s_anchor = x22 :: c :: am /\ s_literalType = x22 :: m0 :: m' /\ bz c <> bz m0.
Proof. eexists _, _, _, _. split; [reflexivity|]. split; [reflexivity|]. vm_compute. congruence. Qed.

(* body of a quoted lexeme as the theorems below accept it: any runes except the double quote and the backslash *)
Definition plain_runes (body : list rw) : Prop := Forall (fun p => fst p <> 34%Z /\ fst p <> 92%Z) body.
(* ... and as bytes: anything (valid UTF-8 or not) except the bytes 0x22 and 0x5C *)
Definition plain_body (body : list byte) : Prop := Forall (fun b => bz b <> 34%Z /\ bz b <> 92%Z) body.

Lemma plain_body_runes body : plain_body body -> plain_runes (decode_all body).
Proof.
  intro H. unfold plain_runes.
  pose proof (decode_avoid 34%Z ltac:(lia) (length body) body (le_n _)) as A.
  pose proof (decode_avoid 92%Z ltac:(lia) (length body) body (le_n _)) as B.
  assert (A' : Forall (fun p : rw => fst p <> 34%Z) (decode_all body)) by (apply A; eapply Forall_impl; [|exact H]; cbn; tauto).
  assert (B' : Forall (fun p : rw => fst p <> 92%Z) (decode_all body)) by (apply B; eapply Forall_impl; [|exact H]; cbn; tauto).
  clear A B. induction (decode_all body) as [|p r IH]; [constructor|]. inversion A'; inversion B'; subst. constructor; auto.
Qed.

Definition type_boundary (rr : list rw) : Prop :=
  match rr with [] => True | (r, _) :: _ => letter_or_digit U r = false end.

Lemma is_prefix_sound : forall pat rs, is_prefix pat rs = true -> exists tl, rs = pat ++ tl.
Proof.
  induction pat as [|p pat IH]; intros rs H; [exists rs; reflexivity|].
  destruct rs as [|r rs]; [discriminate|]. cbn in H. apply andb_prop in H. destruct H as [H1 H2].
  apply Z.eqb_eq in H1. subst. destruct (IH _ H2) as [tl ->]. exists tl. reflexivity.
Qed.

Lemma is_prefix_app : forall pat tl, is_prefix pat (pat ++ tl) = true.
Proof. induction pat as [|p pat IH]; intro tl; cbn; [reflexivity|]. now rewrite Z.eqb_refl, IH. Qed.

Lemma index_of_sound : forall pat rs n, index_of pat rs = Some n -> is_prefix pat (skipn n rs) = true.
Proof.
  intros pat. induction rs as [|r rs IH]; intros n H.
  - cbn in H. destruct (is_prefix pat []) eqn:E; [|discriminate]. inversion H; subst. exact E.
  - cbn [index_of] in H. destruct (is_prefix pat (r :: rs)) eqn:E.
    + inversion H; subst. exact E.
    + destruct (index_of pat rs) as [m|] eqn:E2; [|discriminate]. inversion H; subst. cbn [skipn]. now apply IH.
Qed.

Lemma index_of_complete : forall pat rs n, is_prefix pat (skipn n rs) = true -> n <= length rs ->
  exists m, index_of pat rs = Some m /\ m <= n.
Proof.
  intros pat. induction rs as [|r rs IH]; intros n H Hn.
  - cbn in Hn. assert (n = 0) by lia. subst. cbn in H. exists 0. cbn [index_of]. rewrite H. auto.
  - cbn [index_of]. destruct (is_prefix pat (r :: rs)) eqn:E; [exists 0; split; [reflexivity|lia]|].
    destruct n as [|n]; [cbn in H; congruence|]. cbn [skipn length] in *.
    destruct (IH n H ltac:(lia)) as (m & Em & Hm). rewrite Em. exists (S m). split; [reflexivity|lia].
Qed.

Lemma lit_loop_body l : forall body tl ps, plain_runes body ->
  lit_loop U l ps (body ++ tl) = lit_loop U l (ps + wsum body) tl.
Proof.
  destruct rune_consts as (Q & B & _).
  induction body as [|[r w] body IH]; intros tl ps Hb; cbn [app wsum]; [now rewrite Nat.add_0_r|].
  inversion Hb as [|? ? (NQ & NB) Hb']; subst. cbn [fst] in *. cbn [lit_loop]. rewrite Q, B.
  destruct (Z.eqb_spec r 92); [congruence|]. destruct (Z.eqb_spec r 34); [congruence|].
  rewrite IH by assumption. f_equal. lia.
Qed.

Lemma consume_self : forall m tl ps, consume U (zs m) ps (ascii_runes m ++ tl) = (true, ps + length m, tl).
Proof.
  induction m as [|a m IH]; intros tl ps; cbn [zs map consume ascii_runes app length]; [now rewrite Nat.add_0_r|].
  rewrite Z.eqb_refl. fold (zs m) (ascii_runes m). rewrite IH. replace (ps + 1 + length m) with (ps + S (length m)) by lia. reflexivity.
Qed.

Lemma lit_loop_quote l mk tl0 ps : hd_error mk = Some x22 ->
  lit_loop U l ps (ascii_runes mk ++ tl0) =
  (let '(b, p1, rs1) := consume U (zs s_literalType) ps (ascii_runes mk ++ tl0) in
   if b then literal_tail U l p1 rs1 else emit_error l p1 rs1).
Proof.
  destruct rune_consts as (Q & B & _). destruct mk as [|a mk]; [discriminate|]. intros [= ->].
  cbn [ascii_runes map app lit_loop]. change (bz x22) with 34%Z. rewrite B, Q. reflexivity.
Qed.

Lemma list_zeqb_refl : forall a, list_zeqb a a = true.
Proof. induction a as [|x a IH]; cbn; [reflexivity|]. now rewrite Z.eqb_refl, IH. Qed.

Lemma mem_zs_in : forall tys ty, In ty tys -> mem_zs (zs ty) tys = true.
Proof.
  induction tys as [|t tys IH]; intros ty Hin; [destruct Hin|]. cbn [mem_zs]. destruct Hin as [->|Hin].
  - now rewrite list_zeqb_refl.
  - rewrite (IH _ Hin). apply orb_true_r.
Qed.

Lemma lod_of_variant : forall v ty, lower_or_digit_word ty = true -> case_variant v ty ->
  Forall (fun b => (0 <= bz b < 128)%Z /\ (ascii_letter (bz b) || ascii_digit (bz b)) = true) v /\
  map (to_lower U) (map bz v) = zs ty.
Proof.
  intros v ty Hl Hv. induction Hv as [|a b v ty Hab Hv IH]; [split; [constructor|reflexivity]|].
  cbn in Hl. apply andb_prop in Hl. destruct Hl as [Hb Hl]. destruct (IH Hl) as [IH1 IH2].
  destruct (variant_lower a b Hb Hab) as [E R]. split.
  - constructor; [|assumption]. split; [assumption|].
    unfold is_lower_or_digit_z, is_lower_z, ascii_letter, ascii_digit, ascii_lower, between in *.
    destruct Hab as [->|[_ H]]; [|rewrite H]; zb.
  - cbn [map zs]. destruct (HU (bz a) R) as (_ & _ & _ & T). rewrite T, E. f_equal. exact IH2.
Qed.

Lemma take_while_lod : forall v rr,
  Forall (fun b => (0 <= bz b < 128)%Z /\ (ascii_letter (bz b) || ascii_digit (bz b)) = true) v -> type_boundary rr ->
  take_while (letter_or_digit U) (ascii_runes v ++ rr) = map bz v /\
  forall ps, scan_while (letter_or_digit U) ps (ascii_runes v ++ rr) = (ps + length v, rr).
Proof.
  induction v as [|a v IH]; intros rr Hv Hb; cbn [ascii_runes map app take_while scan_while length].
  - split; [|intro ps; rewrite Nat.add_0_r]; destruct rr as [|[r w] rr]; try reflexivity; cbn in *; now rewrite Hb.
  - inversion Hv as [|? ? [R L] Hv']; subst. destruct (HU (bz a) R) as (E1 & E2 & _).
    unfold letter_or_digit at 1 3. rewrite E1, E2, L. fold (ascii_runes v). destruct (IH rr Hv' Hb) as [I1 I2]. split.
    + f_equal. exact I1.
    + intro ps. rewrite I2. f_equal. lia.
Qed.

(* the runes of  QUOTE bodyQUOTE ^^type:v rest *)
Definition literal_runes (body : list rw) (v : list byte) (rr : list rw) : list rw :=
  (34%Z, 1) :: body ++ ascii_runes s_literalType ++ ascii_runes v ++ rr.

Lemma map_fst_ascii v : map fst (ascii_runes v) = map bz v.
Proof. unfold ascii_runes. rewrite map_map. reflexivity. Qed.

Lemma skipn_app_exact {A} (a b : list A) : skipn (length a) (a ++ b) = b.
Proof. induction a; cbn; auto. Qed.

(* no  QUOTE @[  strictly inside:  at offsets 1..|body|+1 of  QUOTE bodyQUOTE ^^type:...  *)
Lemma no_anchor_inside body v rr p : plain_runes body -> 1 <= p <= S (length body) ->
  is_prefix (zs s_anchor) (skipn p (map fst (literal_runes body v rr))) = false.
Proof.
  intros Hb Hp. destruct shapes as (c & am & m0 & m' & Ea & Em & Hc).
  unfold literal_runes. rewrite Ea, Em. cbn [map]. rewrite !map_app, !map_fst_ascii.
  destruct p as [|p]; [lia|]. cbn [map skipn app fst].
  assert (Hp' : p <= length body) by lia. clear Hp.
  revert p Hp'. induction body as [|[r w] body IH]; intros p Hp'.
  - cbn in Hp'. assert (p = 0) by lia. subst. cbn [map app skipn zs is_prefix].
    rewrite Z.eqb_refl. destruct (Z.eqb_spec (bz c) (bz m0)); [congruence|reflexivity].
  - inversion Hb as [|? ? (NQ & NB) Hb']; subst. cbn [fst] in *. destruct p as [|p].
    + cbn [map app skipn zs is_prefix fst]. change (bz x22) with 34%Z. destruct (Z.eqb_spec 34 r) as [E|E]; [congruence|reflexivity].
    + cbn [map app skipn length] in *. apply IH; [assumption|lia].
Qed.

Lemma marker_at body v rr :
  is_prefix (zs s_literalType) (skipn (S (length body)) (map fst (literal_runes body v rr))) = true.
Proof.
  unfold literal_runes. cbn [map]. rewrite !map_app, !map_fst_ascii. cbn [skipn].
  replace (length body) with (length (map fst body)) by apply map_length.
  rewrite skipn_app_exact. apply is_prefix_app.
Qed.

Theorem literal_steps : forall body ty v rr l,
  plain_runes body -> In ty literal_types -> case_variant v ty -> type_boundary rr ->
  rest l = literal_runes body v rr ->
  let n := S (wsum body) + length s_literalType + length v in
  step U SToken l = ([], Some SPredOrLit, l) /\
  step U SPredOrLit l = ([], Some SLiteral, l) /\
  step U SLiteral l = ([(ItemLiteral, start l, pos l + n)], Some SSpace, mkLx rr (pos l + n) (pos l + n) ItemLiteral).
Proof.
  intros body ty v rr l Hb Hty Hv Hbd Hrest n.
  destruct rune_consts as (Q & B & Bi & Sl & Un).
  split; [|split].
  - cbn [step]. rewrite Hrest. unfold literal_runes. cbn [lex_token].
    destruct (HU 34%Z ltac:(lia)) as (_ & Ed & _). rewrite Ed. replace (ascii_digit 34%Z) with false by reflexivity. cbn [andb].
    rewrite Bi, Sl, Un, Q. cbn [Z.eqb Pos.eqb].
    destruct l as [rs st ps lk]. cbn in *. unfold literal_runes in Hrest. now rewrite Hrest.
  - cbn [step]. unfold lex_pred_or_lit. rewrite Hrest.
    pose proof (marker_at body v rr) as M.
    assert (Hlen : S (length body) <= length (map fst (literal_runes body v rr))).
    { unfold literal_runes. rewrite map_length. cbn [length]. rewrite !app_length. lia. }
    assert (ET : exists T', map fst (literal_runes body v rr) = 34%Z :: T').
    { eexists. unfold literal_runes. cbn [map fst]. reflexivity. }
    destruct ET as [T' ET]. pose proof (no_anchor_inside body v rr) as NA. rewrite ET in M, Hlen, NA |- *.
    cbn [tl skipn length] in *.
    destruct (index_of_complete _ _ _ M ltac:(lia)) as (q & Eq & Hqle). rewrite Eq.
    destruct (index_of (zs s_anchor) T') as [p|] eqn:Ep; [|reflexivity].
    assert (G : Nat.ltb p q = false).
    { destruct (Nat.ltb_spec p q); [|reflexivity]. exfalso.
      apply index_of_sound in Ep. specialize (NA (S p) Hb ltac:(lia)). cbn [skipn] in NA. rewrite NA in Ep. discriminate. }
    rewrite G. reflexivity.
  - cbn [step]. unfold lex_literal. rewrite Hrest. unfold literal_runes.
    rewrite lit_loop_body by assumption.
    assert (Hcons : forall tl0 ps, lit_loop U l ps (ascii_runes s_literalType ++ tl0) =
                   literal_tail U l (ps + length s_literalType) tl0).
    { intros tl0 ps. rewrite lit_loop_quote by reflexivity. rewrite consume_self. reflexivity. }
    rewrite Hcons. unfold literal_tail.
    assert (Hlt : lower_or_digit_word ty = true).
    { pose proof literal_types_lower_or_digit as K. rewrite forallb_forall in K. exact (K _ Hty). }
    destruct (lod_of_variant v ty Hlt Hv) as [L1 L2].
    destruct (take_while_lod v rr L1 Hbd) as [T1 T2]. rewrite T1, T2, L2, (mem_zs_in _ _ Hty).
    unfold emit. subst n.
    replace (pos l + 1 + wsum body + length s_literalType + length v) with
      (pos l + (S (wsum body) + length s_literalType + length v)) by lia. reflexivity.
Qed.

Lemma run_literal : forall body ty v rr l f,
  plain_runes body -> In ty literal_types -> case_variant v ty -> type_boundary rr ->
  rest l = literal_runes body v rr ->
  exists more fin, run U (S (S (S f))) SToken l =
    ((ItemLiteral, start l, pos l + (S (wsum body) + length s_literalType + length v)) :: more, fin).
Proof.
  intros body ty v rr l f Hb Hty Hv Hbd Hrest.
  destruct (literal_steps body ty v rr l Hb Hty Hv Hbd Hrest) as (S1 & S2 & S3).
  cbn [run]. rewrite S1, S2, S3. destruct (run U f SSpace _) as [ts fin]. exists ts, fin. reflexivity.
Qed.

End Case.

(* ---------------------------------------------------------------- byte-level statements (whole lexer) *)
Lemma ascii_runes_app a b : ascii_runes (a ++ b) = ascii_runes a ++ ascii_runes b.
Proof. unfold ascii_runes. apply map_app. Qed.

Theorem keywords_case_bytes : forall U, ascii_ok U -> forall kw k v rest_bytes,
  In (kw, k) keywords -> case_variant v kw -> letter_boundary U (decode_all rest_bytes) ->
  exists more, fst (lex_with U (v ++ rest_bytes)) = (k, 0, length v) :: more.
Proof.
  intros U HU kw k v rb Hin Hv Hb.
  assert (Hlow : forallb (fun b => is_lower_z (bz b)) kw = true).
  { pose proof keywords_lower as K. rewrite forallb_forall in K. exact (K _ Hin). }
  pose proof (letters_of_variant v kw Hlow Hv) as HL.
  unfold lex_with, lex_runes. rewrite decode_all_ascii.
  2:{ eapply Forall_impl; [|exact HL]. cbn. intros a [H _]. lia. }
  unfold fuel_for. set (rs := ascii_runes v ++ decode_all rb).
  replace (4 * length rs + 4) with (S (S (4 * length rs + 2))) by lia.
  destruct (run_keyword U HU kw k v (decode_all rb) (init_lx rs) (4 * length rs + 2) Hin Hv Hb eq_refl init_not_filter)
    as (more & fin & E).
  rewrite E. exists more. reflexivity.
Qed.

(* decoding of  QUOTE body marker v rest  for an arbitrary byte body *)
Lemma decode_literal_bytes body v rb : Forall (fun b => (bz b < 128)%Z) v ->
  decode_all (x22 :: body ++ s_literalType ++ v ++ rb) = literal_runes (decode_all body) v (decode_all rb).
Proof.
  intro Hv. unfold literal_runes.
  change (x22 :: body ++ s_literalType ++ v ++ rb) with ([x22] ++ body ++ s_literalType ++ v ++ rb).
  rewrite decode_all_ascii by (repeat constructor). cbn [ascii_runes map app]. change (bz x22) with 34%Z. f_equal.
  destruct marker_shape as (m & Em & _). rewrite Em. cbn [app].
  rewrite (decode_all_split (length body) body (le_n _) x22) by reflexivity. f_equal.
  change (x22 :: m ++ v ++ rb) with ((x22 :: m) ++ v ++ rb). rewrite <- Em.
  rewrite decode_all_ascii by (repeat constructor). f_equal. now apply decode_all_ascii.
Qed.

Theorem literal_type_case_bytes : forall U, ascii_ok U -> forall body ty v rest_bytes,
  plain_body body -> In ty literal_types -> case_variant v ty -> type_boundary U (decode_all rest_bytes) ->
  exists more,
    fst (lex_with U (x22 :: body ++ s_literalType ++ v ++ rest_bytes)) =
    (ItemLiteral, 0, S (length body) + length s_literalType + length v) :: more.
Proof.
  intros U HU body ty v rb Hb Hty Hv Hbd.
  assert (Hlt : lower_or_digit_word ty = true).
  { pose proof literal_types_lower_or_digit as K. rewrite forallb_forall in K. exact (K _ Hty). }
  destruct (lod_of_variant U HU v ty Hlt Hv) as [L1 _].
  unfold lex_with, lex_runes. rewrite decode_literal_bytes.
  2:{ eapply Forall_impl; [|exact L1]. cbn. intros a [H _]. lia. }
  unfold fuel_for. set (rs := literal_runes (decode_all body) v (decode_all rb)).
  replace (4 * length rs + 4) with (S (S (S (4 * length rs + 1)))) by lia.
  destruct (run_literal U HU (decode_all body) ty v (decode_all rb) (init_lx rs) (4 * length rs + 1)
              (plain_body_runes body Hb) Hty Hv Hbd eq_refl) as (more & fin & E).
  rewrite E. exists more. cbn [init_lx start pos fst]. rewrite (wsum_decode_all (length body)) by apply le_n. reflexivity.
Qed.
