(* Whitespace between tokens (C16), part D: INSERTING ASCII white space between two adjacent tokens.
   Run 1 lexes  x ++ b,  run 2 lexes  x ++ ws ++ b.  Every state function call of run 1 that stays before the boundary
   behaves identically in run 2 (loc'), unless it looked at the first rune of b without consuming it; those calls are
   classified as [bad]: either they emit a token of a kind whose end is decided by that look-ahead in a way white space
   changes (filter function: refuted; Time / global PredicateBound: the white space becomes part of the token), or they emit
   nothing and stay at the boundary, after which no token can end there (no_emit_at).  *)
From Coq Require Import List ZArith NArith Bool Arith Lia.
From Coq.Strings Require Import Byte.
Import ListNotations.
From BWLexer Require Import Utf8 Unicode Lexer LexerProofs Utf8Proofs CaseProofs PrintedProofs WsProofs WsSim WsMain.
From BWLexer.Gen Require Import LexTablesGen.

(* ---------------------------------------------------------------- tools *)
Lemma suf_wsum r' r : suf r' r -> widths_pos r -> wsum r' <= wsum r /\ (wsum r' = wsum r -> r' = r) /\ widths_pos r'.
Proof.
  intros [pre ->] Hw. unfold widths_pos in *. apply Forall_app in Hw. destruct Hw as [Hp Hr]. rewrite wsum_app.
  split; [lia|]. split; [|exact Hr]. intro E. assert (wsum pre = 0) by lia.
  rewrite (wsum_zero pre Hp H). reflexivity.
Qed.

(* from a state other than lexBinding (and lexTime on an empty rest) no token can end where the state stands, unless the
   whole run is a single token *)
Lemma no_emit_at U total : forall f s l ts fin,
  wf total l -> widths_pos (rest l) -> rank s (rest l) <= 4 -> run U f s l = (ts, fin) ->
  length ts <= 1 \/ Forall (fun t => pos l < tk_end t) ts.
Proof.
  induction f as [|f IH]; intros s l ts fin Hw Hwp Hr Hrun; cbn [run] in Hrun; [inversion Hrun; left; cbn; lia|].
  pose proof (step_good U total s l Hw) as G. pose proof (step_post U s l) as [Sf Sh]. pose proof (step_ge U s l) as Ge.
  destruct (step U s l) as [[toks nxt] l']. unfold good in G. destruct G as (Hw' & _ & G).
  unfold rpos in Ge. cbn [snd] in Sf, Ge. cbn [shape] in Sh.
  destruct nxt as [s'|].
  2:{ inversion Hrun; subst. left. destruct Sh as [->|(k & a & e & -> & _)]; cbn; lia. }
  destruct G as [Hmu _]. destruct (run U f s' l') as [ts' fin'] eqn:R. inversion Hrun; subst.
  destruct (suf_wsum _ _ Sf Hwp) as (Hle & Heq & Hwp').
  destruct (Nat.eq_dec (pos l') (pos l)) as [E|E].
  - (* no progress: the rest is unchanged, the rank decreased, nothing was emitted *)
    destruct Hw as [_ T1]. destruct Hw' as [W1 T2]. assert (Er : rest l' = rest l) by (apply Heq; lia).
    unfold mu in Hmu. rewrite Er in Hmu.
    assert (Ht : toks = []).
    { destruct Sh as [->|(k & a & e & -> & _ & [Hn|Hn])]; [reflexivity|discriminate|].
      inversion Hn; subst. cbn [rank] in Hmu. lia. }
    subst toks. cbn [app]. rewrite <- E.
    apply (IH s' l' ts' fin (conj W1 T2)); [rewrite Er; exact Hwp|rewrite Er; lia|exact R].
  - right. apply Forall_app. split.
    + destruct Sh as [->|(k & a & e & -> & Ep & _)]; [constructor|]. constructor; [cbn; lia|constructor].
    + eapply Forall_impl; [|exact (run_pos_le U f s' l' ts' fin R)]. cbn. intros t Ht. lia.
Qed.

Lemma scan_while_app3 p : forall x y ps,
  scan_while p ps (x ++ y) =
  if forallb (fun q : rw => p (fst q)) x then scan_while p (ps + wsum x) y
  else (fst (scan_while p ps x), snd (scan_while p ps x) ++ y).
Proof.
  induction x as [|[r w] x IH]; intros y ps; cbn [app forallb wsum scan_while fst].
  - now rewrite Nat.add_0_r.
  - destruct (p r); cbn [andb]; [|reflexivity]. rewrite IH. now rewrite Nat.add_assoc.
Qed.

Lemma take_while_app3 p : forall x y,
  take_while p (x ++ y) = if forallb (fun q : rw => p (fst q)) x then map fst x ++ take_while p y else take_while p x.
Proof.
  induction x as [|[r w] x IH]; intro y; cbn [app forallb map take_while fst]; [reflexivity|].
  destruct (p r); cbn [andb]; [|reflexivity]. rewrite IH. destruct (forallb _ x); reflexivity.
Qed.

Lemma scan_all p : forall x ps, forallb (fun q : rw => p (fst q)) x = true -> scan_while p ps x = (ps + wsum x, []).
Proof.
  induction x as [|[r w] x IH]; intros ps H; cbn [forallb wsum scan_while fst] in *; [now rewrite Nat.add_0_r|].
  apply andb_prop in H. destruct H as [H1 H2]. rewrite H1, IH by assumption. now rewrite Nat.add_assoc.
Qed.

Lemma take_all p : forall x, forallb (fun q : rw => p (fst q)) x = true -> take_while p x = map fst x.
Proof.
  induction x as [|[r w] x IH]; intro H; cbn [forallb map take_while fst] in *; [reflexivity|].
  apply andb_prop in H. destruct H as [H1 H2]. now rewrite H1, IH.
Qed.

Definition unsafe (k : N) : Prop := k = ItemFilterFunction \/ k = ItemTime \/ k = ItemPredicateBound.

(* ---------------------------------------------------------------- the two inputs *)
Section Ins.
Variable U : uni.
Hypothesis HU : ascii_ok U.
Variable ws : list byte.
Variable b : list rw.
Hypothesis Wws : Forall ws_byte ws.
Hypothesis Nws : ws <> [].
Hypothesis Hwb : widths_pos b.

Definition z2 : list rw := ascii_runes ws ++ b.

Lemma z2_head : exists c t, z2 = (c, 1) :: t /\ wsr c.
Proof.
  unfold z2. assert (S : exists a v, ws = a :: v) by (destruct ws; [congruence|eauto]). destruct S as (a & v & S).
  pose proof Wws as W'. rewrite S in W'. inversion W' as [|? ? Ha Hv]. rewrite S. eexists _, _. split; [reflexivity|now apply ws_byte_wsr].
Qed.

Lemma b_cases : b = [] \/ exists c w t, b = (c, w) :: t /\ 1 <= w.
Proof.
  assert (G : forall bb, widths_pos bb -> bb = [] \/ exists c w t, bb = (c, w) :: t /\ 1 <= w).
  { intros [|[c w] t] H; [now left|]. right. inversion H; subst. eauto. }
  exact (G b Hwb).
Qed.

Definition loc' (r1 r2 : res) : Prop :=
  exists x', rest (snd r1) = x' ++ b /\ r2 = (fst r1, set_rest (snd r1) (x' ++ z2)).

(* the call reached the boundary B without consuming across it, and either emitted nothing and goes on in a state from
   which nothing can be emitted at B, or emitted a token of an unsafe kind *)
Definition bad1 (B : nat) (r : res) : Prop :=
  pos (snd r) = B /\ fst (fst r) = [] /\ exists s', snd (fst r) = Some s' /\ rank s' (rest (snd r)) <= 4.
Definition bad2 (B : nat) (r : res) : Prop :=
  pos (snd r) = B /\ exists k a e, fst (fst r) = [(k, a, e)] /\ unsafe k.

Lemma loc'_emit k l l' ps x' nx : start l = start l' -> loc' (emit k l ps (x' ++ b) nx) (emit k l' ps (x' ++ z2) nx).
Proof. intro E. exists x'. split; [reflexivity|]. unfold emit. now rewrite E. Qed.
Lemma loc'_goto toks s x' st ps lk : loc' (toks, Some s, mkLx (x' ++ b) st ps lk) (toks, Some s, mkLx (x' ++ z2) st ps lk).
Proof. exists x'. split; reflexivity. Qed.

Lemma bad_emit B k l ps rs nx : ps = B -> unsafe k -> bad2 B (emit k l ps rs nx).
Proof. intros E Hk. split; [exact E|]. exists k, (start l), ps. split; [reflexivity|exact Hk]. Qed.
Lemma bad_goto B s' st ps lk rs : ps = B -> rank s' rs <= 4 -> bad1 B ([], Some s', mkLx rs st ps lk).
Proof. intros E Hr. split; [exact E|]. split; [reflexivity|]. exists s'. split; [reflexivity|exact Hr]. Qed.

Lemma z2_rejects p : (forall c, wsr c -> p c = false) -> match z2 with [] => True | (c, _) :: _ => p c = false end.
Proof. intro H. destruct z2_head as (c & t & E & K). rewrite E. auto. Qed.

(* a scanning loop: exactly the runes of x that satisfy p; at the boundary the first rune of b decides *)
Lemma scan_ins p : (forall c, wsr c -> p c = false) -> forall x ps,
  fst (scan_while p ps (x ++ b)) <= ps + wsum x ->
  scan_while p ps (x ++ b) = (fst (scan_while p ps x), snd (scan_while p ps x) ++ b) /\
  scan_while p ps (x ++ z2) = (fst (scan_while p ps x), snd (scan_while p ps x) ++ z2) /\
  take_while p (x ++ b) = take_while p x /\ take_while p (x ++ z2) = take_while p x.
Proof.
  intros Hp x ps H. pose proof (z2_rejects p Hp) as R2.
  rewrite (scan_while_app p z2 R2), (take_while_app p z2 R2).
  rewrite scan_while_app3, take_while_app3 in *. destruct (forallb (fun q : rw => p (fst q)) x) eqn:A.
  - rewrite (scan_all p x ps A), (take_all p x A) in *. cbn [fst snd app].
    destruct b_cases as [E|(c & w & t & E & Hw)]; rewrite E in *.
    + cbn [scan_while take_while]. rewrite !app_nil_r. auto.
    + cbn [scan_while take_while] in *. destruct (p c).
      * exfalso. pose proof (scan_while_ge p t (ps + wsum x + w)). lia.
      * rewrite app_nil_r. auto.
  - auto.
Qed.

Lemma consume_first_adv text c0 r w t ps : Z.eqb (to_lower U r) (to_lower U c0) = true ->
  ps + w <= snd (fst (consume U (c0 :: text) ps ((r, w) :: t))).
Proof. intro H. cbn [consume]. rewrite H. apply consume_ge. Qed.

(* ---------------------------------------------------------------- loops *)
Section Loops.
Variables l l' : lx.
Hypothesis Hl : start l = start l' /\ last l = last l'.

Ltac nt Hnt := exfalso; apply Hnt; reflexivity.

Lemma ff_loop_ins : forall x ps, rpos (ff_loop U l ps (x ++ b)) <= ps + wsum x -> snd (fst (ff_loop U l ps (x ++ b))) <> None ->
  loc' (ff_loop U l ps (x ++ b)) (ff_loop U l' ps (x ++ z2)) \/ bad2 (ps + wsum x) (ff_loop U l ps (x ++ b)).
Proof.
  induction x as [|[r w] x IH]; intros ps H Hnt.
  - cbn [app wsum] in *. destruct b_cases as [E|(c & w & t & E & Hw)]; rewrite E in *; cbn [ff_loop] in *; [nt Hnt|].
    destruct (Z.eqb c r_leftPar).
    + right. apply bad_emit; [lia|]. now left.
    + destruct (is_letter U c); [|nt Hnt]. exfalso. pose proof (ff_loop_ge U l t (ps + w)). unfold rw in *; lia.
  - cbn [app ff_loop wsum] in *. destruct (Z.eqb r r_leftPar); [left; apply (loc'_emit _ l l' ps ((r, w) :: x)); apply Hl|].
    destruct (is_letter U r); [|nt Hnt].
    destruct (IH (ps + w) ltac:(lia) Hnt) as [L|Bd]; [now left|right]. now rewrite Nat.add_assoc.
Qed.

Lemma node_loop_ins : forall n x, length x <= n -> forall ltid ps,
  rpos (node_loop l ltid ps (x ++ b)) <= ps + wsum x -> snd (fst (node_loop l ltid ps (x ++ b))) <> None ->
  loc' (node_loop l ltid ps (x ++ b)) (node_loop l' ltid ps (x ++ z2)).
Proof.
  assert (B0 : forall ltid ps, rpos (node_loop l ltid ps ([] ++ b)) <= ps + wsum [] ->
                               snd (fst (node_loop l ltid ps ([] ++ b))) <> None -> False).
  { intros ltid ps H Hnt. cbn [app wsum] in *. destruct b_cases as [E|(c & w & t & E & Hw)]; rewrite E in *; cbn [node_loop] in *; [nt Hnt|].
    destruct (Z.eqb c r_backSlash).
    - destruct t as [|[r2 w2] t2]; [pose proof (node_loop_ge l _ [] (le_n _) ltid (ps + w)); unfold rw in *; lia|].
      destruct (Z.eqb r2 r_lt); [pose proof (node_loop_ge l _ t2 (le_n _) ltid (ps + w + w2))|pose proof (node_loop_ge l _ ((r2, w2) :: t2) (le_n _) ltid (ps + w))]; unfold rw in *; lia.
    - destruct (Z.eqb c r_lt); [pose proof (node_loop_ge l _ t (le_n _) true (ps + w)); unfold rw in *; lia|].
      destruct (Z.eqb c r_gt); [destruct ltid; [unfold rpos in H; cbn in H; lia|nt Hnt]|].
      pose proof (node_loop_ge l _ t (le_n _) ltid (ps + w)). unfold rw in *; lia. }
  induction n as [|n IH]; intros x Hn ltid ps H Hnt.
  - destruct x; [exfalso; eapply B0; eauto|cbn in Hn; lia].
  - destruct x as [|[r w] x]; [exfalso; eapply B0; eauto|]. cbn [length] in Hn. cbn [app node_loop wsum] in *.
    destruct (Z.eqb r r_backSlash).
    + destruct x as [|[r2 w2] x2].
      * (* the backslash is the last rune before the boundary: the look-ahead sees b resp. white space *)
        cbn [app] in *. destruct z2_head as (c2 & t2 & E2 & K2). destruct (ws_facts _ K2) as (_ & _ & _ & _ & _ & _ & _ & Flt2 & _).
        rewrite E2. rewrite Flt2. rewrite <- E2.
        destruct b_cases as [E|(c & w0 & t & E & Hw)].
        -- exfalso. rewrite E in H, Hnt. cbn [node_loop] in Hnt. apply Hnt. reflexivity.
        -- exfalso. rewrite E in H, Hnt. destruct (Z.eqb c r_lt).
           ++ pose proof (node_loop_ge l _ t (le_n _) ltid (ps + w + w0)). cbn [wsum] in H. unfold rw in *; lia.
           ++ rewrite <- E in H, Hnt. apply (B0 ltid (ps + w)); [cbn [wsum] in *; lia|exact Hnt].
      * cbn [app] in *. destruct (Z.eqb r2 r_lt).
        -- apply IH; [cbn [length] in Hn; lia|cbn [wsum] in H; lia|exact Hnt].
        -- apply (IH ((r2, w2) :: x2)); [cbn [length] in *; lia|cbn [app wsum] in *; lia|exact Hnt].
    + destruct (Z.eqb r r_lt); [apply IH; [lia|lia|exact Hnt]|].
      destruct (Z.eqb r r_gt); [destruct ltid; [apply loc'_emit; apply Hl|nt Hnt]|].
      apply IH; [lia|lia|exact Hnt].
Qed.

Lemma bounds_loop_ins : forall x c ps, rpos (bounds_loop l c ps (x ++ b)) <= ps + wsum x ->
  snd (fst (bounds_loop l c ps (x ++ b))) <> None ->
  loc' (bounds_loop l c ps (x ++ b)) (bounds_loop l' c ps (x ++ z2)).
Proof.
  induction x as [|[r w] x IH]; intros c ps H Hnt.
  - exfalso. cbn [app wsum] in *. destruct b_cases as [E|(c0 & w & t & E & Hw)]; rewrite E in *; cbn [bounds_loop] in *; [nt Hnt|].
    destruct (Z.eqb c0 r_rightSquarePar).
    + destruct (Nat.ltb 1 _); [nt Hnt|]. destruct (Nat.eqb _ 0); unfold rpos in H; cbn in H; lia.
    + match type of H with context [bounds_loop ?L ?C ?P ?R] => pose proof (bounds_loop_ge L R C P) end. unfold rw in *; lia.
  - cbn [app bounds_loop wsum] in *. destruct (Z.eqb r r_rightSquarePar).
    + destruct (Nat.ltb 1 _); [nt Hnt|]. destruct (Nat.eqb _ 0); apply loc'_emit; apply Hl.
    + apply IH; [lia|exact Hnt].
Qed.

(* l.consume over x ++ y when the text does not match white space: like consume_app, for both continuations *)
Lemma consume_ins text : ws_free U text -> forall x ps,
  snd (fst (consume U text ps (x ++ b))) <= ps + wsum x ->
  consume U text ps (x ++ b) = (fst (fst (consume U text ps x)), snd (fst (consume U text ps x)), snd (consume U text ps x) ++ b) /\
  consume U text ps (x ++ z2) = (fst (fst (consume U text ps x)), snd (fst (consume U text ps x)), snd (consume U text ps x) ++ z2).
Proof.
  intros Hf x ps H. split; [|apply (consume_app U text z2 Hf z2_head)].
  revert x ps H. induction text as [|tc text IH]; intros x ps H; cbn [consume] in *; [reflexivity|].
  inversion Hf as [|? ? Hc Hf']; subst. destruct x as [|[r w] x].
  - cbn [app wsum] in *. destruct b_cases as [E|(c & w & t & E & Hw)]; rewrite E in *; [reflexivity|].
    destruct (Z.eqb (to_lower U c) (to_lower U tc)); [|reflexivity].
    exfalso. pose proof (consume_ge U text t (ps + w)). unfold rw in *; lia.
  - cbn [app wsum] in *. destruct (Z.eqb _ _); [apply IH; [assumption|lia]|reflexivity].
Qed.

Lemma pred_loop_ins : forall n x, length x <= n -> forall ps,
  rpos (pred_loop U l ps (x ++ b)) <= ps + wsum x -> snd (fst (pred_loop U l ps (x ++ b))) <> None ->
  loc' (pred_loop U l ps (x ++ b)) (pred_loop U l' ps (x ++ z2)).
Proof.
  assert (B0 : forall ps, rpos (pred_loop U l ps ([] ++ b)) <= ps + wsum [] ->
                          snd (fst (pred_loop U l ps ([] ++ b))) <> None -> False).
  { intros ps H Hnt. cbn [app wsum] in *. destruct b_cases as [E|(c & w & t & E & Hw)]; rewrite E in *; cbn [pred_loop] in *; [nt Hnt|].
    destruct (Z.eqb c r_backSlash).
    - destruct t as [|[r2 w2] t2]; [pose proof (pred_loop_ge U l _ [] (le_n _) (ps + w)); unfold rw in *; lia|].
      destruct (Z.eqb r2 r_quote); [pose proof (pred_loop_ge U l _ t2 (le_n _) (ps + w + w2))|pose proof (pred_loop_ge U l _ ((r2, w2) :: t2) (le_n _) (ps + w))]; unfold rw in *; lia.
    - destruct (Z.eqb c r_quote) eqn:Eq.
      + (* the opening rune of the anchor is this quote: consume advances *)
        apply Z.eqb_eq in Eq. subst c.
        assert (C : ps + w <= snd (fst (consume U (zs s_anchor) ps ((r_quote, w) :: t)))).
        { rewrite anchor_is. cbn [zs map]. apply consume_first_adv. apply Z.eqb_refl. }
        destruct (consume U (zs s_anchor) ps ((r_quote, w) :: t)) as [[bb p1] rs1]. cbn [fst snd] in C. destruct bb; [|nt Hnt].
        pose proof (bounds_loop_ge l rs1 0 p1). unfold rw in *; lia.
      + pose proof (pred_loop_ge U l _ t (le_n _) (ps + w)). unfold rw in *; lia. }
  induction n as [|n IH]; intros x Hn ps H Hnt.
  - destruct x; [exfalso; eapply B0; eauto|cbn in Hn; lia].
  - destruct x as [|[r w] x]; [exfalso; eapply B0; eauto|]. cbn [length] in Hn. cbn [app pred_loop wsum] in *.
    destruct (Z.eqb r r_backSlash).
    + destruct x as [|[r2 w2] x2].
      * cbn [app] in *. destruct z2_head as (c2 & t2 & E2 & K2). destruct (ws_facts _ K2) as (_ & _ & _ & Fq2 & _).
        rewrite E2. rewrite Fq2. rewrite <- E2.
        destruct b_cases as [E|(c & w0 & t & E & Hw)].
        -- exfalso. rewrite E in H, Hnt. cbn [pred_loop] in Hnt. apply Hnt. reflexivity.
        -- exfalso. rewrite E in H, Hnt. destruct (Z.eqb c r_quote).
           ++ pose proof (pred_loop_ge U l _ t (le_n _) (ps + w + w0)). cbn [wsum] in H. unfold rw in *; lia.
           ++ rewrite <- E in H, Hnt. apply (B0 (ps + w)); [cbn [wsum] in *; lia|exact Hnt].
      * cbn [app] in *. destruct (Z.eqb r2 r_quote).
        -- apply IH; [cbn [length] in Hn; lia|cbn [wsum] in H; lia|exact Hnt].
        -- apply (IH ((r2, w2) :: x2)); [cbn [length] in *; lia|cbn [app wsum] in *; lia|exact Hnt].
    + destruct (Z.eqb r r_quote).
      * change ((r, w) :: x ++ b) with (((r, w) :: x) ++ b) in *. change ((r, w) :: x ++ z2) with (((r, w) :: x) ++ z2).
        pose proof (consume_spec U (zs s_anchor) ((r, w) :: x) ps) as CS.
        assert (CB : snd (fst (consume U (zs s_anchor) ps (((r, w) :: x) ++ b))) <= ps + wsum ((r, w) :: x)).
        { destruct (consume U (zs s_anchor) ps (((r, w) :: x) ++ b)) as [[bb p1] rs1]. cbn [fst snd].
          destruct bb; [pose proof (bounds_loop_ge l rs1 0 p1)|unfold rpos in H; cbn in H]; cbn [wsum]; unfold rw in *; lia. }
        destruct (consume_ins _ (anchor_ws_free U HU l l' Hl) _ _ CB) as [C1 C2]. unfold rw in *. rewrite C1 in H, Hnt |- *. rewrite C2.
        destruct (consume U (zs s_anchor) ps ((r, w) :: x)) as [[bb p1] rs1]. specialize (CS _ _ _ eq_refl).
        cbn [fst snd] in *. destruct bb; [|nt Hnt].
        apply bounds_loop_ins; [cbn [wsum] in CS; unfold rw in *; lia|exact Hnt].
      * apply IH; [lia|lia|exact Hnt].
Qed.

Lemma literal_tail_ins : forall x p1, rpos (literal_tail U l p1 (x ++ b)) <= p1 + wsum x ->
  snd (fst (literal_tail U l p1 (x ++ b))) <> None ->
  loc' (literal_tail U l p1 (x ++ b)) (literal_tail U l' p1 (x ++ z2)).
Proof.
  intros x p1 H Hnt. unfold literal_tail in *.
  destruct (scan_while (letter_or_digit U) p1 (x ++ b)) as [p2 rs2] eqn:S1.
  destruct (mem_zs (map (to_lower U) (take_while (letter_or_digit U) (x ++ b))) literal_types) eqn:M.
  2:{ destruct rs2 as [|[r3 w3] rs3]; nt Hnt. }
  assert (Bd : fst (scan_while (letter_or_digit U) p1 (x ++ b)) <= p1 + wsum x) by (rewrite S1; unfold rpos in H; cbn in *; lia).
  destruct (scan_ins _ (rej_lod U HU) x p1 Bd) as (E1 & E2 & T1 & T2).
  rewrite E2, T2. rewrite T1 in M. rewrite M. rewrite E1 in S1. inversion S1; subst. apply loc'_emit. apply Hl.
Qed.

Lemma lit_loop_ins : forall n x, length x <= n -> forall ps,
  rpos (lit_loop U l ps (x ++ b)) <= ps + wsum x -> snd (fst (lit_loop U l ps (x ++ b))) <> None ->
  loc' (lit_loop U l ps (x ++ b)) (lit_loop U l' ps (x ++ z2)).
Proof.
  assert (B0 : forall ps, rpos (lit_loop U l ps ([] ++ b)) <= ps + wsum [] ->
                          snd (fst (lit_loop U l ps ([] ++ b))) <> None -> False).
  { intros ps H Hnt. cbn [app wsum] in *. destruct b_cases as [E|(c & w & t & E & Hw)]; rewrite E in *; cbn [lit_loop] in *; [nt Hnt|].
    destruct (Z.eqb c r_backSlash).
    - destruct t as [|[r2 w2] t2]; [pose proof (lit_loop_ge U l _ [] (le_n _) (ps + w)); unfold rw in *; lia|].
      destruct (Z.eqb r2 r_quote); [pose proof (lit_loop_ge U l _ t2 (le_n _) (ps + w + w2))|pose proof (lit_loop_ge U l _ ((r2, w2) :: t2) (le_n _) (ps + w))]; unfold rw in *; lia.
    - destruct (Z.eqb c r_quote) eqn:Eq.
      + apply Z.eqb_eq in Eq. subst c.
        assert (C : ps + w <= snd (fst (consume U (zs s_literalType) ps ((r_quote, w) :: t)))).
        { destruct marker_is as (m' & Em). rewrite Em. cbn [zs map]. apply consume_first_adv. apply Z.eqb_refl. }
        destruct (consume U (zs s_literalType) ps ((r_quote, w) :: t)) as [[bb p1] rs1]. cbn [fst snd] in C. destruct bb; [|nt Hnt].
        pose proof (literal_tail_ge U l p1 rs1). unfold rw in *; lia.
      + pose proof (lit_loop_ge U l _ t (le_n _) (ps + w)). unfold rw in *; lia. }
  induction n as [|n IH]; intros x Hn ps H Hnt.
  - destruct x; [exfalso; eapply B0; eauto|cbn in Hn; lia].
  - destruct x as [|[r w] x]; [exfalso; eapply B0; eauto|]. cbn [length] in Hn. cbn [app lit_loop wsum] in *.
    destruct (Z.eqb r r_backSlash).
    + destruct x as [|[r2 w2] x2].
      * cbn [app] in *. destruct z2_head as (c2 & t2 & E2 & K2). destruct (ws_facts _ K2) as (_ & _ & _ & Fq2 & _).
        rewrite E2. rewrite Fq2. rewrite <- E2.
        destruct b_cases as [E|(c & w0 & t & E & Hw)].
        -- exfalso. rewrite E in H, Hnt. cbn [lit_loop] in Hnt. apply Hnt. reflexivity.
        -- exfalso. rewrite E in H, Hnt. destruct (Z.eqb c r_quote).
           ++ pose proof (lit_loop_ge U l _ t (le_n _) (ps + w + w0)). cbn [wsum] in H. unfold rw in *; lia.
           ++ rewrite <- E in H, Hnt. apply (B0 (ps + w)); [cbn [wsum] in *; lia|exact Hnt].
      * cbn [app] in *. destruct (Z.eqb r2 r_quote).
        -- apply IH; [cbn [length] in Hn; lia|cbn [wsum] in H; lia|exact Hnt].
        -- apply (IH ((r2, w2) :: x2)); [cbn [length] in *; lia|cbn [app wsum] in *; lia|exact Hnt].
    + destruct (Z.eqb r r_quote).
      * change ((r, w) :: x ++ b) with (((r, w) :: x) ++ b) in *. change ((r, w) :: x ++ z2) with (((r, w) :: x) ++ z2).
        pose proof (consume_spec U (zs s_literalType) ((r, w) :: x) ps) as CS.
        assert (CB : snd (fst (consume U (zs s_literalType) ps (((r, w) :: x) ++ b))) <= ps + wsum ((r, w) :: x)).
        { destruct (consume U (zs s_literalType) ps (((r, w) :: x) ++ b)) as [[bb p1] rs1]. cbn [fst snd].
          destruct bb; [pose proof (literal_tail_ge U l p1 rs1)|unfold rpos in H; cbn in H]; cbn [wsum]; unfold rw in *; lia. }
        destruct (consume_ins _ (marker_ws_free U HU l l' Hl) _ _ CB) as [C1 C2]. unfold rw in *. rewrite C1 in H, Hnt |- *. rewrite C2.
        destruct (consume U (zs s_literalType) ps ((r, w) :: x)) as [[bb p1] rs1]. specialize (CS _ _ _ eq_refl).
        cbn [fst snd] in *. destruct bb; [|nt Hnt].
        apply literal_tail_ins; [cbn [wsum] in CS; unfold rw in *; lia|exact Hnt].
      * apply IH; [lia|lia|exact Hnt].
Qed.

Lemma unsafe_tob cs : unsafe (time_or_bound cs).
Proof. destruct cs; [right; right; reflexivity|right; left; reflexivity]. Qed.

Lemma gt_loop_ins : forall x sk cs ps, rpos (gt_loop U l sk cs ps (x ++ b)) <= ps + wsum x ->
  snd (fst (gt_loop U l sk cs ps (x ++ b))) <> None ->
  loc' (gt_loop U l sk cs ps (x ++ b)) (gt_loop U l' sk cs ps (x ++ z2)) \/ bad2 (ps + wsum x) (gt_loop U l sk cs ps (x ++ b)).
Proof.
  induction x as [|[r w] x IH]; intros sk cs ps H Hnt.
  - right. cbn [app wsum] in *. destruct b_cases as [E|(c & w & t & E & Hw)]; rewrite E in *; cbn [gt_loop] in *.
    + apply bad_emit; [lia|apply unsafe_tob].
    + destruct (sk && is_space U c); [exfalso; pose proof (gt_loop_ge U l t true cs (ps + w)); unfold rw in *; lia|].
      destruct (Z.eqb c r_comma).
      * destruct cs; [nt Hnt|]. exfalso. pose proof (gt_loop_ge U l t true true (ps + w)). unfold rw in *; lia.
      * destruct (Z.eqb c r_semicolon); [apply bad_emit; [lia|apply unsafe_tob]|].
        destruct (is_space U c); [exfalso; unfold rpos in H; cbn in H; lia|].
        exfalso. pose proof (gt_loop_ge U l t false cs (ps + w)). unfold rw in *; lia.
  - cbn [app gt_loop wsum] in *.
    assert (R : forall sk' cs', rpos (gt_loop U l sk' cs' (ps + w) (x ++ b)) <= ps + (w + wsum x) ->
              snd (fst (gt_loop U l sk' cs' (ps + w) (x ++ b))) <> None ->
              loc' (gt_loop U l sk' cs' (ps + w) (x ++ b)) (gt_loop U l' sk' cs' (ps + w) (x ++ z2)) \/
              bad2 (ps + (w + wsum x)) (gt_loop U l sk' cs' (ps + w) (x ++ b))).
    { intros sk' cs' H' Hnt'. destruct (IH sk' cs' (ps + w) ltac:(lia) Hnt') as [L|Bd]; [now left|right]. now rewrite Nat.add_assoc. }
    destruct (sk && is_space U r); [apply R; assumption|].
    destruct (Z.eqb r r_comma); [destruct cs; [nt Hnt|apply R; assumption]|].
    destruct (Z.eqb r r_semicolon); [left; apply (loc'_emit _ l l' ps ((r, w) :: x)); apply Hl|].
    destruct (is_space U r); [left; apply loc'_emit; apply Hl|apply R; assumption].
Qed.

Lemma time_loop_ins : forall x ps, rpos (time_loop U l ps (x ++ b)) <= ps + wsum x ->
  snd (fst (time_loop U l ps (x ++ b))) <> None ->
  loc' (time_loop U l ps (x ++ b)) (time_loop U l' ps (x ++ z2)) \/ bad2 (ps + wsum x) (time_loop U l ps (x ++ b)).
Proof.
  induction x as [|[r w] x IH]; intros ps H Hnt.
  - right. cbn [app wsum] in *. destruct b_cases as [E|(c & w & t & E & Hw)]; rewrite E in *; cbn [time_loop] in *.
    + apply bad_emit; [lia|right; left; reflexivity].
    + destruct (Z.eqb c r_semicolon || Z.eqb c r_rightPar); [apply bad_emit; [lia|right; left; reflexivity]|].
      destruct (is_space U c); [exfalso; unfold rpos in H; cbn in H; lia|].
      exfalso. pose proof (time_loop_ge U l t (ps + w)). unfold rw in *; lia.
  - cbn [app time_loop wsum] in *.
    destruct (Z.eqb r r_semicolon || Z.eqb r r_rightPar); [left; apply (loc'_emit _ l l' ps ((r, w) :: x)); apply Hl|].
    destruct (is_space U r); [left; apply loc'_emit; apply Hl|].
    destruct (IH (ps + w) ltac:(lia) Hnt) as [L|Bd]; [now left|right]. now rewrite Nat.add_assoc.
Qed.

End Loops.
Lemma lex_token_ins : forall n x, length x <= n -> forall lastk st ps,
  rpos (lex_token U lastk st ps (x ++ b)) <= ps + wsum x -> snd (fst (lex_token U lastk st ps (x ++ b))) <> None ->
  loc' (lex_token U lastk st ps (x ++ b)) (lex_token U lastk st ps (x ++ z2)) \/
  bad1 (ps + wsum x) (lex_token U lastk st ps (x ++ b)).
Proof.
  assert (B0 : forall lastk st ps, rpos (lex_token U lastk st ps ([] ++ b)) <= ps + wsum [] ->
                snd (fst (lex_token U lastk st ps ([] ++ b))) <> None -> bad1 (ps + wsum []) (lex_token U lastk st ps ([] ++ b))).
  { intros lastk st ps H Hnt. cbn [app wsum] in *. destruct b_cases as [E|(c & w & t & E & Hw)]; rewrite E in *; cbn [lex_token] in *;
      [exfalso; apply Hnt; reflexivity|].
    destruct (is_digit U c && mem_N lastk last_global_time); [apply bad_goto; [lia|cbn; lia]|].
    destruct (is_digit U c && mem_N lastk last_local_time); [apply bad_goto; [lia|cbn; lia]|].
    destruct (Z.eqb c r_binding); [exfalso; unfold rpos in H; cbn in H; lia|].
    destruct (Z.eqb c r_slash); [apply bad_goto; [lia|cbn; lia]|].
    destruct (Z.eqb c r_underscore); [exfalso; unfold rpos in H; cbn in H; lia|].
    destruct (Z.eqb c r_quote); [apply bad_goto; [lia|cbn; lia]|].
    destruct (is_letter U c); [destruct (mem_N lastk last_filter_function); apply bad_goto; try lia; cbn; lia|].
    destruct (assoc_sym c single_symbols); [exfalso; unfold rpos in H; cbn in H; lia|].
    destruct (is_space U c); [exfalso; pose proof (lex_token_ge U _ t (le_n _) lastk (ps + w) (ps + w)); unfold rw in *; lia|].
    destruct t as [|[r2 w2] t2]; [exfalso; apply Hnt; reflexivity|].
    exfalso. pose proof (lex_token_ge U _ t2 (le_n _) lastk st (ps + w + w2)). unfold rw in *; lia. }
  induction n as [|n IH]; intros x Hn lastk st ps H Hnt.
  - destruct x; [right; eapply B0; eauto|cbn in Hn; lia].
  - destruct x as [|[r w] x]; [right; eapply B0; eauto|]. cbn [length] in Hn. cbn [app lex_token wsum] in *.
    assert (R : forall st' ps', ps' = ps + w -> rpos (lex_token U lastk st' ps' (x ++ b)) <= ps + (w + wsum x) ->
              snd (fst (lex_token U lastk st' ps' (x ++ b))) <> None ->
              loc' (lex_token U lastk st' ps' (x ++ b)) (lex_token U lastk st' ps' (x ++ z2)) \/
              bad1 (ps + (w + wsum x)) (lex_token U lastk st' ps' (x ++ b))).
    { intros st' ps' -> H' Hnt'. destruct (IH x ltac:(lia) lastk st' (ps + w) ltac:(lia) Hnt') as [L|Bd]; [now left|right]. now rewrite Nat.add_assoc. }
    destruct (is_digit U r && mem_N lastk last_global_time); [left; apply (loc'_goto [] _ ((r, w) :: x))|].
    destruct (is_digit U r && mem_N lastk last_local_time); [left; apply (loc'_goto [] _ ((r, w) :: x))|].
    destruct (Z.eqb r r_binding); [left; apply loc'_goto|].
    destruct (Z.eqb r r_slash); [left; apply (loc'_goto [] _ ((r, w) :: x))|].
    destruct (Z.eqb r r_underscore); [left; apply loc'_goto|].
    destruct (Z.eqb r r_quote); [left; apply (loc'_goto [] _ ((r, w) :: x))|].
    destruct (is_letter U r); [destruct (mem_N lastk last_filter_function); left; apply (loc'_goto [] _ ((r, w) :: x))|].
    destruct (assoc_sym r single_symbols); [left; apply loc'_goto|].
    destruct (is_space U r); [apply R; [reflexivity|assumption|assumption]|].
    destruct x as [|[r2 w2] x2].
    + exfalso. cbn [app wsum] in *. destruct b_cases as [E|(c & w0 & t & E & Hw)]; rewrite E in *; [apply Hnt; reflexivity|].
      pose proof (lex_token_ge U _ t (le_n _) lastk st (ps + w + w0)). unfold rw in *; lia.
    + cbn [app] in *. destruct (IH x2 ltac:(cbn [length] in *; lia) lastk st (ps + w + w2) ltac:(cbn [wsum] in *; lia) Hnt) as [L|Bd]; [now left|right].
      cbn [wsum]. replace (ps + (w + (w2 + wsum x2))) with (ps + w + w2 + wsum x2) by lia. exact Bd.
Qed.

(* ---------------------------------------------------------------- lexPredicateOrLiteral: look-ahead across the boundary *)
(* no occurrence of pat begins inside X and ends inside Bt *)
Definition no_straddle (pat X Bt : list Z) : Prop :=
  forall P S pat', X = P ++ S -> S <> [] -> pat = S ++ pat' -> pat' <> [] -> is_prefix pat' Bt = false.

Lemma cut_ins : forall S pat w T Bt, no_ws pat -> wsr w ->
  (forall pat', pat = S ++ pat' -> pat' <> [] -> is_prefix pat' Bt = false) ->
  is_prefix pat (S ++ Bt) = is_prefix pat (S ++ w :: T).
Proof.
  induction S as [|s S IH]; intros pat w T Bt Hp Hw Hs; cbn [app].
  - destruct pat as [|p pat]; [reflexivity|]. rewrite (Hs (p :: pat) eq_refl ltac:(discriminate)).
    inversion Hp; subst. cbn [is_prefix]. now rewrite (not_wsr_neq p w) by assumption.
  - destruct pat as [|p pat]; [reflexivity|]. cbn [is_prefix]. inversion Hp; subst.
    destruct (Z.eqb_spec p s); [subst; cbn [andb]|reflexivity].
    apply IH; try assumption. intros pat' E Hne. apply (Hs pat'); [now rewrite E|exact Hne].
Qed.

Lemma index_ins : forall p0 pat W Bt, no_ws (p0 :: pat) -> Forall wsr W -> W <> [] -> forall X,
  no_straddle (p0 :: pat) X Bt ->
  idx_rel [] W X (index_of (p0 :: pat) (X ++ [] ++ Bt)) (index_of (p0 :: pat) (X ++ W ++ Bt)).
Proof.
  intros p0 pat W Bt Hp HW NW X. induction X as [|s X IH]; intro NS.
  - apply index_rel_nil; [constructor|exact HW|exact Hp].
  - assert (NS' : no_straddle (p0 :: pat) X Bt).
    { intros P S pat' E. apply (NS (s :: P)). now rewrite E. }
    destruct W as [|w V]; [congruence|]. inversion HW; subst.
    pose proof (cut_ins (s :: X) (p0 :: pat) w (V ++ Bt) Bt Hp H1) as C.
    cbn [app index_of] in *. rewrite <- C.
    2:{ intros pat' E Hne. apply (NS [] (s :: X) pat'); auto; discriminate. }
    destruct (is_prefix (p0 :: pat) (s :: X ++ Bt)).
    + left. exists 0. cbn [length]. split; [lia|split; reflexivity].
    + destruct (IH NS') as [(p & Hlt & E1 & E2)|[(j & E1 & E2)|(E1 & E2)]]; rewrite E1, E2.
      * left. exists (S p). cbn [length]. split; [lia|split; reflexivity].
      * right. left. exists j. cbn [length]. split; reflexivity.
      * right. right. split; reflexivity.
Qed.

Definition no_partial_marker (X : list Z) : Prop :=
  forall pat, pat = zs s_anchor \/ pat = zs s_literalType ->
  forall P S pat', X = P ++ S -> S <> [] -> pat = S ++ pat' -> pat' = [].

Lemma lex_pol_ins x st ps lk : no_partial_marker (tl (map fst x)) -> x <> [] ->
  loc' (lex_pred_or_lit (mkLx (x ++ b) st ps lk)) (lex_pred_or_lit (mkLx (x ++ z2) st ps lk)).
Proof.
  intros NP Hx. unfold lex_pred_or_lit. cbn [rest pos].
  destruct (patterns_no_ws) as [PA PL].
  assert (HW : Forall wsr (map bz ws)).
  { apply Forall_map. eapply Forall_impl; [|exact Wws]. intros a Ha. now apply ws_byte_wsr. }
  assert (HN : map bz ws <> []) by (destruct ws; [congruence|discriminate]).
  destruct (zs s_anchor) as [|a0 apat] eqn:EA; [discriminate|]. destruct (zs s_literalType) as [|m0 mpat] eqn:EM; [discriminate|].
  destruct x as [|[r w] x]; [congruence|]. unfold z2. cbn [app map tl] in *. rewrite !map_app, !map_fst_ascii.
  assert (NSa : no_straddle (a0 :: apat) (map fst x) (map fst b)).
  { intros P S pat' E Hne Ep Hp'. exfalso. apply Hp'. apply (NP (a0 :: apat) (or_introl (eq_sym EA)) P S pat' E Hne Ep). }
  assert (NSm : no_straddle (m0 :: mpat) (map fst x) (map fst b)).
  { intros P S pat' E Hne Ep Hp'. exfalso. apply Hp'. apply (NP (m0 :: mpat) (or_intror (eq_sym EM)) P S pat' E Hne Ep). }
  pose proof (index_ins a0 apat (map bz ws) (map fst b) PA HW HN (map fst x) NSa) as RP.
  pose proof (index_ins m0 mpat (map bz ws) (map fst b) PL HW HN (map fst x) NSm) as RL.
  cbn [app] in RP, RL.
  destruct (go_pred_rel [] (map bz ws) _ _ _ _ _ RP RL) as (G & NPx & NL). unfold go_pred in G. unfold rw in *.
  destruct (index_of (a0 :: apat) (map fst x ++ map fst b)) as [p1|];
  destruct (index_of (a0 :: apat) (map fst x ++ map bz ws ++ map fst b)) as [p2|];
  destruct (index_of (m0 :: mpat) (map fst x ++ map fst b)) as [q1|];
  destruct (index_of (m0 :: mpat) (map fst x ++ map bz ws ++ map fst b)) as [q2|];
  try (destruct NPx as [NP1 NP2]; destruct NL as [NL1 NL2]; exfalso;
       first [specialize (NP1 eq_refl); congruence | specialize (NP2 eq_refl); congruence
             | specialize (NL1 eq_refl); congruence | specialize (NL2 eq_refl); congruence]);
  try rewrite G; try apply (loc'_goto [] _ ((r, w) :: x)).
  exists ((r, w) :: x). split; reflexivity.
Qed.

(* ---------------------------------------------------------------- one state function call *)
Ltac nt2 Hnt := exfalso; apply Hnt; reflexivity.

Theorem step_ins : forall s x st ps lk,
  no_partial_marker (tl (map fst x)) ->
  rpos (step U s (mkLx (x ++ b) st ps lk)) <= ps + wsum x ->
  snd (fst (step U s (mkLx (x ++ b) st ps lk))) <> None ->
  loc' (step U s (mkLx (x ++ b) st ps lk)) (step U s (mkLx (x ++ z2) st ps lk)) \/
  bad1 (ps + wsum x) (step U s (mkLx (x ++ b) st ps lk)) \/
  (bad2 (ps + wsum x) (step U s (mkLx (x ++ b) st ps lk)) /\ (s = SFilterFunction \/ s = SGlobalTime \/ s = STime)).
Proof.
  intros s x st ps lk NP H Hnt.
  set (l := mkLx (x ++ b) st ps lk) in *. set (l' := mkLx (x ++ z2) st ps lk).
  assert (Hl : start l = start l' /\ last l = last l') by (split; reflexivity).
  destruct s; cbn [step] in *.
  - (* lexToken *) subst l l'. cbn [last start pos rest] in *.
    destruct (lex_token_ins _ x (le_n _) lk st ps H Hnt) as [L|Bd]; [now left|right; now left].
  - (* lexSpace *) unfold lex_space in *. subst l l'. cbn [pos rest last] in *.
    rewrite (scan_while_app3 (is_space U) x b) in *. rewrite (scan_while_app3 (is_space U) x z2).
    destruct (forallb (fun q : rw => is_space U (fst q)) x).
    + right; left. destruct b_cases as [E|(c & w & t & E & Hw)]; rewrite E in *; cbn [scan_while] in *; [apply bad_goto; [reflexivity|cbn; lia]|].
      destruct (is_space U c).
      * exfalso. pose proof (scan_while_ge (is_space U) t (ps + wsum x + w)) as G.
        destruct (scan_while (is_space U) (ps + wsum x + w) t). unfold rpos in H. cbn in *. lia.
      * apply bad_goto; [reflexivity|cbn; lia].
    + left. apply loc'_goto.
  - (* lexKeyword *) unfold lex_keyword in *. subst l l'. cbn [pos rest] in *.
    destruct (find_keyword (take_while (is_letter U) (x ++ b)) keywords) as [k|] eqn:F.
    2:{ destruct (scan_while (fun r => negb (is_space U r)) ps (x ++ b)). nt2 Hnt. }
    assert (Bd : fst (scan_while (is_letter U) ps (x ++ b)) <= ps + wsum x).
    { destruct (scan_while (is_letter U) ps (x ++ b)). unfold rpos in H. cbn in *. lia. }
    destruct (scan_ins _ (rej_letter U HU) x ps Bd) as (E1 & E2 & T1 & T2). unfold rw in *.
    rewrite T2. rewrite T1 in F. rewrite F. rewrite E1, E2. left. apply loc'_emit. reflexivity.
  - (* lexFilterFunction *) unfold lex_filter_function in *. cbn [pos rest] in *. destruct x as [|[r w] x].
    + exfalso. subst l. cbn [app wsum rest pos] in *. destruct b_cases as [E|(c & w & t & E & Hw)]; rewrite E in *; [nt2 Hnt|].
      match type of H with context [ff_loop U ?L ?P ?R] => pose proof (ff_loop_ge U L R P) end. unfold rw in *; lia.
    + subst l l'. cbn [app wsum rest pos] in *.
      destruct (ff_loop_ins _ _ Hl x (ps + w) ltac:(unfold rw in *; lia) Hnt) as [L|Bd]; [now left|right; right]. split; [now rewrite Nat.add_assoc|now left].
  - (* lexNode *) left. unfold lex_node in *. subst l l'. cbn [pos rest] in *. eapply node_loop_ins; [exact Hl|apply le_n|exact H|exact Hnt].
  - (* lexBlankNode *) unfold lex_blank_node in *. subst l l'. cbn [pos rest] in *. destruct x as [|[r w] x].
    + exfalso. cbn [app wsum] in *. destruct b_cases as [E|(c & w & t & E & Hw)]; rewrite E in *; [nt2 Hnt|].
      destruct (negb (Z.eqb c r_colon)); [nt2 Hnt|]. destruct t as [|[r2 w2] t2]; [nt2 Hnt|].
      destruct (negb (is_letter U r2)); [nt2 Hnt|].
      pose proof (scan_while_ge (ident_rune U) t2 (ps + w + w2)) as G. destruct (scan_while (ident_rune U) (ps + w + w2) t2).
      unfold rpos in H. cbn in *. lia.
    + cbn [app wsum] in *. destruct (negb (Z.eqb r r_colon)); [nt2 Hnt|]. destruct x as [|[r2 w2] x2].
      * exfalso. cbn [app wsum] in *. destruct b_cases as [E|(c & w0 & t & E & Hw)]; rewrite E in *; [nt2 Hnt|].
        destruct (negb (is_letter U c)); [nt2 Hnt|].
        pose proof (scan_while_ge (ident_rune U) t (ps + w + w0)) as G. destruct (scan_while (ident_rune U) (ps + w + w0) t).
        unfold rpos in H. cbn in *. lia.
      * cbn [app wsum] in *. destruct (negb (is_letter U r2)); [nt2 Hnt|].
        assert (Bd : fst (scan_while (ident_rune U) (ps + w + w2) (x2 ++ b)) <= ps + w + w2 + wsum x2).
        { destruct (scan_while (ident_rune U) (ps + w + w2) (x2 ++ b)). unfold rpos in H. cbn in *. lia. }
        destruct (scan_ins _ (rej_ident U HU) x2 (ps + w + w2) Bd) as (E1 & E2 & _ & _). unfold rw in *. rewrite E1, E2.
        left. apply loc'_emit. reflexivity.
  - (* lexBinding *) unfold lex_binding in *. subst l l'. cbn [pos rest] in *.
    assert (Bd : fst (scan_while (ident_rune U) ps (x ++ b)) <= ps + wsum x).
    { destruct (scan_while (ident_rune U) ps (x ++ b)). unfold rpos in H. cbn in *. lia. }
    destruct (scan_ins _ (rej_ident U HU) x ps Bd) as (E1 & E2 & _ & _). unfold rw in *. rewrite E1, E2. left. apply loc'_emit. reflexivity.
  - (* lexPredicateOrLiteral *) destruct x as [|[r w] x].
    + right; left. subst l. cbn [app wsum] in *. unfold lex_pred_or_lit in *. cbn [rest pos] in *.
      destruct (index_of (zs s_anchor) _) as [p|]; destruct (index_of (zs s_literalType) _) as [q|];
        first [ nt2 Hnt
              | apply bad_goto; [lia|repeat match goal with |- context [if ?c then _ else _] => destruct c end; cbn; lia] ].
    + left. subst l l'. apply lex_pol_ins; [exact NP|discriminate].
  - (* lexPredicate *) unfold lex_predicate in *. cbn [pos rest] in *. destruct x as [|[r w] x].
    + exfalso. subst l. cbn [app wsum rest pos] in *. destruct b_cases as [E|(c & w & t & E & Hw)]; rewrite E in *; [nt2 Hnt|].
      match type of H with context [pred_loop U ?L ?P ?R] => pose proof (pred_loop_ge U L _ R (le_n _) P) end. unfold rw in *; lia.
    + left. subst l l'. cbn [app wsum rest pos] in *. eapply pred_loop_ins; [exact Hl|apply le_n|unfold rw in *; lia|exact Hnt].
  - (* lexLiteral *) unfold lex_literal in *. cbn [pos rest] in *. destruct x as [|[r w] x].
    + exfalso. subst l. cbn [app wsum rest pos] in *. destruct b_cases as [E|(c & w & t & E & Hw)]; rewrite E in *; [nt2 Hnt|].
      match type of H with context [lit_loop U ?L ?P ?R] => pose proof (lit_loop_ge U L _ R (le_n _) P) end. unfold rw in *; lia.
    + left. subst l l'. cbn [app wsum rest pos] in *. eapply lit_loop_ins; [exact Hl|apply le_n|unfold rw in *; lia|exact Hnt].
  - (* lexPredicateGlobalTime *) unfold lex_global_time in *. cbn [pos rest] in *. destruct x as [|[r w] x].
    + subst l. cbn [app wsum rest pos] in *. destruct b_cases as [E|(c & w & t & E & Hw)]; rewrite E in *.
      * right; right. split; [apply bad_emit; [lia|right; left; reflexivity]|right; now left].
      * exfalso. match type of H with context [gt_loop U ?L ?A ?B ?P ?R] => pose proof (gt_loop_ge U L R A B P) end. unfold rw in *; lia.
    + subst l l'. cbn [app wsum rest pos] in *.
      destruct (gt_loop_ins _ _ Hl x false false (ps + w) ltac:(unfold rw in *; lia) Hnt) as [L|Bd]; [now left|right; right]. split; [now rewrite Nat.add_assoc|right; now left].
  - (* lexTime *) unfold lex_time in *. cbn [pos rest] in *. destruct x as [|[r w] x].
    + subst l. cbn [app wsum rest pos] in *. destruct b_cases as [E|(c & w & t & E & Hw)]; rewrite E in *.
      * right; right. split; [apply bad_emit; [lia|right; left; reflexivity]|right; now right].
      * exfalso. match type of H with context [time_loop U ?L ?P ?R] => pose proof (time_loop_ge U L R P) end. unfold rw in *; lia.
    + subst l l'. cbn [app wsum rest pos] in *.
      destruct (time_loop_ins _ _ Hl x (ps + w) ltac:(unfold rw in *; lia) Hnt) as [L|Bd]; [now left|right; right]. split; [now rewrite Nat.add_assoc|right; now right].
Qed.

(* ---------------------------------------------------------------- the simulation *)
Lemma np_suffix P S0 : no_partial_marker (P ++ S0) -> no_partial_marker S0.
Proof. intros H pat Hp P0 S pat' E. apply (H pat Hp (P ++ P0) S pat'). now rewrite E, app_assoc. Qed.

Lemma np_tl X : no_partial_marker X -> no_partial_marker (tl X).
Proof. destruct X as [|a X]; [auto|]. intro H. apply (np_suffix [a]). exact H. Qed.

Theorem sim_run_ins : forall f s x st ps lk total pre t post fin,
  wf total (mkLx (x ++ b) st ps lk) -> widths_pos x -> no_partial_marker (map fst x) ->
  run U f s (mkLx (x ++ b) st ps lk) = (pre ++ t :: post, fin) -> post <> [] -> tk_end t = ps + wsum x ->
  tk_start t < tk_end t -> ~ unsafe (tk_kind t) ->
  run U f s (mkLx (x ++ z2) st ps lk) = (pre ++ t :: map (shift_tok (length ws)) post, fin).
Proof.
  induction f as [|f IH]; intros s x st ps lk total pre t post fin Hwf Hwp NP Hrun Hpost Hend Hne Hsafe.
  { cbn in Hrun. inversion Hrun. destruct pre; discriminate. }
  cbn [run] in Hrun |- *.
  pose proof (step_good U total s _ Hwf) as G.
  pose proof (step_post U s (mkLx (x ++ b) st ps lk)) as [Sf Sh]. cbn [rest] in Sf.
  pose proof (step_ins s x st ps lk (np_tl _ NP)) as L. unfold rw in *.
  destruct (step U s (mkLx (x ++ b) st ps lk)) as [[toks nxt] l1'] eqn:E1. unfold rpos in L. cbn [fst snd] in L.
  unfold good in G. destruct G as (Hwf' & _ & G). cbn [shape] in Sh. cbn [snd] in Sf.
  destruct nxt as [s'|].
  2:{ exfalso. inversion Hrun as [[Ht Hf]]. destruct Sh as [->|(k & a & e & -> & _)].
      - destruct pre; discriminate.
      - destruct pre as [|p0 pre]; cbn in Ht; inversion Ht; subst; [apply Hpost; reflexivity|destruct pre; discriminate]. }
  destruct (run U f s' l1') as [ts' fin'] eqn:R1. inversion Hrun as [[Hts Hfin]]. subst fin'.
  assert (Hb : pos l1' <= ps + wsum x).
  { pose proof (run_pos_le U f s' l1' ts' fin R1) as PL. rewrite Forall_forall in PL.
    destruct Sh as [->|(k & a & e & -> & Ep & _)].
    - cbn [app] in Hts. rewrite <- Hend. apply PL. rewrite Hts. apply in_or_app. right. now left.
    - destruct pre as [|p0 pre]; cbn [app] in Hts; inversion Hts; subst.
      + cbn [tk_end snd] in Hend. lia.
      + rewrite <- Hend. apply PL. apply in_or_app. right. now left. }
  assert (Hwpr : widths_pos (rest l1')).
  { destruct (suf_wsum _ _ Sf) as (_ & _ & W); [|exact W]. unfold widths_pos in *. apply Forall_app. split; assumption. }
  destruct (L Hb ltac:(cbn; discriminate)) as [(x' & Er & E2)|Bd].
  2:{ (* the call looked at b without consuming it *)
      exfalso. cbn [fst snd] in Bd. destruct Bd as [(Bp & Et & s0 & Es & Hr)|[(Bp & k & a & e & Et & Hk) _]]; cbn [fst snd] in *.
      - subst toks. inversion Es; subst s0. cbn [app] in Hts. subst ts'.
        destruct (no_emit_at U total f s' l1' _ fin Hwf' Hwpr Hr R1) as [Hlen|Hall].
        + rewrite app_length in Hlen. cbn [length] in Hlen. destruct post; [apply Hpost; reflexivity|cbn in Hlen; lia].
        + rewrite Forall_forall in Hall. specialize (Hall t ltac:(apply in_or_app; right; now left)). lia.
      - subst toks. destruct pre as [|p0 pre]; cbn [app] in Hts; inversion Hts; subst.
        + apply Hsafe. exact Hk.
        + (* an earlier token ends at the boundary: t would be empty *)
          destruct G as [_ [G|(k' & a' & e' & Et' & _ & _ & Ee & _)]]; [discriminate|]. inversion Et'; subst.
          destruct Sh as [Sh|(k2 & a2 & e2 & Et2 & Ep2 & _)]; [discriminate|]. inversion Et2; subst.
          pose proof (run_start_ge U total f s' l1' _ fin Hwf' R1) as SG. rewrite Forall_forall in SG.
          specialize (SG t ltac:(apply in_or_app; right; now left)). lia. }
  cbn [fst snd] in Er, E2.
  destruct l1' as [rs' st' ps' lk']. cbn [rest pos] in *. subst rs'. unfold set_rest in E2. cbn [start pos last] in E2.
  rewrite E2.
  assert (Hx' : suf x' x /\ ps' + wsum x' = ps + wsum x).
  { destruct Sf as [p0 Ep0]. rewrite app_assoc in Ep0. apply app_inv_tail in Ep0. split; [exists p0; exact Ep0|].
    destruct Hwf as [_ Ht1]. destruct Hwf' as [_ Ht2]. cbn [rest pos] in *. rewrite wsum_app in Ht1, Ht2. lia. }
  destruct Hx' as [[p0 Ep0] Hsum].
  assert (Hwp' : widths_pos x') by (unfold widths_pos in *; rewrite Ep0 in Hwp; apply Forall_app in Hwp; tauto).
  assert (NP' : no_partial_marker (map fst x')) by (rewrite Ep0, map_app in NP; exact (np_suffix _ _ NP)).
  destruct Sh as [->|(k & a & e & -> & Ep & Hn)].
  - cbn [app] in Hts. subst ts'.
    pose proof (IH s' x' st' ps' lk' total pre t post fin Hwf' Hwp' NP' R1 Hpost ltac:(lia) Hne Hsafe) as IHr.
    unfold rw in *. rewrite IHr. reflexivity.
  - destruct pre as [|p0' pre]; cbn [app] in Hts; inversion Hts; subst.
    + assert (s' = SSpace) by (destruct Hn as [Hn|Hn]; [discriminate|now inversion Hn]). subst s'.
      cbn [tk_end snd] in Hend. assert (x' = []) by (apply wsum_zero; [assumption|lia]). subst x'. cbn [app] in *.
      pose proof (run_after_token_ws U HU f (mkLx [] st' e lk') ws b Wws) as A2.
      unfold set_rest in A2. cbn [start pos last] in A2. unfold z2. rewrite A2. rewrite R1. reflexivity.
    + pose proof (IH s' x' st' _ lk' total pre t post fin Hwf' Hwp' NP' R1 Hpost ltac:(cbn [tk_end snd] in *; lia) Hne Hsafe) as IHr.
      unfold rw in *. rewrite IHr. reflexivity.
Qed.

End Ins.

(* ---------------------------------------------------------------- whole lexer *)
Theorem ws_insert_runes : forall U, ascii_ok U -> forall ws b, Forall ws_byte ws -> ws <> [] -> widths_pos b ->
  forall x pre t post, widths_pos x -> no_partial_marker (map fst x) ->
    fst (lex_runes U (x ++ b)) = pre ++ t :: post -> post <> [] -> tk_end t = wsum x ->
    tk_start t < tk_end t -> ~ unsafe (tk_kind t) ->
    fst (lex_runes U (x ++ ascii_runes ws ++ b)) = pre ++ t :: map (shift_tok (length ws)) post.
Proof.
  intros U HU ws b W N Hwb x pre t post Hwp NP H1 Hpost Hend Hne Hsafe.
  set (r1 := x ++ b) in *. set (r2 := x ++ ascii_runes ws ++ b).
  destruct (lex_runes U r1) as [T1 f1] eqn:E1. destruct (lex_runes U r2) as [T2 f2] eqn:E2. cbn [fst] in *. subst T1.
  destruct (lex_runes_good U _ r1 _ _ eq_refl E1) as (-> & _). destruct (lex_runes_good U _ r2 _ _ eq_refl E2) as (-> & _).
  unfold lex_runes in E1, E2. set (F := Nat.max (fuel_for r1) (fuel_for r2)).
  pose proof (run_fuel_mono U _ _ _ _ E1 F ltac:(lia)) as M1. pose proof (run_fuel_mono U _ _ _ _ E2 F ltac:(lia)) as M2.
  unfold init_lx in M1, M2.
  pose proof (sim_run_ins U HU ws b W N Hwb F SToken x 0 0 ItemError (wsum r1) pre t post true
                (init_wf _ r1 eq_refl) Hwp NP M1 Hpost Hend Hne Hsafe) as Er.
  unfold z2 in Er. fold r2 in Er. rewrite M2 in Er. now inversion Er.
Qed.

Theorem ws_insert_bytes : forall U, ascii_ok U -> forall (xb ws bb : list byte),
  Forall ws_byte ws -> ws <> [] ->
  (match bb with [] => True | a :: _ => (bz a < 128)%Z end) ->
  no_partial_marker (map fst (decode_all xb)) ->
  forall pre t post,
    fst (lex_with U (xb ++ bb)) = pre ++ t :: post -> post <> [] -> tk_end t = length xb ->
    tk_start t < tk_end t -> ~ unsafe (tk_kind t) ->
    fst (lex_with U (xb ++ ws ++ bb)) = pre ++ t :: map (shift_tok (length ws)) post.
Proof.
  intros U HU xb ws bb W N Hbb NP pre t post H1 Hpost Hend Hne Hsafe.
  assert (D1 : decode_all (xb ++ bb) = decode_all xb ++ decode_all bb).
  { destruct bb as [|a bb']; [now rewrite !app_nil_r|]. apply (decode_all_split (length xb) xb (le_n _) a bb' Hbb). }
  assert (D2 : decode_all (xb ++ ws ++ bb) = decode_all xb ++ ascii_runes ws ++ decode_all bb).
  { destruct ws as [|a w]; [congruence|]. inversion W; subst. cbn [app].
    rewrite (decode_all_split (length xb) xb (le_n _) a (w ++ bb)) by (unfold ws_byte in *; lia).
    f_equal. change (a :: w ++ bb) with ((a :: w) ++ bb). apply decode_all_ascii.
    eapply Forall_impl; [|exact W]. unfold ws_byte. intros c Hc. lia. }
  unfold lex_with in *. rewrite D1 in H1. rewrite D2.
  apply (ws_insert_runes U HU ws (decode_all bb) W N (decode_widths_pos (length bb) bb (le_n _)) (decode_all xb) pre t post); auto.
  - apply (decode_widths_pos (length xb)). apply le_n.
  - rewrite Hend. symmetry. apply (wsum_decode_all (length xb)). apply le_n.
Qed.

(* an input prefix without any double quote cannot end in a partial delimiter *)
Lemma no_quote_no_partial X : Forall (fun z => z <> 34%Z) X -> no_partial_marker X.
Proof.
  intros H pat Hp P S pat' E Hne Ep. exfalso. destruct S as [|s S]; [congruence|].
  assert (s = 34%Z).
  { destruct Hp as [-> | ->]; [rewrite anchor_is in Ep|destruct marker_is as (m' & Em); rewrite Em in Ep]; cbn in Ep; inversion Ep; reflexivity. }
  subst s. rewrite E in H. apply Forall_app in H. destruct H as [_ H]. inversion H as [|? ? Hq _]. congruence.
Qed.

Theorem ws_insert_kinds : forall U, ascii_ok U -> forall (xb ws bb : list byte),
  Forall ws_byte ws -> ws <> [] ->
  (match bb with [] => True | a :: _ => (bz a < 128)%Z end) ->
  no_partial_marker (map fst (decode_all xb)) ->
  forall pre t post,
    fst (lex_with U (xb ++ bb)) = pre ++ t :: post -> post <> [] -> tk_end t = length xb ->
    tk_start t < tk_end t -> ~ unsafe (tk_kind t) ->
    map tk_kind (fst (lex_with U (xb ++ ws ++ bb))) = map tk_kind (fst (lex_with U (xb ++ bb))).
Proof.
  intros U HU xb ws bb W N Hbb NP pre t post H1 Hpost Hend Hne Hsafe.
  rewrite (ws_insert_bytes U HU xb ws bb W N Hbb NP pre t post H1 Hpost Hend Hne Hsafe), H1.
  rewrite !map_app. cbn [map]. now rewrite map_kind_shift.
Qed.

(* ---------------------------------------------------------------- the delimiter hypothesis as a boolean check *)
Definition ends_with (S X : list Z) : bool :=
  (length S <=? length X) && list_zeqb S (skipn (length X - length S) X).

(* no non-empty proper prefix of "@[ or "^^type: is a suffix of X *)
Definition partial_marker_free (X : list Z) : bool :=
  forallb (fun pat => forallb (fun i => negb (ends_with (firstn i pat) X)) (seq 1 (length pat - 1)))
          [zs s_anchor; zs s_literalType].

Lemma list_zeqb_refl' : forall a, list_zeqb a a = true.
Proof. induction a as [|x a IH]; cbn; [reflexivity|]. now rewrite Z.eqb_refl, IH. Qed.

Lemma ends_with_app P S : ends_with S (P ++ S) = true.
Proof.
  unfold ends_with. rewrite app_length. destruct (Nat.leb_spec (length S) (length P + length S)); [|lia]. cbn [andb].
  replace (length P + length S - length S) with (length P) by lia. rewrite skipn_app_exact. apply list_zeqb_refl'.
Qed.

Lemma pmf_sound X : partial_marker_free X = true -> no_partial_marker X.
Proof.
  intros H pat Hp P S pat' E Hne Ep. destruct pat' as [|q pat']; [reflexivity|]. exfalso.
  unfold partial_marker_free in H. cbn [forallb] in H. rewrite andb_true_r in H. apply andb_prop in H. destruct H as [Ha Hm].
  assert (G : forallb (fun i => negb (ends_with (firstn i pat) X)) (seq 1 (length pat - 1)) = true)
    by (destruct Hp as [-> | ->]; assumption).
  rewrite forallb_forall in G. specialize (G (length S)).
  assert (Hin : In (length S) (seq 1 (length pat - 1))).
  { apply in_seq. rewrite Ep, app_length. cbn [length]. destruct S; [congruence|cbn; lia]. }
  specialize (G Hin). rewrite Ep in G. rewrite firstn_app, Nat.sub_diag, firstn_all in G. cbn [firstn] in G. rewrite app_nil_r in G.
  rewrite E, ends_with_app in G. discriminate.
Qed.
