(* Whitespace between tokens (C16), part B: replacing a NON-EMPTY run of ASCII white space that follows a token by
   another non-empty run.  The two runs are simulated step by step up to the end of that token (every state function
   that does not read past the boundary behaves identically on both inputs: LOC lemmas), then WsProofs takes over. *)
From Coq Require Import List ZArith NArith Bool Arith Lia.
From Coq.Strings Require Import Byte.
Import ListNotations.
From BWLexer Require Import Utf8 Unicode Lexer LexerProofs CaseProofs WsProofs.
From BWLexer.Gen Require Import LexTablesGen.

Definition rpos (r : res) : nat := pos (snd r).

(* an ASCII white-space rune *)
Definition wsr (c : Z) : Prop := (9 <= c <= 13)%Z \/ c = 32%Z.

Lemma ws_symbols_none : forallb (fun c => match assoc_sym c single_symbols with None => true | Some _ => false end)
                                [9; 10; 11; 12; 13; 32]%Z = true.
Proof. vm_compute. reflexivity. Qed.

Lemma wsr_cases c : wsr c -> In c [9; 10; 11; 12; 13; 32]%Z.
Proof. unfold wsr. intros [H|H]; cbn; lia. Qed.

Lemma wsr_no_symbol c : wsr c -> assoc_sym c single_symbols = None.
Proof.
  intro H. pose proof ws_symbols_none as K. rewrite forallb_forall in K. specialize (K c (wsr_cases c H)).
  destruct (assoc_sym c single_symbols); [discriminate|reflexivity].
Qed.

(* none of the rune constants the state functions compare with is white space *)
Lemma consts_not_ws :
  forallb (fun c => negb (Z.leb 9 c && Z.leb c 13 || Z.eqb c 32))
    [r_binding; r_slash; r_underscore; r_quote; r_leftPar; r_rightPar; r_backSlash; r_lt; r_gt; r_colon; r_comma;
     r_semicolon; r_rightSquarePar] = true.
Proof. vm_compute. reflexivity. Qed.

Lemma wsr_b c : wsr c -> (Z.leb 9 c && Z.leb c 13 || Z.eqb c 32)%bool = true.
Proof.
  unfold wsr. intros [H|H].
  - destruct (Z.leb_spec 9 c); destruct (Z.leb_spec c 13); try lia; try reflexivity.
  - subst. reflexivity.
Qed.

Ltac not_ws_const c K :=
  let H := fresh in
  pose proof consts_not_ws as H; cbn [forallb] in H;
  repeat (apply andb_prop in H; let H1 := fresh in destruct H as [H1 H]);
  repeat match goal with
         | H1 : negb (Z.leb 9 ?x && Z.leb ?x 13 || Z.eqb ?x 32) = true |- _ =>
           assert (Z.eqb c x = false) by
             (let e := fresh in destruct (Z.eqb_spec c x) as [e|e]; [rewrite <- e in H1; rewrite (wsr_b c K) in H1; discriminate H1|reflexivity]);
           clear H1
         end.

Section Sim.
Variable U : uni.
Hypothesis HU : ascii_ok U.

Lemma wsr_range c : wsr c -> (0 <= c < 128)%Z.
Proof. unfold wsr. lia. Qed.

Lemma wsr_class c : wsr c ->
  is_letter U c = false /\ is_digit U c = false /\ is_space U c = true /\ to_lower U c = c.
Proof.
  intro H. destruct (HU c (wsr_range c H)) as (E1 & E2 & E3 & E4). rewrite E1, E2, E3, E4.
  unfold ascii_letter, ascii_digit, ascii_space, ascii_lower, between. unfold wsr in H.
  repeat match goal with |- context [Z.leb ?a ?b] => destruct (Z.leb_spec a b) end;
  repeat match goal with |- context [Z.eqb ?a ?b] => destruct (Z.eqb_spec a b) end; cbn; repeat split; try reflexivity; lia.
Qed.

(* ---------------------------------------------------------------- every loop only moves forward *)
Lemma scan_while_ge p : forall rs ps, ps <= fst (scan_while p ps rs).
Proof. intros rs ps. destruct (scan_while p ps rs) as [p' rs'] eqn:E. apply scan_while_spec in E. cbn. lia. Qed.

Lemma consume_ge : forall text rs ps, ps <= snd (fst (consume U text ps rs)).
Proof. intros text rs ps. destruct (consume U text ps rs) as [[b p'] rs'] eqn:E. apply consume_spec in E. cbn. lia. Qed.

Ltac ge IH :=
  repeat first
    [ lia
    | match goal with |- context [if ?c then _ else _] => destruct c end
    | match goal with |- _ <= rpos (emit _ _ _ _ _) => unfold rpos, emit; cbn [snd pos]; lia end
    | match goal with |- _ <= rpos (emit_error _ _ _) => unfold rpos, emit_error; cbn [snd pos]; lia end
    | (etransitivity; [|apply IH]; lia) ].

Lemma ff_loop_ge l : forall rs ps, ps <= rpos (ff_loop U l ps rs).
Proof. induction rs as [|[r w] rs IH]; intro ps; cbn [ff_loop]; ge IH. Qed.

Lemma node_loop_ge l : forall n rs, length rs <= n -> forall ltid ps, ps <= rpos (node_loop l ltid ps rs).
Proof.
  induction n as [|n IH]; intros rs Hn ltid ps.
  - destruct rs; [cbn; unfold rpos; cbn; lia|cbn in Hn; lia].
  - destruct rs as [|[r w] rs]; [unfold rpos; cbn; lia|]. cbn [length] in Hn. cbn [node_loop].
    destruct (Z.eqb r r_backSlash).
    + destruct rs as [|[r2 w2] rs2]; [etransitivity; [|apply IH]; cbn; lia|].
      destruct (Z.eqb r2 r_lt); (etransitivity; [|apply IH]; cbn [length] in *; lia).
    + destruct (Z.eqb r r_lt); [etransitivity; [|apply IH]; lia|].
      destruct (Z.eqb r r_gt); [destruct ltid; unfold rpos; cbn; lia|].
      etransitivity; [|apply IH]; lia.
Qed.

Lemma bounds_loop_ge l : forall rs c ps, ps <= rpos (bounds_loop l c ps rs).
Proof. induction rs as [|[r w] rs IH]; intros c ps; cbn [bounds_loop]; ge IH. Qed.

Lemma pred_loop_ge l : forall n rs, length rs <= n -> forall ps, ps <= rpos (pred_loop U l ps rs).
Proof.
  induction n as [|n IH]; intros rs Hn ps.
  - destruct rs; [unfold rpos; cbn; lia|cbn in Hn; lia].
  - destruct rs as [|[r w] rs]; [unfold rpos; cbn; lia|]. cbn [length] in Hn. cbn [pred_loop].
    destruct (Z.eqb r r_backSlash).
    + destruct rs as [|[r2 w2] rs2]; [etransitivity; [|apply IH]; cbn; lia|].
      destruct (Z.eqb r2 r_quote); (etransitivity; [|apply IH]; cbn [length] in *; lia).
    + destruct (Z.eqb r r_quote).
      * match goal with |- context [consume ?xa ?xb ?xc ?xd] =>
          pose proof (consume_ge xb xd xc) as G; destruct (consume xa xb xc xd) as [[b p1] rs1] end.
        cbn [fst snd] in G. destruct b; [etransitivity; [|apply bounds_loop_ge]; lia|unfold rpos; cbn; lia].
      * etransitivity; [|apply IH]; lia.
Qed.

Lemma literal_tail_ge l p1 rs1 : p1 <= rpos (literal_tail U l p1 rs1).
Proof.
  unfold literal_tail. pose proof (scan_while_ge (letter_or_digit U) rs1 p1) as G.
  destruct (scan_while (letter_or_digit U) p1 rs1) as [p2 rs2]. cbn [fst] in G.
  destruct (mem_zs _ literal_types); [unfold rpos; cbn; lia|]. destruct rs2 as [|[r3 w3] rs3]; unfold rpos; cbn; lia.
Qed.

Lemma lit_loop_ge l : forall n rs, length rs <= n -> forall ps, ps <= rpos (lit_loop U l ps rs).
Proof.
  induction n as [|n IH]; intros rs Hn ps.
  - destruct rs; [unfold rpos; cbn; lia|cbn in Hn; lia].
  - destruct rs as [|[r w] rs]; [unfold rpos; cbn; lia|]. cbn [length] in Hn. cbn [lit_loop].
    destruct (Z.eqb r r_backSlash).
    + destruct rs as [|[r2 w2] rs2]; [etransitivity; [|apply IH]; cbn; lia|].
      destruct (Z.eqb r2 r_quote); (etransitivity; [|apply IH]; cbn [length] in *; lia).
    + destruct (Z.eqb r r_quote).
      * match goal with |- context [consume ?xa ?xb ?xc ?xd] =>
          pose proof (consume_ge xb xd xc) as G; destruct (consume xa xb xc xd) as [[b p1] rs1] end.
        cbn [fst snd] in G. destruct b; [etransitivity; [|apply literal_tail_ge]; lia|unfold rpos; cbn; lia].
      * etransitivity; [|apply IH]; lia.
Qed.

Lemma gt_loop_ge l : forall rs sk cs ps, ps <= rpos (gt_loop U l sk cs ps rs).
Proof. induction rs as [|[r w] rs IH]; intros sk cs ps; cbn [gt_loop]; ge IH. Qed.

Lemma time_loop_ge l : forall rs ps, ps <= rpos (time_loop U l ps rs).
Proof. induction rs as [|[r w] rs IH]; intro ps; cbn [time_loop]; ge IH. Qed.

Lemma lex_token_ge : forall n rs, length rs <= n -> forall lastk st ps, ps <= rpos (lex_token U lastk st ps rs).
Proof.
  induction n as [|n IH]; intros rs Hn lastk st ps.
  - destruct rs; [unfold rpos; cbn; lia|cbn in Hn; lia].
  - destruct rs as [|[r w] rs]; [unfold rpos; cbn; lia|]. cbn [length] in Hn. cbn [lex_token].
    destruct (is_digit U r && mem_N lastk last_global_time); [unfold rpos; cbn; lia|].
    destruct (is_digit U r && mem_N lastk last_local_time); [unfold rpos; cbn; lia|].
    destruct (Z.eqb r r_binding); [unfold rpos; cbn; lia|].
    destruct (Z.eqb r r_slash); [unfold rpos; cbn; lia|].
    destruct (Z.eqb r r_underscore); [unfold rpos; cbn; lia|].
    destruct (Z.eqb r r_quote); [unfold rpos; cbn; lia|].
    destruct (is_letter U r); [destruct (mem_N lastk last_filter_function); unfold rpos; cbn; lia|].
    destruct (assoc_sym r single_symbols); [unfold rpos; cbn; lia|].
    destruct (is_space U r); [etransitivity; [|apply IH]; lia|].
    destruct rs as [|[r2 w2] rs2]; [unfold rpos; cbn; lia|].
    etransitivity; [|apply IH]; cbn [length] in *; lia.
Qed.

Lemma step_ge s l : pos l <= rpos (step U s l).
Proof.
  destruct s; cbn [step].
  - eapply lex_token_ge. apply le_n.
  - unfold lex_space. pose proof (scan_while_ge (is_space U) (rest l) (pos l)) as G.
    destruct (scan_while (is_space U) (pos l) (rest l)). unfold rpos. cbn in *. lia.
  - unfold lex_keyword. destruct (find_keyword _ keywords).
    + pose proof (scan_while_ge (is_letter U) (rest l) (pos l)) as G.
      destruct (scan_while (is_letter U) (pos l) (rest l)). unfold rpos. cbn in *. lia.
    + match goal with |- context [scan_while ?p ?a ?b] => pose proof (scan_while_ge p b a) as G; destruct (scan_while p a b) end.
      unfold rpos. cbn in *. lia.
  - unfold lex_filter_function. destruct (rest l) as [|[r w] rs]; [unfold rpos; cbn; lia|].
    etransitivity; [|apply ff_loop_ge]; lia.
  - unfold lex_node. eapply node_loop_ge. apply le_n.
  - unfold lex_blank_node. destruct (rest l) as [|[r w] rs]; [unfold rpos; cbn; lia|].
    destruct (negb _); [unfold rpos; cbn; lia|]. destruct rs as [|[r2 w2] rs2]; [unfold rpos; cbn; lia|].
    destruct (negb _); [unfold rpos; cbn; lia|].
    pose proof (scan_while_ge (ident_rune U) rs2 (pos l + w + w2)) as G.
    destruct (scan_while (ident_rune U) (pos l + w + w2) rs2). unfold rpos. cbn in *. lia.
  - unfold lex_binding. pose proof (scan_while_ge (ident_rune U) (rest l) (pos l)) as G.
    destruct (scan_while (ident_rune U) (pos l) (rest l)). unfold rpos. cbn in *. lia.
  - unfold lex_pred_or_lit.
    destruct (index_of (zs s_anchor) _); destruct (index_of (zs s_literalType) _); unfold rpos; cbn; lia.
  - unfold lex_predicate. destruct (rest l) as [|[r w] rs]; [unfold rpos; cbn; lia|].
    etransitivity; [|eapply pred_loop_ge; apply le_n]; lia.
  - unfold lex_literal. destruct (rest l) as [|[r w] rs]; [unfold rpos; cbn; lia|].
    etransitivity; [|eapply lit_loop_ge; apply le_n]; lia.
  - unfold lex_global_time. destruct (rest l) as [|[r w] rs]; [unfold rpos; cbn; lia|].
    etransitivity; [|apply gt_loop_ge]; lia.
  - unfold lex_time. destruct (rest l) as [|[r w] rs]; [unfold rpos; cbn; lia|].
    etransitivity; [|apply time_loop_ge]; lia.
Qed.

(* facts about a white-space rune used by the LOC lemmas *)
Lemma ws_facts c : wsr c ->
  Z.eqb c r_binding = false /\ Z.eqb c r_slash = false /\ Z.eqb c r_underscore = false /\ Z.eqb c r_quote = false /\
  Z.eqb c r_leftPar = false /\ Z.eqb c r_rightPar = false /\ Z.eqb c r_backSlash = false /\ Z.eqb c r_lt = false /\
  Z.eqb c r_gt = false /\ Z.eqb c r_colon = false /\ Z.eqb c r_comma = false /\ Z.eqb c r_semicolon = false /\
  Z.eqb c r_rightSquarePar = false.
Proof. intro K. not_ws_const c K. repeat split; assumption. Qed.

(* ---------------------------------------------------------------- the two inputs *)
Variables ws1 ws2 : list byte.
Variable b : list rw.
Hypothesis W1 : Forall ws_byte ws1.
Hypothesis W2 : Forall ws_byte ws2.
Hypothesis N1 : ws1 <> [].
Hypothesis N2 : ws2 <> [].

Definition y1 : list rw := ascii_runes ws1 ++ b.
Definition y2 : list rw := ascii_runes ws2 ++ b.

Lemma ws_byte_wsr a : ws_byte a -> wsr (bz a).
Proof. unfold ws_byte, wsr. tauto. Qed.

Lemma y1_head : exists c t, y1 = (c, 1) :: t /\ wsr c.
Proof. unfold y1. destruct ws1 as [|a w]; [congruence|]. inversion W1; subst. eexists _, _. split; [reflexivity|now apply ws_byte_wsr]. Qed.
Lemma y2_head : exists c t, y2 = (c, 1) :: t /\ wsr c.
Proof. unfold y2. destruct ws2 as [|a w]; [congruence|]. inversion W2; subst. eexists _, _. split; [reflexivity|now apply ws_byte_wsr]. Qed.

(* the second result is the first with y1 replaced by y2 in the remaining input *)
Definition loc (r1 r2 : res) : Prop :=
  exists x', rest (snd r1) = x' ++ y1 /\ r2 = (fst r1, set_rest (snd r1) (x' ++ y2)).

Lemma loc_emit k l l' ps x' nx : start l = start l' -> loc (emit k l ps (x' ++ y1) nx) (emit k l' ps (x' ++ y2) nx).
Proof. intro E. exists x'. split; [reflexivity|]. unfold emit. now rewrite E. Qed.
Lemma loc_error l l' ps x' : start l = start l' -> last l = last l' ->
  loc (emit_error l ps (x' ++ y1)) (emit_error l' ps (x' ++ y2)).
Proof. intros E E'. exists x'. split; [reflexivity|]. unfold emit_error. now rewrite E, E'. Qed.
Lemma loc_goto toks s x' st ps lk : loc (toks, Some s, mkLx (x' ++ y1) st ps lk) (toks, Some s, mkLx (x' ++ y2) st ps lk).
Proof. exists x'. split; reflexivity. Qed.

(* scanning loops stop at the boundary when the predicate rejects white space *)
Lemma scan_while_app p yy : (match yy with [] => True | (c, _) :: _ => p c = false end) -> forall x ps,
  scan_while p ps (x ++ yy) = (fst (scan_while p ps x), snd (scan_while p ps x) ++ yy).
Proof.
  intros Hy. induction x as [|[r w] x IH]; intro ps; cbn [app scan_while].
  - destruct yy as [|[c w] t]; [reflexivity|]. cbn. now rewrite Hy.
  - destruct (p r); [apply IH|reflexivity].
Qed.

Lemma take_while_app p yy : (match yy with [] => True | (c, _) :: _ => p c = false end) -> forall x,
  take_while p (x ++ yy) = take_while p x.
Proof.
  intros Hy. induction x as [|[r w] x IH]; cbn [app take_while].
  - destruct yy as [|[c w] t]; [reflexivity|]. cbn. now rewrite Hy.
  - destruct (p r); [now rewrite IH|reflexivity].
Qed.

Lemma y_rejects p : (forall c, wsr c -> p c = false) ->
  (match y1 with [] => True | (c, _) :: _ => p c = false end) /\ (match y2 with [] => True | (c, _) :: _ => p c = false end).
Proof.
  intro H. destruct y1_head as (c1 & t1 & E1 & K1). destruct y2_head as (c2 & t2 & E2 & K2). rewrite E1, E2. auto.
Qed.

Lemma rej_letter c : wsr c -> is_letter U c = false. Proof. intro K. apply (wsr_class c K). Qed.
Lemma rej_ident c : wsr c -> ident_rune U c = false.
Proof.
  intro K. unfold ident_rune. destruct (wsr_class c K) as (A & B & _). rewrite A, B. cbn.
  destruct (Z.eqb_spec c 95); [|reflexivity]. unfold wsr in K. lia.
Qed.
Lemma rej_lod c : wsr c -> letter_or_digit U c = false.
Proof. intro K. unfold letter_or_digit. destruct (wsr_class c K) as (A & B & _). now rewrite A, B. Qed.
Lemma rej_nonspace c : wsr c -> negb (is_space U c) = false.
Proof. intro K. destruct (wsr_class c K) as (_ & _ & C & _). now rewrite C. Qed.

(* a scanning loop followed by an emit *)
Lemma scan_loc p (F : nat -> list rw -> res) :
  (forall c, wsr c -> p c = false) ->
  (forall ps x', loc (F ps (x' ++ y1)) (F ps (x' ++ y2))) ->
  forall x ps,
    loc (let '(p', rs') := scan_while p ps (x ++ y1) in F p' rs') (let '(p', rs') := scan_while p ps (x ++ y2) in F p' rs').
Proof.
  intros Hp HF x ps. destruct (y_rejects p Hp) as [R1 R2].
  rewrite (scan_while_app p y1 R1), (scan_while_app p y2 R2). apply HF.
Qed.

(* ---------------------------------------------------------------- LOC lemmas: loops that stay before the boundary *)
Ltac boundary H E1 K1 :=
  exfalso; cbn [app] in H; rewrite E1 in H;
  destruct (ws_facts _ K1) as (Fbi & Fsl & Fun & Fq & Flp & Frp & Fbs & Flt & Fgt & Fco & Fcm & Fsc & Frs);
  destruct (wsr_class _ K1) as (Cl & Cd & Cs & Ct).

Section Loops.
Variables l l' : lx.
Hypothesis Hl : start l = start l' /\ last l = last l'.

Lemma ff_loop_loc : forall x ps, rpos (ff_loop U l ps (x ++ y1)) <= ps + wsum x ->
  loc (ff_loop U l ps (x ++ y1)) (ff_loop U l' ps (x ++ y2)).
Proof.
  induction x as [|[r w] x IH]; intros ps H.
  - destruct y1_head as (c1 & t1 & E1 & K1). boundary H E1 K1. cbn [ff_loop] in H. rewrite Flp, Cl in H.
    unfold rpos in H; cbn in H. lia.
  - cbn [app ff_loop wsum] in *. destruct (Z.eqb r r_leftPar); [apply (loc_emit _ l l' ps ((r, w) :: x)); apply Hl|].
    destruct (is_letter U r); [apply IH; lia|apply loc_error; apply Hl].
Qed.

Lemma node_loop_loc : forall n x, length x <= n -> forall ltid ps,
  rpos (node_loop l ltid ps (x ++ y1)) <= ps + wsum x ->
  loc (node_loop l ltid ps (x ++ y1)) (node_loop l' ltid ps (x ++ y2)).
Proof.
  assert (B0 : forall ltid ps, rpos (node_loop l ltid ps ([] ++ y1)) <= ps + wsum [] -> False).
  { intros ltid ps H. destruct y1_head as (c1 & t1 & E1 & K1). boundary H E1 K1. cbn [node_loop] in H.
    rewrite Fbs, Flt, Fgt in H. pose proof (node_loop_ge l _ t1 (le_n _) ltid (ps + 1)). cbn [wsum] in H. lia. }
  induction n as [|n IH]; intros x Hn ltid ps H.
  - destruct x; [exfalso; eapply B0; eauto|cbn in Hn; lia].
  - destruct x as [|[r w] x]; [exfalso; eapply B0; eauto|]. cbn [length] in Hn. cbn [app node_loop wsum] in *.
    destruct (Z.eqb r r_backSlash).
    + destruct x as [|[r2 w2] x2].
      * cbn [app] in *. destruct y1_head as (c1 & t1 & E1 & K1). destruct y2_head as (c2 & t2 & E2 & K2).
        destruct (ws_facts _ K1) as (_ & _ & _ & _ & _ & _ & _ & Flt1 & _).
        destruct (ws_facts _ K2) as (_ & _ & _ & _ & _ & _ & _ & Flt2 & _).
        rewrite E1 in H |- *. rewrite E2. rewrite Flt1 in H |- *. rewrite Flt2. rewrite <- E1 in H |- *. rewrite <- E2.
        apply (IH [] ltac:(cbn; lia)). cbn [app wsum] in *. lia.
      * cbn [app] in *. destruct (Z.eqb r2 r_lt).
        -- apply IH; [cbn [length] in Hn; lia|cbn [wsum] in H; lia].
        -- apply (IH ((r2, w2) :: x2)); [cbn [length] in *; lia|cbn [app wsum] in *; lia].
    + destruct (Z.eqb r r_lt); [apply IH; [lia|lia]|].
      destruct (Z.eqb r r_gt); [destruct ltid; [apply loc_emit; apply Hl|apply loc_error; apply Hl]|].
      apply IH; lia.
Qed.

Lemma bounds_loop_loc : forall x c ps, rpos (bounds_loop l c ps (x ++ y1)) <= ps + wsum x ->
  loc (bounds_loop l c ps (x ++ y1)) (bounds_loop l' c ps (x ++ y2)).
Proof.
  induction x as [|[r w] x IH]; intros c ps H.
  - destruct y1_head as (c1 & t1 & E1 & K1). boundary H E1 K1. cbn [bounds_loop] in H. rewrite Fcm, Frs in H.
    pose proof (bounds_loop_ge l t1 c (ps + 1)). cbn [wsum] in H. lia.
  - cbn [app bounds_loop wsum] in *. destruct (Z.eqb r r_rightSquarePar).
    + destruct (Nat.ltb 1 _); [apply loc_error; apply Hl|]. destruct (Nat.eqb _ 0); apply loc_emit; apply Hl.
    + apply IH. lia.
Qed.

(* l.consume never matches a white-space rune: the strings it is called with contain none *)
Definition ws_free (text : list Z) : Prop :=
  Forall (fun t => forall c, wsr c -> Z.eqb (to_lower U c) (to_lower U t) = false) text.

Lemma consume_app text yy : ws_free text -> (exists c t, yy = (c, 1) :: t /\ wsr c) -> forall x ps,
  consume U text ps (x ++ yy) =
  (fst (fst (consume U text ps x)), snd (fst (consume U text ps x)), snd (consume U text ps x) ++ yy).
Proof.
  intros Hf (c & t & E & K). induction text as [|tc text IH]; intros x ps; cbn [consume]; [reflexivity|].
  inversion Hf as [|? ? Hc Hf']; subst. destruct x as [|[r w] x].
  - cbn [app]. rewrite (Hc c K). reflexivity.
  - cbn [app]. destruct (Z.eqb _ _); [apply IH; assumption|reflexivity].
Qed.

Lemma ascii_text_ws_free (m : list byte) :
  forallb (fun a => Z.ltb (bz a) 128 && negb (Z.leb 9 (ascii_lower (bz a)) && Z.leb (ascii_lower (bz a)) 13 || Z.eqb (ascii_lower (bz a)) 32)) m = true ->
  ws_free (zs m).
Proof.
  intro H. unfold ws_free, zs. apply Forall_map. rewrite forallb_forall in H. apply Forall_forall. intros a Ha c K.
  specialize (H a Ha). apply andb_prop in H. destruct H as [H1 H2]. apply Z.ltb_lt in H1.
  destruct (wsr_class c K) as (_ & _ & _ & Ct). rewrite Ct.
  destruct (HU (bz a) ltac:(pose proof (bz_range a); lia)) as (_ & _ & _ & Ta). rewrite Ta.
  destruct (Z.eqb_spec c (ascii_lower (bz a))) as [e|e]; [|reflexivity]. rewrite <- e in H2. rewrite (wsr_b c K) in H2. discriminate.
Qed.

Lemma anchor_ws_free : ws_free (zs s_anchor).
Proof. apply ascii_text_ws_free. vm_compute. reflexivity. Qed.
Lemma marker_ws_free : ws_free (zs s_literalType).
Proof. apply ascii_text_ws_free. vm_compute. reflexivity. Qed.

Lemma pred_loop_loc : forall n x, length x <= n -> forall ps,
  rpos (pred_loop U l ps (x ++ y1)) <= ps + wsum x ->
  loc (pred_loop U l ps (x ++ y1)) (pred_loop U l' ps (x ++ y2)).
Proof.
  assert (B0 : forall ps, rpos (pred_loop U l ps ([] ++ y1)) <= ps + wsum [] -> False).
  { intros ps H. destruct y1_head as (c1 & t1 & E1 & K1). boundary H E1 K1. cbn [pred_loop] in H.
    rewrite Fbs, Fq in H. pose proof (pred_loop_ge l _ t1 (le_n _) (ps + 1)). cbn [wsum] in H. lia. }
  induction n as [|n IH]; intros x Hn ps H.
  - destruct x; [exfalso; eapply B0; eauto|cbn in Hn; lia].
  - destruct x as [|[r w] x]; [exfalso; eapply B0; eauto|]. cbn [length] in Hn. cbn [app pred_loop wsum] in *.
    destruct (Z.eqb r r_backSlash).
    + destruct x as [|[r2 w2] x2].
      * cbn [app] in *. destruct y1_head as (c1 & t1 & E1 & K1). destruct y2_head as (c2 & t2 & E2 & K2).
        destruct (ws_facts _ K1) as (_ & _ & _ & Fq1 & _). destruct (ws_facts _ K2) as (_ & _ & _ & Fq2 & _).
        rewrite E1 in H |- *. rewrite E2. rewrite Fq1 in H |- *. rewrite Fq2. rewrite <- E1 in H |- *. rewrite <- E2.
        apply (IH [] ltac:(cbn; lia)). cbn [app wsum] in *. lia.
      * cbn [app] in *. destruct (Z.eqb r2 r_quote).
        -- apply IH; [cbn [length] in Hn; lia|cbn [wsum] in H; lia].
        -- apply (IH ((r2, w2) :: x2)); [cbn [length] in *; lia|cbn [app wsum] in *; lia].
    + destruct (Z.eqb r r_quote).
      * change ((r, w) :: x ++ y1) with (((r, w) :: x) ++ y1) in *. change ((r, w) :: x ++ y2) with (((r, w) :: x) ++ y2).
        rewrite (consume_app _ y1 anchor_ws_free y1_head) in *. rewrite (consume_app _ y2 anchor_ws_free y2_head).
        pose proof (consume_spec U (zs s_anchor) ((r, w) :: x) ps) as CS.
        destruct (consume U (zs s_anchor) ps ((r, w) :: x)) as [[bb p1] rs1]. specialize (CS _ _ _ eq_refl).
        cbn [fst snd] in *. destruct bb; [|apply loc_error; apply Hl].
        apply bounds_loop_loc. cbn [wsum] in CS. lia.
      * apply IH; lia.
Qed.

Lemma literal_tail_loc : forall x p1, rpos (literal_tail U l p1 (x ++ y1)) <= p1 + wsum x ->
  loc (literal_tail U l p1 (x ++ y1)) (literal_tail U l' p1 (x ++ y2)).
Proof.
  intros x p1 H. unfold literal_tail in *. destruct (y_rejects _ rej_lod) as [R1 R2].
  rewrite (scan_while_app _ y1 R1) in *. rewrite (scan_while_app _ y2 R2).
  rewrite (take_while_app _ y1 R1) in *. rewrite (take_while_app _ y2 R2).
  pose proof (scan_while_spec (letter_or_digit U) x p1) as SS.
  destruct (scan_while (letter_or_digit U) p1 x) as [p2 rs2]. specialize (SS _ _ eq_refl). cbn [fst snd] in *.
  destruct (mem_zs _ literal_types); [apply loc_emit; apply Hl|].
  destruct rs2 as [|[r3 w3] rs3]; [|apply loc_error; apply Hl].
  exfalso. cbn [app] in H. destruct y1_head as (c1 & t1 & E1 & K1). rewrite E1 in H. unfold rpos in H. cbn in H. cbn [wsum] in SS. lia.
Qed.

Lemma lit_loop_loc : forall n x, length x <= n -> forall ps,
  rpos (lit_loop U l ps (x ++ y1)) <= ps + wsum x ->
  loc (lit_loop U l ps (x ++ y1)) (lit_loop U l' ps (x ++ y2)).
Proof.
  assert (B0 : forall ps, rpos (lit_loop U l ps ([] ++ y1)) <= ps + wsum [] -> False).
  { intros ps H. destruct y1_head as (c1 & t1 & E1 & K1). boundary H E1 K1. cbn [lit_loop] in H.
    rewrite Fbs, Fq in H. pose proof (lit_loop_ge l _ t1 (le_n _) (ps + 1)). cbn [wsum] in H. lia. }
  induction n as [|n IH]; intros x Hn ps H.
  - destruct x; [exfalso; eapply B0; eauto|cbn in Hn; lia].
  - destruct x as [|[r w] x]; [exfalso; eapply B0; eauto|]. cbn [length] in Hn. cbn [app lit_loop wsum] in *.
    destruct (Z.eqb r r_backSlash).
    + destruct x as [|[r2 w2] x2].
      * cbn [app] in *. destruct y1_head as (c1 & t1 & E1 & K1). destruct y2_head as (c2 & t2 & E2 & K2).
        destruct (ws_facts _ K1) as (_ & _ & _ & Fq1 & _). destruct (ws_facts _ K2) as (_ & _ & _ & Fq2 & _).
        rewrite E1 in H |- *. rewrite E2. rewrite Fq1 in H |- *. rewrite Fq2. rewrite <- E1 in H |- *. rewrite <- E2.
        apply (IH [] ltac:(cbn; lia)). cbn [app wsum] in *. lia.
      * cbn [app] in *. destruct (Z.eqb r2 r_quote).
        -- apply IH; [cbn [length] in Hn; lia|cbn [wsum] in H; lia].
        -- apply (IH ((r2, w2) :: x2)); [cbn [length] in *; lia|cbn [app wsum] in *; lia].
    + destruct (Z.eqb r r_quote).
      * change ((r, w) :: x ++ y1) with (((r, w) :: x) ++ y1) in *. change ((r, w) :: x ++ y2) with (((r, w) :: x) ++ y2).
        rewrite (consume_app _ y1 marker_ws_free y1_head) in *. rewrite (consume_app _ y2 marker_ws_free y2_head).
        pose proof (consume_spec U (zs s_literalType) ((r, w) :: x) ps) as CS.
        destruct (consume U (zs s_literalType) ps ((r, w) :: x)) as [[bb p1] rs1]. specialize (CS _ _ _ eq_refl).
        cbn [fst snd] in *. destruct bb; [|apply loc_error; apply Hl].
        apply literal_tail_loc. cbn [wsum] in CS. lia.
      * apply IH; lia.
Qed.

Lemma gt_loop_loc : forall x sk cs ps, rpos (gt_loop U l sk cs ps (x ++ y1)) <= ps + wsum x ->
  loc (gt_loop U l sk cs ps (x ++ y1)) (gt_loop U l' sk cs ps (x ++ y2)).
Proof.
  induction x as [|[r w] x IH]; intros sk cs ps H.
  - destruct y1_head as (c1 & t1 & E1 & K1). boundary H E1 K1. cbn [gt_loop] in H. rewrite Cs, Fcm, Fsc in H.
    destruct sk; cbn [andb] in H.
    + pose proof (gt_loop_ge l t1 true cs (ps + 1)). cbn [wsum] in H. lia.
    + unfold rpos in H; cbn in H. lia.
  - cbn [app gt_loop wsum] in *. destruct (sk && is_space U r); [apply IH; lia|].
    destruct (Z.eqb r r_comma); [destruct cs; [apply loc_error; apply Hl|apply IH; lia]|].
    destruct (Z.eqb r r_semicolon); [apply (loc_emit _ l l' ps ((r, w) :: x)); apply Hl|].
    destruct (is_space U r); [apply loc_emit; apply Hl|apply IH; lia].
Qed.

Lemma time_loop_loc : forall x ps, rpos (time_loop U l ps (x ++ y1)) <= ps + wsum x ->
  loc (time_loop U l ps (x ++ y1)) (time_loop U l' ps (x ++ y2)).
Proof.
  induction x as [|[r w] x IH]; intros ps H.
  - destruct y1_head as (c1 & t1 & E1 & K1). boundary H E1 K1. cbn [time_loop] in H. rewrite Fsc, Frp, Cs in H.
    unfold rpos in H; cbn in H. lia.
  - cbn [app time_loop wsum] in *. destruct (Z.eqb r r_semicolon || Z.eqb r r_rightPar); [apply (loc_emit _ l l' ps ((r, w) :: x)); apply Hl|].
    destruct (is_space U r); [apply loc_emit; apply Hl|apply IH; lia].
Qed.

End Loops.

Lemma lex_token_loc : forall n x, length x <= n -> forall lastk st ps,
  rpos (lex_token U lastk st ps (x ++ y1)) <= ps + wsum x ->
  loc (lex_token U lastk st ps (x ++ y1)) (lex_token U lastk st ps (x ++ y2)).
Proof.
  assert (B0 : forall lastk st ps, rpos (lex_token U lastk st ps ([] ++ y1)) <= ps + wsum [] -> False).
  { intros lastk st ps H. destruct y1_head as (c1 & t1 & E1 & K1). boundary H E1 K1. cbn [lex_token] in H.
    rewrite Cd, Fbi, Fsl, Fun, Fq, Cl, (wsr_no_symbol _ K1), Cs in H. cbn [andb] in H.
    pose proof (lex_token_ge _ t1 (le_n _) lastk (ps + 1) (ps + 1)). cbn [wsum] in H. lia. }
  induction n as [|n IH]; intros x Hn lastk st ps H.
  - destruct x; [exfalso; eapply B0; eauto|cbn in Hn; lia].
  - destruct x as [|[r w] x]; [exfalso; eapply B0; eauto|]. cbn [length] in Hn. cbn [app lex_token wsum] in *.
    destruct (is_digit U r && mem_N lastk last_global_time); [apply (loc_goto [] _ ((r, w) :: x))|].
    destruct (is_digit U r && mem_N lastk last_local_time); [apply (loc_goto [] _ ((r, w) :: x))|].
    destruct (Z.eqb r r_binding); [apply loc_goto|].
    destruct (Z.eqb r r_slash); [apply (loc_goto [] _ ((r, w) :: x))|].
    destruct (Z.eqb r r_underscore); [apply loc_goto|].
    destruct (Z.eqb r r_quote); [apply (loc_goto [] _ ((r, w) :: x))|].
    destruct (is_letter U r); [destruct (mem_N lastk last_filter_function); apply (loc_goto [] _ ((r, w) :: x))|].
    destruct (assoc_sym r single_symbols); [apply loc_goto|].
    destruct (is_space U r); [apply IH; lia|].
    destruct x as [|[r2 w2] x2].
    + exfalso. cbn [app] in H. destruct y1_head as (c1 & t1 & E1 & K1). rewrite E1 in H.
      pose proof (lex_token_ge _ t1 (le_n _) lastk st (ps + w + 1)). cbn [wsum] in H. lia.
    + cbn [app] in *. apply IH; [cbn [length] in *; lia|cbn [app wsum] in *; lia].
Qed.

(* ---------------------------------------------------------------- lexPredicateOrLiteral: the look-ahead *)
Definition no_ws (pat : list Z) : Prop := Forall (fun t => ~ wsr t) pat.

Lemma not_wsr_neq p w : ~ wsr p -> wsr w -> Z.eqb p w = false.
Proof. intros Hp Hw. destruct (Z.eqb_spec p w); [subst; contradiction|reflexivity]. Qed.

Lemma is_prefix_cut : forall pat, no_ws pat -> forall w1 w2 T1 T2, wsr w1 -> wsr w2 -> forall S,
  is_prefix pat (S ++ w1 :: T1) = is_prefix pat (S ++ w2 :: T2).
Proof.
  induction pat as [|p pat IH]; intros Hp w1 w2 T1 T2 K1 K2 S; [reflexivity|].
  inversion Hp as [|? ? Hp0 Hp']; subst. destruct S as [|s S]; cbn [app is_prefix].
  - now rewrite (not_wsr_neq p w1 Hp0 K1), (not_wsr_neq p w2 Hp0 K2).
  - f_equal. now apply IH.
Qed.

Lemma index_ws : forall p0 pat W Bt, ~ wsr p0 -> Forall wsr W ->
  index_of (p0 :: pat) (W ++ Bt) = option_map (plus (length W)) (index_of (p0 :: pat) Bt).
Proof.
  intros p0 pat W Bt Hp. induction W as [|w W IH]; intro HW.
  - cbn [app length]. destruct (index_of (p0 :: pat) Bt); reflexivity.
  - inversion HW; subst. cbn [app index_of is_prefix]. rewrite (not_wsr_neq p0 w Hp) by assumption. cbn [andb].
    rewrite IH by assumption. destruct (index_of (p0 :: pat) Bt); reflexivity.
Qed.

Section Index.
Variables WW1 WW2 Bt : list Z.
Hypothesis HW1 : Forall wsr WW1.
Hypothesis HW2 : Forall wsr WW2.

Definition idx_rel (X : list Z) (o1 o2 : option nat) : Prop :=
  (exists p, p < length X /\ o1 = Some p /\ o2 = Some p) \/
  (exists j, o1 = Some (length X + length WW1 + j) /\ o2 = Some (length X + length WW2 + j)) \/
  (o1 = None /\ o2 = None).

Lemma index_rel_nil : forall p0 pat, no_ws (p0 :: pat) ->
  idx_rel [] (index_of (p0 :: pat) ([] ++ WW1 ++ Bt)) (index_of (p0 :: pat) ([] ++ WW2 ++ Bt)).
Proof.
  intros p0 pat Hp. inversion Hp as [|? ? Hp0 _]; subst.
  cbn [app length]. rewrite !index_ws by assumption. destruct (index_of (p0 :: pat) Bt) as [j|]; cbn [option_map].
  - right. left. exists j. split; reflexivity.
  - right. right. split; reflexivity.
Qed.

Lemma index_rel : WW1 <> [] -> WW2 <> [] -> forall p0 pat, no_ws (p0 :: pat) -> forall X,
  idx_rel X (index_of (p0 :: pat) (X ++ WW1 ++ Bt)) (index_of (p0 :: pat) (X ++ WW2 ++ Bt)).
Proof.
  intros NW1 NW2 p0 pat Hp. induction X as [|s X IH]; [now apply index_rel_nil|]. inversion Hp as [|? ? Hp0 _]; subst.
  destruct WW1 as [|w1 V1]; [congruence|]. destruct WW2 as [|w2 V2]; [congruence|].
  inversion HW1; inversion HW2; subst.
    pose proof (is_prefix_cut (p0 :: pat) Hp w1 w2 (V1 ++ Bt) (V2 ++ Bt) H1 H5 (s :: X)) as C. cbn [app] in C.
    cbn [app index_of] in *. rewrite C.
    destruct (is_prefix (p0 :: pat) (s :: X ++ w2 :: V2 ++ Bt)).
    + left. exists 0. cbn [length]. split; [lia|split; reflexivity].
    + 
      destruct IH as [(p & Hlt & E1 & E2)|[(j & E1 & E2)|(E1 & E2)]]; rewrite E1, E2.
      * left. exists (S p). cbn [length]. split; [lia|split; reflexivity].
      * right. left. exists j. cbn [length]. split; reflexivity.
      * right. right. split; reflexivity.
Qed.

Definition go_pred (pidx lidx : option nat) : bool :=
  match pidx with
  | Some p => match lidx with None => true | Some q => Nat.ltb p q end
  | None => false
  end.

Lemma go_pred_rel X p1 p2 l1 l2 : idx_rel X p1 p2 -> idx_rel X l1 l2 ->
  go_pred p1 l1 = go_pred p2 l2 /\ (p1 = None <-> p2 = None) /\ (l1 = None <-> l2 = None).
Proof.
  intros [(p & Hp & -> & ->)|[(j & -> & ->)|(-> & ->)]] [(q & Hq & -> & ->)|[(k & -> & ->)|(-> & ->)]];
    (split; [|split; split; congruence]); unfold go_pred; try reflexivity;
    repeat match goal with |- context [Nat.ltb ?a ?b] => destruct (Nat.ltb_spec a b) end; cbn [andb]; try reflexivity; lia.
Qed.

End Index.

Lemma patterns_no_ws : no_ws (zs s_anchor) /\ no_ws (zs s_literalType).
Proof. split; repeat constructor; unfold wsr; vm_compute; intuition (try discriminate; try congruence). Qed.

Lemma map_fst_y1 : map fst y1 = map bz ws1 ++ map fst b.
Proof. unfold y1. now rewrite map_app, map_fst_ascii. Qed.
Lemma map_fst_y2 : map fst y2 = map bz ws2 ++ map fst b.
Proof. unfold y2. now rewrite map_app, map_fst_ascii. Qed.

Lemma lex_pol_loc l x st ps lk : l = mkLx (x ++ y1) st ps lk ->
  loc (lex_pred_or_lit l) (lex_pred_or_lit (mkLx (x ++ y2) st ps lk)).
Proof.
  intros ->. unfold lex_pred_or_lit. cbn [rest pos].
  destruct patterns_no_ws as [PA PL].
  assert (HW : forall w, Forall ws_byte w -> Forall wsr (map bz w)).
  { intros w Hw. apply Forall_map. eapply Forall_impl; [|exact Hw]. intros a Ha. now apply ws_byte_wsr. }
  assert (HN : forall w : list byte, w <> [] -> map bz w <> []) by (intros [|? ?] H; [congruence|discriminate]).
  destruct (zs s_anchor) as [|a0 apat] eqn:EA; [discriminate|]. destruct (zs s_literalType) as [|m0 mpat] eqn:EM; [discriminate|].
  (* the two texts after the opening rune: X ++ V1 ++ Bt and X ++ V2 ++ Bt with V1, V2 white space *)
  assert (R : exists X V1 V2,
            tl (map fst (x ++ y1)) = X ++ V1 ++ map fst b /\ tl (map fst (x ++ y2)) = X ++ V2 ++ map fst b /\
            idx_rel V1 V2 X (index_of (a0 :: apat) (X ++ V1 ++ map fst b)) (index_of (a0 :: apat) (X ++ V2 ++ map fst b)) /\
            idx_rel V1 V2 X (index_of (m0 :: mpat) (X ++ V1 ++ map fst b)) (index_of (m0 :: mpat) (X ++ V2 ++ map fst b))).
  { destruct x as [|[r w] x].
    - assert (S1 : exists a v, ws1 = a :: v) by (destruct ws1; [congruence|eauto]).
      assert (S2 : exists a v, ws2 = a :: v) by (destruct ws2; [congruence|eauto]).
      destruct S1 as (a1 & v1 & S1). destruct S2 as (a2 & v2 & S2).
      pose proof W1 as W1'. pose proof W2 as W2'. rewrite S1 in W1'. rewrite S2 in W2'. inversion W1'; inversion W2'; subst.
      exists [], (map bz v1), (map bz v2). unfold y1, y2. rewrite S1, S2. cbn [app ascii_runes map tl]. rewrite !map_app, !map_fst_ascii.
      split; [reflexivity|]. split; [reflexivity|].
      split; apply index_rel_nil; auto.
    - exists (map fst x), (map bz ws1), (map bz ws2). unfold y1, y2. cbn [app map tl]. rewrite !map_app, !map_fst_ascii.
      split; [reflexivity|]. split; [reflexivity|]. split; apply index_rel; auto. }
  destruct R as (X & V1 & V2 & E1 & E2 & RP & RL). rewrite E1, E2.
  destruct (go_pred_rel V1 V2 _ _ _ _ _ RP RL) as (G & NP & NL). unfold go_pred in G.
  destruct (index_of (a0 :: apat) (X ++ V1 ++ map fst b)) as [p1|];
  destruct (index_of (a0 :: apat) (X ++ V2 ++ map fst b)) as [p2|];
  destruct (index_of (m0 :: mpat) (X ++ V1 ++ map fst b)) as [q1|];
  destruct (index_of (m0 :: mpat) (X ++ V2 ++ map fst b)) as [q2|];
  try (destruct NP as [NP1 NP2]; destruct NL as [NL1 NL2]; exfalso;
       first [specialize (NP1 eq_refl); congruence | specialize (NP2 eq_refl); congruence
             | specialize (NL1 eq_refl); congruence | specialize (NL2 eq_refl); congruence]);
  try rewrite G; try apply loc_goto.
  exists x. split; reflexivity.
Qed.

(* ---------------------------------------------------------------- one state function call *)
Lemma space_scan_loc : forall x ps, fst (scan_while (is_space U) ps (x ++ y1)) <= ps + wsum x ->
  exists x', scan_while (is_space U) ps (x ++ y1) = (fst (scan_while (is_space U) ps (x ++ y1)), x' ++ y1) /\
             scan_while (is_space U) ps (x ++ y2) = (fst (scan_while (is_space U) ps (x ++ y1)), x' ++ y2).
Proof.
  induction x as [|[r w] x IH]; intros ps H.
  - exfalso. cbn [app wsum] in H. destruct y1_head as (c1 & t1 & E1 & K1). rewrite E1 in H. cbn [scan_while] in H.
    destruct (wsr_class _ K1) as (_ & _ & Cs & _). rewrite Cs in H. pose proof (scan_while_ge (is_space U) t1 (ps + 1)). lia.
  - cbn [app scan_while wsum] in *. destruct (is_space U r).
    + apply IH. lia.
    + exists ((r, w) :: x). split; reflexivity.
Qed.

Theorem step_loc : forall s x st ps lk,
  rpos (step U s (mkLx (x ++ y1) st ps lk)) <= ps + wsum x ->
  loc (step U s (mkLx (x ++ y1) st ps lk)) (step U s (mkLx (x ++ y2) st ps lk)).
Proof.
  intros s x st ps lk H.
  set (l := mkLx (x ++ y1) st ps lk) in *. set (l' := mkLx (x ++ y2) st ps lk).
  assert (Hl : start l = start l' /\ last l = last l') by (split; reflexivity).
  destruct s; cbn [step] in *.
  - subst l l'. cbn [last start pos rest] in *. eapply lex_token_loc; [apply le_n|exact H].
  - unfold lex_space in *. subst l l'. cbn [pos rest last] in *.
    destruct (space_scan_loc x ps) as (x' & E1 & E2).
    { destruct (scan_while (is_space U) ps (x ++ y1)). unfold rpos in H. cbn in *. exact H. }
    rewrite E1, E2. apply loc_goto.
  - clear H. unfold lex_keyword in *. subst l l'. cbn [pos rest] in *. destruct (y_rejects _ rej_letter) as [R1 R2].
    rewrite (take_while_app _ y1 R1), (take_while_app _ y2 R2).
    destruct (find_keyword _ keywords).
    + rewrite (scan_while_app _ y1 R1), (scan_while_app _ y2 R2). cbv beta iota. apply loc_emit. reflexivity.
    + destruct (y_rejects _ rej_nonspace) as [R3 R4]. rewrite (scan_while_app _ y1 R3), (scan_while_app _ y2 R4). cbv beta iota.
      apply loc_error; reflexivity.
  - unfold lex_filter_function in *. cbn [pos rest] in *. destruct x as [|[r w] x].
    + exfalso. subst l. cbn [app wsum rest pos] in H. destruct y1_head as (c1 & t1 & E1 & K1). rewrite E1 in H. cbn [app] in H.
      match type of H with context [ff_loop U ?L ?P ?R] => pose proof (ff_loop_ge L R P) end. lia.
    + subst l l'. cbn [app wsum rest pos] in *. apply ff_loop_loc; [exact Hl|lia].
  - unfold lex_node in *. subst l l'. cbn [pos rest] in *. eapply node_loop_loc; [exact Hl|apply le_n|exact H].
  - unfold lex_blank_node in *. subst l l'. cbn [pos rest] in *. destruct x as [|[r w] x].
    + exfalso. cbn [app wsum] in H. destruct y1_head as (c1 & t1 & E1 & K1). rewrite E1 in H.
      destruct (ws_facts _ K1) as (_ & _ & _ & _ & _ & _ & _ & _ & _ & Fco & _). rewrite Fco in H. unfold rpos in H; cbn in H. lia.
    + cbn [app wsum] in *. destruct (negb (Z.eqb r r_colon)); [apply loc_error; reflexivity|].
      destruct x as [|[r2 w2] x2].
      * exfalso. cbn [app wsum] in H. destruct y1_head as (c1 & t1 & E1 & K1). rewrite E1 in H.
        destruct (wsr_class _ K1) as (Cl & _). rewrite Cl in H. unfold rpos in H; cbn in H. lia.
      * cbn [app] in *. destruct (negb (is_letter U r2)); [apply loc_error; reflexivity|].
        destruct (y_rejects _ rej_ident) as [R1 R2]. rewrite (scan_while_app _ y1 R1), (scan_while_app _ y2 R2).
        cbv beta iota. apply loc_emit. reflexivity.
  - clear H. unfold lex_binding in *. subst l l'. cbn [pos rest] in *. destruct (y_rejects _ rej_ident) as [R1 R2].
    rewrite (scan_while_app _ y1 R1), (scan_while_app _ y2 R2). cbv beta iota. apply loc_emit. reflexivity.
  - subst l l'. apply (lex_pol_loc _ x st ps lk eq_refl).
  - unfold lex_predicate in *. cbn [pos rest] in *. destruct x as [|[r w] x].
    + exfalso. subst l. cbn [app wsum rest pos] in H. destruct y1_head as (c1 & t1 & E1 & K1). rewrite E1 in H. cbn [app] in H.
      match type of H with context [pred_loop U ?L ?P ?R] => pose proof (pred_loop_ge L _ R (le_n _) P) end. lia.
    + subst l l'. cbn [app wsum rest pos] in *. eapply pred_loop_loc; [exact Hl|apply le_n|lia].
  - unfold lex_literal in *. cbn [pos rest] in *. destruct x as [|[r w] x].
    + exfalso. subst l. cbn [app wsum rest pos] in H. destruct y1_head as (c1 & t1 & E1 & K1). rewrite E1 in H. cbn [app] in H.
      match type of H with context [lit_loop U ?L ?P ?R] => pose proof (lit_loop_ge L _ R (le_n _) P) end. lia.
    + subst l l'. cbn [app wsum rest pos] in *. eapply lit_loop_loc; [exact Hl|apply le_n|lia].
  - unfold lex_global_time in *. cbn [pos rest] in *. destruct x as [|[r w] x].
    + exfalso. subst l. cbn [app wsum rest pos] in H. destruct y1_head as (c1 & t1 & E1 & K1). rewrite E1 in H. cbn [app] in H.
      match type of H with context [gt_loop U ?L ?A ?B ?P ?R] => pose proof (gt_loop_ge L R A B P) end. lia.
    + subst l l'. cbn [app wsum rest pos] in *. apply gt_loop_loc; [exact Hl|lia].
  - unfold lex_time in *. cbn [pos rest] in *. destruct x as [|[r w] x].
    + exfalso. subst l. cbn [app wsum rest pos] in H. destruct y1_head as (c1 & t1 & E1 & K1). rewrite E1 in H. cbn [app] in H.
      match type of H with context [time_loop U ?L ?P ?R] => pose proof (time_loop_ge L R P) end. lia.
    + subst l l'. cbn [app wsum rest pos] in *. apply time_loop_loc; [exact Hl|lia].
Qed.

End Sim.
