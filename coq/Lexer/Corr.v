(* Executable comparison of the lexer model with observations of the real lexer (cases written by checks/c16.py). *)
From Coq Require Import List ZArith NArith Bool Arith.
From Coq.Strings Require Import Byte.
Import ListNotations.
From BWLexer Require Import Utf8 Unicode Lexer.

Fixpoint bytes_eqb (a b : list byte) : bool :=
  match a, b with
  | [], [] => true
  | x :: a', y :: b' => Byte.eqb x y && bytes_eqb a' b'
  | _, _ => false
  end.

Fixpoint toks_eqb (a b : list (N * list byte)) : bool :=
  match a, b with
  | [], [] => true
  | (k, t) :: a', (k', t') :: b' => N.eqb k k' && bytes_eqb t t' && toks_eqb a' b'
  | _, _ => false
  end.

(* one observation: input, the (Type, Text) sequence received from lexer.New until the channel was closed *)
Definition obs := (list byte * list (N * list byte))%type.

Definition agrees (o : obs) : bool :=
  let '(inp, seen) := o in
  let '(ts, fin) := lex_out inp in
  fin && toks_eqb (map (fun t => (tk_kind t, tk_text inp t)) ts) seen.

Fixpoint mismatches_from (i : N) (l : list obs) : list N :=
  match l with
  | [] => []
  | o :: r => if agrees o then mismatches_from (i + 1) r else i :: mismatches_from (i + 1) r
  end.
