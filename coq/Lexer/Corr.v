(* Executable comparison of the lexer model with observations of the real lexer (cases written by checks/c16.py). *)
From Coq Require Import List ZArith NArith Bool Arith.
From Coq.Strings Require Import Byte.
Import ListNotations.
From BWLexer Require Import Utf8 Unicode Lexer.

Fixpoint bytes_eqb (a b : list byte) : bool :=
  match a, b with
  | [], [] => true
  | x :: a', y :: b' => Byte.eqb x y && bytes_eqb a' b'
  | _, _ => false
  end.

Fixpoint toks_eqb (a b : list (N * list byte)) : bool :=
  match a, b with
  | [], [] => true
  | (k, t) :: a', (k', t') :: b' => N.eqb k k' && bytes_eqb t t' && toks_eqb a' b'
  | _, _ => false
  end.

(* one observation: input, the (Type, Text) sequence received from lexer.New until the channel was closed *)
Definition obs := (list byte * list (N * list byte))%type.

Definition agrees (o : obs) : bool :=
  let '(inp, seen) := o in
  let '(ts, fin) := lex_out inp in
  fin && toks_eqb (map (fun t => (tk_kind t, tk_text inp t)) ts) seen.

Fixpoint mismatches_from (i : N) (l : list obs) : list N :=
  match l with
  | [] => []
  | o :: r => if agrees o then mismatches_from (i + 1) r else i :: mismatches_from (i + 1) r
  end.

(* ---------------------------------------------------------------- exhaustive scopes by checksum
   All strings over an alphabet (given by the check) up to a length are lexed by the model INSIDE Coq and folded into a
   polynomial checksum over the (kind, text) sequences and the closed flag; the harness computes the same checksum from
   lexer.New.  Order: depth first, a string before its extensions, symbols in the order of [alpha].  On a mismatch the
   check bisects by prefix down to one concrete string. *)
Definition HM : N := 2305843009213693951%N.   (* 2^61 - 1, used as a bit mask: arithmetic modulo 2^61 *)
Definition mix (h x : N) : N := N.land (h * 1000003 + x + 1)%N HM.

Fixpoint hash_bytes (h : N) (s : list byte) : N :=
  match s with [] => h | b :: r => hash_bytes (mix h (Byte.to_N b)) r end.

Fixpoint hash_toks (h : N) (ts : list (N * list byte)) : N :=
  match ts with
  | [] => h
  | (k, t) :: r => hash_toks (mix (hash_bytes (mix h (k + 1000)%N) t) 999%N) r
  end.

Definition hash_case (h : N) (inp : list byte) : N :=
  let '(ts, fin) := lex_out inp in
  mix (hash_toks (mix h 7%N) (map (fun t => (tk_kind t, tk_text inp t)) ts)) (if fin then 1%N else 0%N).

Fixpoint fold_strings (alpha : list (list byte)) (n : nat) (prefix : list byte) (h : N) : N :=
  let h' := hash_case h prefix in
  match n with
  | O => h'
  | S m => fold_left (fun a sym => fold_strings alpha m (prefix ++ sym) a) alpha h'
  end.
