(* UTF-8 decoding as done by utf8.DecodeRuneInString, applied repeatedly from the start of the input.
   The Go lexer only ever decodes at positions reached by such a left-to-right decoding (pos starts at 0,
   advances by the width of the rune decoded at pos, and backs up by that same width), so the model works on
   the list of (rune, width) pairs.  Invalid or truncated sequences decode to (RuneError, 1) like in Go. *)
From Coq Require Import List ZArith NArith Bool.
From Coq.Strings Require Import Byte.
Import ListNotations.
Local Open Scope Z_scope.

Definition bz (b : byte) : Z := Z.of_N (Byte.to_N b).
Definition rune_error : Z := 65533.

(* a decoded rune with the number of bytes it occupies *)
Definition rw := (Z * nat)%type.

(* utf8.first[] / acceptRanges[]: size of the sequence and the accepted range of the second byte *)
Inductive lead := LAscii | LInvalid | LLead (sz : nat) (lo hi : Z).

Definition first_info (b0 : Z) : lead :=
  if b0 <? 128 then LAscii
  else if b0 <? 194 then LInvalid                 (* 0x80-0xC1 *)
  else if b0 <? 224 then LLead 2 128 191          (* 0xC2-0xDF *)
  else if b0 =? 224 then LLead 3 160 191          (* 0xE0 *)
  else if b0 <? 237 then LLead 3 128 191          (* 0xE1-0xEC *)
  else if b0 =? 237 then LLead 3 128 159          (* 0xED *)
  else if b0 <? 240 then LLead 3 128 191          (* 0xEE-0xEF *)
  else if b0 =? 240 then LLead 4 144 191          (* 0xF0 *)
  else if b0 <? 244 then LLead 4 128 191          (* 0xF1-0xF3 *)
  else if b0 =? 244 then LLead 4 128 143          (* 0xF4 *)
  else LInvalid.                                  (* 0xF5-0xFF *)

Definition in_range (lo hi z : Z) : bool := (lo <=? z) && (z <=? hi).
Definition is_cont (z : Z) : bool := in_range 128 191 z.

Fixpoint decode_all (s : list byte) : list rw :=
  match s with
  | [] => []
  | b0 :: t =>
    let z0 := bz b0 in
    let bad := (rune_error, 1%nat) :: decode_all t in
    match first_info z0 with
    | LAscii => (z0, 1%nat) :: decode_all t
    | LInvalid => bad
    | LLead sz lo hi =>
      match t with
      | [] => bad
      | b1 :: t1 =>
        let z1 := bz b1 in
        if negb (in_range lo hi z1) then bad
        else match sz with
        | 2%nat => ((z0 mod 32) * 64 + z1 mod 64, 2%nat) :: decode_all t1
        | _ =>
          match t1 with
          | [] => bad
          | b2 :: t2 =>
            let z2 := bz b2 in
            if negb (is_cont z2) then bad
            else match sz with
            | 3%nat => ((z0 mod 16) * 4096 + (z1 mod 64) * 64 + z2 mod 64, 3%nat) :: decode_all t2
            | _ =>
              match t2 with
              | [] => bad
              | b3 :: t3 =>
                let z3 := bz b3 in
                if negb (is_cont z3) then bad
                else ((z0 mod 8) * 262144 + (z1 mod 64) * 4096 + (z2 mod 64) * 64 + z3 mod 64, 4%nat)
                       :: decode_all t3
              end
            end
          end
        end
      end
    end
  end.

(* total width of a decoded list *)
Fixpoint wsum (rs : list rw) : nat :=
  match rs with [] => 0%nat | (_, w) :: r => (w + wsum r)%nat end.
