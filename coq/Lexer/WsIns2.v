(* Whitespace between tokens (C16), part E: insertion after ANY token except a filter function name.
   lexTime and lexPredicateGlobalTime end a token at ';' (resp. ')') without consuming it, but consume white space: when
   white space is inserted there the token grows by the white space it swallows (one rune, or the whole run when the
   lexer was skipping blanks after a comma); everything else is as in WsIns. *)
From Coq Require Import List ZArith NArith Bool Arith Lia.
From Coq.Strings Require Import Byte.
Import ListNotations.
From BWLexer Require Import Utf8 Unicode Lexer LexerProofs Utf8Proofs CaseProofs PrintedProofs WsProofs WsSim WsMain WsIns.
From BWLexer.Gen Require Import LexTablesGen.

Lemma shift_shift a c t : shift_tok a (shift_tok c t) = shift_tok (c + a) t.
Proof. destruct t as [[k s] e]. unfold shift_tok, tk_kind, tk_start, tk_end. cbn. f_equal; [f_equal|]; lia. Qed.

Lemma map_shift_shift a c ts : map (shift_tok a) (map (shift_tok c) ts) = map (shift_tok (c + a)) ts.
Proof. rewrite map_map. apply map_ext. intro t. apply shift_shift. Qed.

Section Ins2.
Variable U : uni.
Hypothesis HU : ascii_ok U.
Variable ws : list byte.
Variable b : list rw.
Hypothesis Wws : Forall ws_byte ws.
Hypothesis Nws : ws <> [].
Hypothesis Hwb : widths_pos b.
Hypothesis Nb : b <> [].

Notation Z2 := (z2 ws b).
Notation LOC := (loc' ws b).

(* the call ended the token (k, a, B) exactly at the boundary on seeing ';' or ')'; with white space there it swallows the
   first w1 of it *)
Definition grow (B : nat) (r1 r2 : res) : Prop :=
  exists k a w1 w2, ws = w1 ++ w2 /\ w1 <> [] /\ (k = ItemTime \/ k = ItemPredicateBound) /\
    r1 = ([(k, a, B)], Some SSpace, mkLx b B B k) /\
    r2 = ([(k, a, B + length w1)], Some SSpace, mkLx (ascii_runes w2 ++ b) (B + length w1) (B + length w1) k).

Lemma b_cons : exists c w t, b = (c, w) :: t /\ 1 <= w.
Proof. destruct (b_cases b Hwb) as [E|H]; [congruence|exact H]. Qed.

Lemma ws_cons : exists a v, ws = a :: v /\ wsr (bz a) /\ Forall ws_byte v.
Proof.
  assert (S : exists a v, ws = a :: v) by (destruct ws; [congruence|eauto]). destruct S as (a & v & S).
  pose proof Wws as W'. rewrite S in W'. inversion W' as [|? ? Ha Hv]. exists a, v. split; [exact S|]. split; [now apply ws_byte_wsr|exact Hv].
Qed.

Lemma tob_kind cs : time_or_bound cs = ItemTime \/ time_or_bound cs = ItemPredicateBound.
Proof. destruct cs; [now right|now left]. Qed.

Section Loops.
Variables l l' : lx.
Hypothesis Hl : start l = start l' /\ last l = last l'.

Ltac nt Hnt := exfalso; apply Hnt; reflexivity.

Lemma gt_skip : forall w r cs ps, Forall ws_byte w ->
  gt_loop U l' true cs ps (ascii_runes w ++ r) = gt_loop U l' true cs (ps + length w) r.
Proof.
  induction w as [|a w IH]; intros r cs ps H; cbn [ascii_runes map app length]; [now rewrite Nat.add_0_r|].
  inversion H; subst. cbn [gt_loop]. rewrite (ws_is_space U HU a) by assumption. cbn [andb].
  fold (ascii_runes w). rewrite IH by assumption. f_equal. lia.
Qed.

Lemma gt_loop_grow : forall x sk cs ps, rpos (gt_loop U l sk cs ps (x ++ b)) <= ps + wsum x ->
  snd (fst (gt_loop U l sk cs ps (x ++ b))) <> None ->
  LOC (gt_loop U l sk cs ps (x ++ b)) (gt_loop U l' sk cs ps (x ++ Z2)) \/
  grow (ps + wsum x) (gt_loop U l sk cs ps (x ++ b)) (gt_loop U l' sk cs ps (x ++ Z2)).
Proof.
  induction x as [|[r w] x IH]; intros sk cs ps H Hnt.
  - right. cbn [app wsum] in *. rewrite Nat.add_0_r. destruct b_cons as (c & w & t & E & Hw). rewrite E in *. cbn [gt_loop] in *.
    destruct (sk && is_space U c) eqn:Esk; [exfalso; pose proof (gt_loop_ge U l t true cs (ps + w)); unfold rw in *; lia|].
    destruct (Z.eqb c r_comma) eqn:Ec.
    { destruct cs; [nt Hnt|]. exfalso. pose proof (gt_loop_ge U l t true true (ps + w)). unfold rw in *; lia. }
    destruct (Z.eqb c r_semicolon) eqn:Es.
    2:{ destruct (is_space U c); [exfalso; unfold rpos in H; cbn in H; lia|].
        exfalso. pose proof (gt_loop_ge U l t false cs (ps + w)). unfold rw in *; lia. }
    destruct Hl as [Hs _]. destruct ws_cons as (a1 & v & Ew & Ka & Hv).
    destruct (ws_facts _ Ka) as (_ & _ & _ & _ & _ & _ & _ & _ & _ & _ & Fcm & Fsc & _).
    destruct (wsr_class U HU _ Ka) as (_ & _ & Cs & _).
    destruct sk.
    + (* skipping blanks after the comma: the whole run is swallowed *)
      exists (time_or_bound cs), (start l), ws, []. rewrite app_nil_r. split; [reflexivity|]. split; [exact Nws|]. split; [apply tob_kind|].
      split; [unfold emit; rewrite ?E; reflexivity|]. unfold z2. rewrite gt_skip by exact Wws. rewrite <- E. rewrite E at 1. cbn [gt_loop].
      rewrite Esk, Ec, Es. unfold emit. rewrite <- Hs. cbn [ascii_runes map app]. rewrite E. reflexivity.
    + exists (time_or_bound cs), (start l), [a1], v. split; [exact Ew|]. split; [discriminate|]. split; [apply tob_kind|].
      split; [unfold emit; rewrite ?E; reflexivity|]. unfold z2. rewrite Ew. cbn [ascii_runes map app gt_loop andb]. rewrite Fcm, Fsc, Cs.
      unfold emit. rewrite <- Hs. cbn [length]. fold (ascii_runes v). rewrite E. reflexivity.
  - cbn [app gt_loop wsum] in *.
    assert (R : forall sk' cs', rpos (gt_loop U l sk' cs' (ps + w) (x ++ b)) <= ps + (w + wsum x) ->
              snd (fst (gt_loop U l sk' cs' (ps + w) (x ++ b))) <> None ->
              LOC (gt_loop U l sk' cs' (ps + w) (x ++ b)) (gt_loop U l' sk' cs' (ps + w) (x ++ Z2)) \/
              grow (ps + (w + wsum x)) (gt_loop U l sk' cs' (ps + w) (x ++ b)) (gt_loop U l' sk' cs' (ps + w) (x ++ Z2))).
    { intros sk' cs' H' Hnt'. destruct (IH sk' cs' (ps + w) ltac:(lia) Hnt') as [L|G]; [now left|right]. now rewrite Nat.add_assoc. }
    destruct (sk && is_space U r); [apply R; assumption|].
    destruct (Z.eqb r r_comma); [destruct cs; [nt Hnt|apply R; assumption]|].
    destruct (Z.eqb r r_semicolon); [left; apply (loc'_emit ws b _ l l' ps ((r, w) :: x)); apply Hl|].
    destruct (is_space U r); [left; apply loc'_emit; apply Hl|apply R; assumption].
Qed.

Lemma time_loop_grow : forall x ps, rpos (time_loop U l ps (x ++ b)) <= ps + wsum x ->
  snd (fst (time_loop U l ps (x ++ b))) <> None ->
  LOC (time_loop U l ps (x ++ b)) (time_loop U l' ps (x ++ Z2)) \/
  grow (ps + wsum x) (time_loop U l ps (x ++ b)) (time_loop U l' ps (x ++ Z2)).
Proof.
  induction x as [|[r w] x IH]; intros ps H Hnt.
  - right. cbn [app wsum] in *. rewrite Nat.add_0_r. destruct b_cons as (c & w & t & E & Hw). rewrite E in *. cbn [time_loop] in *.
    destruct (Z.eqb c r_semicolon || Z.eqb c r_rightPar) eqn:Es.
    2:{ destruct (is_space U c); [exfalso; unfold rpos in H; cbn in H; lia|].
        exfalso. pose proof (time_loop_ge U l t (ps + w)). unfold rw in *; lia. }
    destruct Hl as [Hs _]. destruct ws_cons as (a1 & v & Ew & Ka & Hv).
    destruct (ws_facts _ Ka) as (_ & _ & _ & _ & _ & Frp & _ & _ & _ & _ & _ & Fsc & _).
    destruct (wsr_class U HU _ Ka) as (_ & _ & Cs & _).
    exists ItemTime, (start l), [a1], v. split; [exact Ew|]. split; [discriminate|]. split; [now left|].
    split; [unfold emit; rewrite ?E; reflexivity|]. unfold z2. rewrite Ew. cbn [ascii_runes map app time_loop]. rewrite Fsc, Frp, Cs. cbn [orb].
    unfold emit. rewrite <- Hs. cbn [length]. fold (ascii_runes v). rewrite E. reflexivity.
  - cbn [app time_loop wsum] in *.
    destruct (Z.eqb r r_semicolon || Z.eqb r r_rightPar); [left; apply (loc'_emit ws b _ l l' ps ((r, w) :: x)); apply Hl|].
    destruct (is_space U r); [left; apply loc'_emit; apply Hl|].
    destruct (IH (ps + w) ltac:(lia) Hnt) as [L|G]; [now left|right]. now rewrite Nat.add_assoc.
Qed.

Lemma ff_loop_kind : forall rs ps k a e s' l0, ff_loop U l ps rs = ([(k, a, e)], Some s', l0) -> k = ItemFilterFunction.
Proof.
  induction rs as [|[r w] rs IH]; intros ps k a e s' l0 H; cbn [ff_loop] in H; [discriminate|].
  destruct (Z.eqb r r_leftPar); [unfold emit in H; now inversion H|].
  destruct (is_letter U r); [eauto|discriminate].
Qed.

End Loops.

(* all state functions: as step_ins, but Time / global bounds grow instead of being excluded *)
Theorem step_ins3 : forall s x st ps lk,
  no_partial_marker (tl (map fst x)) ->
  rpos (step U s (mkLx (x ++ b) st ps lk)) <= ps + wsum x ->
  snd (fst (step U s (mkLx (x ++ b) st ps lk))) <> None ->
  LOC (step U s (mkLx (x ++ b) st ps lk)) (step U s (mkLx (x ++ Z2) st ps lk)) \/
  bad1 (ps + wsum x) (step U s (mkLx (x ++ b) st ps lk)) \/
  (bad2 (ps + wsum x) (step U s (mkLx (x ++ b) st ps lk)) /\ s = SFilterFunction) \/
  grow (ps + wsum x) (step U s (mkLx (x ++ b) st ps lk)) (step U s (mkLx (x ++ Z2) st ps lk)).
Proof.
  intros s x st ps lk NP H Hnt.
  assert (D : s = SGlobalTime \/ s = STime \/ (s <> SGlobalTime /\ s <> STime)) by (destruct s; auto; right; right; split; discriminate).
  destruct D as [->|[->|[N1 N2]]].
  - cbn [step] in *. unfold lex_global_time in *. cbn [pos rest] in *. destruct x as [|[r w] x].
    + exfalso. cbn [app wsum] in *. destruct b_cons as (c & w & t & E & Hw). rewrite E in *.
      match type of H with context [gt_loop U ?L ?A ?B ?P ?R] => pose proof (gt_loop_ge U L R A B P) end. unfold rw in *; lia.
    + cbn [app wsum] in *.
      destruct (gt_loop_grow (mkLx ((r, w) :: x ++ b) st ps lk) (mkLx ((r, w) :: x ++ Z2) st ps lk) (conj eq_refl eq_refl)
                  x false false (ps + w) ltac:(unfold rw in *; lia) Hnt) as [L|G]; [now left|right; right; right]. now rewrite Nat.add_assoc.
  - cbn [step] in *. unfold lex_time in *. cbn [pos rest] in *. destruct x as [|[r w] x].
    + exfalso. cbn [app wsum] in *. destruct b_cons as (c & w & t & E & Hw). rewrite E in *.
      match type of H with context [time_loop U ?L ?P ?R] => pose proof (time_loop_ge U L R P) end. unfold rw in *; lia.
    + cbn [app wsum] in *.
      destruct (time_loop_grow (mkLx ((r, w) :: x ++ b) st ps lk) (mkLx ((r, w) :: x ++ Z2) st ps lk) (conj eq_refl eq_refl)
                  x (ps + w) ltac:(unfold rw in *; lia) Hnt) as [L|G]; [now left|right; right; right]. now rewrite Nat.add_assoc.
  - destruct (step_ins U HU ws b Wws Nws Hwb s x st ps lk NP H Hnt) as [L|[B1|[B2 [E|[E|E]]]]]; auto; congruence.
Qed.

(* ---------------------------------------------------------------- the simulation *)
Theorem sim_run_ins2 : forall f s x st ps lk total pre t post fin,
  wf total (mkLx (x ++ b) st ps lk) -> widths_pos x -> no_partial_marker (map fst x) ->
  run U f s (mkLx (x ++ b) st ps lk) = (pre ++ t :: post, fin) -> post <> [] -> tk_end t = ps + wsum x ->
  tk_start t < tk_end t -> tk_kind t <> ItemFilterFunction ->
  exists g, (g = 0 \/ (1 <= g <= length ws /\ (tk_kind t = ItemTime \/ tk_kind t = ItemPredicateBound))) /\
    run U f s (mkLx (x ++ Z2) st ps lk) =
      (pre ++ (tk_kind t, tk_start t, tk_end t + g) :: map (shift_tok (length ws)) post, fin).
Proof.
  induction f as [|f IH]; intros s x st ps lk total pre t post fin Hwf Hwp NP Hrun Hpost Hend Hne Hsafe.
  { cbn in Hrun. inversion Hrun. destruct pre; discriminate. }
  cbn [run] in Hrun |- *.
  pose proof (step_good U total s _ Hwf) as G.
  pose proof (step_post U s (mkLx (x ++ b) st ps lk)) as [Sf Sh]. cbn [rest] in Sf.
  pose proof (step_ins3 s x st ps lk (np_tl _ NP)) as L. unfold rw in *.
  destruct (step U s (mkLx (x ++ b) st ps lk)) as [[toks nxt] l1'] eqn:E1. unfold rpos in L. cbn [fst snd] in L.
  unfold good in G. destruct G as (Hwf' & _ & G). cbn [shape] in Sh. cbn [snd] in Sf.
  destruct nxt as [s'|].
  2:{ exfalso. inversion Hrun as [[Ht Hf]]. destruct Sh as [->|(k & a & e & -> & _)].
      - destruct pre; discriminate.
      - destruct pre as [|p0 pre]; cbn in Ht; inversion Ht; subst; [apply Hpost; reflexivity|destruct pre; discriminate]. }
  destruct (run U f s' l1') as [ts' fin'] eqn:R1. inversion Hrun as [[Hts Hfin]]. subst fin'.
  assert (Hb : pos l1' <= ps + wsum x).
  { pose proof (run_pos_le U f s' l1' ts' fin R1) as PL. rewrite Forall_forall in PL.
    destruct Sh as [->|(k & a & e & -> & Ep & _)].
    - cbn [app] in Hts. rewrite <- Hend. apply PL. rewrite Hts. apply in_or_app. right. now left.
    - destruct pre as [|p0 pre]; cbn [app] in Hts; inversion Hts; subst.
      + cbn [tk_end snd] in Hend. lia.
      + rewrite <- Hend. apply PL. apply in_or_app. right. now left. }
  assert (Hwpr : widths_pos (rest l1')).
  { destruct (suf_wsum _ _ Sf) as (_ & _ & W); [|exact W]. unfold widths_pos in *. apply Forall_app. split; assumption. }
  (* an earlier token that ends at the boundary would make t empty *)
  assert (Early : forall k a e p0 pre', toks = [(k, a, e)] -> pos l1' = ps + wsum x -> pre = p0 :: pre' -> False).
  { intros k a e p0 pre' Et Bp Ep. subst toks pre. cbn [app] in Hts. inversion Hts; subst.
    destruct G as [_ [G|(k' & a' & e' & Et' & _ & _ & Ee & _)]]; [discriminate|]. inversion Et'; subst.
    destruct Sh as [Sh|(k2 & a2 & e2 & Et2 & Ep2 & _)]; [discriminate|]. inversion Et2; subst.
    pose proof (run_start_ge U total f s' l1' _ fin Hwf' R1) as SG. rewrite Forall_forall in SG.
    specialize (SG t ltac:(apply in_or_app; right; now left)). lia. }
  destruct (L Hb ltac:(cbn; discriminate)) as [(x' & Er & E2)|[(Bp & Et & s0 & Es & Hr)|[[(Bp & k & a & e & Et & Hk) Es]|Gr]]]; cbn [fst snd] in *.
  - (* same behaviour in both runs *)
    destruct l1' as [rs' st' ps' lk']. cbn [rest pos] in *. subst rs'. unfold set_rest in E2. cbn [start pos last] in E2.
    rewrite E2.
    assert (Hx' : suf x' x /\ ps' + wsum x' = ps + wsum x).
    { destruct Sf as [p0 Ep0]. rewrite app_assoc in Ep0. apply app_inv_tail in Ep0. split; [exists p0; exact Ep0|].
      destruct Hwf as [_ Ht1]. destruct Hwf' as [_ Ht2]. cbn [rest pos] in *. rewrite wsum_app in Ht1, Ht2. lia. }
    destruct Hx' as [[p0 Ep0] Hsum].
    assert (Hwp' : widths_pos x') by (unfold widths_pos in *; rewrite Ep0 in Hwp; apply Forall_app in Hwp; tauto).
    assert (NP' : no_partial_marker (map fst x')) by (rewrite Ep0, map_app in NP; exact (np_suffix _ _ NP)).
    destruct Sh as [->|(k & a & e & -> & Ep & Hn)].
    + cbn [app] in Hts. subst ts'.
      destruct (IH s' x' st' ps' lk' total pre t post fin Hwf' Hwp' NP' R1 Hpost ltac:(lia) Hne Hsafe) as (g & Hg & IHr).
      exists g. split; [exact Hg|]. unfold rw in *. rewrite IHr. reflexivity.
    + destruct pre as [|p0' pre]; cbn [app] in Hts; inversion Hts; subst.
      * assert (s' = SSpace) by (destruct Hn as [Hn|Hn]; [discriminate|now inversion Hn]). subst s'.
        cbn [tk_end snd] in Hend. assert (x' = []) by (apply wsum_zero; [assumption|lia]). subst x'. cbn [app] in *.
        pose proof (run_after_token_ws U HU f (mkLx [] st' e lk') ws b Wws) as A2.
        unfold set_rest in A2. cbn [start pos last] in A2. exists 0. split; [now left|]. unfold z2. rewrite A2. rewrite R1.
        cbn [tk_kind tk_start tk_end fst snd app]. rewrite Nat.add_0_r. reflexivity.
      * destruct (IH s' x' st' _ lk' total pre t post fin Hwf' Hwp' NP' R1 Hpost ltac:(cbn [tk_end snd] in *; lia) Hne Hsafe) as (g & Hg & IHr).
        exists g. split; [exact Hg|]. unfold rw in *. rewrite IHr. reflexivity.
  - (* nothing emitted, standing at the boundary *)
    exfalso. subst toks. inversion Es; subst s0. cbn [app] in Hts. subst ts'.
    destruct (no_emit_at U total f s' l1' _ fin Hwf' Hwpr Hr R1) as [Hlen|Hall].
    + rewrite app_length in Hlen. cbn [length] in Hlen. destruct post; [apply Hpost; reflexivity|cbn in Hlen; lia].
    + rewrite Forall_forall in Hall. specialize (Hall t ltac:(apply in_or_app; right; now left)). lia.
  - (* a filter function name ends at the boundary *)
    exfalso. subst s. cbn [step] in E1. unfold lex_filter_function in E1. cbn [rest pos] in E1.
    assert (Kf : k = ItemFilterFunction).
    { subst toks. destruct (x ++ b) as [|[r0 w0] rs0]; [unfold emit_error in E1; discriminate|]. eapply ff_loop_kind. exact E1. }
    subst k. destruct pre as [|p0 pre'].
    + subst toks. cbn [app] in Hts. inversion Hts; subst. apply Hsafe. reflexivity.
    + eapply Early; eauto.
  - (* a Time / global bound ends at the boundary: it swallows the beginning of the white space *)
    destruct Gr as (k & a & w1 & w2 & Ew & Nw1 & Hk & Eq1 & Eq2). inversion Eq1; subst toks s' l1'. rewrite Eq2.
    destruct pre as [|p0 pre'].
    2:{ exfalso. eapply Early; eauto. }
    cbn [app] in Hts. inversion Hts; subst t ts'. cbn [tk_kind tk_start tk_end fst snd] in *.
    exists (length w1). split.
    { right. split; [|exact Hk]. split; [destruct w1; [congruence|cbn; lia]|]. rewrite Ew, app_length. lia. }
    pose proof (run_after_token_ws U HU f (mkLx [] (ps + wsum x + length w1) (ps + wsum x + length w1) k) w2 b) as A2.
    unfold set_rest in A2. cbn [start pos last] in A2. rewrite A2.
    2:{ rewrite Ew in Wws. apply Forall_app in Wws. tauto. }
    change (mkLx b (ps + wsum x + length w1) (ps + wsum x + length w1) k) with (shift_lx (length w1) (mkLx b (ps + wsum x) (ps + wsum x) k)).
    rewrite run_shift, R1. cbn [fst snd app]. rewrite map_shift_shift. rewrite Ew, app_length. reflexivity.
Qed.

End Ins2.

(* ---------------------------------------------------------------- whole lexer *)
Theorem ws_insert2_runes : forall U, ascii_ok U -> forall ws b, Forall ws_byte ws -> ws <> [] -> widths_pos b -> b <> [] ->
  forall x pre t post, widths_pos x -> no_partial_marker (map fst x) ->
    fst (lex_runes U (x ++ b)) = pre ++ t :: post -> post <> [] -> tk_end t = wsum x ->
    tk_start t < tk_end t -> tk_kind t <> ItemFilterFunction ->
    exists g, (g = 0 \/ (1 <= g <= length ws /\ (tk_kind t = ItemTime \/ tk_kind t = ItemPredicateBound))) /\
      fst (lex_runes U (x ++ ascii_runes ws ++ b)) =
        pre ++ (tk_kind t, tk_start t, tk_end t + g) :: map (shift_tok (length ws)) post.
Proof.
  intros U HU ws b W N Hwb Nb x pre t post Hwp NP H1 Hpost Hend Hne Hsafe.
  set (r1 := x ++ b) in *. set (r2 := x ++ ascii_runes ws ++ b).
  destruct (lex_runes U r1) as [T1 f1] eqn:E1. destruct (lex_runes U r2) as [T2 f2] eqn:E2. cbn [fst] in *. subst T1.
  destruct (lex_runes_good U _ r1 _ _ eq_refl E1) as (-> & _). destruct (lex_runes_good U _ r2 _ _ eq_refl E2) as (-> & _).
  unfold lex_runes in E1, E2. set (F := Nat.max (fuel_for r1) (fuel_for r2)).
  pose proof (run_fuel_mono U _ _ _ _ E1 F ltac:(lia)) as M1. pose proof (run_fuel_mono U _ _ _ _ E2 F ltac:(lia)) as M2.
  unfold init_lx in M1, M2.
  destruct (sim_run_ins2 U HU ws b W N Hwb Nb F SToken x 0 0 ItemError (wsum r1) pre t post true
              (init_wf _ r1 eq_refl) Hwp NP M1 Hpost Hend Hne Hsafe) as (g & Hg & Er).
  exists g. split; [exact Hg|]. unfold z2 in Er. fold r2 in Er. rewrite M2 in Er. now inversion Er.
Qed.

Theorem ws_insert2_bytes : forall U, ascii_ok U -> forall (xb ws bb : list byte),
  Forall ws_byte ws -> ws <> [] ->
  (exists a bb', bb = a :: bb' /\ (bz a < 128)%Z) ->
  no_partial_marker (map fst (decode_all xb)) ->
  forall pre t post,
    fst (lex_with U (xb ++ bb)) = pre ++ t :: post -> post <> [] -> tk_end t = length xb ->
    tk_start t < tk_end t -> tk_kind t <> ItemFilterFunction ->
    exists g, (g = 0 \/ (1 <= g <= length ws /\ (tk_kind t = ItemTime \/ tk_kind t = ItemPredicateBound))) /\
      fst (lex_with U (xb ++ ws ++ bb)) =
        pre ++ (tk_kind t, tk_start t, tk_end t + g) :: map (shift_tok (length ws)) post.
Proof.
  intros U HU xb ws bb W N (a0 & bb' & Ebb & Ha0) NP pre t post H1 Hpost Hend Hne Hsafe. subst bb.
  assert (D1 : decode_all (xb ++ a0 :: bb') = decode_all xb ++ decode_all (a0 :: bb'))
    by (apply (decode_all_split (length xb) xb (le_n _) a0 bb' Ha0)).
  assert (D2 : decode_all (xb ++ ws ++ a0 :: bb') = decode_all xb ++ ascii_runes ws ++ decode_all (a0 :: bb')).
  { destruct ws as [|a w]; [congruence|]. inversion W; subst. cbn [app].
    rewrite (decode_all_split (length xb) xb (le_n _) a (w ++ a0 :: bb')) by (unfold ws_byte in *; lia).
    f_equal. change (a :: w ++ a0 :: bb') with ((a :: w) ++ a0 :: bb'). apply decode_all_ascii.
    eapply Forall_impl; [|exact W]. unfold ws_byte. intros c Hc. lia. }
  unfold lex_with in *. rewrite D1 in H1. rewrite D2.
  apply (ws_insert2_runes U HU ws (decode_all (a0 :: bb')) W N (decode_widths_pos _ (a0 :: bb') (le_n _))); auto.
  - intro E. apply (f_equal wsum) in E. rewrite (wsum_decode_all _ _ (le_n _)) in E. cbn in E. discriminate.
  - apply (decode_widths_pos (length xb)). apply le_n.
  - rewrite Hend. symmetry. apply (wsum_decode_all (length xb)). apply le_n.
Qed.
