(* Whitespace between tokens (C16), part A: positions never influence decisions (shift invariance), and once a token
   has been emitted (state lexSpace) the amount of ASCII white space that follows -- including none -- changes nothing
   but the offsets of what follows. *)
From Coq Require Import List ZArith NArith Bool Arith Lia.
From Coq.Strings Require Import Byte.
Import ListNotations.
From BWLexer Require Import Utf8 Unicode Lexer LexerProofs CaseProofs.
From BWLexer.Gen Require Import LexTablesGen.

Definition shift_tok (d : nat) (t : token) : token := (tk_kind t, tk_start t + d, tk_end t + d).
Definition shift_lx (d : nat) (l : lx) : lx := mkLx (rest l) (start l + d) (pos l + d) (last l).
Definition shift_res (d : nat) (r : res) : res :=
  let '(toks, nxt, l') := r in (map (shift_tok d) toks, nxt, shift_lx d l').
Definition set_rest (l : lx) (rs : list rw) : lx := mkLx rs (start l) (pos l) (last l).

Lemma sw a d w : a + d + w = a + w + d.
Proof. lia. Qed.

Lemma emit_shift d k l ps rs nx : emit k (shift_lx d l) (ps + d) rs nx = shift_res d (emit k l ps rs nx).
Proof. reflexivity. Qed.
Lemma emit_error_shift d l ps rs : emit_error (shift_lx d l) (ps + d) rs = shift_res d (emit_error l ps rs).
Proof. reflexivity. Qed.

Section Shift.
Variable U : uni.
Variable d : nat.

Lemma scan_while_shift p : forall rs ps,
  scan_while p (ps + d) rs = (fst (scan_while p ps rs) + d, snd (scan_while p ps rs)).
Proof.
  induction rs as [|[r w] rs IH]; intro ps; cbn [scan_while]; [reflexivity|].
  destruct (p r); [|reflexivity]. rewrite (sw _ d). apply IH.
Qed.

Lemma consume_shift : forall text rs ps,
  consume U text (ps + d) rs =
  (fst (fst (consume U text ps rs)), snd (fst (consume U text ps rs)) + d, snd (consume U text ps rs)).
Proof.
  induction text as [|c text IH]; intros rs ps; cbn [consume]; [reflexivity|].
  destruct rs as [|[r w] rs]; [reflexivity|]. destruct (Z.eqb _ _); [|reflexivity]. rewrite (sw _ d). apply IH.
Qed.

Ltac sh IH :=
  repeat first
    [ rewrite (sw _ d)
    | rewrite emit_shift
    | rewrite emit_error_shift
    | rewrite IH
    | reflexivity
    | match goal with |- context [if ?c then _ else _] => destruct c end ].

Lemma ff_loop_shift l : forall rs ps, ff_loop U (shift_lx d l) (ps + d) rs = shift_res d (ff_loop U l ps rs).
Proof. induction rs as [|[r w] rs IH]; intro ps; cbn [ff_loop]; sh IH. Qed.

Lemma node_loop_shift l : forall n rs, length rs <= n -> forall ltid ps,
  node_loop (shift_lx d l) ltid (ps + d) rs = shift_res d (node_loop l ltid ps rs).
Proof.
  induction n as [|n IH]; intros rs Hn ltid ps.
  - destruct rs; [reflexivity|cbn in Hn; lia].
  - destruct rs as [|[r w] rs]; [reflexivity|]. cbn [length] in Hn. cbn [node_loop].
    destruct (Z.eqb r r_backSlash).
    + destruct rs as [|[r2 w2] rs2]; [rewrite (sw _ d); apply IH; cbn; lia|].
      destruct (Z.eqb r2 r_lt); rewrite ?(sw _ d); apply IH; cbn [length] in *; lia.
    + destruct (Z.eqb r r_lt); [rewrite (sw _ d); apply IH; lia|].
      destruct (Z.eqb r r_gt); [destruct ltid; rewrite (sw _ d); reflexivity|].
      rewrite (sw _ d). apply IH. lia.
Qed.

Lemma bounds_loop_shift l : forall rs c ps, bounds_loop (shift_lx d l) c (ps + d) rs = shift_res d (bounds_loop l c ps rs).
Proof. induction rs as [|[r w] rs IH]; intros c ps; cbn [bounds_loop]; sh IH. Qed.

Lemma pred_loop_shift l : forall n rs, length rs <= n -> forall ps,
  pred_loop U (shift_lx d l) (ps + d) rs = shift_res d (pred_loop U l ps rs).
Proof.
  induction n as [|n IH]; intros rs Hn ps.
  - destruct rs; [reflexivity|cbn in Hn; lia].
  - destruct rs as [|[r w] rs]; [reflexivity|]. cbn [length] in Hn. cbn [pred_loop].
    destruct (Z.eqb r r_backSlash).
    + destruct rs as [|[r2 w2] rs2]; [rewrite (sw _ d); apply IH; cbn; lia|].
      destruct (Z.eqb r2 r_quote); rewrite ?(sw _ d); apply IH; cbn [length] in *; lia.
    + destruct (Z.eqb r r_quote).
      * rewrite consume_shift. match goal with |- context [consume ?xa ?xb ?xc ?xd] => destruct (consume xa xb xc xd) as [[b p1] rs1] end. cbn [fst snd].
        destruct b; [apply bounds_loop_shift|reflexivity].
      * rewrite (sw _ d). apply IH. lia.
Qed.

Lemma literal_tail_shift l p1 rs1 : literal_tail U (shift_lx d l) (p1 + d) rs1 = shift_res d (literal_tail U l p1 rs1).
Proof.
  unfold literal_tail. rewrite scan_while_shift.
  destruct (scan_while (letter_or_digit U) p1 rs1) as [p2 rs2]. cbn [fst snd].
  destruct (mem_zs _ literal_types); [reflexivity|]. destruct rs2 as [|[r3 w3] rs3]; [reflexivity|]. rewrite (sw _ d). reflexivity.
Qed.

Lemma lit_loop_shift l : forall n rs, length rs <= n -> forall ps,
  lit_loop U (shift_lx d l) (ps + d) rs = shift_res d (lit_loop U l ps rs).
Proof.
  induction n as [|n IH]; intros rs Hn ps.
  - destruct rs; [reflexivity|cbn in Hn; lia].
  - destruct rs as [|[r w] rs]; [reflexivity|]. cbn [length] in Hn. cbn [lit_loop].
    destruct (Z.eqb r r_backSlash).
    + destruct rs as [|[r2 w2] rs2]; [rewrite (sw _ d); apply IH; cbn; lia|].
      destruct (Z.eqb r2 r_quote); rewrite ?(sw _ d); apply IH; cbn [length] in *; lia.
    + destruct (Z.eqb r r_quote).
      * rewrite consume_shift. match goal with |- context [consume ?xa ?xb ?xc ?xd] => destruct (consume xa xb xc xd) as [[b p1] rs1] end. cbn [fst snd].
        destruct b; [apply literal_tail_shift|reflexivity].
      * rewrite (sw _ d). apply IH. lia.
Qed.

Lemma gt_loop_shift l : forall rs sk cs ps, gt_loop U (shift_lx d l) sk cs (ps + d) rs = shift_res d (gt_loop U l sk cs ps rs).
Proof. induction rs as [|[r w] rs IH]; intros sk cs ps; cbn [gt_loop]; sh IH. Qed.

Lemma time_loop_shift l : forall rs ps, time_loop U (shift_lx d l) (ps + d) rs = shift_res d (time_loop U l ps rs).
Proof. induction rs as [|[r w] rs IH]; intro ps; cbn [time_loop]; sh IH. Qed.

Lemma lex_token_shift : forall n rs, length rs <= n -> forall lastk st ps,
  lex_token U lastk (st + d) (ps + d) rs = shift_res d (lex_token U lastk st ps rs).
Proof.
  induction n as [|n IH]; intros rs Hn lastk st ps.
  - destruct rs; [reflexivity|cbn in Hn; lia].
  - destruct rs as [|[r w] rs]; [reflexivity|]. cbn [length] in Hn. cbn [lex_token].
    destruct (is_digit U r && mem_N lastk last_global_time); [reflexivity|].
    destruct (is_digit U r && mem_N lastk last_local_time); [reflexivity|].
    destruct (Z.eqb r r_binding); [rewrite (sw _ d); reflexivity|].
    destruct (Z.eqb r r_slash); [reflexivity|].
    destruct (Z.eqb r r_underscore); [rewrite (sw _ d); reflexivity|].
    destruct (Z.eqb r r_quote); [reflexivity|].
    destruct (is_letter U r); [destruct (mem_N lastk last_filter_function); reflexivity|].
    destruct (assoc_sym r single_symbols); [rewrite (sw _ d); reflexivity|].
    destruct (is_space U r); [rewrite (sw _ d); apply IH; lia|].
    destruct rs as [|[r2 w2] rs2]; [rewrite (sw _ d); reflexivity|].
    rewrite !(sw _ d). apply IH. cbn [length] in *. lia.
Qed.

Lemma step_shift s l : step U s (shift_lx d l) = shift_res d (step U s l).
Proof.
  destruct s; cbn [step].
  - cbn [shift_lx last start pos rest]. eapply lex_token_shift. apply le_n.
  - unfold lex_space. cbn [shift_lx pos rest last]. rewrite scan_while_shift.
    destruct (scan_while (is_space U) (pos l) (rest l)). reflexivity.
  - unfold lex_keyword. cbn [shift_lx pos rest]. destruct (find_keyword _ keywords).
    + rewrite scan_while_shift. destruct (scan_while (is_letter U) (pos l) (rest l)). reflexivity.
    + rewrite scan_while_shift. destruct (scan_while _ (pos l) (rest l)). reflexivity.
  - unfold lex_filter_function. cbn [shift_lx pos rest]. destruct (rest l) as [|[r w] rs]; [reflexivity|].
    rewrite (sw _ d). apply ff_loop_shift.
  - unfold lex_node. cbn [shift_lx pos rest]. eapply node_loop_shift. apply le_n.
  - unfold lex_blank_node. cbn [shift_lx pos rest]. destruct (rest l) as [|[r w] rs]; [reflexivity|].
    destruct (negb _); [rewrite (sw _ d); reflexivity|]. destruct rs as [|[r2 w2] rs2]; [rewrite (sw _ d); reflexivity|].
    destruct (negb _); [rewrite !(sw _ d); reflexivity|]. rewrite !(sw _ d), scan_while_shift.
    destruct (scan_while (ident_rune U) (pos l + w + w2) rs2). reflexivity.
  - unfold lex_binding. cbn [shift_lx pos rest]. rewrite scan_while_shift.
    destruct (scan_while (ident_rune U) (pos l) (rest l)). reflexivity.
  - unfold lex_pred_or_lit. cbn [shift_lx pos rest].
    destruct (index_of (zs s_anchor) _); destruct (index_of (zs s_literalType) _); reflexivity.
  - unfold lex_predicate. cbn [shift_lx pos rest]. destruct (rest l) as [|[r w] rs]; [reflexivity|].
    rewrite (sw _ d). eapply pred_loop_shift. apply le_n.
  - unfold lex_literal. cbn [shift_lx pos rest]. destruct (rest l) as [|[r w] rs]; [reflexivity|].
    rewrite (sw _ d). eapply lit_loop_shift. apply le_n.
  - unfold lex_global_time. cbn [shift_lx pos rest]. destruct (rest l) as [|[r w] rs]; [reflexivity|].
    rewrite (sw _ d). apply gt_loop_shift.
  - unfold lex_time. cbn [shift_lx pos rest]. destruct (rest l) as [|[r w] rs]; [reflexivity|].
    rewrite (sw _ d). apply time_loop_shift.
Qed.

Lemma run_shift : forall f s l,
  run U f s (shift_lx d l) = (map (shift_tok d) (fst (run U f s l)), snd (run U f s l)).
Proof.
  induction f as [|f IH]; intros s l; [reflexivity|]. cbn [run]. rewrite step_shift.
  destruct (step U s l) as [[toks nxt] l']. cbn [shift_res]. destruct nxt as [s'|]; [|reflexivity].
  rewrite IH. destruct (run U f s' l') as [ts fin]. cbn [fst snd]. now rewrite map_app.
Qed.

End Shift.

(* ---------------------------------------------------------------- white space after an emitted token *)
(* ASCII white space bytes: TAB LF VT FF CR SPACE *)
Definition ws_byte (b : byte) : Prop := (9 <= bz b <= 13)%Z \/ bz b = 32%Z.

Section Space.
Variable U : uni.
Hypothesis HU : ascii_ok U.

Lemma ws_is_space b : ws_byte b -> is_space U (bz b) = true.
Proof.
  intro H. assert (R : (0 <= bz b < 128)%Z) by (destruct H; lia).
  destruct (HU (bz b) R) as (_ & _ & E & _). rewrite E. unfold ascii_space, between.
  destruct H as [H|H]; [|rewrite H; reflexivity].
  destruct (Z.leb_spec 9 (bz b)); destruct (Z.leb_spec (bz b) 13); try lia; try reflexivity.
Qed.

Lemma scan_spaces : forall ws r ps, Forall ws_byte ws ->
  scan_while (is_space U) ps (ascii_runes ws ++ r) = scan_while (is_space U) (ps + length ws) r.
Proof.
  induction ws as [|a ws IH]; intros r ps H; cbn [ascii_runes map app length scan_while]; [now rewrite Nat.add_0_r|].
  inversion H; subst. rewrite ws_is_space by assumption. fold (ascii_runes ws). rewrite IH by assumption. f_equal. lia.
Qed.

(* the run from lexSpace over ws ++ r is the run from lexSpace over r, shifted by |ws| *)
Theorem run_after_token_ws : forall f l ws r, Forall ws_byte ws ->
  run U f SSpace (set_rest l (ascii_runes ws ++ r)) =
  (map (shift_tok (length ws)) (fst (run U f SSpace (set_rest l r))), snd (run U f SSpace (set_rest l r))).
Proof.
  intros f l ws r H. destruct f as [|f]; [reflexivity|]. cbn [run step]. unfold lex_space. cbn [set_rest pos rest last].
  rewrite scan_spaces by assumption. rewrite scan_while_shift.
  destruct (scan_while (is_space U) (pos l) r) as [p' rs']. cbn [fst snd].
  change (mkLx rs' (p' + length ws) (p' + length ws) (last l)) with (shift_lx (length ws) (mkLx rs' p' p' (last l))).
  rewrite run_shift. destruct (run U f SToken _) as [ts fin]. reflexivity.
Qed.

End Space.
