(* Facts about the UTF-8 decoder: it covers the input exactly, every rune has a positive width, decoding splits in
   front of an ASCII byte, and an ASCII code point c appears among the decoded runes only if the byte c is in the input. *)
From Coq Require Import List ZArith NArith Bool Arith Lia.
From Coq.Strings Require Import Byte.
Import ListNotations.
From BWLexer Require Import Utf8 Unicode Lexer LexerProofs.

Definition widths_pos (x : list rw) : Prop := Forall (fun p => 1 <= snd p) x.

(* ---------------------------------------------------------------- bytes: decoding splits in front of an ASCII byte *)
Lemma first_info_lead z sz lo hi : first_info z = LLead sz lo hi -> (128 <= lo)%Z.
Proof.
  unfold first_info. repeat match goal with |- context [if ?c then _ else _] => destruct c end;
    intro H; inversion H; subst; lia.
Qed.

Lemma ascii_not_in_range a lo hi : (bz a < 128)%Z -> (128 <= lo)%Z -> in_range lo hi (bz a) = false.
Proof. intros H1 H2. unfold in_range. destruct (Z.leb_spec lo (bz a)); [lia|reflexivity]. Qed.

Lemma decode_all_split : forall n xb, length xb <= n -> forall a s, (bz a < 128)%Z ->
  decode_all (xb ++ a :: s) = decode_all xb ++ decode_all (a :: s).
Proof.
  induction n as [|n IH]; intros xb Hn a s Ha; [destruct xb; [reflexivity|cbn in Hn; lia]|].
  destruct xb as [|b0 t]; [reflexivity|]. cbn [length] in Hn.
  assert (NC : is_cont (bz a) = false) by (apply ascii_not_in_range; lia).
  (* the "bad" continuation (RuneError, 1) :: decode_all t splits by induction; name both sides *)
  assert (HB : exists L R, L = (rune_error, 1%nat) :: decode_all (t ++ a :: s) /\ R = (rune_error, 1%nat) :: decode_all t /\
                           L = R ++ decode_all (a :: s)).
  { eexists _, _. split; [reflexivity|]. split; [reflexivity|]. cbn [app]. f_equal. apply IH; [lia|assumption]. }
  destruct HB as (L & R & EL & ER & HB).
  cbn [app]. cbn [decode_all]. rewrite <- EL, <- ER.
  destruct (first_info (bz b0)) as [| |sz lo hi] eqn:FI.
  - cbn [app]. f_equal. apply IH; [lia|assumption].
  - exact HB.
  - pose proof (first_info_lead _ _ _ _ FI) as Hlo.
    destruct t as [|b1 t1].
    + cbn [app]. rewrite (ascii_not_in_range a lo hi Ha Hlo). cbn [negb]. exact HB.
    + cbn [app length] in *. destruct (negb (in_range lo hi (bz b1))); [exact HB|].
      destruct sz as [|[|[|sz]]].
      * destruct t1 as [|b2 t2].
        -- cbn [app]. rewrite NC. cbn [negb]. exact HB.
        -- cbn [app length] in *. destruct (negb (is_cont (bz b2))); [exact HB|].
           destruct t2 as [|b3 t3].
           ++ cbn [app]. rewrite NC. cbn [negb]. exact HB.
           ++ cbn [app length] in *. destruct (negb (is_cont (bz b3))); [exact HB|].
              cbn [app]. f_equal. apply IH; [lia|assumption].
      * destruct t1 as [|b2 t2].
        -- cbn [app]. rewrite NC. cbn [negb]. exact HB.
        -- cbn [app length] in *. destruct (negb (is_cont (bz b2))); [exact HB|].
           destruct t2 as [|b3 t3].
           ++ cbn [app]. rewrite NC. cbn [negb]. exact HB.
           ++ cbn [app length] in *. destruct (negb (is_cont (bz b3))); [exact HB|].
              cbn [app]. f_equal. apply IH; [lia|assumption].
      * cbn [app]. f_equal. apply IH; [lia|assumption].
      * destruct t1 as [|b2 t2].
        -- cbn [app]. rewrite NC. cbn [negb]. exact HB.
        -- cbn [app length] in *. destruct (negb (is_cont (bz b2))); [exact HB|].
           destruct sz as [|sz].
           ++ cbn [app]. f_equal. apply IH; [lia|assumption].
           ++ destruct t2 as [|b3 t3].
              ** cbn [app]. rewrite NC. cbn [negb]. exact HB.
              ** cbn [app length] in *. destruct (negb (is_cont (bz b3))); [exact HB|].
                 cbn [app]. f_equal. apply IH; [lia|assumption].
Qed.

Lemma decode_widths_pos : forall n s, length s <= n -> widths_pos (decode_all s).
Proof.
  unfold widths_pos.
  induction n as [|n IH]; intros s Hn; [destruct s; [constructor|cbn in Hn; lia]|].
  destruct s as [|b0 t]; [constructor|]. cbn [length] in Hn.
  assert (Hbad : Forall (fun p : rw => 1 <= snd p) ((rune_error, 1) :: decode_all t)) by (constructor; [cbn; lia|apply IH; lia]).
  cbn [decode_all]. destruct (first_info (bz b0)) as [| |sz lo hi]; [constructor; [cbn; lia|apply IH; lia]|exact Hbad|].
  destruct t as [|b1 t1]; [exact Hbad|]. cbn [length] in Hn. destruct (negb _); [exact Hbad|].
  destruct sz as [|[|[|sz]]].
  - destruct t1 as [|b2 t2]; [exact Hbad|]. destruct (negb _); [exact Hbad|].
    destruct t2 as [|b3 t3]; [exact Hbad|]. destruct (negb _); [exact Hbad|]. constructor; [cbn; lia|apply IH; cbn [length] in *; lia].
  - destruct t1 as [|b2 t2]; [exact Hbad|]. destruct (negb _); [exact Hbad|].
    destruct t2 as [|b3 t3]; [exact Hbad|]. destruct (negb _); [exact Hbad|]. constructor; [cbn; lia|apply IH; cbn [length] in *; lia].
  - constructor; [cbn; lia|apply IH; lia].
  - destruct t1 as [|b2 t2]; [exact Hbad|]. destruct (negb _); [exact Hbad|]. destruct sz as [|sz].
    + constructor; [cbn; lia|apply IH; cbn [length] in *; lia].
    + destruct t2 as [|b3 t3]; [exact Hbad|]. destruct (negb _); [exact Hbad|]. constructor; [cbn; lia|apply IH; cbn [length] in *; lia].
Qed.


(* ---------------------------------------------------------------- ASCII code points come from ASCII bytes only *)
Lemma first_info_cases z sz lo hi : first_info z = LLead sz lo hi ->
  (128 <= lo /\ hi <= 191)%Z /\
  ((sz = 2%nat /\ 194 <= z < 224) \/ (sz = 3%nat /\ 224 <= z < 240 /\ (z = 224 -> lo = 160)) \/
   (sz = 4%nat /\ 240 <= z <= 244 /\ (z = 240 -> lo = 144)))%Z.
Proof.
  unfold first_info.
  repeat match goal with
         | |- context [Z.ltb ?a ?b] => destruct (Z.ltb_spec a b)
         | |- context [Z.eqb ?a ?b] => destruct (Z.eqb_spec a b)
         end; intro HH; inversion HH; subst; split; try lia.
Qed.

Lemma bz_range' b : (0 <= bz b < 256)%Z.
Proof. unfold bz. pose proof (Byte.to_N_bounded b). lia. Qed.

Lemma in_range_bounds lo hi z : negb (in_range lo hi z) = false -> (lo <= z <= hi)%Z.
Proof.
  unfold in_range. destruct (Z.leb_spec lo z); destruct (Z.leb_spec z hi); cbn; intro HH; try discriminate. lia.
Qed.

Lemma decode_avoid : forall c, (0 <= c < 128)%Z -> forall n s, length s <= n ->
  Forall (fun b => bz b <> c) s -> Forall (fun p : rw => fst p <> c) (decode_all s).
Proof.
  intros c Hc. induction n as [|n IH]; intros s Hn Hs; [destruct s; [constructor|cbn in Hn; lia]|].
  destruct s as [|b0 t]; [constructor|]. cbn [length] in Hn. inversion Hs as [|? ? Hb0 Ht]; subst.
  assert (Hbad : Forall (fun p : rw => fst p <> c) ((rune_error, 1) :: decode_all t)).
  { constructor; [unfold rune_error; cbn; lia|apply IH; [lia|assumption]]. }
  assert (Tl : forall t', length t' <= n -> Forall (fun b => bz b <> c) t' -> Forall (fun p : rw => fst p <> c) (decode_all t'))
    by (intros; apply IH; assumption).
  cbn [decode_all]. destruct (first_info (bz b0)) as [| |sz lo hi] eqn:FI.
  - constructor; [exact Hb0|apply Tl; [lia|assumption]].
  - exact Hbad.
  - destruct (first_info_cases _ _ _ _ FI) as [[Hlo Hhi] Hz].
    destruct t as [|b1 t1]; [exact Hbad|]. cbn [length] in Hn. inversion Ht as [|? ? Hb1 Ht1]; subst.
    destruct (negb (in_range lo hi (bz b1))) eqn:R1; [exact Hbad|]. apply in_range_bounds in R1.
    pose proof (bz_range' b1) as B1.
    destruct sz as [|[|[|sz]]].
    + exfalso. lia.
    + exfalso. lia.
    + constructor; [|apply Tl; [lia|assumption]]. cbn [fst].
      assert (128 <= (bz b0 mod 32) * 64 + bz b1 mod 64)%Z; [|lia].
      destruct Hz as [(_ & Hz)|[(E & _)|(E & _)]]; try discriminate. Z.div_mod_to_equations. lia.
    + destruct t1 as [|b2 t2]; [exact Hbad|]. cbn [length] in Hn. inversion Ht1 as [|? ? Hb2 Ht2]; subst.
      destruct (negb (is_cont (bz b2))) eqn:R2; [exact Hbad|]. apply in_range_bounds in R2.
      destruct sz as [|sz].
      * constructor; [|apply Tl; [lia|assumption]]. cbn [fst].
        assert (128 <= (bz b0 mod 16) * 4096 + (bz b1 mod 64) * 64 + bz b2 mod 64)%Z; [|lia].
        destruct Hz as [(E & _)|[(_ & Hz1 & Hz2)|(E & _)]]; try discriminate.
        destruct (Z.eq_dec (bz b0) 224) as [E0|E0]; [specialize (Hz2 E0)|]; Z.div_mod_to_equations; lia.
      * destruct t2 as [|b3 t3]; [exact Hbad|]. cbn [length] in Hn. inversion Ht2 as [|? ? Hb3 Ht3]; subst.
        destruct (negb (is_cont (bz b3))) eqn:R3; [exact Hbad|]. apply in_range_bounds in R3.
        constructor; [|apply Tl; [lia|assumption]]. cbn [fst].
        assert (128 <= (bz b0 mod 8) * 262144 + (bz b1 mod 64) * 4096 + (bz b2 mod 64) * 64 + bz b3 mod 64)%Z; [|lia].
        destruct Hz as [(E & _)|[(E & _)|(E & Hz1 & Hz2)]]; try (exfalso; lia).
        destruct (Z.eq_dec (bz b0) 240) as [E0|E0]; [specialize (Hz2 E0)|]; Z.div_mod_to_equations; lia.
Qed.
