(* Whitespace between tokens (C16), part C: the two runs (input with ws1 / with ws2 after a token) agree token for token
   up to that token (WsSim.step_loc, step by step) and afterwards up to the shift (WsProofs.run_after_token_ws). *)
From Coq Require Import List ZArith NArith Bool Arith Lia.
From Coq.Strings Require Import Byte.
Import ListNotations.
From BWLexer Require Import Utf8 Unicode Lexer LexerProofs Utf8Proofs CaseProofs WsProofs WsSim.
From BWLexer.Gen Require Import LexTablesGen.

(* ---------------------------------------------------------------- what a state function leaves behind *)
Definition suf (rs' rs : list rw) : Prop := exists pre, rs = pre ++ rs'.

Lemma suf_refl rs : suf rs rs. Proof. exists []. reflexivity. Qed.
Lemma suf_cons a rs' rs : suf rs' rs -> suf rs' (a :: rs). Proof. intros [p ->]. exists (a :: p). reflexivity. Qed.
Lemma suf_nil rs : suf [] rs. Proof. exists rs. now rewrite app_nil_r. Qed.
Lemma suf_trans a b c : suf a b -> suf b c -> suf a c.
Proof. intros [p ->] [q ->]. exists (q ++ p). now rewrite app_assoc. Qed.

(* at most one token; if one is emitted the scanner stands at its end, and the function returns nil or lexSpace *)
Definition shape (r : res) : Prop :=
  let '(toks, nxt, l') := r in
  toks = [] \/ exists k a e, toks = [(k, a, e)] /\ pos l' = e /\ (nxt = None \/ nxt = Some SSpace).

Definition post_ok (rs : list rw) (r : res) : Prop := suf (rest (snd r)) rs /\ shape r.

Lemma post_emit rs k l ps rs' : suf rs' rs -> post_ok rs (emit k l ps rs' SSpace).
Proof. intro H. split; [exact H|]. right. exists k, (start l), ps. cbn. auto. Qed.
Lemma post_error rs l ps rs' : suf rs' rs -> post_ok rs (emit_error l ps rs').
Proof. intro H. split; [exact H|]. right. exists ItemError, (start l), ps. cbn. auto. Qed.
Lemma post_goto rs s l' : suf (rest l') rs -> post_ok rs ([], Some s, l').
Proof. intro H. split; [exact H|]. now left. Qed.
Lemma post_cons a rs r : post_ok rs r -> post_ok (a :: rs) r.
Proof. intros [H1 H2]. split; [now apply suf_cons|exact H2]. Qed.

Section Post.
Variable U : uni.

Lemma scan_while_suf p : forall rs ps, suf (snd (scan_while p ps rs)) rs.
Proof.
  induction rs as [|[r w] rs IH]; intro ps; cbn [scan_while]; [apply suf_refl|].
  destruct (p r); [apply suf_cons, IH|apply suf_refl].
Qed.

Lemma consume_suf : forall text rs ps, suf (snd (consume U text ps rs)) rs.
Proof.
  induction text as [|c text IH]; intros rs ps; cbn [consume]; [apply suf_refl|].
  destruct rs as [|[r w] rs]; [apply suf_refl|]. destruct (Z.eqb _ _); [apply suf_cons, IH|apply suf_refl].
Qed.

Ltac po IH :=
  repeat first
    [ apply post_emit | apply post_error | apply suf_refl | apply suf_nil
    | (apply suf_cons; apply suf_refl)
    | (apply post_cons; apply IH)
    | match goal with |- context [if ?c then _ else _] => destruct c end ].

Lemma ff_loop_post l : forall rs ps, post_ok rs (ff_loop U l ps rs).
Proof. induction rs as [|[r w] rs IH]; intro ps; cbn [ff_loop]; po IH. Qed.

Lemma node_loop_post l : forall n rs, length rs <= n -> forall ltid ps, post_ok rs (node_loop l ltid ps rs).
Proof.
  induction n as [|n IH]; intros rs Hn ltid ps.
  - destruct rs; [cbn [node_loop]; po IH|cbn in Hn; lia].
  - destruct rs as [|[r w] rs]; [cbn [node_loop]; po IH|]. cbn [length] in Hn. cbn [node_loop].
    destruct (Z.eqb r r_backSlash).
    + destruct rs as [|[r2 w2] rs2]; [apply post_cons, IH; cbn; lia|].
      destruct (Z.eqb r2 r_lt); [apply post_cons, post_cons, IH; cbn [length] in *; lia|apply post_cons, IH; cbn [length] in *; lia].
    + destruct (Z.eqb r r_lt); [apply post_cons, IH; lia|].
      destruct (Z.eqb r r_gt); [destruct ltid; po IH|]. apply post_cons, IH. lia.
Qed.

Lemma bounds_loop_post l : forall rs c ps, post_ok rs (bounds_loop l c ps rs).
Proof. induction rs as [|[r w] rs IH]; intros c ps; cbn [bounds_loop]; po IH. Qed.

Lemma post_suf rs rs' r : post_ok rs' r -> suf rs' rs -> post_ok rs r.
Proof. intros [H1 H2] H. split; [eapply suf_trans; eauto|exact H2]. Qed.

Lemma pred_loop_post l : forall n rs, length rs <= n -> forall ps, post_ok rs (pred_loop U l ps rs).
Proof.
  induction n as [|n IH]; intros rs Hn ps.
  - destruct rs; [cbn [pred_loop]; po IH|cbn in Hn; lia].
  - destruct rs as [|[r w] rs]; [cbn [pred_loop]; po IH|]. cbn [length] in Hn. cbn [pred_loop].
    destruct (Z.eqb r r_backSlash).
    + destruct rs as [|[r2 w2] rs2]; [apply post_cons, IH; cbn; lia|].
      destruct (Z.eqb r2 r_quote); [apply post_cons, post_cons, IH; cbn [length] in *; lia|apply post_cons, IH; cbn [length] in *; lia].
    + destruct (Z.eqb r r_quote).
      * match goal with |- context [consume ?xa ?xb ?xc ?xd] =>
          pose proof (consume_suf xb xd xc) as G; destruct (consume xa xb xc xd) as [[bb p1] rs1] end.
        cbn [snd] in G. destruct bb; [eapply post_suf; [apply bounds_loop_post|exact G]|apply post_error; exact G].
      * apply post_cons, IH. lia.
Qed.

Lemma literal_tail_post l p1 rs1 : post_ok rs1 (literal_tail U l p1 rs1).
Proof.
  unfold literal_tail. pose proof (scan_while_suf (letter_or_digit U) rs1 p1) as G.
  destruct (scan_while (letter_or_digit U) p1 rs1) as [p2 rs2]. cbn [snd] in G.
  destruct (mem_zs _ literal_types); [apply post_emit; exact G|].
  destruct rs2 as [|[r3 w3] rs3]; apply post_error; [exact G|].
  eapply suf_trans; [|exact G]. apply suf_cons, suf_refl.
Qed.

Lemma lit_loop_post l : forall n rs, length rs <= n -> forall ps, post_ok rs (lit_loop U l ps rs).
Proof.
  induction n as [|n IH]; intros rs Hn ps.
  - destruct rs; [cbn [lit_loop]; po IH|cbn in Hn; lia].
  - destruct rs as [|[r w] rs]; [cbn [lit_loop]; po IH|]. cbn [length] in Hn. cbn [lit_loop].
    destruct (Z.eqb r r_backSlash).
    + destruct rs as [|[r2 w2] rs2]; [apply post_cons, IH; cbn; lia|].
      destruct (Z.eqb r2 r_quote); [apply post_cons, post_cons, IH; cbn [length] in *; lia|apply post_cons, IH; cbn [length] in *; lia].
    + destruct (Z.eqb r r_quote).
      * match goal with |- context [consume ?xa ?xb ?xc ?xd] =>
          pose proof (consume_suf xb xd xc) as G; destruct (consume xa xb xc xd) as [[bb p1] rs1] end.
        cbn [snd] in G. destruct bb; [eapply post_suf; [apply literal_tail_post|exact G]|apply post_error; exact G].
      * apply post_cons, IH. lia.
Qed.

Lemma gt_loop_post l : forall rs sk cs ps, post_ok rs (gt_loop U l sk cs ps rs).
Proof. induction rs as [|[r w] rs IH]; intros sk cs ps; cbn [gt_loop]; po IH. Qed.

Lemma time_loop_post l : forall rs ps, post_ok rs (time_loop U l ps rs).
Proof. induction rs as [|[r w] rs IH]; intro ps; cbn [time_loop]; po IH. Qed.

Lemma lex_token_post : forall n rs, length rs <= n -> forall lastk st ps, post_ok rs (lex_token U lastk st ps rs).
Proof.
  assert (E : forall st ps, post_ok [] ([(ItemEOF, st, ps)], None, mkLx [] ps ps ItemEOF)).
  { intros st ps. split; [apply suf_refl|]. right. exists ItemEOF, st, ps. cbn. auto. }
  induction n as [|n IH]; intros rs Hn lastk st ps.
  - destruct rs; [apply E|cbn in Hn; lia].
  - destruct rs as [|[r w] rs]; [apply E|]. cbn [length] in Hn. cbn [lex_token].
    destruct (is_digit U r && mem_N lastk last_global_time); [apply post_goto, suf_refl|].
    destruct (is_digit U r && mem_N lastk last_local_time); [apply post_goto, suf_refl|].
    destruct (Z.eqb r r_binding); [apply post_goto; cbn; apply suf_cons, suf_refl|].
    destruct (Z.eqb r r_slash); [apply post_goto, suf_refl|].
    destruct (Z.eqb r r_underscore); [apply post_goto; cbn; apply suf_cons, suf_refl|].
    destruct (Z.eqb r r_quote); [apply post_goto, suf_refl|].
    destruct (is_letter U r); [destruct (mem_N lastk last_filter_function); apply post_goto, suf_refl|].
    destruct (assoc_sym r single_symbols) as [k|].
    { split; [cbn; apply suf_cons, suf_refl|]. right. exists k, st, (ps + w). cbn. auto. }
    destruct (is_space U r); [apply post_cons, IH; lia|].
    destruct rs as [|[r2 w2] rs2].
    { apply post_cons. split; [apply suf_refl|]. right. exists ItemEOF, st, (ps + w). cbn. auto. }
    apply post_cons, post_cons, IH. cbn [length] in *. lia.
Qed.

Lemma step_post s l : post_ok (rest l) (step U s l).
Proof.
  destruct s; cbn [step].
  - eapply lex_token_post. apply le_n.
  - unfold lex_space. pose proof (scan_while_suf (is_space U) (rest l) (pos l)) as G.
    destruct (scan_while (is_space U) (pos l) (rest l)). apply post_goto. exact G.
  - unfold lex_keyword. destruct (find_keyword _ keywords).
    + pose proof (scan_while_suf (is_letter U) (rest l) (pos l)) as G.
      destruct (scan_while (is_letter U) (pos l) (rest l)). apply post_emit. exact G.
    + match goal with |- context [scan_while ?p ?a ?b] => pose proof (scan_while_suf p b a) as G; destruct (scan_while p a b) end.
      apply post_error. exact G.
  - unfold lex_filter_function. destruct (rest l) as [|[r w] rs]; [apply post_error, suf_refl|]. apply post_cons, ff_loop_post.
  - unfold lex_node. eapply node_loop_post. apply le_n.
  - unfold lex_blank_node. destruct (rest l) as [|[r w] rs]; [apply post_error, suf_refl|].
    destruct (negb _); [apply post_error, suf_cons, suf_refl|].
    destruct rs as [|[r2 w2] rs2]; [apply post_error, suf_nil|].
    destruct (negb _); [apply post_error, suf_cons, suf_cons, suf_refl|].
    pose proof (scan_while_suf (ident_rune U) rs2 (pos l + w + w2)) as G.
    destruct (scan_while (ident_rune U) (pos l + w + w2) rs2). apply post_emit. now apply suf_cons, suf_cons.
  - unfold lex_binding. pose proof (scan_while_suf (ident_rune U) (rest l) (pos l)) as G.
    destruct (scan_while (ident_rune U) (pos l) (rest l)). apply post_emit. exact G.
  - unfold lex_pred_or_lit.
    destruct (index_of (zs s_anchor) _); destruct (index_of (zs s_literalType) _);
      try (apply post_goto, suf_refl); apply post_error, suf_refl.
  - unfold lex_predicate. destruct (rest l) as [|[r w] rs]; [apply post_error, suf_refl|].
    apply post_cons. eapply pred_loop_post. apply le_n.
  - unfold lex_literal. destruct (rest l) as [|[r w] rs]; [apply post_error, suf_refl|].
    apply post_cons. eapply lit_loop_post. apply le_n.
  - unfold lex_global_time. destruct (rest l) as [|[r w] rs]; [apply post_emit, suf_refl|]. apply post_cons, gt_loop_post.
  - unfold lex_time. destruct (rest l) as [|[r w] rs]; [apply post_emit, suf_refl|]. apply post_cons, time_loop_post.
Qed.

(* every token of a run ends at or after the position the run started from *)
Lemma run_pos_le : forall f s l ts fin, run U f s l = (ts, fin) -> Forall (fun t => pos l <= tk_end t) ts.
Proof.
  induction f as [|f IH]; intros s l ts fin H; cbn [run] in H; [inversion H; constructor|].
  pose proof (step_ge U s l) as G. pose proof (step_post s l) as [_ Sh].
  destruct (step U s l) as [[toks nxt] l']. unfold rpos in G. cbn [snd] in G. cbn [shape] in Sh.
  assert (Ht : Forall (fun t => pos l <= tk_end t) toks).
  { destruct Sh as [->|(k & a & e & -> & Ep & _)]; [constructor|]. constructor; [cbn; lia|constructor]. }
  destruct nxt as [s'|]; [|inversion H; subst; exact Ht].
  destruct (run U f s' l') as [ts' fin'] eqn:R. inversion H; subst. apply Forall_app. split; [exact Ht|].
  eapply Forall_impl; [|exact (IH _ _ _ _ R)]. cbn. intros t Hle. lia.
Qed.

End Post.

(* every token of a run starts at or after the pending start of the state the run started from *)
Lemma run_start_ge U total : forall f s l ts fin, wf total l -> run U f s l = (ts, fin) ->
  Forall (fun t => start l <= tk_start t) ts.
Proof.
  induction f as [|f IH]; intros s l ts fin Hw H; cbn [run] in H; [inversion H; constructor|].
  pose proof (step_good U total s l Hw) as G. destruct (step U s l) as [[toks nxt] l']. unfold good in G.
  destruct G as (Hw' & Hs & G). destruct nxt as [s'|].
  - destruct G as [_ G]. destruct (run U f s' l') as [ts' fin'] eqn:R. inversion H; subst. apply Forall_app. split.
    + destruct G as [->|(k & a & e & -> & A & _)]; [constructor|]. constructor; [exact A|constructor].
    + eapply Forall_impl; [|exact (IH _ _ _ _ Hw' R)]. cbn. intros t Ht. lia.
  - destruct G as (k & a & e & -> & A & _). inversion H; subst. constructor; [exact A|constructor].
Qed.

(* ---------------------------------------------------------------- the simulation *)
Lemma wsum_app : forall a b, wsum (a ++ b) = wsum a + wsum b.
Proof. induction a as [|[r w] a IH]; intro b; cbn [app wsum]; [reflexivity|]. rewrite IH. lia. Qed.


Lemma wsum_zero x : widths_pos x -> wsum x = 0 -> x = [].
Proof. destruct x as [|[r w] x]; [reflexivity|]. intros H E. inversion H; subst. cbn in *. lia. Qed.

Section Main.
Variable U : uni.
Hypothesis HU : ascii_ok U.
Variables ws1 ws2 : list byte.
Variable b : list rw.
Hypothesis W1 : Forall ws_byte ws1.
Hypothesis W2 : Forall ws_byte ws2.
Hypothesis N1 : ws1 <> [].
Hypothesis N2 : ws2 <> [].

Notation Y1 := (y1 ws1 b).
Notation Y2 := (y2 ws2 b).

Theorem sim_run : forall f s x st ps lk total pre t post fin,
  wf total (mkLx (x ++ Y1) st ps lk) -> widths_pos x ->
  run U f s (mkLx (x ++ Y1) st ps lk) = (pre ++ t :: post, fin) -> post <> [] -> tk_end t = ps + wsum x ->
  exists base, post = map (shift_tok (length ws1)) base /\ Forall (fun u => tk_end t <= tk_start u) base /\
    run U f s (mkLx (x ++ Y2) st ps lk) = (pre ++ t :: map (shift_tok (length ws2)) base, fin).
Proof.
  induction f as [|f IH]; intros s x st ps lk total pre t post fin Hwf Hwp Hrun Hpost Hend.
  { cbn in Hrun. inversion Hrun. destruct pre; discriminate. }
  cbn [run] in Hrun |- *.
  pose proof (step_good U total s _ Hwf) as G.
  pose proof (step_post U s (mkLx (x ++ Y1) st ps lk)) as [Sf Sh]. cbn [rest] in Sf.
  pose proof (step_loc U HU ws1 ws2 b W1 W2 N1 N2 s x st ps lk) as L.
  destruct (step U s (mkLx (x ++ Y1) st ps lk)) as [[toks nxt] l1'] eqn:E1.
  unfold good in G. destruct G as (Hwf' & _ & G). cbn [shape] in Sh. cbn [snd] in Sf.
  destruct nxt as [s'|].
  2:{ (* nil: a single token, but pre ++ t :: post has at least two *)
      exfalso. inversion Hrun as [[Ht Hf]]. destruct Sh as [->|(k & a & e & -> & _)].
      - destruct pre; discriminate.
      - destruct pre as [|p0 pre]; cbn in Ht; inversion Ht; subst; [apply Hpost; reflexivity|destruct pre; discriminate]. }
  destruct (run U f s' l1') as [ts' fin'] eqn:R1. inversion Hrun as [[Hts Hfin]]. subst fin'.
  (* the step stays before the boundary *)
  assert (Hb : pos l1' <= ps + wsum x).
  { pose proof (run_pos_le U f s' l1' ts' fin R1) as PL. rewrite Forall_forall in PL.
    destruct Sh as [->|(k & a & e & -> & Ep & _)].
    - cbn [app] in Hts. rewrite <- Hend. apply PL. rewrite Hts. apply in_or_app. right. now left.
    - destruct pre as [|p0 pre]; cbn [app] in Hts; inversion Hts; subst.
      + cbn [tk_end snd] in Hend. lia.
      + rewrite <- Hend. apply PL. apply in_or_app. right. now left. }
  destruct (L Hb) as (x' & Er & E2). cbn [fst snd] in Er, E2.
  destruct l1' as [rs' st' ps' lk']. cbn [rest pos] in *. subst rs'. unfold set_rest in E2. cbn [start pos last] in E2.
  rewrite E2.
  (* invariants for the next state *)
  assert (Hx' : suf x' x /\ ps' + wsum x' = ps + wsum x).
  { destruct Sf as [p0 Ep0]. rewrite app_assoc in Ep0. apply app_inv_tail in Ep0. split; [exists p0; exact Ep0|].
    destruct Hwf as [_ Ht1]. destruct Hwf' as [_ Ht2]. cbn [rest pos] in *. rewrite wsum_app in Ht1, Ht2. lia. }
  destruct Hx' as [[p0 Ep0] Hsum].
  assert (Hwp' : widths_pos x') by (unfold widths_pos in *; rewrite Ep0 in Hwp; apply Forall_app in Hwp; tauto).
  destruct Sh as [->|(k & a & e & -> & Ep & Hn)].
  - (* no token in this step *)
    cbn [app] in Hts. subst ts'.
    destruct (IH s' x' st' _ lk' total pre t post fin Hwf' Hwp' R1 Hpost ltac:(cbn [tk_end snd] in *; lia)) as (base & Eb & Es & Er2).
    exists base. split; [exact Eb|]. split; [exact Es|]. rewrite Er2. reflexivity.
  - destruct pre as [|p0' pre]; cbn [app] in Hts; inversion Hts; subst.
    + (* this step emits t: the lexer is now in lexSpace right at the boundary *)
      assert (s' = SSpace) by (destruct Hn as [Hn|Hn]; [discriminate|now inversion Hn]). subst s'.
      cbn [tk_end snd] in Hend. assert (x' = []) by (apply wsum_zero; [assumption|lia]). subst x'. cbn [app] in *.
      pose proof (run_after_token_ws U HU f (mkLx [] st' e lk') ws1 b W1) as A1.
      pose proof (run_after_token_ws U HU f (mkLx [] st' e lk') ws2 b W2) as A2.
      unfold set_rest in A1, A2. cbn [start pos last] in A1, A2.
      unfold y1 in R1. rewrite A1 in R1. inversion R1 as [[Ep1 Ef1]].
      exists (fst (run U f SSpace (mkLx b st' e lk'))). split; [reflexivity|]. split.
      * assert (Est : st' = e).
        { destruct G as [_ [G|(k' & a' & e' & Et & _ & _ & Ee & _)]]; [discriminate|]. inversion Et. cbn in Ee. congruence. }
        subst st'. cbn [tk_end snd].
        destruct (run U f SSpace (mkLx b e e lk')) as [tsb finb] eqn:Rb. cbn [fst].
        apply (run_start_ge U (e + wsum b) f SSpace (mkLx b e e lk') tsb finb); [split; cbn; lia|exact Rb].
      * unfold y2. rewrite A2. reflexivity.
    + (* this step emits a token of pre *)
      destruct (IH s' x' st' _ lk' total pre t post fin Hwf' Hwp' R1 Hpost ltac:(cbn [tk_end snd] in *; lia)) as (base & Eb & Es & Er2).
      exists base. split; [exact Eb|]. split; [exact Es|]. rewrite Er2. reflexivity.
Qed.

End Main.

(* ---------------------------------------------------------------- whole lexer, runes *)
Lemma run_fuel_mono U : forall f s l ts, run U f s l = (ts, true) -> forall f', f <= f' -> run U f' s l = (ts, true).
Proof.
  induction f as [|f IH]; intros s l ts H f' Hle; cbn [run] in H; [discriminate|].
  destruct f' as [|f']; [lia|]. cbn [run]. destruct (step U s l) as [[toks nxt] l']. destruct nxt as [s'|]; [|exact H].
  destruct (run U f s' l') as [ts' fin'] eqn:R. inversion H; subst. rewrite (IH _ _ _ R f' ltac:(lia)). reflexivity.
Qed.

Theorem ws_replace_runes : forall U, ascii_ok U -> forall ws1 ws2 b,
  Forall ws_byte ws1 -> Forall ws_byte ws2 -> ws1 <> [] -> ws2 <> [] ->
  forall x pre t post, widths_pos x ->
    fst (lex_runes U (x ++ ascii_runes ws1 ++ b)) = pre ++ t :: post -> post <> [] -> tk_end t = wsum x ->
    exists base, post = map (shift_tok (length ws1)) base /\ Forall (fun u => tk_end t <= tk_start u) base /\
      fst (lex_runes U (x ++ ascii_runes ws2 ++ b)) = pre ++ t :: map (shift_tok (length ws2)) base.
Proof.
  intros U HU ws1 ws2 b W1 W2 N1 N2 x pre t post Hwp H1 Hpost Hend.
  set (r1 := x ++ ascii_runes ws1 ++ b) in *. set (r2 := x ++ ascii_runes ws2 ++ b).
  destruct (lex_runes U r1) as [T1 f1] eqn:E1. destruct (lex_runes U r2) as [T2 f2] eqn:E2. cbn [fst] in *. subst T1.
  destruct (lex_runes_good U _ r1 _ _ eq_refl E1) as (-> & _). destruct (lex_runes_good U _ r2 _ _ eq_refl E2) as (-> & _).
  unfold lex_runes in E1, E2. set (F := Nat.max (fuel_for r1) (fuel_for r2)).
  pose proof (run_fuel_mono U _ _ _ _ E1 F ltac:(lia)) as M1. pose proof (run_fuel_mono U _ _ _ _ E2 F ltac:(lia)) as M2.
  unfold init_lx in M1, M2.
  destruct (sim_run U HU ws1 ws2 b W1 W2 N1 N2 F SToken x 0 0 ItemError (wsum r1) pre t post true) as (base & Eb & Es & Er); auto.
  - apply init_wf. reflexivity.
  - exists base. split; [exact Eb|]. split; [exact Es|]. unfold y2 in Er. fold r2 in Er. rewrite M2 in Er. now inversion Er.
Qed.

(* ---------------------------------------------------------------- whole lexer, bytes *)
Theorem ws_replace_bytes : forall U, ascii_ok U -> forall (xb ws1 ws2 bb : list byte),
  Forall ws_byte ws1 -> Forall ws_byte ws2 -> ws1 <> [] -> ws2 <> [] ->
  forall pre t post,
    fst (lex_with U (xb ++ ws1 ++ bb)) = pre ++ t :: post -> post <> [] -> tk_end t = length xb ->
    exists base, post = map (shift_tok (length ws1)) base /\ Forall (fun u => length xb <= tk_start u) base /\
      fst (lex_with U (xb ++ ws2 ++ bb)) = pre ++ t :: map (shift_tok (length ws2)) base.
Proof.
  intros U HU xb ws1 ws2 bb W1 W2 N1 N2 pre t post H1 Hpost Hend.
  assert (D : forall ws, Forall ws_byte ws -> ws <> [] ->
            decode_all (xb ++ ws ++ bb) = decode_all xb ++ ascii_runes ws ++ decode_all bb).
  { intros ws W N. destruct ws as [|a w]; [congruence|]. inversion W; subst. cbn [app].
    rewrite (decode_all_split (length xb) xb (le_n _) a (w ++ bb)) by (unfold ws_byte in *; lia).
    f_equal. change (a :: w ++ bb) with ((a :: w) ++ bb). apply decode_all_ascii.
    eapply Forall_impl; [|exact W]. unfold ws_byte. intros c Hc. lia. }
  unfold lex_with in *. rewrite (D ws1 W1 N1) in H1. rewrite (D ws2 W2 N2).
  destruct (ws_replace_runes U HU ws1 ws2 (decode_all bb) W1 W2 N1 N2 (decode_all xb) pre t post) as (base & Eb & Es & Er); auto.
  - apply (decode_widths_pos (length xb)). apply le_n.
  - rewrite Hend. symmetry. apply (wsum_decode_all (length xb)). apply le_n.
  - exists base. split; [exact Eb|]. split; [|exact Er]. rewrite <- Hend. exact Es.
Qed.

(* the text of a token behind the white space does not depend on the white space *)
Lemma shifted_text (xb ws bb : list byte) (u : token) : length xb <= tk_start u ->
  tk_text (xb ++ ws ++ bb) (shift_tok (length ws) u) = tk_text (xb ++ bb) u.
Proof.
  intro H. unfold tk_text, sub_bytes. destruct u as [[k a] e]. unfold shift_tok, tk_start, tk_end, tk_kind in *. cbn [fst snd] in *.
  replace (e + length ws - (a + length ws)) with (e - a) by lia. f_equal.
  rewrite !skipn_app.
  rewrite (skipn_all2 xb) by lia. rewrite (skipn_all2 (n := a) xb) by lia. cbn [app].
  rewrite (skipn_all2 ws) by lia. cbn [app]. f_equal. lia.
Qed.

(* corollary: the sequence of kinds does not change *)
Lemma map_kind_shift d ts : map tk_kind (map (shift_tok d) ts) = map tk_kind ts.
Proof. rewrite map_map. apply map_ext. intros [[k a] e]. reflexivity. Qed.

Theorem ws_replace_kinds : forall U, ascii_ok U -> forall (xb ws1 ws2 bb : list byte),
  Forall ws_byte ws1 -> Forall ws_byte ws2 -> ws1 <> [] -> ws2 <> [] ->
  forall pre t post,
    fst (lex_with U (xb ++ ws1 ++ bb)) = pre ++ t :: post -> post <> [] -> tk_end t = length xb ->
    map tk_kind (fst (lex_with U (xb ++ ws2 ++ bb))) = map tk_kind (fst (lex_with U (xb ++ ws1 ++ bb))).
Proof.
  intros U HU xb ws1 ws2 bb W1 W2 N1 N2 pre t post H1 Hpost Hend.
  destruct (ws_replace_bytes U HU xb ws1 ws2 bb W1 W2 N1 N2 pre t post H1 Hpost Hend) as (base & Eb & _ & E2).
  rewrite E2, H1, Eb. rewrite !map_app. cbn [map]. now rewrite !map_kind_shift.
Qed.
