(* Model of /repo/bql/lexer/lexer.go: the state functions of the BQL lexer as one step function.

   lexer state  {input; start; pos; width; lastTokenType}  is modelled as
      rest  : the runes (with their byte widths) from pos to the end of the input   (= input[pos:], decoded)
      start : byte offset of the pending token
      pos   : byte offset of the scanner
      last  : lastTokenType
   `l.next()` pops the head of [rest] and adds its width to [pos]; at the end of the input it returns eof and moves
   nothing.  `l.backup()` is only ever called right after the `next` it undoes (reading lexer.go: peek, accept,
   and every loop exit), so it is modelled by continuing from the state before that `next`; the field `width`
   therefore does not appear.  Every `for` loop of lexer.go is a structural recursion over [rest]; the run loop
   `for state := lexToken(l); state != nil; { state = state(l) }` is [run], with fuel (adequacy: LexerProofs.v).

   `l.emit(t)` yields the span (t, start, pos) — the token text is input[start:pos] — and sets start := pos,
   lastTokenType := t.  `l.emitError` yields (ItemError, start, pos) and does not touch lastTokenType.

   Tables (keywords, single symbols, rune constants, literal types, lastTokenType sets) come from
   Gen/LexTablesGen.v, regenerated from lexer.go on every run. *)
From Coq Require Import List ZArith NArith Bool Arith.
From Coq.Strings Require Import Byte.
Import ListNotations.
From BWLexer Require Import Utf8 Unicode.
From BWLexer.Gen Require Import LexTablesGen.

(* (kind, start, end): kind numbered like lexer.TokenType, text = input[start:end] *)
Definition token := (N * nat * nat)%type.
Definition tk_kind (t : token) : N := fst (fst t).
Definition tk_start (t : token) : nat := snd (fst t).
Definition tk_end (t : token) : nat := snd t.

Inductive state :=
| SToken | SSpace | SKeyword | SFilterFunction | SNode | SBlankNode | SBinding
| SPredOrLit | SPredicate | SLiteral | SGlobalTime | STime.

Record lx := mkLx { rest : list rw; start : nat; pos : nat; last : N }.

(* emitted tokens, next state function (None = nil: stop the run loop), lexer state *)
Definition res := (list token * option state * lx)%type.

Definition mem_N (x : N) (l : list N) : bool := existsb (N.eqb x) l.

Fixpoint assoc_sym (r : Z) (tbl : list (Z * N)) : option N :=
  match tbl with
  | [] => None
  | (c, k) :: t => if Z.eqb r c then Some k else assoc_sym r t
  end.

Definition zs (s : list byte) : list Z := map bz s.

Fixpoint list_zeqb (a b : list Z) : bool :=
  match a, b with
  | [], [] => true
  | x :: a', y :: b' => Z.eqb x y && list_zeqb a' b'
  | _, _ => false
  end.

(* strings.EqualFold(word, kw) for an ASCII keyword kw *)
Fixpoint equal_fold (word kw : list Z) : bool :=
  match word, kw with
  | [], [] => true
  | c :: w', k :: kw' => fold_eq_rune k c && equal_fold w' kw'
  | _, _ => false
  end.

Fixpoint find_keyword (word : list Z) (tbl : list (list byte * N)) : option N :=
  match tbl with
  | [] => None
  | (kw, k) :: t => if equal_fold word (zs kw) then Some k else find_keyword word t
  end.

(* strings.Index(text, pat) >= 0 and its value, on rune lists (pat is ASCII, so byte and rune search agree) *)
Fixpoint is_prefix (pat rs : list Z) : bool :=
  match pat, rs with
  | [], _ => true
  | p :: pat', r :: rs' => Z.eqb p r && is_prefix pat' rs'
  | _ :: _, [] => false
  end.

Fixpoint index_of (pat rs : list Z) : option nat :=
  if is_prefix pat rs then Some 0%nat
  else match rs with
       | [] => None
       | _ :: rs' => match index_of pat rs' with Some n => Some (S n) | None => None end
       end.

Section Lex.
Variable U : uni.

(* for { if r := l.next(); !p(r) || r == eof { l.backup(); break } } *)
Fixpoint scan_while (p : Z -> bool) (ps : nat) (rs : list rw) : nat * list rw :=
  match rs with
  | [] => (ps, [])
  | (r, w) :: rs' => if p r then scan_while p (ps + w) rs' else (ps, rs)
  end.

Fixpoint take_while (p : Z -> bool) (rs : list rw) : list Z :=
  match rs with
  | [] => []
  | (r, _) :: rs' => if p r then r :: take_while p rs' else []
  end.

Definition emit (k : N) (l : lx) (ps : nat) (rs : list rw) (next : state) : res :=
  ([(k, start l, ps)], Some next, mkLx rs ps ps k).

Definition emit_error (l : lx) (ps : nat) (rs : list rw) : res :=
  ([(ItemError, start l, ps)], None, mkLx rs ps ps (last l)).

(* ---- lexToken ---- *)
Fixpoint lex_token (lastk : N) (st ps : nat) (rs : list rw) : res :=
  let here := mkLx rs st ps lastk in
  match rs with
  | [] => ([(ItemEOF, st, ps)], None, mkLx [] ps ps ItemEOF)
  | (r, w) :: rs' =>
    if is_digit U r && mem_N lastk last_global_time then ([], Some SGlobalTime, here)
    else if is_digit U r && mem_N lastk last_local_time then ([], Some STime, here)
    else if Z.eqb r r_binding then ([], Some SBinding, mkLx rs' st (ps + w) lastk)
    else if Z.eqb r r_slash then ([], Some SNode, here)
    else if Z.eqb r r_underscore then ([], Some SBlankNode, mkLx rs' st (ps + w) lastk)
    else if Z.eqb r r_quote then ([], Some SPredOrLit, here)
    else if is_letter U r then
      if mem_N lastk last_filter_function then ([], Some SFilterFunction, here)
      else ([], Some SKeyword, here)
    else
      match assoc_sym r single_symbols with
      | Some k => ([(k, st, ps + w)], Some SSpace, mkLx rs' (ps + w) (ps + w) k)
      | None =>
        (* r := l.next(); if unicode.IsSpace(r) { l.ignore(); continue }; if l.next() == eof { break } *)
        if is_space U r then lex_token lastk (ps + w) (ps + w) rs'
        else match rs' with
             | [] => ([(ItemEOF, st, ps + w)], None, mkLx [] (ps + w) (ps + w) ItemEOF)
             | (_, w2) :: rs'' => lex_token lastk st (ps + w + w2) rs''
             end
      end
  end.

(* ---- lexSpace ---- *)
Definition lex_space (l : lx) : res :=
  let '(p', rs') := scan_while (is_space U) (pos l) (rest l) in
  ([], Some SToken, mkLx rs' p' p' (last l)).

(* ---- lexBinding (the '?' is already consumed) ---- *)
Definition ident_rune (r : Z) : bool := is_letter U r || is_digit U r || Z.eqb r 95.

Definition lex_binding (l : lx) : res :=
  let '(p', rs') := scan_while ident_rune (pos l) (rest l) in
  emit ItemBinding l p' rs' SSpace.

(* ---- lexKeyword ---- *)
Definition lex_keyword (l : lx) : res :=
  let word := take_while (is_letter U) (rest l) in
  match find_keyword word keywords with
  | Some k =>
    (* consumeKeyword *)
    let '(p', rs') := scan_while (is_letter U) (pos l) (rest l) in
    emit k l p' rs' SSpace
  | None =>
    let '(p', rs') := scan_while (fun r => negb (is_space U r)) (pos l) (rest l) in
    emit_error l p' rs'
  end.

(* ---- lexFilterFunction ---- *)
Fixpoint ff_loop (l : lx) (ps : nat) (rs : list rw) : res :=
  match rs with
  | [] => emit_error l ps []
  | (r, w) :: rs' =>
    if Z.eqb r r_leftPar then emit ItemFilterFunction l ps rs SSpace
    else if is_letter U r then ff_loop l (ps + w) rs'
    else emit_error l (ps + w) rs'
  end.

Definition lex_filter_function (l : lx) : res :=
  match rest l with
  | [] => emit_error l (pos l) []
  | (_, w) :: rs' => ff_loop l (pos l + w) rs'
  end.

(* ---- lexNode ---- *)
Fixpoint node_loop (l : lx) (ltid : bool) (ps : nat) (rs : list rw) : res :=
  match rs with
  | [] => emit_error l ps []
  | (r, w) :: rs' =>
    if Z.eqb r r_backSlash then
      match rs' with
      | (r2, w2) :: rs'' =>
        if Z.eqb r2 r_lt then node_loop l ltid (ps + w + w2) rs'' else node_loop l ltid (ps + w) rs'
      | [] => node_loop l ltid (ps + w) rs'
      end
    else if Z.eqb r r_lt then node_loop l true (ps + w) rs'
    else if Z.eqb r r_gt then
      if ltid then emit ItemNode l (ps + w) rs' SSpace else emit_error l (ps + w) rs'
    else node_loop l ltid (ps + w) rs'
  end.

Definition lex_node (l : lx) : res := node_loop l false (pos l) (rest l).

(* ---- lexBlankNode (the '_' is already consumed) ---- *)
Definition lex_blank_node (l : lx) : res :=
  match rest l with
  | [] => emit_error l (pos l) []
  | (r, w) :: rs' =>
    if negb (Z.eqb r r_colon) then emit_error l (pos l + w) rs'
    else match rs' with
         | [] => emit_error l (pos l + w) []
         | (r2, w2) :: rs'' =>
           if negb (is_letter U r2) then emit_error l (pos l + w + w2) rs''
           else let '(p', rs3) := scan_while ident_rune (pos l + w + w2) rs'' in
                emit ItemBlankNode l p' rs3 SSpace
         end
  end.

(* ---- lexPredicateOrLiteral ---- *)
Definition lex_pred_or_lit (l : lx) : res :=
  (* text[1:]: the closing delimiter is searched after the opening quote (repository fix F22).  lexToken only comes
     here after peeking a quote, so the slice cannot fail *)
  let text := tl (map fst (rest l)) in
  let pidx := index_of (zs s_anchor) text in
  let lidx := index_of (zs s_literalType) text in
  match pidx, lidx with
  | None, None => emit_error l (pos l) (rest l)
  | _, _ =>
    let go_pred :=
      match pidx with
      | Some p => match lidx with None => true | Some q => Nat.ltb p q end
      | None => false
      end in
    ([], Some (if go_pred then SPredicate else SLiteral), l)
  end.

(* l.consume(text): accept rune by rune, comparing unicode.ToLower of both; stops before the first mismatch *)
Fixpoint consume (text : list Z) (ps : nat) (rs : list rw) : bool * nat * list rw :=
  match text with
  | [] => (true, ps, rs)
  | c :: text' =>
    match rs with
    | [] => (false, ps, rs)
    | (r, w) :: rs' =>
      if Z.eqb (to_lower U r) (to_lower U c) then consume text' (ps + w) rs' else (false, ps, rs)
    end
  end.

(* ---- lexPredicate ---- *)
Fixpoint bounds_loop (l : lx) (commas : nat) (ps : nat) (rs : list rw) : res :=
  match rs with
  | [] => emit_error l ps []
  | (r, w) :: rs' =>
    let commas' := if Z.eqb r r_comma then S commas else commas in
    if Z.eqb r r_rightSquarePar then
      if Nat.ltb 1 commas' then emit_error l (ps + w) rs'
      else if Nat.eqb commas' 0 then emit ItemPredicate l (ps + w) rs' SSpace
      else emit ItemPredicateBound l (ps + w) rs' SSpace
    else bounds_loop l commas' (ps + w) rs'
  end.

Fixpoint pred_loop (l : lx) (ps : nat) (rs : list rw) : res :=
  match rs with
  | [] => emit_error l ps []
  | (r, w) :: rs' =>
    if Z.eqb r r_backSlash then
      match rs' with
      | (r2, w2) :: rs'' =>
        if Z.eqb r2 r_quote then pred_loop l (ps + w + w2) rs'' else pred_loop l (ps + w) rs'
      | [] => pred_loop l (ps + w) rs'
      end
    else if Z.eqb r r_quote then
      match consume (zs s_anchor) ps rs with
      | (false, p1, rs1) => emit_error l p1 rs1
      | (true, p1, rs1) => bounds_loop l 0 p1 rs1
      end
    else pred_loop l (ps + w) rs'
  end.

Definition lex_predicate (l : lx) : res :=
  match rest l with
  | [] => emit_error l (pos l) []
  | (_, w) :: rs' => pred_loop l (pos l + w) rs'
  end.

(* ---- lexLiteral ---- *)
Definition letter_or_digit (r : Z) : bool := is_letter U r || is_digit U r.

Fixpoint mem_zs (x : list Z) (l : list (list byte)) : bool :=
  match l with
  | [] => false
  | y :: l' => list_zeqb x (zs y) || mem_zs x l'
  end.

Definition literal_tail (l : lx) (p1 : nat) (rs1 : list rw) : res :=
  let name := take_while letter_or_digit rs1 in
  let '(p2, rs2) := scan_while letter_or_digit p1 rs1 in
  if mem_zs (map (to_lower U) name) literal_types then emit ItemLiteral l p2 rs2 SSpace
  else match rs2 with
       | [] => emit_error l p2 []
       | (_, w3) :: rs3 => emit_error l (p2 + w3) rs3
       end.

Fixpoint lit_loop (l : lx) (ps : nat) (rs : list rw) : res :=
  match rs with
  | [] => emit_error l ps []
  | (r, w) :: rs' =>
    if Z.eqb r r_backSlash then
      match rs' with
      | (r2, w2) :: rs'' =>
        if Z.eqb r2 r_quote then lit_loop l (ps + w + w2) rs'' else lit_loop l (ps + w) rs'
      | [] => lit_loop l (ps + w) rs'
      end
    else if Z.eqb r r_quote then
      match consume (zs s_literalType) ps rs with
      | (false, p1, rs1) => emit_error l p1 rs1
      | (true, p1, rs1) => literal_tail l p1 rs1
      end
    else lit_loop l (ps + w) rs'
  end.

Definition lex_literal (l : lx) : res :=
  match rest l with
  | [] => emit_error l (pos l) []
  | (_, w) :: rs' => lit_loop l (pos l + w) rs'
  end.

(* ---- lexPredicateGlobalTime ---- *)
Definition time_or_bound (comma_seen : bool) : N := if comma_seen then ItemPredicateBound else ItemTime.

(* [skipping]: inside the loop that skips spaces after the comma *)
Fixpoint gt_loop (l : lx) (skipping comma_seen : bool) (ps : nat) (rs : list rw) : res :=
  match rs with
  | [] => emit (time_or_bound comma_seen) l ps [] SSpace
  | (r, w) :: rs' =>
    if skipping && is_space U r then gt_loop l true comma_seen (ps + w) rs'
    else if Z.eqb r r_comma then
      if comma_seen then emit_error l (ps + w) rs' else gt_loop l true true (ps + w) rs'
    else if Z.eqb r r_semicolon then emit (time_or_bound comma_seen) l ps rs SSpace
    else if is_space U r then emit (time_or_bound comma_seen) l (ps + w) rs' SSpace
    else gt_loop l false comma_seen (ps + w) rs'
  end.

Definition lex_global_time (l : lx) : res :=
  match rest l with
  | [] => emit ItemTime l (pos l) [] SSpace
  | (_, w) :: rs' => gt_loop l false false (pos l + w) rs'
  end.

(* ---- lexTime ---- *)
Fixpoint time_loop (l : lx) (ps : nat) (rs : list rw) : res :=
  match rs with
  | [] => emit ItemTime l ps [] SSpace
  | (r, w) :: rs' =>
    if Z.eqb r r_semicolon || Z.eqb r r_rightPar then emit ItemTime l ps rs SSpace
    else if is_space U r then emit ItemTime l (ps + w) rs' SSpace
    else time_loop l (ps + w) rs'
  end.

Definition lex_time (l : lx) : res :=
  match rest l with
  | [] => emit ItemTime l (pos l) [] SSpace
  | (_, w) :: rs' => time_loop l (pos l + w) rs'
  end.

(* ---- one state function call ---- *)
Definition step (s : state) (l : lx) : res :=
  match s with
  | SToken => lex_token (last l) (start l) (pos l) (rest l)
  | SSpace => lex_space l
  | SKeyword => lex_keyword l
  | SFilterFunction => lex_filter_function l
  | SNode => lex_node l
  | SBlankNode => lex_blank_node l
  | SBinding => lex_binding l
  | SPredOrLit => lex_pred_or_lit l
  | SPredicate => lex_predicate l
  | SLiteral => lex_literal l
  | SGlobalTime => lex_global_time l
  | STime => lex_time l
  end.

(* ---- lexer.run: returns the tokens sent and whether the loop ended (state = nil, channel closed) ---- *)
Fixpoint run (fuel : nat) (s : state) (l : lx) : list token * bool :=
  match fuel with
  | O => ([], false)
  | S f =>
    match step s l with
    | (toks, None, _) => (toks, true)
    | (toks, Some s', l') => let '(ts, fin) := run f s' l' in (toks ++ ts, fin)
    end
  end.

Definition fuel_for (rs : list rw) : nat := 4 * length rs + 4.

Definition init_lx (rs : list rw) : lx := mkLx rs 0 0 ItemError.   (* lastTokenType's zero value is ItemError *)

Definition lex_runes (rs : list rw) : list token * bool := run (fuel_for rs) SToken (init_lx rs).

End Lex.

(* ---- the exported lexer ---- *)
Definition lex_with (U : uni) (inp : list byte) : list token * bool := lex_runes U (decode_all inp).

(* (tokens, closed): closed = false would mean the fuel ran out; C16_terminates shows it never happens *)
Definition lex_out (inp : list byte) : list token * bool := lex_with go_uni inp.
Definition lex (inp : list byte) : list token := fst (lex_out inp).
Definition kinds (inp : list byte) : list N := map tk_kind (lex inp).

Definition sub_bytes (inp : list byte) (s e : nat) : list byte := firstn (e - s) (skipn s inp).
Definition tk_text (inp : list byte) (t : token) : list byte := sub_bytes inp (tk_start t) (tk_end t).
(* what a client of lexer.New sees: (Type, Text) *)
Definition lex_texts (inp : list byte) : list (N * list byte) := map (fun t => (tk_kind t, tk_text inp t)) (lex inp).
