(* C16 — the BQL lexer tokenizes every input faithfully.
   Object: the model coq/Lexer/Lexer.v of bql/lexer/lexer.go (tables regenerated from lexer.go on every run:
   Gen/LexTablesGen.v).  [lex_with U inp] = (tokens sent on the channel, run loop ended); a token is (kind, start, end)
   and its text is input[start:end] ([tk_text]).  [U] is the classification of runes (unicode.IsLetter / IsDigit /
   IsSpace / ToLower); the structural theorems hold for EVERY U, in particular for [go_uni] used by [lex]. *)
From Coq Require Import List NArith ZArith Lia.
From Coq.Strings Require Import Byte.
Import ListNotations.
From BWLexer Require Import Utf8 Unicode Lexer LexerProofs Utf8Proofs CaseProofs PrintedProofs WsProofs WsSim WsMain WsIns WsIns2.
From BWLexer.Gen Require Import LexTablesGen.

(* ---------------------------------------------------------------- termination / channel closed *)
(* the fuel [fuel_for] = 4 * (number of runes) + 4 that the model passes to the run loop always suffices: the loop
   reaches state = nil (after which lexer.run closes the channel); OutOfFuel never occurs *)
Theorem C16_terminates : forall (U : uni) (inp : list byte), snd (lex_with U inp) = true.
Proof. intros U inp. destruct (lex_with U inp) as [ts fin] eqn:E. exact (proj1 (lex_with_good U inp ts fin E)). Qed.
Print Assumptions C16_terminates.

(* ---------------------------------------------------------------- ordered, non-overlapping substrings *)
(* 0 <= s1 <= e1 <= s2 <= e2 <= ... <= |input| *)
Theorem C16_spans_ordered : forall (U : uni) (inp : list byte),
  let ts := fst (lex_with U inp) in
  Forall (fun t => tk_start t <= tk_end t /\ tk_end t <= length inp) ts /\
  (forall pre a b post, ts = pre ++ a :: b :: post -> tk_end a <= tk_start b).
Proof.
  intros U inp. destruct (lex_with U inp) as [ts fin] eqn:E. cbn.
  destruct (lex_with_good U inp ts fin E) as (_ & O & _). split.
  - apply ordered_bounds in O. destruct O as [_ O]. eapply Forall_impl; [|exact O]. cbn. intros a Ha. lia.
  - exact (ordered_adjacent ts 0 (length inp) O).
Qed.
Print Assumptions C16_spans_ordered.

(* the text of every token is the substring of the input at its span *)
Theorem C16_text_is_substring : forall (U : uni) (inp : list byte) (t : token),
  In t (fst (lex_with U inp)) ->
  exists before after, inp = before ++ tk_text inp t ++ after /\ length before = tk_start t /\
                       length (tk_text inp t) = tk_end t - tk_start t.
Proof.
  intros U inp t Hin. destruct (C16_spans_ordered U inp) as [B _]. cbn in B.
  rewrite Forall_forall in B. destruct (B t Hin) as [B1 B2].
  exists (firstn (tk_start t) inp), (skipn (tk_end t) inp). apply sub_bytes_is_substring; assumption.
Qed.
Print Assumptions C16_text_is_substring.

(* ---------------------------------------------------------------- exactly one terminal token, in last position *)
Theorem C16_one_terminal : forall (U : uni) (inp : list byte),
  exists pre t, fst (lex_with U inp) = pre ++ [t] /\
    (tk_kind t = ItemError \/ tk_kind t = ItemEOF) /\
    Forall (fun x => ~ (tk_kind x = ItemError \/ tk_kind x = ItemEOF)) pre.
Proof.
  intros U inp. destruct (lex_with U inp) as [ts fin] eqn:E. cbn.
  exact (proj2 (proj2 (lex_with_good U inp ts fin E))).
Qed.
Print Assumptions C16_one_terminal.

(* every state function that returns nil has emitted exactly one token and it is terminal; one that returns a next
   state has emitted at most one token and it is not terminal (the invariant behind C16_one_terminal) *)
Theorem C16_step_terminal : forall (U : uni) (total : nat) (s : state) (l : lx),
  start l <= pos l -> pos l + wsum (rest l) = total ->
  match step U s l with
  | (toks, None, _) => exists k a b, toks = [(k, a, b)] /\ (k = ItemError \/ k = ItemEOF)
  | (toks, Some _, _) => toks = [] \/ exists k a b, toks = [(k, a, b)] /\ k <> ItemError /\ k <> ItemEOF
  end.
Proof.
  intros U total s l H1 H2. pose proof (step_good U total s l (conj H1 H2)) as G.
  destruct (step U s l) as [[toks nxt] l']. unfold good in G. destruct G as (_ & _ & G). destruct nxt.
  - destruct G as [_ [G|(k & a & b & E & _ & _ & _ & N)]]; [now left|right; exists k, a, b; split; [exact E|exact N]].
  - destruct G as (k & a & b & E & _ & _ & _ & T). exists k, a, b. split; [exact E|exact T].
Qed.
Print Assumptions C16_step_terminal.

(* the exported lexer is the instance at go_uni *)
Theorem C16_lex_structure : forall inp : list byte,
  lex_out inp = (lex inp, true) /\
  (exists pre t, lex inp = pre ++ [t] /\ (tk_kind t = ItemError \/ tk_kind t = ItemEOF) /\
     Forall (fun x => ~ (tk_kind x = ItemError \/ tk_kind x = ItemEOF)) pre) /\
  Forall (fun t => tk_start t <= tk_end t /\ tk_end t <= length inp) (lex inp).
Proof.
  intro inp. split; [|split].
  - unfold lex. pose proof (C16_terminates go_uni inp) as T. unfold lex_out. destruct (lex_with go_uni inp); cbn in *. now subst.
  - exact (C16_one_terminal go_uni inp).
  - exact (proj1 (C16_spans_ordered go_uni inp)).
Qed.
Print Assumptions C16_lex_structure.

(* ---------------------------------------------------------------- keywords regardless of letter case *)
(* for EVERY entry (kw, k) of the keyword table generated from lexKeyword's EqualFold chain and EVERY spelling v of kw
   in which any subset of the letters is capitalised, followed by the end of the input or by a rune that is not a
   letter: the first token is k with text v.  (U: any unicode record that agrees with ASCII on ASCII.) *)
Theorem C16_keywords_case : forall (U : uni), ascii_ok U ->
  forall (kw : list byte) (k : N) (v rest_bytes : list byte),
    In (kw, k) keywords ->
    Forall2 (fun a b => a = b \/ (is_lower_z (bz b) = true /\ bz a = (bz b - 32)%Z)) v kw ->
    match decode_all rest_bytes with [] => True | (r, _) :: _ => is_letter U r = false end ->
    exists more, fst (lex_with U (v ++ rest_bytes)) = (k, 0, length v) :: more.
Proof. exact keywords_case_bytes. Qed.
Print Assumptions C16_keywords_case.

(* the same at any point of a run: whenever lexToken is entered on such a spelling and the last token was not FILTER *)
Theorem C16_keywords_case_anywhere : forall (U : uni), ascii_ok U ->
  forall kw k v rr (l : lx),
    In (kw, k) keywords ->
    Forall2 (fun a b => a = b \/ (is_lower_z (bz b) = true /\ bz a = (bz b - 32)%Z)) v kw ->
    match rr with [] => True | (r, _) :: _ => is_letter U r = false end ->
    rest l = map (fun b => (bz b, 1)) v ++ rr -> mem_N (last l) last_filter_function = false ->
    step U SToken l = ([], Some SKeyword, l) /\
    step U SKeyword l = ([(k, start l, pos l + length v)], Some SSpace,
                         mkLx rr (pos l + length v) (pos l + length v) k).
Proof. exact keyword_steps. Qed.
Print Assumptions C16_keywords_case_anywhere.

(* ---------------------------------------------------------------- literal type names regardless of letter case *)
(* "body"^^type:T with T any capitalisation of an entry of the generated literal type list, body ANY bytes (valid UTF-8
   or not) except the double quote 0x22 and the backslash 0x5C, followed by the end of input or a rune that is neither
   letter nor digit: one ItemLiteral token spanning the whole lexeme.  Partial only in that the body excludes those two
   bytes (a body with an escaped quote is outside the property; a trailing backslash is the listed finding). *)
Theorem C16_literal_type_case_partial : forall (U : uni), ascii_ok U ->
  forall (body ty v rest_bytes : list byte),
    Forall (fun b => bz b <> 34%Z /\ bz b <> 92%Z) body ->
    In ty literal_types ->
    Forall2 (fun a b => a = b \/ (is_lower_z (bz b) = true /\ bz a = (bz b - 32)%Z)) v ty ->
    match decode_all rest_bytes with [] => True | (r, _) :: _ => (is_letter U r || is_digit U r)%bool = false end ->
    exists more,
      fst (lex_with U (x22 :: body ++ s_literalType ++ v ++ rest_bytes)) =
      (ItemLiteral, 0, S (length body) + length s_literalType + length v) :: more.
Proof. exact literal_type_case_bytes. Qed.
Print Assumptions C16_literal_type_case_partial.

(* the hypotheses are satisfiable: go_uni agrees with ASCII; SeLeCT is a variant of select; "a b"^^type:InT64 *)
Theorem C16_go_uni_ascii_ok : ascii_ok go_uni.
Proof.
  assert (H : forallb (fun r => Bool.eqb (is_letter go_uni r) (ascii_letter r) && Bool.eqb (is_digit go_uni r) (ascii_digit r) &&
                                Bool.eqb (is_space go_uni r) (ascii_space r) && Z.eqb (to_lower go_uni r) (ascii_lower r))%bool
                      (map Z.of_nat (seq 0 128)) = true) by (vm_compute; reflexivity).
  intros r Hr. rewrite forallb_forall in H. specialize (H r).
  assert (Hin : In r (map Z.of_nat (seq 0 128))).
  { apply in_map_iff. exists (Z.to_nat r). split; [lia|]. apply in_seq. lia. }
  apply H in Hin. repeat (apply andb_prop in Hin; destruct Hin as [Hin ?]).
  repeat match goal with H : Bool.eqb _ _ = true |- _ => apply Bool.eqb_prop in H end.
  apply Z.eqb_eq in H0. auto.
Qed.
Print Assumptions C16_go_uni_ascii_ok.

Example C16_keywords_case_example :
  exists more, lex [x53;x65;x4c;x65;x43;x54;x20;x3f;x78] = (ItemQuery, 0, 6) :: more.
Proof.
  apply (C16_keywords_case go_uni C16_go_uni_ascii_ok [x73;x65;x6c;x65;x63;x74] ItemQuery [x53;x65;x4c;x65;x43;x54] [x20;x3f;x78]).
  - vm_compute. tauto.
  - repeat constructor; (now left) || (right; split; reflexivity).
  - reflexivity.
Qed.

Example C16_literal_type_case_example :
  exists more, lex ([x22;x61;x20;x62] ++ s_literalType ++ [x49;x6e;x54;x36;x34] ++ [x3b]) = (ItemLiteral, 0, 17) :: more.
Proof.
  apply (C16_literal_type_case_partial go_uni C16_go_uni_ascii_ok [x61;x20;x62] [x69;x6e;x74;x36;x34] [x49;x6e;x54;x36;x34] [x3b]).
  - repeat constructor; vm_compute; congruence.
  - vm_compute. tauto.
  - repeat constructor; (now left) || (right; split; reflexivity).
  - reflexivity.
Qed.

(* ---------------------------------------------------------------- printed forms are single tokens *)
(* Each printed form alone is lexed as exactly one token carrying exactly that text, followed by EOF.  PARTIAL: the
   domains exclude the delimiter bytes, i.e. exactly the spellings of the listed findings (C16_printed_*_refuted below)
   and embedded double quotes; apart from that the bodies (literal text, node type and id, predicate id, anchor text) are
   ARBITRARY byte strings, valid UTF-8 or not.  Bindings and blank node labels are ASCII letters, digits and '_'.
   U: any unicode record agreeing with ASCII on ASCII. *)

(* literal  "body"^^type:T : body without the bytes 0x22 and 0x5C, T in the generated type list *)
Theorem C16_printed_literal_partial : forall (U : uni), ascii_ok U -> forall body ty,
  Forall (fun b => bz b <> 34%Z /\ bz b <> 92%Z) body -> In ty literal_types ->
  let inp := x22 :: body ++ s_literalType ++ ty in
  lex_with U inp = ([(ItemLiteral, 0, length inp); (ItemEOF, length inp, length inp)], true).
Proof. exact printed_literal. Qed.
Print Assumptions C16_printed_literal_partial.

(* binding  ?name : name of ASCII letters, digits, '_' *)
Theorem C16_printed_binding_partial : forall (U : uni), ascii_ok U -> forall name,
  Forall (fun b => (0 <= bz b < 128)%Z /\ (ascii_letter (bz b) || ascii_digit (bz b) || Z.eqb (bz b) 95)%bool = true) name ->
  let inp := x3f :: name in
  lex_with U inp = ([(ItemBinding, 0, length inp); (ItemEOF, length inp, length inp)], true).
Proof. exact printed_binding. Qed.
Print Assumptions C16_printed_binding_partial.

(* BQL blank node  _:label : label = ASCII letter followed by letters, digits, '_' *)
Theorem C16_printed_blank_node_partial : forall (U : uni), ascii_ok U -> forall a name,
  (0 <= bz a < 128)%Z -> ascii_letter (bz a) = true ->
  Forall (fun b => (0 <= bz b < 128)%Z /\ (ascii_letter (bz b) || ascii_digit (bz b) || Z.eqb (bz b) 95)%bool = true) name ->
  let inp := x5f :: x3a :: a :: name in
  lex_with U inp = ([(ItemBlankNode, 0, length inp); (ItemEOF, length inp, length inp)], true).
Proof. exact printed_bql_blank_node. Qed.
Print Assumptions C16_printed_blank_node_partial.

(* the same two on DECODED runes, for any alphabet: ? followed by runes that are letters, digits or '_' according to U;
   _: followed by a letter and such runes (the widths are those of the UTF-8 encodings) *)
Theorem C16_printed_binding_runes : forall (U : uni), ascii_ok U -> forall name : list rw,
  Forall (fun p => (is_letter U (fst p) || is_digit U (fst p) || Z.eqb (fst p) 95)%bool = true) name ->
  lex_runes U ((63%Z, 1) :: name) =
  ([(ItemBinding, 0, 1 + wsum name); (ItemEOF, 1 + wsum name, 1 + wsum name)], true).
Proof. exact printed_binding_runes. Qed.
Print Assumptions C16_printed_binding_runes.

Theorem C16_printed_blank_node_runes : forall (U : uni), ascii_ok U -> forall (a : Z) (wa : nat) (name : list rw),
  is_letter U a = true ->
  Forall (fun p => (is_letter U (fst p) || is_digit U (fst p) || Z.eqb (fst p) 95)%bool = true) name ->
  lex_runes U ((95%Z, 1) :: (58%Z, 1) :: (a, wa) :: name) =
  ([(ItemBlankNode, 0, 2 + wa + wsum name); (ItemEOF, 2 + wa + wsum name, 2 + wa + wsum name)], true).
Proof. exact printed_blank_node_runes. Qed.
Print Assumptions C16_printed_blank_node_runes.

(* node  /type<id> : type and id any bytes except '<' '>' and backslash (this covers printed blank nodes /_<uuid>) *)
Theorem C16_printed_node_partial : forall (U : uni), ascii_ok U -> forall ty id,
  Forall (fun b => bz b <> 60%Z /\ bz b <> 62%Z /\ bz b <> 92%Z) ty ->
  Forall (fun b => bz b <> 60%Z /\ bz b <> 62%Z /\ bz b <> 92%Z) id ->
  let inp := x2f :: ty ++ x3c :: id ++ [x3e] in
  lex_with U inp = ([(ItemNode, 0, length inp); (ItemEOF, length inp, length inp)], true).
Proof. exact printed_node. Qed.
Print Assumptions C16_printed_node_partial.

(* predicate  "id"@[anchor] : id any bytes except 0x22 and 0x5C; anchor text any bytes except double quote, ']' and ','
   (RFC3339 times and the empty anchor qualify).  Since repository fix F22 the id may start with ^^type: or @[ . *)
Theorem C16_printed_predicate_partial : forall (U : uni), ascii_ok U -> forall id an,
  Forall (fun b => bz b <> 34%Z /\ bz b <> 92%Z) id ->
  Forall (fun b => bz b <> 34%Z /\ bz b <> 93%Z /\ bz b <> 44%Z) an ->
  let inp := x22 :: id ++ s_anchor ++ an ++ [x5d] in
  lex_with U inp = ([(ItemPredicate, 0, length inp); (ItemEOF, length inp, length inp)], true).
Proof. exact printed_predicate. Qed.
Print Assumptions C16_printed_predicate_partial.

(* predicate bound  "id"@[lower,upper] *)
Theorem C16_printed_bound_partial : forall (U : uni), ascii_ok U -> forall id a1 a2,
  Forall (fun b => bz b <> 34%Z /\ bz b <> 92%Z) id ->
  Forall (fun b => bz b <> 34%Z /\ bz b <> 93%Z /\ bz b <> 44%Z) a1 ->
  Forall (fun b => bz b <> 34%Z /\ bz b <> 93%Z /\ bz b <> 44%Z) a2 ->
  let inp := x22 :: id ++ s_anchor ++ (a1 ++ x2c :: a2) ++ [x5d] in
  lex_with U inp = ([(ItemPredicateBound, 0, length inp); (ItemEOF, length inp, length inp)], true).
Proof. exact printed_bound. Qed.
Print Assumptions C16_printed_bound_partial.

(* the domains are inhabited by the usual spellings:  "p q"@[2006-01-02T15:04:05Z]  and  /u<joe@x.com> *)
Example C16_printed_predicate_example :
  lex_out ([x22;x70;x20;x71] ++ s_anchor ++ [x32;x30;x30;x36;x2d;x30;x31;x2d;x30;x32;x54;x31;x35;x3a;x30;x34;x3a;x30;x35;x5a] ++ [x5d])
  = ([(ItemPredicate, 0, 28); (ItemEOF, 28, 28)], true).
Proof.
  apply (C16_printed_predicate_partial go_uni C16_go_uni_ascii_ok [x70;x20;x71]
           [x32;x30;x30;x36;x2d;x30;x31;x2d;x30;x32;x54;x31;x35;x3a;x30;x34;x3a;x30;x35;x5a]).
  - repeat constructor; vm_compute; congruence.
  - repeat constructor; vm_compute; congruence.
Qed.

(* non-ASCII bodies are in the domain:  /u<世>  (U+4E16, three bytes) *)
Example C16_printed_node_nonascii_example :
  lex_out (x2f :: [x75] ++ x3c :: [xe4;xb8;x96] ++ [x3e]) = ([(ItemNode, 0, 7); (ItemEOF, 7, 7)], true).
Proof. apply (C16_printed_node_partial go_uni C16_go_uni_ascii_ok [x75] [xe4;xb8;x96]); repeat constructor; vm_compute; congruence. Qed.

(* ---- refuted outside those domains: printed values WITHOUT embedded double quote that are not one token *)
(* predicate with id  a\  prints (%q) as  "a\\"@[]  : the lexer takes the second backslash + quote as an escaped quote;
   text literal  a\  prints as  "a\"^^type:text *)
Theorem C16_printed_predicate_refuted :
  kinds [x22;x61;x5c;x5c;x22;x40;x5b;x5d] = [ItemError] /\
  kinds [x22;x61;x5c;x22;x5e;x5e;x74;x79;x70;x65;x3a;x74;x65;x78;x74] = [ItemError].
Proof. vm_compute. repeat split; reflexivity. Qed.
Print Assumptions C16_printed_predicate_refuted.

(* repaired by repository fix F22 (these were refuted witnesses before): ids that start with ^^type: or @[ *)
Example C16_printed_predicate_marker_prefix_example :
  kinds [x22;x5e;x5e;x74;x79;x70;x65;x3a;x22;x40;x5b;x5d] = [ItemPredicate; ItemEOF] /\
  kinds [x22;x40;x5b;x78;x22;x40;x5b;x5d] = [ItemPredicate; ItemEOF].
Proof. vm_compute. split; reflexivity. Qed.

(* node whose type contains '>' ( /a> is accepted by node.NewType ) prints as  /a><b>  *)
Theorem C16_printed_node_refuted :
  kinds [x2f;x61;x3e;x3c;x62;x3e] = [ItemError] /\ kinds [x2f;x61;x5c;x3c;x62;x3e] = [ItemError].
Proof. vm_compute. split; reflexivity. Qed.
Print Assumptions C16_printed_node_refuted.

(* ---------------------------------------------------------------- white space between tokens *)
(* (A) once a token has been emitted the lexer is in lexSpace; from there, ANY amount of ASCII white space in front of
   the remaining input r -- including none: this is the insertion case -- changes nothing but the offsets: same
   kinds, same lengths, every span moved by |ws|, same termination flag, for every fuel f. *)
Theorem C16_whitespace_after_token : forall (U : uni), ascii_ok U ->
  forall (f : nat) (l : lx) (ws : list byte) (r : list rw),
    Forall (fun b => (9 <= bz b <= 13)%Z \/ bz b = 32%Z) ws ->
    run U f SSpace (mkLx (map (fun b => (bz b, 1)) ws ++ r) (start l) (pos l) (last l)) =
    (map (fun t => (tk_kind t, tk_start t + length ws, tk_end t + length ws))
         (fst (run U f SSpace (mkLx r (start l) (pos l) (last l)))),
     snd (run U f SSpace (mkLx r (start l) (pos l) (last l)))).
Proof. exact run_after_token_ws. Qed.
Print Assumptions C16_whitespace_after_token.

(* positions never influence the lexer's decisions: a run from a state moved by d is the same run moved by d *)
Theorem C16_shift_invariance : forall (U : uni) (d f : nat) (s : state) (l : lx),
  run U f s (mkLx (rest l) (start l + d) (pos l + d) (last l)) =
  (map (fun t => (tk_kind t, tk_start t + d, tk_end t + d)) (fst (run U f s l)), snd (run U f s l)).
Proof. exact run_shift. Qed.
Print Assumptions C16_shift_invariance.

(* (B) replacing the NON-EMPTY ASCII white space ws1 that follows a token by another non-empty run ws2: if in the
   lexing of  xb ++ ws1 ++ bb  a non-final token t ends exactly where ws1 begins, then the lexing of  xb ++ ws2 ++ bb
   consists of the same tokens up to and including t (same kinds, same spans, hence the same texts: xb is common), and
   the tokens after t are those of the first lexing moved by |ws2| - |ws1|: same kinds, same lengths, same texts
   (C16_whitespace_text).  [base] is the common tail, positioned as in  xb ++ bb. *)
Theorem C16_whitespace_replace : forall (U : uni), ascii_ok U ->
  forall (xb ws1 ws2 bb : list byte),
    Forall (fun b => (9 <= bz b <= 13)%Z \/ bz b = 32%Z) ws1 -> Forall (fun b => (9 <= bz b <= 13)%Z \/ bz b = 32%Z) ws2 ->
    ws1 <> [] -> ws2 <> [] ->
  forall (pre : list token) (t : token) (post : list token),
    fst (lex_with U (xb ++ ws1 ++ bb)) = pre ++ t :: post -> post <> [] -> tk_end t = length xb ->
    exists base,
      post = map (fun u => (tk_kind u, tk_start u + length ws1, tk_end u + length ws1)) base /\
      Forall (fun u => length xb <= tk_start u) base /\
      fst (lex_with U (xb ++ ws2 ++ bb)) =
        pre ++ t :: map (fun u => (tk_kind u, tk_start u + length ws2, tk_end u + length ws2)) base.
Proof. exact ws_replace_bytes. Qed.
Print Assumptions C16_whitespace_replace.

(* in particular the kinds are the same *)
Theorem C16_whitespace_replace_kinds : forall (U : uni), ascii_ok U ->
  forall (xb ws1 ws2 bb : list byte),
    Forall (fun b => (9 <= bz b <= 13)%Z \/ bz b = 32%Z) ws1 -> Forall (fun b => (9 <= bz b <= 13)%Z \/ bz b = 32%Z) ws2 ->
    ws1 <> [] -> ws2 <> [] ->
  forall (pre : list token) (t : token) (post : list token),
    fst (lex_with U (xb ++ ws1 ++ bb)) = pre ++ t :: post -> post <> [] -> tk_end t = length xb ->
    map tk_kind (fst (lex_with U (xb ++ ws2 ++ bb))) = map tk_kind (fst (lex_with U (xb ++ ws1 ++ bb))).
Proof. exact ws_replace_kinds. Qed.
Print Assumptions C16_whitespace_replace_kinds.

(* a token that starts behind the white space has the same text whatever the white space is *)
Theorem C16_whitespace_text : forall (xb ws bb : list byte) (u : token), length xb <= tk_start u ->
  tk_text (xb ++ ws ++ bb) (tk_kind u, tk_start u + length ws, tk_end u + length ws) = tk_text (xb ++ bb) u.
Proof. exact shifted_text. Qed.
Print Assumptions C16_whitespace_text.

(* the hypothesis is satisfiable:  select<SP>?x;  ->  select<TAB><LF>?x;  *)
Example C16_whitespace_replace_example :
  kinds ([x73;x65;x6c;x65;x63;x74] ++ [x09;x0a] ++ [x3f;x78;x3b]) = [ItemQuery; ItemBinding; ItemSemicolon; ItemEOF] /\
  exists pre t post, lex ([x73;x65;x6c;x65;x63;x74] ++ [x20] ++ [x3f;x78;x3b]) = pre ++ t :: post /\ post <> [] /\ tk_end t = 6.
Proof. split; [vm_compute; reflexivity|]. exists [], (ItemQuery, 0, 6). eexists. split; [vm_compute; reflexivity|]. split; [discriminate|reflexivity]. Qed.

(* (C) INSERTING non-empty ASCII white space ws between two adjacent tokens: if in the lexing of  xb ++ bb  a non-empty,
   non-final token t ends exactly at |xb|, then the lexing of  xb ++ ws ++ bb  consists of the same tokens up to and
   including t, followed by the remaining tokens moved by |ws| (same kinds, lengths and texts, C16_whitespace_text).
   PARTIAL, the domain excludes:
   - t a filter function name (refuted: C16_whitespace_insert_refuted), t a Time or a PredicateBound (lexTime and
     lexPredicateGlobalTime make the white-space rune part of the token text; quoted predicate bounds share the kind);
   - a `"@[` or `"^^type:` delimiter that starts in xb and is completed by bb: the boolean [partial_marker_free] checks that
     none of the nine non-empty proper prefixes of the two strings is a suffix of (the decoded) xb;
   - bb starting in the middle of a UTF-8 sequence (its first byte must be ASCII, as for every BQL token). *)
Theorem C16_whitespace_insert_partial : forall (U : uni), ascii_ok U ->
  forall (xb ws bb : list byte),
    Forall (fun b => (9 <= bz b <= 13)%Z \/ bz b = 32%Z) ws -> ws <> [] ->
    match bb with [] => True | a :: _ => (bz a < 128)%Z end ->
    partial_marker_free (map fst (decode_all xb)) = true ->
  forall (pre : list token) (t : token) (post : list token),
    fst (lex_with U (xb ++ bb)) = pre ++ t :: post -> post <> [] -> tk_end t = length xb -> tk_start t < tk_end t ->
    ~ (tk_kind t = ItemFilterFunction \/ tk_kind t = ItemTime \/ tk_kind t = ItemPredicateBound) ->
    fst (lex_with U (xb ++ ws ++ bb)) =
      pre ++ t :: map (fun u => (tk_kind u, tk_start u + length ws, tk_end u + length ws)) post.
Proof. intros U HU xb ws bb W N Hb Hp. apply ws_insert_bytes; auto. now apply pmf_sound. Qed.
Print Assumptions C16_whitespace_insert_partial.

(* in particular the kinds are the same *)
Theorem C16_whitespace_insert_kinds_partial : forall (U : uni), ascii_ok U ->
  forall (xb ws bb : list byte),
    Forall (fun b => (9 <= bz b <= 13)%Z \/ bz b = 32%Z) ws -> ws <> [] ->
    match bb with [] => True | a :: _ => (bz a < 128)%Z end ->
    partial_marker_free (map fst (decode_all xb)) = true ->
  forall (pre : list token) (t : token) (post : list token),
    fst (lex_with U (xb ++ bb)) = pre ++ t :: post -> post <> [] -> tk_end t = length xb -> tk_start t < tk_end t ->
    ~ (tk_kind t = ItemFilterFunction \/ tk_kind t = ItemTime \/ tk_kind t = ItemPredicateBound) ->
    map tk_kind (fst (lex_with U (xb ++ ws ++ bb))) = map tk_kind (fst (lex_with U (xb ++ bb))).
Proof. intros U HU xb ws bb W N Hb Hp. apply ws_insert_kinds; auto. now apply pmf_sound. Qed.
Print Assumptions C16_whitespace_insert_kinds_partial.

(* the domain is inhabited:  ?x,?y  ->  ?x<SP><TAB>,?y  *)
Example C16_whitespace_insert_example :
  fst (lex_with go_uni ([x3f;x78] ++ [x20;x09] ++ [x2c;x3f;x79])) =
  [(ItemBinding, 0, 2); (ItemComma, 4, 5); (ItemBinding, 5, 7); (ItemEOF, 7, 7)].
Proof.
  apply (C16_whitespace_insert_partial go_uni C16_go_uni_ascii_ok [x3f;x78] [x20;x09] [x2c;x3f;x79]
           ltac:(repeat constructor; vm_compute; intuition congruence) ltac:(discriminate) ltac:(reflexivity)
           ltac:(vm_compute; reflexivity)
           [] (ItemBinding, 0, 2) [(ItemComma, 2, 3); (ItemBinding, 3, 5); (ItemEOF, 5, 5)]).
  - vm_compute. reflexivity.
  - discriminate.
  - reflexivity.
  - cbn. lia.
  - intros [H|[H|H]]; discriminate H.
Qed.

(* (D) the same for EVERY token kind except the filter function name, before a further token (bb non-empty): a Time or a
   PredicateBound token produced by lexTime / lexPredicateGlobalTime ends at ';' or ')' without consuming it but consumes
   white space, so with white space inserted it GROWS by g white-space bytes (g = 1, or the whole run when the lexer was
   skipping blanks after the comma of a bound): kind and start are unchanged, the text gains surrounding white space only
   ("texts up to surrounding whitespace"); all other tokens are as in (C): g = 0. *)
Theorem C16_whitespace_insert_any_partial : forall (U : uni), ascii_ok U ->
  forall (xb ws bb : list byte),
    Forall (fun b => (9 <= bz b <= 13)%Z \/ bz b = 32%Z) ws -> ws <> [] ->
    (exists a bb', bb = a :: bb' /\ (bz a < 128)%Z) ->
    partial_marker_free (map fst (decode_all xb)) = true ->
  forall (pre : list token) (t : token) (post : list token),
    fst (lex_with U (xb ++ bb)) = pre ++ t :: post -> post <> [] -> tk_end t = length xb -> tk_start t < tk_end t ->
    tk_kind t <> ItemFilterFunction ->
    exists g, (g = 0 \/ (1 <= g <= length ws /\ (tk_kind t = ItemTime \/ tk_kind t = ItemPredicateBound))) /\
      fst (lex_with U (xb ++ ws ++ bb)) =
        pre ++ (tk_kind t, tk_start t, tk_end t + g) ::
               map (fun u => (tk_kind u, tk_start u + length ws, tk_end u + length ws)) post.
Proof. intros U HU xb ws bb W N Hb Hp. apply ws_insert2_bytes; auto. now apply pmf_sound. Qed.
Print Assumptions C16_whitespace_insert_any_partial.

(* e.g.  < 1;  ->  < 1<SP>;  : the Time token "1" becomes "1<SP>" *)
Example C16_whitespace_insert_time_example :
  lex_texts [x3c;x20;x31;x3b] = [(ItemLT, [x3c]); (ItemTime, [x31]); (ItemSemicolon, [x3b]); (ItemEOF, [])] /\
  lex_texts [x3c;x20;x31;x20;x3b] = [(ItemLT, [x3c]); (ItemTime, [x31;x20]); (ItemSemicolon, [x3b]); (ItemEOF, [])].
Proof. vm_compute. split; reflexivity. Qed.

(* REFUTED as stated in the property (insertion between ANY two adjacent tokens), hence the kind restriction above: a filter function name is only
   emitted by lexFilterFunction when '(' follows immediately; with white space in between it ends in an Error token.
   ( "filter l(" versus "filter l (" ).  Listed finding C16-ws-filter-function; the fix is rejected by
   bql/grammar TestRejectByParse, which pins this behaviour. *)
Theorem C16_whitespace_insert_refuted :
  kinds [x66;x69;x6c;x74;x65;x72;x20;x6c;x28] = [ItemFilter; ItemFilterFunction; ItemLPar; ItemEOF] /\
  kinds [x66;x69;x6c;x74;x65;x72;x20;x6c;x20;x28] = [ItemFilter; ItemError].
Proof. vm_compute. split; reflexivity. Qed.
Print Assumptions C16_whitespace_insert_refuted.

(* ---------------------------------------------------------------- examples: the statements are about real runs *)
Example C16_example_select :
  lex_texts [x73;x65;x6c;x65;x63;x74;x20;x3f;x78;x3b] =
    [(ItemQuery, [x73;x65;x6c;x65;x63;x74]); (ItemBinding, [x3f;x78]); (ItemSemicolon, [x3b]); (ItemEOF, [])].
Proof. vm_compute. reflexivity. Qed.

(* known defect reproduced in the model: white space between a filter function name and '(' *)
Example C16_filter_function_tight_example :
  kinds [x66;x69;x6c;x74;x65;x72;x20;x6c;x28] = [ItemFilter; ItemFilterFunction; ItemLPar; ItemEOF].
Proof. vm_compute. reflexivity. Qed.
