(* C16 — the BQL lexer tokenizes every input faithfully.  (theorems are added as they are proved) *)
From Coq Require Import List NArith ZArith.
From Coq.Strings Require Import Byte.
Import ListNotations.
From BWLexer Require Import Utf8 Unicode Lexer.
From BWLexer.Gen Require Import LexTablesGen.

(* known defect reproduced in the model: white space between a filter function name and '(' *)
Example C16_filter_function_tight_example :
  kinds [x66;x69;x6c;x74;x65;x72;x20;x6c;x28] = [ItemFilter; ItemFilterFunction; ItemLPar; ItemEOF].
Proof. vm_compute. reflexivity. Qed.
