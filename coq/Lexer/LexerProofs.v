(* Structural core of C16: for EVERY input and EVERY classification of runes [U],
   - the fuel used by [lex_runes] is enough (the run loop ends: state = nil, the channel is closed),
   - the emitted spans are ordered and lie inside the input,
   - exactly one terminal token (EOF or Error) is emitted, as the last one.
   Method: an invariant [wf] on the lexer state, a specification [good] of one state-function call (with the measure
   [mu] that decreases along the run loop), proved for each of the twelve state functions by induction over the
   remaining runes, then an induction over the fuel. *)
From Coq Require Import List ZArith NArith Bool Arith Lia.
From Coq.Strings Require Import Byte.
Import ListNotations.
From BWLexer Require Import Utf8 Unicode Lexer.
From BWLexer.Gen Require Import LexTablesGen.

Definition terminal_kind (k : N) : Prop := k = ItemError \/ k = ItemEOF.
Definition nonterm (k : N) : Prop := k <> ItemError /\ k <> ItemEOF.
Definition nonterm_b (k : N) : bool := negb (N.eqb k ItemError) && negb (N.eqb k ItemEOF).

Lemma nonterm_b_ok k : nonterm_b k = true -> nonterm k.
Proof.
  unfold nonterm_b, nonterm. intro H. apply andb_prop in H. destruct H as [H1 H2].
  apply negb_true_iff in H1. apply negb_true_iff in H2.
  apply N.eqb_neq in H1. apply N.eqb_neq in H2. auto.
Qed.

(* facts about the generated tables (finite, checked completely by computation) *)
Lemma keywords_nonterm : forallb (fun p => nonterm_b (snd p)) keywords = true.
Proof. vm_compute. reflexivity. Qed.
Lemma keywords_nonempty : forallb (fun p => match fst p with [] => false | _ => true end) keywords = true.
Proof. vm_compute. reflexivity. Qed.
Lemma symbols_nonterm : forallb (fun p => nonterm_b (snd p)) single_symbols = true.
Proof. vm_compute. reflexivity. Qed.
Lemma fixed_kinds_nonterm :
  forallb nonterm_b [ItemBinding; ItemNode; ItemBlankNode; ItemLiteral; ItemPredicate; ItemPredicateBound; ItemTime;
                     ItemFilterFunction] = true.
Proof. vm_compute. reflexivity. Qed.

Ltac fixed_nt :=
  apply nonterm_b_ok;
  let H := fresh in
  pose proof fixed_kinds_nonterm as H; cbn [forallb] in H;
  repeat (apply andb_prop in H; let H1 := fresh in destruct H as [H1 H]; try exact H1).

Lemma nt_binding : nonterm ItemBinding. Proof. fixed_nt. Qed.
Lemma nt_node : nonterm ItemNode. Proof. fixed_nt. Qed.
Lemma nt_blank : nonterm ItemBlankNode. Proof. fixed_nt. Qed.
Lemma nt_literal : nonterm ItemLiteral. Proof. fixed_nt. Qed.
Lemma nt_predicate : nonterm ItemPredicate. Proof. fixed_nt. Qed.
Lemma nt_bound : nonterm ItemPredicateBound. Proof. fixed_nt. Qed.
Lemma nt_time : nonterm ItemTime. Proof. fixed_nt. Qed.
Lemma nt_ff : nonterm ItemFilterFunction. Proof. fixed_nt. Qed.

Lemma find_keyword_nonterm : forall tbl w k,
  forallb (fun p => nonterm_b (snd p)) tbl = true -> find_keyword w tbl = Some k -> nonterm k.
Proof.
  induction tbl as [|[kw k0] t IH]; intros w k Hall Hf; cbn in *; [discriminate|].
  apply andb_prop in Hall. destruct Hall as [H0 Ht].
  destruct (equal_fold w (zs kw)).
  - inversion Hf; subst. now apply nonterm_b_ok.
  - eauto.
Qed.

Lemma equal_fold_nonempty : forall w kw, equal_fold w kw = true -> kw <> [] -> w <> [].
Proof. intros [|c w] [|k kw] H Hk; cbn in *; congruence. Qed.

Lemma find_keyword_nonempty : forall tbl w k,
  forallb (fun p => match fst p with [] => false | _ => true end) tbl = true ->
  find_keyword w tbl = Some k -> w <> [].
Proof.
  induction tbl as [|[kw k0] t IH]; intros w k Hall Hf; cbn in *; [discriminate|].
  apply andb_prop in Hall. destruct Hall as [H0 Ht].
  destruct (equal_fold w (zs kw)) eqn:E.
  - apply (equal_fold_nonempty _ _ E). destruct kw; cbn in *; congruence.
  - eauto.
Qed.

Lemma assoc_sym_nonterm : forall tbl r k,
  forallb (fun p => nonterm_b (snd p)) tbl = true -> assoc_sym r tbl = Some k -> nonterm k.
Proof.
  induction tbl as [|[c k0] t IH]; intros r k Hall Hf; cbn in *; [discriminate|].
  apply andb_prop in Hall. destruct Hall as [H0 Ht].
  destruct (Z.eqb r c).
  - inversion Hf; subst. now apply nonterm_b_ok.
  - eauto.
Qed.

(* ------------------------------------------------------------------------------------------------ *)
Definition rank (s : state) (rs : list rw) : nat :=
  match s with
  | SToken => 3
  | SSpace => 4
  | SPredOrLit => 2
  | SBinding => 5
  | STime | SGlobalTime => match rs with [] => 5 | _ => 1 end
  | _ => 1
  end.

Definition mu (s : state) (l : lx) : nat := 4 * length (rest l) + rank s (rest l).

(* total = byte length of the input *)
Definition wf (total : nat) (l : lx) : Prop := start l <= pos l /\ pos l + wsum (rest l) = total.

(* specification of the result of a state function entered with pending-token start >= lo:
   the new state is well formed, start does not move backwards, at most one token is emitted, it lies between lo and
   the new start; the function returns nil exactly when that token is terminal; otherwise the measure of the next
   state is below M *)
Definition good (total lo M : nat) (r : res) : Prop :=
  let '(toks, nxt, l') := r in
  wf total l' /\ lo <= start l' /\
  match nxt with
  | None => exists k s e, toks = [(k, s, e)] /\ lo <= s /\ s <= e /\ e = start l' /\ terminal_kind k
  | Some s' => mu s' l' < M /\
               (toks = [] \/ exists k s e, toks = [(k, s, e)] /\ lo <= s /\ s <= e /\ e = start l' /\ nonterm k)
  end.

Lemma good_mono total lo M M' r : good total lo M r -> M <= M' -> good total lo M' r.
Proof.
  destruct r as [[toks nxt] l']. unfold good. intros (Hw & Hs & H) Hle. split; [exact Hw|]. split; [exact Hs|].
  destruct nxt; [|exact H]. destruct H as [Hm Ht]. split; [lia|exact Ht].
Qed.

Lemma good_lo total lo lo' M r : good total lo M r -> lo' <= lo -> good total lo' M r.
Proof.
  destruct r as [[toks nxt] l']. unfold good. intros (Hw & Hs & H) Hle. split; [exact Hw|]. split; [lia|].
  destruct nxt as [s'|].
  - destruct H as [Hm [Ht|(k & s & e & Ht & A & B & C & D)]]; split; try exact Hm; [left; exact Ht|].
    right. exists k, s, e. split; [exact Ht|]. split; [lia|]. auto.
  - destruct H as (k & s & e & Ht & A & B & C & D). exists k, s, e. split; [exact Ht|]. split; [lia|]. auto.
Qed.

Lemma good_emit total l M k ps rs :
  start l <= ps -> ps + wsum rs = total -> nonterm k -> 4 * length rs + 4 < M ->
  good total (start l) M (emit k l ps rs SSpace).
Proof.
  intros H1 H2 H3 H4. unfold emit, good, wf, mu. cbn. repeat split; try lia.
  right. exists k, (start l), ps. repeat split; try lia; apply H3.
Qed.

Lemma good_error total l M ps rs :
  start l <= ps -> ps + wsum rs = total -> good total (start l) M (emit_error l ps rs).
Proof.
  intros H1 H2. unfold emit_error, good, wf. cbn. repeat split; try lia.
  exists ItemError, (start l), ps. repeat split; try lia. now left.
Qed.

Lemma good_eof total lo M st ps :
  lo <= st -> st <= ps -> ps = total -> good total lo M ([(ItemEOF, st, ps)], None, mkLx [] ps ps ItemEOF).
Proof.
  intros H0 H1 H2. unfold good, wf. cbn [rest start pos wsum]. split; [lia|]. split; [lia|].
  exists ItemEOF, st, ps. split; [reflexivity|]. split; [lia|]. split; [lia|]. split; [reflexivity|]. now right.
Qed.

Lemma good_goto total lo M s' l' :
  wf total l' -> lo <= start l' -> mu s' l' < M -> good total lo M ([], Some s', l').
Proof. intros H0 H1 H2. unfold good. split; [exact H0|]. split; [exact H1|]. split; [exact H2|]. now left. Qed.

Lemma good_sym total lo M k st e rs :
  lo <= st -> st <= e -> e + wsum rs = total -> nonterm k -> 4 * length rs + 4 < M ->
  good total lo M ([(k, st, e)], Some SSpace, mkLx rs e e k).
Proof.
  intros H0 H1 H2 H3 H4. unfold good, wf, mu. cbn [rest start pos rank]. split; [lia|]. split; [lia|]. split; [lia|].
  right. exists k, st, e. split; [reflexivity|]. split; [lia|]. split; [lia|]. split; [reflexivity|]. exact H3.
Qed.

Section Proofs.
Variable U : uni.
Variable total : nat.

Lemma scan_while_spec p : forall rs ps p' rs',
  scan_while p ps rs = (p', rs') ->
  ps <= p' /\ p' + wsum rs' = ps + wsum rs /\ length rs' <= length rs.
Proof.
  induction rs as [|[r w] rs IH]; intros ps p' rs' H; cbn in H.
  - inversion H; subst. cbn. lia.
  - destruct (p r).
    + apply IH in H. cbn [wsum length]. lia.
    + inversion H; subst. cbn [wsum length]. lia.
Qed.

Lemma scan_while_progress p : forall rs ps p' rs',
  scan_while p ps rs = (p', rs') -> take_while p rs <> [] -> length rs' < length rs.
Proof.
  intros [|[r w] rs] ps p' rs' H Hne; cbn in *; [congruence|].
  destruct (p r); [|congruence]. apply scan_while_spec in H. lia.
Qed.

Lemma consume_spec : forall text rs ps b p' rs',
  consume U text ps rs = (b, p', rs') ->
  ps <= p' /\ p' + wsum rs' = ps + wsum rs /\ length rs' <= length rs.
Proof.
  induction text as [|c text IH]; intros rs ps b p' rs' H; cbn in H.
  - inversion H; subst. lia.
  - destruct rs as [|[r w] rs]; [inversion H; subst; cbn; lia|].
    destruct (Z.eqb (to_lower U r) (to_lower U c)).
    + apply IH in H. cbn [wsum length]. lia.
    + inversion H; subst. cbn [wsum length]. lia.
Qed.

Ltac ar := unfold rw in *; cbn [wsum length rest start pos last rank] in *; try lia.

(* ---- lexSpace, lexBinding, lexKeyword ---- *)
Lemma lex_space_good l : wf total l -> good total (start l) (mu SSpace l) (lex_space U l).
Proof.
  intros [Hs Hp]. unfold lex_space. destruct (scan_while (is_space U) (pos l) (rest l)) as [p' rs'] eqn:E.
  apply scan_while_spec in E. apply good_goto; unfold wf, mu; ar.
Qed.

Lemma lex_binding_good l : wf total l -> good total (start l) (mu SBinding l) (lex_binding U l).
Proof.
  intros [Hs Hp]. unfold lex_binding. destruct (scan_while (ident_rune U) (pos l) (rest l)) as [p' rs'] eqn:E.
  apply scan_while_spec in E. apply good_emit; try lia. apply nt_binding. unfold mu. cbn. lia.
Qed.

Lemma lex_keyword_good l : wf total l -> good total (start l) (mu SKeyword l) (lex_keyword U l).
Proof.
  intros [Hs Hp]. unfold lex_keyword.
  destruct (find_keyword (take_while (is_letter U) (rest l)) keywords) as [k|] eqn:F.
  - destruct (scan_while (is_letter U) (pos l) (rest l)) as [p' rs'] eqn:E.
    pose proof (scan_while_progress _ _ _ _ _ E (find_keyword_nonempty _ _ _ keywords_nonempty F)) as Hlt.
    apply scan_while_spec in E. apply good_emit; try lia.
    + eapply find_keyword_nonterm; [exact keywords_nonterm|exact F].
    + unfold mu. cbn. lia.
  - destruct (scan_while _ (pos l) (rest l)) as [p' rs'] eqn:E. apply scan_while_spec in E.
    apply good_error; lia.
Qed.

(* ---- lexFilterFunction ---- *)
Lemma ff_loop_good l : forall rs ps, start l <= ps -> ps + wsum rs = total ->
  good total (start l) (4 * length rs + 5) (ff_loop U l ps rs).
Proof.
  induction rs as [|[r w] rs IH]; intros ps H1 H2; cbn [ff_loop].
  - apply good_error; ar.
  - destruct (Z.eqb r r_leftPar).
    + apply good_emit; ar. apply nt_ff.
    + destruct (is_letter U r).
      * eapply good_mono; [apply IH|]; ar.
      * apply good_error; ar.
Qed.

Lemma lex_ff_good l : wf total l -> good total (start l) (mu SFilterFunction l) (lex_filter_function U l).
Proof.
  intros [Hs Hp]. unfold lex_filter_function, mu. destruct (rest l) as [|[r w] rs] eqn:E; rewrite ?E in Hp.
  - apply good_error; ar.
  - eapply good_mono; [apply ff_loop_good|]; ar.
Qed.

(* ---- lexNode ---- *)
Lemma node_loop_good l : forall n rs, length rs <= n -> forall ltid ps, start l <= ps -> ps + wsum rs = total ->
  good total (start l) (4 * length rs + 5) (node_loop l ltid ps rs).
Proof.
  induction n as [|n IH]; intros rs Hn ltid ps H1 H2.
  - destruct rs; [|cbn in Hn; lia]. cbn [node_loop pred_loop lit_loop]. apply good_error; ar.
  - destruct rs as [|[r w] rs]; cbn [node_loop]; [apply good_error; ar|].
    cbn [length] in Hn.
    destruct (Z.eqb r r_backSlash).
    + destruct rs as [|[r2 w2] rs2].
      * eapply good_mono; [apply IH|]; ar.
      * destruct (Z.eqb r2 r_lt); (eapply good_mono; [apply IH|]); ar.
    + destruct (Z.eqb r r_lt); [eapply good_mono; [apply IH|]; ar|].
      destruct (Z.eqb r r_gt).
      * destruct ltid; [apply good_emit; ar; apply nt_node|apply good_error; ar].
      * eapply good_mono; [apply IH|]; ar.
Qed.

Lemma lex_node_good l : wf total l -> rest l <> [] -> good total (start l) (mu SNode l) (lex_node l).
Proof.
  intros [Hs Hp] Hne. unfold lex_node, mu. destruct (rest l) as [|[r w] rs] eqn:E; rewrite ?E in Hp; [congruence|].
  (* the first rune is consumed by the first iteration: redo one unfolding to expose the progress *)
  cbn [node_loop rank].
  destruct (Z.eqb r r_backSlash).
  - destruct rs as [|[r2 w2] rs2].
    + eapply good_mono; [eapply node_loop_good; [apply le_n|..]|]; ar.
    + destruct (Z.eqb r2 r_lt); (eapply good_mono; [eapply node_loop_good; [apply le_n|..]|]); ar.
  - destruct (Z.eqb r r_lt); [eapply good_mono; [eapply node_loop_good; [apply le_n|..]|]; ar|].
    destruct (Z.eqb r r_gt).
    + apply good_error; ar.
    + eapply good_mono; [eapply node_loop_good; [apply le_n|..]|]; ar.
Qed.

(* lexNode on an empty rest (never reached from lexToken, but the step function is total) *)
Lemma lex_node_good_nil l : wf total l -> rest l = [] -> good total (start l) (mu SNode l) (lex_node l).
Proof.
  intros [Hs Hp] E. unfold lex_node. rewrite E in *. cbn [node_loop]. apply good_error; ar.
Qed.

(* ---- lexBlankNode ---- *)
Lemma lex_blank_good l : wf total l -> good total (start l) (mu SBlankNode l) (lex_blank_node U l).
Proof.
  intros [Hs Hp]. unfold lex_blank_node, mu. destruct (rest l) as [|[r w] rs] eqn:E; rewrite ?E in Hp; [apply good_error; ar|].
  destruct (negb (Z.eqb r r_colon)); [apply good_error; ar|].
  destruct rs as [|[r2 w2] rs2]; [apply good_error; ar|].
  destruct (negb (is_letter U r2)); [apply good_error; ar|].
  destruct (scan_while (ident_rune U) (pos l + w + w2) rs2) as [p' rs3] eqn:S. apply scan_while_spec in S.
  apply good_emit; ar. apply nt_blank.
Qed.

(* ---- lexPredicateOrLiteral ---- *)
Lemma lex_pol_good l : wf total l -> good total (start l) (mu SPredOrLit l) (lex_pred_or_lit l).
Proof.
  intros [Hs Hp]. unfold lex_pred_or_lit.
  set (pi := index_of (zs s_anchor) (tl (map fst (rest l)))). set (li := index_of (zs s_literalType) (tl (map fst (rest l)))).
  assert (G : forall st, st = SPredicate \/ st = SLiteral -> good total (start l) (mu SPredOrLit l) ([], Some st, l)).
  { intros st Hst. apply good_goto; unfold wf, mu; try lia. destruct Hst; subst; cbn [rank]; lia. }
  destruct pi as [p|]; destruct li as [q|]; cbv beta iota;
    try (apply G; repeat match goal with |- context [if ?c then _ else _] => destruct c end; auto).
  apply good_error; lia.
Qed.

(* ---- lexPredicate ---- *)
Lemma bounds_loop_good l : forall rs commas ps, start l <= ps -> ps + wsum rs = total ->
  good total (start l) (4 * length rs + 5) (bounds_loop l commas ps rs).
Proof.
  induction rs as [|[r w] rs IH]; intros commas ps H1 H2; cbn [bounds_loop]; [apply good_error; ar|].
  destruct (Z.eqb r r_rightSquarePar).
  - destruct (Nat.ltb 1 _); [apply good_error; ar|].
    destruct (Nat.eqb _ 0); apply good_emit; ar; [apply nt_predicate|apply nt_bound].
  - eapply good_mono; [apply IH|]; ar.
Qed.

Lemma pred_loop_good l : forall n rs, length rs <= n -> forall ps, start l <= ps -> ps + wsum rs = total ->
  good total (start l) (4 * length rs + 5) (pred_loop U l ps rs).
Proof.
  induction n as [|n IH]; intros rs Hn ps H1 H2.
  - destruct rs; [|cbn in Hn; lia]. cbn [node_loop pred_loop lit_loop]. apply good_error; ar.
  - destruct rs as [|[r w] rs]; cbn [pred_loop]; [apply good_error; ar|].
    cbn [length] in Hn.
    destruct (Z.eqb r r_backSlash).
    + destruct rs as [|[r2 w2] rs2].
      * eapply good_mono; [apply IH|]; ar.
      * destruct (Z.eqb r2 r_quote); (eapply good_mono; [apply IH|]); ar.
    + destruct (Z.eqb r r_quote).
      * match goal with |- context [consume ?xa ?xb ?xc ?xd] => destruct (consume xa xb xc xd) as [[b p1] rs1] eqn:C end.
        apply consume_spec in C. destruct b.
        -- eapply good_mono; [apply bounds_loop_good|]; ar.
        -- apply good_error; ar.
      * eapply good_mono; [apply IH|]; ar.
Qed.

Lemma lex_predicate_good l : wf total l -> good total (start l) (mu SPredicate l) (lex_predicate U l).
Proof.
  intros [Hs Hp]. unfold lex_predicate, mu. destruct (rest l) as [|[r w] rs] eqn:E; rewrite ?E in Hp; [apply good_error; ar|].
  eapply good_mono; [eapply pred_loop_good; [apply le_n|..]|]; ar.
Qed.

(* ---- lexLiteral ---- *)
Lemma literal_tail_good l p1 rs1 : start l <= p1 -> p1 + wsum rs1 = total ->
  good total (start l) (4 * length rs1 + 5) (literal_tail U l p1 rs1).
Proof.
  intros H1 H2. unfold literal_tail.
  destruct (scan_while (letter_or_digit U) p1 rs1) as [p2 rs2] eqn:S. apply scan_while_spec in S.
  destruct (mem_zs _ literal_types).
  - apply good_emit; ar. apply nt_literal.
  - destruct rs2 as [|[r3 w3] rs3]; apply good_error; ar.
Qed.

Lemma lit_loop_good l : forall n rs, length rs <= n -> forall ps, start l <= ps -> ps + wsum rs = total ->
  good total (start l) (4 * length rs + 5) (lit_loop U l ps rs).
Proof.
  induction n as [|n IH]; intros rs Hn ps H1 H2.
  - destruct rs; [|cbn in Hn; lia]. cbn [node_loop pred_loop lit_loop]. apply good_error; ar.
  - destruct rs as [|[r w] rs]; cbn [lit_loop]; [apply good_error; ar|].
    cbn [length] in Hn.
    destruct (Z.eqb r r_backSlash).
    + destruct rs as [|[r2 w2] rs2].
      * eapply good_mono; [apply IH|]; ar.
      * destruct (Z.eqb r2 r_quote); (eapply good_mono; [apply IH|]); ar.
    + destruct (Z.eqb r r_quote).
      * match goal with |- context [consume ?xa ?xb ?xc ?xd] => destruct (consume xa xb xc xd) as [[b p1] rs1] eqn:C end.
        apply consume_spec in C. destruct b.
        -- eapply good_mono; [apply literal_tail_good|]; ar.
        -- apply good_error; ar.
      * eapply good_mono; [apply IH|]; ar.
Qed.

Lemma lex_literal_good l : wf total l -> good total (start l) (mu SLiteral l) (lex_literal U l).
Proof.
  intros [Hs Hp]. unfold lex_literal, mu. destruct (rest l) as [|[r w] rs] eqn:E; rewrite ?E in Hp; [apply good_error; ar|].
  eapply good_mono; [eapply lit_loop_good; [apply le_n|..]|]; ar.
Qed.

(* ---- lexPredicateGlobalTime, lexTime ---- *)
Lemma nt_time_or_bound b : nonterm (time_or_bound b).
Proof. destruct b; [apply nt_bound|apply nt_time]. Qed.

Lemma gt_loop_good l : forall rs sk cs ps, start l <= ps -> ps + wsum rs = total ->
  good total (start l) (4 * length rs + 5) (gt_loop U l sk cs ps rs).
Proof.
  induction rs as [|[r w] rs IH]; intros sk cs ps H1 H2; cbn [gt_loop].
  - apply good_emit; ar. apply nt_time_or_bound.
  - destruct (sk && is_space U r); [eapply good_mono; [apply IH|]; ar|].
    destruct (Z.eqb r r_comma).
    + destruct cs; [apply good_error; ar|eapply good_mono; [apply IH|]; ar].
    + destruct (Z.eqb r r_semicolon); [apply good_emit; ar; apply nt_time_or_bound|].
      destruct (is_space U r); [apply good_emit; ar; apply nt_time_or_bound|].
      eapply good_mono; [apply IH|]; ar.
Qed.

Lemma lex_gt_good l : wf total l -> good total (start l) (mu SGlobalTime l) (lex_global_time U l).
Proof.
  intros [Hs Hp]. unfold lex_global_time, mu. destruct (rest l) as [|[r w] rs] eqn:E; rewrite ?E in Hp.
  - apply good_emit; ar. apply nt_time.
  - eapply good_mono; [apply gt_loop_good|]; ar.
Qed.

Lemma time_loop_good l : forall rs ps, start l <= ps -> ps + wsum rs = total ->
  good total (start l) (4 * length rs + 5) (time_loop U l ps rs).
Proof.
  induction rs as [|[r w] rs IH]; intros ps H1 H2; cbn [time_loop].
  - apply good_emit; ar. apply nt_time.
  - destruct (Z.eqb r r_semicolon || Z.eqb r r_rightPar); [apply good_emit; ar; apply nt_time|].
    destruct (is_space U r); [apply good_emit; ar; apply nt_time|].
    eapply good_mono; [apply IH|]; ar.
Qed.

Lemma lex_time_good l : wf total l -> good total (start l) (mu STime l) (lex_time U l).
Proof.
  intros [Hs Hp]. unfold lex_time, mu. destruct (rest l) as [|[r w] rs] eqn:E; rewrite ?E in Hp.
  - apply good_emit; ar. apply nt_time.
  - eapply good_mono; [apply time_loop_good|]; ar.
Qed.

(* ---- lexToken ---- *)
Lemma lex_token_good : forall n rs, length rs <= n -> forall lastk lo st ps,
  lo <= st -> st <= ps -> ps + wsum rs = total ->
  good total lo (4 * length rs + 3) (lex_token U lastk st ps rs).
Proof.
  induction n as [|n IH]; intros rs Hn lastk lo st ps H0 H1 H2.
  - destruct rs; [|cbn in Hn; lia]. cbn [lex_token]. apply good_eof; ar.
  - destruct rs as [|[r w] rs].
    { cbn [lex_token]. apply good_eof; ar. }
    cbn [length] in Hn. cbn [lex_token].
    assert (Here : forall s', rank s' ((r, w) :: rs) < 3 ->
              good total lo (4 * length ((r, w) :: rs) + 3) ([], Some s', mkLx ((r, w) :: rs) st ps lastk)).
    { intros s' Hr. apply good_goto; unfold wf, mu; ar. }
    destruct (is_digit U r && mem_N lastk last_global_time); [apply Here; cbn; lia|].
    destruct (is_digit U r && mem_N lastk last_local_time); [apply Here; cbn; lia|].
    destruct (Z.eqb r r_binding).
    { apply good_goto; unfold wf, mu; ar. }
    destruct (Z.eqb r r_slash); [apply Here; cbn; lia|].
    destruct (Z.eqb r r_underscore).
    { apply good_goto; unfold wf, mu; ar. }
    destruct (Z.eqb r r_quote); [apply Here; cbn; lia|].
    destruct (is_letter U r).
    { destruct (mem_N lastk last_filter_function); apply Here; cbn; lia. }
    destruct (assoc_sym r single_symbols) as [k|] eqn:A.
    { apply good_sym; ar. apply (assoc_sym_nonterm _ _ _ symbols_nonterm A). }
    destruct (is_space U r).
    { eapply good_mono; [apply IH|]; ar. }
    destruct rs as [|[r2 w2] rs2].
    { apply good_eof; ar. }
    eapply good_mono; [apply IH|]; ar.
Qed.

(* ---- one step ---- *)
Lemma step_good s l : wf total l -> good total (start l) (mu s l) (step U s l).
Proof.
  intros Hw. destruct s; cbn [step].
  - destruct Hw as [Hs Hp]. unfold mu. cbn [rank]. eapply lex_token_good; [apply le_n|..]; lia.
  - now apply lex_space_good.
  - now apply lex_keyword_good.
  - now apply lex_ff_good.
  - destruct (rest l) eqn:E; [apply lex_node_good_nil|apply lex_node_good]; auto; congruence.
  - now apply lex_blank_good.
  - now apply lex_binding_good.
  - now apply lex_pol_good.
  - now apply lex_predicate_good.
  - now apply lex_literal_good.
  - now apply lex_gt_good.
  - now apply lex_time_good.
Qed.

(* ---- the run loop ---- *)
Definition tk_terminal (t : token) : Prop := terminal_kind (tk_kind t).

(* lo <= s1 <= e1 <= s2 <= e2 <= ... <= hi *)
Fixpoint ordered (lo : nat) (ts : list token) (hi : nat) : Prop :=
  match ts with
  | [] => lo <= hi
  | t :: r => lo <= tk_start t /\ tk_start t <= tk_end t /\ ordered (tk_end t) r hi
  end.

Lemma ordered_lo : forall ts lo lo' hi, ordered lo ts hi -> lo' <= lo -> ordered lo' ts hi.
Proof. intros [|t r] lo lo' hi H Hle; cbn in *; [lia|]. destruct H as (A & B & C). repeat split; try lia. exact C. Qed.

Definition one_terminal (ts : list token) : Prop :=
  exists pre t, ts = pre ++ [t] /\ tk_terminal t /\ Forall (fun x => ~ tk_terminal x) pre.

Lemma nonterm_not_terminal k s e : nonterm k -> ~ tk_terminal (k, s, e).
Proof. unfold nonterm, tk_terminal, terminal_kind, tk_kind. cbn. tauto. Qed.

Theorem run_good : forall fuel s l ts fin,
  wf total l -> mu s l < fuel -> run U fuel s l = (ts, fin) ->
  fin = true /\ ordered (start l) ts total /\ one_terminal ts.
Proof.
  induction fuel as [|f IH]; intros s l ts fin Hw Hmu Hrun; [lia|].
  cbn [run] in Hrun. pose proof (step_good s l Hw) as G.
  destruct (step U s l) as [[toks nxt] l']. unfold good in G. destruct G as (Hw' & Hs' & G).
  destruct nxt as [s'|].
  - destruct G as [Hm Ht]. destruct (run U f s' l') as [ts' fin'] eqn:R.
    injection Hrun as Ets Efin. subst ts fin.
    destruct (IH s' l' ts' fin' Hw' ltac:(lia) R) as (F & O & (pre & t & E & T & P)).
    split; [exact F|]. destruct Ht as [Ht|(k & s0 & e & Ht & A & B & C & D)]; subst toks.
    + cbn [app]. split; [eapply ordered_lo; eauto|]. exists pre, t. auto.
    + cbn [app]. split.
      * cbn [ordered tk_start tk_end fst snd]. repeat split; try lia. subst e. exact O.
      * exists ((k, s0, e) :: pre), t. rewrite E. split; [reflexivity|]. split; [exact T|].
        constructor; [now apply nonterm_not_terminal|exact P].
  - destruct G as (k & s0 & e & Ht & A & B & C & D). inversion Hrun; subst.
    split; [reflexivity|]. split.
    + cbn [ordered tk_start tk_end fst snd]. destruct Hw' as [W1 W2]. repeat split; lia.
    + exists [], (k, s0, start l'). repeat split; auto.
Qed.

Lemma init_wf rs : wsum rs = total -> wf total (init_lx rs).
Proof. intro H. unfold wf, init_lx. cbn. lia. Qed.

Theorem lex_runes_good rs ts fin : wsum rs = total -> lex_runes U rs = (ts, fin) ->
  fin = true /\ ordered 0 ts total /\ one_terminal ts.
Proof.
  intros Hw H. unfold lex_runes in H. eapply run_good in H; [exact H|now apply init_wf|].
  unfold mu, fuel_for, init_lx. cbn [rest rank]. lia.
Qed.

End Proofs.

(* ---- decoding covers the input exactly ---- *)
Lemma wsum_decode_all : forall n s, length s <= n -> wsum (decode_all s) = length s.
Proof.
  induction n as [|n IH]; intros s Hn; [destruct s; [reflexivity|cbn in Hn; lia]|].
  destruct s as [|b0 t]; [reflexivity|]. cbn [length] in Hn.
  assert (Hbad : wsum ((rune_error, 1) :: decode_all t) = length (b0 :: t)).
  { cbn [wsum length]. rewrite IH; lia. }
  cbn [decode_all]. destruct (first_info (bz b0)) as [| |sz lo hi].
  - cbn [wsum length]. rewrite IH; lia.
  - exact Hbad.
  - destruct t as [|b1 t1]; [exact Hbad|]. cbn [length] in Hn.
    destruct (negb (in_range lo hi (bz b1))); [exact Hbad|].
    destruct sz as [|[|[|sz]]].
    + destruct t1 as [|b2 t2]; [exact Hbad|]. destruct (negb (is_cont (bz b2))); [exact Hbad|].
      destruct t2 as [|b3 t3]; [exact Hbad|]. destruct (negb (is_cont (bz b3))); [exact Hbad|].
      cbn [wsum length] in *. rewrite IH; lia.
    + destruct t1 as [|b2 t2]; [exact Hbad|]. destruct (negb (is_cont (bz b2))); [exact Hbad|].
      destruct t2 as [|b3 t3]; [exact Hbad|]. destruct (negb (is_cont (bz b3))); [exact Hbad|].
      cbn [wsum length] in *. rewrite IH; lia.
    + cbn [wsum length] in *. rewrite IH; lia.
    + destruct t1 as [|b2 t2]; [exact Hbad|]. destruct (negb (is_cont (bz b2))); [exact Hbad|].
      destruct sz as [|sz].
      * cbn [wsum length] in *. rewrite IH; lia.
      * destruct t2 as [|b3 t3]; [exact Hbad|]. destruct (negb (is_cont (bz b3))); [exact Hbad|].
        cbn [wsum length] in *. rewrite IH; lia.
Qed.

Theorem lex_with_good U inp ts fin : lex_with U inp = (ts, fin) ->
  fin = true /\ ordered 0 ts (length inp) /\ one_terminal ts.
Proof.
  intro H. unfold lex_with in H. eapply lex_runes_good; [|exact H].
  apply (wsum_decode_all (length inp)). apply le_n.
Qed.

(* ---- the same facts in elementary terms ---- *)
Lemma ordered_bounds : forall ts lo hi, ordered lo ts hi ->
  lo <= hi /\ Forall (fun t => lo <= tk_start t /\ tk_start t <= tk_end t /\ tk_end t <= hi) ts.
Proof.
  induction ts as [|t r IH]; intros lo hi H; cbn in H.
  - split; [exact H|constructor].
  - destruct H as (A & B & C). apply IH in C. destruct C as [C1 C2]. split; [lia|].
    constructor; [lia|]. eapply Forall_impl; [|exact C2]. cbn. intros a Ha. lia.
Qed.

Lemma ordered_adjacent : forall ts lo hi, ordered lo ts hi ->
  forall pre a b post, ts = pre ++ a :: b :: post -> tk_end a <= tk_start b.
Proof.
  induction ts as [|t r IH]; intros lo hi H pre a b post E.
  - destruct pre; discriminate.
  - cbn in H. destruct H as (A & B & C). destruct pre as [|p pre]; cbn in E.
    + inversion E; subst. cbn in C. lia.
    + inversion E; subst. eapply IH; eauto.
Qed.

Lemma skipn_skipn' {A} : forall b a (l : list A), skipn a (skipn b l) = skipn (b + a) l.
Proof.
  induction b as [|b IH]; intros a l; [reflexivity|]. destruct l as [|x l]; cbn [skipn plus].
  - now rewrite skipn_nil.
  - apply IH.
Qed.

Lemma sub_bytes_is_substring (inp : list byte) s e : s <= e -> e <= length inp ->
  inp = firstn s inp ++ sub_bytes inp s e ++ skipn e inp /\ length (firstn s inp) = s /\
  length (sub_bytes inp s e) = e - s.
Proof.
  intros H1 H2. unfold sub_bytes. split; [|split].
  - rewrite <- (firstn_skipn s inp) at 1. f_equal.
    rewrite <- (firstn_skipn (e - s) (skipn s inp)) at 1. f_equal.
    rewrite skipn_skipn'. f_equal. lia.
  - apply firstn_length_le. lia.
  - rewrite firstn_length, skipn_length. lia.
Qed.
