(* Injectivity of the UUID pre-images of Uuid.v. *)
From Coq Require Import List NArith ZArith Bool Lia ZifyBool ZifyNat ZifyN.
From Coq.Strings Require Import Byte.
Import ListNotations.
From BWValues Require Import Bytes BytesProofs Values Codec Uuid.

Lemma byte_of_N_inj : forall a b, (a < 256)%N -> (b < 256)%N -> byte_of_N a = byte_of_N b -> a = b.
Proof.
  intros a b Ha Hb. unfold byte_of_N.
  destruct (Byte.of_N a) as [x|] eqn:Ea; [|apply Byte.of_N_None_iff in Ea; lia].
  destruct (Byte.of_N b) as [y|] eqn:Eb; [|apply Byte.of_N_None_iff in Eb; lia].
  intros E. subst y. apply Byte.to_of_N in Ea. apply Byte.to_of_N in Eb. congruence.
Qed.

Lemma to_N_byte_of_N : forall a, (a < 256)%N -> Byte.to_N (byte_of_N a) = a.
Proof.
  intros a Ha. unfold byte_of_N.
  destruct (Byte.of_N a) as [x|] eqn:Ea; [|apply Byte.of_N_None_iff in Ea; lia].
  apply Byte.to_of_N in Ea. exact Ea.
Qed.

(* ---- PutUvarint is injective, also under zero padding (the encoding is self-delimiting) *)
Lemma uvarint_pad_inj : forall fuel n m za zb,
  uvarint fuel n ++ za = uvarint fuel m ++ zb -> (n < 2 ^ (7 * N.of_nat fuel))%N -> (m < 2 ^ (7 * N.of_nat fuel))%N -> n = m.
Proof.
  induction fuel as [|f IH]; intros n m za zb E Hn Hm.
  - change (2 ^ (7 * N.of_nat 0))%N with 1%N in *. lia.
  - cbn [uvarint] in E.
    assert (Hp : (2 ^ (7 * N.of_nat (S f)) = 128 * 2 ^ (7 * N.of_nat f))%N).
    { replace (7 * N.of_nat (S f))%N with (7 + 7 * N.of_nat f)%N by lia. rewrite N.pow_add_r. reflexivity. }
    destruct (n <? 128)%N eqn:En; destruct (m <? 128)%N eqn:Em.
    + apply N.ltb_lt in En, Em. cbn [app] in E. inversion E as [[E1 E2]].
      apply byte_of_N_inj in E1; clear - En Em E1; lia.
    + apply N.ltb_lt in En. apply N.ltb_ge in Em. cbn [app] in E. inversion E as [[E1 E2]].
      pose proof (N.mod_lt m 128 ltac:(lia)) as H.
      apply byte_of_N_inj in E1; clear - En Em E1 H; lia.
    + apply N.ltb_lt in Em. apply N.ltb_ge in En. cbn [app] in E. inversion E as [[E1 E2]].
      pose proof (N.mod_lt n 128 ltac:(lia)) as H.
      apply byte_of_N_inj in E1; clear - En Em E1 H; lia.
    + apply N.ltb_ge in En, Em. cbn [app] in E. inversion E as [[E1 E2]].
      pose proof (N.mod_lt n 128 ltac:(lia)) as H1. pose proof (N.mod_lt m 128 ltac:(lia)) as H2.
      apply byte_of_N_inj in E1; [|clear - H1; lia|clear - H2; lia].
      assert (Hq : (n / 128 = m / 128)%N).
      { apply (IH _ _ _ _ E2).
        - apply N.div_lt_upper_bound; [lia|]. rewrite <- Hp. exact Hn.
        - apply N.div_lt_upper_bound; [lia|]. rewrite <- Hp. exact Hm. }
      rewrite (N.div_mod n 128) by lia. rewrite (N.div_mod m 128) by lia. rewrite Hq.
      clear - E1. lia.
Qed.

Lemma uvarint_length : forall fuel n, (length (uvarint fuel n) <= fuel)%nat.
Proof.
  induction fuel as [|f IH]; intros n; cbn [uvarint]; [cbn; lia|].
  destruct (n <? 128)%N; cbn [length]; [lia|]. specialize (IH (n / 128)%N). lia.
Qed.

Lemma zigzag_inj : forall x y, zigzag x = zigzag y -> x = y.
Proof.
  intros x y. unfold zigzag.
  destruct (x <? 0)%Z eqn:Ex; destruct (y <? 0)%Z eqn:Ey; intros H; apply Z2N.inj in H; lia.
Qed.

Definition int64_range (x : Z) : Prop := (-9223372036854775808 <= x <= 9223372036854775807)%Z.

Lemma zigzag_bound : forall x, int64_range x -> (zigzag x < 2 ^ (7 * N.of_nat 10))%N.
Proof.
  intros x [H1 H2]. unfold zigzag.
  replace (2 ^ (7 * N.of_nat 10))%N with (Z.to_N 1180591620717411303424) by reflexivity.
  destruct (x <? 0)%Z eqn:Ex; apply Z2N.inj_lt; lia.
Qed.

Lemma varint_pad_inj : forall x y za zb, int64_range x -> int64_range y ->
  varint x ++ za = varint y ++ zb -> x = y.
Proof.
  intros x y za zb Hx Hy E. unfold varint in E.
  apply zigzag_inj. apply (uvarint_pad_inj _ _ _ _ _ E); apply zigzag_bound; assumption.
Qed.

Lemma wrap64_range : forall z, int64_range (wrap64 z).
Proof.
  intros z. unfold wrap64, int64_range.
  pose proof (Z.mod_pos_bound (z + 9223372036854775808) 18446744073709551616 ltac:(lia)). lia.
Qed.

Lemma wrap64_id : forall z, int64_range z -> wrap64 z = z.
Proof.
  intros z [H1 H2]. unfold wrap64. rewrite Z.mod_small by lia. lia.
Qed.

Lemma varint_length : forall x, (length (varint x) <= 10)%nat.
Proof. intros. apply uvarint_length. Qed.

Lemma put_varint_buf_16 : forall x, put_varint_buf 16 x = Some (varint x ++ zeros (16 - length (varint x))).
Proof.
  intros x. unfold put_varint_buf. pose proof (varint_length x).
  destruct (Nat.leb (length (varint x)) 16) eqn:E; [reflexivity|]. apply Nat.leb_gt in E. lia.
Qed.

(* ---- list helpers *)
Lemma app_eq_len_tail : forall (A : Type) (a b t1 t2 : list A),
  length t1 = length t2 -> a ++ t1 = b ++ t2 -> a = b /\ t1 = t2.
Proof.
  intros A a. induction a as [|x a IH]; intros b t1 t2 Hl E.
  - destruct b as [|y b]; [auto|]. exfalso. cbn in E. subst t1. cbn in Hl. rewrite app_length in Hl. lia.
  - destruct b as [|y b].
    + exfalso. cbn in E. subst t2. cbn in Hl. rewrite app_length in Hl. lia.
    + cbn in E. inversion E. subst. destruct (IH _ _ _ Hl H1). subst. auto.
Qed.

Lemma last_app_nonempty : forall (A : Type) (a b : list A) d, b <> [] -> last (a ++ b) d = last b d.
Proof.
  intros A a b d Hb. induction a as [|x a IH]; [reflexivity|].
  cbn [app]. destruct (a ++ b) as [|y l] eqn:E.
  - apply app_eq_nil in E. destruct E. contradiction.
  - cbn [last]. exact IH.
Qed.

Lemma last_zeros : forall k d, last (zeros (S k)) d = x00.
Proof.
  induction k as [|k IH]; intros d; [reflexivity|].
  change (zeros (S (S k))) with (x00 :: zeros (S k)). cbn [last].
  change (zeros (S k)) with (x00 :: zeros k) at 1. exact (IH d).
Qed.

(* ---- Predicate.UUID *)
Definition anchor_equiv (a b : option time) : Prop :=
  match a, b with
  | None, None => True
  | Some x, Some y => wrap64 (t_ns x) = wrap64 (t_ns y)
  | _, _ => False
  end.

Lemma temporal_tail : forall t, exists v k,
  put_varint_buf 16 (wrap64 (t_ns t)) = Some (v ++ zeros (S k)) /\ v = varint (wrap64 (t_ns t)) /\ length (v ++ zeros (S k)) = 16%nat.
Proof.
  intros t. rewrite put_varint_buf_16. pose proof (varint_length (wrap64 (t_ns t))) as H.
  exists (varint (wrap64 (t_ns t))), (15 - length (varint (wrap64 (t_ns t))))%nat.
  replace (16 - length (varint (wrap64 (t_ns t))))%nat with (S (15 - length (varint (wrap64 (t_ns t)))))%nat by lia.
  repeat split. rewrite app_length. unfold zeros. rewrite repeat_length. lia.
Qed.

Lemma pre_pred_inj : forall p q, pre_pred p = pre_pred q <-> (pid p = pid q /\ anchor_equiv (panchor p) (panchor q)).
Proof.
  intros [ip ap] [iq aq]. unfold pre_pred. cbn [pid panchor]. split.
  - destruct ap as [tp|]; destruct aq as [tq|]; cbn [anchor_equiv].
    + destruct (temporal_tail tp) as [v1 [k1 [E1 [V1 L1]]]]. destruct (temporal_tail tq) as [v2 [k2 [E2 [V2 L2]]]].
      rewrite E1, E2. intros E. apply app_eq_len_tail in E; [|congruence]. destruct E as [Ei Et].
      split; [exact Ei|]. subst v1 v2.
      apply (varint_pad_inj _ _ _ _ (wrap64_range _) (wrap64_range _) Et).
    + destruct (temporal_tail tp) as [v1 [k1 [E1 [V1 L1]]]]. rewrite E1. intros E. exfalso.
      assert (H : last (ip ++ v1 ++ zeros (S k1)) x01 = last (iq ++ s_immutable) x01) by (rewrite E; reflexivity).
      rewrite app_assoc in H. rewrite last_app_nonempty in H by discriminate.
      rewrite last_app_nonempty in H by discriminate. rewrite last_zeros in H. cbn in H. discriminate.
    + destruct (temporal_tail tq) as [v1 [k1 [E1 [V1 L1]]]]. rewrite E1. intros E. exfalso.
      assert (H : last (ip ++ s_immutable) x01 = last (iq ++ v1 ++ zeros (S k1)) x01) by (rewrite E; reflexivity).
      rewrite (app_assoc iq) in H. rewrite last_app_nonempty in H by discriminate.
      rewrite last_app_nonempty in H by discriminate. rewrite last_zeros in H. cbn in H. discriminate.
    + intros E. apply app_inv_tail in E. auto.
  - intros [Ei Ea]. subst iq. destruct ap as [tp|]; destruct aq as [tq|]; cbn [anchor_equiv] in Ea; try contradiction.
    + rewrite Ea. reflexivity.
    + reflexivity.
Qed.

(* ---- Literal.UUID *)
Lemma le_bytes_inj : forall k a b, (a < 256 ^ N.of_nat k)%N -> (b < 256 ^ N.of_nat k)%N -> le_bytes k a = le_bytes k b -> a = b.
Proof.
  induction k as [|k IH]; intros a b Ha Hb E.
  - cbn in Ha, Hb. lia.
  - cbn [le_bytes] in E. inversion E as [[E1 E2]].
    assert (Hp : (256 ^ N.of_nat (S k) = 256 * 256 ^ N.of_nat k)%N).
    { replace (N.of_nat (S k)) with (1 + N.of_nat k)%N by lia. rewrite N.pow_add_r. reflexivity. }
    pose proof (N.mod_lt a 256 ltac:(lia)). pose proof (N.mod_lt b 256 ltac:(lia)).
    apply byte_of_N_inj in E1; [|lia|lia].
    assert (Hq : (a / 256 = b / 256)%N).
    { apply IH; [apply N.div_lt_upper_bound; lia | apply N.div_lt_upper_bound; lia | exact E2]. }
    rewrite (N.div_mod a 256) by lia. rewrite (N.div_mod b 256) by lia. lia.
Qed.

Definition same_lit_type (a b : literal) : bool :=
  match a, b with
  | LBool _, LBool _ | LInt _, LInt _ | LFloat _, LFloat _ | LText _, LText _ | LBlob _, LBlob _ => true
  | _, _ => false
  end.

Definition lit_in_range (l : literal) : bool :=
  match l with
  | LInt z => in_int64 z
  | LFloat b => (b <? 18446744073709551616)%N
  | _ => true
  end.

Lemma in_int64_range : forall z, in_int64 z = true -> int64_range z.
Proof. intros z H. unfold in_int64 in H. unfold int64_range. lia. Qed.

Lemma Ok_inj : forall (A : Type) (a b : A), Ok a = Ok b -> a = b.
Proof. intros A a b H. inversion H. reflexivity. Qed.

Lemma pre_literal_inj_same_type : forall a b,
  same_lit_type a b = true -> lit_in_range a = true -> lit_in_range b = true ->
  pre_literal a = pre_literal b -> a = b.
Proof.
  intros a b Ht Ha Hb E. destruct a, b; cbn in Ht; try discriminate; cbn [pre_literal] in E.
  - destruct b0, b; try reflexivity; inversion E.
  - apply Ok_inj in E. unfold varint_min8 in E. cbn in Ha, Hb.
    f_equal. apply (varint_pad_inj _ _ _ _ (in_int64_range _ Ha) (in_int64_range _ Hb) E).
  - apply Ok_inj in E. cbn in Ha, Hb. apply N.ltb_lt in Ha, Hb. f_equal.
    apply (le_bytes_inj 8); [exact Ha | exact Hb | exact E].
  - apply Ok_inj in E. congruence.
  - apply Ok_inj in E. congruence.
Qed.

(* ---- Node.UUID on a prefix-free type vocabulary *)
Definition proper_prefix (a b : str) : bool := prefixb a b && negb (str_eqb a b).

Lemma app_eq_prefix : forall (a b c d : str), a ++ b = c ++ d -> prefixb a c = true \/ prefixb c a = true.
Proof.
  induction a as [|x a IH]; intros b c d E.
  - left. reflexivity.
  - destruct c as [|y c]; [right; reflexivity|].
    cbn in E. inversion E. subst y. cbn [prefixb]. rewrite beqb_refl. cbn. exact (IH _ _ _ H1).
Qed.

Lemma pre_node_inj_prefix_free : forall a b,
  proper_prefix (ntype a) (ntype b) = false -> proper_prefix (ntype b) (ntype a) = false ->
  pre_node a = pre_node b -> a = b.
Proof.
  intros [ta ia] [tb ib]. unfold pre_node, proper_prefix. cbn [ntype nid]. intros H1 H2 E.
  assert (Ht : ta = tb).
  { destruct (app_eq_prefix _ _ _ _ E) as [P|P].
    - rewrite P in H1. cbn in H1. apply negb_false_iff in H1. apply str_eqb_eq in H1. exact H1.
    - rewrite P in H2. cbn in H2. apply negb_false_iff in H2. apply str_eqb_eq in H2. congruence. }
  subst tb. apply app_inv_head in E. subst. reflexivity.
Qed.

(* ---- Triple.UUID *)
Lemma pre_triple_components : forall t1 t2 k, pre_triple t1 = Ok k -> pre_triple t2 = Ok k ->
  pre_node (subj t1) = pre_node (subj t2) /\ pre_pred (tpred t1) = pre_pred (tpred t2) /\
  pre_object (tobj t1) = pre_object (tobj t2).
Proof.
  intros t1 t2 k. unfold pre_triple.
  destruct (pre_object (tobj t1)) as [o1| | |] eqn:E1; try discriminate.
  destruct (pre_object (tobj t2)) as [o2| | |] eqn:E2; try discriminate.
  intros H1 H2. inversion H1. subst k. inversion H2. repeat split; congruence.
Qed.

Lemma pre_literal_defined : forall l, exists b, pre_literal l = Ok b.
Proof. intros [[|]|z|b|s|b]; cbn; eauto. Qed.

Lemma pre_object_defined : forall o, o <> OInvalid -> exists b, pre_object o = Ok b.
Proof. intros [n|p|l|] H; cbn; eauto. - apply pre_literal_defined. - contradiction. Qed.

(* objects of the same kind: injective as far as the component is *)
Lemma pre_object_inj_same_kind_pred : forall p q, pre_object (OPred p) = pre_object (OPred q) ->
  pid p = pid q /\ anchor_equiv (panchor p) (panchor q).
Proof. intros p q H. cbn [pre_object] in H. apply Ok_inj in H. apply pre_pred_inj. exact H. Qed.

Lemma pre_object_inj_same_kind_lit : forall a b, same_lit_type a b = true -> lit_in_range a = true -> lit_in_range b = true ->
  pre_object (OLit a) = pre_object (OLit b) -> a = b.
Proof. intros a b H1 H2 H3 H. cbn [pre_object] in H. exact (pre_literal_inj_same_type a b H1 H2 H3 H). Qed.
