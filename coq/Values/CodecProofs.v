(* Lemmas about the parsers of Codec.v: they never reach a Panic outcome (for any oracle answers, for every
   input), never return "no value and no error", and whatever they accept is well-formed. *)
From Coq Require Import List NArith ZArith Bool Lia ZifyBool ZifyNat ZifyN.
From Coq.Strings Require Import Byte.
Import ListNotations.
From BWValues Require Import Bytes BytesProofs Values Codec.

Lemma new_type_ok : forall s t, new_type s = Some t -> type_ok t = true /\ t = s.
Proof. unfold new_type. intros s t H. destruct (type_ok s) eqn:E; inversion H; subst; auto. Qed.

Lemma new_id_ok : forall s t, new_id s = Some t -> id_ok t = true /\ t = s.
Proof. unfold new_id. intros s t H. destruct (id_ok s) eqn:E; inversion H; subst; auto. Qed.

(* ---------------------------------------------------------------- node.Parse *)
Inductive good {A : Type} (wf : A -> bool) : outcome A -> Prop :=
| good_ok : forall a, wf a = true -> good wf (Ok a)
| good_err : good wf Err.

Lemma good_not_panic : forall A wf (o : outcome A), good wf o -> (forall s, o <> Panic s) /\ o <> NilNil.
Proof. intros A wf o H. inversion H; split; intros; discriminate. Qed.

Lemma good_ok_wf : forall A wf (o : outcome A) a, good wf o -> o = Ok a -> wf a = true.
Proof. intros A wf o a H E. subst. inversion H. assumption. Qed.

Lemma blank_type_ok : type_ok s_blank_type = true.
Proof. reflexivity. Qed.

Lemma parse_node_good : forall s, good wf_node (parse_node s).
Proof.
  intros s. unfold parse_node. generalize (trim_space s) as raw0. intros raw0.
  destruct raw0 as [|c0 rest]; [constructor|].
  rewrite at_index_0. cbn [idx]. remember (c0 :: rest) as raw eqn:Eraw.
  assert (Hn : (1 <= zlen raw)%Z) by (rewrite Eraw, zlen_cons; pose proof (zlen_nonneg rest); lia).
  destruct (Byte.eqb c0 c_slash).
  - destruct (index s_lt raw) as [i|] eqn:Ei; [|constructor].
    apply index_spec in Ei. destruct Ei as [a [b [Hs Hi]]]. subst i.
    assert (Hlen : zlen raw = (zlen a + 1 + zlen b)%Z).
    { rewrite Hs. rewrite !zlen_app. unfold zlen, s_lt. cbn [length]. lia. }
    pose proof (zlen_nonneg a) as Ha. pose proof (zlen_nonneg b) as Hb.
    fold (zlen a).
    rewrite slice_ok by lia. cbn [idx].
    destruct (new_type _) as [t|] eqn:Et; [|constructor].
    destruct (at_index_ok raw (zlen raw - 1)) as [l Hl]; [lia|lia|]. rewrite Hl. cbn [idx].
    destruct (Byte.eqb l c_gt) eqn:El; cbn [negb]; [|constructor].
    assert (Hb1 : (1 <= zlen b)%Z).
    { destruct b as [|b0 b']; [|rewrite zlen_cons; pose proof (zlen_nonneg b'); lia].
      exfalso. replace (zlen raw - 1)%Z with (zlen a) in Hl by (unfold zlen in *; cbn [length] in *; lia).
      rewrite Hs in Hl. unfold s_lt in Hl. cbn [app] in Hl.
      rewrite at_index_app_mid in Hl. inversion Hl. subst l. discriminate. }
    rewrite slice_ok by lia. cbn [idx].
    destruct (new_id _) as [id|] eqn:Eid; [|constructor].
    constructor. unfold wf_node. cbn [ntype nid].
    destruct (new_type_ok _ _ Et) as [H1 _]. destruct (new_id_ok _ _ Eid) as [H2 _]. rewrite H1, H2. reflexivity.
  - destruct (Byte.eqb c0 c_under); [|constructor].
    destruct (zlen raw <? 2)%Z eqn:E2; [constructor|].
    rewrite slice_ok by lia. cbn [idx].
    destruct (new_id _) as [id|] eqn:Eid; [|constructor].
    constructor. unfold wf_node. cbn [ntype nid].
    destruct (new_id_ok _ _ Eid) as [H2 _]. rewrite H2. reflexivity.
Qed.

(* ---------------------------------------------------------------- predicate.Parse *)
Section WithOracles.
Variable O : oracles.

Lemma parse_pred_good : forall s, good wf_pred (parse_pred O s).
Proof.
  intros s. unfold parse_pred. set (raw := trim_space s).
  destruct raw as [|c0 rest] eqn:Eraw; [constructor|]. rewrite <- Eraw.
  destruct (negb (Byte.eqb c0 c_quote)); [constructor|].
  destruct (last_index s_anchor raw) as [i|] eqn:Ei; [|constructor].
  apply last_index_spec in Ei. destruct Ei as [a [b [Hs Hi]]]. subst i. fold (zlen a).
  assert (Hlen : zlen raw = (zlen a + 3 + zlen b)%Z).
  { rewrite Hs. rewrite !zlen_app. unfold zlen, s_anchor. cbn [length]. lia. }
  pose proof (zlen_nonneg a) as Ha. pose proof (zlen_nonneg b) as Hb.
  destruct (zlen raw <? zlen a + 4)%Z eqn:E4; [constructor|].
  rewrite slice_ok by lia. cbn [idx]. rewrite slice_ok by lia. cbn [idx].
  destruct (o_unquote O _) as [id|]; [|constructor].
  destruct id as [|i0 id']; [constructor|].
  set (ta := firstn _ _).
  destruct ta as [|t0 ta'] eqn:Eta; [constructor; reflexivity|].
  rewrite at_index_0. cbn [idx].
  set (ta1 := if Byte.eqb t0 c_quote then skipn 1 (t0 :: ta') else t0 :: ta').
  assert (Hk : forall x, good wf_pred (match o_parse_time O x with
                                        | Some t => Ok (mkPred (i0 :: id') (Some t)) | None => Err end)).
  { intros x. destruct (o_parse_time O x); constructor; reflexivity. }
  destruct ta1 as [|u0 ta1'] eqn:Eta1; [apply Hk|].
  destruct (at_index_ok (u0 :: ta1') (zlen (u0 :: ta1') - 1)) as [cl Hcl].
  { rewrite zlen_cons. pose proof (zlen_nonneg ta1'). lia. }
  { lia. }
  rewrite Hcl. cbn [idx]. apply Hk.
Qed.

(* ---------------------------------------------------------------- literal Parse *)
Lemma parse_digits_wf : forall neg ds z, parse_digits neg ds = Some z -> in_int64 z = true.
Proof.
  intros neg ds z. unfold parse_digits. destruct ds; [discriminate|].
  destruct (bytes_to_uint _); [|discriminate].
  destruct (in_int64 _) eqn:E; [|discriminate]. intros H. inversion H. subst. exact E.
Qed.

Lemma parse_int64_wf : forall s z, parse_int64 s = Some z -> in_int64 z = true.
Proof.
  intros s z. unfold parse_int64.
  destruct s as [|c r]; [apply parse_digits_wf|].
  destruct c; apply parse_digits_wf.
Qed.

Lemma parse_literal_good : forall s, good wf_literal (parse_literal O s).
Proof.
  intros s. unfold parse_literal. set (raw := trim_space s).
  destruct raw as [|c0 rest] eqn:Eraw; [constructor|]. rewrite <- Eraw.
  destruct (negb (Byte.eqb c0 c_quote)); [constructor|].
  destruct (last_index s_typem raw) as [i|] eqn:Ei; [|constructor].
  destruct i as [|i]; [constructor|].
  apply last_index_spec in Ei. destruct Ei as [a [b [Hs Hi]]].
  assert (Hlen : zlen raw = (zlen a + 8 + zlen b)%Z).
  { rewrite Hs. rewrite !zlen_app. unfold zlen, s_typem. cbn [length]. lia. }
  pose proof (zlen_nonneg a) as Ha. pose proof (zlen_nonneg b) as Hb.
  assert (Hia : Z.of_nat (S i) = zlen a) by (unfold zlen; lia).
  rewrite slice_ok by lia. cbn [idx]. rewrite slice_ok by lia. cbn [idx].
  set (v := firstn (Z.to_nat (Z.of_nat (S i) - 1)) _). set (t := firstn _ (skipn (Z.to_nat (Z.of_nat (S i) + 8)) _)).
  destruct (str_eqb t s_bool). { destruct (parse_bool v); constructor; reflexivity. }
  destruct (str_eqb t s_int64).
  { destruct (parse_int64 v) eqn:E; constructor. cbn. exact (parse_int64_wf _ _ E). }
  destruct (str_eqb t s_float64). { destruct (o_parse_float O v); constructor; reflexivity. }
  destruct (str_eqb t s_text). { constructor; reflexivity. }
  destruct (str_eqb t s_blob); [|constructor].
  destruct (blob_unbracketed v) eqn:Eb; [constructor|].
  unfold blob_unbracketed in Eb. apply orb_false_iff in Eb. destruct Eb as [Eb _].
  apply orb_false_iff in Eb. destruct Eb as [Eb _].
  pose proof (zlen_nonneg v).
  rewrite slice_ok by lia. cbn [idx].
  destruct (firstn _ (skipn _ v)) as [|x xs]; [constructor; reflexivity|].
  destruct (parse_blob_items _); constructor; reflexivity.
Qed.

Lemma parse_literal_bounded_good : forall max s, good wf_literal (parse_literal_bounded O max s).
Proof.
  intros max s. unfold parse_literal_bounded. pose proof (parse_literal_good s) as G.
  destruct (parse_literal O s) as [l| | |]; inversion G as [l' Hw|]; subst; [|constructor].
  destruct l; try (constructor; exact Hw).
  - destruct (Nat.ltb max (length s0)); constructor; exact Hw.
  - destruct (Nat.ltb max (length b)); constructor; exact Hw.
Qed.

(* ---------------------------------------------------------------- triple.ParseObject *)
Lemma parse_object_good : forall s, good wf_object (parse_object O s).
Proof.
  intros s. unfold parse_object.
  pose proof (parse_node_good s) as Hn. destruct (parse_node s) as [n| | |]; inversion Hn as [n' Hw|]; subst.
  - constructor. exact Hw.
  - pose proof (parse_literal_good s) as Hl. destruct (parse_literal O s) as [l| | |]; inversion Hl as [l' Hw|]; subst.
    + constructor. exact Hw.
    + pose proof (parse_pred_good s) as Hp. destruct (parse_pred O s) as [p| | |]; inversion Hp as [p' Hw|]; subst;
        constructor. exact Hw.
Qed.

(* ---------------------------------------------------------------- triple.Parse *)
Lemma parse_triple_good : forall s, good wf_triple (parse_triple O s).
Proof.
  intros s. unfold parse_triple. set (raw := trim_space s).
  destruct (p_split raw) as [[ps pe]|] eqn:Ep; [|constructor].
  apply find_split_bounds in Ep. cbn [plus] in Ep. destruct Ep as [_ [Ep1 Ep2]].
  assert (Hn : zlen raw = Z.of_nat (length raw)) by reflexivity.
  rewrite slice_ok by lia. cbn [idx].
  set (aq := firstn _ _).
  assert (Haq : length aq = (length raw - pe)%nat).
  { unfold aq. rewrite firstn_length, skipn_length. lia. }
  pose proof (skip_quoted_le aq) as Hsk.
  set (ie := (pe - 1 + 1 + skip_quoted aq)%nat) in *.
  assert (Hie : (pe <= ie <= length raw)%nat) by (unfold ie; lia).
  rewrite slice_ok by lia. cbn [idx].
  set (rest := firstn _ _).
  assert (Hrest : length rest = (length raw - ie)%nat).
  { unfold rest. rewrite firstn_length, skipn_length. lia. }
  destruct (o_split_from rest ie) as [[os oe]|] eqn:Eo; [|constructor].
  apply find_split_bounds in Eo. destruct Eo as [Eo0 [Eo1 Eo2]].
  rewrite slice_ok by lia. cbn [idx]. rewrite slice_ok by lia. cbn [idx]. rewrite slice_ok by lia. cbn [idx].
  match goal with |- context [parse_node ?x] =>
    pose proof (parse_node_good x) as Hn1; destruct (parse_node x) as [n| | |] end;
    inversion Hn1 as [n' Hwn|]; subst; [|constructor].
  match goal with |- context [parse_pred O ?x] =>
    pose proof (parse_pred_good x) as Hp1; destruct (parse_pred O x) as [p| | |] end;
    inversion Hp1 as [p' Hwp|]; subst; [|constructor].
  match goal with |- context [parse_object O ?x] =>
    pose proof (parse_object_good x) as Ho1; destruct (parse_object O x) as [o| | |] end;
    inversion Ho1 as [o' Hwo|]; subst; [|constructor].
  constructor. unfold wf_triple. cbn [subj tpred tobj]. rewrite Hwn, Hwp, Hwo. reflexivity.
Qed.

End WithOracles.
