(* The documented domain of the printed forms (boolean predicates used by the C05 theorems). Definitions only. *)
From Coq Require Import List NArith ZArith Bool.
From Coq.Strings Require Import Byte.
Import ListNotations.
From BWValues Require Import Bytes Values Codec Uuid Io.

(* node: what the constructors accept, and the type does not contain '<' (the printed form is type<id>) *)
Definition dom_node (n : node) : bool := wf_node n && negb (memb c_lt (ntype n)).

(* anchors: local time within years 0000..9999, zone offset a whole number of minutes, less than a day *)
Definition time_dom (t : time) : bool :=
  let local_s := (t_ns t / 1000000000 + t_off t)%Z in
  (-62167219200 <=? local_s)%Z && (local_s <? 253402300800)%Z
  && (t_off t mod 60 =? 0)%Z && (-86400 <? t_off t)%Z && (t_off t <? 86400)%Z.

(* the bytes Format(RFC3339Nano) can produce *)
Definition time_alphabet : str :=
  [x30; x31; x32; x33; x34; x35; x36; x37; x38; x39; x54; x3a; x2e; x5a; x2b; x2d].

Definition dom_pred (p : pred) : bool :=
  wf_pred p && match panchor p with None => true | Some t => time_dom t end.

Definition is_nan (b : N) : bool :=
  ((b / 4503599627370496) mod 2048 =? 2047)%N && negb (b mod 4503599627370496 =? 0)%N.

Definition dom_literal (l : literal) : bool :=
  wf_literal l && match l with LFloat b => (b <? 18446744073709551616)%N && negb (is_nan b) | _ => true end.

Definition dom_object (o : object) : bool :=
  match o with
  | ONode n => dom_node n
  | OPred p => dom_pred p
  | OLit l => dom_literal l
  | OInvalid => false
  end.

(* in a triple the subject type must not itself contain a match of the subject-split expression  > blanks double-quote
   (NewType rejects space, tab, newline and CR but not form feed, which is a blank of Go's regexp class s; so a type
   such as /a>[FF][dq]b is cut).  Every type without form feed, or without a greater-than sign, or without double quote satisfies this.
   After F4b the predicate id is unrestricted. *)
Definition type_split_free (ty : str) : bool :=
  match find_split x3e [x22] (ty ++ [x3c]) 0 with None => true | Some _ => false end.

Definition dom_triple (t : triple) : bool :=
  dom_node (subj t) && type_split_free (ntype (subj t)) && dom_pred (tpred t) && dom_object (tobj t).

(* anchors whose zone offset Format can print in a form Parse reads back: below 25 hours.  time.Parse accepts a zone hour up
   to 24 and a zone minute up to 60, so it can return +/-25:00 (from "+24:60"), which Format prints as "+25:00" and Parse
   then rejects *)
Definition off_printable (t : time) : bool := (-90000 <? t_off t)%Z && (t_off t <? 90000)%Z.
Definition anchor_printable (p : pred) : bool := match panchor p with Some t => off_printable t | None => true end.
Definition object_printable (o : object) : bool := match o with OPred p => anchor_printable p | _ => true end.
Definition triple_printable (t : triple) : bool := anchor_printable (tpred t) && object_printable (tobj t).

(* in the line-oriented graph format no component may contain a newline: node ids and text literals are the only
   components printed raw (types cannot contain one, predicate ids are quoted, numbers and blobs are digits) *)
Definition no_nl (s : str) : bool := negb (memb x0a s).
Definition line_safe_object (o : object) : bool :=
  match o with
  | ONode n => no_nl (nid n)
  | OLit (LText s) => no_nl s
  | _ => true
  end.
Definition dom_graph_triple (t : triple) : bool :=
  dom_triple t && no_nl (nid (subj t)) && line_safe_object (tobj t).
