(* Byte strings (Go strings are byte sequences) and the string primitives the value parsers use:
   slicing with Go's bounds discipline, strings.Index / LastIndex, strings.TrimSpace (full Unicode White_Space set,
   on the UTF-8 encoding), strings.Split on one byte, and the two regular expressions of triple.Parse.
   Definitions only. *)
From Coq Require Import List NArith ZArith Bool.
From Coq.Strings Require Import Byte.
Import ListNotations.

Definition str := list byte.

Fixpoint str_eqb (a b : str) : bool :=
  match a, b with
  | [], [] => true
  | x :: a', y :: b' => Byte.eqb x y && str_eqb a' b'
  | _, _ => false
  end.

Definition memb (c : byte) (l : list byte) : bool := existsb (Byte.eqb c) l.

(* Go: s[i:j] panics unless 0 <= i <= j <= len(s).  None = panic. *)
Definition zlen (s : str) : Z := Z.of_nat (length s).

Definition slice (s : str) (i j : Z) : option str :=
  if (0 <=? i)%Z && (i <=? j)%Z && (j <=? zlen s)%Z
  then Some (firstn (Z.to_nat (j - i)) (skipn (Z.to_nat i) s))
  else None.

(* Go: s[i] panics unless 0 <= i < len(s) *)
Definition at_index (s : str) (i : Z) : option byte :=
  if (0 <=? i)%Z && (i <? zlen s)%Z then nth_error s (Z.to_nat i) else None.

Fixpoint prefixb (p s : str) : bool :=
  match p, s with
  | [], _ => true
  | a :: p', b :: s' => Byte.eqb a b && prefixb p' s'
  | _ :: _, [] => false
  end.

(* strings.Index: first occurrence *)
Fixpoint index_from (p s : str) (i : nat) : option nat :=
  if prefixb p s then Some i
  else match s with
       | [] => None
       | _ :: s' => index_from p s' (S i)
       end.
Definition index (p s : str) : option nat := index_from p s 0.

(* strings.LastIndex: last occurrence *)
Fixpoint last_index_from (p s : str) (i : nat) : option nat :=
  match s with
  | [] => if prefixb p [] then Some i else None
  | _ :: s' =>
      match last_index_from p s' (S i) with
      | Some j => Some j
      | None => if prefixb p s then Some i else None
      end
  end.
Definition last_index (p s : str) : option nat := last_index_from p s 0.

(* ---- strings.TrimSpace: removes leading and trailing runes with unicode.IsSpace; on the UTF-8 bytes these are
   exactly the following byte sequences (Go's decoder accepts no other encoding of these code points). *)
Definition space_seqs : list str :=
  [ [x09]; [x0a]; [x0b]; [x0c]; [x0d]; [x20];
    [xc2; x85]; [xc2; xa0];
    [xe1; x9a; x80];
    [xe2; x80; x80]; [xe2; x80; x81]; [xe2; x80; x82]; [xe2; x80; x83]; [xe2; x80; x84]; [xe2; x80; x85];
    [xe2; x80; x86]; [xe2; x80; x87]; [xe2; x80; x88]; [xe2; x80; x89]; [xe2; x80; x8a];
    [xe2; x80; xa8]; [xe2; x80; xa9]; [xe2; x80; xaf];
    [xe2; x81; x9f];
    [xe3; x80; x80] ].

Fixpoint strip_one (seqs : list str) (s : str) : option str :=
  match seqs with
  | [] => None
  | q :: r => if prefixb q s then Some (skipn (length q) s) else strip_one r s
  end.

(* fuel = length of the string is always enough (each step removes at least one byte) *)
Fixpoint trim_left_fuel (seqs : list str) (fuel : nat) (s : str) : str :=
  match fuel with
  | O => s
  | S f => match strip_one seqs s with
           | Some s' => trim_left_fuel seqs f s'
           | None => s
           end
  end.
Definition trim_left (s : str) : str := trim_left_fuel space_seqs (length s) s.
Definition trim_right (s : str) : str :=
  rev (trim_left_fuel (map (@rev byte) space_seqs) (length s) (rev s)).
Definition trim_space (s : str) : str := trim_right (trim_left s).

(* ---- strings.Split(s, " ") for a one-byte separator: always at least one piece *)
Fixpoint split_on (sep : byte) (s : str) : list str :=
  match s with
  | [] => [[]]
  | c :: r =>
      if Byte.eqb c sep then [] :: split_on sep r
      else match split_on sep r with
           | p :: ps => (c :: p) :: ps
           | [] => [[c]]
           end
  end.

(* ---- regexp class \s of Go's RE2 syntax: [\t\n\f\r ] *)
Definition re_space (c : byte) : bool := memb c [x09; x0a; x0c; x0d; x20].

Fixpoint skip_ws (s : str) : nat * str :=
  match s with
  | c :: r => if re_space c then let (k, r') := skip_ws r in (S k, r') else (O, s)
  | [] => (O, [])
  end.

(* leftmost match of  opn \s+ [closers]  ; result = (start of match, end of match) like Regexp.FindIndex *)
Fixpoint find_split (opn : byte) (closers : list byte) (s : str) (i : nat) : option (nat * nat) :=
  match s with
  | [] => None
  | c :: r =>
      if Byte.eqb c opn then
        let (k, r') := skip_ws r in
        match k, r' with
        | S _, d :: _ => if memb d closers then Some (i, i + k + 2) else find_split opn closers r (S i)
        | _, _ => find_split opn closers r (S i)
        end
      else find_split opn closers r (S i)
  end.

(* pSplit = >\s+"   oSplit = (]\s+/)|(]\s+") *)
Definition p_split (s : str) : option (nat * nat) := find_split x3e [x22] s 0.
Definition o_split_from (s : str) (off : nat) : option (nat * nat) := find_split x5d [x2f; x22] s off.

(* triple.Parse skips the quoted predicate id: number of bytes before the first double quote that is not preceded by a
   backslash escape (the whole length when there is none; a trailing backslash "escapes" past the end, Go clamps) *)
Fixpoint skip_quoted (s : str) : nat :=
  match s with
  | [] => O
  | c :: r =>
      if Byte.eqb c x22 then O
      else if Byte.eqb c x5c then
        match r with
        | [] => 1
        | _ :: r' => S (S (skip_quoted r'))
        end
      else S (skip_quoted r)
  end.

(* a quoted-string body in which every double quote is escaped and no escape is left open at the end *)
Fixpoint escaped_ok (m : str) : bool :=
  match m with
  | [] => true
  | c :: r =>
      if Byte.eqb c x22 then false
      else if Byte.eqb c x5c then
        match r with
        | [] => false
        | _ :: r' => escaped_ok r'
        end
      else escaped_ok r
  end.

(* joining *)
Fixpoint join (sep : str) (l : list str) : str :=
  match l with
  | [] => []
  | [a] => a
  | a :: r => a ++ sep ++ join sep r
  end.

Definition last_byte (s : str) : option byte :=
  match rev s with c :: _ => Some c | [] => None end.

Fixpoint nlength (s : str) (acc : N) : N :=
  match s with [] => acc | _ :: r => nlength r (N.succ acc) end.
