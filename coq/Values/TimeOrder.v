(* The order law of the RFC3339Nano format: for one zone and one length of the fraction, the bytewise order of the printed
   forms is the order of the instants; across zones or fraction lengths it is not. *)
From Coq Require Import List NArith ZArith Bool Lia ZifyBool.
From Coq.Strings Require Import Byte.
Import ListNotations.
From BWValues Require Import Bytes BytesProofs Values Codec Uuid UuidProofs Io TimeCodec TimeCodecProofs.
Open Scope Z_scope.

(* ---------------------------------------------------------------- bytewise order and blocks of equal length *)
Lemma str_ltb_irrefl : forall a, str_ltb a a = false.
Proof.
  induction a as [|c a IH]; [reflexivity|]. cbn [str_ltb]. rewrite N.ltb_irrefl. exact IH.
Qed.

Lemma str_ltb_block : forall x y a b, length x = length y ->
  str_ltb (x ++ a) (y ++ b) = if str_eqb x y then str_ltb a b else str_ltb x y.
Proof.
  induction x as [|c x IH]; intros y a b Hl; destruct y as [|d y]; try discriminate; [reflexivity|].
  cbn [app str_ltb str_eqb]. cbn [length] in Hl.
  destruct (N.ltb_spec (Byte.to_N c) (Byte.to_N d)) as [L|L].
  - replace (Byte.eqb c d) with false; [reflexivity|]. symmetry. apply beqb_neq. intros E. subst. lia.
  - destruct (N.ltb_spec (Byte.to_N d) (Byte.to_N c)) as [L2|L2].
    + replace (Byte.eqb c d) with false; [reflexivity|]. symmetry. apply beqb_neq. intros E. subst. lia.
    + assert (E : c = d).
      { assert (X : Byte.to_N c = Byte.to_N d) by lia.
        pose proof (Byte.of_to_N c) as P1. pose proof (Byte.of_to_N d) as P2. rewrite X in P1. congruence. }
      subst d. rewrite beqb_refl. cbn [andb]. apply IH. lia.
Qed.

(* ---------------------------------------------------------------- digit blocks compare like numbers *)
Definition m10 (ks : list Z) : list Z := map (fun k => k mod 10) ks.

Fixpoint wok (ks : list Z) (w : Z) : Prop :=
  match ks with [] => True | _ :: r => 1 <= w /\ wok r (w / 10) end.

Lemma m10_range : forall ks, Forall (fun d => 0 <= d <= 9) (m10 ks).
Proof.
  induction ks as [|k ks IH]; constructor; [|exact IH]. pose proof (Z.mod_pos_bound k 10 ltac:(lia)). lia.
Qed.

Lemma frac_val_lt_w : forall ks w, 1 <= w -> 0 <= frac_val (m10 ks) (w / 10) < w.
Proof.
  intros ks w Hw. destruct (Z_lt_le_dec (w / 10) 1) as [X|X].
  - assert (w / 10 = 0) by (Z.div_mod_to_equations; lia). rewrite H, frac_val_zero_w. lia.
  - pose proof (frac_val_bound (m10 ks) (w / 10) (m10_range ks) X). assert (10 * (w / 10) <= w) by (Z.div_mod_to_equations; lia). lia.
Qed.

Lemma digit_ltb : forall u v, (Byte.to_N (digit u) <? Byte.to_N (digit v))%N = (u mod 10 <? v mod 10).
Proof.
  intros u v. rewrite !digit_to_N. pose proof (Z.mod_pos_bound u 10 ltac:(lia)). pose proof (Z.mod_pos_bound v 10 ltac:(lia)).
  destruct (Z.ltb_spec (u mod 10) (v mod 10)); [apply N.ltb_lt | apply N.ltb_ge]; lia.
Qed.

Lemma digit_block : forall ks js w a b, length ks = length js -> wok ks w ->
  str_ltb (map digit ks ++ a) (map digit js ++ b) =
  if frac_val (m10 ks) w =? frac_val (m10 js) w then str_ltb a b else frac_val (m10 ks) w <? frac_val (m10 js) w.
Proof.
  induction ks as [|k ks IH]; intros js w a b Hl Hw; destruct js as [|j js]; try discriminate.
  - cbn [map app m10 frac_val]. reflexivity.
  - cbn [length] in Hl. destruct Hw as [Hw1 Hw2]. cbn [map app str_ltb]. rewrite !digit_ltb.
    unfold m10 in *. cbn [map frac_val]. fold (m10 ks). fold (m10 js).
    pose proof (frac_val_lt_w ks w Hw1) as B1. pose proof (frac_val_lt_w js w Hw1) as B2.
    pose proof (Z.mod_pos_bound k 10 ltac:(lia)) as K. pose proof (Z.mod_pos_bound j 10 ltac:(lia)) as J.
    rewrite (IH js (w / 10) a b ltac:(lia) Hw2). fold (m10 ks). fold (m10 js).
    set (fk := frac_val (m10 ks) (w / 10)) in *. set (fj := frac_val (m10 js) (w / 10)) in *.
    set (dk := k mod 10) in *. set (dj := j mod 10) in *.
    destruct (Z.ltb_spec dk dj) as [L|L].
    + assert (dk * w + fk < dj * w + fj) by nia.
      destruct (Z.eqb_spec (dk * w + fk) (dj * w + fj)); [lia|]. symmetry. apply Z.ltb_lt. lia.
    + destruct (Z.ltb_spec dj dk) as [L2|L2].
      * assert (dj * w + fj < dk * w + fk) by nia.
        destruct (Z.eqb_spec (dk * w + fk) (dj * w + fj)); [lia|]. symmetry. apply Z.ltb_ge. lia.
      * assert (dk = dj) by lia. rewrite H.
        destruct (Z.eqb_spec fk fj) as [E|E].
        -- rewrite E. rewrite Z.eqb_refl. reflexivity.
        -- destruct (Z.eqb_spec (dj * w + fk) (dj * w + fj)); [lia|].
           destruct (Z.ltb_spec fk fj); symmetry; [apply Z.ltb_lt | apply Z.ltb_ge]; lia.
Qed.

(* ---------------------------------------------------------------- the fields as digit blocks *)
Lemma pad2_block : forall u v a b, 0 <= u < 100 -> 0 <= v < 100 ->
  str_ltb (pad2 u ++ a) (pad2 v ++ b) = if u =? v then str_ltb a b else u <? v.
Proof.
  intros u v a b Hu Hv. change (pad2 u) with (map digit [u / 10; u]). change (pad2 v) with (map digit [v / 10; v]).
  rewrite (digit_block [u / 10; u] [v / 10; v] 10 a b eq_refl) by (cbn; lia).
  assert (Eu : frac_val (m10 [u / 10; u]) 10 = u).
  { unfold m10. cbn [map frac_val]. change (10 / 10) with 1. Z.div_mod_to_equations. lia. }
  assert (Ev : frac_val (m10 [v / 10; v]) 10 = v).
  { unfold m10. cbn [map frac_val]. change (10 / 10) with 1. Z.div_mod_to_equations. lia. }
  rewrite Eu, Ev. reflexivity.
Qed.

Lemma pad4_block : forall u v a b, 0 <= u < 10000 -> 0 <= v < 10000 ->
  str_ltb (pad4 u ++ a) (pad4 v ++ b) = if u =? v then str_ltb a b else u <? v.
Proof.
  intros u v a b Hu Hv. change (pad4 u) with (map digit [u / 1000; u / 100; u / 10; u]).
  change (pad4 v) with (map digit [v / 1000; v / 100; v / 10; v]).
  rewrite (digit_block [u / 1000; u / 100; u / 10; u] [v / 1000; v / 100; v / 10; v] 1000 a b eq_refl) by (cbn; lia).
  assert (E : forall x, 0 <= x < 10000 -> frac_val (m10 [x / 1000; x / 100; x / 10; x]) 1000 = x).
  { intros x Hx. unfold m10. cbn [map frac_val]. change (1000 / 10) with 100. change (100 / 10) with 10. change (10 / 10) with 1.
    Z.div_mod_to_equations. lia. }
  rewrite (E u Hu), (E v Hv). reflexivity.
Qed.

Lemma sep_block : forall c a b, str_ltb ([c] ++ a) ([c] ++ b) = str_ltb a b.
Proof. intros c a b. rewrite str_ltb_block by reflexivity. rewrite str_eqb_refl. reflexivity. Qed.

(* fraction: '.' and the significant digits; equal lengths *)
Lemma dropz_length : forall l, (length (dropz l) <= length l)%nat.
Proof.
  induction l as [|k l IH]; [cbn; lia|]. cbn [dropz]. fold (dropz l). destruct (k mod 10 =? 0); cbn [length]; lia.
Qed.

Lemma trimz_length : forall l, (length (trimz l) <= length l)%nat.
Proof. intros l. unfold trimz. rewrite rev_length. pose proof (dropz_length (rev l)). rewrite rev_length in H. exact H. Qed.

Lemma wok_len9 : forall ks, (length ks <= 9)%nat -> wok ks 100000000.
Proof.
  intros ks H. do 10 (destruct ks as [|? ks]; [cbn; repeat split; try exact I; lia|]). cbn [length] in H. lia.
Qed.

Lemma frac_block : forall na nb a b, 0 <= na < 1000000000 -> 0 <= nb < 1000000000 ->
  length (fmt_frac na) = length (fmt_frac nb) ->
  str_ltb (fmt_frac na ++ a) (fmt_frac nb ++ b) = if na =? nb then str_ltb a b else na <? nb.
Proof.
  intros na nb a b Ha Hb Hl. unfold fmt_frac in *.
  destruct (Z.eqb_spec na 0) as [Za|Za]; destruct (Z.eqb_spec nb 0) as [Zb|Zb]; try discriminate.
  - subst. reflexivity.
  - rewrite !digits9_map, !trim_zeros_map in *. cbn [length] in Hl. rewrite !map_length in Hl.
    change ((x2e :: map digit (trimz (nine na))) ++ a) with ([x2e] ++ map digit (trimz (nine na)) ++ a).
    change ((x2e :: map digit (trimz (nine nb))) ++ b) with ([x2e] ++ map digit (trimz (nine nb)) ++ b).
    rewrite sep_block.
    rewrite (digit_block (trimz (nine na)) (trimz (nine nb)) 100000000 a b ltac:(lia)) by (apply wok_len9; pose proof (trimz_length (nine na)); cbn [nine length] in *; lia).
    unfold m10. rewrite !frac_val_trimz. rewrite (frac_val_nine na Ha), (frac_val_nine nb Hb). reflexivity.
Qed.

(* ---------------------------------------------------------------- the calendar is monotone *)
Lemma cum_step : forall lp a, 1 <= a <= 12 -> cum lp a + 28 <= cum lp (a + 1).
Proof.
  intros lp a H. assert (X : a = 1 \/ a = 2 \/ a = 3 \/ a = 4 \/ a = 5 \/ a = 6 \/ a = 7 \/ a = 8 \/ a = 9 \/ a = 10 \/ a = 11 \/ a = 12) by lia.
  destruct lp; repeat (destruct X as [X|X]; [subst a; cbn; lia|]); subst a; cbn; lia.
Qed.

Lemma cum_mono : forall lp a b, 1 <= a -> a <= b -> b <= 13 -> cum lp a <= cum lp b.
Proof.
  intros lp a b Ha Hab Hb. replace b with (a + (b - a)) by lia.
  assert (G : forall k, 0 <= k -> a + k <= 13 -> cum lp a <= cum lp (a + k)).
  { apply (natlike_ind (fun k => a + k <= 13 -> cum lp a <= cum lp (a + k))).
    - intros _. replace (a + 0) with a by lia. lia.
    - intros k Hk IH Hle. replace (a + Z.succ k) with ((a + k) + 1) by lia.
      pose proof (cum_step lp (a + k) ltac:(lia)). specialize (IH ltac:(lia)). lia. }
  apply G; lia.
Qed.

Lemma civil_order : forall n1 n2 y1 m1 d1 y2 m2 d2, 0 <= n1 -> 0 <= n2 ->
  civil_of_day n1 = (y1, m1, d1) -> civil_of_day n2 = (y2, m2, d2) ->
  (y1 < y2 -> n1 < n2) /\ (y1 = y2 -> m1 < m2 -> n1 < n2) /\ (y1 = y2 -> m1 = m2 -> n1 - n2 = d1 - d2).
Proof.
  intros n1 n2 y1 m1 d1 y2 m2 d2 H1 H2 E1 E2.
  destruct (civil_of_day_spec _ _ _ _ H1 E1) as [[Hy1 Hm1 Hd1] [D1 B1]].
  destruct (civil_of_day_spec _ _ _ _ H2 E2) as [[Hy2 Hm2 Hd2] [D2 B2]].
  unfold day_of_civil, days_in_month in *. repeat split.
  - intros L. pose proof (dby_mono (y1 + 1) y2 ltac:(lia) ltac:(lia)). lia.
  - intros Ey L. subst y2. pose proof (cum_mono (is_leap y1) (m1 + 1) m2 ltac:(lia) ltac:(lia) ltac:(lia)). lia.
  - intros Ey Em. subst y2 m2. lia.
Qed.

Lemma dim_le_31 : forall lp m, 1 <= m <= 12 -> days_in_month lp m <= 31.
Proof.
  intros lp m H. unfold days_in_month.
  assert (X : m = 1 \/ m = 2 \/ m = 3 \/ m = 4 \/ m = 5 \/ m = 6 \/ m = 7 \/ m = 8 \/ m = 9 \/ m = 10 \/ m = 11 \/ m = 12) by lia.
  destruct lp; repeat (destruct X as [X|X]; [subst m; cbn; lia|]); subst m; cbn; lia.
Qed.

(* ---------------------------------------------------------------- the order law *)
Definition frac_len (t : time) : nat := length (fmt_frac (t_ns t mod 1000000000)).

Theorem fmt_order_same_zone_same_precision : forall a b, ns_dom a -> ns_dom b ->
  t_off a = t_off b -> frac_len a = frac_len b ->
  str_ltb (fmt_rfc3339nano a) (fmt_rfc3339nano b) = (t_ns a <? t_ns b).
Proof.
  intros [nsa off] [nsb off'] Da Db Eo El. cbn [t_off] in Eo. subst off'. unfold frac_len in El. cbn [t_ns] in El.
  pose proof (civil_of_valid _ Da) as [Va _]. pose proof (civil_of_valid _ Db) as [Vb _].
  destruct Da as [Ra Za]. destruct Db as [Rb _]. cbn [t_ns t_off] in *.
  unfold fmt_rfc3339nano, civil_of in *. cbn [t_ns t_off] in *.
  set (lsa := nsa / 1000000000 + off) in *. set (lsb := nsb / 1000000000 + off) in *.
  assert (Hna : 0 <= lsa / 86400 + epoch_day) by (unfold epoch_day; Z.div_mod_to_equations; lia).
  assert (Hnb : 0 <= lsb / 86400 + epoch_day) by (unfold epoch_day; Z.div_mod_to_equations; lia).
  destruct (civil_of_day (lsa / 86400 + epoch_day)) as [[ya ma] da] eqn:Ca.
  destruct (civil_of_day (lsb / 86400 + epoch_day)) as [[yb mb] db] eqn:Cb.
  destruct (civil_order _ _ _ _ _ _ _ _ Hna Hnb Ca Cb) as [O1 [O2 O3]].
  destruct (civil_order _ _ _ _ _ _ _ _ Hnb Hna Cb Ca) as [P1 [P2 _]].
  destruct Va as [[Vya Vma Vda] Vy9a Vha Vmia Vsa Vnsa]. destruct Vb as [[Vyb Vmb Vdb] Vy9b Vhb Vmib Vsb Vnsb].
  cbn [c_year c_month c_day c_hour c_min c_sec c_nsec] in *.
  assert (Hda : da < 100 /\ db < 100).
  { pose proof (dim_le_31 (is_leap ya) ma Vma). pose proof (dim_le_31 (is_leap yb) mb Vmb). lia. }
  unfold fmt_civil. cbn [c_year c_month c_day c_hour c_min c_sec c_nsec].
  rewrite pad4_block by lia. rewrite sep_block. rewrite pad2_block by lia. rewrite sep_block.
  rewrite pad2_block by lia. rewrite sep_block. rewrite pad2_block by lia. rewrite sep_block.
  rewrite pad2_block by lia. rewrite sep_block. rewrite pad2_block by lia.
  rewrite frac_block by assumption. rewrite str_ltb_irrefl.
  set (soda := lsa mod 86400) in *. set (sodb := lsb mod 86400) in *.
  set (na := lsa / 86400 + epoch_day) in *. set (nb := lsb / 86400 + epoch_day) in *.
  assert (Fa : nsa = (lsa - off) * 1000000000 + nsa mod 1000000000) by (unfold lsa; Z.div_mod_to_equations; lia).
  assert (Fb : nsb = (lsb - off) * 1000000000 + nsb mod 1000000000) by (unfold lsb; Z.div_mod_to_equations; lia).
  assert (Ga : lsa = (na - epoch_day) * 86400 + soda /\ 0 <= soda < 86400) by (unfold na, soda; Z.div_mod_to_equations; lia).
  assert (Gb : lsb = (nb - epoch_day) * 86400 + sodb /\ 0 <= sodb < 86400) by (unfold nb, sodb; Z.div_mod_to_equations; lia).
  assert (Ha : soda = soda / 3600 * 3600 + soda / 60 mod 60 * 60 + soda mod 60) by (Z.div_mod_to_equations; lia).
  assert (Hb : sodb = sodb / 3600 * 3600 + sodb / 60 mod 60 * 60 + sodb mod 60) by (Z.div_mod_to_equations; lia).
  clearbody soda sodb na nb lsa lsb.
  set (ha := soda / 3600) in *. set (mia := soda / 60 mod 60) in *. set (sa := soda mod 60) in *.
  set (hb := sodb / 3600) in *. set (mib := sodb / 60 mod 60) in *. set (sb := sodb mod 60) in *.
  set (fa := nsa mod 1000000000) in *. set (fb := nsb mod 1000000000) in *.
  clearbody ha mia sa hb mib sb fa fb.
  destruct (Z.eqb_spec ya yb); [|destruct (Z.ltb_spec ya yb); destruct (Z.ltb_spec nsa nsb); try reflexivity; lia].
  destruct (Z.eqb_spec ma mb); [|destruct (Z.ltb_spec ma mb); destruct (Z.ltb_spec nsa nsb); try reflexivity; lia].
  destruct (Z.eqb_spec da db); [|destruct (Z.ltb_spec da db); destruct (Z.ltb_spec nsa nsb); try reflexivity; lia].
  destruct (Z.eqb_spec ha hb); [|destruct (Z.ltb_spec ha hb); destruct (Z.ltb_spec nsa nsb); try reflexivity; lia].
  destruct (Z.eqb_spec mia mib); [|destruct (Z.ltb_spec mia mib); destruct (Z.ltb_spec nsa nsb); try reflexivity; lia].
  destruct (Z.eqb_spec sa sb); [|destruct (Z.ltb_spec sa sb); destruct (Z.ltb_spec nsa nsb); try reflexivity; lia].
  destruct (Z.eqb_spec fa fb); [|destruct (Z.ltb_spec fa fb); destruct (Z.ltb_spec nsa nsb); try reflexivity; lia].
  destruct (Z.ltb_spec nsa nsb); [lia | reflexivity].
Qed.

(* ---------------------------------------------------------------- and where it fails *)
(* 2006-01-02T10:00:00+01:00 is the earlier instant but the larger text than 2006-01-02T09:30:00Z *)
Lemma fmt_order_zone_refuted : exists a b, ns_dom a /\ ns_dom b /\ frac_len a = frac_len b /\
  t_ns a < t_ns b /\ str_ltb (fmt_rfc3339nano a) (fmt_rfc3339nano b) = false.
Proof.
  exists (mkTime 1136192400000000000 3600), (mkTime 1136194200000000000 0).
  unfold ns_dom, zone_ok. cbn [t_ns t_off]. repeat split; try (vm_compute; congruence); try reflexivity; lia.
Qed.

(* 2006-01-02T15:04:05Z is the earlier instant but the larger text than 2006-01-02T15:04:05.5Z ('.' sorts before 'Z') *)
Lemma fmt_order_precision_refuted : exists a b, ns_dom a /\ ns_dom b /\ t_off a = t_off b /\
  t_ns a < t_ns b /\ str_ltb (fmt_rfc3339nano a) (fmt_rfc3339nano b) = false.
Proof.
  exists (mkTime 1136214245000000000 0), (mkTime 1136214245500000000 0).
  unfold ns_dom, zone_ok. cbn [t_ns t_off]. repeat split; try (vm_compute; congruence); try reflexivity; lia.
Qed.

(* equal texts, equal instants (one zone, one precision) *)
Corollary fmt_order_total : forall a b, ns_dom a -> ns_dom b -> t_off a = t_off b -> frac_len a = frac_len b ->
  (t_ns a < t_ns b <-> str_ltb (fmt_rfc3339nano a) (fmt_rfc3339nano b) = true) /\
  (t_ns a = t_ns b <-> fmt_rfc3339nano a = fmt_rfc3339nano b).
Proof.
  intros a b Da Db Eo El. split.
  - rewrite (fmt_order_same_zone_same_precision a b Da Db Eo El). symmetry. apply Z.ltb_lt.
  - split.
    + intros E. destruct a as [na oa], b as [nb ob]. cbn [t_ns t_off] in *. subst. reflexivity.
    + intros E. rewrite (fmt_injective a b Da Db E). reflexivity.
Qed.
