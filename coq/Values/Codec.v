(* String() and Parse() of node, predicate, literal, object, triple — following the Go code index by index.
   Every index / slice expression of the Go code that can be out of range is an explicit Panic outcome.
   Library functions are oracles (record [oracles]); strconv.ParseBool/ParseInt/ParseUint/FormatInt and %v of []byte
   are Gallina definitions.  Definitions only.

   Tracks /repo at: F1 (node.Parse guards), F2 (predicate.Parse guards, last anchor marker), F3 (literal.Parse unknown type,
   blob bounds, last type marker), F4 (triple.Parse object split) — see findings/C15.txt for the commits. *)
From Coq Require Import List NArith ZArith Bool String Decimal DecimalZ DecimalN.
From Coq.Strings Require Import Byte.
Import ListNotations.
From BWValues Require Import Bytes Values.

Inductive site :=
| S_node_raw0 | S_node_type | S_node_last | S_node_id | S_node_blank
| S_pred_id | S_pred_ta | S_pred_ta0 | S_pred_talast
| S_lit_v | S_lit_t | S_lit_blob
| S_triple_ss | S_triple_sp | S_triple_so
| S_io_invalid_object
| S_uuid_varint.

(* result of a Go parser: value, error, panic, or "nil value and nil error" *)
Inductive outcome (A : Type) :=
| Ok (a : A)
| Err
| Panic (s : site)
| NilNil.
Arguments Ok {A} a.
Arguments Err {A}.
Arguments Panic {A} s.
Arguments NilNil {A}.

(* evaluate an index/slice expression; out of range = panic at that site *)
Definition idx {A B : Type} (s : site) (o : option A) (k : A -> outcome B) : outcome B :=
  match o with Some a => k a | None => Panic s end.

(* ---- external library behaviour *)
Record oracles := mkOracles {
  o_unquote : str -> option str;        (* strconv.Unquote *)
  o_quote : str -> str;                 (* strconv.Quote = fmt %q *)
  o_parse_time : str -> option time;    (* time.Parse(time.RFC3339Nano, .) *)
  o_fmt_time : time -> str;             (* Time.Format(time.RFC3339Nano) *)
  o_parse_float : str -> option N;      (* strconv.ParseFloat(., 64), result as bits *)
  o_fmt_float : N -> str                (* fmt %v of a float64 *)
}.

(* ---- constants *)
Definition c_slash : byte := x2f.
Definition c_under : byte := x5f.
Definition c_lt : byte := x3c.
Definition c_gt : byte := x3e.
Definition c_quote : byte := x22.
Definition c_tab : byte := x09.
Definition c_space : byte := x20.
Definition s_lt : str := [x3c].
Definition s_anchor : str := Eval compute in lit """@[".
Definition s_typem : str := Eval compute in lit """^^type:".
Definition s_blank_type : str := Eval compute in lit "/_".
Definition s_bool : str := Eval compute in lit "bool".
Definition s_int64 : str := Eval compute in lit "int64".
Definition s_float64 : str := Eval compute in lit "float64".
Definition s_text : str := Eval compute in lit "text".
Definition s_blob : str := Eval compute in lit "blob".
Definition s_true : str := Eval compute in lit "true".
Definition s_false : str := Eval compute in lit "false".
Definition s_invalid : str := Eval compute in lit "@@@INVALID_OBJECT@@@".
Definition s_immutable : str := Eval compute in lit "immutable".

(* ---- decimal digits (strconv) through the standard library's Decimal *)
Fixpoint uint_to_bytes (d : uint) : str :=
  match d with
  | Nil => []
  | D0 r => x30 :: uint_to_bytes r | D1 r => x31 :: uint_to_bytes r | D2 r => x32 :: uint_to_bytes r
  | D3 r => x33 :: uint_to_bytes r | D4 r => x34 :: uint_to_bytes r | D5 r => x35 :: uint_to_bytes r
  | D6 r => x36 :: uint_to_bytes r | D7 r => x37 :: uint_to_bytes r | D8 r => x38 :: uint_to_bytes r
  | D9 r => x39 :: uint_to_bytes r
  end.

Fixpoint bytes_to_uint (s : str) : option uint :=
  match s with
  | [] => Some Nil
  | c :: r =>
      match bytes_to_uint r with
      | None => None
      | Some d =>
          match c with
          | x30 => Some (D0 d) | x31 => Some (D1 d) | x32 => Some (D2 d) | x33 => Some (D3 d) | x34 => Some (D4 d)
          | x35 => Some (D5 d) | x36 => Some (D6 d) | x37 => Some (D7 d) | x38 => Some (D8 d) | x39 => Some (D9 d)
          | _ => None
          end
      end
  end.

(* strconv.FormatInt(z, 10) — what %v prints for an int64 *)
Definition fmt_int (z : Z) : str :=
  match Z.to_int z with
  | Pos d => uint_to_bytes d
  | Neg d => x2d :: uint_to_bytes d
  end.

(* strconv.ParseInt(s, 10, 64): optional sign, at least one digit, only digits, value in range *)
Definition parse_digits (neg : bool) (ds : str) : option Z :=
  match ds with
  | [] => None
  | _ => match bytes_to_uint ds with
         | None => None
         | Some d => let z := if neg then Z.of_int (Neg d) else Z.of_int (Pos d) in
                     if in_int64 z then Some z else None
         end
  end.

Definition parse_int64 (s : str) : option Z :=
  match s with
  | x2b :: r => parse_digits false r
  | x2d :: r => parse_digits true r
  | _ => parse_digits false s
  end.

(* strconv.ParseUint(s, 10, 8) *)
Definition parse_uint8 (s : str) : option byte :=
  match s with
  | [] => None
  | _ => match bytes_to_uint s with
         | None => None
         | Some d => Byte.of_N (N.of_uint d)
         end
  end.

Definition fmt_uint8 (b : byte) : str := uint_to_bytes (N.to_uint (Byte.to_N b)).

(* strconv.ParseBool *)
Definition parse_bool (s : str) : option bool :=
  if existsb (str_eqb s) [lit "1"; lit "t"; lit "T"; lit "TRUE"; lit "true"; lit "True"] then Some true
  else if existsb (str_eqb s) [lit "0"; lit "f"; lit "F"; lit "FALSE"; lit "false"; lit "False"] then Some false
  else None.

(* ---- printers *)
Section WithOracles.
Variable O : oracles.

Definition print_node (n : node) : str := ntype n ++ [c_lt] ++ nid n ++ [c_gt].

(* F24: an anchor whose zone offset has seconds is printed in UTC (RFC3339 has no seconds in the offset) *)
Definition norm_anchor (t : time) : time := if (t_off t mod 60 =? 0)%Z then t else mkTime (t_ns t) 0.

Definition print_pred (p : pred) : str :=
  o_quote O (pid p) ++ [x40; x5b] ++
  match panchor p with None => [] | Some t => o_fmt_time O (norm_anchor t) end ++ [x5d].

Definition print_lit_value (l : literal) : str :=
  match l with
  | LBool true => s_true
  | LBool false => s_false
  | LInt z => fmt_int z
  | LFloat b => o_fmt_float O b
  | LText s => s
  | LBlob b => [x5b] ++ join [c_space] (map fmt_uint8 b) ++ [x5d]
  end.

Definition lit_type_name (l : literal) : str :=
  match l with
  | LBool _ => s_bool | LInt _ => s_int64 | LFloat _ => s_float64 | LText _ => s_text | LBlob _ => s_blob
  end.

Definition print_literal (l : literal) : str :=
  [c_quote] ++ print_lit_value l ++ s_typem ++ lit_type_name l.

Definition print_object (o : object) : str :=
  match o with
  | ONode n => print_node n
  | OLit l => print_literal l
  | OPred p => print_pred p
  | OInvalid => s_invalid
  end.

Definition print_triple (t : triple) : str :=
  print_node (subj t) ++ [c_tab] ++ print_pred (tpred t) ++ [c_tab] ++ print_object (tobj t).

(* ---- parsers *)
Definition new_type (t : str) : option str := if type_ok t then Some t else None.
Definition new_id (i : str) : option str := if id_ok i then Some i else None.

(* node.Parse *)
Definition parse_node (s : str) : outcome node :=
  let raw := trim_space s in
  let n := zlen raw in
  match raw with
  | [] => Err                                   (* F1: empty input *)
  | _ =>
  idx S_node_raw0 (at_index raw 0) (fun c =>
  if Byte.eqb c c_slash then
    match index s_lt raw with
    | None => Err
    | Some i =>
        idx S_node_type (slice raw 0 (Z.of_nat i)) (fun ts =>
        match new_type ts with
        | None => Err
        | Some t =>
            idx S_node_last (at_index raw (n - 1)) (fun l =>
            if negb (Byte.eqb l c_gt) then Err
            else idx S_node_id (slice raw (Z.of_nat i + 1) (n - 1)) (fun ids =>
                 match new_id ids with
                 | None => Err
                 | Some id => Ok (mkNode t id)
                 end))
        end)
    end
  else if Byte.eqb c c_under then
    if (n <? 2)%Z then Err                      (* F1: lone underscore *)
    else
    idx S_node_blank (slice raw 2 n) (fun ids =>
    match new_id ids with
    | None => Err
    | Some id => Ok (mkNode s_blank_type id)
    end)
  else Err)
  end.

(* predicate.Parse *)
Definition parse_pred (s : str) : outcome pred :=
  let raw := trim_space s in
  let n := zlen raw in
  match raw with
  | [] => Err
  | c :: _ =>
      if negb (Byte.eqb c c_quote) then Err
      else match last_index s_anchor raw with       (* F2: strings.LastIndex *)
           | None => Err
           | Some i =>
               if (n <? Z.of_nat i + 4)%Z then Err  (* F2: no room for the closing bracket *)
               else
               idx S_pred_id (slice raw 0 (Z.of_nat i + 1)) (fun idq =>
               idx S_pred_ta (slice raw (Z.of_nat i + 3) (n - 1)) (fun ta =>
               match o_unquote O idq with
               | None => Err
               | Some [] => Err                      (* F2b: empty ID *)
               | Some id =>
                   match ta with
                   | [] => Ok (mkPred id None)
                   | _ =>
                       idx S_pred_ta0 (at_index ta 0) (fun c0 =>
                       let ta1 := if Byte.eqb c0 c_quote then skipn 1 ta else ta in
                       let k := fun ta2 => match o_parse_time O ta2 with
                                           | None => Err
                                           | Some t => Ok (mkPred id (Some t))
                                           end in
                       match ta1 with
                       | [] => k ta1                  (* F2: len(ta) > 0 && ... *)
                       | _ =>
                           idx S_pred_talast (at_index ta1 (zlen ta1 - 1)) (fun cl =>
                           k (if Byte.eqb cl c_quote then firstn (List.length ta1 - 1) ta1 else ta1))
                       end)
                   end
               end))
           end
  end.

Fixpoint parse_blob_items (ps : list str) : option str :=
  match ps with
  | [] => Some []
  | p :: r => match parse_uint8 p with
              | None => None
              | Some b => match parse_blob_items r with
                          | None => None
                          | Some bs => Some (b :: bs)
                          end
              end
  end.

(* len(v) < 2 || v[0] != '[' || v[len(v)-1] != ']' *)
Definition blob_unbracketed (v : str) : bool :=
  (zlen v <? 2)%Z
  || match v with c :: _ => negb (Byte.eqb c x5b) | [] => true end
  || match last_byte v with Some c => negb (Byte.eqb c x5d) | None => true end.

(* literal.DefaultBuilder().Parse *)
Definition parse_literal (s : str) : outcome literal :=
  let raw := trim_space s in
  let n := zlen raw in
  match raw with
  | [] => Err
  | c :: _ =>
      if negb (Byte.eqb c c_quote) then Err
      else match last_index s_typem raw with        (* F3: strings.LastIndex *)
           | None => Err
           | Some 0%nat => Err                       (* F3: idx < 1 *)
           | Some i =>
               idx S_lit_v (slice raw 1 (Z.of_nat i)) (fun v =>
               idx S_lit_t (slice raw (Z.of_nat i + 8) n) (fun t =>
               if str_eqb t s_bool then
                 match parse_bool v with Some b => Ok (LBool b) | None => Err end
               else if str_eqb t s_int64 then
                 match parse_int64 v with Some z => Ok (LInt z) | None => Err end
               else if str_eqb t s_float64 then
                 match o_parse_float O v with Some b => Ok (LFloat b) | None => Err end
               else if str_eqb t s_text then Ok (LText v)
               else if str_eqb t s_blob then
                 if blob_unbracketed v then Err      (* F3: length and brackets *)
                 else
                 idx S_lit_blob (slice v 1 (zlen v - 1)) (fun values =>
                 match values with
                 | [] => Ok (LBlob [])
                 | _ => match parse_blob_items (split_on c_space values) with
                        | Some bs => Ok (LBlob bs)
                        | None => Err
                        end
                 end)
               else Err))                            (* F3: unknown type *)
           end
  end.

(* literal.NewBoundedBuilder(max).Parse: the default parser, then a size check of text and blob values
   (the Go code dereferences the literal: a nil literal with a nil error would panic) *)
Definition parse_literal_bounded (max : nat) (s : str) : outcome literal :=
  match parse_literal s with
  | Ok l =>
      match l with
      | LText t => if Nat.ltb max (List.length t) then Err else Ok l
      | LBlob b => if Nat.ltb max (List.length b) then Err else Ok l
      | _ => Ok l
      end
  | Err => Err
  | Panic p => Panic p
  | NilNil => Panic S_lit_t
  end.

(* triple.ParseObject: node, then literal, then predicate; a nil error is taken as success *)
Definition parse_object (s : str) : outcome object :=
  match parse_node s with
  | Ok n => Ok (ONode n)
  | Panic p => Panic p
  | _ =>
      match parse_literal s with
      | Ok l => Ok (OLit l)
      | NilNil => Ok OInvalid
      | Panic p => Panic p
      | Err =>
          match parse_pred s with
          | Ok p => Ok (OPred p)
          | Panic p => Panic p
          | _ => Err
          end
      end
  end.

(* triple.Parse *)
Definition parse_triple (line : str) : outcome triple :=
  let raw := trim_space line in
  let n := zlen raw in
  match p_split raw with
  | None => Err
  | Some (ps, pe) =>
  (* F4/F4b: the object split is searched after the quoted predicate id (backslash escapes honoured) *)
  let pstart := (pe - 1)%nat in
  idx S_triple_sp (slice raw (Z.of_nat pstart + 1) n) (fun after_quote =>
  let id_end := (pstart + 1 + skip_quoted after_quote)%nat in
  idx S_triple_sp (slice raw (Z.of_nat id_end) n) (fun rest =>
  match o_split_from rest id_end with
  | None => Err
  | Some (os, oe) =>
      idx S_triple_ss (slice raw 0 (Z.of_nat ps + 1)) (fun ss =>
      idx S_triple_sp (slice raw (Z.of_nat pe - 1) (Z.of_nat os + 1)) (fun sp =>
      idx S_triple_so (slice raw (Z.of_nat oe - 1) n) (fun so =>
      match parse_node ss with
      | Ok sn =>
          match parse_pred sp with
          | Ok pp =>
              match parse_object so with
              | Ok oo => Ok (mkTriple sn pp oo)
              | Panic p => Panic p
              | _ => Err
              end
          | Panic p => Panic p
          | _ => Err
          end
      | Panic p => Panic p
      | _ => Err
      end)))
  end))
  end.

End WithOracles.
