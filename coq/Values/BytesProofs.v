(* Lemmas about the byte-string primitives of Bytes.v. *)
From Coq Require Import List NArith ZArith Bool Lia ZifyBool ZifyNat ZifyN.
From Coq.Strings Require Import Byte.
Import ListNotations.
From BWValues Require Import Bytes.

Lemma beqb_refl : forall c, Byte.eqb c c = true.
Proof. intros c. apply byte_dec_lb. reflexivity. Qed.

Lemma beqb_eq : forall a b, Byte.eqb a b = true <-> a = b.
Proof. intros a b. split; [apply byte_dec_bl | apply byte_dec_lb]. Qed.

Lemma beqb_neq : forall a b, Byte.eqb a b = false <-> a <> b.
Proof.
  intros a b. split.
  - apply eqb_false.
  - intros H. destruct (Byte.eqb a b) eqn:E; [|reflexivity]. apply beqb_eq in E. contradiction.
Qed.

Lemma str_eqb_eq : forall a b, str_eqb a b = true <-> a = b.
Proof.
  induction a as [|x a IH]; intros [|y b]; cbn; split; intros H; try congruence; try discriminate.
  - apply andb_true_iff in H. destruct H as [H1 H2]. apply beqb_eq in H1. apply IH in H2. congruence.
  - inversion H. subst. rewrite beqb_refl. cbn. apply IH. reflexivity.
Qed.

Lemma str_eqb_refl : forall a, str_eqb a a = true.
Proof. intros a. apply str_eqb_eq. reflexivity. Qed.

Lemma str_eqb_false : forall a b, str_eqb a b = false <-> a <> b.
Proof.
  intros a b. split.
  - intros H E. subst. rewrite str_eqb_refl in H. discriminate.
  - intros H. destruct (str_eqb a b) eqn:E; [|reflexivity]. apply str_eqb_eq in E. contradiction.
Qed.

Lemma memb_In : forall c l, memb c l = true <-> In c l.
Proof.
  intros c l. unfold memb. rewrite existsb_exists. split.
  - intros [x [Hin He]]. apply beqb_eq in He. subst. exact Hin.
  - intros H. exists c. split; [exact H | apply beqb_refl].
Qed.

Lemma memb_false : forall c l, memb c l = false <-> ~ In c l.
Proof.
  intros c l. split.
  - intros H Hin. apply memb_In in Hin. congruence.
  - intros H. destruct (memb c l) eqn:E; [|reflexivity]. apply memb_In in E. contradiction.
Qed.

(* ---- slicing *)
Lemma zlen_nonneg : forall s, (0 <= zlen s)%Z.
Proof. intros. unfold zlen. lia. Qed.

Lemma zlen_app : forall a b, zlen (a ++ b) = (zlen a + zlen b)%Z.
Proof. intros. unfold zlen. rewrite app_length. lia. Qed.

Lemma zlen_cons : forall c s, zlen (c :: s) = (1 + zlen s)%Z.
Proof. intros. unfold zlen. cbn [length]. lia. Qed.

Lemma slice_ok : forall s i j, (0 <= i)%Z -> (i <= j)%Z -> (j <= zlen s)%Z ->
  slice s i j = Some (firstn (Z.to_nat (j - i)) (skipn (Z.to_nat i) s)).
Proof.
  intros s i j H1 H2 H3. unfold slice.
  destruct (0 <=? i)%Z eqn:E1; [|lia]. destruct (i <=? j)%Z eqn:E2; [|lia].
  destruct (j <=? zlen s)%Z eqn:E3; [|lia]. reflexivity.
Qed.

Lemma slice_some : forall s i j r, slice s i j = Some r ->
  (0 <= i)%Z /\ (i <= j)%Z /\ (j <= zlen s)%Z /\ r = firstn (Z.to_nat (j - i)) (skipn (Z.to_nat i) s).
Proof.
  intros s i j r. unfold slice.
  destruct (0 <=? i)%Z eqn:E1; [|discriminate]. destruct (i <=? j)%Z eqn:E2; [|discriminate].
  destruct (j <=? zlen s)%Z eqn:E3; [|discriminate]. cbn. intros H. inversion H. repeat split; lia.
Qed.

Lemma slice_length : forall s i j r, slice s i j = Some r -> zlen r = (j - i)%Z.
Proof.
  intros s i j r H. apply slice_some in H. destruct H as [H1 [H2 [H3 Hr]]]. subst r.
  unfold zlen in *. rewrite firstn_length, skipn_length. lia.
Qed.

Lemma slice_app_mid : forall a b c, slice (a ++ b ++ c) (zlen a) (zlen a + zlen b) = Some b.
Proof.
  intros a b c. rewrite slice_ok.
  - f_equal. unfold zlen. replace (Z.to_nat (Z.of_nat (length a) + Z.of_nat (length b) - Z.of_nat (length a))) with (length b) by lia.
    rewrite Nat2Z.id. rewrite skipn_app, skipn_all, Nat.sub_diag. cbn [skipn app].
    rewrite firstn_app, firstn_all, Nat.sub_diag. cbn. apply app_nil_r.
  - apply zlen_nonneg.
  - pose proof (zlen_nonneg b). lia.
  - rewrite !zlen_app. pose proof (zlen_nonneg c). lia.
Qed.

Lemma slice_prefix : forall a c, slice (a ++ c) 0 (zlen a) = Some a.
Proof. intros a c. exact (slice_app_mid [] a c). Qed.

Lemma slice_suffix : forall a b, slice (a ++ b) (zlen a) (zlen (a ++ b)) = Some b.
Proof.
  intros a b. pose proof (slice_app_mid a b []) as H. rewrite app_nil_r in H.
  rewrite zlen_app. exact H.
Qed.

Lemma at_index_ok : forall s i, (0 <= i)%Z -> (i < zlen s)%Z -> exists c, at_index s i = Some c.
Proof.
  intros s i H1 H2. unfold at_index.
  destruct (0 <=? i)%Z eqn:E1; [|lia]. destruct (i <? zlen s)%Z eqn:E2; [|lia]. cbn.
  destruct (nth_error s (Z.to_nat i)) eqn:E; [eauto|].
  apply nth_error_None in E. unfold zlen in H2. lia.
Qed.

Lemma at_index_some : forall s i c, at_index s i = Some c ->
  (0 <= i)%Z /\ (i < zlen s)%Z /\ nth_error s (Z.to_nat i) = Some c.
Proof.
  intros s i c. unfold at_index.
  destruct (0 <=? i)%Z eqn:E1; [|discriminate]. destruct (i <? zlen s)%Z eqn:E2; [|discriminate]. cbn.
  intros H. repeat split; try lia. exact H.
Qed.

Lemma at_index_app_mid : forall a c b, at_index (a ++ c :: b) (zlen a) = Some c.
Proof.
  intros a c b. unfold at_index.
  destruct (0 <=? zlen a)%Z eqn:E1; [|pose proof (zlen_nonneg a); lia].
  destruct (zlen a <? zlen (a ++ c :: b))%Z eqn:E2.
  - cbn. unfold zlen. rewrite Nat2Z.id. rewrite nth_error_app2 by lia. rewrite Nat.sub_diag. reflexivity.
  - rewrite zlen_app, zlen_cons in E2. pose proof (zlen_nonneg b). lia.
Qed.

Lemma at_index_0 : forall c s, at_index (c :: s) 0 = Some c.
Proof. intros. exact (at_index_app_mid [] c s). Qed.

(* ---- prefixb / index *)
Lemma prefixb_spec : forall p s, prefixb p s = true <-> exists r, s = p ++ r.
Proof.
  induction p as [|a p IH]; intros s; cbn.
  - split; [eauto|reflexivity].
  - destruct s as [|b s].
    + split; [discriminate|]. intros [r H]. discriminate.
    + rewrite andb_true_iff, beqb_eq, IH. split.
      * intros [E [r Hr]]. subst. eauto.
      * intros [r Hr]. inversion Hr. subst. eauto.
Qed.

Lemma prefixb_app : forall p r, prefixb p (p ++ r) = true.
Proof. intros. apply prefixb_spec. eauto. Qed.

Lemma index_from_spec : forall p s k i, index_from p s k = Some i ->
  exists a b, s = a ++ p ++ b /\ i = (k + length a)%nat.
Proof.
  intros p s. induction s as [|c s IH]; intros k i; cbn [index_from].
  - destruct (prefixb p []) eqn:E; [|discriminate]. intros H. inversion H. subst.
    apply prefixb_spec in E. destruct E as [r Hr]. exists [], r. split; [exact Hr | cbn; lia].
  - destruct (prefixb p (c :: s)) eqn:E.
    + intros H. inversion H. subst. apply prefixb_spec in E. destruct E as [r Hr].
      exists [], r. split; [exact Hr | cbn; lia].
    + intros H. apply IH in H. destruct H as [a [b [Hs Hi]]]. exists (c :: a), b. split.
      * cbn. rewrite Hs. reflexivity.
      * cbn. lia.
Qed.

Lemma index_spec : forall p s i, index p s = Some i -> exists a b, s = a ++ p ++ b /\ i = length a.
Proof. intros p s i H. apply index_from_spec in H. exact H. Qed.

Lemma last_index_from_spec : forall p s k i, last_index_from p s k = Some i ->
  exists a b, s = a ++ p ++ b /\ i = (k + length a)%nat.
Proof.
  intros p s. induction s as [|c s IH]; intros k i; cbn [last_index_from].
  - destruct (prefixb p []) eqn:E; [|discriminate]. intros H. inversion H. subst.
    apply prefixb_spec in E. destruct E as [r Hr]. exists [], r. split; [exact Hr | cbn; lia].
  - destruct (last_index_from p s (S k)) as [j|] eqn:El.
    + intros H. inversion H. subst. apply IH in El. destruct El as [a [b [Hs Hi]]].
      exists (c :: a), b. split; [cbn; rewrite Hs; reflexivity | cbn; lia].
    + destruct (prefixb p (c :: s)) eqn:E; [|discriminate]. intros H. inversion H. subst.
      apply prefixb_spec in E. destruct E as [r Hr]. exists [], r. split; [exact Hr | cbn; lia].
Qed.

Lemma last_index_spec : forall p s i, last_index p s = Some i -> exists a b, s = a ++ p ++ b /\ i = length a.
Proof. intros p s i H. apply last_index_from_spec in H. exact H. Qed.

(* no occurrence of p starts strictly inside s when the first byte of p does not occur there *)
Lemma last_index_from_none : forall c p s k, ~ In c s -> last_index_from (c :: p) s k = None.
Proof.
  intros c p s. induction s as [|d s IH]; intros k Hn; cbn [last_index_from].
  - reflexivity.
  - rewrite IH by (intros H; apply Hn; right; exact H).
    cbn [prefixb]. destruct (Byte.eqb c d) eqn:E; [|reflexivity].
    apply beqb_eq in E. subst. exfalso. apply Hn. left. reflexivity.
Qed.

(* the last occurrence of c::p in a ++ (c::p) ++ b, when c does not occur in p ++ b *)
Lemma last_index_from_unique : forall c p a b k, ~ In c (p ++ b) ->
  last_index_from (c :: p) (a ++ c :: p ++ b) k = Some (k + length a)%nat.
Proof.
  intros c p a. induction a as [|d a IH]; intros b k Hn.
  - cbn [app length last_index_from]. rewrite last_index_from_none by exact Hn.
    replace (prefixb (c :: p) (c :: p ++ b)) with true.
    + f_equal. lia.
    + symmetry. exact (prefixb_app (c :: p) b).
  - cbn [app length last_index_from]. rewrite IH by exact Hn. f_equal. lia.
Qed.

Lemma last_index_unique : forall c p a b, ~ In c (p ++ b) ->
  last_index (c :: p) (a ++ c :: p ++ b) = Some (length a).
Proof. intros. unfold last_index. rewrite last_index_from_unique by assumption. reflexivity. Qed.

Lemma index_from_first : forall c s k, index_from [c] s k = None -> ~ In c s.
Proof.
  intros c s. induction s as [|d s IH]; intros k; cbn [index_from prefixb].
  - intros _ H. destruct H.
  - destruct (Byte.eqb c d) eqn:E; cbn; [discriminate|]. intros H [Hd|Hin].
    + subst. rewrite beqb_refl in E. discriminate.
    + exact (IH _ H Hin).
Qed.

(* first occurrence of a single byte *)
Lemma index_from_single : forall c a b k, ~ In c a -> index_from [c] (a ++ c :: b) k = Some (k + length a)%nat.
Proof.
  intros c a. induction a as [|d a IH]; intros b k Hn.
  - cbn. rewrite beqb_refl. cbn. f_equal. lia.
  - cbn [app index_from prefixb length]. destruct (Byte.eqb c d) eqn:E.
    + apply beqb_eq in E. subst. exfalso. apply Hn. left. reflexivity.
    + cbn. rewrite IH by (intros H; apply Hn; right; exact H). f_equal. lia.
Qed.

Lemma index_single : forall c a b, ~ In c a -> index [c] (a ++ c :: b) = Some (length a).
Proof. intros. unfold index. rewrite index_from_single by assumption. reflexivity. Qed.

(* ---- skip_ws / find_split *)
Lemma skip_ws_spec : forall s k r, skip_ws s = (k, r) -> length s = (k + length r)%nat /\ r = skipn k s.
Proof.
  induction s as [|c s IH]; intros k r; cbn [skip_ws].
  - intros H. inversion H. subst. split; reflexivity.
  - destruct (re_space c).
    + destruct (skip_ws s) as [k' r'] eqn:E. intros H. inversion H. subst.
      destruct (IH _ _ eq_refl) as [H1 H2]. split; [cbn; lia | cbn; exact H2].
    + intros H. inversion H. subst. split; reflexivity.
Qed.

Lemma find_split_bounds : forall opn cl s i a b, find_split opn cl s i = Some (a, b) ->
  (i <= a /\ a + 3 <= b /\ b <= i + length s)%nat.
Proof.
  intros opn cl s. induction s as [|c s IH]; intros i a b; cbn [find_split].
  - discriminate.
  - assert (Hrec : find_split opn cl s (S i) = Some (a, b) -> (i <= a /\ a + 3 <= b /\ b <= i + length (c :: s))%nat).
    { intros H. apply IH in H. cbn [length]. lia. }
    destruct (Byte.eqb c opn); [|exact Hrec].
    destruct (skip_ws s) as [k r'] eqn:E. apply skip_ws_spec in E. destruct E as [E1 E2].
    destruct k as [|k]; [exact Hrec|]. destruct r' as [|d r']; [exact Hrec|].
    destruct (memb d cl); [|exact Hrec].
    intros H. inversion H. subst a b. cbn [length] in *. lia.
Qed.

(* strings.Index of one byte: nothing before the first occurrence *)
Lemma index_from_single_spec : forall c s k i, index_from [c] s k = Some i ->
  exists a b, s = a ++ c :: b /\ i = (k + length a)%nat /\ ~ In c a.
Proof.
  intros c s. induction s as [|d s IH]; intros k i; cbn [index_from prefixb].
  - discriminate.
  - destruct (Byte.eqb c d) eqn:E; cbn [andb].
    + intros H. inversion H. subst. apply beqb_eq in E. subst d. exists [], s. repeat split; [cbn; lia | intros X; destruct X].
    + intros H. apply IH in H. destruct H as [a [b [Hs [Hi Hn]]]]. exists (d :: a), b. repeat split.
      * cbn. rewrite Hs. reflexivity.
      * cbn. lia.
      * intros [X|X]; [subst; rewrite beqb_refl in E; discriminate | exact (Hn X)].
Qed.

Lemma index_single_spec : forall c s i, index [c] s = Some i ->
  exists a b, s = a ++ c :: b /\ i = length a /\ ~ In c a.
Proof. intros c s i H. apply index_from_single_spec in H. exact H. Qed.

Lemma skip_quoted_le_aux : forall n s, (length s <= n)%nat -> (skip_quoted s <= length s)%nat.
Proof.
  induction n as [|n IH]; intros s Hn.
  - destruct s; [cbn; lia | cbn in Hn; lia].
  - destruct s as [|c r]; [cbn; lia|]. cbn [skip_quoted length].
    destruct (Byte.eqb c x22); [lia|].
    destruct (Byte.eqb c x5c).
    + destruct r as [|d r']; [cbn; lia|]. cbn [length] in *. specialize (IH r' ltac:(lia)). lia.
    + cbn [length] in Hn. specialize (IH r ltac:(lia)). lia.
Qed.

Lemma skip_quoted_le : forall s, (skip_quoted s <= length s)%nat.
Proof. intros s. apply (skip_quoted_le_aux (length s)). lia. Qed.

Lemma skip_quoted_escaped_aux : forall n m r, (length m <= n)%nat -> escaped_ok m = true ->
  skip_quoted (m ++ x22 :: r) = length m.
Proof.
  induction n as [|n IH]; intros m r Hn He.
  - destruct m; [reflexivity | cbn in Hn; lia].
  - destruct m as [|c m']; [reflexivity|]. cbn [escaped_ok] in He. cbn [app skip_quoted length].
    destruct (Byte.eqb c x22); [discriminate|].
    destruct (Byte.eqb c x5c).
    + destruct m' as [|d m'']; [discriminate|]. cbn [app length] in *. rewrite IH by (try lia; exact He). reflexivity.
    + cbn [length] in Hn. rewrite IH by (try lia; exact He). reflexivity.
Qed.

Lemma skip_quoted_escaped : forall m r, escaped_ok m = true -> skip_quoted (m ++ x22 :: r) = length m.
Proof. intros m r H. apply (skip_quoted_escaped_aux (length m)); [lia | exact H]. Qed.

(* ---- skip_ws / find_split under extension of the text *)
Lemma skip_ws_app : forall a c r, re_space c = false ->
  skip_ws (a ++ c :: r) = (fst (skip_ws (a ++ [c])), snd (skip_ws (a ++ [c])) ++ r).
Proof.
  induction a as [|x a IH]; intros c r Hc.
  - cbn [app skip_ws]. rewrite Hc. reflexivity.
  - cbn [app skip_ws]. destruct (re_space x).
    + rewrite (IH c r Hc). destruct (skip_ws (a ++ [c])) as [k r']. reflexivity.
    + cbn [fst snd]. rewrite <- app_comm_cons, <- app_assoc. reflexivity.
Qed.

Lemma skip_ws_rest_nonempty : forall a c, re_space c = false -> snd (skip_ws (a ++ [c])) <> [].
Proof.
  induction a as [|x a IH]; intros c Hc.
  - cbn [app skip_ws]. rewrite Hc. discriminate.
  - cbn [app skip_ws]. destruct (re_space x).
    + specialize (IH c Hc). destruct (skip_ws (a ++ [c])) as [k r']. exact IH.
    + discriminate.
Qed.

(* the text a ++ [c] (c not a blank, not the opening byte) and any continuation: same decisions inside a *)
Lemma find_split_extend : forall opn cl a c rest i, re_space c = false -> Byte.eqb c opn = false ->
  find_split opn cl (a ++ c :: rest) i =
  match find_split opn cl (a ++ [c]) i with
  | Some pq => Some pq
  | None => find_split opn cl (c :: rest) (i + length a)
  end.
Proof.
  intros opn cl a. induction a as [|x a IH]; intros c rest i Hc Hco.
  - cbn [app length]. assert (E : find_split opn cl [c] i = None) by (cbn [find_split]; rewrite Hco; reflexivity).
    rewrite E. f_equal. lia.
  - cbn [app find_split length]. replace (i + S (length a))%nat with (S i + length a)%nat by lia.
    destruct (Byte.eqb x opn); [|apply IH; assumption].
    rewrite (skip_ws_app a c rest Hc). pose proof (skip_ws_rest_nonempty a c Hc) as Hne.
    destruct (skip_ws (a ++ [c])) as [k r'] eqn:E. cbn [fst snd] in *.
    destruct k as [|k]; [apply IH; assumption|].
    destruct r' as [|d r'']; [contradiction|]. cbn [app].
    destruct (memb d cl); [reflexivity|]. apply IH; assumption.
Qed.


Lemma find_split_opn : forall opn cl s i a b, find_split opn cl s i = Some (a, b) ->
  exists pre post, s = pre ++ opn :: post /\ a = (i + length pre)%nat.
Proof.
  intros opn cl s. induction s as [|c s IH]; intros i a b; cbn [find_split]; [discriminate|].
  assert (Hrec : find_split opn cl s (S i) = Some (a, b) -> exists pre post, c :: s = pre ++ opn :: post /\ a = (i + length pre)%nat).
  { intros H. destruct (IH _ _ _ H) as [pre [post [Hs Ha]]]. exists (c :: pre), post. split; [cbn; rewrite Hs; reflexivity | cbn; lia]. }
  destruct (Byte.eqb c opn) eqn:E; [|exact Hrec].
  destruct (skip_ws s) as [k r']. destruct k as [|k]; [exact Hrec|]. destruct r' as [|d r']; [exact Hrec|].
  destruct (memb d cl); [|exact Hrec].
  intros H. inversion H. subst. apply beqb_eq in E. subst c. exists [], s. split; [reflexivity | cbn; lia].
Qed.
