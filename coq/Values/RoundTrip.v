(* parse (print v) = Ok v on the documented domain (Dom.v), under stated laws of the library oracles. *)
From Coq Require Import List NArith ZArith Bool Lia ZifyBool ZifyNat ZifyN.
From Coq Require Decimal DecimalZ DecimalN DecimalPos.
From Coq.Strings Require Import Byte.
Import ListNotations.
From BWValues Require Import Bytes BytesProofs Values Codec Uuid Io Dom CodecProofs UuidProofs.

(* ---------------------------------------------------------------- TrimSpace is the identity on printed forms *)
Definition lead_ok (seqs : list str) (c : byte) : bool :=
  forallb (fun q => match q with q0 :: _ => negb (Byte.eqb q0 c) | [] => false end) seqs.

Lemma strip_one_none : forall seqs c r, lead_ok seqs c = true -> strip_one seqs (c :: r) = None.
Proof.
  induction seqs as [|q seqs IH]; intros c r H; [reflexivity|].
  cbn [lead_ok forallb] in H. apply andb_true_iff in H. destruct H as [H1 H2].
  cbn [strip_one]. destruct q as [|q0 q']; [discriminate|].
  cbn [prefixb]. apply negb_true_iff in H1. rewrite H1. cbn. apply IH. exact H2.
Qed.

Lemma trim_left_fuel_id : forall seqs f c r, lead_ok seqs c = true -> trim_left_fuel seqs f (c :: r) = c :: r.
Proof.
  intros seqs f c r H. destruct f; [reflexivity|]. cbn [trim_left_fuel]. rewrite strip_one_none by exact H. reflexivity.
Qed.

Definition first_ok (c : byte) : bool := lead_ok space_seqs c.
Definition last_ok (c : byte) : bool := lead_ok (map (@rev byte) space_seqs) c.

Lemma trim_space_id : forall c m d, first_ok c = true -> last_ok d = true -> trim_space (c :: m ++ [d]) = c :: m ++ [d].
Proof.
  intros c m d Hc Hd. unfold trim_space, trim_left. rewrite trim_left_fuel_id by exact Hc.
  unfold trim_right.
  assert (E : rev (c :: m ++ [d]) = d :: rev (c :: m)).
  { change (c :: m ++ [d]) with ((c :: m) ++ [d]). rewrite rev_app_distr. reflexivity. }
  rewrite E. rewrite trim_left_fuel_id by exact Hd. rewrite <- E. apply rev_involutive.
Qed.

(* a one-byte string *)
Lemma trim_space_id1 : forall c, first_ok c = true -> last_ok c = true -> trim_space [c] = [c].
Proof.
  intros c Hc Hd. unfold trim_space, trim_left. rewrite trim_left_fuel_id by exact Hc.
  unfold trim_right. cbn [rev app]. rewrite trim_left_fuel_id by exact Hd. reflexivity.
Qed.

(* ---------------------------------------------------------------- decimal numbers *)
Lemma bytes_uint_roundtrip : forall d, bytes_to_uint (uint_to_bytes d) = Some d.
Proof. induction d; cbn [uint_to_bytes bytes_to_uint]; try rewrite IHd; reflexivity. Qed.

Lemma uint_to_bytes_nonnil : forall d, d <> Decimal.Nil -> uint_to_bytes d <> [].
Proof. intros d H. destruct d; cbn; try discriminate. contradiction. Qed.

Lemma uint_to_bytes_digits : forall d c, In c (uint_to_bytes d) -> (48 <= Byte.to_N c <= 57)%N.
Proof.
  induction d; cbn [uint_to_bytes]; intros c H; try (destruct H as [H|H]; [subst c; cbn; lia | exact (IHd _ H)]).
  destruct H.
Qed.

Lemma to_uint_nonnil : forall n, N.to_uint n <> Decimal.Nil.
Proof. intros [|p]; cbn; [discriminate | apply DecimalPos.Unsigned.to_uint_nonnil]. Qed.

Lemma parse_fmt_int : forall z, in_int64 z = true -> parse_int64 (fmt_int z) = Some z.
Proof.
  intros z Hz. unfold fmt_int. pose proof (DecimalZ.of_to z) as Hof.
  destruct (Z.to_int z) as [d|d] eqn:E.
  - assert (Hd : d <> Decimal.Nil).
    { destruct z; cbn in E; inversion E; try discriminate; apply DecimalPos.Unsigned.to_uint_nonnil. }
    assert (Hgo : parse_digits false (uint_to_bytes d) = Some z).
    { unfold parse_digits. destruct (uint_to_bytes d) eqn:Eb; [exfalso; exact (uint_to_bytes_nonnil _ Hd Eb)|].
      rewrite <- Eb. rewrite bytes_uint_roundtrip. rewrite Hof. rewrite Hz. reflexivity. }
    unfold parse_int64. destruct (uint_to_bytes d) as [|c r] eqn:Eb; [exact Hgo|].
    assert (Hc : (48 <= Byte.to_N c <= 57)%N) by (apply (uint_to_bytes_digits d); rewrite Eb; left; reflexivity).
    destruct c; try exact Hgo; cbn in Hc; lia.
  - assert (Hd : d <> Decimal.Nil).
    { destruct z; cbn in E; inversion E; apply DecimalPos.Unsigned.to_uint_nonnil. }
    unfold parse_int64. unfold parse_digits.
    destruct (uint_to_bytes d) eqn:Eb; [exfalso; exact (uint_to_bytes_nonnil _ Hd Eb)|].
    rewrite <- Eb. rewrite bytes_uint_roundtrip. rewrite Hof. rewrite Hz. reflexivity.
Qed.

Lemma parse_fmt_uint8 : forall b, parse_uint8 (fmt_uint8 b) = Some b.
Proof.
  intros b. unfold parse_uint8, fmt_uint8.
  destruct (uint_to_bytes (N.to_uint (Byte.to_N b))) eqn:Eb.
  - exfalso. exact (uint_to_bytes_nonnil _ (to_uint_nonnil _) Eb).
  - rewrite <- Eb. rewrite bytes_uint_roundtrip. rewrite DecimalN.Unsigned.of_to. apply Byte.of_to_N.
Qed.

Lemma fmt_uint8_nonempty : forall b, fmt_uint8 b <> [].
Proof. intros b. apply uint_to_bytes_nonnil. apply to_uint_nonnil. Qed.

Lemma fmt_uint8_no_space : forall b, ~ In c_space (fmt_uint8 b).
Proof. intros b H. apply uint_to_bytes_digits in H. cbn in H. lia. Qed.

(* ---------------------------------------------------------------- blobs: split (join l) = l *)
Lemma split_on_app_nosep : forall sep a r, ~ In sep a ->
  split_on sep (a ++ sep :: r) = a :: split_on sep r.
Proof.
  intros sep a. induction a as [|c a IH]; intros r H.
  - cbn. rewrite beqb_refl. reflexivity.
  - cbn [app split_on]. destruct (Byte.eqb c sep) eqn:E.
    + apply beqb_eq in E. subst. exfalso. apply H. left. reflexivity.
    + rewrite IH by (intros X; apply H; right; exact X). reflexivity.
Qed.

Lemma split_on_nosep : forall sep a, ~ In sep a -> split_on sep a = [a].
Proof.
  intros sep a. induction a as [|c a IH]; intros H; [reflexivity|].
  cbn [split_on]. destruct (Byte.eqb c sep) eqn:E.
  - apply beqb_eq in E. subst. exfalso. apply H. left. reflexivity.
  - rewrite IH by (intros X; apply H; right; exact X). reflexivity.
Qed.

Lemma split_join : forall sep l, l <> [] -> (forall x, In x l -> ~ In sep x) -> split_on sep (join [sep] l) = l.
Proof.
  intros sep l. induction l as [|a l IH]; intros Hne Hl; [contradiction|].
  destruct l as [|b l].
  - cbn [join]. apply split_on_nosep. apply Hl. left. reflexivity.
  - change (join [sep] (a :: b :: l)) with (a ++ [sep] ++ join [sep] (b :: l)). cbn [app].
    rewrite split_on_app_nosep by (apply Hl; left; reflexivity).
    rewrite IH; [reflexivity | discriminate | intros x Hx; apply Hl; right; exact Hx].
Qed.

Lemma parse_blob_items_fmt : forall bs, parse_blob_items (map fmt_uint8 bs) = Some bs.
Proof.
  induction bs as [|b bs IH]; [reflexivity|]. cbn [map parse_blob_items]. rewrite parse_fmt_uint8, IH. reflexivity.
Qed.

Lemma join_nonempty : forall sep l, l <> [] -> (forall x, In x l -> x <> []) -> join sep l <> [].
Proof.
  intros sep l Hne Hl. destruct l as [|a l]; [contradiction|].
  assert (Ha : a <> []) by (apply Hl; left; reflexivity).
  destruct l; cbn [join]; destruct a; try contradiction; discriminate.
Qed.

(* ---------------------------------------------------------------- node *)
Ltac zl := repeat (rewrite ?zlen_app, ?zlen_cons); unfold zlen; cbn [length]; lia.

Lemma type_ok_shape : forall t, type_ok t = true -> exists r, t = c_slash :: r.
Proof.
  intros t H. unfold type_ok in H. apply andb_true_iff in H. destruct H as [H _].
  apply andb_true_iff in H. destruct H as [_ H]. destruct t as [|c r]; [discriminate|].
  apply beqb_eq in H. subst. eauto.
Qed.

Lemma first_ok_slash : first_ok c_slash = true. Proof. reflexivity. Qed.
Lemma first_ok_quote : first_ok c_quote = true. Proof. reflexivity. Qed.
Lemma last_ok_gt : last_ok c_gt = true. Proof. reflexivity. Qed.
Lemma last_ok_rbr : last_ok x5d = true. Proof. reflexivity. Qed.

Lemma print_node_trim : forall n, type_ok (ntype n) = true -> trim_space (print_node n) = print_node n.
Proof.
  intros [t i] H. cbn [ntype] in H. destruct (type_ok_shape _ H) as [r Hr]. subst t.
  unfold print_node. cbn [ntype nid].
  replace ((c_slash :: r) ++ [c_lt] ++ i ++ [c_gt]) with (c_slash :: (r ++ [c_lt] ++ i) ++ [c_gt])
    by (cbn [app]; rewrite <- !app_assoc; reflexivity).
  apply trim_space_id; reflexivity.
Qed.

Lemma node_roundtrip : forall n, dom_node n = true -> parse_node (print_node n) = Ok n.
Proof.
  intros [t i] H. unfold dom_node, wf_node in H. cbn [ntype nid] in H.
  apply andb_true_iff in H. destruct H as [H Hlt]. apply andb_true_iff in H. destruct H as [Ht Hi].
  apply negb_true_iff in Hlt. apply memb_false in Hlt.
  unfold parse_node. rewrite print_node_trim by exact Ht.
  destruct (type_ok_shape _ Ht) as [r Hr].
  unfold print_node. cbn [ntype nid].
  set (raw := t ++ [c_lt] ++ i ++ [c_gt]).
  assert (Hraw : raw = c_slash :: r ++ [c_lt] ++ i ++ [c_gt]) by (unfold raw; rewrite Hr; reflexivity).
  rewrite Hraw at 1. rewrite Hraw at 1. rewrite at_index_0. cbn [idx].
  replace (Byte.eqb c_slash c_slash) with true by reflexivity.
  assert (Hidx : index s_lt raw = Some (length t)).
  { unfold raw, s_lt. cbn [app]. apply index_single. exact Hlt. }
  rewrite Hidx. fold (zlen t).
  assert (Hs1 : slice raw 0 (zlen t) = Some t) by (unfold raw; apply slice_prefix).
  rewrite Hs1. cbn [idx]. unfold new_type. rewrite Ht.
  assert (Hn : (zlen raw - 1 = zlen (t ++ [c_lt] ++ i))%Z) by (unfold raw; zl).
  assert (Hlast : at_index raw (zlen raw - 1) = Some c_gt).
  { rewrite Hn. unfold raw. replace (t ++ [c_lt] ++ i ++ [c_gt]) with ((t ++ [c_lt] ++ i) ++ c_gt :: []) by (rewrite <- !app_assoc; reflexivity).
    apply at_index_app_mid. }
  rewrite Hlast. cbn [idx]. replace (negb (Byte.eqb c_gt c_gt)) with false by reflexivity.
  assert (Hs2 : slice raw (zlen t + 1) (zlen raw - 1) = Some i).
  { replace (zlen t + 1)%Z with (zlen (t ++ [c_lt])) by zl.
    replace (zlen raw - 1)%Z with (zlen (t ++ [c_lt]) + zlen i)%Z by (unfold raw; zl).
    unfold raw. replace (t ++ [c_lt] ++ i ++ [c_gt]) with ((t ++ [c_lt]) ++ i ++ [c_gt]) by (rewrite <- !app_assoc; reflexivity).
    apply slice_app_mid. }
  rewrite Hs2. cbn [idx]. unfold new_id. rewrite Hi. reflexivity.
Qed.

(* ---------------------------------------------------------------- literal *)
(* what the round trip needs to know about an anchor / a float: the library maps its printed form back to it *)
Definition time_ok (O : oracles) (t : time) : Prop :=
  o_parse_time O (o_fmt_time O t) = Some t /\ o_fmt_time O t <> [] /\
  forallb (fun c => memb c time_alphabet) (o_fmt_time O t) = true /\ (t_off t mod 60 = 0)%Z.

Lemma norm_anchor_ok : forall O t, time_ok O t -> norm_anchor t = t.
Proof. intros O t [_ [_ [_ H]]]. unfold norm_anchor. rewrite H. reflexivity. Qed.
Definition float_ok (O : oracles) (b : N) : Prop :=
  o_parse_float O (o_fmt_float O b) = Some b /\ ~ In x0a (o_fmt_float O b).

Record quote_laws (O : oracles) : Prop := mkQLaws {
  (* strconv: Unquote(Quote(s)) = s for every string *)
  law_unquote : forall s, o_unquote O (o_quote O s) = Some s;
  (* Quote output is delimited by double quotes; inside, every double quote is escaped by a backslash and no
     escape is left open (escaped_ok) *)
  law_quote_shape : forall s, exists m, o_quote O s = c_quote :: m ++ [c_quote] /\ escaped_ok m = true;
  (* Quote escapes tab, newline, form feed, CR; a space appears only if the input has one *)
  law_quote_ws : forall s, memb c_space s = false -> forallb (fun c => negb (re_space c)) (o_quote O s) = true;
  (* a newline is always escaped *)
  law_quote_nl : forall s, ~ In x0a (o_quote O s)
}.

Record oracle_laws (O : oracles) : Prop := mkLaws {
  law_quote : quote_laws O;
  (* time: Parse(Format t) = t, Format t not empty and over 0-9 T : . Z + -, on the time domain
     (years 0000..9999, whole-minute offsets) *)
  law_time : forall t, time_dom t = true -> time_ok O t;
  (* float64: ParseFloat(%v f) = f for every non-NaN bit pattern *)
  law_float : forall b, (b <? 18446744073709551616)%N && negb (is_nan b) = true -> float_ok O b
}.

(* for "whatever is accepted prints to text that is accepted again": the library's parsers only return values that
   their printers map back (time.Parse results format and re-parse to the same instant and offset; ParseFloat results,
   including NaN, print and re-parse to the same bits) *)
Record accept_laws (O : oracles) : Prop := mkALaws {
  alaw_quote : quote_laws O;
  alaw_time : forall s t, o_parse_time O s = Some t -> off_printable t = true -> time_ok O t;
  alaw_float : forall s b, o_parse_float O s = Some b -> float_ok O b
}.

(* generalised domains: the library-dependent parts are stated through time_ok / float_ok *)
Definition gdom_pred (O : oracles) (p : pred) : Prop :=
  wf_pred p = true /\ match panchor p with None => True | Some t => time_ok O t end.
Definition gdom_literal (O : oracles) (l : literal) : Prop :=
  wf_literal l = true /\ match l with LFloat b => float_ok O b | _ => True end.
Definition gdom_object (O : oracles) (o : object) : Prop :=
  match o with
  | ONode n => dom_node n = true
  | OPred p => gdom_pred O p
  | OLit l => gdom_literal O l
  | OInvalid => False
  end.
Definition gdom_triple (O : oracles) (t : triple) : Prop :=
  dom_node (subj t) = true /\ type_split_free (ntype (subj t)) = true /\ gdom_pred O (tpred t) /\ gdom_object O (tobj t).

Section WithOracles.
Variable O : oracles.

Lemma lit_type_last_ok : forall l, exists m d, lit_type_name l = m ++ [d] /\ last_ok d = true /\ ~ In c_quote (lit_type_name l).
Proof.
  intros l. exists (removelast (lit_type_name l)), (last (lit_type_name l) x00).
  destruct l; cbn [lit_type_name]; (repeat split; try reflexivity; intros H; apply memb_In in H; discriminate).
Qed.

Lemma print_literal_trim : forall l, trim_space (print_literal O l) = print_literal O l.
Proof.
  intros l. unfold print_literal. destruct (lit_type_last_ok l) as [m [d [E [Hd _]]]]. rewrite E.
  replace ([c_quote] ++ print_lit_value O l ++ s_typem ++ m ++ [d])
    with (c_quote :: (print_lit_value O l ++ s_typem ++ m) ++ [d]) by (cbn [app]; rewrite <- !app_assoc; reflexivity).
  apply trim_space_id; [reflexivity | exact Hd].
Qed.

Definition s_typem_tail : str := Eval compute in (match s_typem with _ :: r => r | [] => [] end).

Lemma literal_split : forall l,
  let raw := print_literal O l in
  last_index s_typem raw = Some (S (length (print_lit_value O l))) /\
  slice raw 1 (Z.of_nat (S (length (print_lit_value O l)))) = Some (print_lit_value O l) /\
  slice raw (Z.of_nat (S (length (print_lit_value O l))) + 8) (zlen raw) = Some (lit_type_name l).
Proof.
  intros l raw. unfold raw, print_literal. set (v := print_lit_value O l). set (tn := lit_type_name l).
  destruct (lit_type_last_ok l) as [m [d [E [Hd Hq]]]]. fold tn in E, Hq.
  assert (Hraw : [c_quote] ++ v ++ s_typem ++ tn = (c_quote :: v) ++ c_quote :: s_typem_tail ++ tn) by reflexivity.
  repeat split.
  - rewrite Hraw. change s_typem with (c_quote :: s_typem_tail).
    rewrite last_index_unique; [reflexivity|].
    intros H. apply in_app_or in H. destruct H as [H|H]; [|exact (Hq H)].
    apply memb_In in H. discriminate.
  - replace (Z.of_nat (S (length v))) with (zlen [c_quote] + zlen v)%Z by zl.
    change 1%Z with (zlen [c_quote]). apply slice_app_mid.
  - replace (Z.of_nat (S (length v)) + 8)%Z with (zlen ([c_quote] ++ v ++ s_typem)) by (unfold s_typem; zl).
    replace ([c_quote] ++ v ++ s_typem ++ tn) with (([c_quote] ++ v ++ s_typem) ++ tn) by (rewrite <- !app_assoc; reflexivity).
    apply slice_suffix.
Qed.

Lemma blob_value_roundtrip : forall bs,
  let v := [x5b] ++ join [c_space] (map fmt_uint8 bs) ++ [x5d] in
  blob_unbracketed v = false /\
  slice v 1 (zlen v - 1) = Some (join [c_space] (map fmt_uint8 bs)).
Proof.
  intros bs v. set (j := join [c_space] (map fmt_uint8 bs)). split.
  - unfold blob_unbracketed. unfold v. fold j.
    assert (H2 : (zlen ([x5b] ++ j ++ [x5d]) <? 2)%Z = false) by (apply Z.ltb_ge; pose proof (zlen_nonneg j); zl).
    rewrite H2. cbn [app orb]. replace (negb (Byte.eqb x5b x5b)) with false by reflexivity. cbn [orb].
    unfold last_byte. change (x5b :: j ++ [x5d]) with ((x5b :: j) ++ [x5d]). rewrite rev_app_distr. reflexivity.
  - unfold v. fold j.
    replace (zlen ([x5b] ++ j ++ [x5d]) - 1)%Z with (zlen [x5b] + zlen j)%Z by zl.
    change 1%Z with (zlen [x5b]). apply slice_app_mid.
Qed.

Lemma literal_roundtrip_g : forall l, gdom_literal O l -> parse_literal O (print_literal O l) = Ok l.
Proof.
  intros l Hd. unfold parse_literal. rewrite print_literal_trim.
  destruct (literal_split l) as [Hi [Hv Ht]].
  set (raw := print_literal O l) in *.
  assert (Hraw : raw = c_quote :: print_lit_value O l ++ s_typem ++ lit_type_name l) by reflexivity.
  rewrite Hraw at 1. replace (negb (Byte.eqb c_quote c_quote)) with false by reflexivity.
  rewrite Hi. rewrite Hv. cbn [idx]. rewrite Ht. cbn [idx].
  destruct Hd as [Hwf Hdom].
  destruct l as [b|z|b|s|bs]; cbn [lit_type_name print_lit_value].
  - destruct b; reflexivity.
  - replace (str_eqb s_int64 s_bool) with false by reflexivity. replace (str_eqb s_int64 s_int64) with true by reflexivity.
    cbn in Hwf. rewrite (parse_fmt_int _ Hwf). reflexivity.
  - replace (str_eqb s_float64 s_bool) with false by reflexivity. replace (str_eqb s_float64 s_int64) with false by reflexivity.
    replace (str_eqb s_float64 s_float64) with true by reflexivity.
    destruct Hdom as [Hdom _]. rewrite Hdom. reflexivity.
  - reflexivity.
  - replace (str_eqb s_blob s_bool) with false by reflexivity. replace (str_eqb s_blob s_int64) with false by reflexivity.
    replace (str_eqb s_blob s_float64) with false by reflexivity. replace (str_eqb s_blob s_text) with false by reflexivity.
    replace (str_eqb s_blob s_blob) with true by reflexivity.
    destruct (blob_value_roundtrip bs) as [Hb Hs]. cbv zeta in Hb, Hs. rewrite Hb, Hs. cbn [idx].
    destruct bs as [|b0 bs'].
    + reflexivity.
    + destruct (join [c_space] (map fmt_uint8 (b0 :: bs'))) eqn:Ej.
      * exfalso. revert Ej. apply join_nonempty; [discriminate|].
        intros x Hx. apply in_map_iff in Hx. destruct Hx as [y [Hy _]]. subst x. apply fmt_uint8_nonempty.
      * rewrite <- Ej. rewrite split_join.
        -- rewrite parse_blob_items_fmt. reflexivity.
        -- discriminate.
        -- intros x Hx. apply in_map_iff in Hx. destruct Hx as [y [Hy _]]. subst x. apply fmt_uint8_no_space.
Qed.

End WithOracles.

(* ---------------------------------------------------------------- predicate *)
Section WithOracles2.
Variable O : oracles.
Hypothesis Q : quote_laws O.

Definition anchor_text (p : pred) : str := match panchor p with None => [] | Some t => o_fmt_time O (norm_anchor t) end.

Lemma time_alpha_no : forall t c, time_ok O t -> memb c time_alphabet = false -> ~ In c (o_fmt_time O t).
Proof.
  intros t c Ht Hc Hin. destruct Ht as [_ [_ [Ha _]]].
  rewrite forallb_forall in Ha. specialize (Ha _ Hin). congruence.
Qed.

Lemma anchor_text_no : forall p c, gdom_pred O p -> memb c time_alphabet = false -> ~ In c (anchor_text p).
Proof.
  intros p c Hd Hc. unfold anchor_text. destruct Hd as [_ Hd].
  destruct (panchor p) as [t|]; [rewrite (norm_anchor_ok O t Hd); apply time_alpha_no; assumption | intros H; destruct H].
Qed.

Lemma print_pred_shape : forall p, exists m,
  print_pred O p = (c_quote :: m) ++ c_quote :: [x40; x5b] ++ anchor_text p ++ [x5d] /\ o_quote O (pid p) = c_quote :: m ++ [c_quote] /\
  escaped_ok m = true.
Proof.
  intros p. destruct (law_quote_shape O Q (pid p)) as [m [Hm Hesc]]. exists m. split; [|split; [exact Hm | exact Hesc]].
  unfold print_pred, anchor_text. rewrite Hm. cbn [app]. rewrite <- !app_assoc. reflexivity.
Qed.

Lemma print_pred_trim : forall p, trim_space (print_pred O p) = print_pred O p.
Proof.
  intros p. destruct (print_pred_shape p) as [m [E _]]. rewrite E.
  replace ((c_quote :: m) ++ c_quote :: [x40; x5b] ++ anchor_text p ++ [x5d])
    with (c_quote :: (m ++ c_quote :: [x40; x5b] ++ anchor_text p) ++ [x5d])
    by (cbn [app]; rewrite <- !app_assoc; reflexivity).
  apply trim_space_id; reflexivity.
Qed.

Lemma pred_roundtrip_g : forall p, gdom_pred O p -> parse_pred O (print_pred O p) = Ok p.
Proof.
  intros p Hd. unfold parse_pred. rewrite print_pred_trim.
  destruct (print_pred_shape p) as [m [E [Hq _]]]. set (raw := print_pred O p) in *.
  set (ft := anchor_text p) in *.
  assert (Hnq : ~ In c_quote ([x40; x5b] ++ ft ++ [x5d])).
  { intros H. cbn [app] in H. destruct H as [H|[H|H]]; try discriminate.
    apply in_app_or in H. destruct H as [H|H].
    - revert H. apply anchor_text_no; [exact Hd | reflexivity].
    - destruct H as [H|H]; [discriminate | destruct H]. }
  rewrite E at 1. cbn [app]. replace (negb (Byte.eqb c_quote c_quote)) with false by reflexivity.
  assert (Hi : last_index s_anchor raw = Some (length (c_quote :: m))).
  { rewrite E. change s_anchor with (c_quote :: [x40; x5b]).
    change (c_quote :: [x40; x5b] ++ ft ++ [x5d]) with (c_quote :: [x40; x5b] ++ (ft ++ [x5d])).
    apply last_index_unique. exact Hnq. }
  rewrite Hi.
  assert (Hlen : zlen raw = (zlen (c_quote :: m) + 3 + zlen ft + 1)%Z) by (rewrite E; zl).
  pose proof (zlen_nonneg ft) as Hft. pose proof (zlen_nonneg m) as Hm0.
  fold (zlen (c_quote :: m)).
  destruct (zlen raw <? zlen (c_quote :: m) + 4)%Z eqn:E4; [apply Z.ltb_lt in E4; lia|].
  assert (Hs1 : slice raw 0 (zlen (c_quote :: m) + 1) = Some (o_quote O (pid p))).
  { rewrite Hq. rewrite E.
    replace ((c_quote :: m) ++ c_quote :: [x40; x5b] ++ ft ++ [x5d]) with ((c_quote :: m ++ [c_quote]) ++ [x40; x5b] ++ ft ++ [x5d])
      by (cbn [app]; rewrite <- !app_assoc; reflexivity).
    replace (zlen (c_quote :: m) + 1)%Z with (zlen (c_quote :: m ++ [c_quote])) by zl.
    apply slice_prefix. }
  rewrite Hs1. cbn [idx].
  assert (Hs2 : slice raw (zlen (c_quote :: m) + 3) (zlen raw - 1) = Some ft).
  { rewrite Hlen. rewrite E.
    replace ((c_quote :: m) ++ c_quote :: [x40; x5b] ++ ft ++ [x5d]) with (((c_quote :: m) ++ c_quote :: [x40; x5b]) ++ ft ++ [x5d])
      by (cbn [app]; rewrite <- !app_assoc; reflexivity).
    replace (zlen (c_quote :: m) + 3)%Z with (zlen ((c_quote :: m) ++ c_quote :: [x40; x5b])) by zl.
    replace (zlen ((c_quote :: m) ++ c_quote :: [x40; x5b]) + zlen ft + 1 - 1)%Z with (zlen ((c_quote :: m) ++ c_quote :: [x40; x5b]) + zlen ft)%Z by lia.
    apply slice_app_mid. }
  rewrite Hs2. cbn [idx]. rewrite (law_unquote O Q).
  destruct Hd as [Hid Ha]. unfold wf_pred in Hid.
  destruct p as [id a]. cbn [pid panchor] in *. destruct id as [|i0 id']; [discriminate|].
  unfold ft, anchor_text. cbn [panchor]. destruct a as [t|]; [|reflexivity].
  rewrite (norm_anchor_ok O t Ha).
  destruct Ha as [Hrt [Hne [Halpha _]]].
  destruct (o_fmt_time O t) as [|c0 r] eqn:Eft; [contradiction|].
  rewrite at_index_0. cbn [idx].
  assert (Hc0 : Byte.eqb c0 c_quote = false).
  { apply beqb_neq. intros X. subst c0. cbn [forallb] in Halpha. apply andb_true_iff in Halpha. destruct Halpha as [X _]. discriminate. }
  rewrite Hc0.
  destruct (at_index_ok (c0 :: r) (zlen (c0 :: r) - 1)) as [cl Hcl]; [pose proof (zlen_nonneg r); zl | lia |].
  rewrite Hcl. cbn [idx].
  assert (Hcl2 : Byte.eqb cl c_quote = false).
  { apply beqb_neq. intros X. subst cl. apply at_index_some in Hcl. destruct Hcl as [_ [_ Hn]].
    apply nth_error_In in Hn. rewrite forallb_forall in Halpha. specialize (Halpha _ Hn). discriminate. }
  rewrite Hcl2. rewrite Hrt. reflexivity.
Qed.

(* ---------------------------------------------------------------- object *)
Lemma parse_node_quote_err : forall r, trim_space (c_quote :: r) = c_quote :: r -> parse_node (c_quote :: r) = Err.
Proof. intros r H. unfold parse_node. rewrite H. rewrite at_index_0. reflexivity. Qed.

(* a text that ends with ']' is not a literal: the part after the last type marker is no type name *)
Lemma parse_literal_rbr_err : forall m, trim_space (m ++ [x5d]) = m ++ [x5d] -> parse_literal O (m ++ [x5d]) = Err.
Proof.
  intros m Ht. pose proof (parse_literal_good O (m ++ [x5d])) as G.
  destruct (parse_literal O (m ++ [x5d])) as [l| | |] eqn:E; inversion G; subst; [|reflexivity].
  exfalso. revert E. unfold parse_literal. rewrite Ht.
  destruct (m ++ [x5d]) as [|c0 rest] eqn:Eraw; [discriminate|]. rewrite <- Eraw.
  destruct (negb (Byte.eqb c0 c_quote)); [discriminate|].
  destruct (last_index s_typem (m ++ [x5d])) as [i|] eqn:Ei; [|discriminate].
  destruct i as [|i]; [discriminate|].
  apply last_index_spec in Ei. destruct Ei as [a [b [Hs Hi]]].
  assert (Hlen : zlen (m ++ [x5d]) = (zlen a + 8 + zlen b)%Z) by (rewrite Hs; unfold s_typem; zl).
  pose proof (zlen_nonneg a) as Ha. pose proof (zlen_nonneg b) as Hb.
  assert (Hia : Z.of_nat (S i) = zlen a) by (unfold zlen; lia).
  rewrite slice_ok by lia. cbn [idx].
  assert (Hsuf : slice (m ++ [x5d]) (Z.of_nat (S i) + 8) (zlen (m ++ [x5d])) = Some b).
  { rewrite Hs at 1. rewrite Hs at 1. replace (a ++ s_typem ++ b) with ((a ++ s_typem) ++ b) by (rewrite <- app_assoc; reflexivity).
    replace (Z.of_nat (S i) + 8)%Z with (zlen (a ++ s_typem)) by (unfold s_typem; zl).
    replace (zlen (m ++ [x5d])) with (zlen ((a ++ s_typem) ++ b)) by (rewrite <- app_assoc, <- Hs; reflexivity).
    apply slice_suffix. }
  rewrite Hsuf. cbn [idx].
  (* b ends with ']' *)
  assert (Hb_last : exists b', b = b' ++ [x5d]).
  { destruct (@exists_last _ b) as [b' [x Hx]].
    - intros X. subst b. rewrite app_nil_r in Hs.
      assert (H1 : last (m ++ [x5d]) x00 = last (a ++ s_typem) x00) by (rewrite Hs; reflexivity).
      rewrite !last_app_nonempty in H1 by discriminate. discriminate.
    - exists b'. subst b. f_equal. f_equal.
      assert (H1 : last (m ++ [x5d]) x00 = last (a ++ s_typem ++ b' ++ [x]) x00) by (rewrite Hs; reflexivity).
      rewrite !app_assoc in H1. rewrite !last_app_nonempty in H1 by discriminate. cbn in H1. congruence. }
  destruct Hb_last as [b' Hb']. subst b.
  assert (Hne : forall nm, last nm x00 <> x5d -> str_eqb (b' ++ [x5d]) nm = false).
  { intros nm Hn. apply str_eqb_false. intros X. apply Hn. rewrite <- X.
    rewrite last_app_nonempty by discriminate. reflexivity. }
  rewrite (Hne s_bool), (Hne s_int64), (Hne s_float64), (Hne s_text), (Hne s_blob) by discriminate.
  discriminate.
Qed.

Lemma object_roundtrip_g : forall o, gdom_object O o -> parse_object O (print_object O o) = Ok o.
Proof.
  intros o Hd. unfold parse_object. destruct o as [n|p|l|]; cbn [gdom_object print_object] in *.
  - rewrite node_roundtrip by exact Hd. reflexivity.
  - destruct (print_pred_shape p) as [m [E _]].
    assert (Hn : parse_node (print_pred O p) = Err).
    { pose proof (print_pred_trim p) as T. rewrite E in *. apply parse_node_quote_err. exact T. }
    rewrite Hn.
    assert (Hl : parse_literal O (print_pred O p) = Err).
    { pose proof (print_pred_trim p) as T. rewrite E in *.
      replace ((c_quote :: m) ++ c_quote :: [x40; x5b] ++ anchor_text p ++ [x5d])
        with (((c_quote :: m) ++ c_quote :: [x40; x5b] ++ anchor_text p) ++ [x5d]) in *
        by (cbn [app]; rewrite <- !app_assoc; reflexivity).
      apply parse_literal_rbr_err. exact T. }
    rewrite Hl. rewrite pred_roundtrip_g by exact Hd. reflexivity.
  - assert (Hn : parse_node (print_literal O l) = Err).
    { pose proof (print_literal_trim O l) as T. unfold print_literal in *. cbn [app] in *. apply parse_node_quote_err. exact T. }
    rewrite Hn. rewrite (literal_roundtrip_g O) by exact Hd. reflexivity.
  - contradiction.
Qed.

End WithOracles2.

(* ---------------------------------------------------------------- triple *)
Ltac lst := repeat (progress (cbn [app]; rewrite <- ?app_assoc)); reflexivity.
Lemma skip_ws_nows : forall c r, re_space c = false -> skip_ws (c :: r) = (O, c :: r).
Proof. intros c r H. cbn [skip_ws]. rewrite H. reflexivity. Qed.

Lemma find_split_skip_nows : forall opn cl a c rest i,
  forallb (fun x => negb (re_space x)) a = true -> re_space c = false ->
  find_split opn cl (a ++ c :: rest) i = find_split opn cl (c :: rest) (i + length a).
Proof.
  intros opn cl a. induction a as [|x a IH]; intros c rest i Ha Hc.
  - cbn [app length]. f_equal. lia.
  - cbn [forallb] in Ha. apply andb_true_iff in Ha. destruct Ha as [Hx Ha].
    cbn [app find_split length].
    assert (Hk : skip_ws (a ++ c :: rest) = (O, a ++ c :: rest)).
    { destruct a as [|y a']; cbn [app].
      - apply skip_ws_nows. exact Hc.
      - cbn [forallb] in Ha. apply andb_true_iff in Ha. destruct Ha as [Hy _]. apply negb_true_iff in Hy.
        apply skip_ws_nows. exact Hy. }
    rewrite Hk. rewrite IH by assumption.
    replace (S i + length a)%nat with (i + S (length a))%nat by lia.
    destruct (Byte.eqb x opn); reflexivity.
Qed.

Lemma find_split_skip_noopn : forall opn cl a rest i, ~ In opn a ->
  find_split opn cl (a ++ rest) i = find_split opn cl rest (i + length a).
Proof.
  intros opn cl a. induction a as [|x a IH]; intros rest i Hn.
  - cbn [app length]. f_equal. lia.
  - cbn [app find_split length].
    destruct (Byte.eqb x opn) eqn:E; [apply beqb_eq in E; subst; exfalso; apply Hn; left; reflexivity|].
    rewrite IH by (intros X; apply Hn; right; exact X). f_equal. lia.
Qed.

Lemma find_split_hit : forall opn cl d rest i, memb d cl = true -> re_space d = false ->
  find_split opn cl (opn :: c_tab :: d :: rest) i = Some (i, i + 3)%nat.
Proof.
  intros opn cl d rest i Hd Hs. cbn [find_split]. rewrite beqb_refl.
  cbn [skip_ws]. replace (re_space c_tab) with true by reflexivity. rewrite Hs. rewrite Hd. f_equal. f_equal. lia.
Qed.

Section WithOracles3.
Variable O : oracles.
Hypothesis Q : quote_laws O.

Lemma print_object_first : forall o, gdom_object O o ->
  exists d r, print_object O o = d :: r /\ memb d [x2f; x22] = true /\ first_ok d = true.
Proof.
  intros o Hd. destruct o as [n|p|l|]; cbn [print_object gdom_object] in *.
  - unfold dom_node, wf_node in Hd. apply andb_true_iff in Hd. destruct Hd as [Hd _]. apply andb_true_iff in Hd. destruct Hd as [Ht _].
    destruct (type_ok_shape _ Ht) as [r Hr]. unfold print_node. rewrite Hr. cbn [app]. eexists _, _. split; [reflexivity|]. split; reflexivity.
  - destruct (print_pred_shape O Q p) as [m [E _]]. rewrite E. cbn [app]. eexists _, _. split; [reflexivity|]. split; reflexivity.
  - unfold print_literal. cbn [app]. eexists _, _. split; [reflexivity|]. split; reflexivity.
  - contradiction.
Qed.

Lemma print_object_last : forall o, gdom_object O o ->
  exists m d, print_object O o = m ++ [d] /\ last_ok d = true.
Proof.
  intros o Hd. destruct o as [n|p|l|]; cbn [print_object gdom_object] in *.
  - unfold print_node. exists (ntype n ++ [c_lt] ++ nid n), c_gt. split; [rewrite <- !app_assoc; reflexivity | reflexivity].
  - destruct (print_pred_shape O Q p) as [m [E _]]. rewrite E.
    exists ((c_quote :: m) ++ c_quote :: [x40; x5b] ++ anchor_text O p), x5d. split; [cbn [app]; rewrite <- !app_assoc; reflexivity | reflexivity].
  - unfold print_literal. destruct (lit_type_last_ok l) as [m [d [E [Hl _]]]]. rewrite E.
    exists ([c_quote] ++ print_lit_value O l ++ s_typem ++ m), d. split; [rewrite <- !app_assoc; reflexivity | exact Hl].
  - contradiction.
Qed.

Lemma no_ws_of_no : forall s, (forall c, In c s -> re_space c = false) -> forallb (fun x => negb (re_space x)) s = true.
Proof. intros s H. apply forallb_forall. intros x Hx. rewrite (H x Hx). reflexivity. Qed.

Lemma triple_roundtrip_g : forall t, gdom_triple O t -> parse_triple O (print_triple O t) = Ok t.
Proof.
  intros [s p o] Hd. unfold gdom_triple in Hd. cbn [subj tpred tobj] in Hd.
  destruct Hd as [Hs [Hff [Hp Ho]]].
  pose proof Hs as Hs'. unfold dom_node, wf_node in Hs'. apply andb_true_iff in Hs'. destruct Hs' as [Hs' Hlt].
  apply andb_true_iff in Hs'. destruct Hs' as [Hty Hid].
  destruct s as [ty id]. cbn [ntype nid] in *.
  destruct (type_ok_shape _ Hty) as [tr Htr].
  destruct (print_object_first o Ho) as [d [orest [Eo [Hdc Hdf]]]].
  destruct (print_object_last o Ho) as [om [od [Eo2 Hod]]].
  destruct (print_pred_shape O Q p) as [qm [Ep [Hq Hesc]]].
  set (sN := print_node (mkNode ty id)). set (sP := print_pred O p) in *. set (sO := print_object O o) in *.
  set (raw := print_triple O (mkTriple (mkNode ty id) p o)).
  assert (Hraw : raw = sN ++ [c_tab] ++ sP ++ [c_tab] ++ sO) by reflexivity.
  (* TrimSpace *)
  assert (Htrim : trim_space raw = raw).
  { rewrite Hraw. unfold sN, print_node. cbn [ntype nid]. rewrite Htr. rewrite Eo2.
    replace (((c_slash :: tr) ++ [c_lt] ++ id ++ [c_gt]) ++ [c_tab] ++ sP ++ [c_tab] ++ om ++ [od])
      with (c_slash :: (tr ++ [c_lt] ++ id ++ [c_gt] ++ [c_tab] ++ sP ++ [c_tab] ++ om) ++ [od])
      by lst.
    apply trim_space_id; [reflexivity | exact Hod]. }
  unfold parse_triple. fold raw. rewrite Htrim.
  (* subject / predicate split *)
  assert (HsPq : exists sP', sP = c_quote :: sP') by (rewrite Ep; cbn [app]; eauto).
  destruct HsPq as [sP' HsP'].
  assert (Hfree : find_split x3e [x22] (ty ++ [c_lt]) 0 = None).
  { unfold type_split_free in Hff. destruct (find_split x3e [x22] (ty ++ [x3c]) 0) eqn:E; [discriminate | exact E]. }
  assert (Hid_nogt : ~ In c_gt (c_lt :: id)).
  { intros [X|X]; [discriminate|]. unfold id_ok in Hid. apply andb_true_iff in Hid. destruct Hid as [Hid _].
    apply negb_true_iff in Hid.
    assert (Y : existsb (fun c => memb c [x3c; x3e]) id = true) by (apply existsb_exists; eexists; split; [exact X | reflexivity]).
    congruence. }
  assert (Hps : p_split raw = Some (length sN - 1, length sN + 2)%nat).
  { unfold p_split. rewrite Hraw. unfold sN at 1, print_node. cbn [ntype nid].
    replace ((ty ++ [c_lt] ++ id ++ [c_gt]) ++ [c_tab] ++ sP ++ [c_tab] ++ sO)
      with (ty ++ c_lt :: (id ++ c_gt :: c_tab :: sP ++ [c_tab] ++ sO)) by lst.
    rewrite find_split_extend by reflexivity. rewrite Hfree.
    change (c_lt :: id ++ c_gt :: c_tab :: sP ++ [c_tab] ++ sO) with ((c_lt :: id) ++ c_gt :: c_tab :: sP ++ [c_tab] ++ sO).
    rewrite find_split_skip_noopn by exact Hid_nogt.
    rewrite HsP'. cbn [app]. rewrite find_split_hit by reflexivity.
    unfold sN, print_node. cbn [ntype nid]. rewrite !app_length. cbn [length]. f_equal. f_equal; lia. }
  rewrite Hps.
  assert (HlenN : (1 <= length sN)%nat) by (unfold sN, print_node; rewrite !app_length; cbn [length]; lia).
  replace (length sN + 2 - 1)%nat with (length sN + 1)%nat by lia.
  set (ft := anchor_text O p) in *.
  set (sPh := (c_quote :: qm) ++ c_quote :: [x40; x5b] ++ ft) in *.
  assert (EsP : sP = sPh ++ [x5d]) by (rewrite Ep; unfold sPh; cbn [app]; rewrite <- !app_assoc; reflexivity).
  (* skip the quoted id *)
  assert (Haq : slice raw (Z.of_nat (length sN + 1) + 1) (zlen raw) = Some (qm ++ c_quote :: [x40; x5b] ++ ft ++ [x5d] ++ [c_tab] ++ sO)).
  { rewrite Hraw, EsP. unfold sPh.
    replace (sN ++ [c_tab] ++ (((c_quote :: qm) ++ c_quote :: [x40; x5b] ++ ft) ++ [x5d]) ++ [c_tab] ++ sO)
      with ((sN ++ [c_tab] ++ [c_quote]) ++ (qm ++ c_quote :: [x40; x5b] ++ ft ++ [x5d] ++ [c_tab] ++ sO)) by lst.
    replace (Z.of_nat (length sN + 1) + 1)%Z with (zlen (sN ++ [c_tab] ++ [c_quote])) by zl. apply slice_suffix. }
  rewrite Haq. cbn [idx]. rewrite (skip_quoted_escaped qm _ Hesc).
  assert (Hrest : slice raw (Z.of_nat (length sN + 1 + 1 + length qm)) (zlen raw) = Some (c_quote :: [x40; x5b] ++ ft ++ [x5d] ++ [c_tab] ++ sO)).
  { rewrite Hraw, EsP. unfold sPh.
    replace (sN ++ [c_tab] ++ (((c_quote :: qm) ++ c_quote :: [x40; x5b] ++ ft) ++ [x5d]) ++ [c_tab] ++ sO)
      with ((sN ++ [c_tab] ++ [c_quote] ++ qm) ++ (c_quote :: [x40; x5b] ++ ft ++ [x5d] ++ [c_tab] ++ sO)) by lst.
    replace (Z.of_nat (length sN + 1 + 1 + length qm)) with (zlen (sN ++ [c_tab] ++ [c_quote] ++ qm)) by zl. apply slice_suffix. }
  rewrite Hrest. cbn [idx].
  (* predicate / object split *)
  assert (Hft_nows : forall c, In c (c_quote :: [x40; x5b] ++ ft) -> re_space c = false).
  { intros c Hc. destruct Hc as [Hc|[Hc|[Hc|Hc]]]; try (subst c; reflexivity).
    destruct (re_space c) eqn:Ec; [|reflexivity]. exfalso. revert Hc. apply (anchor_text_no O p c Hp).
    unfold re_space in Ec. apply memb_In in Ec. cbn in Ec.
    destruct Ec as [Ec|[Ec|[Ec|[Ec|[Ec|[]]]]]]; subst c; reflexivity. }
  assert (Hos : o_split_from (c_quote :: [x40; x5b] ++ ft ++ [x5d] ++ [c_tab] ++ sO) (length sN + 1 + 1 + length qm)
                = Some (length sN + 1 + length sPh, length sN + 1 + length sPh + 3)%nat).
  { unfold o_split_from. rewrite Eo.
    replace (c_quote :: [x40; x5b] ++ ft ++ [x5d] ++ [c_tab] ++ d :: orest) with ((c_quote :: [x40; x5b] ++ ft) ++ x5d :: c_tab :: d :: orest) by lst.
    rewrite find_split_skip_nows by (try (apply no_ws_of_no; exact Hft_nows); reflexivity).
    replace (length sN + 1 + 1 + length qm + length (c_quote :: [x40; x5b] ++ ft))%nat with (length sN + 1 + length sPh)%nat
      by (unfold sPh; cbn [app length]; rewrite !app_length; cbn [length]; lia).
    apply find_split_hit; [exact Hdc|].
    apply memb_In in Hdc. cbn in Hdc. destruct Hdc as [X|[X|[]]]; subst d; reflexivity. }
  rewrite Hos.
  assert (Hss : slice raw 0 (Z.of_nat (length sN - 1) + 1) = Some sN).
  { replace (Z.of_nat (length sN - 1) + 1)%Z with (zlen sN) by (unfold zlen; lia). rewrite Hraw. apply slice_prefix. }
  rewrite Hss. cbn [idx].
  assert (Hsp2 : slice raw (Z.of_nat (length sN + 2) - 1) (Z.of_nat (length sN + 1 + length sPh) + 1) = Some sP).
  { rewrite Hraw. replace (sN ++ [c_tab] ++ sP ++ [c_tab] ++ sO) with ((sN ++ [c_tab]) ++ sP ++ ([c_tab] ++ sO)) by lst.
    replace (Z.of_nat (length sN + 2) - 1)%Z with (zlen (sN ++ [c_tab])) by zl.
    replace (Z.of_nat (length sN + 1 + length sPh) + 1)%Z with (zlen (sN ++ [c_tab]) + zlen sP)%Z by (rewrite EsP; zl).
    apply slice_app_mid. }
  rewrite Hsp2. cbn [idx].
  assert (Hso : slice raw (Z.of_nat (length sN + 1 + length sPh + 3) - 1) (zlen raw) = Some sO).
  { rewrite Hraw. replace (sN ++ [c_tab] ++ sP ++ [c_tab] ++ sO) with ((sN ++ [c_tab] ++ sP ++ [c_tab]) ++ sO) by lst.
    replace (Z.of_nat (length sN + 1 + length sPh + 3) - 1)%Z with (zlen (sN ++ [c_tab] ++ sP ++ [c_tab])) by (rewrite EsP; zl).
    apply slice_suffix. }
  rewrite Hso. cbn [idx].
  unfold sN. rewrite (node_roundtrip _ Hs). unfold sP. rewrite (pred_roundtrip_g O Q _ Hp).
  unfold sO. rewrite (object_roundtrip_g O Q _ Ho). reflexivity.
Qed.

End WithOracles3.

(* ---------------------------------------------------------------- the documented domain lies in the generalised one *)
Section Instances.
Variable O : oracles.
Hypothesis L : oracle_laws O.

Lemma dom_pred_g : forall p, dom_pred p = true -> gdom_pred O p.
Proof.
  intros p H. unfold dom_pred in H. apply andb_true_iff in H. destruct H as [H1 H2]. split; [exact H1|].
  destruct (panchor p) as [t|]; [apply (law_time O L); exact H2 | exact I].
Qed.

Lemma dom_literal_g : forall l, dom_literal l = true -> gdom_literal O l.
Proof.
  intros l H. unfold dom_literal in H. apply andb_true_iff in H. destruct H as [H1 H2]. split; [exact H1|].
  destruct l; try exact I. apply (law_float O L). exact H2.
Qed.

Lemma dom_object_g : forall o, dom_object o = true -> gdom_object O o.
Proof.
  intros [n|p|l|] H; cbn [dom_object gdom_object] in *; [exact H | apply dom_pred_g; exact H | apply dom_literal_g; exact H | discriminate].
Qed.

Lemma dom_triple_g : forall t, dom_triple t = true -> gdom_triple O t.
Proof.
  intros t H. unfold dom_triple in H.
  apply andb_true_iff in H. destruct H as [H Ho]. apply andb_true_iff in H. destruct H as [H Hp].
  apply andb_true_iff in H. destruct H as [Hs Hff].
  repeat split; try assumption; [apply dom_pred_g; exact Hp | apply dom_pred_g; exact Hp | apply dom_object_g; exact Ho].
Qed.

Lemma pred_roundtrip : forall p, dom_pred p = true -> parse_pred O (print_pred O p) = Ok p.
Proof. intros p H. apply (pred_roundtrip_g O (law_quote O L)). apply dom_pred_g. exact H. Qed.

Lemma literal_roundtrip : forall l, dom_literal l = true -> parse_literal O (print_literal O l) = Ok l.
Proof. intros l H. apply literal_roundtrip_g. apply dom_literal_g. exact H. Qed.

Lemma object_roundtrip : forall o, dom_object o = true -> parse_object O (print_object O o) = Ok o.
Proof. intros o H. apply (object_roundtrip_g O (law_quote O L)). apply dom_object_g. exact H. Qed.

Lemma triple_roundtrip : forall t, dom_triple t = true -> parse_triple O (print_triple O t) = Ok t.
Proof. intros t H. apply (triple_roundtrip_g O (law_quote O L)). apply dom_triple_g. exact H. Qed.

End Instances.
