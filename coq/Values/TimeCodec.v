(* A Go-faithful codec for time.RFC3339Nano ("2006-01-02T15:04:05.999999999Z07:00") on (instant, zone offset):
   fmt_rfc3339nano follows Time.Format, parse_rfc3339nano follows what time.Parse accepts for that layout:
     YYYY-MM-DD T (H|HH) : MM : SS [ (.|,) digits+ ] ( Z | (+|-)HH:MM )
   (4-digit year, 2-digit month/day/minute/second, 1- or 2-digit hour, fraction with '.' or ',' and any number of digits of
   which the first nine count, zone hour <= 24 and zone minute <= 60 as in Go, day checked against the month length,
   hour < 24, minute < 60, second < 60 (no leap second), nothing after the zone).
   Proleptic Gregorian calendar through days-before-year and a cumulative month table (not Hinnant's formulas: every
   lemma needs at most a handful of divisions).  Definitions only; compared with Go by h_values -mode time. *)
From Coq Require Import List NArith ZArith Bool.
From Coq.Strings Require Import Byte.
Import ListNotations.
From BWValues Require Import Bytes Values Codec Uuid.
Open Scope Z_scope.

(* ---- calendar: day numbers count from 0000-01-01 (day 0); the Unix epoch is day 719528 *)
Definition epoch_day : Z := 719528.

(* days before 1 January of year y (y >= 0; year 0 is a leap year) *)
Definition dby (y : Z) : Z := 365 * y + (y + 3) / 4 - (y + 99) / 100 + (y + 399) / 400.

Definition is_leap (y : Z) : bool := (y mod 4 =? 0) && (negb (y mod 100 =? 0) || (y mod 400 =? 0)).

Definition leap_add (lp : bool) : Z := if lp then 1 else 0.

(* days before the first of month m in a (leap) year; cum 13 = length of the year *)
Definition cum (lp : bool) (m : Z) : Z :=
  match m with
  | 1 => 0 | 2 => 31 | 3 => 59 + leap_add lp | 4 => 90 + leap_add lp | 5 => 120 + leap_add lp
  | 6 => 151 + leap_add lp | 7 => 181 + leap_add lp | 8 => 212 + leap_add lp | 9 => 243 + leap_add lp
  | 10 => 273 + leap_add lp | 11 => 304 + leap_add lp | 12 => 334 + leap_add lp | 13 => 365 + leap_add lp
  | _ => 0
  end.

Definition days_in_month (lp : bool) (m : Z) : Z := cum lp (m + 1) - cum lp m.

Definition year_of_day (n : Z) : Z :=
  let y0 := 400 * n / 146097 in
  if n <? dby y0 then y0 - 1 else if dby (y0 + 1) <=? n then y0 + 1 else y0.

Definition month_of_doy (lp : bool) (doy : Z) : Z :=
  if doy <? cum lp 2 then 1 else if doy <? cum lp 3 then 2 else if doy <? cum lp 4 then 3
  else if doy <? cum lp 5 then 4 else if doy <? cum lp 6 then 5 else if doy <? cum lp 7 then 6
  else if doy <? cum lp 8 then 7 else if doy <? cum lp 9 then 8 else if doy <? cum lp 10 then 9
  else if doy <? cum lp 11 then 10 else if doy <? cum lp 12 then 11 else 12.

Definition civil_of_day (n : Z) : Z * Z * Z :=
  let y := year_of_day n in
  let doy := n - dby y in
  let m := month_of_doy (is_leap y) doy in
  (y, m, doy - cum (is_leap y) m + 1).

Definition day_of_civil (y m d : Z) : Z := dby y + cum (is_leap y) m + d - 1.

(* ---- decimal fields *)
Definition digit (k : Z) : byte := byte_of_N (Z.to_N (48 + k mod 10)).
Definition dval (c : byte) : option Z :=
  let n := Z.of_N (Byte.to_N c) in if (48 <=? n) && (n <=? 57) then Some (n - 48) else None.

Definition pad2 (v : Z) : str := [digit (v / 10); digit v].
Definition pad4 (v : Z) : str := [digit (v / 1000); digit (v / 100); digit (v / 10); digit v].
Definition digits9 (v : Z) : str :=
  [digit (v / 100000000); digit (v / 10000000); digit (v / 1000000); digit (v / 100000); digit (v / 10000);
   digit (v / 1000); digit (v / 100); digit (v / 10); digit v].

Fixpoint drop_zeros (l : str) : str :=   (* leading zeros of a reversed digit string *)
  match l with
  | x30 :: r => drop_zeros r
  | _ => l
  end.
Definition trim_zeros (l : str) : str := rev (drop_zeros (rev l)).

(* ---- Time.Format(RFC3339Nano) *)
Record civil := mkCivil { c_year : Z; c_month : Z; c_day : Z; c_hour : Z; c_min : Z; c_sec : Z; c_nsec : Z }.

(* local wall clock of an instant in a zone *)
Definition civil_of (t : time) : civil :=
  let ls := t_ns t / 1000000000 + t_off t in
  let sod := ls mod 86400 in
  match civil_of_day (ls / 86400 + epoch_day) with
  | (y, m, d) => mkCivil y m d (sod / 3600) (sod / 60 mod 60) (sod mod 60) (t_ns t mod 1000000000)
  end.

Definition fmt_frac (nsec : Z) : str := if nsec =? 0 then [] else x2e :: trim_zeros (digits9 nsec).

Definition fmt_zone (off : Z) : str :=
  if off =? 0 then [x5a]
  else let a := Z.abs off / 60 in
       (if off <? 0 then x2d else x2b) :: pad2 (a / 60) ++ [x3a] ++ pad2 (a mod 60).

Definition fmt_civil (c : civil) (off : Z) : str :=
  pad4 (c_year c) ++ [x2d] ++ pad2 (c_month c) ++ [x2d] ++ pad2 (c_day c) ++ [x54] ++
  pad2 (c_hour c) ++ [x3a] ++ pad2 (c_min c) ++ [x3a] ++ pad2 (c_sec c) ++ fmt_frac (c_nsec c) ++ fmt_zone off.

Definition fmt_rfc3339nano (t : time) : str := fmt_civil (civil_of t) (t_off t).

(* ---- time.Parse(RFC3339Nano, .) *)
Definition take1 (s : str) : option (Z * str) :=
  match s with c :: r => match dval c with Some v => Some (v, r) | None => None end | [] => None end.

Definition take2 (s : str) : option (Z * str) :=
  match take1 s with
  | Some (a, r) => match take1 r with Some (b, r') => Some (10 * a + b, r') | None => None end
  | None => None
  end.

Definition take4 (s : str) : option (Z * str) :=
  match take2 s with
  | Some (a, r) => match take2 r with Some (b, r') => Some (100 * a + b, r') | None => None end
  | None => None
  end.

(* getnum(value, false): one digit when the second byte is no digit *)
Definition take_1or2 (s : str) : option (Z * str) :=
  match take1 s with
  | Some (a, r) => match take1 r with Some (b, r') => Some (10 * a + b, r') | None => Some (a, r) end
  | None => None
  end.

Definition expect (c : byte) (s : str) : option str :=
  match s with d :: r => if Byte.eqb c d then Some r else None | [] => None end.

(* the digits at the head of s *)
Fixpoint digit_run (s : str) : list Z * str :=
  match s with
  | c :: r => match dval c with
              | Some v => let (ds, r') := digit_run r in (v :: ds, r')
              | None => ([], s)
              end
  | [] => ([], [])
  end.

(* the first nine digits count, scaled to nanoseconds; later digits are dropped (Go truncates) *)
Fixpoint frac_val (ds : list Z) (w : Z) : Z :=
  match ds with
  | [] => 0
  | d :: r => d * w + frac_val r (w / 10)
  end.

Definition take_frac (s : str) : Z * str :=
  match s with
  | c :: r =>
      if Byte.eqb c x2e || Byte.eqb c x2c then
        match digit_run r with
        | ([], _) => (0, s)                      (* fraction omitted *)
        | (ds, r') => (frac_val ds 100000000, r')
        end
      else (0, s)
  | [] => (0, s)
  end.

Definition take_zone (s : str) : option (Z * str) :=
  match s with
  | [] => None
  | sg :: r =>
      if Byte.eqb sg x5a then Some (0, r)
      else
      match take2 r with
      | Some (hh, r1) =>
          match expect x3a r1 with
          | Some r2 =>
              match take2 r2 with
              | Some (mm, r3) =>
                  if (24 <? hh) || (60 <? mm) then None
                  else if Byte.eqb sg x2b then Some ((hh * 60 + mm) * 60, r3)
                  else if Byte.eqb sg x2d then Some (- ((hh * 60 + mm) * 60), r3)
                  else None
              | None => None
              end
          | None => None
          end
      | None => None
      end
  end.

Definition bind {A B : Type} (o : option A) (k : A -> option B) : option B :=
  match o with Some a => k a | None => None end.

Definition parse_civil (s : str) : option (civil * Z) :=
  bind (take4 s) (fun '(y, s) => bind (expect x2d s) (fun s =>
  bind (take2 s) (fun '(m, s) => bind (expect x2d s) (fun s =>
  bind (take2 s) (fun '(d, s) => bind (expect x54 s) (fun s =>
  bind (take_1or2 s) (fun '(hh, s) => bind (expect x3a s) (fun s =>
  bind (take2 s) (fun '(mi, s) => bind (expect x3a s) (fun s =>
  bind (take2 s) (fun '(ss, s) =>
  let (ns, s) := take_frac s in
  bind (take_zone s) (fun '(off, s) =>
  match s with
  | [] =>
      if (m <? 1) || (12 <? m) || (d <? 1) || (days_in_month (is_leap y) m <? d)
         || (24 <=? hh) || (60 <=? mi) || (60 <=? ss)
      then None else Some (mkCivil y m d hh mi ss ns, off)
  | _ => None
  end)))))))))))).

Definition time_of_civil (c : civil) (off : Z) : time :=
  let days := day_of_civil (c_year c) (c_month c) (c_day c) - epoch_day in
  let ls := days * 86400 + c_hour c * 3600 + c_min c * 60 + c_sec c in
  mkTime ((ls - off) * 1000000000 + c_nsec c) off.

Definition parse_rfc3339nano (s : str) : option time :=
  match parse_civil s with Some (c, off) => Some (time_of_civil c off) | None => None end.

(* ---- comparison with Go (cases written by h_values -mode time) *)
Inductive tcase :=
| TFmt (t : time) (text : str)            (* Time.Format of t *)
| TParse (inp : str) (res : option time). (* time.Parse of inp: None = error *)

Definition opt_time_eqb' (a b : option time) : bool :=
  match a, b with
  | None, None => true
  | Some x, Some y => time_eqb x y
  | _, _ => false
  end.

Definition tagrees (c : tcase) : bool :=
  match c with
  | TFmt t text => str_eqb (fmt_rfc3339nano t) text
  | TParse inp res => opt_time_eqb' (parse_rfc3339nano inp) res
  end.

Fixpoint tmismatches_from (i : N) (l : list tcase) : list N :=
  match l with
  | [] => []
  | c :: r => if tagrees c then tmismatches_from (i + 1)%N r else i :: tmismatches_from (i + 1)%N r
  end.
