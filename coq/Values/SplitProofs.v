(* Stability of the subject split of triple.Parse and of TrimSpace on prefixes: what makes "accepted triples print to
   text that is accepted again" hold without a condition on the subject type. *)
From Coq Require Import List NArith ZArith Bool Lia ZifyBool ZifyNat ZifyN.
From Coq.Strings Require Import Byte.
Import ListNotations.
From BWValues Require Import Bytes BytesProofs Values Codec Uuid Io Dom CodecProofs UuidProofs RoundTrip.

(* ---- TrimSpace on a prefix of a trimmed text *)
Lemma strip_one_some : forall seqs s s', strip_one seqs s = Some s' -> exists q, In q seqs /\ s = q ++ s'.
Proof.
  induction seqs as [|q seqs IH]; intros s s' H; [discriminate|]. cbn [strip_one] in H.
  destruct (prefixb q s) eqn:E.
  - inversion H. subst. apply prefixb_spec in E. destruct E as [r Hr]. exists q. split; [left; reflexivity|].
    subst s. rewrite skipn_app, skipn_all, Nat.sub_diag. reflexivity.
  - destruct (IH _ _ H) as [q' [Hin Hs]]. exists q'. split; [right; exact Hin | exact Hs].
Qed.

Lemma strip_one_none_iff : forall seqs s, strip_one seqs s = None <-> forall q, In q seqs -> prefixb q s = false.
Proof.
  induction seqs as [|q seqs IH]; intros s; cbn [strip_one].
  - split; [intros _ q [] | reflexivity].
  - destruct (prefixb q s) eqn:E.
    + split; [discriminate|]. intros H. specialize (H q (or_introl eq_refl)). congruence.
    + rewrite IH. split.
      * intros H q' [X|X]; [subst; exact E | exact (H _ X)].
      * intros H q' X. apply H. right. exact X.
Qed.

Lemma prefixb_app_l : forall q a b, prefixb q a = true -> prefixb q (a ++ b) = true.
Proof.
  intros q a b H. apply prefixb_spec in H. destruct H as [r Hr]. subst a. rewrite <- app_assoc. apply prefixb_app.
Qed.

Lemma strip_one_none_of_prefix : forall seqs a b, strip_one seqs (a ++ b) = None -> strip_one seqs a = None.
Proof.
  intros seqs a b H. apply strip_one_none_iff. intros q Hq. rewrite strip_one_none_iff in H.
  destruct (prefixb q a) eqn:E; [|reflexivity]. specialize (H q Hq). rewrite (prefixb_app_l _ _ b E) in H. discriminate.
Qed.

Definition seqs_nonempty (seqs : list str) : Prop := forall q, In q seqs -> q <> [].

(* with enough fuel the result of trim_left_fuel has no blank sequence in front, and is a suffix of the input *)
Lemma trim_left_fuel_spec : forall seqs, seqs_nonempty seqs -> forall f s, (length s <= f)%nat ->
  strip_one seqs (trim_left_fuel seqs f s) = None /\ exists a, s = a ++ trim_left_fuel seqs f s.
Proof.
  intros seqs Hne. induction f as [|f IH]; intros s Hl.
  - destruct s; [|cbn in Hl; lia]. cbn [trim_left_fuel]. split; [|exists []; reflexivity].
    apply strip_one_none_iff. intros q Hq. destruct q; [exfalso; exact (Hne _ Hq eq_refl) | reflexivity].
  - cbn [trim_left_fuel]. destruct (strip_one seqs s) as [s'|] eqn:E.
    + destruct (strip_one_some _ _ _ E) as [q [Hin Hs]].
      assert (Hl' : (length s' <= f)%nat).
      { subst s. rewrite app_length in Hl. pose proof (Hne _ Hin). destruct q; [contradiction|]. cbn [length] in Hl. lia. }
      destruct (IH s' Hl') as [H1 [a Ha]]. split; [exact H1|]. exists (q ++ a). rewrite <- app_assoc, <- Ha. exact Hs.
    + split; [exact E | exists []; reflexivity].
Qed.

Lemma space_seqs_nonempty : seqs_nonempty space_seqs.
Proof. intros q Hq. cbn in Hq. repeat (destruct Hq as [Hq|Hq]; [subst q; discriminate|]). destruct Hq. Qed.

Lemma rev_space_seqs_nonempty : seqs_nonempty (map (@rev byte) space_seqs).
Proof. intros q Hq. cbn in Hq. repeat (destruct Hq as [Hq|Hq]; [subst q; discriminate|]). destruct Hq. Qed.

(* TrimSpace output: no blank sequence in front *)
Lemma trim_space_front : forall s, strip_one space_seqs (trim_space s) = None.
Proof.
  intros s. unfold trim_space, trim_right, trim_left.
  destruct (trim_left_fuel_spec _ space_seqs_nonempty (length s) s (le_n _)) as [H1 _].
  set (l := trim_left_fuel space_seqs (length s) s) in *.
  destruct (trim_left_fuel_spec _ rev_space_seqs_nonempty (length l) (rev l)) as [_ [a Ha]]; [rewrite rev_length; lia|].
  set (r := trim_left_fuel (map (@rev byte) space_seqs) (length l) (rev l)) in *.
  assert (El : l = rev r ++ rev a). { rewrite <- rev_app_distr, <- Ha. symmetry. apply rev_involutive. }
  rewrite El in H1. exact (strip_one_none_of_prefix _ _ _ H1).
Qed.

(* a non-empty prefix of a trimmed text that ends with '>' is itself trimmed *)
Lemma trim_space_prefix_gt : forall s m rest, trim_space s = (m ++ [c_gt]) ++ rest -> trim_space (m ++ [c_gt]) = m ++ [c_gt].
Proof.
  intros s m rest H. pose proof (trim_space_front s) as F. rewrite H in F. apply strip_one_none_of_prefix in F.
  unfold trim_space, trim_left.
  assert (E1 : trim_left_fuel space_seqs (length (m ++ [c_gt])) (m ++ [c_gt]) = m ++ [c_gt]).
  { destruct (length (m ++ [c_gt])); [reflexivity|]. cbn [trim_left_fuel]. rewrite F. reflexivity. }
  rewrite E1. unfold trim_right. rewrite rev_app_distr. cbn [rev app].
  rewrite trim_left_fuel_id by reflexivity. change (c_gt :: rev m) with (rev [c_gt] ++ rev m). rewrite <- rev_app_distr.
  apply rev_involutive.
Qed.
