(* io.ReadIntoGraph: prefix property, never panics; WriteGraph then ReadIntoGraph gives the graph back. *)
From Coq Require Import List NArith ZArith Bool Lia ZifyBool ZifyNat ZifyN Permutation.
From Coq.Strings Require Import Byte.
Import ListNotations.
From BWValues Require Import Bytes BytesProofs Values Codec Uuid Io Dom CodecProofs UuidProofs RoundTrip.

Section WithOracles.
Variable O : oracles.

(* the text of a raw line as the reader sees it *)
Definition line_text (l : str) : str := trim_space (drop_cr l).

(* a line that does not stop the reader: fits the scanner's buffer, and is blank or a triple *)
Definition line_ok (l : str) : Prop :=
  too_long l = false /\ (line_text l = [] \/ exists t, parse_triple O (line_text l) = Ok t).

(* a malformed line: does not fit the buffer, or is not blank and is not a triple *)
Definition line_bad (l : str) : Prop :=
  too_long l = true \/ (line_text l <> [] /\ forall t, parse_triple O (line_text l) <> Ok t).

(* the triples on the non-blank lines, in order *)
Fixpoint line_triples (ls : list str) : list triple :=
  match ls with
  | [] => []
  | l :: r => match line_text l with
              | [] => line_triples r
              | _ => match parse_triple O (line_text l) with
                     | Ok t => t :: line_triples r
                     | _ => line_triples r
                     end
              end
  end.

Lemma wf_triple_pre_ok : forall t, wf_triple t = true -> exists k, pre_triple t = Ok k.
Proof.
  intros t H. unfold wf_triple in H. apply andb_true_iff in H. destruct H as [_ Ho].
  unfold pre_triple. destruct (pre_object_defined (tobj t)) as [b Hb].
  - intros E. rewrite E in Ho. discriminate.
  - rewrite Hb. eauto.
Qed.

Lemma add_triple_ok : forall g t, wf_triple t = true -> exists g', add_triple g t = Ok g'.
Proof. intros g t H. unfold add_triple. destruct (wf_triple_pre_ok t H) as [k Hk]. rewrite Hk. eauto. Qed.

Lemma parse_triple_ok_wf : forall s t, parse_triple O s = Ok t -> wf_triple t = true.
Proof. intros s t H. exact (good_ok_wf _ _ _ _ (parse_triple_good O s) H). Qed.

Lemma parse_triple_not_ok : forall s, (forall t, parse_triple O s <> Ok t) -> parse_triple O s = Err.
Proof.
  intros s H. pose proof (parse_triple_good O s) as G. destruct (parse_triple O s) as [t| | |]; inversion G; subst.
  - exfalso. exact (H t eq_refl).
  - reflexivity.
Qed.

(* the reader on a prefix of good lines *)
Lemma read_lines_ok_prefix : forall pre rest c g, Forall line_ok pre ->
  exists g', add_all g (line_triples pre) = Ok g' /\
             read_lines O (pre ++ rest) c g = read_lines O rest (c + N.of_nat (length (line_triples pre)))%N g'.
Proof.
  induction pre as [|l pre IH]; intros rest c g Hok.
  - exists g. split; [reflexivity|]. cbn [app line_triples length]. f_equal. lia.
  - inversion Hok as [|l' pre' [Hlong Hl] Hpre]; subst.
    cbn [app read_lines line_triples]. rewrite Hlong. fold (line_text l).
    destruct Hl as [Hblank | [t Ht]].
    + rewrite Hblank. apply IH. exact Hpre.
    + destruct (line_text l) as [|c0 r0] eqn:El.
      * apply IH. exact Hpre.
      * rewrite Ht. destruct (add_triple_ok g t (parse_triple_ok_wf _ _ Ht)) as [g1 Hg1]. rewrite Hg1.
        destruct (IH rest (c + 1)%N g1 Hpre) as [g' [Ha Hr]]. exists g'. split.
        -- cbn [add_all]. rewrite Hg1. exact Ha.
        -- rewrite Hr. cbn [length]. f_equal. lia.
Qed.

(* exactly the triples on the lines before the first malformed line, and that count, and an error *)
Lemma read_lines_prefix : forall pre bad rest g, Forall line_ok pre -> line_bad bad ->
  exists g', add_all g (line_triples pre) = Ok g' /\
             read_lines O (pre ++ bad :: rest) 0 g = (N.of_nat (length (line_triples pre)), RErr, g').
Proof.
  intros pre bad rest g Hok Hbad.
  destruct (read_lines_ok_prefix pre (bad :: rest) 0%N g Hok) as [g' [Ha Hr]]. exists g'. split; [exact Ha|].
  rewrite Hr. cbn [read_lines]. destruct Hbad as [Hlong | [Hne Hnok]].
  - rewrite Hlong. f_equal.
  - destruct (too_long bad); [reflexivity|]. fold (line_text bad).
    destruct (line_text bad) as [|c0 r0] eqn:El; [contradiction|].
    rewrite (parse_triple_not_ok _ Hnok). reflexivity.
Qed.

(* no malformed line: everything is loaded, nil error *)
Lemma read_lines_all : forall ls g, Forall line_ok ls ->
  exists g', add_all g (line_triples ls) = Ok g' /\
             read_lines O ls 0 g = (N.of_nat (length (line_triples ls)), RNil, g').
Proof.
  intros ls g Hok. destruct (read_lines_ok_prefix ls [] 0%N g Hok) as [g' [Ha Hr]]. exists g'. split; [exact Ha|].
  rewrite app_nil_r in Hr. rewrite Hr. reflexivity.
Qed.

(* every line is ok or bad *)
Lemma line_ok_or_bad : forall l, line_ok l \/ line_bad l.
Proof.
  intros l. unfold line_ok, line_bad. destruct (too_long l); [right; left; reflexivity|].
  destruct (line_text l) as [|c0 r0] eqn:El; [left; split; [reflexivity | left; reflexivity]|].
  destruct (parse_triple O (c0 :: r0)) as [t| | |] eqn:Ep.
  - left. split; [reflexivity | right; eauto].
  - right. right. split; [discriminate | intros t H; discriminate].
  - right. right. split; [discriminate | intros t H; discriminate].
  - right. right. split; [discriminate | intros t H; discriminate].
Qed.

Lemma read_lines_no_panic : forall ls c g, snd (fst (read_lines O ls c g)) <> RPanic.
Proof.
  induction ls as [|l ls IH]; intros c g; cbn [read_lines]; [cbn [fst snd]; discriminate|].
  destruct (too_long l); [cbn [fst snd]; discriminate|].
  destruct (trim_space (drop_cr l)) as [|c0 r0] eqn:El; [apply IH|].
  pose proof (parse_triple_good O (c0 :: r0)) as G.
  destruct (parse_triple O (c0 :: r0)) as [t| | |] eqn:Ep; inversion G; subst; [|cbn [fst snd]; discriminate].
  destruct (add_triple_ok g t (parse_triple_ok_wf _ _ Ep)) as [g1 Hg1]. rewrite Hg1. apply IH.
Qed.

(* ---------------------------------------------------------------- write then read *)
Lemma raw_lines_aux_line : forall l rest cur, ~ In x0a l ->
  raw_lines_aux (l ++ x0a :: rest) cur = (rev cur ++ l) :: raw_lines_aux rest [].
Proof.
  induction l as [|c l IH]; intros rest cur Hl.
  - cbn [app raw_lines_aux]. replace (Byte.eqb x0a x0a) with true by reflexivity. rewrite app_nil_r. reflexivity.
  - cbn [app raw_lines_aux]. destruct (Byte.eqb c x0a) eqn:E.
    + apply beqb_eq in E. subst c. exfalso. apply Hl. left. reflexivity.
    + rewrite IH by (intros X; apply Hl; right; exact X). cbn [rev]. rewrite <- app_assoc. reflexivity.
Qed.

Lemma raw_lines_of_lines : forall ls, Forall (fun l => ~ In x0a l) ls ->
  raw_lines (concat (map (fun l => l ++ [x0a]) ls)) = ls.
Proof.
  unfold raw_lines. induction ls as [|l ls IH]; intros H; [reflexivity|].
  inversion H as [|l' ls' Hl Hr]; subst. cbn [map concat]. rewrite <- app_assoc. cbn [app].
  rewrite raw_lines_aux_line by exact Hl. cbn [rev app]. rewrite IH by exact Hr. reflexivity.
Qed.

Lemma insert_sorted_perm : forall x l, Permutation (insert_sorted x l) (x :: l).
Proof.
  intros x l. induction l as [|y l IH]; cbn [insert_sorted]; [reflexivity|].
  destruct (str_ltb y x); [|reflexivity].
  rewrite IH. apply perm_swap.
Qed.

Lemma sort_strs_perm : forall l, Permutation (sort_strs l) l.
Proof.
  induction l as [|x l IH]; [reflexivity|]. cbn [sort_strs fold_right].
  fold (sort_strs l). rewrite insert_sorted_perm. constructor. exact IH.
Qed.

Hypothesis Q : quote_laws O.

(* a printed domain triple is a line the reader accepts, giving that triple *)
Lemma printed_line : forall t, gdom_triple O t ->
  exists c m d, print_triple O t = c :: m ++ [d] /\ first_ok c = true /\ last_ok d = true /\ d <> x0d.
Proof.
  intros [s p o] Hd. destruct Hd as [Hs [_ [_ Ho]]]. cbn [subj tobj] in *.
  unfold dom_node, wf_node in Hs. apply andb_true_iff in Hs. destruct Hs as [Hs _]. apply andb_true_iff in Hs. destruct Hs as [Hty _].
  destruct (type_ok_shape _ Hty) as [tr Htr].
  destruct (print_object_last O Q o Ho) as [om [od [Eo Hod]]].
  exists c_slash, (tr ++ [c_lt] ++ nid s ++ [c_gt] ++ [c_tab] ++ print_pred O p ++ [c_tab] ++ om), od.
  repeat split; try assumption; try reflexivity.
  - unfold print_triple, print_node. cbn [subj tpred tobj]. rewrite Htr, Eo. lst.
  - intros X. subst od. discriminate.
Qed.

Lemma drop_cr_id : forall m d, d <> x0d -> drop_cr (m ++ [d]) = m ++ [d].
Proof.
  intros m d H. unfold drop_cr. rewrite rev_app_distr. cbn [rev app].
  destruct d; try reflexivity. contradiction.
Qed.

Lemma printed_line_text : forall t, gdom_triple O t -> line_text (print_triple O t) = print_triple O t.
Proof.
  intros t Hd. destruct (printed_line t Hd) as [c [m [d [E [Hc [Hl Hd0]]]]]]. unfold line_text. rewrite E.
  change (c :: m ++ [d]) with ((c :: m) ++ [d]). rewrite drop_cr_id by exact Hd0. cbn [app].
  apply trim_space_id; assumption.
Qed.

Lemma printed_lines_ok : forall ts, Forall (gdom_triple O) ts ->
  Forall (fun t => too_long (print_triple O t) = false) ts ->
  Forall line_ok (map (print_triple O) ts) /\ line_triples (map (print_triple O) ts) = ts.
Proof.
  induction ts as [|t ts IH]; intros Hd Hl; [split; [constructor | reflexivity]|].
  inversion Hd as [|t' ts' Hdt Hdts]; subst. inversion Hl as [|t' ts' Hlt Hlts]; subst.
  destruct (IH Hdts Hlts) as [IH1 IH2].
  pose proof (printed_line_text t Hdt) as Et. pose proof (triple_roundtrip_g O Q t Hdt) as Ep.
  destruct (printed_line t Hdt) as [c [m [d [E _]]]].
  split.
  - cbn [map]. constructor; [|exact IH1]. split; [exact Hlt|]. right. exists t. rewrite Et. exact Ep.
  - cbn [map line_triples]. rewrite Et. rewrite E at 1. rewrite Ep. rewrite IH2. reflexivity.
Qed.

(* reading the lines printed from domain triples adds exactly those triples and reports their number *)
Lemma read_printed : forall ts g, Forall (gdom_triple O) ts ->
  Forall (fun t => too_long (print_triple O t) = false) ts ->
  exists g', add_all g ts = Ok g' /\ read_lines O (map (print_triple O) ts) 0 g = (N.of_nat (length ts), RNil, g').
Proof.
  intros ts g Hd Hl. destruct (printed_lines_ok ts Hd Hl) as [H1 H2].
  destruct (read_lines_all _ g H1) as [g' [Ha Hr]]. rewrite H2 in Ha, Hr. eauto.
Qed.

End WithOracles.

(* ---------------------------------------------------------------- keys of the graph *)
Lemma key_eqb_eq : forall a b, key_eqb a b = true <-> a = b.
Proof.
  intros [[a1 a2] a3] [[b1 b2] b3]. unfold key_eqb. rewrite !andb_true_iff, !str_eqb_eq. split.
  - intros [[H1 H2] H3]. congruence.
  - intros H. inversion H. auto.
Qed.

Lemma g_put_keys : forall g k t x, In x (map fst (g_put g k t)) <-> x = k \/ In x (map fst g).
Proof.
  induction g as [|[k' t'] g IH]; intros k t x; cbn [g_put map fst In].
  - split; [intros [H|[]]; auto | intros [H|[]]; auto].
  - destruct (key_eqb k k') eqn:E.
    + apply key_eqb_eq in E. subst k'. cbn [map fst In]. split; [intros [H|H]; auto | intros [H|[H|H]]; auto].
    + cbn [map fst In]. rewrite IH. split; [intros [H|[H|H]]; auto | intros [H|[H|H]]; auto].
Qed.

Definition keys_of (ts : list triple) (k : key) : Prop := exists t, In t ts /\ pre_triple t = Ok k.

Lemma add_all_keys : forall ts g g', add_all g ts = Ok g' ->
  forall k, In k (map fst g') <-> In k (map fst g) \/ keys_of ts k.
Proof.
  induction ts as [|t ts IH]; intros g g' H k; cbn [add_all] in H.
  - inversion H. subst. split; [auto | intros [X|[t [[] _]]]; exact X].
  - unfold add_triple in H. destruct (pre_triple t) as [kt| | |] eqn:Ek; try discriminate.
    rewrite (IH _ _ H k). rewrite g_put_keys. unfold keys_of. split.
    + intros [[X|X]|[t' [Hin Hk]]]; [right; exists t; subst; split; [left; reflexivity | exact Ek] | left; exact X | right; exists t'; split; [right; exact Hin | exact Hk]].
    + intros [X|[t' [[Hin|Hin] Hk]]]; [left; right; exact X | subst t'; left; left; congruence | right; exists t'; auto].
Qed.

Definition graph_consistent (g : graph) : Prop := Forall (fun e => pre_triple (snd e) = Ok (fst e)) g.

Lemma consistent_keys : forall g, graph_consistent g -> forall k, In k (map fst g) <-> keys_of (map snd g) k.
Proof.
  intros g H k. unfold keys_of. split.
  - intros Hin. apply in_map_iff in Hin. destruct Hin as [[k' t] [E Hin]]. cbn in E. subst k'.
    exists t. split; [apply in_map_iff; exists (k, t); auto|]. unfold graph_consistent in H. rewrite Forall_forall in H. exact (H _ Hin).
  - intros [t [Hin Hk]]. apply in_map_iff in Hin. destruct Hin as [[k' t'] [E Hin]]. cbn in E. subst t'.
    unfold graph_consistent in H. rewrite Forall_forall in H. specialize (H _ Hin). cbn in H. rewrite Hk in H. inversion H. subst k'.
    apply in_map_iff. exists (k, t). auto.
Qed.

Lemma keys_of_perm : forall a b k, Permutation a b -> keys_of a k -> keys_of b k.
Proof. intros a b k P [t [Hin Hk]]. exists t. split; [exact (Permutation_in _ P Hin) | exact Hk]. Qed.

Section GraphRoundTrip.
Variable O : oracles.
Hypothesis Q : quote_laws O.

Theorem graph_roundtrip_g : forall g : graph,
  graph_consistent g ->
  Forall (fun e => gdom_triple O (snd e)) g ->
  Forall (fun e => too_long (print_triple O (snd e)) = false /\ ~ In x0a (print_triple O (snd e))) g ->
  fst (write_graph O g) = N.of_nat (length g) /\
  exists g', read_into_graph O [] (snd (write_graph O g)) = (N.of_nat (length g), RNil, g') /\
             forall k, In k (map fst g') <-> In k (map fst g).
Proof.
  intros g Hc Hd Hl. split; [reflexivity|].
  unfold write_graph, read_into_graph. cbn [snd].
  set (ts := map snd g).
  assert (Hlist : listing O g = sort_strs (map (print_triple O) ts)).
  { unfold listing, ts. rewrite map_map. reflexivity. }
  destruct (@Permutation_map_inv _ _ (print_triple O) _ ts (sort_strs_perm (map (print_triple O) ts))) as [ts' [Els Hperm]].
  rewrite Hlist, Els.
  assert (Hd' : Forall (gdom_triple O) ts').
  { apply (Permutation_Forall Hperm). unfold ts. rewrite Forall_map. exact Hd. }
  assert (Hl' : Forall (fun t => too_long (print_triple O t) = false /\ ~ In x0a (print_triple O t)) ts').
  { apply (Permutation_Forall Hperm). unfold ts. rewrite Forall_map. exact Hl. }
  rewrite raw_lines_of_lines.
  - destruct (read_printed O Q ts' [] Hd') as [g' [Ha Hr]].
    { eapply Forall_impl; [|exact Hl']. intros t [H _]. exact H. }
    exists g'. assert (Hlen : length ts' = length g).
    { rewrite <- (Permutation_length Hperm). unfold ts. apply map_length. }
    rewrite Hr, Hlen. split; [reflexivity|].
    intros k. rewrite (add_all_keys _ _ _ Ha k). rewrite (consistent_keys g Hc k). fold ts. split.
    + intros [[]|X]. exact (keys_of_perm _ _ _ (Permutation_sym Hperm) X).
    + intros X. right. exact (keys_of_perm _ _ _ Hperm X).
  - rewrite Forall_map. eapply Forall_impl; [|exact Hl']. intros t [_ H]. exact H.
Qed.

End GraphRoundTrip.

(* ---------------------------------------------------------------- a printed domain triple has no newline byte *)
Section NoNewline.
Variable O : oracles.
Hypothesis Q : quote_laws O.

Lemma in_app3 : forall (A : Type) (x : A) a b c, In x (a ++ b ++ c) -> In x a \/ In x b \/ In x c.
Proof. intros A x a b c H. apply in_app_or in H. destruct H as [H|H]; [auto|]. apply in_app_or in H. tauto. Qed.

Lemma type_ok_no_nl : forall t, type_ok t = true -> ~ In x0a t.
Proof.
  intros t H Hin. unfold type_ok in H. apply andb_true_iff in H. destruct H as [H _]. apply andb_true_iff in H. destruct H as [H _].
  apply negb_true_iff in H.
  assert (X : existsb (fun c => memb c [x20; x09; x0a; x0d]) t = true) by (apply existsb_exists; exists x0a; split; [exact Hin | reflexivity]).
  congruence.
Qed.

Lemma print_node_no_nl : forall n, wf_node n = true -> no_nl (nid n) = true -> ~ In x0a (print_node n).
Proof.
  intros n Hw Hid Hin. unfold wf_node in Hw. apply andb_true_iff in Hw. destruct Hw as [Ht _].
  unfold print_node in Hin. apply in_app_or in Hin. destruct Hin as [Hin|Hin]; [exact (type_ok_no_nl _ Ht Hin)|].
  apply in_app3 in Hin. destruct Hin as [Hin|[Hin|Hin]].
  - destruct Hin as [Hin|[]]. discriminate.
  - unfold no_nl in Hid. apply negb_true_iff in Hid. apply memb_false in Hid. exact (Hid Hin).
  - destruct Hin as [Hin|[]]. discriminate.
Qed.

Lemma print_pred_no_nl : forall p, gdom_pred O p -> ~ In x0a (print_pred O p).
Proof.
  intros p Hd Hin. unfold print_pred in Hin. apply in_app_or in Hin. destruct Hin as [Hin|Hin]; [exact (law_quote_nl O Q _ Hin)|].
  apply in_app3 in Hin. destruct Hin as [Hin|[Hin|Hin]].
  - destruct Hin as [Hin|[Hin|[]]]; discriminate.
  - revert Hin. apply (anchor_text_no O p x0a Hd). reflexivity.
  - destruct Hin as [Hin|[]]. discriminate.
Qed.

Lemma fmt_int_no_nl : forall z, ~ In x0a (fmt_int z).
Proof.
  intros z H. unfold fmt_int in H. destruct (Z.to_int z) as [d|d].
  - apply uint_to_bytes_digits in H. cbn in H. lia.
  - destruct H as [H|H]; [discriminate|]. apply uint_to_bytes_digits in H. cbn in H. lia.
Qed.

Lemma join_no : forall c sep l, ~ In c sep -> (forall x, In x l -> ~ In c x) -> ~ In c (join sep l).
Proof.
  intros c sep l Hs. induction l as [|a l IH]; intros Hl Hin; [destruct Hin|].
  destruct l as [|b l]; cbn [join] in Hin.
  - exact (Hl a (or_introl eq_refl) Hin).
  - apply in_app3 in Hin. destruct Hin as [Hin|[Hin|Hin]].
    + exact (Hl a (or_introl eq_refl) Hin).
    + exact (Hs Hin).
    + apply IH; [intros x Hx; apply Hl; right; exact Hx | exact Hin].
Qed.

Lemma print_literal_no_nl : forall l, gdom_literal O l -> match l with LText s => no_nl s = true | _ => True end ->
  ~ In x0a (print_literal O l).
Proof.
  intros l Hd Hs Hin. unfold print_literal in Hin. apply in_app3 in Hin. destruct Hin as [Hin|[Hin|Hin]].
  - destruct Hin as [Hin|[]]. discriminate.
  - destruct l as [b|z|b|s|bs]; cbn [print_lit_value] in Hin.
    + destruct b; apply memb_In in Hin; discriminate.
    + exact (fmt_int_no_nl _ Hin).
    + destruct Hd as [_ [_ Hn]]. exact (Hn Hin).
    + unfold no_nl in Hs. apply negb_true_iff in Hs. apply memb_false in Hs. exact (Hs Hin).
    + apply in_app3 in Hin. destruct Hin as [Hin|[Hin|Hin]].
      * destruct Hin as [Hin|[]]. discriminate.
      * revert Hin. apply join_no; [intros [X|[]]; discriminate|].
        intros x Hx Hc. apply in_map_iff in Hx. destruct Hx as [y [Hy _]]. subst x.
        unfold fmt_uint8 in Hc. apply uint_to_bytes_digits in Hc. cbn in Hc. lia.
      * destruct Hin as [Hin|[]]. discriminate.
  - apply in_app_or in Hin. destruct Hin as [Hin|Hin].
    + apply memb_In in Hin. discriminate.
    + destruct l; apply memb_In in Hin; discriminate.
Qed.

Lemma print_object_no_nl : forall o, gdom_object O o -> line_safe_object o = true -> ~ In x0a (print_object O o).
Proof.
  intros o Hd Hs. destruct o as [n|p|l|]; cbn [print_object gdom_object line_safe_object] in *.
  - unfold dom_node in Hd. apply andb_true_iff in Hd. destruct Hd as [Hw _]. apply print_node_no_nl; assumption.
  - apply print_pred_no_nl. exact Hd.
  - apply print_literal_no_nl; [exact Hd|]. destruct l; try exact I. exact Hs.
  - contradiction.
Qed.

Lemma print_triple_no_nl : forall t, gdom_triple O t -> no_nl (nid (subj t)) = true -> line_safe_object (tobj t) = true ->
  ~ In x0a (print_triple O t).
Proof.
  intros t [Hs [_ [Hp Ho]]] Hid Hls Hin. unfold print_triple in Hin.
  apply in_app_or in Hin. destruct Hin as [Hin|Hin].
  - unfold dom_node in Hs. apply andb_true_iff in Hs. destruct Hs as [Hw _]. exact (print_node_no_nl _ Hw Hid Hin).
  - apply in_app_or in Hin. destruct Hin as [Hin|Hin]; [destruct Hin as [Hin|[]]; discriminate|].
    apply in_app_or in Hin. destruct Hin as [Hin|Hin]; [exact (print_pred_no_nl _ Hp Hin)|].
    apply in_app_or in Hin. destruct Hin as [Hin|Hin]; [destruct Hin as [Hin|[]]; discriminate|].
    exact (print_object_no_nl _ Ho Hls Hin).
Qed.

End NoNewline.

(* ---------------------------------------------------------------- every graph built by AddTriples is consistent *)
Lemma g_put_consistent : forall g k t, graph_consistent g -> pre_triple t = Ok k -> graph_consistent (g_put g k t).
Proof.
  induction g as [|[k' t'] g IH]; intros k t Hc Hk; cbn [g_put].
  - constructor; [exact Hk | constructor].
  - inversion Hc as [|e g' He Hg]; subst. destruct (key_eqb k k').
    + constructor; [exact Hk | exact Hg].
    + constructor; [exact He | apply IH; assumption].
Qed.

Lemma add_all_consistent : forall ts g g', graph_consistent g -> add_all g ts = Ok g' -> graph_consistent g'.
Proof.
  induction ts as [|t ts IH]; intros g g' Hc H; cbn [add_all] in H.
  - inversion H. subst. exact Hc.
  - unfold add_triple in H. destruct (pre_triple t) as [k| | |] eqn:Ek; try discriminate.
    apply (IH _ _ (g_put_consistent _ _ _ Hc Ek) H).
Qed.

Lemma empty_consistent : graph_consistent [].
Proof. constructor. Qed.

(* the triples stored in a graph built by AddTriples are among the triples added *)
Lemma g_put_triples : forall g k t e, In e (g_put g k t) -> e = (k, t) \/ In e g.
Proof.
  induction g as [|[k' t'] g IH]; intros k t e H; cbn [g_put] in H.
  - destruct H as [H|[]]. left. auto.
  - destruct (key_eqb k k').
    + destruct H as [H|H]; [left; auto | right; right; exact H].
    + destruct H as [H|H]; [right; left; exact H|]. destruct (IH _ _ _ H) as [X|X]; [left; exact X | right; right; exact X].
Qed.

Lemma add_all_triples : forall ts g g', add_all g ts = Ok g' -> forall e, In e g' -> In e g \/ In (snd e) ts.
Proof.
  induction ts as [|t ts IH]; intros g g' H e He; cbn [add_all] in H.
  - inversion H. subst. left. exact He.
  - unfold add_triple in H. destruct (pre_triple t) as [k| | |] eqn:Ek; try discriminate.
    destruct (IH _ _ H e He) as [X|X].
    + destruct (g_put_triples _ _ _ _ X) as [Y|Y]; [right; left; subst e; reflexivity | left; exact Y].
    + right. right. exact X.
Qed.
