(* io.ReadIntoGraph / io.WriteGraph over a minimal model of the memory graph's master index
   (a map from the triple's UUID pre-image to the triple; AddTriples overwrites).  Definitions only. *)
From Coq Require Import List NArith ZArith Bool.
From Coq.Strings Require Import Byte.
Import ListNotations.
From BWValues Require Import Bytes Values Codec Uuid.

Definition key := (str * str * str)%type.
Definition key_eqb (a b : key) : bool :=
  match a, b with (a1, a2, a3), (b1, b2, b3) => str_eqb a1 b1 && str_eqb a2 b2 && str_eqb a3 b3 end.

Definition graph := list (key * triple).

Fixpoint g_put (g : graph) (k : key) (t : triple) : graph :=
  match g with
  | [] => [(k, t)]
  | (k', t') :: r => if key_eqb k k' then (k, t) :: r else (k', t') :: g_put r k t
  end.

(* AddTriples of one triple; UUID() of an invalid object dereferences nil *)
Definition add_triple (g : graph) (t : triple) : outcome graph :=
  match pre_triple t with
  | Ok k => Ok (g_put g k t)
  | Panic s => Panic s
  | _ => Panic S_io_invalid_object
  end.

Definition exist (g : graph) (t : triple) : outcome bool :=
  match pre_triple t with
  | Ok k => Ok (existsb (fun e => key_eqb k (fst e)) g)
  | Panic s => Panic s
  | _ => Panic S_io_invalid_object
  end.

(* bufio.ScanLines: tokens are the pieces between newlines; a final piece without newline is a token when not empty.
   Raw pieces (before the trailing CR is dropped) *)
Fixpoint raw_lines_aux (s : str) (cur : str) : list str :=
  match s with
  | [] => match cur with [] => [] | _ => [rev cur] end
  | c :: r => if Byte.eqb c x0a then rev cur :: raw_lines_aux r [] else raw_lines_aux r (c :: cur)
  end.
Definition raw_lines (s : str) : list str := raw_lines_aux s [].

Definition drop_cr (l : str) : str :=
  match rev l with
  | x0d :: r => rev r
  | _ => l
  end.

(* bufio.Scanner: a token that does not fit the 64 KiB buffer stops the scan (ErrTooLong) *)
Definition too_long (l : str) : bool := (65536 <=? nlength l 0)%N.

Inductive rstatus := RNil | RErr | RPanic.

Section WithOracles.
Variable O : oracles.

Fixpoint read_lines (ls : list str) (cnt : N) (g : graph) : N * rstatus * graph :=
  match ls with
  | [] => (cnt, RNil, g)
  | l :: r =>
      if too_long l then (cnt, RErr, g)     (* F22: scanner.Err() = ErrTooLong is returned *)
      else
        let text := trim_space (drop_cr l) in
        match text with
        | [] => read_lines r cnt g
        | _ =>
            match parse_triple O text with
            | Ok t => match add_triple g t with
                      | Ok g' => read_lines r (cnt + 1)%N g'
                      | _ => (cnt, RPanic, g)
                      end
            | Panic _ => (cnt, RPanic, g)
            | _ => (cnt, RErr, g)
            end
        end
  end.

Definition read_into_graph (g : graph) (text : str) : N * rstatus * graph := read_lines (raw_lines text) 0%N g.

(* ---- listing: Triples() emits in the order of sort.Strings over Triple.String() *)
Fixpoint str_ltb (a b : str) : bool :=
  match a, b with
  | _, [] => false
  | [], _ :: _ => true
  | x :: a', y :: b' =>
      if (Byte.to_N x <? Byte.to_N y)%N then true
      else if (Byte.to_N y <? Byte.to_N x)%N then false
      else str_ltb a' b'
  end.

Fixpoint insert_sorted (x : str) (l : list str) : list str :=
  match l with
  | [] => [x]
  | y :: r => if str_ltb y x then y :: insert_sorted x r else x :: l
  end.
Definition sort_strs (l : list str) : list str := fold_right insert_sorted [] l.

Definition listing (g : graph) : list str := sort_strs (map (fun e => print_triple O (snd e)) g).

(* WriteGraph: one line per triple, count *)
Definition write_graph (g : graph) : N * str :=
  (N.of_nat (length g), concat (map (fun l => l ++ [x0a]) (listing g))).

Fixpoint add_all (g : graph) (ts : list triple) : outcome graph :=
  match ts with
  | [] => Ok g
  | t :: r => match add_triple g t with
              | Ok g' => add_all g' r
              | Panic s => Panic s
              | _ => Err
              end
  end.

End WithOracles.
