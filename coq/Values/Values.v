(* The value types of badwolf's triple package and their well-formedness (what the constructors enforce).
   Definitions only. *)
From Coq Require Import List NArith ZArith Bool String.
From Coq.Strings Require Import Byte.
Import ListNotations.
From BWValues Require Import Bytes.

Definition lit (s : string) : str := list_byte_of_string s.

(* node.Node: type and id *)
Record node := mkNode { ntype : str; nid : str }.

(* time.Time as the instant (nanoseconds since the Unix epoch, unbounded) and the zone offset in seconds east of UTC
   (what t.Zone() reports).  Format(RFC3339Nano) / Parse are oracles (Codec.v). *)
Record time := mkTime { t_ns : Z; t_off : Z }.

(* predicate.Predicate: id and optional anchor (nil = immutable) *)
Record pred := mkPred { pid : str; panchor : option time }.

(* literal.Literal: float64 is its IEEE-754 bit pattern *)
Inductive literal :=
| LBool (b : bool)
| LInt (z : Z)
| LFloat (bits : N)
| LText (s : str)
| LBlob (b : str).

(* triple.Object: a box with one of three components; OInvalid = all three nil (what ParseObject built from
   literal.Parse's (nil, nil) before fix F3; printed as @@@INVALID_OBJECT@@@) *)
Inductive object :=
| ONode (n : node)
| OPred (p : pred)
| OLit (l : literal)
| OInvalid.

Record triple := mkTriple { subj : node; tpred : pred; tobj : object }.

(* ---- boolean equalities *)
Definition node_eqb (a b : node) : bool := str_eqb (ntype a) (ntype b) && str_eqb (nid a) (nid b).
Definition time_eqb (a b : time) : bool := Z.eqb (t_ns a) (t_ns b) && Z.eqb (t_off a) (t_off b).
Definition opt_time_eqb (a b : option time) : bool :=
  match a, b with
  | None, None => true
  | Some x, Some y => time_eqb x y
  | _, _ => false
  end.
Definition pred_eqb (a b : pred) : bool := str_eqb (pid a) (pid b) && opt_time_eqb (panchor a) (panchor b).
Definition literal_eqb (a b : literal) : bool :=
  match a, b with
  | LBool x, LBool y => Bool.eqb x y
  | LInt x, LInt y => Z.eqb x y
  | LFloat x, LFloat y => N.eqb x y
  | LText x, LText y => str_eqb x y
  | LBlob x, LBlob y => str_eqb x y
  | _, _ => false
  end.
Definition object_eqb (a b : object) : bool :=
  match a, b with
  | ONode x, ONode y => node_eqb x y
  | OPred x, OPred y => pred_eqb x y
  | OLit x, OLit y => literal_eqb x y
  | OInvalid, OInvalid => true
  | _, _ => false
  end.
Definition triple_eqb (a b : triple) : bool :=
  node_eqb (subj a) (subj b) && pred_eqb (tpred a) (tpred b) && object_eqb (tobj a) (tobj b).

(* ---- constructors' checks *)
(* node.NewType: no space/tab/newline/CR, starts with '/', does not end with '/', not empty *)
Definition type_ok (t : str) : bool :=
  negb (existsb (fun c => memb c [x20; x09; x0a; x0d]) t)
  && match t with c :: _ => Byte.eqb c x2f | [] => false end
  && match last_byte t with Some c => negb (Byte.eqb c x2f) | None => false end.

(* node.NewID: no '<' or '>', not empty *)
Definition id_ok (i : str) : bool :=
  negb (existsb (fun c => memb c [x3c; x3e]) i) && match i with [] => false | _ => true end.

Definition wf_node (n : node) : bool := type_ok (ntype n) && id_ok (nid n).

(* predicate.NewImmutable / NewTemporal: id not empty *)
Definition wf_pred (p : pred) : bool := match pid p with [] => false | _ => true end.

(* literal.Build: value matches type — by construction of the datatype; int fits int64
   (a float64 is any bit pattern; that it has 64 bits is part of the domain predicates, Dom.v) *)
Definition in_int64 (z : Z) : bool := (-9223372036854775808 <=? z)%Z && (z <=? 9223372036854775807)%Z.
Definition wf_literal (l : literal) : bool :=
  match l with
  | LInt z => in_int64 z
  | _ => true
  end.

Definition wf_object (o : object) : bool :=
  match o with
  | ONode n => wf_node n
  | OPred p => wf_pred p
  | OLit l => wf_literal l
  | OInvalid => false
  end.

Definition wf_triple (t : triple) : bool := wf_node (subj t) && wf_pred (tpred t) && wf_object (tobj t).
