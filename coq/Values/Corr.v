(* Executable comparison of the model with observations of the implementation (written by the harness).
   The Go library's answers arrive as finite tables (every argument the model can ask about on that input). *)
From Coq Require Import List NArith ZArith Bool String Ascii.
From Coq.Strings Require Import Byte.
Import ListNotations.
From BWValues Require Import Bytes Values Codec Uuid Io Dom.

Definition tbl (A : Type) := list (str * A).
Fixpoint lookup {A : Type} (t : tbl A) (k : str) : option A :=
  match t with
  | [] => None
  | (k', v) :: r => if str_eqb k k' then Some v else lookup r k
  end.
Fixpoint lookup_time (t : list (time * str)) (k : time) : option str :=
  match t with
  | [] => None
  | (k', v) :: r => if time_eqb k k' then Some v else lookup_time r k
  end.
Fixpoint lookup_N (t : list (N * str)) (k : N) : option str :=
  match t with
  | [] => None
  | (k', v) :: r => if N.eqb k k' then Some v else lookup_N r k
  end.

Record tables := mkTables {
  t_unq : tbl str; t_quote : tbl str; t_ptime : tbl time; t_ftime : list (time * str);
  t_pfloat : tbl N; t_ffloat : list (N * str) }.

Definition missing : str := lit "?MISSING?".
Definition or_missing (o : option str) : str := match o with Some s => s | None => missing end.

Definition table_oracles (T : tables) : oracles :=
  mkOracles (lookup (t_unq T)) (fun s => or_missing (lookup (t_quote T) s))
            (lookup (t_ptime T)) (fun t => or_missing (lookup_time (t_ftime T) t))
            (lookup (t_pfloat T)) (fun b => or_missing (lookup_N (t_ffloat T) b)).

(* the bound the harness gives to literal.NewBoundedBuilder *)
Definition bounded_max : nat := 2.

Inductive value := VNode (n : node) | VPred (p : pred) | VLit (l : literal) | VObj (o : object) | VTriple (t : triple).

Definition value_eqb (a b : value) : bool :=
  match a, b with
  | VNode x, VNode y => node_eqb x y
  | VPred x, VPred y => pred_eqb x y
  | VLit x, VLit y => literal_eqb x y
  | VObj x, VObj y => object_eqb x y
  | VTriple x, VTriple y => triple_eqb x y
  | _, _ => false
  end.

Definition outcome_eqb {A : Type} (eqb : A -> A -> bool) (a b : outcome A) : bool :=
  match a, b with
  | Ok x, Ok y => eqb x y
  | Err, Err => true
  | Panic _, Panic _ => true
  | NilNil, NilNil => true
  | _, _ => false
  end.

Definition omap {A B : Type} (f : A -> B) (o : outcome A) : outcome B :=
  match o with Ok a => Ok (f a) | Err => Err | Panic s => Panic s | NilNil => NilNil end.

Section WithOracles.
Variable O : oracles.

Definition print_value (v : value) : str :=
  match v with
  | VNode n => print_node n
  | VPred p => print_pred O p
  | VLit l => print_literal O l
  | VObj o => print_object O o
  | VTriple t => print_triple O t
  end.

(* parse with the parser of the same kind as v *)
Definition parse_like (v : value) (s : str) : outcome value :=
  match v with
  | VNode _ => omap VNode (parse_node s)
  | VPred _ => omap VPred (parse_pred O s)
  | VLit _ => omap VLit (parse_literal O s)
  | VObj _ => omap VObj (parse_object O s)
  | VTriple _ => omap VTriple (parse_triple O s)
  end.

Definition dom_value (v : value) : bool :=
  match v with
  | VNode n => dom_node n
  | VPred p => dom_pred p
  | VLit l => dom_literal l
  | VObj o => dom_object o
  | VTriple t => dom_triple t
  end.

Inductive case :=
| CParse (inp : str) (on : outcome node) (op : outcome pred) (ol : outcome literal) (oo : outcome object)
         (ot : outcome triple) (ob : outcome literal)   (* ob: NewBoundedBuilder(bounded_max).Parse *)
| CValue (v : value) (text : str) (parsed : outcome value) (retext : option str)
| CRead (text : str) (cnt : Z) (st : rstatus) (lines : list str)
| CGraph (ts : list triple) (stored : list str) (wcnt : Z) (wtext : str) (rcnt : Z) (rst : rstatus) (rlines : list str)
| CGraphPanic (ts : list triple).

Definition rstatus_eqb (a b : rstatus) : bool :=
  match a, b with RNil, RNil => true | RErr, RErr => true | RPanic, RPanic => true | _, _ => false end.

Fixpoint strs_eqb (a b : list str) : bool :=
  match a, b with
  | [], [] => true
  | x :: a', y :: b' => str_eqb x y && strs_eqb a' b'
  | _, _ => false
  end.

Definition read_agrees (text : str) (cnt : Z) (st : rstatus) (lines : list str) : bool :=
  match read_into_graph O [] text with
  | (c, s, g) =>
      rstatus_eqb s st
      && (match st with RPanic => true | _ => Z.eqb (Z.of_N c) cnt end)
      && strs_eqb (listing O g) lines
  end.

Definition agrees (c : case) : bool :=
  match c with
  | CParse inp on op ol oo ot ob =>
      outcome_eqb literal_eqb (parse_literal_bounded O bounded_max inp) ob
      && outcome_eqb node_eqb (parse_node inp) on
      && outcome_eqb pred_eqb (parse_pred O inp) op
      && outcome_eqb literal_eqb (parse_literal O inp) ol
      && outcome_eqb object_eqb (parse_object O inp) oo
      && outcome_eqb triple_eqb (parse_triple O inp) ot
  | CValue v text parsed retext =>
      str_eqb (print_value v) text
      && outcome_eqb value_eqb (parse_like v text) parsed
      && match parsed, retext with
         | Ok v2, Some r => str_eqb (print_value v2) r
         | Ok _, None => false
         | _, _ => true
         end
  | CRead text cnt st lines => read_agrees text cnt st lines
  | CGraph ts stored wcnt wtext rcnt rst rlines =>
      match add_all [] ts with
      | Ok g =>
          strs_eqb (listing O g) stored
          && (let (n, w) := write_graph O g in Z.eqb (Z.of_N n) wcnt && str_eqb w wtext)
          && read_agrees wtext rcnt rst rlines
      | _ => false
      end
  | CGraphPanic ts => match add_all [] ts with Panic _ => true | _ => false end
  end.

Fixpoint mismatches_from (i : N) (l : list case) : list N :=
  match l with
  | [] => []
  | c :: r => if agrees c then mismatches_from (i + 1)%N r else i :: mismatches_from (i + 1)%N r
  end.

(* observed values that are not well-formed (the implementation returned them with a nil error) *)
Definition owf {A : Type} (wf : A -> bool) (o : outcome A) : bool :=
  match o with Ok a => wf a | NilNil => false | _ => true end.
Definition wf_value (v : value) : bool :=
  match v with
  | VNode n => wf_node n | VPred p => wf_pred p | VLit l => wf_literal l | VObj o => wf_object o
  | VTriple t => wf_triple t
  end.
Fixpoint illformed_from (i : N) (l : list case) : list N :=
  match l with
  | [] => []
  | c :: r =>
      let ok := match c with
                | CParse _ on op ol oo ot ob =>
                    owf wf_node on && owf wf_pred op && owf wf_literal ol && owf wf_object oo && owf wf_triple ot
                    && owf wf_literal ob
                | CValue _ _ parsed _ => owf wf_value parsed
                | _ => true
                end in
      if ok then illformed_from (i + 1)%N r else i :: illformed_from (i + 1)%N r
  end.

(* value cases whose value lies in the documented domain *)
Fixpoint in_domain_from (i : N) (l : list case) : list N :=
  match l with
  | [] => []
  | CValue v _ _ _ :: r => if dom_value v then i :: in_domain_from (i + 1)%N r else in_domain_from (i + 1)%N r
  | CGraph ts _ _ _ _ _ _ :: r =>
      if forallb dom_graph_triple ts then i :: in_domain_from (i + 1)%N r else in_domain_from (i + 1)%N r
  | _ :: r => in_domain_from (i + 1)%N r
  end.

End WithOracles.

(* ---- C06: pre-images rendered as one text for the harness to hash: one line per value, ":" then the hex bytes
   (three comma-separated components for a triple), "!" when the model says UUID() panics *)
Definition hexd (n : N) : Ascii.ascii :=
  match n with
  | 0 => "0" | 1 => "1" | 2 => "2" | 3 => "3" | 4 => "4" | 5 => "5" | 6 => "6" | 7 => "7" | 8 => "8" | 9 => "9"
  | 10 => "a" | 11 => "b" | 12 => "c" | 13 => "d" | 14 => "e" | _ => "f"
  end%char%N.

Fixpoint hex_of (s : str) (k : string) : string :=
  match s with
  | [] => k
  | b :: r => String (hexd (Byte.to_N b / 16)) (String (hexd (Byte.to_N b mod 16)) (hex_of r k))
  end.

Definition nl : Ascii.ascii := "010"%char.
Definition bang (k : string) : string := String "!"%char (String nl k).

Definition pre_str (v : value) (k : string) : string :=
  String ":"%char
  match v with
  | VNode n => hex_of (pre_node n) (String nl k)
  | VPred p => hex_of (pre_pred p) (String nl k)
  | VLit l => match pre_literal l with Ok b => hex_of b (String nl k) | _ => bang k end
  | VObj o => match pre_object o with Ok b => hex_of b (String nl k) | _ => bang k end
  | VTriple t => match pre_triple t with
                 | Ok (a, b, c) => hex_of a (String ","%char (hex_of b (String ","%char (hex_of c (String nl k)))))
                 | _ => bang k
                 end
  end.

Definition preimages_text (vs : list value) : list string := map (fun v => pre_str v EmptyString) vs.
