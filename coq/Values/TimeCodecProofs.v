(* Proofs about TimeCodec.v: calendar, digit fields, and parse (fmt t) = Some t on the domain. *)
From Coq Require Import List NArith ZArith Bool Lia ZifyBool.
From Coq.Strings Require Import Byte.
Import ListNotations.
From BWValues Require Import Bytes BytesProofs Values Codec Uuid UuidProofs TimeCodec.
Open Scope Z_scope.

Lemma dby_0 : dby 0 = 0.
Proof. reflexivity. Qed.

Lemma dby_bounds : forall y, 0 <= y -> 146097 * y - 396 <= 400 * dby y <= 146097 * y + 699.
Proof. intros y Hy. unfold dby. Time Z.div_mod_to_equations; lia. Qed.

Lemma dby_step : forall y, 0 <= y -> dby (y + 1) = dby y + 365 + leap_add (is_leap y).
Proof.
  intros y Hy. unfold dby, is_leap, leap_add.
  replace (y + 1 + 3) with (y + 4) by lia. replace (y + 1 + 99) with (y + 100) by lia. replace (y + 1 + 399) with (y + 400) by lia.
  (destruct (y mod 4 =? 0) eqn:E4; destruct (y mod 100 =? 0) eqn:E100; destruct (y mod 400 =? 0) eqn:E400; cbn [andb orb negb];
  Z.div_mod_to_equations; lia).
Qed.

Lemma leap_add_range : forall b, 0 <= leap_add b <= 1.
Proof. intros []; cbn; lia. Qed.

Lemma dby_mono_step : forall a k, 0 <= a -> 0 <= k -> dby a + 365 * k <= dby (a + k).
Proof.
  intros a k Ha. revert k. apply natlike_ind.
  - replace (a + 0) with a by lia. lia.
  - intros k Hk IH. replace (a + Z.succ k) with ((a + k) + 1) by lia. rewrite dby_step by lia.
    pose proof (leap_add_range (is_leap (a + k))). lia.
Qed.

Lemma dby_mono : forall a b, 0 <= a -> a <= b -> dby a <= dby b.
Proof.
  intros a b Ha Hab. pose proof (dby_mono_step a (b - a) Ha ltac:(lia)). replace (a + (b - a)) with b in H by lia. lia.
Qed.

Lemma dby_lt : forall a b, 0 <= a -> a < b -> dby a + 365 <= dby b.
Proof.
  intros a b Ha Hab. pose proof (dby_mono_step a (b - a) Ha ltac:(lia)). replace (a + (b - a)) with b in H by lia. lia.
Qed.

Lemma dby_nonneg : forall y, 0 <= y -> 0 <= dby y.
Proof. intros y Hy. pose proof (dby_mono 0 y ltac:(lia) Hy). rewrite dby_0 in H. exact H. Qed.

Lemma year_of_day_spec : forall n, 0 <= n ->
  0 <= year_of_day n /\ dby (year_of_day n) <= n < dby (year_of_day n + 1).
Proof.
  intros n Hn. unfold year_of_day.
  set (y0 := 400 * n / 146097).
  assert (Hy0 : 0 <= y0) by (unfold y0; apply Z.div_pos; lia).
  assert (Hfl : 146097 * y0 <= 400 * n < 146097 * (y0 + 1)).
  { unfold y0. pose proof (Z.div_mod (400 * n) 146097 ltac:(lia)). pose proof (Z.mod_pos_bound (400 * n) 146097 ltac:(lia)). lia. }
  destruct (n <? dby y0) eqn:E1.
  - apply Z.ltb_lt in E1.
    assert (Hy1 : 1 <= y0).
    { destruct (Z_lt_le_dec y0 1) as [X|X]; [|exact X]. assert (y0 = 0) by lia. rewrite H, dby_0 in E1. lia. }
    pose proof (dby_bounds (y0 - 1) ltac:(lia)) as B. replace (y0 - 1 + 1) with y0 by lia. lia.
  - apply Z.ltb_ge in E1. destruct (dby (y0 + 1) <=? n) eqn:E2.
    + apply Z.leb_le in E2. pose proof (dby_bounds (y0 + 1 + 1) ltac:(lia)) as B. lia.
    + apply Z.leb_gt in E2. lia.
Qed.

Lemma year_len : forall y, 0 <= y -> dby (y + 1) - dby y = cum (is_leap y) 13.
Proof. intros y Hy. rewrite dby_step by exact Hy. cbn [cum]. lia. Qed.

Lemma month_of_doy_spec : forall lp doy, 0 <= doy < cum lp 13 ->
  1 <= month_of_doy lp doy <= 12 /\ cum lp (month_of_doy lp doy) <= doy < cum lp (month_of_doy lp doy + 1).
Proof.
  intros lp doy H. unfold month_of_doy.
  destruct lp; cbn [cum leap_add] in *;
    repeat match goal with |- context [if ?a <? ?b then _ else _] => destruct (Z.ltb_spec a b) end;
    cbn [cum leap_add Z.add Pos.add Pos.succ]; lia.
Qed.

Record valid_date (y m d : Z) : Prop := mkValid {
  vd_year : 0 <= y; vd_month : 1 <= m <= 12; vd_day : 1 <= d <= days_in_month (is_leap y) m }.

Lemma civil_of_day_spec : forall n y m d, 0 <= n -> civil_of_day n = (y, m, d) ->
  valid_date y m d /\ day_of_civil y m d = n /\ dby y <= n < dby (y + 1).
Proof.
  intros n y m d Hn H. unfold civil_of_day in H. inversion H. clear H.
  destruct (year_of_day_spec n Hn) as [Hy Hb].
  set (yy := year_of_day n) in *. set (lp := is_leap yy) in *.
  assert (Hdoy : 0 <= n - dby yy < cum lp 13) by (unfold lp; rewrite <- year_len by exact Hy; lia).
  destruct (month_of_doy_spec lp (n - dby yy) Hdoy) as [Hm Hc].
  set (mm := month_of_doy lp (n - dby yy)) in *.
  split; [|split].
  - constructor; [exact Hy | exact Hm |]. fold lp. unfold days_in_month. lia.
  - unfold day_of_civil. fold lp. lia.
  - exact Hb.
Qed.

(* ---------------------------------------------------------------- digits *)
Lemma digit_to_N : forall k, Byte.to_N (digit k) = Z.to_N (48 + k mod 10).
Proof.
  intros k. unfold digit. apply to_N_byte_of_N. pose proof (Z.mod_pos_bound k 10 ltac:(lia)). lia.
Qed.

Lemma dval_digit : forall k, dval (digit k) = Some (k mod 10).
Proof.
  intros k. unfold dval. rewrite digit_to_N. pose proof (Z.mod_pos_bound k 10 ltac:(lia)) as H.
  rewrite Z2N.id by lia.
  destruct ((48 <=? 48 + k mod 10) && (48 + k mod 10 <=? 57)) eqn:E; [f_equal; lia | lia].
Qed.

Lemma dval_none_neq : forall c k, dval c = None -> digit k <> c.
Proof. intros c k H E. subst c. rewrite dval_digit in H. discriminate. Qed.

Lemma take1_digit : forall k r, take1 (digit k :: r) = Some (k mod 10, r).
Proof. intros k r. unfold take1. rewrite dval_digit. reflexivity. Qed.

Lemma take2_pad2 : forall v r, 0 <= v < 100 -> take2 (pad2 v ++ r) = Some (v, r).
Proof.
  intros v r Hv. unfold take2, pad2. cbn [app]. rewrite !take1_digit. f_equal. f_equal.
  Z.div_mod_to_equations; lia.
Qed.

Lemma take_1or2_pad2 : forall v r, 0 <= v < 100 -> take_1or2 (pad2 v ++ r) = Some (v, r).
Proof.
  intros v r Hv. unfold take_1or2, pad2. cbn [app]. rewrite !take1_digit. f_equal. f_equal.
  Z.div_mod_to_equations; lia.
Qed.

Lemma take4_pad4 : forall v r, 0 <= v < 10000 -> take4 (pad4 v ++ r) = Some (v, r).
Proof.
  intros v r Hv. unfold take4, take2, pad4. cbn [app]. rewrite !take1_digit. f_equal. f_equal.
  Z.div_mod_to_equations; lia.
Qed.

Lemma expect_hit : forall c r, expect c (c :: r) = Some r.
Proof. intros c r. unfold expect. rewrite beqb_refl. reflexivity. Qed.

(* ---------------------------------------------------------------- fraction *)
Definition dropz (ks : list Z) : list Z :=
  (fix go (l : list Z) : list Z := match l with k :: r => if k mod 10 =? 0 then go r else l | [] => [] end) ks.
Definition trimz (ks : list Z) : list Z := rev (dropz (rev ks)).

Lemma digit_x30 : forall k, digit k = x30 <-> k mod 10 = 0.
Proof.
  intros k. split.
  - intros H. pose proof (dval_digit k) as D. rewrite H in D. cbn in D. inversion D. lia.
  - intros H. unfold digit. rewrite H. reflexivity.
Qed.

Lemma drop_zeros_map : forall ks, drop_zeros (map digit ks) = map digit (dropz ks).
Proof.
  induction ks as [|k ks IH]; [reflexivity|]. cbn [map dropz].
  destruct (k mod 10 =? 0) eqn:E.
  - apply Z.eqb_eq in E. apply digit_x30 in E. cbn [drop_zeros]. rewrite E. exact IH.
  - apply Z.eqb_neq in E. cbn [map drop_zeros].
    destruct (digit k) eqn:Ed; try reflexivity. exfalso. apply E. apply digit_x30. exact Ed.
Qed.

Lemma trim_zeros_map : forall ks, trim_zeros (map digit ks) = map digit (trimz ks).
Proof. intros ks. unfold trim_zeros, trimz. rewrite <- map_rev, drop_zeros_map, map_rev. reflexivity. Qed.

Lemma digit_run_map : forall ks z, (match z with c :: _ => dval c = None | [] => True end) ->
  digit_run (map digit ks ++ z) = (map (fun k => k mod 10) ks, z).
Proof.
  induction ks as [|k ks IH]; intros z Hz.
  - cbn [map app]. destruct z as [|c z]; [reflexivity|]. cbn [digit_run]. rewrite Hz. reflexivity.
  - cbn [map app digit_run]. rewrite dval_digit. rewrite (IH z Hz). reflexivity.
Qed.

Lemma frac_val_snoc0 : forall l w k, k = 0 -> frac_val (l ++ [k]) w = frac_val l w.
Proof.
  induction l as [|d l IH]; intros w k Hk; cbn [app frac_val].
  - subst k. lia.
  - rewrite IH by exact Hk. reflexivity.
Qed.

Lemma frac_val_dropz_rev : forall l w, frac_val (map (fun k => k mod 10) (rev (dropz l))) w = frac_val (map (fun k => k mod 10) (rev l)) w.
Proof.
  induction l as [|k l IH]; intros w; [reflexivity|]. cbn [dropz].
  destruct (k mod 10 =? 0) eqn:E.
  - apply Z.eqb_eq in E. fold (dropz l). rewrite IH. cbn [rev]. rewrite map_app. cbn [map].
    rewrite frac_val_snoc0 by exact E. reflexivity.
  - reflexivity.
Qed.

Lemma frac_val_trimz : forall ks w, frac_val (map (fun k => k mod 10) (trimz ks)) w = frac_val (map (fun k => k mod 10) ks) w.
Proof. intros ks w. unfold trimz. rewrite frac_val_dropz_rev. rewrite rev_involutive. reflexivity. Qed.

Definition nine (v : Z) : list Z :=
  [v / 100000000; v / 10000000; v / 1000000; v / 100000; v / 10000; v / 1000; v / 100; v / 10; v].

Lemma digits9_map : forall v, digits9 v = map digit (nine v).
Proof. reflexivity. Qed.

Lemma frac_val_nine : forall v, 0 <= v < 1000000000 -> frac_val (map (fun k => k mod 10) (nine v)) 100000000 = v.
Proof.
  intros v Hv. unfold nine. cbn [map frac_val].
  change (100000000 / 10) with 10000000. change (10000000 / 10) with 1000000. change (1000000 / 10) with 100000.
  change (100000 / 10) with 10000. change (10000 / 10) with 1000. change (1000 / 10) with 100. change (100 / 10) with 10.
  change (10 / 10) with 1. Z.div_mod_to_equations. lia.
Qed.

Lemma take_frac_fmt : forall ns z, 0 <= ns < 1000000000 ->
  (match z with c :: _ => dval c = None /\ c <> x2e /\ c <> x2c | [] => False end) ->
  take_frac (fmt_frac ns ++ z) = (ns, z).
Proof.
  intros ns z Hns Hz. unfold fmt_frac. destruct (ns =? 0) eqn:E0.
  - apply Z.eqb_eq in E0. subst ns. cbn [app]. destruct z as [|c z]; [contradiction|]. destruct Hz as [_ [H1 H2]].
    unfold take_frac. apply beqb_neq in H1. apply beqb_neq in H2.
    rewrite (proj2 (beqb_neq c x2e)) by (apply beqb_neq in H1; exact H1).
    rewrite (proj2 (beqb_neq c x2c)) by (apply beqb_neq in H2; exact H2). reflexivity.
  - apply Z.eqb_neq in E0. cbn [app]. unfold take_frac. rewrite beqb_refl. cbn [orb].
    rewrite digits9_map, trim_zeros_map.
    rewrite digit_run_map by (destruct z as [|c z]; [exact I | exact (proj1 Hz)]).
    pose proof (frac_val_trimz (nine ns) 100000000) as Ht. rewrite (frac_val_nine ns Hns) in Ht.
    destruct (map (fun k => k mod 10) (trimz (nine ns))) as [|d ds] eqn:Em.
    + cbn [frac_val] in Ht. lia.
    + rewrite Ht. reflexivity.
Qed.

(* ---------------------------------------------------------------- zone *)
(* zone offsets Format can print so that Parse reads them back: whole minutes, below 25 hours *)
Definition zone_ok (off : Z) : Prop := off mod 60 = 0 /\ -90000 < off < 90000.

Lemma take_zone_fmt : forall off, zone_ok off -> take_zone (fmt_zone off) = Some (off, []).
Proof.
  intros off [Hm Hr]. unfold fmt_zone. destruct (off =? 0) eqn:E0.
  - apply Z.eqb_eq in E0. subst off. reflexivity.
  - apply Z.eqb_neq in E0. set (a := Z.abs off / 60).
    assert (Ha : 0 <= a / 60 <= 24 /\ 0 <= a mod 60 < 60 /\ (a / 60 * 60 + a mod 60) * 60 = Z.abs off).
    { unfold a. Z.div_mod_to_equations. lia. }
    destruct Ha as [H1 [H2 H3]].
    assert (Hbody : forall sg, Byte.eqb sg x5a = false ->
      take_zone (sg :: pad2 (a / 60) ++ [x3a] ++ pad2 (a mod 60)) =
      if Byte.eqb sg x2b then Some ((a / 60 * 60 + a mod 60) * 60, [])
      else if Byte.eqb sg x2d then Some (- ((a / 60 * 60 + a mod 60) * 60), []) else None).
    { intros sg Hsg. unfold take_zone. rewrite Hsg.
      rewrite take2_pad2 by lia. cbn [app]. rewrite expect_hit.
      replace (pad2 (a mod 60)) with (pad2 (a mod 60) ++ []) by apply app_nil_r. rewrite take2_pad2 by lia.
      destruct (24 <? a / 60) eqn:X1; [lia|]. destruct (60 <? a mod 60) eqn:X2; [lia|]. reflexivity. }
    destruct (off <? 0) eqn:En.
    + rewrite Hbody by reflexivity. cbn. f_equal. f_equal. lia.
    + rewrite Hbody by reflexivity. cbn. f_equal. f_equal. lia.
Qed.

Lemma fmt_zone_head : forall off, exists c r, fmt_zone off = c :: r /\ dval c = None /\ c <> x2e /\ c <> x2c.
Proof.
  intros off. unfold fmt_zone. destruct (off =? 0).
  - exists x5a, []. repeat split; discriminate.
  - destruct (off <? 0); eexists _, _; (split; [reflexivity|]); repeat split; discriminate.
Qed.

(* ---------------------------------------------------------------- civil <-> instant *)
Record valid_civil (c : civil) : Prop := mkVC {
  vc_date : valid_date (c_year c) (c_month c) (c_day c);
  vc_year : c_year c <= 9999;
  vc_hour : 0 <= c_hour c < 24; vc_min : 0 <= c_min c < 60; vc_sec : 0 <= c_sec c < 60;
  vc_nsec : 0 <= c_nsec c < 1000000000 }.

Lemma parse_fmt_civil : forall c off, valid_civil c -> zone_ok off -> parse_civil (fmt_civil c off) = Some (c, off).
Proof.
  intros [y m d hh mi ss ns] off [[Hy Hm Hd] Hy9 Hh Hmi Hs Hns] Hz. cbn [c_year c_month c_day c_hour c_min c_sec c_nsec] in *.
  assert (Hd31 : d < 100).
  { unfold days_in_month in Hd. destruct (is_leap y); 
      assert (X : m = 1 \/ m = 2 \/ m = 3 \/ m = 4 \/ m = 5 \/ m = 6 \/ m = 7 \/ m = 8 \/ m = 9 \/ m = 10 \/ m = 11 \/ m = 12) by lia;
      repeat (destruct X as [X|X]; [subst m; cbn in Hd; lia|]); subst m; cbn in Hd; lia. }
  unfold parse_civil, fmt_civil. cbn [c_year c_month c_day c_hour c_min c_sec c_nsec].
  rewrite take4_pad4 by lia. cbn [bind app]. rewrite expect_hit. cbn [bind].
  rewrite take2_pad2 by lia. cbn [bind app]. rewrite expect_hit. cbn [bind].
  rewrite take2_pad2 by lia. cbn [bind app]. rewrite expect_hit. cbn [bind].
  rewrite take_1or2_pad2 by lia. cbn [bind app]. rewrite expect_hit. cbn [bind].
  rewrite take2_pad2 by lia. cbn [bind app]. rewrite expect_hit. cbn [bind].
  rewrite take2_pad2 by lia. cbn [bind].
  destruct (fmt_zone_head off) as [zc [zr [Ez Hzc]]].
  rewrite take_frac_fmt by (try exact Hns; rewrite Ez; exact Hzc).
  rewrite (take_zone_fmt off Hz). cbn [bind].
  destruct ((m <? 1) || (12 <? m) || (d <? 1) || (days_in_month (is_leap y) m <? d) || (24 <=? hh) || (60 <=? mi) || (60 <=? ss)) eqn:E; [lia|].
  reflexivity.
Qed.

Definition ns_dom (t : time) : Prop :=
  -62167219200 <= t_ns t / 1000000000 + t_off t < 253402300800 /\ zone_ok (t_off t).

Lemma dby_10000 : dby 10000 = 3652425.
Proof. reflexivity. Qed.

Lemma civil_of_valid : forall t, ns_dom t -> valid_civil (civil_of t) /\ time_of_civil (civil_of t) (t_off t) = t.
Proof.
  intros [ns off] [Hr Hz]. cbn [t_ns t_off] in *. unfold civil_of. cbn [t_ns t_off].
  set (ls := ns / 1000000000 + off) in *.
  assert (Hn : 0 <= ls / 86400 + epoch_day < 3652425) by (unfold epoch_day; Z.div_mod_to_equations; lia).
  destruct (civil_of_day (ls / 86400 + epoch_day)) as [[y m] d] eqn:Ec.
  destruct (civil_of_day_spec _ _ _ _ (proj1 Hn) Ec) as [Hv [Hday Hb]].
  assert (Hsod : 0 <= ls mod 86400 < 86400) by (apply Z.mod_pos_bound; lia).
  split.
  - constructor; cbn [c_year c_month c_day c_hour c_min c_sec c_nsec]; try exact Hv.
    + destruct (Z_le_gt_dec y 9999) as [X|X]; [exact X|]. exfalso.
      pose proof (dby_mono 10000 y ltac:(lia) ltac:(lia)) as M. rewrite dby_10000 in M. lia.
    + Z.div_mod_to_equations; lia.
    + Z.div_mod_to_equations; lia.
    + Z.div_mod_to_equations; lia.
    + apply Z.mod_pos_bound. lia.
  - unfold time_of_civil. cbn [c_year c_month c_day c_hour c_min c_sec c_nsec]. rewrite Hday. f_equal.
    unfold ls in *. unfold epoch_day. Z.div_mod_to_equations. lia.
Qed.

Theorem parse_fmt_rfc3339nano : forall t, ns_dom t -> parse_rfc3339nano (fmt_rfc3339nano t) = Some t.
Proof.
  intros t Hd. destruct (civil_of_valid t Hd) as [Hv Ht]. unfold parse_rfc3339nano, fmt_rfc3339nano.
  rewrite (parse_fmt_civil _ _ Hv (proj2 Hd)). rewrite Ht. reflexivity.
Qed.

(* ---------------------------------------------------------------- alphabet of the output *)
Definition talpha : str := [x30; x31; x32; x33; x34; x35; x36; x37; x38; x39; x54; x3a; x2e; x5a; x2b; x2d].

Lemma digit_alpha : forall k, In (digit k) talpha.
Proof.
  intros k. unfold digit. pose proof (Z.mod_pos_bound k 10 ltac:(lia)) as H.
  assert (X : k mod 10 = 0 \/ k mod 10 = 1 \/ k mod 10 = 2 \/ k mod 10 = 3 \/ k mod 10 = 4 \/ k mod 10 = 5 \/
              k mod 10 = 6 \/ k mod 10 = 7 \/ k mod 10 = 8 \/ k mod 10 = 9) by lia.
  repeat (destruct X as [X|X]; [rewrite X; cbn; tauto|]). rewrite X. cbn. tauto.
Qed.

Lemma drop_zeros_incl : forall l x, In x (drop_zeros l) -> In x l.
Proof.
  induction l as [|c l IH]; intros x H; [exact H|]. cbn [drop_zeros] in H.
  destruct c; try exact H. right. exact (IH _ H).
Qed.

Lemma trim_zeros_incl : forall l x, In x (trim_zeros l) -> In x l.
Proof. intros l x H. unfold trim_zeros in H. apply in_rev in H. apply drop_zeros_incl in H. apply in_rev in H. exact H. Qed.

Lemma fmt_alphabet : forall t x, In x (fmt_rfc3339nano t) -> In x talpha.
Proof.
  intros t x H. unfold fmt_rfc3339nano, fmt_civil in H.
  repeat (apply in_app_or in H; destruct H as [H|H]);
    try (unfold pad4, pad2 in H; cbn [In] in H; repeat (destruct H as [H|H]; [subst x; try apply digit_alpha; cbn; tauto|]); destruct H).
  - unfold fmt_frac in H. destruct (c_nsec (civil_of t) =? 0); [destruct H|]. destruct H as [H|H]; [subst x; cbn; tauto|].
    apply trim_zeros_incl in H. unfold digits9 in H. cbn [In] in H.
    repeat (destruct H as [H|H]; [subst x; apply digit_alpha|]). destruct H.
  - unfold fmt_zone in H. destruct (t_off t =? 0).
    + destruct H as [H|[]]. subst x. cbn. tauto.
    + destruct H as [H|H]; [destruct (t_off t <? 0); subst x; cbn; tauto|].
      repeat (apply in_app_or in H; destruct H as [H|H]);
        unfold pad2 in H; cbn [In] in H; repeat (destruct H as [H|H]; [subst x; try apply digit_alpha; cbn; tauto|]); destruct H.
Qed.

Lemma fmt_nonempty : forall t, fmt_rfc3339nano t <> [].
Proof. intros t. unfold fmt_rfc3339nano, fmt_civil, pad4. cbn [app]. discriminate. Qed.

(* ---------------------------------------------------------------- what Parse returns *)
Lemma take1_range : forall s v r, take1 s = Some (v, r) -> 0 <= v <= 9.
Proof.
  intros s v r. unfold take1. destruct s as [|c s]; [discriminate|]. unfold dval.
  destruct ((48 <=? Z.of_N (Byte.to_N c)) && (Z.of_N (Byte.to_N c) <=? 57)) eqn:E; [|discriminate].
  intros H. inversion H. lia.
Qed.

Lemma take2_range : forall s v r, take2 s = Some (v, r) -> 0 <= v <= 99.
Proof.
  intros s v r. unfold take2. destruct (take1 s) as [[a r1]|] eqn:E1; [|discriminate].
  destruct (take1 r1) as [[b r2]|] eqn:E2; [|discriminate]. intros H. assert (Hv : v = 10 * a + b) by congruence.
  pose proof (take1_range _ _ _ E1). pose proof (take1_range _ _ _ E2). lia.
Qed.

Lemma take4_range : forall s v r, take4 s = Some (v, r) -> 0 <= v <= 9999.
Proof.
  intros s v r. unfold take4. destruct (take2 s) as [[a r1]|] eqn:E1; [|discriminate].
  destruct (take2 r1) as [[b r2]|] eqn:E2; [|discriminate]. intros H. assert (Hv : v = 100 * a + b) by congruence.
  pose proof (take2_range _ _ _ E1). pose proof (take2_range _ _ _ E2). lia.
Qed.

Lemma take_1or2_range : forall s v r, take_1or2 s = Some (v, r) -> 0 <= v <= 99.
Proof.
  intros s v r. unfold take_1or2. destruct (take1 s) as [[a r1]|] eqn:E1; [|discriminate].
  pose proof (take1_range _ _ _ E1) as Ra. destruct (take1 r1) as [[b r2]|] eqn:E2; intros X.
  - assert (Hv : v = 10 * a + b) by congruence. pose proof (take1_range _ _ _ E2). lia.
  - assert (Hv : v = a) by congruence. lia.
Qed.

Lemma digit_run_range : forall s ds r, digit_run s = (ds, r) -> Forall (fun d => 0 <= d <= 9) ds.
Proof.
  induction s as [|c s IH]; intros ds r H; cbn [digit_run] in H.
  - inversion H. constructor.
  - destruct (dval c) as [v|] eqn:Ev.
    + destruct (digit_run s) as [ds' r'] eqn:E. inversion H. subst. constructor; [|exact (IH _ _ eq_refl)].
      exact (take1_range (c :: s) v s ltac:(unfold take1; rewrite Ev; reflexivity)).
    + inversion H. constructor.
Qed.

Lemma frac_val_zero_w : forall ds, frac_val ds 0 = 0.
Proof. induction ds as [|d ds IH]; [reflexivity|]. cbn [frac_val]. change (0 / 10) with 0. rewrite IH. lia. Qed.

Lemma frac_val_bound : forall ds w, Forall (fun d => 0 <= d <= 9) ds -> 1 <= w -> 0 <= frac_val ds w <= 10 * w - 1.
Proof.
  induction ds as [|d ds IH]; intros w Hd Hw; cbn [frac_val]; [lia|].
  inversion Hd as [|d' ds' Hd1 Hd2]; subst.
  destruct (Z_lt_le_dec (w / 10) 1) as [X|X].
  - assert (w / 10 = 0) by (Z.div_mod_to_equations; lia). rewrite H, frac_val_zero_w. nia.
  - specialize (IH (w / 10) Hd2 X). assert (10 * (w / 10) <= w) by (Z.div_mod_to_equations; lia). nia.
Qed.

Lemma take_frac_range : forall s ns r, take_frac s = (ns, r) -> 0 <= ns < 1000000000.
Proof.
  intros s ns r. unfold take_frac. destruct s as [|c s]; [intros H; inversion H; lia|].
  destruct (Byte.eqb c x2e || Byte.eqb c x2c); [|intros H; inversion H; lia].
  destruct (digit_run s) as [ds r'] eqn:E. pose proof (digit_run_range _ _ _ E) as Hd.
  destruct ds as [|d ds]; intros H.
  - assert (ns = 0) by congruence. lia.
  - assert (Hv : ns = frac_val (d :: ds) 100000000) by congruence.
    pose proof (frac_val_bound (d :: ds) 100000000 Hd ltac:(lia)). lia.
Qed.

Lemma take_zone_range : forall s off r, take_zone s = Some (off, r) -> off mod 60 = 0 /\ -90000 <= off <= 90000.
Proof.
  intros s off r. unfold take_zone. destruct s as [|sg s]; [discriminate|].
  destruct (Byte.eqb sg x5a); [intros H; inversion H; split; [reflexivity | lia]|].
  destruct (take2 s) as [[hh r1]|] eqn:E1; [|discriminate].
  destruct (expect x3a r1) as [r2|]; [|discriminate].
  destruct (take2 r2) as [[mm r3]|] eqn:E2; [|discriminate].
  pose proof (take2_range _ _ _ E1). pose proof (take2_range _ _ _ E2).
  destruct ((24 <? hh) || (60 <? mm)) eqn:E; [discriminate|].
  destruct (Byte.eqb sg x2b); [intros X; assert (Hv : off = (hh * 60 + mm) * 60) by congruence; split; [Z.div_mod_to_equations; lia | lia]|].
  destruct (Byte.eqb sg x2d); [intros X; assert (Hv : off = - ((hh * 60 + mm) * 60)) by congruence; split; [Z.div_mod_to_equations; lia | lia]|discriminate].
Qed.

Lemma parse_civil_valid : forall s c off, parse_civil s = Some (c, off) ->
  valid_civil c /\ off mod 60 = 0 /\ -90000 <= off <= 90000.
Proof.
  intros s c off. unfold parse_civil, bind.
  destruct (take4 s) as [[y s1]|] eqn:E1; [|discriminate]. destruct (expect x2d s1) as [s2|]; [|discriminate].
  destruct (take2 s2) as [[m s3]|] eqn:E2; [|discriminate]. destruct (expect x2d s3) as [s4|]; [|discriminate].
  destruct (take2 s4) as [[d s5]|] eqn:E3; [|discriminate]. destruct (expect x54 s5) as [s6|]; [|discriminate].
  destruct (take_1or2 s6) as [[hh s7]|] eqn:E4; [|discriminate]. destruct (expect x3a s7) as [s8|]; [|discriminate].
  destruct (take2 s8) as [[mi s9]|] eqn:E5; [|discriminate]. destruct (expect x3a s9) as [s10|]; [|discriminate].
  destruct (take2 s10) as [[ss s11]|] eqn:E6; [|discriminate].
  destruct (take_frac s11) as [ns s12] eqn:E7.
  destruct (take_zone s12) as [[off' s13]|] eqn:E8; [|discriminate].
  destruct s13; [|discriminate].
  destruct ((m <? 1) || (12 <? m) || (d <? 1) || (days_in_month (is_leap y) m <? d) || (24 <=? hh) || (60 <=? mi) || (60 <=? ss)) eqn:E; [discriminate|].
  intros H. inversion H. subst c off'.
  pose proof (take4_range _ _ _ E1). pose proof (take_1or2_range _ _ _ E4). pose proof (take2_range _ _ _ E5).
  pose proof (take2_range _ _ _ E6). pose proof (take_frac_range _ _ _ E7). pose proof (take_zone_range _ _ _ E8) as [Z1 Z2].
  split; [|split; assumption].
  constructor; cbn [c_year c_month c_day c_hour c_min c_sec c_nsec]; try lia. constructor; lia.
Qed.

Lemma day_of_civil_range : forall y m d, valid_date y m d -> y <= 9999 -> 0 <= day_of_civil y m d < 3652425.
Proof.
  intros y m d [Hy Hm Hd] Hy9. unfold day_of_civil. unfold days_in_month in Hd.
  pose proof (dby_nonneg y Hy). pose proof (dby_mono (y + 1) 10000 ltac:(lia) ltac:(lia)) as M. rewrite dby_10000 in M.
  pose proof (year_len y Hy) as L.
  assert (C : 0 <= cum (is_leap y) m /\ cum (is_leap y) (m + 1) <= cum (is_leap y) 13).
  { assert (X : m = 1 \/ m = 2 \/ m = 3 \/ m = 4 \/ m = 5 \/ m = 6 \/ m = 7 \/ m = 8 \/ m = 9 \/ m = 10 \/ m = 11 \/ m = 12) by lia.
    destruct (is_leap y); repeat (destruct X as [X|X]; [subst m; cbn; lia|]); subst m; cbn; lia. }
  lia.
Qed.

(* every result of Parse whose zone is below 25 hours is in the domain on which Format and Parse are inverse *)
Lemma parse_in_dom : forall s t, parse_rfc3339nano s = Some t -> -90000 < t_off t < 90000 -> ns_dom t.
Proof.
  intros s t H Hoff. unfold parse_rfc3339nano in H. destruct (parse_civil s) as [[c off]|] eqn:E; [|discriminate].
  inversion H. subst t. clear H. destruct (parse_civil_valid _ _ _ E) as [[Hvd Hy9 Hh Hmi Hs Hns] [Hz1 Hz2]].
  pose proof (day_of_civil_range _ _ _ Hvd Hy9) as Hd.
  unfold time_of_civil, ns_dom, zone_ok in *. cbn [t_ns t_off] in *.
  split; [|split; [exact Hz1 | exact Hoff]]. unfold epoch_day. Z.div_mod_to_equations. lia.
Qed.

Lemma parse_off_bound : forall s t, parse_rfc3339nano s = Some t -> t_off t mod 60 = 0 /\ -90000 <= t_off t <= 90000.
Proof.
  intros s t H. unfold parse_rfc3339nano in H. destruct (parse_civil s) as [[c off]|] eqn:E; [|discriminate].
  inversion H. cbn [t_off]. exact (proj2 (parse_civil_valid _ _ _ E)).
Qed.

Theorem fmt_injective : forall a b, ns_dom a -> ns_dom b -> fmt_rfc3339nano a = fmt_rfc3339nano b -> a = b.
Proof.
  intros a b Ha Hb E. pose proof (parse_fmt_rfc3339nano a Ha) as Pa. rewrite E, (parse_fmt_rfc3339nano b Hb) in Pa. congruence.
Qed.
