(* UUID() of every value type is uuid.NewSHA1(uuid.NIL, bytes); this file defines the byte pre-image.
   SHA-1 itself is an oracle: the harness hashes these pre-images with the same Go function and compares with
   the implementation's UUID().  Definitions only.

   Tracks /repo at: F5 (Literal.UUID writes max(n, 8) bytes of a 10-byte varint buffer). *)
From Coq Require Import List NArith ZArith Bool.
From Coq.Strings Require Import Byte.
Import ListNotations.
From BWValues Require Import Bytes Values Codec.

Definition byte_of_N (n : N) : byte := match Byte.of_N n with Some b => b | None => x00 end.

(* Time.UnixNano(): the int64 computation sec*1e9 + nsec wraps *)
Definition wrap64 (z : Z) : Z := ((z + 9223372036854775808) mod 18446744073709551616 - 9223372036854775808)%Z.

(* binary.PutVarint: zig-zag, then base-128 little-endian groups with continuation bits (PutUvarint) *)
Definition zigzag (x : Z) : N := if (x <? 0)%Z then Z.to_N (- (2 * x) - 1) else Z.to_N (2 * x).

Fixpoint uvarint (fuel : nat) (n : N) : list byte :=
  match fuel with
  | O => []
  | S f => if (n <? 128)%N then [byte_of_N n]
           else byte_of_N (n mod 128 + 128) :: uvarint f (n / 128)
  end.

(* ten groups are enough for 64 bits *)
Definition varint (x : Z) : list byte := uvarint 10 (zigzag x).

Definition zeros (n : nat) : list byte := repeat x00 n.

(* PutVarint(b, x) for len(b) = size, then the whole buffer is written: index out of range when the encoding is longer *)
Definition put_varint_buf (size : nat) (x : Z) : option (list byte) :=
  let v := varint x in
  if Nat.leb (length v) size then Some (v ++ zeros (size - length v)) else None.

(* F5: Literal.UUID writes the first max(n, 8) bytes of a 10-byte zeroed buffer holding the n-byte varint *)
Definition varint_min8 (x : Z) : list byte :=
  let v := varint x in v ++ zeros (8 - length v).

Fixpoint le_bytes (k : nat) (n : N) : list byte :=
  match k with
  | O => []
  | S k' => byte_of_N (n mod 256) :: le_bytes k' (n / 256)
  end.


Definition pre_node (n : node) : str := ntype n ++ nid n.

Definition pre_pred (p : pred) : str :=
  pid p ++ match panchor p with
           | None => s_immutable
           | Some t => match put_varint_buf 16 (wrap64 (t_ns t)) with Some b => b | None => [] end
           end.

(* Predicate.PartialUUID *)
Definition pre_pred_partial (p : pred) : str := pid p.

Definition pre_literal (l : literal) : outcome str :=
  match l with
  | LBool true => Ok s_true
  | LBool false => Ok s_false
  | LInt z => Ok (varint_min8 z)
  | LFloat b => Ok (le_bytes 8 b)
  | LText s => Ok s
  | LBlob b => Ok b
  end.

Definition pre_object (o : object) : outcome str :=
  match o with
  | ONode n => Ok (pre_node n)
  | OPred p => Ok (pre_pred p)
  | OLit l => pre_literal l
  | OInvalid => Panic S_io_invalid_object
  end.

(* Triple.UUID hashes the three component UUIDs; the pre-image is the three component pre-images *)
Definition pre_triple (t : triple) : outcome (str * str * str) :=
  match pre_object (tobj t) with
  | Ok o => Ok (pre_node (subj t), pre_pred (tpred t), o)
  | Panic s => Panic s
  | Err => Err
  | NilNil => NilNil
  end.
