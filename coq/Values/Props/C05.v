(* C05 - printed nodes, predicates, literals, triples parse back to equal values.
   Model: Codec.v (follows /repo after fixes F1-F5).  "Equal value" is Leibniz equality of the model value: same kind,
   same components, anchors with the same instant AND the same zone offset; hence printing the parsed value gives the
   same text again (second conjunct of each theorem).
   The Go library is a parameter O; the theorems assume exactly the laws of [oracle_laws] (RoundTrip.v):
     Unquote(Quote s) = s;  Quote s = dq ++ m ++ dq with every dq inside m escaped by a backslash (escaped_ok);
     Quote s has no tab/newline/formfeed/CR and a space only if s has one;
     time.Parse(Format t) = t and Format t non-empty over 0-9 T : . Z + - for t in time_dom;
     ParseFloat(%v f) = f for every non-NaN 64-bit pattern.
   Every run of checks/c05.py samples these laws on the values of the run. *)
From Coq Require Import List NArith ZArith Bool String.
From Coq.Strings Require Import Byte.
Import ListNotations.
From BWValues Require Import Bytes Values Codec Uuid Io Dom Corr RoundTrip.

(* node: FULL on the documented domain (constructor checks, and no '<' inside the type) - no library involved *)
Theorem C05_node_roundtrip : forall n, dom_node n = true ->
  parse_node (print_node n) = Ok n /\
  forall n', parse_node (print_node n) = Ok n' -> print_node n' = print_node n.
Proof.
  intros n H. split; [exact (node_roundtrip n H)|]. intros n' E. rewrite (node_roundtrip n H) in E. inversion E. reflexivity.
Qed.
Print Assumptions C05_node_roundtrip.

(* predicate: any non-empty id (quotes, brackets, backslashes, whitespace, non-ASCII, invalid UTF-8), anchor in time_dom *)
Theorem C05_predicate_roundtrip : forall O, oracle_laws O -> forall p, dom_pred p = true ->
  parse_pred O (print_pred O p) = Ok p /\
  forall p', parse_pred O (print_pred O p) = Ok p' -> print_pred O p' = print_pred O p.
Proof.
  intros O L p H. split; [exact (pred_roundtrip O L p H)|]. intros p' E. rewrite (pred_roundtrip O L p H) in E. inversion E. reflexivity.
Qed.
Print Assumptions C05_predicate_roundtrip.

(* literal: bool, every int64, every non-NaN float64 pattern, ANY text (also containing the type marker), any blob *)
Theorem C05_literal_roundtrip : forall O, oracle_laws O -> forall l, dom_literal l = true ->
  parse_literal O (print_literal O l) = Ok l /\
  forall l', parse_literal O (print_literal O l) = Ok l' -> print_literal O l' = print_literal O l.
Proof.
  intros O L l H. split; [exact (literal_roundtrip O L l H)|]. intros l' E. rewrite (literal_roundtrip O L l H) in E. inversion E. reflexivity.
Qed.
Print Assumptions C05_literal_roundtrip.

(* object: the node -> literal -> predicate cascade of ParseObject picks the right kind *)
Theorem C05_object_roundtrip : forall O, oracle_laws O -> forall o, dom_object o = true ->
  parse_object O (print_object O o) = Ok o.
Proof. exact object_roundtrip. Qed.
Print Assumptions C05_object_roundtrip.

(* triple: subject any domain node whose type does not itself contain a subject split ('>' blanks double-quote; needs a
   form feed inside the type, see C05_triple_subject_type_refuted), ANY domain predicate (after F4b also ids with spaces
   and with text that looks like the end of a predicate), any domain object *)
Theorem C05_triple_roundtrip : forall O, oracle_laws O -> forall t, dom_triple t = true ->
  parse_triple O (print_triple O t) = Ok t /\
  forall t', parse_triple O (print_triple O t) = Ok t' -> print_triple O t' = print_triple O t.
Proof.
  intros O L t H. split; [exact (triple_roundtrip O L t H)|]. intros t' E. rewrite (triple_roundtrip O L t H) in E. inversion E. reflexivity.
Qed.
Print Assumptions C05_triple_roundtrip.

(* ---- the domain predicates are inhabited by non-trivial values: delimiters inside ids and text *)
Example C05_domain_inhabited :
  dom_triple (mkTriple (mkNode (lit "/a>b") (lit "x] /y ""@[ ""^^type:"))
                       (mkPred (lit "a""@[b]\") (Some (mkTime 1136214245999999999 (-25200))))
                       (OLit (LText (lit "] /x> ""y""@[]""^^type:text")))) = true /\
  dom_triple (mkTriple (mkNode (lit "/a") (lit "b")) (mkPred (lit "x] /y ""z") None) (OPred (mkPred (lit "x y""^^type:text") None))) = true /\
  dom_object (OPred (mkPred (lit "x y""^^type:text") None)) = true /\
  dom_literal (LInt (-9223372036854775808)) = true /\ dom_literal (LFloat 9223372036854775808) = true.
Proof. repeat split; vm_compute; reflexivity. Qed.

(* the laws are satisfiable together (a toy library over the empty set of anchors/floats is enough to show consistency of
   the quote laws; time and float laws are then vacuous - the real instance is Go's library, sampled by the check) *)

(* ---- REFUTED outside the domain (each witness is a named corpus case replayed on the implementation) *)
Definition id_oracles : oracles :=
  mkOracles (fun s => match s with _ :: r => Some (removelast r) | [] => None end) (fun s => [x22] ++ s ++ [x22])
            (fun _ => None) (fun _ => []) (fun s => if str_eqb s (lit "NaN") then Some 9221120237041090561%N else None)
            (fun _ => lit "NaN").

(* NewType accepts '<' inside a type; the printed form then cannot be parsed *)
Theorem C05_node_roundtrip_refuted : exists n, wf_node n = true /\ parse_node (print_node n) = Err.
Proof. exists (mkNode (lit "/a<b") (lit "c")). split; vm_compute; reflexivity. Qed.
Print Assumptions C05_node_roundtrip_refuted.

(* a NaN with a payload prints as NaN, which parses as the canonical NaN: whatever the library does, two different
   NaN patterns with the same printed form cannot both come back *)
Theorem C05_literal_roundtrip_refuted : forall O, o_fmt_float O 9218868437227405313%N = o_fmt_float O 9221120237041090561%N ->
  ~ (parse_literal O (print_literal O (LFloat 9218868437227405313)) = Ok (LFloat 9218868437227405313) /\
     parse_literal O (print_literal O (LFloat 9221120237041090561)) = Ok (LFloat 9221120237041090561)).
Proof.
  intros O E [H1 H2]. unfold print_literal in H1, H2. cbn [print_lit_value lit_type_name] in H1, H2. rewrite E in H1. rewrite H1 in H2. discriminate.
Qed.
Print Assumptions C05_literal_roundtrip_refuted.

(* before F4b a predicate id containing ']' blank '/' was cut by the object-split expression; now it round trips *)
Example C05_triple_pred_id_split_fixed :
  let t := mkTriple (mkNode (lit "/a") (lit "b")) (mkPred (lit "x] /y") None) (ONode (mkNode (lit "/c") (lit "d"))) in
  parse_triple id_oracles (print_triple id_oracles t) = Ok t.
Proof. vm_compute. reflexivity. Qed.

(* NewType rejects space, tab, newline, CR but not form feed, which Go's regexp class \s contains: a subject type
   containing '>' form-feed double-quote is cut by the subject-split expression *)
Theorem C05_triple_subject_type_refuted : exists t, wf_triple t = true /\ parse_triple id_oracles (print_triple id_oracles t) = Err.
Proof.
  exists (mkTriple (mkNode [x2f; x61; x3e; x0c; x22; x62] (lit "c")) (mkPred (lit "p") None) (ONode (mkNode (lit "/d") (lit "e")))).
  split; vm_compute; reflexivity.
Qed.
Print Assumptions C05_triple_subject_type_refuted.

(* ---- graphs: write, then read into an empty graph.
   g : the memory graph's master index (key = UUID pre-image, consistent with its triple).  Domain: every triple in
   dom_graph_triple (dom_triple, and no newline in the subject id / object node id / text literal), every printed line
   shorter than 64 KiB.  Then WriteGraph reports |g|, ReadIntoGraph reports |g| with nil error, and the graph read has
   exactly the keys (UUIDs) of g. *)
From BWValues Require Import IoProofs.

Theorem C05_graph_roundtrip : forall O, oracle_laws O -> forall g : graph,
  graph_consistent g ->
  Forall (fun e => dom_graph_triple (snd e) = true) g ->
  Forall (fun e => too_long (print_triple O (snd e)) = false) g ->
  fst (write_graph O g) = N.of_nat (List.length g) /\
  exists g', read_into_graph O [] (snd (write_graph O g)) = (N.of_nat (List.length g), RNil, g') /\
             forall k, In k (map fst g') <-> In k (map fst g).
Proof.
  intros O L g Hc Hd Hl.
  assert (Hg : Forall (fun e => gdom_triple O (snd e)) g).
  { eapply Forall_impl; [|exact Hd]. intros e H. unfold dom_graph_triple in H.
    apply andb_true_iff in H. destruct H as [H _]. apply andb_true_iff in H. destruct H as [H _].
    apply dom_triple_g; assumption. }
  apply (graph_roundtrip_g O (law_quote O L) g Hc Hg).
  rewrite Forall_forall in *. intros e He. split; [exact (Hl e He)|].
  specialize (Hd e He). unfold dom_graph_triple in Hd.
  apply andb_true_iff in Hd. destruct Hd as [Hd H3]. apply andb_true_iff in Hd. destruct Hd as [_ H2].
  exact (print_triple_no_nl O (law_quote O L) (snd e) (Hg e He) H2 H3).
Qed.
Print Assumptions C05_graph_roundtrip.

(* REFUTED without the newline condition: a text literal containing a newline is written as two lines, the reader
   stops at the first with an error and loads nothing *)
Theorem C05_graph_roundtrip_refuted : exists g : graph,
  graph_consistent g /\ Forall (fun e => dom_triple (snd e) = true) g /\
  Forall (fun e => too_long (print_triple id_oracles (snd e)) = false) g /\
  fst (write_graph id_oracles g) = 1%N /\
  fst (read_into_graph id_oracles [] (snd (write_graph id_oracles g))) = (0%N, RErr).
Proof.
  exists [((lit "/ab", lit "pimmutable", [x61; x0a; x62]),
           mkTriple (mkNode (lit "/a") (lit "b")) (mkPred (lit "p") None) (OLit (LText [x61; x0a; x62])))].
  split; [repeat constructor|]. split; [repeat constructor|]. split; [repeat constructor|]. split; vm_compute; reflexivity.
Qed.
Print Assumptions C05_graph_roundtrip_refuted.

(* ---- the hypotheses are satisfiable: a model library (Instance.v: Quote/Unquote as Go does on ASCII - compared with Go by
   the check - and decimal codecs for time and float) satisfies oracle_laws and accept_laws; instantiated, the round trip
   holds without any hypothesis about a library *)
From BWValues Require Import Instance.

Theorem C05_laws_satisfiable : oracle_laws model_library /\ accept_laws model_library.
Proof. split; [exact model_library_laws | exact model_library_accept_laws]. Qed.
Print Assumptions C05_laws_satisfiable.

Theorem C05_triple_roundtrip_model_library : forall t, dom_triple t = true ->
  parse_triple model_library (print_triple model_library t) = Ok t.
Proof. exact (triple_roundtrip model_library model_library_laws). Qed.
Print Assumptions C05_triple_roundtrip_model_library.

Example C05_model_library_example :
  print_pred model_library (mkPred (lit "a""@[b\	é") None) = lit """a\""@[b\\\t\xc3\xa9""@[]".
Proof. vm_compute. reflexivity. Qed.

(* the hypothesis graph_consistent of C05_graph_roundtrip holds for every graph AddTriples can build from the empty one,
   and such a graph holds only triples that were added *)
Theorem C05_reachable_graphs_consistent : forall (ts : list triple) (g : graph),
  add_all [] ts = Ok g -> graph_consistent g /\ forall e, In e g -> In (snd e) ts.
Proof.
  intros ts g H. split; [exact (add_all_consistent ts [] g empty_consistent H)|].
  intros e He. destruct (add_all_triples ts [] g H e He) as [[]|X]. exact X.
Qed.
Print Assumptions C05_reachable_graphs_consistent.

(* anchors in zones whose offset has seconds (local mean times) are outside time_dom; after F24 they are printed in UTC
   and come back as the SAME INSTANT in UTC (before F24 the truncated offset changed the instant) *)
Theorem C05_predicate_zone_seconds_partial : forall O, quote_laws O -> forall id t,
  id <> [] -> (t_off t mod 60 <> 0)%Z -> time_ok O (mkTime (t_ns t) 0) ->
  parse_pred O (print_pred O (mkPred id (Some t))) = Ok (mkPred id (Some (mkTime (t_ns t) 0))).
Proof.
  intros O Q id t Hid Hoff Hok.
  assert (E : print_pred O (mkPred id (Some t)) = print_pred O (mkPred id (Some (mkTime (t_ns t) 0)))).
  { unfold print_pred. cbn [pid panchor]. unfold norm_anchor. cbn [t_ns t_off].
    destruct (t_off t mod 60 =? 0)%Z eqn:E; [apply Z.eqb_eq in E; contradiction | reflexivity]. }
  rewrite E. apply (pred_roundtrip_g O Q). split; [destruct id; [contradiction | reflexivity] | exact Hok].
Qed.
Print Assumptions C05_predicate_zone_seconds_partial.

(* ---- the time laws PROVED for a Go-faithful codec.  TimeCodec.v: fmt_rfc3339nano / parse_rfc3339nano follow
   Time.Format(RFC3339Nano) and time.Parse(RFC3339Nano, .) (4-digit year, 1- or 2-digit hour, fraction after '.' or ',' with
   any number of digits of which nine count, zone Z or +-hh:mm with hh <= 24 and mm <= 60, day checked against the month,
   no leap second); compared with Go on boundary / random instants and ~18 000 accepted / rejected variants per run.
   ns_dom t: local time within years 0000..9999, zone offset a whole number of minutes, below 25 hours. *)
From BWValues Require Import TimeCodec TimeCodecProofs.

Theorem C05_rfc3339nano_roundtrip : forall t, ns_dom t -> parse_rfc3339nano (fmt_rfc3339nano t) = Some t.
Proof. exact parse_fmt_rfc3339nano. Qed.
Print Assumptions C05_rfc3339nano_roundtrip.

Theorem C05_rfc3339nano_injective : forall a b, ns_dom a -> ns_dom b -> fmt_rfc3339nano a = fmt_rfc3339nano b -> a = b.
Proof. exact fmt_injective. Qed.
Print Assumptions C05_rfc3339nano_injective.

(* the output is not empty and uses only 0-9 T : . Z + -  (for EVERY instant and offset) *)
Theorem C05_rfc3339nano_alphabet : forall t,
  fmt_rfc3339nano t <> [] /\ forall x, In x (fmt_rfc3339nano t) -> In x time_alphabet.
Proof. intros t. split; [apply fmt_nonempty | exact (fmt_alphabet t)]. Qed.
Print Assumptions C05_rfc3339nano_alphabet.

(* whatever Parse returns with a zone below 25 hours is in that domain (so it prints and parses back) *)
Theorem C05_rfc3339nano_parse_range : forall s t, parse_rfc3339nano s = Some t ->
  (t_off t mod 60 = 0)%Z /\ (-90000 <= t_off t <= 90000)%Z /\ ((-90000 < t_off t < 90000)%Z -> ns_dom t).
Proof.
  intros s t H. destruct (parse_off_bound s t H) as [H1 H2]. split; [exact H1|]. split; [exact H2|]. exact (parse_in_dom s t H).
Qed.
Print Assumptions C05_rfc3339nano_parse_range.

(* instantiated: the predicate round trip with NO hypothesis about time (quote laws proved for quote_g as before) *)
Theorem C05_time_laws_proved : oracle_laws go_time_library /\ accept_laws go_time_library.
Proof. split; [exact go_time_library_laws | exact go_time_library_accept_laws]. Qed.
Print Assumptions C05_time_laws_proved.

Theorem C05_predicate_roundtrip_go_time : forall p, dom_pred p = true ->
  parse_pred go_time_library (print_pred go_time_library p) = Ok p.
Proof. exact (pred_roundtrip go_time_library go_time_library_laws). Qed.
Print Assumptions C05_predicate_roundtrip_go_time.

Example C05_go_time_example :
  print_pred go_time_library (mkPred (lit "p") (Some (mkTime 951782400500000000 20700))) = lit """p""@[2000-02-29T05:45:00.5+05:45]".
Proof. vm_compute. reflexivity. Qed.

(* ---- the order law (for the Table family: sorting by the printed form).  For one zone offset and one length of the printed
   fraction, bytewise order of Format(RFC3339Nano) = order of the instants; across zones or precisions it is not. *)
From BWValues Require Import TimeOrder.

Theorem C05_rfc3339nano_order : forall a b, ns_dom a -> ns_dom b -> t_off a = t_off b -> frac_len a = frac_len b ->
  str_ltb (fmt_rfc3339nano a) (fmt_rfc3339nano b) = (t_ns a <? t_ns b)%Z.
Proof. exact fmt_order_same_zone_same_precision. Qed.
Print Assumptions C05_rfc3339nano_order.

Theorem C05_rfc3339nano_order_zone_refuted : exists a b, ns_dom a /\ ns_dom b /\ frac_len a = frac_len b /\
  (t_ns a < t_ns b)%Z /\ str_ltb (fmt_rfc3339nano a) (fmt_rfc3339nano b) = false.
Proof. exact fmt_order_zone_refuted. Qed.
Print Assumptions C05_rfc3339nano_order_zone_refuted.

Theorem C05_rfc3339nano_order_precision_refuted : exists a b, ns_dom a /\ ns_dom b /\ t_off a = t_off b /\
  (t_ns a < t_ns b)%Z /\ str_ltb (fmt_rfc3339nano a) (fmt_rfc3339nano b) = false.
Proof. exact fmt_order_precision_refuted. Qed.
Print Assumptions C05_rfc3339nano_order_precision_refuted.
