(* C05 - placeholder while the check is brought up; replaced by the real theorems in the same session *)
From Coq Require Import List NArith ZArith Bool String.
From Coq.Strings Require Import Byte.
Import ListNotations.
From BWValues Require Import Bytes Values Codec Uuid Io Dom Corr.

Theorem C05_node_roundtrip_refuted : exists n, wf_node n = true /\ parse_node (print_node n) = Err.
Proof. exists (mkNode (lit "/a<b") (lit "c")). split; vm_compute; reflexivity. Qed.
Print Assumptions C05_node_roundtrip_refuted.
