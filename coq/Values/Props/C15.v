(* C15 - text parsers return a well-formed value or an error for every input string.
   State of the model: the UNFIXED tree (before F1-F4). *)
From Coq Require Import List NArith ZArith Bool String.
From Coq.Strings Require Import Byte.
Import ListNotations.
From BWValues Require Import Bytes Values Codec Uuid Io Dom Corr CodecProofs.

Definition no_oracles : oracles :=
  mkOracles (fun _ => None) (fun s => s) (fun _ => None) (fun _ => []) (fun _ => None) (fun _ => []).

(* whatever node.Parse accepts is a node the constructors accept *)
Theorem C15_node_wf : forall s n, parse_node s = Ok n -> wf_node n = true.
Proof. exact parse_node_wf. Qed.
Print Assumptions C15_node_wf.

(* the full statement is false of the faithful model (and of the code: each witness is replayed by checks/c15.py) *)
Theorem C15_no_panic_node_refuted : exists s site, parse_node s = Panic site.
Proof. exists (lit "_"), S_node_blank. vm_compute. reflexivity. Qed.
Print Assumptions C15_no_panic_node_refuted.

Theorem C15_no_panic_pred_refuted : exists O s site, parse_pred O s = Panic site.
Proof. exists no_oracles, (lit """@["), S_pred_ta. vm_compute. reflexivity. Qed.
Print Assumptions C15_no_panic_pred_refuted.

Theorem C15_no_panic_literal_refuted : exists O s site, parse_literal O s = Panic site.
Proof. exists no_oracles, (lit """""^^type:blob"), S_lit_blob. vm_compute. reflexivity. Qed.
Print Assumptions C15_no_panic_literal_refuted.

Theorem C15_no_panic_triple_refuted : exists O s site, parse_triple O s = Panic site.
Proof. exists no_oracles, (lit "] ""> """), S_triple_sp. vm_compute. reflexivity. Qed.
Print Assumptions C15_no_panic_triple_refuted.

Theorem C15_wf_or_error_refuted :
  exists O s, parse_literal O s = NilNil /\ parse_object O s = Ok OInvalid.
Proof. exists no_oracles, (lit """x""^^type:foo"). vm_compute. split; reflexivity. Qed.
Print Assumptions C15_wf_or_error_refuted.
