(* C15 - text parsers return a well-formed value or an error for every input string.
   The model (Codec.v, Io.v) follows /repo after the fixes F1, F2, F2b, F3, F4 (findings/C15.txt).
   O : oracles = arbitrary answers of strconv.Unquote/Quote, time.Parse/Format, ParseFloat, %v; the theorems
   of this file hold for every such O (no law about the library is assumed). *)
From Coq Require Import List NArith ZArith Bool String.
From Coq.Strings Require Import Byte.
Import ListNotations.
From BWValues Require Import Bytes Values Codec Uuid Io Dom Corr CodecProofs.

(* for ALL byte strings and all library answers: no parser reaches an out-of-range index or slice *)
Theorem C15_no_panic : forall (O : oracles) (s : str) (site : site),
  parse_node s <> Panic site /\ parse_pred O s <> Panic site /\ parse_literal O s <> Panic site /\
  parse_object O s <> Panic site /\ parse_triple O s <> Panic site.
Proof.
  intros O s site.
  repeat split.
  - apply (good_not_panic _ _ _ (parse_node_good s)).
  - apply (good_not_panic _ _ _ (parse_pred_good O s)).
  - apply (good_not_panic _ _ _ (parse_literal_good O s)).
  - apply (good_not_panic _ _ _ (parse_object_good O s)).
  - apply (good_not_panic _ _ _ (parse_triple_good O s)).
Qed.
Print Assumptions C15_no_panic.

(* never "no value and no error"; an accepted value is one the constructors accept
   (node: type and id checks; predicate: non-empty id; literal: int64 range; object: one component; triple: all three) *)
Theorem C15_wf_or_error : forall (O : oracles) (s : str),
  (parse_node s <> NilNil /\ forall n, parse_node s = Ok n -> wf_node n = true) /\
  (parse_pred O s <> NilNil /\ forall p, parse_pred O s = Ok p -> wf_pred p = true) /\
  (parse_literal O s <> NilNil /\ forall l, parse_literal O s = Ok l -> wf_literal l = true) /\
  (parse_object O s <> NilNil /\ forall o, parse_object O s = Ok o -> wf_object o = true) /\
  (parse_triple O s <> NilNil /\ forall t, parse_triple O s = Ok t -> wf_triple t = true).
Proof.
  intros O s.
  repeat split;
    try (apply (good_not_panic _ _ _ (parse_node_good s)));
    try (apply (good_not_panic _ _ _ (parse_pred_good O s)));
    try (apply (good_not_panic _ _ _ (parse_literal_good O s)));
    try (apply (good_not_panic _ _ _ (parse_object_good O s)));
    try (apply (good_not_panic _ _ _ (parse_triple_good O s))).
  - intros n. apply good_ok_wf. apply parse_node_good.
  - intros n. apply good_ok_wf. apply parse_pred_good.
  - intros n. apply good_ok_wf. apply parse_literal_good.
  - intros n. apply good_ok_wf. apply parse_object_good.
  - intros n. apply good_ok_wf. apply parse_triple_good.
Qed.
Print Assumptions C15_wf_or_error.

(* an invalid object (all components nil) is never produced *)
Theorem C15_no_invalid_object : forall (O : oracles) (s : str),
  parse_object O s <> Ok OInvalid /\ forall t, parse_triple O s = Ok t -> tobj t <> OInvalid.
Proof.
  intros O s. split.
  - intros H. pose proof (good_ok_wf _ _ _ _ (parse_object_good O s) H). discriminate.
  - intros t H E. pose proof (good_ok_wf _ _ _ _ (parse_triple_good O s) H) as W.
    unfold wf_triple in W. rewrite E in W. cbn in W. rewrite !andb_false_r in W. discriminate.
Qed.
Print Assumptions C15_no_invalid_object.

(* the statements are not vacuous: the parsers do accept *)
Definition ex_oracles : oracles :=
  mkOracles (fun s => if str_eqb s (lit """p""") then Some (lit "p") else None) (fun s => [x22] ++ s ++ [x22])
            (fun _ => None) (fun _ => []) (fun _ => None) (fun _ => []).

Example C15_accepts_example :
  parse_triple ex_oracles (lit "/a<b>	""p""@[]	""[1 2]""^^type:blob")
  = Ok (mkTriple (mkNode (lit "/a") (lit "b")) (mkPred (lit "p") None) (OLit (LBlob [x01; x02]))).
Proof. vm_compute. reflexivity. Qed.
