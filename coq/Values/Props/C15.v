(* C15 - text parsers return a well-formed value or an error for every input string.
   The model (Codec.v, Io.v) follows /repo after the fixes F1, F2, F2b, F3, F4 (findings/C15.txt).
   O : oracles = arbitrary answers of strconv.Unquote/Quote, time.Parse/Format, ParseFloat, %v; the theorems
   of this file hold for every such O (no law about the library is assumed). *)
From Coq Require Import List NArith ZArith Bool String.
From Coq.Strings Require Import Byte.
Import ListNotations.
From BWValues Require Import Bytes Values Codec Uuid Io Dom Corr CodecProofs.

(* for ALL byte strings and all library answers: no parser reaches an out-of-range index or slice *)
Theorem C15_no_panic : forall (O : oracles) (s : str) (site : site),
  parse_node s <> Panic site /\ parse_pred O s <> Panic site /\ parse_literal O s <> Panic site /\
  parse_object O s <> Panic site /\ parse_triple O s <> Panic site.
Proof.
  intros O s site.
  repeat split.
  - apply (good_not_panic _ _ _ (parse_node_good s)).
  - apply (good_not_panic _ _ _ (parse_pred_good O s)).
  - apply (good_not_panic _ _ _ (parse_literal_good O s)).
  - apply (good_not_panic _ _ _ (parse_object_good O s)).
  - apply (good_not_panic _ _ _ (parse_triple_good O s)).
Qed.
Print Assumptions C15_no_panic.

(* never "no value and no error"; an accepted value is one the constructors accept
   (node: type and id checks; predicate: non-empty id; literal: int64 range; object: one component; triple: all three) *)
Theorem C15_wf_or_error : forall (O : oracles) (s : str),
  (parse_node s <> NilNil /\ forall n, parse_node s = Ok n -> wf_node n = true) /\
  (parse_pred O s <> NilNil /\ forall p, parse_pred O s = Ok p -> wf_pred p = true) /\
  (parse_literal O s <> NilNil /\ forall l, parse_literal O s = Ok l -> wf_literal l = true) /\
  (parse_object O s <> NilNil /\ forall o, parse_object O s = Ok o -> wf_object o = true) /\
  (parse_triple O s <> NilNil /\ forall t, parse_triple O s = Ok t -> wf_triple t = true).
Proof.
  intros O s.
  repeat split;
    try (apply (good_not_panic _ _ _ (parse_node_good s)));
    try (apply (good_not_panic _ _ _ (parse_pred_good O s)));
    try (apply (good_not_panic _ _ _ (parse_literal_good O s)));
    try (apply (good_not_panic _ _ _ (parse_object_good O s)));
    try (apply (good_not_panic _ _ _ (parse_triple_good O s))).
  - intros n. apply good_ok_wf. apply parse_node_good.
  - intros n. apply good_ok_wf. apply parse_pred_good.
  - intros n. apply good_ok_wf. apply parse_literal_good.
  - intros n. apply good_ok_wf. apply parse_object_good.
  - intros n. apply good_ok_wf. apply parse_triple_good.
Qed.
Print Assumptions C15_wf_or_error.

(* an invalid object (all components nil) is never produced *)
Theorem C15_no_invalid_object : forall (O : oracles) (s : str),
  parse_object O s <> Ok OInvalid /\ forall t, parse_triple O s = Ok t -> tobj t <> OInvalid.
Proof.
  intros O s. split.
  - intros H. pose proof (good_ok_wf _ _ _ _ (parse_object_good O s) H). discriminate.
  - intros t H E. pose proof (good_ok_wf _ _ _ _ (parse_triple_good O s) H) as W.
    unfold wf_triple in W. rewrite E in W. cbn in W. rewrite !andb_false_r in W. discriminate.
Qed.
Print Assumptions C15_no_invalid_object.

(* literal.NewBoundedBuilder(max).Parse: same guarantees, and accepted text / blob values respect the bound *)
Theorem C15_bounded_builder : forall (O : oracles) (max : nat) (s : str),
  (forall site, parse_literal_bounded O max s <> Panic site) /\ parse_literal_bounded O max s <> NilNil /\
  (forall l, parse_literal_bounded O max s = Ok l ->
     wf_literal l = true /\ parse_literal O s = Ok l /\
     match l with LText t => (List.length t <= max)%nat | LBlob b => (List.length b <= max)%nat | _ => True end).
Proof.
  intros O max s. pose proof (good_not_panic _ _ _ (parse_literal_bounded_good O max s)) as [H1 H2].
  split; [exact H1|]. split; [exact H2|]. intros l H.
  split; [exact (good_ok_wf _ _ _ _ (parse_literal_bounded_good O max s) H)|].
  unfold parse_literal_bounded in H. destruct (parse_literal O s) as [l0| | |]; try discriminate.
  destruct l0; try (inversion H; subst; split; [reflexivity | exact I]).
  - destruct (Nat.ltb max (List.length s0)) eqn:E; [discriminate|]. inversion H; subst. split; [reflexivity|].
    apply PeanoNat.Nat.ltb_ge in E. exact E.
  - destruct (Nat.ltb max (List.length b)) eqn:E; [discriminate|]. inversion H; subst. split; [reflexivity|].
    apply PeanoNat.Nat.ltb_ge in E. exact E.
Qed.
Print Assumptions C15_bounded_builder.

(* the statements are not vacuous: the parsers do accept *)
Definition ex_oracles : oracles :=
  mkOracles (fun s => if str_eqb s (lit """p""") then Some (lit "p") else None) (fun s => [x22] ++ s ++ [x22])
            (fun _ => None) (fun _ => []) (fun _ => None) (fun _ => []).

Example C15_accepts_example :
  parse_triple ex_oracles (lit "/a<b>	""p""@[]	""[1 2]""^^type:blob")
  = Ok (mkTriple (mkNode (lit "/a") (lit "b")) (mkPred (lit "p") None) (OLit (LBlob [x01; x02]))).
Proof. vm_compute. reflexivity. Qed.

(* ---- "whatever they accept prints to text that they accept again as an equal value".
   accept_laws O (RoundTrip.v) = the three strconv.Quote laws plus: every time returned by time.Parse formats to a
   non-empty text over 0-9 T : . Z + - that parses back to the same instant and offset; every float returned by ParseFloat
   (NaN included) prints to text that parses back to the same bits.  Sampled on every run. *)
From BWValues Require Import RoundTrip AcceptStable TimeCodec TimeCodecProofs Instance.

Theorem C15_accept_stable : forall (O : oracles), accept_laws O -> forall s : str,
  (forall n, parse_node s = Ok n -> parse_node (print_node n) = Ok n) /\
  (forall p, parse_pred O s = Ok p -> anchor_printable p = true -> parse_pred O (print_pred O p) = Ok p) /\
  (forall l, parse_literal O s = Ok l -> parse_literal O (print_literal O l) = Ok l) /\
  (forall o, parse_object O s = Ok o -> object_printable o = true -> parse_object O (print_object O o) = Ok o).
Proof.
  intros O A s. repeat split; intros v H.
  - exact (node_accept_stable s v H).
  - exact (pred_accept_stable O A s v H).
  - exact (literal_accept_stable O A s v H).
  - exact (object_accept_stable O A s v H).
Qed.
Print Assumptions C15_accept_stable.

(* triples (after F4b): the subject text of an accepted triple is exactly the printed subject and lies before the
   first subject split, so the split is found again; the predicate id is skipped as a quoted string *)
Theorem C15_accept_stable_triple : forall (O : oracles), accept_laws O -> forall s t,
  parse_triple O s = Ok t -> triple_printable t = true -> parse_triple O (print_triple O t) = Ok t.
Proof. exact triple_accept_stable. Qed.
Print Assumptions C15_accept_stable_triple.

(* anchor_printable / object_printable / triple_printable (Dom.v): the zone offset of every accepted anchor is below 25 hours.
   The condition is needed: time.Parse accepts a zone hour up to 24 AND a zone minute up to 60, so "+24:60" is accepted as
   +25:00, which Format prints as "+25:00" and Parse rejects.  With the Go-faithful codec (TimeCodec.v, laws proved,
   Instance.go_time_library) this is a closed counterexample, replayed on predicate.Parse by the check (finding C15-zone-2460) *)
Theorem C15_accept_stable_zone_2460_refuted : exists s p,
  parse_pred go_time_library s = Ok p /\ parse_pred go_time_library (print_pred go_time_library p) = Err.
Proof.
  exists (lit """a""@[2006-01-02T15:04:05+24:60]"), (mkPred (lit "a") (Some (mkTime 1136124245000000000 90000))).
  split; vm_compute; reflexivity.
Qed.
Print Assumptions C15_accept_stable_zone_2460_refuted.

(* and for that library the accept laws are theorems, so the stability statements hold without hypotheses about time *)
Theorem C15_accept_stable_go_time : forall s p,
  parse_pred go_time_library s = Ok p -> anchor_printable p = true ->
  parse_pred go_time_library (print_pred go_time_library p) = Ok p.
Proof. exact (pred_accept_stable go_time_library go_time_library_accept_laws). Qed.
Print Assumptions C15_accept_stable_go_time.

(* the witness that refuted the full statement before F4b (an id containing ']' blank '/' reached through \x20)
   is now accepted and stable.  Library answers as a table: Unquote of the escaped form, Quote of the id. *)
Definition respaced_oracles : oracles :=
  table_oracles (mkTables [(lit """x]\x20/y""", lit "x] /y"); (lit """x] /y""", lit "x] /y")] [(lit "x] /y", lit """x] /y""")] [] [] [] []).

Example C15_accept_stable_triple_former_witness :
  let t := mkTriple (mkNode (lit "/a") (lit "b")) (mkPred (lit "x] /y") None) (ONode (mkNode (lit "/c") (lit "d"))) in
  parse_triple respaced_oracles (lit "/a<b>	""x]\x20/y""@[]	/c<d>") = Ok t /\
  parse_triple respaced_oracles (print_triple respaced_oracles t) = Ok t.
Proof. split; vm_compute; reflexivity. Qed.

(* ---- the line-oriented reader (model Io.v, after F22/F23).  A raw line is what lies between newlines;
   line_text drops a trailing CR and trims.  line_ok: fits bufio.Scanner's 64 KiB buffer and is blank or a triple;
   line_bad: does not fit, or is neither blank nor a triple.  (Every line is one or the other: line_ok_or_bad.) *)
From BWValues Require Import IoProofs.

(* exactly the triples on the lines before the first malformed line are added (in order), that count is reported,
   and an error is returned - for every text, every starting graph, every library behaviour *)
Theorem C15_reader_prefix : forall (O : oracles) (pre : list str) (bad : str) (rest : list str) (g : graph),
  Forall (line_ok O) pre -> line_bad O bad ->
  exists g', add_all g (line_triples O pre) = Ok g' /\
             read_lines O (pre ++ bad :: rest) 0 g = (N.of_nat (List.length (line_triples O pre)), RErr, g').
Proof. exact read_lines_prefix. Qed.
Print Assumptions C15_reader_prefix.

(* no malformed line: every triple is added, the count is the number of non-blank lines, nil error *)
Theorem C15_reader_all : forall (O : oracles) (ls : list str) (g : graph),
  Forall (line_ok O) ls ->
  exists g', add_all g (line_triples O ls) = Ok g' /\
             read_lines O ls 0 g = (N.of_nat (List.length (line_triples O ls)), RNil, g').
Proof. exact read_lines_all. Qed.
Print Assumptions C15_reader_all.

Theorem C15_reader_total : forall (O : oracles) (l : str), line_ok O l \/ line_bad O l.
Proof. exact line_ok_or_bad. Qed.
Print Assumptions C15_reader_total.

(* the reader itself never panics (also not inside AddTriples: no accepted triple has an invalid object, and after F5
   every literal has a UUID) *)
Theorem C15_reader_no_panic : forall (O : oracles) (text : str) (g : graph),
  snd (fst (read_into_graph O g text)) <> RPanic.
Proof. intros O text g. apply read_lines_no_panic. Qed.
Print Assumptions C15_reader_no_panic.

Example C15_reader_example :
  read_into_graph ex_oracles [] (lit "/a<b>	""p""@[]	/c<d>
bad line
/a<b>	""p""@[]	/e<f>
") = (1%N, RErr, [((lit "/ab", lit "pimmutable", lit "/cd"),
                   mkTriple (mkNode (lit "/a") (lit "b")) (mkPred (lit "p") None) (ONode (mkNode (lit "/c") (lit "d"))))]).
Proof. vm_compute. reflexivity. Qed.
