(* C06 - equal UUID exactly when values are equal; UUID defined for every value.
   UUID(v) = SHA1(NIL ++ pre v): the theorems are about the byte pre-image pre_* (Uuid.v, following /repo after
   fix F5); SHA-1 is an oracle assumed injective on the pre-images that occur. *)
From Coq Require Import List NArith ZArith Bool String.
From Coq.Strings Require Import Byte.
Import ListNotations.
From BWValues Require Import Bytes Values Codec Uuid Io Dom Corr UuidProofs.

(* ---- predicates: FULL.  Same pre-image iff same id, same kind, and anchors equal as instants
   (instants are compared through Time.UnixNano(), i.e. modulo 2^64 ns - the modulus is explicit, see
   C06_instant_wrap_refuted for what it costs) *)
Theorem C06_predicate_inj : forall p q : pred,
  pre_pred p = pre_pred q <->
  (pid p = pid q /\
   match panchor p, panchor q with
   | None, None => True
   | Some x, Some y => wrap64 (t_ns x) = wrap64 (t_ns y)
   | _, _ => False
   end).
Proof. exact pre_pred_inj. Qed.
Print Assumptions C06_predicate_inj.

(* for anchors whose UnixNano() is representable (years 1678..2262) the modulus disappears *)
Theorem C06_predicate_inj_representable : forall p q x y,
  panchor p = Some x -> panchor q = Some y ->
  int64_range (t_ns x) -> int64_range (t_ns y) ->
  (pre_pred p = pre_pred q <-> pid p = pid q /\ t_ns x = t_ns y).
Proof.
  intros p q x y Hp Hq Hx Hy. rewrite pre_pred_inj, Hp, Hq. cbn. rewrite (wrap64_id _ Hx), (wrap64_id _ Hy). tauto.
Qed.
Print Assumptions C06_predicate_inj_representable.

(* the zone of the anchor does not enter the UUID *)
Theorem C06_zone_independent : forall id ns off1 off2,
  pre_pred (mkPred id (Some (mkTime ns off1))) = pre_pred (mkPred id (Some (mkTime ns off2))).
Proof. reflexivity. Qed.
Print Assumptions C06_zone_independent.

(* ---- triples: injective as soon as the components are (the three component UUIDs are hashed side by side) *)
Theorem C06_triple_inj_from_components :
  forall (Pn : node -> Prop) (Pp : pred -> Prop) (Po : object -> Prop),
  (forall a b, Pn a -> Pn b -> pre_node a = pre_node b -> a = b) ->
  (forall a b, Pp a -> Pp b -> pre_pred a = pre_pred b -> a = b) ->
  (forall a b, Po a -> Po b -> pre_object a = pre_object b -> a = b) ->
  forall t1 t2 k, Pn (subj t1) -> Pn (subj t2) -> Pp (tpred t1) -> Pp (tpred t2) -> Po (tobj t1) -> Po (tobj t2) ->
  pre_triple t1 = Ok k -> pre_triple t2 = Ok k -> t1 = t2.
Proof.
  intros Pn Pp Po Hn Hp Ho [s1 p1 o1] [s2 p2 o2] k N1 N2 P1 P2 O1 O2 E1 E2.
  destruct (pre_triple_components _ _ _ E1 E2) as [A [B C]]. cbn [subj tpred tobj] in *.
  rewrite (Hn _ _ N1 N2 A), (Hp _ _ P1 P2 B), (Ho _ _ O1 O2 C). reflexivity.
Qed.
Print Assumptions C06_triple_inj_from_components.

(* ---- definedness: FULL after F5.  Every literal, every object with a component, every triple with such an object
   has a pre-image (no Panic); in particular every int64 *)
Theorem C06_defined :
  (forall l, exists b, pre_literal l = Ok b) /\
  (forall o, o <> OInvalid -> exists b, pre_object o = Ok b) /\
  (forall t, tobj t <> OInvalid -> exists k, pre_triple t = Ok k).
Proof.
  split; [exact pre_literal_defined|]. split; [exact pre_object_defined|].
  intros t H. unfold pre_triple. destruct (pre_object_defined _ H) as [b Hb]. rewrite Hb. eauto.
Qed.
Print Assumptions C06_defined.

(* ---- determinism: the pre-image is a function of the value alone (no clock, pid, seed, address);
   sameness across calls / goroutines / pooled buffers is what the correspondence run samples *)
Theorem C06_deterministic : forall t1 t2 : triple, t1 = t2 -> pre_triple t1 = pre_triple t2.
Proof. intros t1 t2 H. rewrite H. reflexivity. Qed.
Print Assumptions C06_deterministic.

(* ---- literals: PARTIAL - injective within one literal type (int64 in range, float64 a 64-bit pattern) *)
Theorem C06_literal_inj_same_type_partial : forall a b,
  same_lit_type a b = true -> lit_in_range a = true -> lit_in_range b = true ->
  pre_literal a = pre_literal b -> a = b.
Proof. exact pre_literal_inj_same_type. Qed.
Print Assumptions C06_literal_inj_same_type_partial.

Example C06_literal_domain_inhabited :
  same_lit_type (LInt 9223372036854775807) (LInt (-9223372036854775808)) = true /\
  lit_in_range (LInt 9223372036854775807) = true /\ lit_in_range (LInt (-9223372036854775808)) = true /\
  pre_literal (LInt 9223372036854775807) <> pre_literal (LInt (-9223372036854775808)).
Proof. repeat split; vm_compute; congruence. Qed.

(* ---- nodes: PARTIAL - injective when neither type is a proper prefix of the other (prefix-free type vocabulary) *)
Theorem C06_node_inj_partial : forall a b,
  proper_prefix (ntype a) (ntype b) = false -> proper_prefix (ntype b) (ntype a) = false ->
  pre_node a = pre_node b -> a = b.
Proof. exact pre_node_inj_prefix_free. Qed.
Print Assumptions C06_node_inj_partial.

Example C06_node_domain_inhabited :
  proper_prefix (lit "/user") (lit "/item") = false /\ proper_prefix (lit "/item") (lit "/user") = false /\
  wf_node (mkNode (lit "/user") (lit "a")) = true.
Proof. repeat split; reflexivity. Qed.

(* ---- REFUTED parts of the full statement (each witness is replayed on the implementation by checks/c06.py) *)
Theorem C06_node_inj_refuted : exists a b, wf_node a = true /\ wf_node b = true /\ a <> b /\ pre_node a = pre_node b.
Proof.
  exists (mkNode (lit "/a") (lit "bc")), (mkNode (lit "/ab") (lit "c")).
  repeat split; try reflexivity. discriminate.
Qed.
Print Assumptions C06_node_inj_refuted.

(* no type tag: text "true" vs bool true; int64 0 vs float64 0; text vs blob *)
Theorem C06_literal_inj_refuted :
  (exists a b, wf_literal a = true /\ wf_literal b = true /\ a <> b /\ pre_literal a = pre_literal b) /\
  pre_literal (LInt 0) = pre_literal (LFloat 0) /\
  pre_literal (LText (lit "abc")) = pre_literal (LBlob (lit "abc")).
Proof.
  split; [|split; reflexivity].
  exists (LText (lit "true")), (LBool true). repeat split; try reflexivity. discriminate.
Qed.
Print Assumptions C06_literal_inj_refuted.

(* objects of different kinds: node /a<bc> vs text "/abc"; predicate "x"@[] vs text "ximmutable" *)
Theorem C06_object_inj_refuted :
  (exists a b, wf_object a = true /\ wf_object b = true /\ a <> b /\ pre_object a = pre_object b) /\
  pre_object (OPred (mkPred (lit "x") None)) = pre_object (OLit (LText (lit "ximmutable"))).
Proof.
  split; [|reflexivity].
  exists (ONode (mkNode (lit "/a") (lit "bc"))), (OLit (LText (lit "/abc"))).
  repeat split; try reflexivity. discriminate.
Qed.
Print Assumptions C06_object_inj_refuted.

(* anchors 2^64 ns apart (both within years 0001..9999) *)
Theorem C06_instant_wrap_refuted : exists x y,
  time_dom x = true /\ time_dom y = true /\ t_ns x <> t_ns y /\
  pre_pred (mkPred (lit "x") (Some x)) = pre_pred (mkPred (lit "x") (Some y)).
Proof.
  exists (mkTime (-8520336000000000000) 0), (mkTime 9926408073709551616 0).
  repeat split; try (vm_compute; reflexivity). vm_compute. discriminate.
Qed.
Print Assumptions C06_instant_wrap_refuted.

(* the pre-fix model had pre_literal (LInt (2^55)) = Panic (8-byte buffer); after F5 the value is defined and
   small values keep their old 8-byte pre-image *)
Example C06_int_preimages :
  pre_literal (LInt 1) = Ok [x02; x00; x00; x00; x00; x00; x00; x00] /\
  pre_literal (LInt 36028797018963968) = Ok [x80; x80; x80; x80; x80; x80; x80; x80; x01] /\
  pre_literal (LInt (-9223372036854775808)) = Ok [xff; xff; xff; xff; xff; xff; xff; xff; xff; x01].
Proof. repeat split; vm_compute; reflexivity. Qed.

(* objects of one kind inherit the component's injectivity (predicate objects: full; literal objects: within one type) *)
Theorem C06_object_inj_same_kind_partial :
  (forall p q, pre_object (OPred p) = pre_object (OPred q) ->
     pid p = pid q /\ match panchor p, panchor q with
                      | None, None => True
                      | Some x, Some y => wrap64 (t_ns x) = wrap64 (t_ns y)
                      | _, _ => False
                      end) /\
  (forall a b, same_lit_type a b = true -> lit_in_range a = true -> lit_in_range b = true ->
     pre_object (OLit a) = pre_object (OLit b) -> a = b).
Proof. split; [exact pre_object_inj_same_kind_pred | exact pre_object_inj_same_kind_lit]. Qed.
Print Assumptions C06_object_inj_same_kind_partial.
