(* What the parsers return lies in the domain on which printing and parsing are inverse:
   parse s = Ok v  ->  parse (print v) = Ok v. *)
From Coq Require Import List NArith ZArith Bool Lia ZifyBool ZifyNat ZifyN.
From Coq.Strings Require Import Byte.
Import ListNotations.
From BWValues Require Import Bytes BytesProofs Values Codec Uuid Io Dom CodecProofs UuidProofs RoundTrip SplitProofs.

Ltac dm := repeat match goal with
  | |- context [match ?x with _ => _ end] => destruct x eqn:?; try discriminate
  end.

(* ---- node: the type is the text before the FIRST '<' *)
Lemma parse_node_dom : forall s n, parse_node s = Ok n -> dom_node n = true.
Proof.
  intros s n H. unfold dom_node. rewrite (good_ok_wf _ _ _ _ (parse_node_good s) H). cbn [andb]. apply negb_true_iff.
  revert H. unfold parse_node. generalize (trim_space s) as raw. intros raw.
  destruct raw as [|c0 rest]; [discriminate|]. rewrite at_index_0. cbn [idx].
  remember (c0 :: rest) as raw eqn:Eraw.
  destruct (Byte.eqb c0 c_slash).
  - destruct (index s_lt raw) as [i|] eqn:Ei; [|discriminate].
    apply index_single_spec in Ei. destruct Ei as [a [b [Hs [Hi Hn]]]]. subst i.
    assert (Hsl : slice raw 0 (Z.of_nat (length a)) = Some a) by (rewrite Hs; apply slice_prefix).
    rewrite Hsl. cbn [idx].
    destruct (new_type a) as [t|] eqn:Et; [|discriminate].
    destruct (at_index raw (zlen raw - 1)) as [l|]; [|discriminate]. cbn [idx].
    destruct (negb (Byte.eqb l c_gt)); [discriminate|].
    destruct (slice raw (Z.of_nat (length a) + 1) (zlen raw - 1)) as [ids|]; [|discriminate]. cbn [idx].
    destruct (new_id ids) as [id|]; [|discriminate].
    intros H. inversion H. subst n. cbn [ntype]. destruct (new_type_ok _ _ Et) as [_ E]. subst t.
    apply memb_false. exact Hn.
  - destruct (Byte.eqb c0 c_under); [|discriminate].
    destruct (zlen raw <? 2)%Z; [discriminate|].
    destruct (slice raw 2 (zlen raw)) as [ids|]; [|discriminate]. cbn [idx].
    destruct (new_id ids) as [id|]; [|discriminate].
    intros H. inversion H. reflexivity.
Qed.

(* a trimmed text ending in '>' that node.Parse accepts is exactly the printed form of the node *)
Lemma id_ok_no_gt : forall i, id_ok i = true -> i <> [] /\ ~ In c_gt i.
Proof.
  intros i H. unfold id_ok in H. apply andb_true_iff in H. destruct H as [H1 H2]. split.
  - intros E. subst i. discriminate.
  - intros Hin. apply negb_true_iff in H1.
    assert (X : existsb (fun c => memb c [x3c; x3e]) i = true) by (apply existsb_exists; exists c_gt; split; [exact Hin | reflexivity]).
    congruence.
Qed.

Lemma parse_node_print : forall m n, trim_space (m ++ [c_gt]) = m ++ [c_gt] ->
  parse_node (m ++ [c_gt]) = Ok n -> print_node n = m ++ [c_gt].
Proof.
  intros m n Ht. unfold parse_node. rewrite Ht.
  remember (m ++ [c_gt]) as raw eqn:Eraw.
  destruct raw as [|c0 rest]; [discriminate|]. rewrite at_index_0. cbn [idx].
  remember (c0 :: rest) as raw' eqn:Eraw'.
  assert (Hm : raw' = m ++ [c_gt]) by congruence.
  destruct (Byte.eqb c0 c_slash).
  - destruct (index s_lt raw') as [i|] eqn:Ei; [|discriminate].
    apply index_single_spec in Ei. destruct Ei as [a [b [Hs [Hi Hn]]]]. subst i.
    assert (Hsl : slice raw' 0 (Z.of_nat (length a)) = Some a) by (rewrite Hs; apply slice_prefix).
    rewrite Hsl. cbn [idx].
    destruct (new_type a) as [t|] eqn:Et; [|discriminate]. destruct (new_type_ok _ _ Et) as [_ E]. subst t.
    destruct (at_index raw' (zlen raw' - 1)) as [l|]; [|discriminate]. cbn [idx].
    destruct (negb (Byte.eqb l c_gt)); [discriminate|].
    assert (Hb : exists b', b = b' ++ [c_gt]).
    { destruct (@exists_last _ b) as [b' [x Hx]].
      - intros X. subst b. rewrite Hs in Hm. change (a ++ [c_lt]) with (a ++ [c_lt]) in Hm.
        apply app_inj_tail in Hm. destruct Hm as [_ X]. discriminate.
      - exists b'. subst b. rewrite Hs in Hm.
        rewrite app_comm_cons, app_assoc in Hm.
        apply app_inj_tail in Hm. destruct Hm as [_ X]. subst x. reflexivity. }
    destruct Hb as [b' Hb]. subst b.
    assert (Hs2 : slice raw' (Z.of_nat (length a) + 1) (zlen raw' - 1) = Some b').
    { rewrite Hs. replace (a ++ x3c :: b' ++ [c_gt]) with ((a ++ [x3c]) ++ b' ++ [c_gt]) by (rewrite <- app_assoc; reflexivity).
      replace (Z.of_nat (length a) + 1)%Z with (zlen (a ++ [x3c])) by zl.
      replace (zlen ((a ++ [x3c]) ++ b' ++ [c_gt]) - 1)%Z with (zlen (a ++ [x3c]) + zlen b')%Z by zl.
      apply slice_app_mid. }
    rewrite Hs2. cbn [idx].
    destruct (new_id b') as [id|] eqn:Eid; [|discriminate]. destruct (new_id_ok _ _ Eid) as [_ E]. subst id.
    intros H. inversion H. subst n. unfold print_node. cbn [ntype nid]. rewrite Hs.
    cbn [app]. reflexivity.
  - destruct (Byte.eqb c0 c_under); [|discriminate].
    destruct (zlen raw' <? 2)%Z eqn:E2; [discriminate|].
    destruct (slice raw' 2 (zlen raw')) as [ids|] eqn:Esl; [|discriminate]. cbn [idx].
    destruct (new_id ids) as [id|] eqn:Eid; [|discriminate]. destruct (new_id_ok _ _ Eid) as [Hok E]. subst id.
    exfalso. destruct (id_ok_no_gt _ Hok) as [Hne Hng].
    apply slice_some in Esl. destruct Esl as [_ [_ [_ E]]].
    assert (Eids : ids = skipn 2 raw').
    { rewrite E. apply firstn_all2. rewrite skipn_length. unfold zlen. lia. }
    rewrite Hm in Eids. rewrite skipn_app in Eids.
    destruct (Nat.leb 2 (length m)) eqn:El.
    + apply Nat.leb_le in El. replace (2 - length m)%nat with 0%nat in Eids by lia. cbn [skipn] in Eids.
      apply Hng. rewrite Eids. apply in_or_app. right. left. reflexivity.
    + apply Nat.leb_gt in El. apply Hne. rewrite Eids.
      rewrite skipn_all2 by lia. destruct (2 - length m)%nat eqn:Ek; [lia|]. cbn [skipn app]. destruct n0; reflexivity.
Qed.

Section WithOracles.
Variable O : oracles.

(* ---- predicate: the anchor is an answer of time.Parse *)
Definition anchor_parsed (p : pred) : Prop :=
  match panchor p with None => True | Some t => exists x, o_parse_time O x = Some t end.

Lemma parse_pred_anchor : forall s p, parse_pred O s = Ok p -> anchor_parsed p.
Proof.
  intros s p. unfold parse_pred, idx. dm; intros H; inversion H; subst; unfold anchor_parsed; cbn [panchor]; eauto.
Qed.

(* ---- literal: a float is an answer of ParseFloat *)
Definition float_parsed (l : literal) : Prop :=
  match l with LFloat b => exists x, o_parse_float O x = Some b | _ => True end.

Lemma parse_literal_float : forall s l, parse_literal O s = Ok l -> float_parsed l.
Proof.
  intros s l. unfold parse_literal, idx. dm; intros H; inversion H; subst; unfold float_parsed; eauto.
Qed.

Hypothesis A : accept_laws O.

Lemma parse_pred_gdom : forall s p, parse_pred O s = Ok p -> anchor_printable p = true -> gdom_pred O p.
Proof.
  intros s p H Hpr. split; [exact (good_ok_wf _ _ _ _ (parse_pred_good O s) H)|].
  pose proof (parse_pred_anchor _ _ H) as Ha. unfold anchor_parsed in Ha. unfold anchor_printable in Hpr.
  destruct (panchor p) as [t|]; [|exact I].
  destruct Ha as [x Hx]. exact (alaw_time O A _ _ Hx Hpr).
Qed.

Lemma parse_literal_gdom : forall s l, parse_literal O s = Ok l -> gdom_literal O l.
Proof.
  intros s l H. split; [exact (good_ok_wf _ _ _ _ (parse_literal_good O s) H)|].
  pose proof (parse_literal_float _ _ H) as Ha. unfold float_parsed in Ha. destruct l; try exact I.
  destruct Ha as [x Hx]. exact (alaw_float O A _ _ Hx).
Qed.

Lemma parse_object_gdom : forall s o, parse_object O s = Ok o -> object_printable o = true -> gdom_object O o.
Proof.
  intros s o. unfold parse_object.
  destruct (parse_node s) as [n| | |] eqn:En.
  - intros H. inversion H. subst o. cbn. intros _. exact (parse_node_dom _ _ En).
  - destruct (parse_literal O s) as [l| | |] eqn:El.
    + intros H. inversion H. subst o. cbn. intros _. exact (parse_literal_gdom _ _ El).
    + destruct (parse_pred O s) as [p| | |] eqn:Ep; try discriminate.
      intros H. inversion H. subst o. cbn. exact (parse_pred_gdom _ _ Ep).
    + discriminate.
    + intros H. exfalso. pose proof (parse_literal_good O s) as G. rewrite El in G. inversion G.
  - discriminate.
  - destruct (parse_literal O s) as [l| | |] eqn:El.
    + intros H. inversion H. subst o. cbn. intros _. exact (parse_literal_gdom _ _ El).
    + destruct (parse_pred O s) as [p| | |] eqn:Ep; try discriminate.
      intros H. inversion H. subst o. cbn. exact (parse_pred_gdom _ _ Ep).
    + discriminate.
    + intros H. exfalso. pose proof (parse_literal_good O s) as G. rewrite El in G. inversion G.
Qed.

(* ---- accept-stable *)
Lemma node_accept_stable : forall s n, parse_node s = Ok n -> parse_node (print_node n) = Ok n.
Proof. intros s n H. apply node_roundtrip. exact (parse_node_dom _ _ H). Qed.

Lemma pred_accept_stable : forall s p, parse_pred O s = Ok p -> anchor_printable p = true -> parse_pred O (print_pred O p) = Ok p.
Proof. intros s p H Hp. apply (pred_roundtrip_g O (alaw_quote O A)). exact (parse_pred_gdom _ _ H Hp). Qed.

Lemma literal_accept_stable : forall s l, parse_literal O s = Ok l -> parse_literal O (print_literal O l) = Ok l.
Proof. intros s l H. apply literal_roundtrip_g. exact (parse_literal_gdom _ _ H). Qed.

Lemma object_accept_stable : forall s o, parse_object O s = Ok o -> object_printable o = true -> parse_object O (print_object O o) = Ok o.
Proof. intros s o H Hp. apply (object_roundtrip_g O (alaw_quote O A)). exact (parse_object_gdom _ _ H Hp). Qed.

(* triple: the components of an accepted triple are in the domain, and its subject text is exactly the printed subject,
   which (being the text before the FIRST subject split) contains no earlier split *)
Lemma parse_triple_components : forall s t, parse_triple O s = Ok t ->
  dom_node (subj t) = true /\ (anchor_printable (tpred t) = true -> gdom_pred O (tpred t)) /\
  (object_printable (tobj t) = true -> gdom_object O (tobj t)) /\ type_split_free (ntype (subj t)) = true.
Proof.
  intros s t. unfold parse_triple, idx.
  destruct (p_split (trim_space s)) as [[ps pe]|] eqn:Eps; [|discriminate].
  destruct (slice (trim_space s) (Z.of_nat (pe - 1) + 1) (zlen (trim_space s))) as [aq|]; [|discriminate].
  destruct (slice (trim_space s) (Z.of_nat (pe - 1 + 1 + skip_quoted aq)) (zlen (trim_space s))) as [rest|]; [|discriminate].
  destruct (o_split_from rest (pe - 1 + 1 + skip_quoted aq)) as [[os oe]|]; [|discriminate].
  destruct (slice (trim_space s) 0 (Z.of_nat ps + 1)) as [ss|] eqn:Ess; [|discriminate].
  destruct (slice (trim_space s) (Z.of_nat pe - 1) (Z.of_nat os + 1)) as [sp|]; [|discriminate].
  destruct (slice (trim_space s) (Z.of_nat oe - 1) (zlen (trim_space s))) as [so|]; [|discriminate].
  destruct (parse_node ss) as [n| | |] eqn:En; try discriminate.
  destruct (parse_pred O sp) as [p| | |] eqn:Ep; try discriminate.
  destruct (parse_object O so) as [o| | |] eqn:Eo; try discriminate.
  intros H. inversion H. subst t. cbn [subj tpred tobj].
  split; [exact (parse_node_dom _ _ En)|]. split; [exact (parse_pred_gdom _ _ Ep)|]. split; [exact (parse_object_gdom _ _ Eo)|].
  (* the subject text *)
  set (raw := trim_space s) in *.
  unfold p_split in Eps. pose proof (find_split_bounds _ _ _ _ _ _ Eps) as [_ [Hb1 Hb2]].
  destruct (find_split_opn _ _ _ _ _ _ Eps) as [pre [post [Hraw Hps]]]. cbn [plus] in Hps. subst ps.
  assert (Hss : ss = pre ++ [c_gt]).
  { apply slice_some in Ess. destruct Ess as [_ [_ [_ E]]]. subst ss. rewrite Hraw.
    replace (Z.to_nat (Z.of_nat (length pre) + 1 - 0)) with (length (pre ++ [c_gt])) by (rewrite app_length; cbn; lia).
    cbn [skipn Z.to_nat]. replace (pre ++ x3e :: post) with ((pre ++ [c_gt]) ++ post) by (rewrite <- app_assoc; reflexivity).
    rewrite firstn_app, firstn_all, Nat.sub_diag. cbn [firstn]. apply app_nil_r. }
  assert (Htrim : trim_space ss = ss).
  { rewrite Hss. apply (trim_space_prefix_gt s pre post). fold raw. rewrite Hraw. rewrite <- app_assoc. reflexivity. }
  rewrite Hss in Htrim, En. pose proof (parse_node_print _ _ Htrim En) as Hprint.
  (* raw = type ++ '<' :: id ++ '>' :: post, the first split is at that '>' : none inside type ++ "<" *)
  unfold type_split_free. destruct (find_split x3e [x22] (ntype n ++ [x3c]) 0) as [[p1 q1]|] eqn:Ef; [|reflexivity].
  exfalso. pose proof (find_split_bounds _ _ _ _ _ _ Ef) as [_ [Hf1 Hf2]].
  assert (Hraw2 : raw = ntype n ++ c_lt :: (nid n ++ c_gt :: post)).
  { rewrite Hraw. replace (pre ++ x3e :: post) with ((pre ++ [c_gt]) ++ post) by (rewrite <- app_assoc; reflexivity).
    rewrite <- Hprint. unfold print_node. rewrite <- !app_assoc. reflexivity. }
  rewrite Hraw2 in Eps. rewrite find_split_extend in Eps by reflexivity.
  change (ntype n ++ [c_lt]) with (ntype n ++ [x3c]) in Eps. rewrite Ef in Eps. inversion Eps as [[E1 E2]].
  assert (Hlen : length pre = (length (ntype n) + 1 + length (nid n))%nat).
  { assert (X : length (pre ++ [c_gt]) = length (print_node n)) by (rewrite Hprint; reflexivity).
    unfold print_node in X. rewrite !app_length in X. cbn [length] in X. lia. }
  rewrite app_length in Hf2. cbn [length] in Hf2. lia.
Qed.

Lemma triple_accept_stable : forall s t, parse_triple O s = Ok t -> triple_printable t = true ->
  parse_triple O (print_triple O t) = Ok t.
Proof.
  intros s t H Hpr. destruct (parse_triple_components _ _ H) as [Hn [Hp [Ho Hf]]].
  unfold triple_printable in Hpr. apply andb_true_iff in Hpr. destruct Hpr as [P1 P2].
  apply (triple_roundtrip_g O (alaw_quote O A)). unfold gdom_triple. repeat split; try assumption; try (apply Hp; exact P1). exact (Ho P2).
Qed.

End WithOracles.
