(* What the parsers return lies in the domain on which printing and parsing are inverse:
   parse s = Ok v  ->  parse (print v) = Ok v. *)
From Coq Require Import List NArith ZArith Bool Lia ZifyBool ZifyNat ZifyN.
From Coq.Strings Require Import Byte.
Import ListNotations.
From BWValues Require Import Bytes BytesProofs Values Codec Uuid Io Dom CodecProofs UuidProofs RoundTrip.

Ltac dm := repeat match goal with
  | |- context [match ?x with _ => _ end] => destruct x eqn:?; try discriminate
  end.

(* ---- node: the type is the text before the FIRST '<' *)
Lemma parse_node_dom : forall s n, parse_node s = Ok n -> dom_node n = true.
Proof.
  intros s n H. unfold dom_node. rewrite (good_ok_wf _ _ _ _ (parse_node_good s) H). cbn [andb]. apply negb_true_iff.
  revert H. unfold parse_node. generalize (trim_space s) as raw. intros raw.
  destruct raw as [|c0 rest]; [discriminate|]. rewrite at_index_0. cbn [idx].
  remember (c0 :: rest) as raw eqn:Eraw.
  destruct (Byte.eqb c0 c_slash).
  - destruct (index s_lt raw) as [i|] eqn:Ei; [|discriminate].
    apply index_single_spec in Ei. destruct Ei as [a [b [Hs [Hi Hn]]]]. subst i.
    assert (Hsl : slice raw 0 (Z.of_nat (length a)) = Some a) by (rewrite Hs; apply slice_prefix).
    rewrite Hsl. cbn [idx].
    destruct (new_type a) as [t|] eqn:Et; [|discriminate].
    destruct (at_index raw (zlen raw - 1)) as [l|]; [|discriminate]. cbn [idx].
    destruct (negb (Byte.eqb l c_gt)); [discriminate|].
    destruct (slice raw (Z.of_nat (length a) + 1) (zlen raw - 1)) as [ids|]; [|discriminate]. cbn [idx].
    destruct (new_id ids) as [id|]; [|discriminate].
    intros H. inversion H. subst n. cbn [ntype]. destruct (new_type_ok _ _ Et) as [_ E]. subst t.
    apply memb_false. exact Hn.
  - destruct (Byte.eqb c0 c_under); [|discriminate].
    destruct (zlen raw <? 2)%Z; [discriminate|].
    destruct (slice raw 2 (zlen raw)) as [ids|]; [|discriminate]. cbn [idx].
    destruct (new_id ids) as [id|]; [|discriminate].
    intros H. inversion H. reflexivity.
Qed.

Section WithOracles.
Variable O : oracles.

(* ---- predicate: the anchor is an answer of time.Parse *)
Definition anchor_parsed (p : pred) : Prop :=
  match panchor p with None => True | Some t => exists x, o_parse_time O x = Some t end.

Lemma parse_pred_anchor : forall s p, parse_pred O s = Ok p -> anchor_parsed p.
Proof.
  intros s p. unfold parse_pred, idx. dm; intros H; inversion H; subst; unfold anchor_parsed; cbn [panchor]; eauto.
Qed.

(* ---- literal: a float is an answer of ParseFloat *)
Definition float_parsed (l : literal) : Prop :=
  match l with LFloat b => exists x, o_parse_float O x = Some b | _ => True end.

Lemma parse_literal_float : forall s l, parse_literal O s = Ok l -> float_parsed l.
Proof.
  intros s l. unfold parse_literal, idx. dm; intros H; inversion H; subst; unfold float_parsed; eauto.
Qed.

Hypothesis A : accept_laws O.

Lemma parse_pred_gdom : forall s p, parse_pred O s = Ok p -> gdom_pred O p.
Proof.
  intros s p H. split; [exact (good_ok_wf _ _ _ _ (parse_pred_good O s) H)|].
  pose proof (parse_pred_anchor _ _ H) as Ha. unfold anchor_parsed in Ha. destruct (panchor p) as [t|]; [|exact I].
  destruct Ha as [x Hx]. exact (alaw_time O A _ _ Hx).
Qed.

Lemma parse_literal_gdom : forall s l, parse_literal O s = Ok l -> gdom_literal O l.
Proof.
  intros s l H. split; [exact (good_ok_wf _ _ _ _ (parse_literal_good O s) H)|].
  pose proof (parse_literal_float _ _ H) as Ha. unfold float_parsed in Ha. destruct l; try exact I.
  destruct Ha as [x Hx]. exact (alaw_float O A _ _ Hx).
Qed.

Lemma parse_object_gdom : forall s o, parse_object O s = Ok o -> gdom_object O o.
Proof.
  intros s o. unfold parse_object.
  destruct (parse_node s) as [n| | |] eqn:En.
  - intros H. inversion H. subst o. cbn. exact (parse_node_dom _ _ En).
  - destruct (parse_literal O s) as [l| | |] eqn:El.
    + intros H. inversion H. subst o. cbn. exact (parse_literal_gdom _ _ El).
    + destruct (parse_pred O s) as [p| | |] eqn:Ep; try discriminate.
      intros H. inversion H. subst o. cbn. exact (parse_pred_gdom _ _ Ep).
    + discriminate.
    + intros H. exfalso. pose proof (parse_literal_good O s) as G. rewrite El in G. inversion G.
  - discriminate.
  - destruct (parse_literal O s) as [l| | |] eqn:El.
    + intros H. inversion H. subst o. cbn. exact (parse_literal_gdom _ _ El).
    + destruct (parse_pred O s) as [p| | |] eqn:Ep; try discriminate.
      intros H. inversion H. subst o. cbn. exact (parse_pred_gdom _ _ Ep).
    + discriminate.
    + intros H. exfalso. pose proof (parse_literal_good O s) as G. rewrite El in G. inversion G.
Qed.

(* ---- accept-stable *)
Lemma node_accept_stable : forall s n, parse_node s = Ok n -> parse_node (print_node n) = Ok n.
Proof. intros s n H. apply node_roundtrip. exact (parse_node_dom _ _ H). Qed.

Lemma pred_accept_stable : forall s p, parse_pred O s = Ok p -> parse_pred O (print_pred O p) = Ok p.
Proof. intros s p H. apply (pred_roundtrip_g O (alaw_quote O A)). exact (parse_pred_gdom _ _ H). Qed.

Lemma literal_accept_stable : forall s l, parse_literal O s = Ok l -> parse_literal O (print_literal O l) = Ok l.
Proof. intros s l H. apply literal_roundtrip_g. exact (parse_literal_gdom _ _ H). Qed.

Lemma object_accept_stable : forall s o, parse_object O s = Ok o -> parse_object O (print_object O o) = Ok o.
Proof. intros s o H. apply (object_roundtrip_g O (alaw_quote O A)). exact (parse_object_gdom _ _ H). Qed.

(* triple: the components of an accepted triple are in the domain; stability needs, in addition, what the subject split
   expression needs: no form feed in the subject type *)
Lemma parse_triple_components : forall s t, parse_triple O s = Ok t ->
  dom_node (subj t) = true /\ gdom_pred O (tpred t) /\ gdom_object O (tobj t).
Proof.
  intros s t. unfold parse_triple, idx.
  destruct (p_split (trim_space s)) as [[ps pe]|]; [|discriminate].
  destruct (slice (trim_space s) (Z.of_nat (pe - 1) + 1) (zlen (trim_space s))) as [aq|]; [|discriminate].
  destruct (slice (trim_space s) (Z.of_nat (pe - 1 + 1 + skip_quoted aq)) (zlen (trim_space s))) as [rest|]; [|discriminate].
  destruct (o_split_from rest (pe - 1 + 1 + skip_quoted aq)) as [[os oe]|]; [|discriminate].
  destruct (slice (trim_space s) 0 (Z.of_nat ps + 1)) as [ss|]; [|discriminate].
  destruct (slice (trim_space s) (Z.of_nat pe - 1) (Z.of_nat os + 1)) as [sp|]; [|discriminate].
  destruct (slice (trim_space s) (Z.of_nat oe - 1) (zlen (trim_space s))) as [so|]; [|discriminate].
  destruct (parse_node ss) as [n| | |] eqn:En; try discriminate.
  destruct (parse_pred O sp) as [p| | |] eqn:Ep; try discriminate.
  destruct (parse_object O so) as [o| | |] eqn:Eo; try discriminate.
  intros H. inversion H. subst t. cbn [subj tpred tobj].
  repeat split; [exact (parse_node_dom _ _ En) | exact (proj1 (parse_pred_gdom _ _ Ep)) | exact (proj2 (parse_pred_gdom _ _ Ep)) | exact (parse_object_gdom _ _ Eo)].
Qed.

Lemma triple_accept_stable_partial : forall s t, parse_triple O s = Ok t ->
  memb x0c (ntype (subj t)) = false ->
  parse_triple O (print_triple O t) = Ok t.
Proof.
  intros s t H Hff. destruct (parse_triple_components _ _ H) as [Hn [Hp Ho]].
  apply (triple_roundtrip_g O (alaw_quote O A)). unfold gdom_triple. repeat split; try assumption; apply Hp.
Qed.

End WithOracles.
