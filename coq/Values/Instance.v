(* A model library: concrete oracles that satisfy oracle_laws and accept_laws, so the hypotheses of the C05 / C15
   theorems are jointly satisfiable, and the theorems can be instantiated without hypotheses.
   quote_g agrees with Go's strconv.Quote on ASCII input (checked against Go by checks/c05.py); the time and float
   codecs are NOT Go's formats (decimal renderings over the RFC3339 alphabet) - they only witness satisfiability. *)
From Coq Require Import List NArith ZArith Bool Lia ZifyBool ZifyNat ZifyN.
From Coq Require Decimal DecimalZ DecimalN DecimalPos.
From Coq.Strings Require Import Byte.
Import ListNotations.
From BWValues Require Import Bytes BytesProofs Values Codec Uuid Io Dom CodecProofs UuidProofs TimeCodec TimeCodecProofs RoundTrip.

(* ---- strconv.Quote on bytes: ASCII printable literal, Go's single-letter escapes, everything else \xHH
   (for non-ASCII input Go keeps valid printable runes literal; on ASCII input this IS Go's Quote) *)
Definition hex_digit (n : N) : byte :=
  match n with
  | 0 => x30 | 1 => x31 | 2 => x32 | 3 => x33 | 4 => x34 | 5 => x35 | 6 => x36 | 7 => x37 | 8 => x38 | 9 => x39
  | 10 => x61 | 11 => x62 | 12 => x63 | 13 => x64 | 14 => x65 | _ => x66
  end%N.

Definition hex_val (c : byte) : option N :=
  let n := Byte.to_N c in
  if (48 <=? n)%N && (n <=? 57)%N then Some (n - 48)%N
  else if (97 <=? n)%N && (n <=? 102)%N then Some (n - 87)%N
  else None.

Definition esc (b : byte) : str :=
  match b with
  | x22 => [x5c; x22]
  | x5c => [x5c; x5c]
  | x07 => [x5c; x61]
  | x08 => [x5c; x62]
  | x0c => [x5c; x66]
  | x0a => [x5c; x6e]
  | x0d => [x5c; x72]
  | x09 => [x5c; x74]
  | x0b => [x5c; x76]
  | _ => let n := Byte.to_N b in
         if (32 <=? n)%N && (n <? 127)%N then [b]
         else [x5c; x78; hex_digit (n / 16); hex_digit (n mod 16)]
  end.

Definition quote_g (s : str) : str := c_quote :: concat (map esc s) ++ [c_quote].

(* the body of a double-quoted Go string followed by the closing quote and nothing else *)
Fixpoint unesc (s : str) : option str :=
  match s with
  | [] => None
  | x22 :: r => match r with [] => Some [] | _ => None end
  | x5c :: r =>
      match r with
      | x22 :: r' => option_map (cons x22) (unesc r')
      | x5c :: r' => option_map (cons x5c) (unesc r')
      | x61 :: r' => option_map (cons x07) (unesc r')
      | x62 :: r' => option_map (cons x08) (unesc r')
      | x66 :: r' => option_map (cons x0c) (unesc r')
      | x6e :: r' => option_map (cons x0a) (unesc r')
      | x72 :: r' => option_map (cons x0d) (unesc r')
      | x74 :: r' => option_map (cons x09) (unesc r')
      | x76 :: r' => option_map (cons x0b) (unesc r')
      | x78 :: h1 :: h2 :: r' =>
          match hex_val h1, hex_val h2 with
          | Some a, Some b => match Byte.of_N (a * 16 + b) with
                              | Some c => option_map (cons c) (unesc r')
                              | None => None
                              end
          | _, _ => None
          end
      | _ => None
      end
  | c :: r => let n := Byte.to_N c in
              if (32 <=? n)%N && (n <? 127)%N then option_map (cons c) (unesc r) else None
  end.

Definition unquote_g (s : str) : option str :=
  match s with
  | x22 :: r => unesc r
  | _ => None
  end.

Lemma unesc_esc : forall b r, unesc (esc b ++ r) = option_map (cons b) (unesc r).
Proof. intros b r. destruct b; reflexivity. Qed.

Lemma unesc_body : forall s, unesc (concat (map esc s) ++ [c_quote]) = Some s.
Proof.
  induction s as [|b s IH]; [reflexivity|].
  cbn [map concat]. rewrite <- app_assoc. rewrite unesc_esc. rewrite IH. reflexivity.
Qed.

Lemma unquote_quote_g : forall s, unquote_g (quote_g s) = Some s.
Proof. intros s. unfold quote_g, unquote_g. apply unesc_body. Qed.

Lemma esc_ws : forall b c, In c (esc b) -> re_space c = true -> b = c_space.
Proof.
  intros b c Hin Hc. destruct b; cbn in Hin;
    repeat (destruct Hin as [Hin|Hin]; [subst c; try discriminate Hc; try reflexivity|]); try destruct Hin.
Qed.

Lemma quote_g_ws : forall s, memb c_space s = false -> forallb (fun c => negb (re_space c)) (quote_g s) = true.
Proof.
  intros s Hs. apply forallb_forall. intros c Hin. apply negb_true_iff. destruct (re_space c) eqn:E; [|reflexivity]. exfalso.
  unfold quote_g in Hin. destruct Hin as [Hin|Hin]; [subst c; discriminate|].
  apply in_app_or in Hin. destruct Hin as [Hin|Hin].
  - apply in_concat in Hin. destruct Hin as [x [Hx Hc]]. apply in_map_iff in Hx. destruct Hx as [b [Hb Hbs]]. subst x.
    pose proof (esc_ws _ _ Hc E). subst b. apply memb_false in Hs. exact (Hs Hbs).
  - destruct Hin as [Hin|[]]. subst c. discriminate.
Qed.

Lemma escaped_ok_esc : forall b r, escaped_ok (esc b ++ r) = escaped_ok r.
Proof. intros b r. destruct b; reflexivity. Qed.

Lemma escaped_ok_body : forall s, escaped_ok (concat (map esc s)) = true.
Proof.
  induction s as [|b s IH]; [reflexivity|]. cbn [map concat]. rewrite escaped_ok_esc. exact IH.
Qed.

Lemma esc_nl : forall b, ~ In x0a (esc b).
Proof.
  intros b Hin. destruct b; cbn in Hin; repeat (destruct Hin as [Hin|Hin]; [discriminate Hin|]); destruct Hin.
Qed.

Lemma quote_g_nl : forall s, ~ In x0a (quote_g s).
Proof.
  intros s Hin. unfold quote_g in Hin. destruct Hin as [Hin|Hin]; [discriminate|].
  apply in_app_or in Hin. destruct Hin as [Hin|Hin].
  - apply in_concat in Hin. destruct Hin as [x [Hx Hc]]. apply in_map_iff in Hx. destruct Hx as [b [Hb _]]. subst x.
    exact (esc_nl _ Hc).
  - destruct Hin as [Hin|[]]. discriminate.
Qed.

Lemma quote_laws_g : forall pt ft pf ff, quote_laws (mkOracles unquote_g quote_g pt ft pf ff).
Proof.
  intros. constructor; cbn.
  - exact unquote_quote_g.
  - intros s. exists (concat (map esc s)). split; [reflexivity | apply escaped_ok_body].
  - exact quote_g_ws.
  - exact quote_g_nl.
Qed.

(* ---- unbounded decimal integers *)
Definition parse_Z (s : str) : option Z :=
  match s with
  | x2d :: r => match r with [] => None | _ => option_map (fun d => Z.of_int (Decimal.Neg d)) (bytes_to_uint r) end
  | [] => None
  | _ => option_map (fun d => Z.of_int (Decimal.Pos d)) (bytes_to_uint s)
  end.

Lemma parse_Z_fmt : forall z, parse_Z (fmt_int z) = Some z.
Proof.
  intros z. unfold fmt_int. pose proof (DecimalZ.of_to z) as Hof.
  destruct (Z.to_int z) as [d|d] eqn:E.
  - assert (Hd : d <> Decimal.Nil).
    { destruct z; cbn in E; inversion E; try discriminate; apply DecimalPos.Unsigned.to_uint_nonnil. }
    unfold parse_Z. destruct (uint_to_bytes d) as [|c r] eqn:Eb; [exfalso; exact (uint_to_bytes_nonnil _ Hd Eb)|].
    assert (Hc : (48 <= Byte.to_N c <= 57)%N) by (apply (uint_to_bytes_digits d); rewrite Eb; left; reflexivity).
    assert (Hgo : option_map (fun d0 => Z.of_int (Decimal.Pos d0)) (bytes_to_uint (c :: r)) = Some z).
    { rewrite <- Eb. rewrite bytes_uint_roundtrip. cbn [option_map]. rewrite Hof. reflexivity. }
    destruct c; try exact Hgo; cbn in Hc; lia.
  - assert (Hd : d <> Decimal.Nil).
    { destruct z; cbn in E; inversion E; apply DecimalPos.Unsigned.to_uint_nonnil. }
    unfold parse_Z. destruct (uint_to_bytes d) as [|c r] eqn:Eb; [exfalso; exact (uint_to_bytes_nonnil _ Hd Eb)|].
    rewrite <- Eb. rewrite bytes_uint_roundtrip. cbn [option_map]. rewrite Hof. reflexivity.
Qed.

Lemma fmt_int_alpha : forall z c, In c (fmt_int z) -> c = x2d \/ (48 <= Byte.to_N c <= 57)%N.
Proof.
  intros z c. unfold fmt_int. destruct (Z.to_int z) as [d|d].
  - intros H. right. exact (uint_to_bytes_digits _ _ H).
  - intros [H|H]; [left; congruence | right; exact (uint_to_bytes_digits _ _ H)].
Qed.

Lemma fmt_int_nonempty : forall z, fmt_int z <> [].
Proof.
  intros z H. pose proof (parse_Z_fmt z) as P. rewrite H in P. discriminate.
Qed.

(* ---- a toy time codec over the RFC3339 alphabet: <ns>T<offset in minutes> *)
Definition fmt_time_g (t : time) : str := fmt_int (t_ns t) ++ [x54] ++ fmt_int (t_off t / 60).

Definition parse_time_g (s : str) : option time :=
  match index [x54] s with
  | None => None
  | Some i => match parse_Z (firstn i s), parse_Z (skipn (S i) s) with
              | Some a, Some b => Some (mkTime a (b * 60))
              | _, _ => None
              end
  end.

Lemma digit_or_minus_not_T : forall z, ~ In x54 (fmt_int z).
Proof. intros z H. apply fmt_int_alpha in H. destruct H as [H|H]; [discriminate | cbn in H; lia]. Qed.

Lemma time_ok_g : forall uq q pf ff t, (t_off t mod 60 = 0)%Z -> time_ok (mkOracles uq q parse_time_g fmt_time_g pf ff) t.
Proof.
  intros uq q pf ff [ns off] Hm. unfold time_ok. cbn [o_parse_time o_fmt_time]. unfold fmt_time_g. cbn [t_ns t_off] in *. repeat split.
  - unfold parse_time_g. cbn [app]. rewrite index_single by apply digit_or_minus_not_T.
    rewrite firstn_app, firstn_all, Nat.sub_diag. cbn [firstn]. rewrite app_nil_r.
    replace (skipn (S (length (fmt_int ns))) (fmt_int ns ++ x54 :: fmt_int (off / 60))) with (fmt_int (off / 60)).
    + rewrite !parse_Z_fmt. f_equal. f_equal. pose proof (Z.div_mod off 60 ltac:(lia)). lia.
    + change (fmt_int ns ++ x54 :: fmt_int (off / 60)) with (fmt_int ns ++ [x54] ++ fmt_int (off / 60)). rewrite app_assoc.
      rewrite skipn_app. rewrite skipn_all2 by (rewrite app_length; cbn; lia).
      rewrite app_length. cbn [length]. replace (S (length (fmt_int ns)) - (length (fmt_int ns) + 1))%nat with 0%nat by lia. reflexivity.
  - intros H. apply app_eq_nil in H. destruct H as [H _]. exact (fmt_int_nonempty _ H).
  - apply forallb_forall. intros c Hc. apply memb_In. apply in_app_or in Hc. destruct Hc as [Hc|Hc].
    + apply fmt_int_alpha in Hc. destruct Hc as [Hc|Hc]; [subst c; cbn; tauto|].
      destruct c; cbn in Hc; try lia; cbn; tauto.
    + destruct Hc as [Hc|Hc]; [subst c; cbn; tauto|].
      apply fmt_int_alpha in Hc. destruct Hc as [Hc|Hc]; [subst c; cbn; tauto|].
      destruct c; cbn in Hc; try lia; cbn; tauto.
  - exact Hm.
Qed.

Lemma parse_time_g_off : forall s t, parse_time_g s = Some t -> (t_off t mod 60 = 0)%Z.
Proof.
  intros s t. unfold parse_time_g. destruct (index [x54] s); [|discriminate].
  destruct (parse_Z _); [|discriminate]. destruct (parse_Z _); [|discriminate].
  intros H. inversion H. cbn [t_off]. apply Z.mod_mul. lia.
Qed.

(* ---- a toy float codec: the bit pattern in decimal *)
Definition fmt_float_g (b : N) : str := fmt_int (Z.of_N b).
Definition parse_float_g (s : str) : option N :=
  match parse_Z s with Some z => if (0 <=? z)%Z then Some (Z.to_N z) else None | None => None end.

Lemma float_ok_g : forall uq q pt ft b, float_ok (mkOracles uq q pt ft parse_float_g fmt_float_g) b.
Proof.
  intros uq q pt ft b. unfold float_ok. cbn [o_parse_float o_fmt_float]. unfold parse_float_g, fmt_float_g. split.
  - rewrite parse_Z_fmt. destruct (0 <=? Z.of_N b)%Z eqn:E; [rewrite N2Z.id; reflexivity | lia].
  - intros H. apply fmt_int_alpha in H. destruct H as [H|H]; [discriminate | cbn in H; lia].
Qed.

Definition model_library : oracles := mkOracles unquote_g quote_g parse_time_g fmt_time_g parse_float_g fmt_float_g.

Lemma model_library_laws : oracle_laws model_library.
Proof.
  constructor.
  - apply quote_laws_g.
  - intros t Hd. apply time_ok_g. unfold time_dom in Hd. lia.
  - intros b _. apply float_ok_g.
Qed.

Lemma model_library_accept_laws : accept_laws model_library.
Proof.
  constructor.
  - apply quote_laws_g.
  - intros s t H _. apply time_ok_g. exact (parse_time_g_off s t H).
  - intros s b _. apply float_ok_g.
Qed.

(* ---- the Go-faithful time codec (TimeCodec.v, compared with time.Format / time.Parse by h_values -mode time):
   the time laws are THEOREMS for it *)
Lemma time_dom_ns_dom : forall t, time_dom t = true -> ns_dom t.
Proof. intros t H. unfold time_dom in H. unfold ns_dom, zone_ok. lia. Qed.

Lemma time_ok_rfc3339 : forall uq q pf ff t, ns_dom t ->
  time_ok (mkOracles uq q parse_rfc3339nano fmt_rfc3339nano pf ff) t.
Proof.
  intros uq q pf ff t Hd. unfold time_ok. cbn [o_parse_time o_fmt_time]. repeat split.
  - exact (parse_fmt_rfc3339nano t Hd).
  - apply fmt_nonempty.
  - apply forallb_forall. intros x Hx. apply memb_In. exact (fmt_alphabet t x Hx).
  - exact (proj1 (proj2 Hd)).
Qed.

Definition go_time_library : oracles :=
  mkOracles unquote_g quote_g parse_rfc3339nano fmt_rfc3339nano parse_float_g fmt_float_g.

Lemma go_time_library_laws : oracle_laws go_time_library.
Proof.
  constructor.
  - apply quote_laws_g.
  - intros t Hd. apply time_ok_rfc3339. exact (time_dom_ns_dom t Hd).
  - intros b _. apply float_ok_g.
Qed.

Lemma go_time_library_accept_laws : accept_laws go_time_library.
Proof.
  constructor.
  - apply quote_laws_g.
  - intros s t H Hp. apply time_ok_rfc3339. cbn [go_time_library o_parse_time] in H.
    apply (parse_in_dom s t H). unfold off_printable in Hp. lia.
  - intros s b _. apply float_ok_g.
Qed.

(* ---- differential test of quote_g / unquote_g against Go (the harness ships strconv.Quote of every id it sees):
   indices of the ASCII entries (s, Quote s) of a table on which quote_g s <> Quote s or unquote_g (Quote s) <> s *)
Definition is_ascii (s : str) : bool := forallb (fun c => (Byte.to_N c <? 128)%N) s.

Fixpoint quote_g_mismatches (i : N) (t : list (str * str)) : list N :=
  match t with
  | [] => []
  | (s, q) :: r =>
      if is_ascii s then
        if str_eqb (quote_g s) q && match unquote_g q with Some s' => str_eqb s' s | None => false end
        then quote_g_mismatches (i + 1)%N r
        else i :: quote_g_mismatches (i + 1)%N r
      else quote_g_mismatches (i + 1)%N r
  end.
Definition ascii_entries (t : list (str * str)) : N := N.of_nat (length (filter (fun e => is_ascii (fst e)) t)).
