(* C07, obligations on the table generated from storage/memory/memory.go AFTER the repair of defect F7 (the
   lookups no longer write the caller's LookupOptions).  The check compiles this file when
   LockFactsGen.memory_has_wrparam = false; before the repair it compiles C07_unfixed.v instead. *)
From Coq Require Import List Bool Arith String Permutation.
Import ListNotations.
From BWConc Require Import Conc ConcStatic ConcInv ConcLin ConcThm.
From BWConc.Gen Require Import LockFactsGen.

Theorem C07_state_fixed : memory_has_wrparam = false.
Proof. reflexivity. Qed.

(* the generated obligation, complete over the generated table *)
Theorem C07_memory_discipline : discipline_ok memory_methods = true.
Proof. vm_compute. reflexivity. Qed.
Print Assumptions C07_memory_discipline.

(* instances of the generic theorems (Props/C07.v) for the real table *)
Theorem C07_memory_race_free :
  forall (Local Value : Type) (begin_local : nat -> Local) (rd_eff : Local -> loc -> Value -> Local)
         (wr_eff : Local -> loc -> Value * Local) (send_val : Local -> Value) (sends_ready : tid -> bool)
         (progs : list (list call)) (l0 : Local) (m0 : loc -> Value) (sched : list tid) (s : state Local Value),
      Forall (Forall (fun c => path_in memory_methods (c_path c))) progs ->
      run begin_local rd_eff wr_eff send_val sends_ready (init_state l0 m0 progs) sched = Some s ->
      ~ (exists t u x it iu, t <> u /\ next_item s t = Some it /\ next_item s u = Some iu /\
                             it = IAct (AWr x) /\ (iu = IAct (AWr x) \/ iu = IAct (ARd x))).
Proof.
  intros Local Value bl re we sv sr progs l0 m0 sched s Hw Hr.
  destruct (discipline_ok_parts _ C07_memory_discipline) as [H1 [_ H3]].
  exact (mutual_exclusion bl re we sv sr memory_methods progs l0 m0 sched s H1 H3 Hw Hr).
Qed.
Print Assumptions C07_memory_race_free.

Theorem C07_memory_options_untouched :
  (forall p acts, path_in memory_methods p -> run_path p = Some acts -> forall q, ~ In (WrParam q) acts) /\
  (forall (Local Value : Type) (begin_local : nat -> Local) (rd_eff : Local -> loc -> Value -> Local)
          (wr_eff : Local -> loc -> Value * Local) (send_val : Local -> Value) (sends_ready : tid -> bool)
          (progs : list (list call)) (l0 : Local) (m0 : loc -> Value) (sched : list tid) (s : state Local Value),
     Forall (Forall (fun c => path_in memory_methods (c_path c))) progs ->
     run begin_local rd_eff wr_eff send_val sends_ready (init_state l0 m0 progs) sched = Some s ->
     forall o p, mem s (LP o p) = m0 (LP o p)).
Proof.
  destruct (discipline_ok_parts _ C07_memory_discipline) as [H1 [_ H3]].
  split; [exact (options_untouched_static memory_methods H3)|].
  intros Local Value bl re we sv sr progs l0 m0 sched s Hw Hr.
  exact (options_untouched_dynamic bl re we sv sr memory_methods progs l0 m0 sched s H1 H3 Hw Hr).
Qed.
Print Assumptions C07_memory_options_untouched.

Theorem C07_memory_linearizable :
  forall (Local Value : Type) (begin_local : nat -> Local) (rd_eff : Local -> loc -> Value -> Local)
         (wr_eff : Local -> loc -> Value * Local) (send_val : Local -> Value) (sends_ready : tid -> bool)
         (progs : list (list call)) (l0 : Local) (m0 : loc -> Value) (tr : list tid) (s : state Local Value),
      Forall (Forall (fun c => path_in memory_methods (c_path c))) progs ->
      run begin_local rd_eff wr_eff send_val sends_ready (init_state l0 m0 progs) tr = Some s ->
      (forall t, held_of s t = []) ->
      exists C r,
        run begin_local rd_eff wr_eff send_val sends_ready (init_state l0 m0 progs) C = Some r /\
        threads r = threads s /\ (forall x, mem r x = mem s x) /\
        serial begin_local rd_eff wr_eff send_val sends_ready (init_state l0 m0 progs) C /\
        commits begin_local rd_eff wr_eff send_val sends_ready (init_state l0 m0 progs) C =
        commits begin_local rd_eff wr_eff send_val sends_ready (init_state l0 m0 progs) tr /\
        Permutation C tr.
Proof.
  intros Local Value bl re we sv sr progs l0 m0 tr s Hw Hr Hq.
  destruct (discipline_ok_parts _ C07_memory_discipline) as [H1 [_ H3]].
  exact (linearizable bl re we sv sr memory_methods progs l0 m0 tr s H1 H3 Hw Hr Hq).
Qed.
Print Assumptions C07_memory_linearizable.
