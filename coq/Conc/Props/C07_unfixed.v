(* C07, obligations on the table generated from the UNREPAIRED storage/memory/memory.go (defect F7: every lookup
   assigns lo.FilterOptions on the caller's LookupOptions when LatestAnchor is set, and resets it in a deferred
   closure).  The check compiles this file when LockFactsGen.memory_has_wrparam = true; after the repair it
   compiles C07_fixed.v instead.  The witness below is replayed on the real store by `h_conc -mode replay`. *)
From Coq Require Import List Bool Arith String.
Import ListNotations.
From BWConc Require Import Conc ConcStatic ConcInv ConcLin ConcThm.
From BWConc.Gen Require Import LockFactsGen.

Theorem C07_state_unfixed : memory_has_wrparam = true.
Proof. reflexivity. Qed.

(* first method / path of the table that writes through a pointer parameter *)
Definition path_writes_param (p : path) : bool :=
  match run_path p with Some acts => existsb is_wrparam acts | None => false end.
Definition wit_method : option method :=
  find (fun m => existsb path_writes_param (m_paths m)) (mt_methods memory_methods).
Definition wit_path : path :=
  match wit_method with
  | Some m => match find path_writes_param (m_paths m) with Some p => p | None => [] end
  | None => []
  end.
(* number of steps up to (excluding) the first parameter write: IBegin plus the actions before it *)
Fixpoint index_wr (l : list act) : nat :=
  match l with [] => 0 | a :: l' => if is_wrparam a then 0 else S (index_wr l') end.
Definition wit_steps : nat :=
  match run_path wit_path with Some acts => S (index_wr acts) | None => 0 end.
(* two threads, the same lookup on the same graph object 0, sharing one options object 0 *)
Definition wit_call (tag : nat) : call := {| c_path := wit_path; c_recv := 0; c_arg := 0; c_tag := tag |}.
Definition wit_progs : list (list call) := [[wit_call 0]; [wit_call 1]].
Definition wit_sched : list tid := (repeat 0 wit_steps ++ repeat 1 wit_steps)%list.

(* (5) refuted: some path of some method writes a field of the caller's options object *)
Theorem C07_options_untouched_refuted :
  params_ok memory_methods = false /\
  exists m p acts q, In m (mt_methods memory_methods) /\ In p (m_paths m) /\ run_path p = Some acts /\
                     In (WrParam q) acts.
Proof.
  split; [vm_compute; reflexivity|].
  destruct wit_method as [m|] eqn:Em; [|vm_compute in Em; discriminate].
  exists m, wit_path. unfold wit_path. rewrite Em.
  apply find_some in Em. destruct Em as [Hin Hex].
  destruct (find path_writes_param (m_paths m)) as [p|] eqn:Ep.
  - apply find_some in Ep. destruct Ep as [Hp Hw]. unfold path_writes_param in Hw.
    destruct (run_path p) as [acts|]; [|discriminate]. apply existsb_exists in Hw. destruct Hw as [a [Ha Hwa]].
    destruct a; try discriminate. exists acts, p0. auto.
  - exfalso. apply existsb_exists in Hex. destruct Hex as [p [Hp Hw]].
    pose proof (find_none _ _ Ep p Hp) as F. congruence.
Qed.
Print Assumptions C07_options_untouched_refuted.

(* (1) refuted on this table: two callers sharing one LookupOptions value both hold the read lock and are both
   about to write the same field of it — a data race in the model (and under `go test -race`), with the functional
   consequence that the second caller sees FilterOptions already set and fails *)
Theorem C07_mutual_exclusion_refuted :
  Forall (Forall (fun c => path_in memory_methods (c_path c))) wit_progs /\
  exists s x,
    run (fun n => n) (fun l _ v => l + v) (fun l _ => (l + 1, l)) (fun l => l) (fun _ => true)
        (init_state 0 (fun _ => 0) wit_progs) wit_sched = Some s /\
    next_item s 0 = Some (IAct (AWr x)) /\ next_item s 1 = Some (IAct (AWr x)) /\
    held_of s 0 <> [] /\ held_of s 1 <> [] /\
    (* i.e. the negation of the conclusion of C07_mutual_exclusion: *)
    (exists t u x it iu, t <> u /\ next_item s t = Some it /\ next_item s u = Some iu /\
                         it = IAct (AWr x) /\ (iu = IAct (AWr x) \/ iu = IAct (ARd x))).
Proof.
  split.
  - assert (Hp : path_in memory_methods wit_path).
    { destruct C07_options_untouched_refuted as [_ _]. unfold wit_path.
      destruct wit_method as [m|] eqn:Em; [|vm_compute in Em; discriminate].
      apply find_some in Em. destruct Em as [Hin Hex].
      destruct (find path_writes_param (m_paths m)) as [p|] eqn:Ep.
      - apply find_some in Ep. exists m. split; [exact Hin|left; apply Ep].
      - exfalso. apply existsb_exists in Hex. destruct Hex as [p [Hp Hw]].
        pose proof (find_none _ _ Ep p Hp) as F. congruence. }
    repeat constructor; exact Hp.
  - eexists. eexists. split; [vm_compute; reflexivity|].
    split; [vm_compute; reflexivity|]. split; [vm_compute; reflexivity|].
    split; [vm_compute; discriminate|]. split; [vm_compute; discriminate|].
    exists 0, 1. eexists. eexists. eexists. split; [discriminate|].
    split; [vm_compute; reflexivity|]. split; [vm_compute; reflexivity|]. split; [reflexivity|left; reflexivity].
Qed.
Print Assumptions C07_mutual_exclusion_refuted.

(* the witness, for the replay: which method, after how many steps of each thread *)
Definition wit_method_name : option string := option_map m_name wit_method.
Eval vm_compute in (wit_method_name, wit_steps).
