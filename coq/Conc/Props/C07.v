(* C07 — concurrent use of the in-memory store: race-free, deadlock-free, linearizable; lookups close their result
   channel exactly once and never write the caller's LookupOptions.

   Part 1: theorems for ANY method table M passing the boolean check, for ALL thread counts, call sequences,
   receiver / argument objects (shared or not), interleavings, and for ALL meanings of the Rd / Wr / Send
   micro-operations (Local, Value, begin_local, rd_eff, wr_eff, send_val are universally quantified).
   Part 2: the obligations on the table generated from /repo/storage/memory/memory.go that hold both before and
   after the repair of the LookupOptions defect (F7).  The obligations that depend on that repair are in
   C07_fixed.v / C07_unfixed.v; the check compiles the one matching the regenerated table.

   partial: the Go memory model, word tearing, sync.Pool reuse and the scheduler are runtime; data races proper
   are only observed by the race detector run (harness h_conc). *)
From Coq Require Import List Bool Arith String Permutation.
Import ListNotations.
From BWConc Require Import Conc ConcStruct ConcStatic ConcInv ConcLin ConcThm.
From BWConc.Gen Require Import LockFactsGen.

(* ================================================================ Part 1: generic theorems *)

(* In all statements a thread runs calls whose path satisfies [path_in M p]: p is one of the listed flat paths of a
   method of M (loops taken 0/1 times) or ANY unfolding of the method's structured body (loops taken any number of
   times): *)
Example C07_path_in_unfolds :
  forall M p, path_in M p <-> exists m, In m (mt_methods M) /\ (In p (m_paths m) \/ unf (m_body m) p true).
Proof. intros. unfold path_in. tauto. Qed.

(* (1) model-level race freedom: in no reachable state are two different threads about to access the same location
   (a field of a store/graph object, or a field of a caller-owned options object, possibly shared between
   callers), one of them writing *)
Theorem C07_mutual_exclusion :
  forall (Local Value : Type) (begin_local : nat -> Local) (rd_eff : Local -> loc -> Value -> Local)
         (wr_eff : Local -> loc -> Value * Local) (send_val : Local -> Value) (sends_ready : tid -> bool)
         (M : mtable),
    discipline_ok M = true ->
    forall (progs : list (list call)) (l0 : Local) (m0 : loc -> Value) (sched : list tid) (s : state Local Value),
      Forall (Forall (fun c => path_in M (c_path c))) progs ->
      run begin_local rd_eff wr_eff send_val sends_ready (init_state l0 m0 progs) sched = Some s ->
      ~ (exists t u x it iu, t <> u /\ next_item s t = Some it /\ next_item s u = Some iu /\
                             it = IAct (AWr x) /\ (iu = IAct (AWr x) \/ iu = IAct (ARd x))).
Proof.
  intros Local Value bl re we sv sr M H progs l0 m0 sched s Hw Hr.
  destruct (discipline_ok_parts M H) as [H1 [_ H3]].
  exact (mutual_exclusion bl re we sv sr M progs l0 m0 sched s H1 H3 Hw Hr).
Qed.
Print Assumptions C07_mutual_exclusion.

(* the same restricted to the fields of store / graph objects needs the lock discipline only (domain: locations
   LF o f; this is the form that also holds for the unrepaired memory.go) *)
Theorem C07_mutual_exclusion_partial :
  forall (Local Value : Type) (begin_local : nat -> Local) (rd_eff : Local -> loc -> Value -> Local)
         (wr_eff : Local -> loc -> Value * Local) (send_val : Local -> Value) (sends_ready : tid -> bool)
         (M : mtable),
    locks_ok M = true ->
    forall (progs : list (list call)) (l0 : Local) (m0 : loc -> Value) (sched : list tid) (s : state Local Value),
      Forall (Forall (fun c => path_in M (c_path c))) progs ->
      run begin_local rd_eff wr_eff send_val sends_ready (init_state l0 m0 progs) sched = Some s ->
      forall t u o f it iu, t <> u -> next_item s t = Some it -> next_item s u = Some iu ->
        it = IAct (AWr (LF o f)) -> (iu = IAct (AWr (LF o f)) \/ iu = IAct (ARd (LF o f))) -> False.
Proof.
  intros Local Value bl re we sv sr M H progs l0 m0 sched s Hw Hr.
  exact (mutual_exclusion_fields bl re we sv sr M progs l0 m0 sched s H Hw Hr).
Qed.
Print Assumptions C07_mutual_exclusion_partial.

(* (2) no thread ever asks for a lock while holding one ... *)
Theorem C07_no_nested_locks :
  forall (Local Value : Type) (begin_local : nat -> Local) (rd_eff : Local -> loc -> Value -> Local)
         (wr_eff : Local -> loc -> Value * Local) (send_val : Local -> Value) (sends_ready : tid -> bool)
         (M : mtable),
    locks_ok M = true ->
    forall (progs : list (list call)) (l0 : Local) (m0 : loc -> Value) (sched : list tid) (s : state Local Value),
      Forall (Forall (fun c => path_in M (c_path c))) progs ->
      run begin_local rd_eff wr_eff send_val sends_ready (init_state l0 m0 progs) sched = Some s ->
      ~ (exists t l m, next_item s t = Some (IAct (AAcq l m)) /\ held_of s t <> []).
Proof.
  intros Local Value bl re we sv sr M H progs l0 m0 sched s Hw Hr.
  exact (no_nested_locks bl re we sv sr M progs l0 m0 sched s H Hw Hr).
Qed.
Print Assumptions C07_no_nested_locks.

(* ... hence no deadlock: in every reachable state in which some thread has not finished, some thread can take a
   step.  Hypothesis (stated): channel sends wait only on the caller's own consumer, which keeps receiving
   (sends_ready); a lookup whose consumer stops reading blocks while holding the read lock. *)
Theorem C07_deadlock_free :
  forall (Local Value : Type) (begin_local : nat -> Local) (rd_eff : Local -> loc -> Value -> Local)
         (wr_eff : Local -> loc -> Value * Local) (send_val : Local -> Value) (sends_ready : tid -> bool)
         (M : mtable),
    locks_ok M = true ->
    (forall t, sends_ready t = true) ->
    forall (progs : list (list call)) (l0 : Local) (m0 : loc -> Value) (sched : list tid) (s : state Local Value),
      Forall (Forall (fun c => path_in M (c_path c))) progs ->
      run begin_local rd_eff wr_eff send_val sends_ready (init_state l0 m0 progs) sched = Some s ->
      (exists t it, next_item s t = Some it) ->
      exists t s', step begin_local rd_eff wr_eff send_val sends_ready s t = Some s'.
Proof.
  intros Local Value bl re we sv sr M H Hs progs l0 m0 sched s Hw Hr Hex.
  exact (deadlock_freedom bl re we sv sr M progs l0 m0 sched s H Hw Hs Hr Hex).
Qed.
Print Assumptions C07_deadlock_free.

(* ... and every execution can be completed: from every reachable state there is a continuation in which all
   remaining calls of all threads run to their end *)
Theorem C07_can_complete :
  forall (Local Value : Type) (begin_local : nat -> Local) (rd_eff : Local -> loc -> Value -> Local)
         (wr_eff : Local -> loc -> Value * Local) (send_val : Local -> Value) (sends_ready : tid -> bool)
         (M : mtable),
    locks_ok M = true ->
    (forall t, sends_ready t = true) ->
    forall (progs : list (list call)) (l0 : Local) (m0 : loc -> Value) (sched : list tid) (s : state Local Value),
      Forall (Forall (fun c => path_in M (c_path c))) progs ->
      run begin_local rd_eff wr_eff send_val sends_ready (init_state l0 m0 progs) sched = Some s ->
      exists sched' s', run begin_local rd_eff wr_eff send_val sends_ready s sched' = Some s' /\
                        forall t, next_item s' t = None.
Proof.
  intros Local Value bl re we sv sr M H Hs progs l0 m0 sched s Hw Hr.
  exact (completion bl re we sv sr M progs l0 m0 sched s H Hw Hs Hr).
Qed.
Print Assumptions C07_can_complete.

(* (4) on every path of every method with a result channel: either the channel was nil (then nothing is sent or
   closed), or it is closed exactly once — also on the error returns — and nothing is sent after the close;
   methods without a result channel never send or close *)
Theorem C07_close_once :
  forall M : mtable, close_ok M = true ->
  forall m p acts, In m (mt_methods M) -> (In p (m_paths m) \/ unf (m_body m) p true) -> run_path p = Some acts ->
    if m_chan m then
      (In (ChanNil true) acts /\ count_close acts = 0 /\ ~ In Send acts) \/
      (~ In (ChanNil true) acts /\ count_close acts = 1 /\ no_send_after_close acts)
    else count_close acts = 0 /\ ~ In Send acts.
Proof. exact close_once_static. Qed.
Print Assumptions C07_close_once.

(* the same seen from the thread executing the call *)
Theorem C07_close_once_call :
  forall M : mtable, close_ok M = true ->
  forall m c acts, In m (mt_methods M) -> m_chan m = true ->
    (In (c_path c) (m_paths m) \/ unf (m_body m) (c_path c) true) ->
    run_path (c_path c) = Some acts -> ~ In (ChanNil true) acts ->
    count_aclose (call_items c) = 1.
Proof. exact close_once_call. Qed.
Print Assumptions C07_close_once_call.

(* (5) no path writes through a pointer parameter, and in every execution the caller-owned objects keep their
   initial contents *)
Theorem C07_options_untouched :
  forall M : mtable, params_ok M = true ->
  (forall p acts, path_in M p -> run_path p = Some acts -> forall q, ~ In (WrParam q) acts) /\
  (locks_ok M = true ->
   forall (Local Value : Type) (begin_local : nat -> Local) (rd_eff : Local -> loc -> Value -> Local)
          (wr_eff : Local -> loc -> Value * Local) (send_val : Local -> Value) (sends_ready : tid -> bool)
          (progs : list (list call)) (l0 : Local) (m0 : loc -> Value) (sched : list tid) (s : state Local Value),
     Forall (Forall (fun c => path_in M (c_path c))) progs ->
     run begin_local rd_eff wr_eff send_val sends_ready (init_state l0 m0 progs) sched = Some s ->
     forall o p, mem s (LP o p) = m0 (LP o p)).
Proof.
  intros M H. split; [exact (options_untouched_static M H)|].
  intros HL Local Value bl re we sv sr progs l0 m0 sched s Hw Hr.
  exact (options_untouched_dynamic bl re we sv sr M progs l0 m0 sched s HL H Hw Hr).
Qed.
Print Assumptions C07_options_untouched.

(* (3) linearizability by reduction.  Every interleaved execution that ends with no critical section open (in
   particular every complete execution) reaches the same thread records — locals, values sent, per-call results —
   and the same memory as a SERIAL schedule C of the same steps (a permutation of the given schedule, so every
   thread performs the same steps in the same order), in which every step is taken while no other thread holds a
   lock: each critical section runs without interleaving (AddTriples: one section per batch; each lookup: one
   section, so it never sees part of a batch).  C keeps the sequence of commit events (call begin, call end, steps
   outside sections, section releases) of the given execution: sections are ordered by their release and the
   real-time order of calls is preserved. *)
Theorem C07_linearizable :
  forall (Local Value : Type) (begin_local : nat -> Local) (rd_eff : Local -> loc -> Value -> Local)
         (wr_eff : Local -> loc -> Value * Local) (send_val : Local -> Value) (sends_ready : tid -> bool)
         (M : mtable),
    discipline_ok M = true ->
    forall (progs : list (list call)) (l0 : Local) (m0 : loc -> Value) (tr : list tid) (s : state Local Value),
      Forall (Forall (fun c => path_in M (c_path c))) progs ->
      run begin_local rd_eff wr_eff send_val sends_ready (init_state l0 m0 progs) tr = Some s ->
      (forall t, held_of s t = []) ->
      exists C r,
        run begin_local rd_eff wr_eff send_val sends_ready (init_state l0 m0 progs) C = Some r /\
        threads r = threads s /\ (forall x, mem r x = mem s x) /\
        serial begin_local rd_eff wr_eff send_val sends_ready (init_state l0 m0 progs) C /\
        commits begin_local rd_eff wr_eff send_val sends_ready (init_state l0 m0 progs) C =
        commits begin_local rd_eff wr_eff send_val sends_ready (init_state l0 m0 progs) tr /\
        Permutation C tr.
Proof.
  intros Local Value bl re we sv sr M H progs l0 m0 tr s Hw Hr Hq.
  destruct (discipline_ok_parts M H) as [H1 [_ H3]].
  exact (linearizable bl re we sv sr M progs l0 m0 tr s H1 H3 Hw Hr Hq).
Qed.
Print Assumptions C07_linearizable.

(* reading "serial": at the moment a thread takes any step of a serial schedule, every other thread is outside its
   critical sections.  With C07_one_section_any_batch (AddTriples = one section per batch) this is "a lookup never
   observes part of one AddTriples batch": none of the lookup's reads is taken while the adding thread is between
   its acquire and its release. *)
Theorem C07_no_partial_batch :
  forall (Local Value : Type) (begin_local : nat -> Local) (rd_eff : Local -> loc -> Value -> Local)
         (wr_eff : Local -> loc -> Value * Local) (send_val : Local -> Value) (sends_ready : tid -> bool)
         (s0 s1 : state Local Value) (C1 C2 : list tid) (t : tid),
    serial begin_local rd_eff wr_eff send_val sends_ready s0 (C1 ++ t :: C2) ->
    run begin_local rd_eff wr_eff send_val sends_ready s0 C1 = Some s1 ->
    forall u, u <> t -> held_of s1 u = [].
Proof.
  intros Local Value bl re we sv sr s0 s1 C1 C2 t. exact (serial_no_partial_section bl re we sv sr s0 C1 t C2 s1).
Qed.
Print Assumptions C07_no_partial_batch.

(* for executions stopped at an arbitrary point: a serial part C followed by the steps P of the sections that are
   still open (no releases, no commit events) *)
Theorem C07_linearizable_prefix :
  forall (Local Value : Type) (begin_local : nat -> Local) (rd_eff : Local -> loc -> Value -> Local)
         (wr_eff : Local -> loc -> Value * Local) (send_val : Local -> Value) (sends_ready : tid -> bool)
         (M : mtable),
    discipline_ok M = true ->
    forall (progs : list (list call)) (l0 : Local) (m0 : loc -> Value) (tr : list tid) (s : state Local Value),
      Forall (Forall (fun c => path_in M (c_path c))) progs ->
      run begin_local rd_eff wr_eff send_val sends_ready (init_state l0 m0 progs) tr = Some s ->
      exists C P sC r,
        run begin_local rd_eff wr_eff send_val sends_ready (init_state l0 m0 progs) C = Some sC /\
        serial begin_local rd_eff wr_eff send_val sends_ready (init_state l0 m0 progs) C /\
        (forall t, held_of sC t = []) /\
        commits begin_local rd_eff wr_eff send_val sends_ready (init_state l0 m0 progs) C =
        commits begin_local rd_eff wr_eff send_val sends_ready (init_state l0 m0 progs) tr /\
        run begin_local rd_eff wr_eff send_val sends_ready sC P = Some r /\
        (threads r = threads s /\ forall x, mem r x = mem s x) /\
        open_run begin_local rd_eff wr_eff send_val sends_ready sC P /\
        Permutation (C ++ P) tr.
Proof.
  intros Local Value bl re we sv sr M H progs l0 m0 tr s Hw Hr.
  destruct (discipline_ok_parts M H) as [H1 [_ H3]].
  exact (linearizable_prefix bl re we sv sr M progs l0 m0 tr s H1 H3 Hw Hr).
Qed.
Print Assumptions C07_linearizable_prefix.

(* ================================================================ Part 2: the generated table (both states) *)

(* lock discipline of storage/memory/memory.go: on every path of every method locks are balanced, never nested,
   released on every return, every field that is written anywhere is read only under its struct's lock and
   written only under the write lock *)
Theorem C07_memory_locks_ok : locks_ok memory_methods = true.
Proof. vm_compute. reflexivity. Qed.
Print Assumptions C07_memory_locks_ok.

Theorem C07_memory_close_ok : close_ok memory_methods = true.
Proof. vm_compute. reflexivity. Qed.
Print Assumptions C07_memory_close_ok.

(* the ten indexed lookups and Triples are one function up to bucket, projection and query predicate *)
Theorem C07_lookups_one_function :
  all_same_hash memory_lookup_hashes = true /\ List.length memory_lookup_hashes = 11.
Proof. vm_compute. split; reflexivity. Qed.
Print Assumptions C07_lookups_one_function.

(* AddTriples, Exist and every lookup are at most one critical section per call (AddTriples: the whole batch);
   RemoveTriples is one section per loop iteration, i.e. per triple (its skeleton takes the loop once); the
   store-level operations are one section each *)
Theorem C07_one_section_per_call :
  one_section_method memory_methods "memory.AddTriples" = true /\
  one_section_method memory_methods "memory.Exist" = true /\
  forallb (one_section_method memory_methods) memory_lookup_names = true /\
  one_section_method memory_methods "memory.RemoveTriples" = true /\
  forallb (one_section_method memory_methods)
          ["memoryStore.NewGraph"; "memoryStore.Graph"; "memoryStore.DeleteGraph"; "memoryStore.GraphNames"] = true.
Proof. vm_compute. repeat split; reflexivity. Qed.
Print Assumptions C07_one_section_per_call.

(* ... and for AddTriples, Exist and the lookups this holds for EVERY unfolding of the body: a batch of any size is one
   critical section, a lookup sending any number of results is one critical section *)
Theorem C07_one_section_any_batch :
  forall n m p, In n ("memory.AddTriples" :: "memory.Exist" :: memory_lookup_names) ->
    find_method n (mt_methods memory_methods) = Some m -> unf (m_body m) p true -> sections_of p <= 1.
Proof.
  intros n m p Hn Hf Hu.
  assert (Hall : forallb (fun n => match find_method n (mt_methods memory_methods) with
                                   | Some m => match max_acq (m_body m) with Some k => Nat.leb k 1 | None => false end
                                   | None => false end)
                         ("memory.AddTriples" :: "memory.Exist" :: memory_lookup_names) = true)
    by (vm_compute; reflexivity).
  rewrite forallb_forall in Hall. specialize (Hall n Hn). rewrite Hf in Hall.
  destruct (max_acq (m_body m)) as [k|] eqn:E; [|discriminate]. apply Nat.leb_le in Hall.
  pose proof (sections_bound m p k E Hu). eapply Nat.le_trans; eassumption.
Qed.
Print Assumptions C07_one_section_any_batch.

(* instances for the real table that need the lock / close discipline only *)
Theorem C07_memory_deadlock_free :
  forall (Local Value : Type) (begin_local : nat -> Local) (rd_eff : Local -> loc -> Value -> Local)
         (wr_eff : Local -> loc -> Value * Local) (send_val : Local -> Value) (sends_ready : tid -> bool),
    (forall t, sends_ready t = true) ->
    forall (progs : list (list call)) (l0 : Local) (m0 : loc -> Value) (sched : list tid) (s : state Local Value),
      Forall (Forall (fun c => path_in memory_methods (c_path c))) progs ->
      run begin_local rd_eff wr_eff send_val sends_ready (init_state l0 m0 progs) sched = Some s ->
      (exists t it, next_item s t = Some it) ->
      exists t s', step begin_local rd_eff wr_eff send_val sends_ready s t = Some s'.
Proof.
  intros Local Value bl re we sv sr Hs. exact (C07_deadlock_free Local Value bl re we sv sr memory_methods C07_memory_locks_ok Hs).
Qed.
Print Assumptions C07_memory_deadlock_free.

Theorem C07_memory_fields_race_free :
  forall (Local Value : Type) (begin_local : nat -> Local) (rd_eff : Local -> loc -> Value -> Local)
         (wr_eff : Local -> loc -> Value * Local) (send_val : Local -> Value) (sends_ready : tid -> bool)
         (progs : list (list call)) (l0 : Local) (m0 : loc -> Value) (sched : list tid) (s : state Local Value),
      Forall (Forall (fun c => path_in memory_methods (c_path c))) progs ->
      run begin_local rd_eff wr_eff send_val sends_ready (init_state l0 m0 progs) sched = Some s ->
      forall t u o f it iu, t <> u -> next_item s t = Some it -> next_item s u = Some iu ->
        it = IAct (AWr (LF o f)) -> (iu = IAct (AWr (LF o f)) \/ iu = IAct (ARd (LF o f))) -> False.
Proof.
  intros Local Value bl re we sv sr.
  exact (C07_mutual_exclusion_partial Local Value bl re we sv sr memory_methods C07_memory_locks_ok).
Qed.
Print Assumptions C07_memory_fields_race_free.

Theorem C07_memory_close_once :
  forall m p acts, In m (mt_methods memory_methods) -> (In p (m_paths m) \/ unf (m_body m) p true) ->
    run_path p = Some acts ->
    if m_chan m then
      (In (ChanNil true) acts /\ count_close acts = 0 /\ ~ In Send acts) \/
      (~ In (ChanNil true) acts /\ count_close acts = 1 /\ no_send_after_close acts)
    else count_close acts = 0 /\ ~ In Send acts.
Proof. exact (C07_close_once memory_methods C07_memory_close_ok). Qed.
Print Assumptions C07_memory_close_once.

(* bql/table/table.go: the methods of Table that touch one table only.  Not covered: the methods listed in
   LockFactsGen.table_unsupported (two-table joins, Reduce, String) and the unexported unsafe* helpers, which write
   without locking by design and are analysed inlined into their callers (AddBindings, ProjectBindings, Sort). *)
Definition table_checked : mtable :=
  {| mt_guard := mt_guard table_methods;
     mt_methods := filter (fun m => negb (String.prefix "Table.unsafe" (m_name m))) (mt_methods table_methods) |}.

Theorem C07_table_locks_ok : locks_ok table_checked = true /\ List.length (mt_methods table_checked) >= 10.
Proof. vm_compute. split; [reflexivity|repeat constructor]. Qed.
Print Assumptions C07_table_locks_ok.

(* ---------------------------------------------------------------- non-vacuity *)
(* the table is the real one: 2 classes, the eleven lookups, AddTriples with its 64+1 paths; the hypotheses of the
   generic theorems are satisfiable by a concurrent program: two threads, AddTriples and a lookup on the same
   graph, run to completion under an interleaved schedule *)
Example C07_nonvacuous_table :
  (List.length (mt_methods memory_methods) >= 20) /\
  (exists m, find_method "memory.AddTriples" (mt_methods memory_methods) = Some m /\ List.length (m_paths m) >= 2) /\
  (exists m, find_method "memory.Triples" (mt_methods memory_methods) = Some m /\ m_chan m = true).
Proof.
  split; [vm_compute; repeat constructor|]. split; eexists; split; try (vm_compute; reflexivity); vm_compute; repeat constructor.
Qed.

Definition ex_paths (n : string) : list path :=
  match find_method n (mt_methods memory_methods) with Some m => m_paths m | None => [] end.
Definition ex_call (n : string) (k : nat) : list call :=
  match nth_error (ex_paths n) k with
  | Some p => [{| c_path := p; c_recv := 7; c_arg := 3; c_tag := k |}]
  | None => []
  end.
(* last path of each method = the longest one in source order (loop body taken, no early error return) *)
Definition ex_progs : list (list call) :=
  [ex_call "memory.AddTriples" (List.length (ex_paths "memory.AddTriples") - 1);
   ex_call "memory.Exist" 0].

Lemma ex_call_wf n k : Forall (fun c => path_in memory_methods (c_path c)) (ex_call n k).
Proof.
  unfold ex_call, ex_paths. destruct (find_method n (mt_methods memory_methods)) as [m|] eqn:E.
  - destruct (nth_error (m_paths m) k) as [p|] eqn:E2; [|constructor]. constructor; [|constructor]. cbn.
    exists m. split; [|left; eapply nth_error_In; exact E2].
    clear -E. revert E. generalize (mt_methods memory_methods). induction l as [|a l IH]; cbn; [discriminate|].
    destruct (String.eqb n (m_name a)); intro H; [inversion H; left; reflexivity|right; auto].
  - destruct k; cbn; constructor.
Qed.

Example C07_nonvacuous_execution :
  Forall (Forall (fun c => path_in memory_methods (c_path c))) ex_progs /\
  exists sched s,
    run (fun n => n) (fun l _ v => l + v) (fun l _ => (l + 1, l)) (fun l => l) (fun _ => true)
        (init_state 0 (fun _ => 5) ex_progs) sched = Some s /\
    (forall t, next_item s t = None) /\ List.length sched >= 10 /\ (List.length (filter (Nat.eqb 1) sched) >= 3).
Proof.
  split; [constructor; [apply ex_call_wf|constructor; [apply ex_call_wf|constructor]]|].
  (* thread 1 (Exist) runs first up to and including its release, then thread 0 (AddTriples) completely *)
  exists (repeat 1 5 ++ repeat 0 (List.length (program (nth 0 ex_progs []))))%list. eexists.
  split; [vm_compute; reflexivity|]. split.
  - intro t. destruct t as [|[|t]]; vm_compute; try reflexivity. destruct t; reflexivity.
  - split; vm_compute; repeat constructor.
Qed.
