(* ConcStruct.v — soundness of the structured check: if [body_check accept g m] holds then EVERY unfolding of the
   method body (loops taken any number of times) passes the corresponding flat check of Conc.v. *)
From Coq Require Import List Bool Arith PeanoNat Lia.
Import ListNotations.
From BWConc Require Import Conc.

Section Struct.
  Variable g : list (fieldid * option lockid).

  (* processing a Return-free prefix *)
  Fixpoint feed (st : ast) (defs : list act) (p : path) : ast * list act :=
    match p with
    | [] => (st, defs)
    | Do a :: p' => feed (ast_step g st a) defs p'
    | Defer a :: p' => feed st (a :: defs) p'
    | Return :: _ => (st, defs)
    end.

  (* the final automaton state of a complete path *)
  Fixpoint final (st : ast) (defs : list act) (p : path) : option ast :=
    match p with
    | [] => None
    | Do a :: p' => final (ast_step g st a) defs p'
    | Defer a :: p' => final st (a :: defs) p'
    | Return :: rest => match rest with [] => Some (fold_left (ast_step g) defs st) | _ => None end
    end.

  Definition retfree (p : path) : Prop := ~ In Return p.

  Lemma retfree_app p q : retfree p -> retfree q -> retfree (p ++ q).
  Proof. unfold retfree. intros H1 H2 F. apply in_app_or in F. tauto. Qed.

  Lemma feed_app p : forall st defs q, retfree p ->
    feed st defs (p ++ q) = feed (fst (feed st defs p)) (snd (feed st defs p)) q.
  Proof.
    induction p as [|o p IH]; intros st defs q Hr; cbn; [reflexivity|].
    assert (Hr' : retfree p) by (intro F; apply Hr; right; exact F).
    destruct o; try (apply IH; exact Hr'). exfalso. apply Hr. left. reflexivity.
  Qed.

  Lemma final_app p : forall st defs q, retfree p ->
    final st defs (p ++ q) = final (fst (feed st defs p)) (snd (feed st defs p)) q.
  Proof.
    induction p as [|o p IH]; intros st defs q Hr; cbn; [reflexivity|].
    assert (Hr' : retfree p) by (intro F; apply Hr; right; exact F).
    destruct o; try (apply IH; exact Hr'). exfalso. apply Hr. left. reflexivity.
  Qed.

  Lemma unf_retfree s p r : unf s p r -> r = false -> retfree p.
  Proof.
    induction 1; intro E; try discriminate; try (intros []; fail); auto.
    - intros [F|[]]; discriminate.
    - intros [F|[]]; discriminate.
    - apply retfree_app; auto.
    - apply retfree_app; auto.
  Qed.

  (* continue_with *)
  Lemma continue_with_fall k outs res st d o :
    continue_with k outs = Some res -> In (Fall st d) outs ->
    forall ko, k st d = Some ko -> In o ko -> In o res.
  Proof.
    revert res. induction outs as [|x outs IH]; intros res H Hin ko Hk Ho; [contradiction|].
    cbn in H. destruct x as [s' d'|x].
    - destruct (k s' d') as [a|] eqn:Ea; [|discriminate].
      destruct (continue_with k outs) as [b|] eqn:Eb; [|discriminate]. inversion H. subst res.
      apply in_or_app. destruct Hin as [Hin|Hin].
      + inversion Hin. subst. rewrite Hk in Ea. inversion Ea. subst. left. exact Ho.
      + right. apply (IH b eq_refl Hin ko Hk Ho).
    - destruct (continue_with k outs) as [b|] eqn:Eb; [|discriminate]. inversion H. subst res.
      destruct Hin as [Hin|Hin]; [discriminate|]. right. apply (IH b eq_refl Hin ko Hk Ho).
  Qed.

  Lemma continue_with_defined k outs res st d :
    continue_with k outs = Some res -> In (Fall st d) outs -> exists ko, k st d = Some ko.
  Proof.
    revert res. induction outs as [|x outs IH]; intros res H Hin; [contradiction|].
    cbn in H. destruct x as [s' d'|x].
    - destruct (k s' d') as [a|] eqn:Ea; [|discriminate].
      destruct (continue_with k outs) as [b|] eqn:Eb; [|discriminate].
      destruct Hin as [Hin|Hin]; [inversion Hin; subst; eauto|apply (IH b eq_refl Hin)].
    - destruct (continue_with k outs) as [b|] eqn:Eb; [|discriminate].
      destruct Hin as [Hin|Hin]; [discriminate|apply (IH b eq_refl Hin)].
  Qed.

  Lemma continue_with_ret k outs res x :
    continue_with k outs = Some res -> In (Ret x) outs -> In (Ret x) res.
  Proof.
    revert res. induction outs as [|y outs IH]; intros res H Hin; [contradiction|].
    cbn in H. destruct y as [s' d'|y].
    - destruct (k s' d') as [a|]; [|discriminate].
      destruct (continue_with k outs) as [b|] eqn:Eb; [|discriminate]. inversion H. subst res.
      destruct Hin as [Hin|Hin]; [discriminate|]. apply in_or_app. right. apply (IH b eq_refl Hin).
    - destruct (continue_with k outs) as [b|] eqn:Eb; [|discriminate]. inversion H. subst res.
      destruct Hin as [Hin|Hin]; [inversion Hin; subst; left; reflexivity|right; apply (IH b eq_refl Hin)].
  Qed.

  Lemma same_fall_true st defs st' d' : same_fall st defs (Fall st' d') = true -> st' = st /\ d' = defs.
  Proof.
    cbn. destruct (ast_eq_dec st' st); [|discriminate]. destruct (list_eq_dec act_eq_dec d' defs); [|discriminate]. auto.
  Qed.

  (* soundness of the interpreter w.r.t. unfoldings *)
  Lemma interp_sound s p r : unf s p r ->
    forall st defs outs, interp g s st defs = Some outs ->
      if r then exists sf, final st defs p = Some sf /\ In (Ret sf) outs
      else In (Fall (fst (feed st defs p)) (snd (feed st defs p))) outs.
  Proof.
    induction 1 as [ | a | a | | s1 s2 p Hu IH | s1 s2 p1 p2 r Hu1 IH1 Hu2 IH2 | s1 s2 p r Hu IH | s1 s2 p r Hu IH
                     | b | b p Hu IH | b p1 p2 r Hu1 IH1 Hu2 IH2 ];
      intros st defs outs Hi; cbn in Hi.
    - inversion Hi. left. reflexivity.
    - inversion Hi. left. reflexivity.
    - inversion Hi. left. reflexivity.
    - inversion Hi. exists (fold_left (ast_step g) defs st). split; [reflexivity|left; reflexivity].
    - destruct (interp g s1 st defs) as [o1|] eqn:E1; [|discriminate].
      destruct (IH st defs o1 E1) as [sf [Hf Hin]]. exists sf. split; [exact Hf|].
      apply (continue_with_ret _ _ _ _ Hi Hin).
    - destruct (interp g s1 st defs) as [o1|] eqn:E1; [|discriminate].
      pose proof (IH1 st defs o1 E1) as Hin1. cbn in Hin1.
      pose proof (unf_retfree _ _ _ Hu1 eq_refl) as Hrf.
      destruct (continue_with_defined _ _ _ _ _ Hi Hin1) as [ko Hko].
      pose proof (IH2 _ _ ko Hko) as H2.
      destruct r.
      + destruct H2 as [sf [Hf Hin]]. exists sf. split; [rewrite final_app by exact Hrf; exact Hf|].
        apply (continue_with_fall _ _ _ _ _ _ Hi Hin1 ko Hko Hin).
      + rewrite feed_app by exact Hrf. apply (continue_with_fall _ _ _ _ _ _ Hi Hin1 ko Hko H2).
    - destruct (interp g s1 st defs) as [o1|] eqn:E1; [|discriminate].
      destruct (interp g s2 st defs) as [o2|] eqn:E2; [|discriminate]. inversion Hi. subst outs.
      pose proof (IH st defs o1 E1) as H1. destruct r.
      + destruct H1 as [sf [Hf Hin]]. exists sf. split; [exact Hf|apply in_or_app; left; exact Hin].
      + apply in_or_app. left. exact H1.
    - destruct (interp g s1 st defs) as [o1|] eqn:E1; [|discriminate].
      destruct (interp g s2 st defs) as [o2|] eqn:E2; [|discriminate]. inversion Hi. subst outs.
      pose proof (IH st defs o2 E2) as H1. destruct r.
      + destruct H1 as [sf [Hf Hin]]. exists sf. split; [exact Hf|apply in_or_app; right; exact Hin].
      + apply in_or_app. right. exact H1.
    - destruct (interp g b st defs) as [o1|] eqn:E1; [|discriminate].
      destruct (forallb (same_fall st defs) o1); [|discriminate]. inversion Hi. left. reflexivity.
    - destruct (interp g b st defs) as [o1|] eqn:E1; [|discriminate].
      destruct (forallb (same_fall st defs) o1); [|discriminate]. inversion Hi. subst outs.
      destruct (IH st defs o1 E1) as [sf [Hf Hin]]. exists sf. split; [exact Hf|].
      right. apply filter_In. split; [exact Hin|reflexivity].
    - assert (Hi' := Hi).
      destruct (interp g b st defs) as [o1|] eqn:E1; [|discriminate].
      destruct (forallb (same_fall st defs) o1) eqn:Esf; [|discriminate].
      pose proof (IH1 st defs o1 E1) as Hin1. cbn in Hin1.
      rewrite forallb_forall in Esf. destruct (same_fall_true _ _ _ _ (Esf _ Hin1)) as [Ea Eb].
      pose proof (unf_retfree _ _ _ Hu1 eq_refl) as Hrf.
      assert (Hi2 : interp g (SLoop b) st defs = Some outs).
      { cbn. rewrite E1. destruct (forallb (same_fall st defs) o1) eqn:E'; [exact Hi'|].
        exfalso. assert (forallb (same_fall st defs) o1 = true) by (apply forallb_forall; exact Esf). congruence. }
      pose proof (IH2 st defs outs Hi2) as H2.
      destruct r.
      + destruct H2 as [sf [Hf Hin]]. exists sf. split; [|exact Hin].
        rewrite final_app by exact Hrf. rewrite Ea, Eb. exact Hf.
      + rewrite feed_app by exact Hrf. rewrite Ea, Eb. exact H2.
  Qed.

  (* ---- the final state of a complete path, in terms of run_path and the three flat automata ---- *)
  Lemma final_run_path p : forall st defs sf,
    final st defs p = Some sf ->
    exists acts, run_path_aux p defs = Some acts /\ fold_left (ast_step g) acts st = sf.
  Proof.
    induction p as [|o p IH]; intros st defs sf H; cbn in H; [discriminate|].
    destruct o as [a|a|].
    - destruct (IH _ _ _ H) as [acts [Hr Hf]]. exists (a :: acts). cbn. rewrite Hr. split; [reflexivity|exact Hf].
    - destruct (IH _ _ _ H) as [acts [Hr Hf]]. exists acts. cbn. split; [exact Hr|exact Hf].
    - destruct p; [|discriminate]. inversion H. exists defs. cbn. split; reflexivity.
  Qed.

  Lemma fold_h acts : forall st h, a_h st = Some h -> a_h (fold_left (ast_step g) acts st) = chk_acts g h acts.
  Proof.
    induction acts as [|a acts IH]; intros st h H; cbn; [exact H|].
    destruct (chk_act g h a) as [h'|] eqn:E.
    - apply IH. cbn. rewrite H. exact E.
    - clear IH. assert (Hn : a_h (ast_step g st a) = None) by (cbn; rewrite H; exact E).
      revert Hn. generalize (ast_step g st a). induction acts as [|b acts IH]; intros s Hn; cbn; [exact Hn|].
      apply IH. cbn. rewrite Hn. reflexivity.
  Qed.

  Lemma fold_ch acts : forall st c, a_ch st = Some c -> a_ch (fold_left (ast_step g) acts st) = ch_run c acts.
  Proof.
    induction acts as [|a acts IH]; intros st c H; cbn; [exact H|].
    destruct (ch_step c a) as [c'|] eqn:E.
    - apply IH. cbn. rewrite H. exact E.
    - clear IH. assert (Hn : a_ch (ast_step g st a) = None) by (cbn; rewrite H; exact E).
      revert Hn. generalize (ast_step g st a). induction acts as [|b acts IH]; intros s Hn; cbn; [exact Hn|].
      apply IH. cbn. rewrite Hn. reflexivity.
  Qed.

  Lemma fold_wp acts : forall st, a_wp (fold_left (ast_step g) acts st) = a_wp st || existsb is_wrparam acts.
  Proof.
    induction acts as [|a acts IH]; intros st; cbn; [rewrite orb_false_r; reflexivity|].
    rewrite IH. cbn. rewrite orb_assoc. reflexivity.
  Qed.

  Lemma ch_run_nil_nochan acts s : ch_run ChNil acts = Some s -> existsb is_chanop acts = false.
  Proof.
    revert s. induction acts as [|a acts IH]; intros s H; cbn in *; [reflexivity|].
    destruct (ch_step ChNil a) as [c|] eqn:E; [|discriminate].
    assert (c = ChNil /\ is_chanop a = false) as [-> Hn].
    { destruct a as [| | | | | | | |[]]; cbn in E; inversion E; auto. }
    rewrite Hn. cbn. apply (IH s H).
  Qed.

  (* body_check => flat checks for every unfolding *)
  Lemma body_final accept (m : method) p :
    body_check accept g m = true -> unf (m_body m) p true ->
    exists acts, run_path p = Some acts /\ accept (fold_left (ast_step g) acts (ast_init (m_chan m))) = true.
  Proof.
    unfold body_check. intros H Hu.
    destruct (interp g (m_body m) (ast_init (m_chan m)) []) as [outs|] eqn:E; [|discriminate].
    destruct (interp_sound _ _ _ Hu _ _ _ E) as [sf [Hf Hin]].
    destruct (final_run_path _ _ _ _ Hf) as [acts [Hr Hfold]].
    exists acts. split; [exact Hr|]. rewrite forallb_forall in H. specialize (H _ Hin). cbn in H. rewrite Hfold. exact H.
  Qed.

  Lemma body_locks_sound (m : method) p :
    body_check accept_locks g m = true -> unf (m_body m) p true -> path_locks_ok g p = true.
  Proof.
    intros H Hu. destruct (body_final _ _ _ H Hu) as [acts [Hr Ha]].
    unfold path_locks_ok. rewrite Hr. unfold accept_locks in Ha.
    rewrite (fold_h acts (ast_init (m_chan m)) None eq_refl) in Ha.
    destruct (chk_acts g None acts) as [[x|]|]; try discriminate. reflexivity.
  Qed.

  Lemma body_params_sound (m : method) p :
    body_check accept_params g m = true -> unf (m_body m) p true -> path_params_ok p = true.
  Proof.
    intros H Hu. destruct (body_final _ _ _ H Hu) as [acts [Hr Ha]].
    unfold path_params_ok. rewrite Hr. unfold accept_params in Ha. rewrite fold_wp in Ha. exact Ha.
  Qed.

  Lemma body_close_sound (m : method) p :
    body_check accept_close g m = true -> unf (m_body m) p true -> path_close_ok (m_chan m) p = true.
  Proof.
    intros H Hu. destruct (body_final _ _ _ H Hu) as [acts [Hr Ha]].
    unfold path_close_ok. rewrite Hr. unfold accept_close in Ha.
    destruct (m_chan m) eqn:Ec.
    - rewrite (fold_ch acts (ast_init true) ChUnknown eq_refl) in Ha.
      destruct (ch_run ChUnknown acts) as [[| | |]|]; try discriminate; reflexivity.
    - rewrite (fold_ch acts (ast_init false) ChNil eq_refl) in Ha.
      destruct (ch_run ChNil acts) as [c|] eqn:E; [|discriminate].
      rewrite (ch_run_nil_nochan acts c E). reflexivity.
  Qed.

End Struct.

(* ------------------------------------------------------------------ number of critical sections, all unfoldings *)
Definition mop_acq (o : mop) : nat :=
  match o with Do (Acq _ _) | Defer (Acq _ _) => 1 | _ => 0 end.
Fixpoint acq_count (p : path) : nat :=
  match p with [] => 0 | o :: p' => mop_acq o + acq_count p' end.

(* an upper bound on the lock acquisitions of any run through s; None when a loop body acquires a lock *)
Fixpoint max_acq (s : stm) : option nat :=
  match s with
  | SSkip | SReturn => Some 0
  | SDo a | SDefer a => Some (if is_acq a then 1 else 0)
  | SSeq a b => match max_acq a, max_acq b with Some x, Some y => Some (x + y) | _, _ => None end
  | SIf a b => match max_acq a, max_acq b with Some x, Some y => Some (Nat.max x y) | _, _ => None end
  | SLoop b => match max_acq b with Some 0 => Some 0 | _ => None end
  end.

Lemma acq_count_app p q : acq_count (p ++ q) = acq_count p + acq_count q.
Proof. induction p as [|o p IH]; cbn; [reflexivity|]. rewrite IH. lia. Qed.

Lemma unf_acq s p r : unf s p r -> forall n, max_acq s = Some n -> acq_count p <= n.
Proof.
  induction 1 as [ | a | a | | s1 s2 p Hu IH | s1 s2 p1 p2 r Hu1 IH1 Hu2 IH2 | s1 s2 p r Hu IH | s1 s2 p r Hu IH
                   | b | b p Hu IH | b p1 p2 r Hu1 IH1 Hu2 IH2 ]; intros n Hn; cbn in Hn.
  - cbn. lia.
  - inversion Hn. cbn. destruct a; cbn; lia.
  - inversion Hn. cbn. destruct a; cbn; lia.
  - cbn. lia.
  - destruct (max_acq s1) as [x|]; [|discriminate]. destruct (max_acq s2) as [y|]; [|discriminate].
    inversion Hn. specialize (IH x eq_refl). lia.
  - destruct (max_acq s1) as [x|]; [|discriminate]. destruct (max_acq s2) as [y|]; [|discriminate].
    inversion Hn. specialize (IH1 x eq_refl). specialize (IH2 y eq_refl). rewrite acq_count_app. lia.
  - destruct (max_acq s1) as [x|]; [|discriminate]. destruct (max_acq s2) as [y|]; [|discriminate].
    inversion Hn. specialize (IH x eq_refl). lia.
  - destruct (max_acq s1) as [x|]; [|discriminate]. destruct (max_acq s2) as [y|]; [|discriminate].
    inversion Hn. specialize (IH y eq_refl). lia.
  - cbn. lia.
  - destruct (max_acq b) as [[|x]|]; try discriminate. inversion Hn. specialize (IH 0 eq_refl). lia.
  - assert (Hn' := Hn). destruct (max_acq b) as [[|x]|] eqn:E; try discriminate. inversion Hn. subst n.
    specialize (IH1 0 eq_refl). specialize (IH2 0). cbn in IH2. rewrite E in IH2. specialize (IH2 eq_refl).
    rewrite acq_count_app. lia.
Qed.

Lemma run_path_aux_acq p : forall d acts, run_path_aux p d = Some acts ->
  List.length (filter is_acq acts) = acq_count p + List.length (filter is_acq d).
Proof.
  induction p as [|o p IH]; intros d acts H; cbn in H; [discriminate|].
  destruct o as [a|a|].
  - destruct (run_path_aux p d) as [acts'|] eqn:E; [|discriminate]. inversion H. subst acts.
    pose proof (IH d acts' E) as IH'. destruct a; cbn; cbn in IH'; lia.
  - rewrite (IH (a :: d) acts H). cbn. destruct a; cbn; lia.
  - destruct p; [|discriminate]. inversion H. subst. cbn. reflexivity.
Qed.

Lemma sections_bound (m : method) p n :
  max_acq (m_body m) = Some n -> unf (m_body m) p true -> sections_of p <= n.
Proof.
  intros Hn Hu. unfold sections_of. destruct (run_path p) as [acts|] eqn:E; [|lia].
  unfold run_path in E. rewrite (run_path_aux_acq p [] acts E). cbn. rewrite Nat.add_0_r.
  apply (unf_acq _ _ _ Hu n Hn).
Qed.
