(* ConcStatic.v — from the boolean checks on a method table to facts about the programs threads run. *)
From Coq Require Import List Bool Arith PeanoNat Lia.
Import ListNotations.
From BWConc Require Import Conc ConcStruct.

(* ------------------------------------------------------------------ small boolean equalities *)
Lemma mode_eqb_eq a b : mode_eqb a b = true <-> a = b.
Proof. destruct a, b; cbn; split; intro H; try reflexivity; discriminate. Qed.

Lemma rtlock_eqb_eq (x y : rtlock) : rtlock_eqb x y = true <-> x = y.
Proof.
  destruct x as [a b], y as [c d]. unfold rtlock_eqb. cbn. rewrite andb_true_iff, !Nat.eqb_eq.
  split; [intros [-> ->]; reflexivity | intro H; inversion H; auto].
Qed.

Lemma rtlock_eqb_refl x : rtlock_eqb x x = true.
Proof. apply rtlock_eqb_eq. reflexivity. Qed.

Lemma rtlock_eqb_sym x y : rtlock_eqb x y = rtlock_eqb y x.
Proof.
  destruct (rtlock_eqb x y) eqn:E.
  - apply rtlock_eqb_eq in E. subst. symmetry. apply rtlock_eqb_refl.
  - destruct (rtlock_eqb y x) eqn:E'; [|reflexivity]. apply rtlock_eqb_eq in E'. subst.
    rewrite rtlock_eqb_refl in E. discriminate.
Qed.

Lemma loc_eqb_eq x y : loc_eqb x y = true <-> x = y.
Proof.
  destruct x, y; cbn; try (split; intro H; discriminate).
  - rewrite andb_true_iff, !Nat.eqb_eq. split; [intros [-> ->]; reflexivity | intro H; inversion H; auto].
  - rewrite andb_true_iff, !Nat.eqb_eq. split; [intros [-> ->]; reflexivity | intro H; inversion H; auto].
Qed.

Lemma loc_eqb_refl x : loc_eqb x x = true.
Proof. apply loc_eqb_eq. reflexivity. Qed.

Lemma loc_eqb_neq x y : x <> y -> loc_eqb x y = false.
Proof. intro H. destruct (loc_eqb x y) eqn:E; [|reflexivity]. apply loc_eqb_eq in E. contradiction. Qed.

Lemma entry_eqb_eq (a b : rtlock * mode) : entry_eqb a b = true <-> a = b.
Proof.
  destruct a as [l m], b as [l' m']. unfold entry_eqb. cbn [fst snd].
  rewrite andb_true_iff, rtlock_eqb_eq, mode_eqb_eq.
  split; [intros [-> ->]; reflexivity | intro H; inversion H; auto].
Qed.

(* ------------------------------------------------------------------ dynamic discipline of a todo list *)
Definition dheld := option (rtlock * mode).

Definition held_list (h : dheld) : list (rtlock * mode) :=
  match h with Some e => [e] | None => [] end.

Definition rguard (g : list (fieldid * option lockid)) (x : loc) : option (option rtlock) :=
  match x with
  | LF o f => match guard_of g f with
              | Some (Some l) => Some (Some (o, l))
              | Some None => Some None
              | None => None
              end
  | LP _ _ => Some None
  end.

Definition is_param (x : loc) : bool := match x with LP _ _ => true | LF _ _ => false end.

(* [pw] = writes to caller-owned parameter objects are tolerated (used for the theorems that only need the lock
   discipline); with pw = false such a write is a violation. *)
Definition dchk_item (g : list (fieldid * option lockid)) (pw : bool) (h : dheld) (it : item) : option dheld :=
  match it with
  | IBegin _ | IEnd => match h with None => Some None | Some _ => None end
  | IAct (AAcq l m) => match h with None => Some (Some (l, m)) | Some _ => None end
  | IAct (ARel l m) => match h with
                       | Some e => if entry_eqb (l, m) e then Some None else None
                       | None => None
                       end
  | IAct (ARd x) => match rguard g x with
                    | Some None => Some h
                    | Some (Some gl) => match h with
                                        | Some (l', _) => if rtlock_eqb gl l' then Some h else None
                                        | None => None
                                        end
                    | None => None
                    end
  | IAct (AWr x) => match rguard g x with
                    | Some (Some gl) => match h with
                                        | Some (l', W) => if rtlock_eqb gl l' then Some h else None
                                        | _ => None
                                        end
                    | Some None => if is_param x && pw then Some h else None
                    | None => None
                    end
  | IAct ASend | IAct AClose | IAct ANop => Some h
  end.

Fixpoint dchk (g : list (fieldid * option lockid)) (pw : bool) (h : dheld) (l : list item) : option dheld :=
  match l with
  | [] => Some h
  | it :: l' => match dchk_item g pw h it with Some h' => dchk g pw h' l' | None => None end
  end.

Lemma dchk_app g pw h l1 l2 h1 :
  dchk g pw h l1 = Some h1 -> dchk g pw h (l1 ++ l2) = dchk g pw h1 l2.
Proof.
  revert h. induction l1 as [|it l1 IH]; intros h H; cbn in *.
  - inversion H. reflexivity.
  - destruct (dchk_item g pw h it) as [h'|]; [|discriminate]. apply IH. exact H.
Qed.

(* instantiation of the static held state *)
Definition inst_held (o : obj) (h : held1) : dheld :=
  match h with Some (l, m) => Some ((o, l), m) | None => None end.

Lemma chk_act_inst g pw recv arg h a h' :
  chk_act g h a = Some h' ->
  (pw = true \/ is_wrparam a = false) ->
  dchk_item g pw (inst_held recv h) (IAct (inst_act recv arg a)) = Some (inst_held recv h').
Proof.
  intros H Hp. destruct a; cbn in *.
  - destruct h; [discriminate|]. inversion H. reflexivity.
  - destruct h as [[l' m']|]; [|discriminate].
    destruct (Nat.eqb l l' && mode_eqb m m') eqn:E; [|discriminate]. inversion H. subst h'.
    apply andb_true_iff in E. destruct E as [E1 E2]. apply Nat.eqb_eq in E1. apply mode_eqb_eq in E2. subst.
    cbn. unfold entry_eqb. cbn. rewrite rtlock_eqb_refl. destruct m'; reflexivity.
  - destruct (guard_of g f) as [[gl|]|]; [| |discriminate].
    + destruct h as [[l' m']|]; [|discriminate]. destruct (Nat.eqb gl l') eqn:E; [|discriminate].
      inversion H. subst h'. apply Nat.eqb_eq in E. subst. cbn. rewrite rtlock_eqb_refl. reflexivity.
    + inversion H. reflexivity.
  - destruct (guard_of g f) as [[gl|]|]; try discriminate.
    destruct h as [[l' m']|]; [|discriminate]. destruct m'; [discriminate|].
    destruct (Nat.eqb gl l') eqn:E; [|discriminate].
    inversion H. subst h'. apply Nat.eqb_eq in E. subst. cbn. rewrite rtlock_eqb_refl. reflexivity.
  - inversion H. reflexivity.
  - inversion H. subst. destruct Hp as [->|Hp]; [reflexivity|discriminate].
  - inversion H. reflexivity.
  - inversion H. reflexivity.
  - inversion H. reflexivity.
Qed.

Lemma chk_acts_inst g pw recv arg acts : forall h h',
  chk_acts g h acts = Some h' ->
  (pw = true \/ existsb is_wrparam acts = false) ->
  dchk g pw (inst_held recv h) (map (fun a => IAct (inst_act recv arg a)) acts) = Some (inst_held recv h').
Proof.
  induction acts as [|a acts IH]; intros h h' H Hp; cbn [chk_acts existsb] in H, Hp; cbn [map dchk].
  - inversion H. reflexivity.
  - destruct (chk_act g h a) as [h1|] eqn:E; [|discriminate].
    rewrite (chk_act_inst g pw recv arg h a h1 E).
    + apply IH; [exact H|]. destruct Hp as [Hp|Hp]; [left; exact Hp|right].
      apply orb_false_iff in Hp. apply Hp.
    + destruct Hp as [Hp|Hp]; [left; exact Hp|right]. apply orb_false_iff in Hp. apply Hp.
Qed.

(* a call whose path passes the static checks yields a balanced, disciplined item list *)
Definition path_ok_for (g : list (fieldid * option lockid)) (pw : bool) (p : path) : Prop :=
  path_locks_ok g p = true /\ (pw = true \/ path_params_ok p = true).

Lemma call_items_dchk g pw c :
  path_ok_for g pw (c_path c) -> dchk g pw None (call_items c) = Some None.
Proof.
  intros [Hl Hp]. unfold call_items, path_locks_ok, path_params_ok in *.
  destruct (run_path (c_path c)) as [acts|]; [|discriminate].
  destruct (chk_acts g None acts) as [[x|]|] eqn:E; try discriminate.
  cbn [dchk dchk_item].
  rewrite (dchk_app g pw None _ [IEnd] None).
  - reflexivity.
  - apply (chk_acts_inst g pw (c_recv c) (c_arg c) acts None None E).
    destruct Hp as [Hp|Hp]; [left; exact Hp|right]. apply negb_true_iff in Hp. exact Hp.
Qed.

Lemma program_dchk g pw cs :
  Forall (fun c => path_ok_for g pw (c_path c)) cs -> dchk g pw None (program cs) = Some None.
Proof.
  induction 1 as [|c cs Hc _ IH]; [reflexivity|].
  unfold program. cbn [flat_map]. rewrite (dchk_app g pw None _ _ None (call_items_dchk g pw c Hc)). exact IH.
Qed.

(* table-level: a path of a checked table is ok *)
Lemma locks_ok_path M p : locks_ok M = true -> path_in M p -> path_locks_ok (mt_guard M) p = true.
Proof.
  intros H [m [Hm Hp]]. unfold locks_ok in H. rewrite forallb_forall in H.
  specialize (H m Hm). apply andb_true_iff in H. destruct H as [H1 H2]. destruct Hp as [Hp|Hp].
  - rewrite forallb_forall in H1. apply H1. exact Hp.
  - apply (body_locks_sound (mt_guard M) m p H2 Hp).
Qed.

Lemma params_ok_path M p : params_ok M = true -> path_in M p -> path_params_ok p = true.
Proof.
  intros H [m [Hm Hp]]. unfold params_ok in H. rewrite forallb_forall in H.
  specialize (H m Hm). apply andb_true_iff in H. destruct H as [H1 H2]. destruct Hp as [Hp|Hp].
  - rewrite forallb_forall in H1. apply H1. exact Hp.
  - apply (body_params_sound (mt_guard M) m p H2 Hp).
Qed.

Lemma close_ok_path M m p : close_ok M = true -> In m (mt_methods M) ->
  (In p (m_paths m) \/ unf (m_body m) p true) -> path_close_ok (m_chan m) p = true.
Proof.
  intros H Hm Hp. unfold close_ok in H. rewrite forallb_forall in H.
  specialize (H m Hm). apply andb_true_iff in H. destruct H as [H1 H2]. destruct Hp as [Hp|Hp].
  - rewrite forallb_forall in H1. apply H1. exact Hp.
  - apply (body_close_sound (mt_guard M) m p H2 Hp).
Qed.

Definition calls_of (M : mtable) (cs : list call) : Prop := Forall (fun c => path_in M (c_path c)) cs.

Lemma program_dchk_locks M cs :
  locks_ok M = true -> calls_of M cs -> dchk (mt_guard M) true None (program cs) = Some None.
Proof.
  intros H Hc. apply program_dchk. unfold calls_of in Hc. rewrite Forall_forall in *.
  intros c Hin. split; [apply locks_ok_path; auto|left; reflexivity].
Qed.

Lemma program_dchk_full M cs :
  locks_ok M = true -> params_ok M = true -> calls_of M cs ->
  dchk (mt_guard M) false None (program cs) = Some None.
Proof.
  intros H H' Hc. apply program_dchk. unfold calls_of in Hc. rewrite Forall_forall in *.
  intros c Hin. split; [apply locks_ok_path; auto|right; apply (params_ok_path M); auto].
Qed.

(* ------------------------------------------------------------------ close exactly once (static) *)
Definition count_close (l : list act) : nat := List.length (filter is_close l).

Fixpoint no_send_after_close (l : list act) : Prop :=
  match l with
  | [] => True
  | Close :: l' => ~ In Send l' /\ no_send_after_close l'
  | _ :: l' => no_send_after_close l'
  end.

Lemma no_send_nsac l : ~ In Send l -> no_send_after_close l.
Proof.
  induction l as [|a l IH]; intro H; cbn; [exact I|].
  assert (H' : ~ In Send l) by (intro F; apply H; right; exact F).
  destruct a; auto.
Qed.

Lemma ch_run_closed_none l : forall s, (s = ChClosed \/ s = ChNil) ->
  forall s', ch_run s l = Some s' -> s' = s /\ count_close l = 0 /\ ~ In Send l.
Proof.
  induction l as [|a l IH]; intros s Hs s' H; cbn in *.
  - inversion H. auto.
  - destruct (ch_step s a) as [s1|] eqn:E; [|discriminate].
    assert (s1 = s /\ is_close a = false /\ a <> Send) as [-> [Hc Hn]].
    { destruct Hs as [-> | ->]; destruct a as [| | | | | | | |[]]; cbn in E; inversion E; repeat split;
        discriminate. }
    destruct (IH s Hs s' H) as [-> [H1 H2]]. unfold count_close in *. cbn. rewrite Hc.
    repeat split; auto. intros [F|F]; contradiction.
Qed.

Lemma ch_run_open l : forall s', ch_run ChOpen l = Some s' ->
  (s' = ChOpen /\ count_close l = 0) \/ (s' = ChClosed /\ count_close l = 1 /\ no_send_after_close l).
Proof.
  induction l as [|a l IH]; intros s' H; cbn in *.
  - inversion H. left. auto.
  - destruct a as [| | | | | | | |b]; cbn in H;
      try (destruct (IH s' H) as [[-> Hc]|[-> [Hc Hn]]]; [left|right]; unfold count_close in *; cbn; auto; fail).
    + (* Close *)
      destruct (ch_run_closed_none l ChClosed (or_introl eq_refl) s' H) as [-> [Hc Hn]].
      right. unfold count_close in *. cbn. rewrite Hc. repeat split; auto.
      apply no_send_nsac. exact Hn.
    + destruct b; discriminate.
Qed.

Lemma ch_run_known_no_niltest l : forall s s' b, s <> ChUnknown -> ch_run s l = Some s' -> ~ In (ChanNil b) l.
Proof.
  induction l as [|a l IH]; intros s s' b Hs H F; [contradiction|]. cbn in H.
  destruct (ch_step s a) as [s1|] eqn:E; [|discriminate].
  destruct F as [F|F].
  - subst a. destruct s, b; cbn in E; try discriminate; contradiction.
  - apply (IH s1 s' b); auto. intro Hs1. subst s1.
    destruct a as [| | | | | | | |[]], s; cbn in E; try discriminate; contradiction.
Qed.

(* every path of a method with a result channel: either the channel is nil and nothing is sent or closed, or the
   nil test comes first, the channel is closed exactly once, and nothing is sent after the close *)
Lemma ch_run_unknown acts : forall s, ch_run ChUnknown acts = Some s -> (s = ChClosed \/ s = ChNil) ->
  (In (ChanNil true) acts /\ count_close acts = 0 /\ ~ In Send acts) \/
  (~ In (ChanNil true) acts /\ count_close acts = 1 /\ no_send_after_close acts).
Proof.
  induction acts as [|a acts IH]; intros s E Hs; cbn in E.
  - inversion E. subst. destruct Hs; discriminate.
  - destruct (ch_step ChUnknown a) as [s1|] eqn:E1; [|discriminate].
    assert (Hcase : (is_chanop a = false /\ s1 = ChUnknown) \/ a = ChanNil true \/ a = ChanNil false).
    { destruct a as [| | | | | | | |[]]; cbn in E1; try discriminate; inversion E1; auto. }
    destruct Hcase as [[Hna ->]|[->| ->]].
    + destruct (IH s E Hs) as [[H1 [H2 H3]]|[H1 [H2 H3]]]; [left|right].
      * split; [right; exact H1|]. split.
        -- unfold count_close in *. cbn. destruct a; try discriminate; exact H2.
        -- intros [F|F]; [subst a; discriminate|contradiction].
      * split; [intros [F|F]; [subst a; discriminate|contradiction]|]. split.
        -- unfold count_close in *. cbn. destruct a; try discriminate; exact H2.
        -- destruct a; try discriminate; exact H3.
    + left. cbn in E1. inversion E1. subst s1.
      destruct (ch_run_closed_none acts ChNil (or_intror eq_refl) s E) as [-> [Hc Hn]].
      split; [left; reflexivity|]. split; [exact Hc|]. intros [F|F]; [discriminate|contradiction].
    + right. cbn in E1. inversion E1. subst s1.
      destruct (ch_run_open acts s E) as [[-> Hc]|[-> [Hc Hn]]]; [destruct Hs; discriminate|].
      assert (Hnil : ~ In (ChanNil true) acts)
        by (apply (ch_run_known_no_niltest acts ChOpen ChClosed true); [discriminate|exact E]).
      split; [intros [F|F]; [discriminate|contradiction]|]. split; [exact Hc|exact Hn].
Qed.

Lemma path_close_ok_sound p acts :
  path_close_ok true p = true -> run_path p = Some acts ->
  (In (ChanNil true) acts /\ count_close acts = 0 /\ ~ In Send acts) \/
  (~ In (ChanNil true) acts /\ count_close acts = 1 /\ no_send_after_close acts).
Proof.
  intros H Hr. unfold path_close_ok in H. rewrite Hr in H.
  destruct (ch_run ChUnknown acts) as [s|] eqn:E; [|discriminate].
  apply (ch_run_unknown acts s E). destruct s; try discriminate; auto.
Qed.
