(* ConcThm.v — the C07 statements for an arbitrary method table, all thread counts, programs and interleavings. *)
From Coq Require Import List Bool Arith PeanoNat Lia Permutation.
Import ListNotations.
From BWConc Require Import Conc ConcStatic ConcInv ConcLin.

Section Top.
  Context {Local Value : Type}.
  Variable begin_local : nat -> Local.
  Variable rd_eff : Local -> loc -> Value -> Local.
  Variable wr_eff : Local -> loc -> Value * Local.
  Variable send_val : Local -> Value.
  Variable sends_ready : tid -> bool.
  Variable M : mtable.

  Notation state := (@state Local Value).
  Notation rn := (run begin_local rd_eff wr_eff send_val sends_ready).

  (* every thread runs calls of the table *)
  Definition wf_progs (progs : list (list call)) : Prop := Forall (calls_of M) progs.

  Lemma init_inv_locks (l0 : Local) (m0 : loc -> Value) progs :
    locks_ok M = true -> wf_progs progs -> inv (mt_guard M) true (init_state l0 m0 progs).
  Proof.
    intros H Hw. apply init_inv. unfold wf_progs in Hw. rewrite Forall_forall in *.
    intros cs Hin. apply program_dchk_locks; auto.
  Qed.

  Lemma init_inv_full (l0 : Local) (m0 : loc -> Value) progs :
    locks_ok M = true -> params_ok M = true -> wf_progs progs ->
    inv (mt_guard M) false (init_state l0 m0 progs).
  Proof.
    intros H H' Hw. apply init_inv. unfold wf_progs in Hw. rewrite Forall_forall in *.
    intros cs Hin. apply program_dchk_full; auto.
  Qed.

  Lemma init_quiescent (l0 : Local) (m0 : loc -> Value) progs : quiescent (init_state l0 m0 progs).
  Proof.
    intro t. unfold held_of. cbn. destruct (nth_error (map (init_thread l0) progs) t) as [th|] eqn:E; [|reflexivity].
    apply nth_error_In in E. apply in_map_iff in E. destruct E as [cs [<- _]]. reflexivity.
  Qed.

  Theorem mutual_exclusion progs (l0 : Local) (m0 : loc -> Value) sched (s : state) :
    locks_ok M = true -> params_ok M = true -> wf_progs progs ->
    rn (init_state l0 m0 progs) sched = Some s -> ~ race s.
  Proof.
    intros H1 H2 Hw Hr F.
    assert (Hi : inv (mt_guard M) false s)
      by (apply (inv_run _ _ _ _ _ _ _ sched _ s (init_inv_full l0 m0 progs H1 H2 Hw) Hr)).
    destruct (race_only_params _ _ s Hi F) as [X _]. discriminate.
  Qed.

  (* with the lock discipline alone: the only possible races are on caller-owned parameter objects *)
  Theorem mutual_exclusion_fields progs (l0 : Local) (m0 : loc -> Value) sched (s : state) :
    locks_ok M = true -> wf_progs progs ->
    rn (init_state l0 m0 progs) sched = Some s ->
    forall t u o f it iu, t <> u -> next_item s t = Some it -> next_item s u = Some iu ->
      writes_loc it (LF o f) -> accesses_loc iu (LF o f) -> False.
  Proof.
    intros H1 Hw Hr t u o f it iu Htu Hnt Hnu Hwr Hac.
    assert (Hi : inv (mt_guard M) true s)
      by (apply (inv_run _ _ _ _ _ _ _ sched _ s (init_inv_locks l0 m0 progs H1 Hw) Hr)).
    unfold writes_loc in Hwr. subst it.
    destruct (next_item_inv s t _ Hnt) as [tht [rt [Ht Htd]]].
    destruct (next_item_inv s u _ Hnu) as [thu [ru [Hu Hud]]].
    destruct (conflict_only_params _ _ s t u tht thu rt ru (LF o f) iu Hi Htu Ht Htd Hu Hud Hac) as [X _].
    discriminate.
  Qed.

  Theorem no_nested_locks progs (l0 : Local) (m0 : loc -> Value) sched (s : state) :
    locks_ok M = true -> wf_progs progs ->
    rn (init_state l0 m0 progs) sched = Some s -> ~ nested_request s.
  Proof.
    intros H1 Hw Hr F.
    apply (no_nested (mt_guard M) true s); [|exact F].
    apply (inv_run _ _ _ _ _ _ _ sched _ s (init_inv_locks l0 m0 progs H1 Hw) Hr).
  Qed.

  Theorem deadlock_freedom progs (l0 : Local) (m0 : loc -> Value) sched (s : state) :
    locks_ok M = true -> wf_progs progs ->
    (forall t, sends_ready t = true) ->
    rn (init_state l0 m0 progs) sched = Some s ->
    (exists t it, next_item s t = Some it) ->
    can_step begin_local rd_eff wr_eff send_val sends_ready s.
  Proof.
    intros H1 Hw Hs Hr Hex.
    apply (deadlock_free _ _ _ _ _ (mt_guard M) true s); auto.
    apply (inv_run _ _ _ _ _ _ _ sched _ s (init_inv_locks l0 m0 progs H1 Hw) Hr).
  Qed.

  (* from every reachable state the remaining calls can all be completed (no deadlock on the way) *)
  Theorem completion progs (l0 : Local) (m0 : loc -> Value) sched (s : state) :
    locks_ok M = true -> wf_progs progs ->
    (forall t, sends_ready t = true) ->
    rn (init_state l0 m0 progs) sched = Some s ->
    exists sched' s', rn s sched' = Some s' /\ finished s'.
  Proof.
    intros H1 Hw Hs Hr.
    assert (Hi : inv (mt_guard M) true s)
      by (apply (inv_run _ _ _ _ _ _ _ sched _ s (init_inv_locks l0 m0 progs H1 Hw) Hr)).
    destruct (can_complete begin_local rd_eff wr_eff send_val sends_ready (mt_guard M) true _ s eq_refl Hi Hs)
      as [sched' [s' [Ha [Hb _]]]].
    exists sched', s'. auto.
  Qed.

  Theorem options_untouched_dynamic progs (l0 : Local) (m0 : loc -> Value) sched (s : state) :
    locks_ok M = true -> params_ok M = true -> wf_progs progs ->
    rn (init_state l0 m0 progs) sched = Some s ->
    forall o p, mem s (LP o p) = m0 (LP o p).
  Proof.
    intros H1 H2 Hw Hr o p.
    apply (params_frame_run _ _ _ _ _ (mt_guard M) false sched _ s (init_inv_full l0 m0 progs H1 H2 Hw) eq_refl Hr).
  Qed.

  (* the general form: serial part C, then the steps P of the sections that are still open *)
  Theorem linearizable_prefix progs (l0 : Local) (m0 : loc -> Value) tr (s : state) :
    locks_ok M = true -> params_ok M = true -> wf_progs progs ->
    rn (init_state l0 m0 progs) tr = Some s ->
    exists C P sC r,
      rn (init_state l0 m0 progs) C = Some sC /\
      serial begin_local rd_eff wr_eff send_val sends_ready (init_state l0 m0 progs) C /\
      quiescent sC /\
      commits begin_local rd_eff wr_eff send_val sends_ready (init_state l0 m0 progs) C =
      commits begin_local rd_eff wr_eff send_val sends_ready (init_state l0 m0 progs) tr /\
      rn sC P = Some r /\ seq r s /\
      open_run begin_local rd_eff wr_eff send_val sends_ready sC P /\
      Permutation (C ++ P) tr.
  Proof.
    intros H1 H2 Hw Hr.
    apply (reduction _ _ _ _ _ (mt_guard M) tr _ s (init_inv_full l0 m0 progs H1 H2 Hw)
                     (init_quiescent l0 m0 progs) Hr).
  Qed.

  (* complete form: when no section is open at the end (in particular when all threads have finished) the whole
     execution is equivalent to a serial one *)
  Theorem linearizable progs (l0 : Local) (m0 : loc -> Value) tr (s : state) :
    locks_ok M = true -> params_ok M = true -> wf_progs progs ->
    rn (init_state l0 m0 progs) tr = Some s -> quiescent s ->
    exists C r,
      rn (init_state l0 m0 progs) C = Some r /\
      threads r = threads s /\ (forall x, mem r x = mem s x) /\
      serial begin_local rd_eff wr_eff send_val sends_ready (init_state l0 m0 progs) C /\
      commits begin_local rd_eff wr_eff send_val sends_ready (init_state l0 m0 progs) C =
      commits begin_local rd_eff wr_eff send_val sends_ready (init_state l0 m0 progs) tr /\
      Permutation C tr.
  Proof.
    intros H1 H2 Hw Hr Hq.
    destruct (linearizable_prefix progs l0 m0 tr s H1 H2 Hw Hr)
      as [C [P [sC [r [HC [Hser [HqC [Hcm [HP [Hseq [Hop Hperm]]]]]]]]]]].
    destruct P as [|u P].
    - cbn in HP. inversion HP. subst r. exists C, sC. rewrite app_nil_r in Hperm.
      destruct Hseq as [Ha Hb]. auto 10.
    - exfalso. apply (open_run_holds _ _ _ _ _ (u :: P) sC r u Hop HP (or_introl eq_refl)).
      rewrite (held_of_seq r s u Hseq). apply Hq.
  Qed.

  (* what "serial" gives: whenever a thread takes a step, every other thread is outside its critical sections; so a
     lookup's reads are never taken between two writes of one AddTriples section *)
  Theorem serial_no_partial_section (s0 : state) C1 t C2 s1 :
    serial begin_local rd_eff wr_eff send_val sends_ready s0 (C1 ++ t :: C2) ->
    rn s0 C1 = Some s1 -> forall u, u <> t -> held_of s1 u = [].
  Proof.
    intros H Hr u Hu. apply (serial_app _ _ _ _ _ C1 (t :: C2) s0 s1 Hr) in H. destruct H as [_ H].
    cbn in H. destruct H as [H _]. apply H. exact Hu.
  Qed.

End Top.

(* ------------------------------------------------------------------ static statements *)
Theorem close_once_static (M : mtable) :
  close_ok M = true ->
  forall m p acts, In m (mt_methods M) -> (In p (m_paths m) \/ unf (m_body m) p true) -> run_path p = Some acts ->
    if m_chan m then
      (In (ChanNil true) acts /\ count_close acts = 0 /\ ~ In Send acts) \/
      (~ In (ChanNil true) acts /\ count_close acts = 1 /\ no_send_after_close acts)
    else count_close acts = 0 /\ ~ In Send acts.
Proof.
  intros H0 m p acts Hm Hp Hr. pose proof (close_ok_path M m p H0 Hm Hp) as H. destruct (m_chan m).
  - apply (path_close_ok_sound p acts H Hr).
  - unfold path_close_ok in H. rewrite Hr in H. apply negb_true_iff in H.
    assert (Hn : forall a, In a acts -> is_chanop a = false).
    { intros a Ha. destruct (is_chanop a) eqn:E; [|reflexivity].
      assert (existsb is_chanop acts = true) by (apply existsb_exists; exists a; auto). congruence. }
    split.
    + unfold count_close. clear -Hn. induction acts as [|a acts IH]; [reflexivity|]. cbn.
      assert (Ha := Hn a (or_introl eq_refl)). destruct a; try discriminate; cbn; apply IH; intros; apply Hn; right; auto.
    + intro F. specialize (Hn Send F). discriminate.
Qed.

(* the same in terms of what a thread executes for the call: exactly one close item *)
Definition count_aclose (l : list item) : nat :=
  List.length (filter (fun it => match it with IAct AClose => true | _ => false end) l).

Lemma count_aclose_inst recv arg acts :
  count_aclose (map (fun a => IAct (inst_act recv arg a)) acts) = count_close acts.
Proof.
  unfold count_aclose, count_close. induction acts as [|a acts IH]; [reflexivity|].
  cbn. destruct a; cbn; auto.
Qed.

Theorem close_once_call (M : mtable) :
  close_ok M = true ->
  forall m c acts, In m (mt_methods M) -> m_chan m = true ->
    (In (c_path c) (m_paths m) \/ unf (m_body m) (c_path c) true) ->
    run_path (c_path c) = Some acts -> ~ In (ChanNil true) acts ->
    count_aclose (call_items c) = 1.
Proof.
  intros H m c acts Hm Hch Hp Hr Hnn.
  pose proof (close_once_static M H m (c_path c) acts Hm Hp Hr) as Hc. rewrite Hch in Hc.
  destruct Hc as [[F _]|[_ [Hc _]]]; [contradiction|].
  unfold call_items. rewrite Hr. unfold count_aclose. cbn. rewrite filter_app, app_length. cbn.
  fold (count_aclose (map (fun a => IAct (inst_act (c_recv c) (c_arg c) a)) acts)).
  rewrite count_aclose_inst, Hc. reflexivity.
Qed.

Theorem options_untouched_static (M : mtable) :
  params_ok M = true ->
  forall p acts, path_in M p -> run_path p = Some acts -> forall q, ~ In (WrParam q) acts.
Proof.
  intros H p acts Hp Hr q F. pose proof (params_ok_path M p H Hp) as Hk.
  unfold path_params_ok in Hk. rewrite Hr in Hk. apply negb_true_iff in Hk.
  assert (existsb is_wrparam acts = true) by (apply existsb_exists; exists (WrParam q); auto). congruence.
Qed.

Lemma discipline_ok_parts M : discipline_ok M = true -> locks_ok M = true /\ close_ok M = true /\ params_ok M = true.
Proof. unfold discipline_ok. rewrite !andb_true_iff. tauto. Qed.
