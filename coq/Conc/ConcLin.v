(* ConcLin.v — Lipton-style reduction: every interleaved execution of disciplined threads is equivalent to a
   serial one (critical sections executed one at a time) that keeps the order of all commit events. *)
From Coq Require Import List Bool Arith PeanoNat Lia Permutation.
Import ListNotations.
From BWConc Require Import Conc ConcStatic ConcInv.

Section Lin.
  Context {Local Value : Type}.
  Variable begin_local : nat -> Local.
  Variable rd_eff : Local -> loc -> Value -> Local.
  Variable wr_eff : Local -> loc -> Value * Local.
  Variable send_val : Local -> Value.
  Variable sends_ready : tid -> bool.
  Variable g : list (fieldid * option lockid).

  Notation thread := (@thread Local Value).
  Notation state := (@state Local Value).
  Notation stp := (step begin_local rd_eff wr_eff send_val sends_ready).
  Notation rn := (run begin_local rd_eff wr_eff send_val sends_ready).
  Notation exi := (exec_item begin_local rd_eff wr_eff send_val sends_ready).
  Notation inv := (@inv Local Value g false).
  Notation srl := (serial begin_local rd_eff wr_eff send_val sends_ready).
  Notation cmts := (commits begin_local rd_eff wr_eff send_val sends_ready).

  (* ---------------------------------------------------------------- frame *)
  Lemma step_frame (s : state) u s1 t :
    stp s u = Some s1 -> t <> u -> nth_error (threads s1) t = nth_error (threads s) t.
  Proof.
    intros H Hn. destruct (step_inv _ _ _ _ _ _ _ _ H) as [th [it [rest [th' [w [_ [_ [_ ->]]]]]]]].
    cbn. apply nth_error_set_nth_neq. auto.
  Qed.

  Lemma run_frame P : forall (s r : state) t,
    rn s P = Some r -> ~ In t P -> nth_error (threads r) t = nth_error (threads s) t.
  Proof.
    induction P as [|u P IH]; intros s r t H Hn; cbn in H.
    - inversion H. reflexivity.
    - destruct (stp s u) as [s1|] eqn:E; [|discriminate].
      rewrite (IH s1 r t H) by (intro F; apply Hn; right; exact F).
      apply (step_frame s u s1 t E). intro F. apply Hn. left. auto.
  Qed.

  Lemma next_item_nth (s s' : state) t :
    nth_error (threads s') t = nth_error (threads s) t -> next_item s' t = next_item s t.
  Proof. unfold next_item. intros ->. reflexivity. Qed.

  Lemma held_of_nth (s s' : state) t :
    nth_error (threads s') t = nth_error (threads s) t -> held_of s' t = held_of s t.
  Proof. unfold held_of. intros ->. reflexivity. Qed.

  (* ---------------------------------------------------------------- state equivalence *)
  Lemma seq_refl (s : state) : seq s s.
  Proof. split; auto. Qed.

  Lemma seq_sym (s s' : state) : seq s s' -> seq s' s.
  Proof. intros [H1 H2]. split; auto. Qed.

  Lemma seq_trans (a b c : state) : seq a b -> seq b c -> seq a c.
  Proof. intros [H1 H2] [H3 H4]. split; [congruence|]. intro x. rewrite H2. apply H4. Qed.

  Lemma exec_item_ext ths ths' (m m' : loc -> Value) t (th : thread) it rest :
    (forall l md, it = IAct (AAcq l md) -> compat_all l md ths = compat_all l md ths') ->
    (forall x, it = IAct (ARd x) -> m x = m' x) ->
    exi ths m t th it rest = exi ths' m' t th it rest.
  Proof.
    intros Ha Hr. destruct it as [tag|[l md|l md|x|x| | |]|]; cbn; try reflexivity.
    - rewrite (Ha l md eq_refl). reflexivity.
    - rewrite (Hr x eq_refl). reflexivity.
  Qed.

  Lemma apply_w_ext w (m m' : loc -> Value) :
    (forall x, m x = m' x) -> forall x, apply_w w m x = apply_w w m' x.
  Proof.
    intros H x. destruct w as [[y v]|]; cbn; [|apply H]. unfold upd. destruct (loc_eqb y x); auto.
  Qed.

  Lemma step_seq (s s' : state) t s1 :
    seq s s' -> stp s t = Some s1 -> exists s1', stp s' t = Some s1' /\ seq s1 s1'.
  Proof.
    intros [Ht Hm] H. destruct (step_inv _ _ _ _ _ _ _ _ H) as [th [it [rest [th' [w [Hn [Htd [He ->]]]]]]]].
    rewrite (exec_item_ext (threads s) (threads s') (mem s) (mem s') t th it rest) in He.
    - eexists. split.
      + apply (step_intro _ _ _ _ _ s' t th it rest th' w); [rewrite <- Ht; exact Hn|exact Htd|exact He].
      + split; cbn; [rewrite Ht; reflexivity|]. apply apply_w_ext. exact Hm.
    - intros. rewrite Ht. reflexivity.
    - intros. apply Hm.
  Qed.

  Lemma run_seq P : forall (s s' r : state),
    seq s s' -> rn s P = Some r -> exists r', rn s' P = Some r' /\ seq r r'.
  Proof.
    induction P as [|t P IH]; intros s s' r Hs H; cbn in H.
    - inversion H. subst. exists s'. split; [reflexivity|exact Hs].
    - destruct (stp s t) as [s1|] eqn:E; [|discriminate].
      destruct (step_seq s s' t s1 Hs E) as [s1' [E' Hs1]].
      destruct (IH s1 s1' r Hs1 H) as [r' [Hr Hrr]]. exists r'. cbn. rewrite E'. auto.
  Qed.

  Lemma next_item_seq (s s' : state) t : seq s s' -> next_item s t = next_item s' t.
  Proof. intros [H _]. unfold next_item. rewrite H. reflexivity. Qed.

  Lemma held_of_seq (s s' : state) t : seq s s' -> held_of s t = held_of s' t.
  Proof. intros [H _]. unfold held_of. rewrite H. reflexivity. Qed.

  Lemma inv_seq (s s' : state) : seq s s' -> inv s -> inv s'.
  Proof. intros [H _] [H1 H2]. split; rewrite <- H; auto. Qed.

  (* ---------------------------------------------------------------- item classes *)
  Definition is_rel_item (it : item) : bool := match it with IAct (ARel _ _) => true | _ => false end.
  Definition is_acq_item (it : item) : bool := match it with IAct (AAcq _ _) => true | _ => false end.

  (* compat_all after replacing one thread record *)
  Lemma compat_all_set_nth l md (ths : list thread) u (thu thu' : thread) :
    nth_error ths u = Some thu ->
    compat_all l md (set_nth u thu' ths) = true ->
    (forall e, In e (held thu) -> In e (held thu')) ->
    compat_all l md ths = true.
  Proof.
    revert u. induction ths as [|a ths IH]; intros [|u] Hn H Hsub; cbn in *; try discriminate.
    - inversion Hn. subst a. apply andb_true_iff in H. destruct H as [H1 H2].
      apply andb_true_iff. split; [|exact H2]. apply forallb_forall. intros e He.
      rewrite forallb_forall in H1. apply H1. apply Hsub. exact He.
    - apply andb_true_iff in H. destruct H as [H1 H2]. apply andb_true_iff. split; [exact H1|].
      apply (IH u); auto.
  Qed.

  Lemma compat_all_set_nth_intro l md (ths : list thread) u (thu' : thread) :
    compat_all l md ths = true ->
    forallb (entry_compat l md) (held thu') = true ->
    compat_all l md (set_nth u thu' ths) = true.
  Proof.
    revert u. induction ths as [|a ths IH]; intros [|u] H Hn; cbn in *; auto.
    - apply andb_true_iff in H. destruct H as [H1 H2]. apply andb_true_iff. split; auto.
    - apply andb_true_iff in H. destruct H as [H1 H2]. apply andb_true_iff. split; [exact H1|].
      apply (IH u); auto.
  Qed.

  Lemma entry_compat_sym l md l' md' : entry_compat l md (l', md') = entry_compat l' md' (l, md).
  Proof.
    unfold entry_compat. cbn. rewrite (rtlock_eqb_sym l l'). destruct (rtlock_eqb l' l); [|reflexivity].
    destruct md, md'; reflexivity.
  Qed.

  Lemma held_after_sub it h h' :
    held_after it h = Some h' -> is_acq_item it = false -> forall e, In e h' -> In e h.
  Proof.
    destruct it as [tag|[l md|l md|x|x| | |]|]; cbn; intros H Ha e He; try discriminate;
      try (inversion H; subst; exact He).
    apply (remove_one_incl _ _ _ H). exact He.
  Qed.

  Lemma held_after_sup it h h' :
    held_after it h = Some h' -> is_rel_item it = false -> forall e, In e h -> In e h'.
  Proof.
    destruct it as [tag|[l md|l md|x|x| | |]|]; cbn; intros H Ha e He; try discriminate;
      try (inversion H; subst; try right; exact He).
  Qed.

  (* ---------------------------------------------------------------- the swap lemma *)
  (* two adjacent steps of different threads commute, unless the first is a release and the second an acquire *)
  Lemma swap (s : state) u t s1 s2 iu it :
    inv s -> t <> u ->
    next_item s u = Some iu -> next_item s t = Some it ->
    stp s u = Some s1 -> stp s1 t = Some s2 ->
    (is_rel_item iu = false \/ is_acq_item it = false) ->
    exists s1' s2', stp s t = Some s1' /\ stp s1' u = Some s2' /\ seq s2' s2.
  Proof.
    intros Hi Htu Hnu Hnt Hu Ht Hcond.
    destruct (step_inv _ _ _ _ _ _ _ _ Hu) as [thu [iu' [ru [thu' [wu [Hnthu [Htdu [Heu ->]]]]]]]].
    assert (iu' = iu) by (unfold next_item in Hnu; rewrite Hnthu, Htdu in Hnu; inversion Hnu; reflexivity).
    subst iu'.
    destruct (step_inv _ _ _ _ _ _ _ _ Ht) as [tht [it' [rt [tht' [wt [Hntht [Htdt [Het ->]]]]]]]].
    cbn [threads mem] in *.
    rewrite nth_error_set_nth_neq in Hntht by auto.
    assert (it' = it) by (unfold next_item in Hnt; rewrite Hntht, Htdt in Hnt; inversion Hnt; reflexivity).
    subst it'.
    pose proof (exec_item_held _ _ _ _ _ _ _ _ _ _ _ _ _ Heu) as Hhu.
    pose proof (exec_item_held _ _ _ _ _ _ _ _ _ _ _ _ _ Het) as Hht.
    pose proof (exec_item_write _ _ _ _ _ _ _ _ _ _ _ _ _ Heu) as Hwu.
    pose proof (exec_item_write _ _ _ _ _ _ _ _ _ _ _ _ _ Het) as Hwt.
    (* no conflicting accesses *)
    assert (Hnc1 : forall x, iu = IAct (AWr x) -> it <> IAct (ARd x) /\ it <> IAct (AWr x)).
    { intros x -> . split; intro F; subst it;
        destruct (conflict_only_params g false s u t thu tht ru rt x _ Hi (not_eq_sym Htu) Hnthu Htdu Hntht Htdt)
          as [_ F']; auto; discriminate. }
    assert (Hnc2 : forall x, it = IAct (AWr x) -> iu <> IAct (ARd x)).
    { intros x -> F. subst iu.
      destruct (conflict_only_params g false s t u tht thu rt ru x _ Hi Htu Hntht Htdt Hnthu Htdu)
        as [_ F']; auto; discriminate. }
    (* t's step is enabled in s with the same effect *)
    assert (Het0 : exi (threads s) (mem s) t tht it rt = Some (tht', wt)).
    { rewrite <- Het. apply exec_item_ext.
      - intros l md ->. pose proof (exec_item_acq _ _ _ _ _ _ _ _ _ _ _ _ _ _ Het) as Hc.
        rewrite Hc. destruct Hcond as [Hcond|Hcond]; [|discriminate].
        apply (compat_all_set_nth l md (threads s) u thu thu' Hnthu Hc).
        apply (held_after_sup iu _ _ Hhu Hcond).
      - intros x ->. destruct wu as [[y v]|]; [|reflexivity]. cbn. unfold upd.
        destruct (loc_eqb y x) eqn:E; [|reflexivity]. apply loc_eqb_eq in E. subst y.
        destruct iu as [tag|[l md|l md|x'|x'| | |]|]; cbn in Hwu; try discriminate.
        destruct Hwu as [v' Hv]. inversion Hv. subst x'.
        destruct (Hnc1 x eq_refl) as [F _]. exfalso. apply F. reflexivity. }
    (* u's step is enabled after t's, with the same effect *)
    assert (Heu1 : exi (set_nth t tht' (threads s)) (apply_w wt (mem s)) u thu iu ru = Some (thu', wu)).
    { rewrite <- Heu. apply exec_item_ext.
      - intros l md ->. pose proof (exec_item_acq _ _ _ _ _ _ _ _ _ _ _ _ _ _ Heu) as Hc. rewrite Hc.
        apply compat_all_set_nth_intro; [exact Hc|]. apply forallb_forall. intros e He.
        destruct (is_acq_item it) eqn:Ea.
        + destruct it as [tag|[l2 md2|l2 md2|x|x| | |]|]; try discriminate. cbn in Hht. inversion Hht as [Hh'].
          rewrite <- Hh' in He. destruct He as [<-|He].
          * (* t's new entry: t's acquire was compatible with u's new entry *)
            pose proof (exec_item_acq _ _ _ _ _ _ _ _ _ _ _ _ _ _ Het) as Hc2.
            assert (Hin : In (l, md) (held thu')) by (cbn in Hhu; inversion Hhu; left; reflexivity).
            pose proof (compat_all_entry l2 md2 (set_nth u thu' (threads s)) u thu' (l, md) Hc2
                          (nth_error_set_nth_eq _ _ _ _ Hnthu) Hin) as Hec.
            rewrite entry_compat_sym. exact Hec.
          * apply (compat_all_entry l md (threads s) t tht e Hc Hntht He).
        + apply (compat_all_entry l md (threads s) t tht e Hc Hntht).
          apply (held_after_sub it _ _ Hht Ea). exact He.
      - intros x ->. destruct wt as [[y v]|]; [|reflexivity]. cbn. unfold upd.
        destruct (loc_eqb y x) eqn:E; [|reflexivity]. apply loc_eqb_eq in E. subst y.
        destruct it as [tag|[l md|l md|x'|x'| | |]|]; cbn in Hwt; try discriminate.
        destruct Hwt as [v' Hv]. inversion Hv. subst x'.
        exfalso. apply (Hnc2 x eq_refl). reflexivity. }
    eexists. eexists. split; [|split].
    - apply (step_intro _ _ _ _ _ s t tht it rt tht' wt); auto.
    - apply (step_intro _ _ _ _ _ _ u thu iu ru thu' wu); cbn [threads mem].
      + rewrite nth_error_set_nth_neq by auto. exact Hnthu.
      + exact Htdu.
      + exact Heu1.
    - split; cbn [threads mem].
      + apply set_nth_comm. auto.
      + intro x. destruct wu as [[y v]|], wt as [[y' v']|]; cbn; try reflexivity.
        unfold upd. destruct (loc_eqb y x) eqn:E1, (loc_eqb y' x) eqn:E2; try reflexivity.
        apply loc_eqb_eq in E1. apply loc_eqb_eq in E2. subst y y'.
        destruct iu as [tag|[l md|l md|x'|x'| | |]|]; cbn in Hwu; try discriminate.
        destruct Hwu as [v1 Hv1]. inversion Hv1. subst x'.
        destruct it as [tag|[l md|l md|x'|x'| | |]|]; cbn in Hwt; try discriminate.
        destruct Hwt as [v2 Hv2]. inversion Hv2. subst x'.
        destruct (Hnc1 x eq_refl) as [_ F]. exfalso. apply F. reflexivity.
  Qed.

End Lin.
