(* ConcLin.v — Lipton-style reduction: every interleaved execution of disciplined threads is equivalent to a
   serial one (critical sections executed one at a time) that keeps the order of all commit events. *)
From Coq Require Import List Bool Arith PeanoNat Lia Permutation.
Import ListNotations.
From BWConc Require Import Conc ConcStatic ConcInv.

Section Lin.
  Context {Local Value : Type}.
  Variable begin_local : nat -> Local.
  Variable rd_eff : Local -> loc -> Value -> Local.
  Variable wr_eff : Local -> loc -> Value * Local.
  Variable send_val : Local -> Value.
  Variable sends_ready : tid -> bool.
  Variable g : list (fieldid * option lockid).

  Notation thread := (@thread Local Value).
  Notation state := (@state Local Value).
  Notation stp := (step begin_local rd_eff wr_eff send_val sends_ready).
  Notation rn := (run begin_local rd_eff wr_eff send_val sends_ready).
  Notation exi := (exec_item begin_local rd_eff wr_eff send_val sends_ready).
  Notation inv := (@inv Local Value g false).
  Notation srl := (serial begin_local rd_eff wr_eff send_val sends_ready).
  Notation cmts := (commits begin_local rd_eff wr_eff send_val sends_ready).

  (* ---------------------------------------------------------------- frame *)
  Lemma step_frame (s : state) u s1 t :
    stp s u = Some s1 -> t <> u -> nth_error (threads s1) t = nth_error (threads s) t.
  Proof.
    intros H Hn. destruct (step_inv _ _ _ _ _ _ _ _ H) as [th [it [rest [th' [w [_ [_ [_ ->]]]]]]]].
    cbn. apply nth_error_set_nth_neq. auto.
  Qed.

  Lemma run_frame P : forall (s r : state) t,
    rn s P = Some r -> ~ In t P -> nth_error (threads r) t = nth_error (threads s) t.
  Proof.
    induction P as [|u P IH]; intros s r t H Hn; cbn in H.
    - inversion H. reflexivity.
    - destruct (stp s u) as [s1|] eqn:E; [|discriminate].
      rewrite (IH s1 r t H) by (intro F; apply Hn; right; exact F).
      apply (step_frame s u s1 t E). intro F. apply Hn. left. auto.
  Qed.

  Lemma next_item_nth (s s' : state) t :
    nth_error (threads s') t = nth_error (threads s) t -> next_item s' t = next_item s t.
  Proof. unfold next_item. intros ->. reflexivity. Qed.

  Lemma held_of_nth (s s' : state) t :
    nth_error (threads s') t = nth_error (threads s) t -> held_of s' t = held_of s t.
  Proof. unfold held_of. intros ->. reflexivity. Qed.

  (* ---------------------------------------------------------------- state equivalence *)
  Lemma seq_refl (s : state) : seq s s.
  Proof. split; auto. Qed.

  Lemma seq_sym (s s' : state) : seq s s' -> seq s' s.
  Proof. intros [H1 H2]. split; auto. Qed.

  Lemma seq_trans (a b c : state) : seq a b -> seq b c -> seq a c.
  Proof. intros [H1 H2] [H3 H4]. split; [congruence|]. intro x. rewrite H2. apply H4. Qed.

  Lemma exec_item_ext ths ths' (m m' : loc -> Value) t (th : thread) it rest :
    (forall l md, it = IAct (AAcq l md) -> compat_all l md ths = compat_all l md ths') ->
    (forall x, it = IAct (ARd x) -> m x = m' x) ->
    exi ths m t th it rest = exi ths' m' t th it rest.
  Proof.
    intros Ha Hr. destruct it as [tag|[l md|l md|x|x| | |]|]; cbn; try reflexivity.
    - rewrite (Ha l md eq_refl). reflexivity.
    - rewrite (Hr x eq_refl). reflexivity.
  Qed.

  Lemma apply_w_ext w (m m' : loc -> Value) :
    (forall x, m x = m' x) -> forall x, apply_w w m x = apply_w w m' x.
  Proof.
    intros H x. destruct w as [[y v]|]; cbn; [|apply H]. unfold upd. destruct (loc_eqb y x); auto.
  Qed.

  Lemma step_seq (s s' : state) t s1 :
    seq s s' -> stp s t = Some s1 -> exists s1', stp s' t = Some s1' /\ seq s1 s1'.
  Proof.
    intros [Ht Hm] H. destruct (step_inv _ _ _ _ _ _ _ _ H) as [th [it [rest [th' [w [Hn [Htd [He ->]]]]]]]].
    rewrite (exec_item_ext (threads s) (threads s') (mem s) (mem s') t th it rest) in He.
    - eexists. split.
      + apply (step_intro _ _ _ _ _ s' t th it rest th' w); [rewrite <- Ht; exact Hn|exact Htd|exact He].
      + split; cbn; [rewrite Ht; reflexivity|]. apply apply_w_ext. exact Hm.
    - intros. rewrite Ht. reflexivity.
    - intros. apply Hm.
  Qed.

  Lemma run_seq P : forall (s s' r : state),
    seq s s' -> rn s P = Some r -> exists r', rn s' P = Some r' /\ seq r r'.
  Proof.
    induction P as [|t P IH]; intros s s' r Hs H; cbn in H.
    - inversion H. subst. exists s'. split; [reflexivity|exact Hs].
    - destruct (stp s t) as [s1|] eqn:E; [|discriminate].
      destruct (step_seq s s' t s1 Hs E) as [s1' [E' Hs1]].
      destruct (IH s1 s1' r Hs1 H) as [r' [Hr Hrr]]. exists r'. cbn. rewrite E'. auto.
  Qed.

  Lemma next_item_seq (s s' : state) t : seq s s' -> next_item s t = next_item s' t.
  Proof. intros [H _]. unfold next_item. rewrite H. reflexivity. Qed.

  Lemma held_of_seq (s s' : state) t : seq s s' -> held_of s t = held_of s' t.
  Proof. intros [H _]. unfold held_of. rewrite H. reflexivity. Qed.

  Lemma inv_seq (s s' : state) : seq s s' -> inv s -> inv s'.
  Proof. intros [H _] [H1 H2]. split; rewrite <- H; auto. Qed.

  (* ---------------------------------------------------------------- item classes *)
  Definition is_rel_item (it : item) : bool := match it with IAct (ARel _ _) => true | _ => false end.
  Definition is_acq_item (it : item) : bool := match it with IAct (AAcq _ _) => true | _ => false end.

  (* compat_all after replacing one thread record *)
  Lemma compat_all_set_nth l md (ths : list thread) u (thu thu' : thread) :
    nth_error ths u = Some thu ->
    compat_all l md (set_nth u thu' ths) = true ->
    (forall e, In e (held thu) -> In e (held thu')) ->
    compat_all l md ths = true.
  Proof.
    revert u. induction ths as [|a ths IH]; intros [|u] Hn H Hsub; cbn in *; try discriminate.
    - inversion Hn. subst a. apply andb_true_iff in H. destruct H as [H1 H2].
      apply andb_true_iff. split; [|exact H2]. apply forallb_forall. intros e He.
      rewrite forallb_forall in H1. apply H1. apply Hsub. exact He.
    - apply andb_true_iff in H. destruct H as [H1 H2]. apply andb_true_iff. split; [exact H1|].
      apply (IH u); auto.
  Qed.

  Lemma compat_all_set_nth_intro l md (ths : list thread) u (thu' : thread) :
    compat_all l md ths = true ->
    forallb (entry_compat l md) (held thu') = true ->
    compat_all l md (set_nth u thu' ths) = true.
  Proof.
    revert u. induction ths as [|a ths IH]; intros [|u] H Hn; cbn in *; auto.
    - apply andb_true_iff in H. destruct H as [H1 H2]. apply andb_true_iff. split; auto.
    - apply andb_true_iff in H. destruct H as [H1 H2]. apply andb_true_iff. split; [exact H1|].
      apply (IH u); auto.
  Qed.

  Lemma entry_compat_sym l md l' md' : entry_compat l md (l', md') = entry_compat l' md' (l, md).
  Proof.
    unfold entry_compat. cbn. rewrite (rtlock_eqb_sym l l'). destruct (rtlock_eqb l' l); [|reflexivity].
    destruct md, md'; reflexivity.
  Qed.

  Lemma held_after_sub it h h' :
    held_after it h = Some h' -> is_acq_item it = false -> forall e, In e h' -> In e h.
  Proof.
    destruct it as [tag|[l md|l md|x|x| | |]|]; cbn; intros H Ha e He; try discriminate;
      try (inversion H; subst; exact He).
    apply (remove_one_incl _ _ _ H). exact He.
  Qed.

  Lemma held_after_sup it h h' :
    held_after it h = Some h' -> is_rel_item it = false -> forall e, In e h -> In e h'.
  Proof.
    destruct it as [tag|[l md|l md|x|x| | |]|]; cbn; intros H Ha e He; try discriminate;
      try (inversion H; subst; try right; exact He).
  Qed.

  (* ---------------------------------------------------------------- the swap lemma *)
  (* two adjacent steps of different threads commute, unless the first is a release and the second an acquire *)
  Lemma swap (s : state) u t s1 s2 iu it :
    inv s -> t <> u ->
    next_item s u = Some iu -> next_item s t = Some it ->
    stp s u = Some s1 -> stp s1 t = Some s2 ->
    (is_rel_item iu = false \/ is_acq_item it = false) ->
    exists s1' s2', stp s t = Some s1' /\ stp s1' u = Some s2' /\ seq s2' s2.
  Proof.
    intros Hi Htu Hnu Hnt Hu Ht Hcond.
    destruct (step_inv _ _ _ _ _ _ _ _ Hu) as [thu [iu' [ru [thu' [wu [Hnthu [Htdu [Heu ->]]]]]]]].
    assert (iu' = iu) by (unfold next_item in Hnu; rewrite Hnthu, Htdu in Hnu; inversion Hnu; reflexivity).
    subst iu'.
    destruct (step_inv _ _ _ _ _ _ _ _ Ht) as [tht [it' [rt [tht' [wt [Hntht [Htdt [Het ->]]]]]]]].
    cbn [threads mem] in *.
    rewrite nth_error_set_nth_neq in Hntht by auto.
    assert (it' = it) by (unfold next_item in Hnt; rewrite Hntht, Htdt in Hnt; inversion Hnt; reflexivity).
    subst it'.
    pose proof (exec_item_held _ _ _ _ _ _ _ _ _ _ _ _ _ Heu) as Hhu.
    pose proof (exec_item_held _ _ _ _ _ _ _ _ _ _ _ _ _ Het) as Hht.
    pose proof (exec_item_write _ _ _ _ _ _ _ _ _ _ _ _ _ Heu) as Hwu.
    pose proof (exec_item_write _ _ _ _ _ _ _ _ _ _ _ _ _ Het) as Hwt.
    (* no conflicting accesses *)
    assert (Hnc1 : forall x, iu = IAct (AWr x) -> it <> IAct (ARd x) /\ it <> IAct (AWr x)).
    { intros x -> . split; intro F; subst it;
        destruct (conflict_only_params g false s u t thu tht ru rt x _ Hi (not_eq_sym Htu) Hnthu Htdu Hntht Htdt)
          as [_ F']; auto; discriminate. }
    assert (Hnc2 : forall x, it = IAct (AWr x) -> iu <> IAct (ARd x)).
    { intros x -> F. subst iu.
      destruct (conflict_only_params g false s t u tht thu rt ru x _ Hi Htu Hntht Htdt Hnthu Htdu)
        as [_ F']; auto; discriminate. }
    (* t's step is enabled in s with the same effect *)
    assert (Het0 : exi (threads s) (mem s) t tht it rt = Some (tht', wt)).
    { rewrite <- Het. apply exec_item_ext.
      - intros l md ->. pose proof (exec_item_acq _ _ _ _ _ _ _ _ _ _ _ _ _ _ Het) as Hc.
        rewrite Hc. destruct Hcond as [Hcond|Hcond]; [|discriminate].
        apply (compat_all_set_nth l md (threads s) u thu thu' Hnthu Hc).
        apply (held_after_sup iu _ _ Hhu Hcond).
      - intros x ->. destruct wu as [[y v]|]; [|reflexivity]. cbn. unfold upd.
        destruct (loc_eqb y x) eqn:E; [|reflexivity]. apply loc_eqb_eq in E. subst y.
        destruct iu as [tag|[l md|l md|x'|x'| | |]|]; cbn in Hwu; try discriminate.
        destruct Hwu as [v' Hv]. inversion Hv. subst x'.
        destruct (Hnc1 x eq_refl) as [F _]. exfalso. apply F. reflexivity. }
    (* u's step is enabled after t's, with the same effect *)
    assert (Heu1 : exi (set_nth t tht' (threads s)) (apply_w wt (mem s)) u thu iu ru = Some (thu', wu)).
    { rewrite <- Heu. apply exec_item_ext.
      - intros l md ->. pose proof (exec_item_acq _ _ _ _ _ _ _ _ _ _ _ _ _ _ Heu) as Hc. rewrite Hc.
        apply compat_all_set_nth_intro; [exact Hc|]. apply forallb_forall. intros e He.
        destruct (is_acq_item it) eqn:Ea.
        + destruct it as [tag|[l2 md2|l2 md2|x|x| | |]|]; try discriminate. cbn in Hht. inversion Hht as [Hh'].
          rewrite <- Hh' in He. destruct He as [<-|He].
          * (* t's new entry: t's acquire was compatible with u's new entry *)
            pose proof (exec_item_acq _ _ _ _ _ _ _ _ _ _ _ _ _ _ Het) as Hc2.
            assert (Hin : In (l, md) (held thu')) by (cbn in Hhu; inversion Hhu; left; reflexivity).
            pose proof (compat_all_entry l2 md2 (set_nth u thu' (threads s)) u thu' (l, md) Hc2
                          (nth_error_set_nth_eq _ _ _ _ Hnthu) Hin) as Hec.
            rewrite entry_compat_sym. exact Hec.
          * apply (compat_all_entry l md (threads s) t tht e Hc Hntht He).
        + apply (compat_all_entry l md (threads s) t tht e Hc Hntht).
          apply (held_after_sub it _ _ Hht Ea). exact He.
      - intros x ->. destruct wt as [[y v]|]; [|reflexivity]. cbn. unfold upd.
        destruct (loc_eqb y x) eqn:E; [|reflexivity]. apply loc_eqb_eq in E. subst y.
        destruct it as [tag|[l md|l md|x'|x'| | |]|]; cbn in Hwt; try discriminate.
        destruct Hwt as [v' Hv]. inversion Hv. subst x'.
        exfalso. apply (Hnc2 x eq_refl). reflexivity. }
    eexists. eexists. split; [|split].
    - apply (step_intro _ _ _ _ _ s t tht it rt tht' wt); auto.
    - apply (step_intro _ _ _ _ _ _ u thu iu ru thu' wu); cbn [threads mem].
      + rewrite nth_error_set_nth_neq by auto. exact Hnthu.
      + exact Htdu.
      + exact Heu1.
    - split; cbn [threads mem].
      + apply set_nth_comm. auto.
      + intro x. destruct wu as [[y v]|], wt as [[y' v']|]; cbn; try reflexivity.
        unfold upd. destruct (loc_eqb y x) eqn:E1, (loc_eqb y' x) eqn:E2; try reflexivity.
        apply loc_eqb_eq in E1. apply loc_eqb_eq in E2. subst y y'.
        destruct iu as [tag|[l md|l md|x'|x'| | |]|]; cbn in Hwu; try discriminate.
        destruct Hwu as [v1 Hv1]. inversion Hv1. subst x'.
        destruct it as [tag|[l md|l md|x'|x'| | |]|]; cbn in Hwt; try discriminate.
        destruct Hwt as [v2 Hv2]. inversion Hv2. subst x'.
        destruct (Hnc1 x eq_refl) as [_ F]. exfalso. apply F. reflexivity.
  Qed.

  (* ---------------------------------------------------------------- schedules of open sections *)
  (* every step is not a release and leaves its thread holding a lock: steps of critical sections that are
     still open at the end *)
  Fixpoint open_run (s : state) (P : list tid) : Prop :=
    match P with
    | [] => True
    | u :: P' =>
        match stp s u, next_item s u with
        | Some s1, Some iu => is_rel_item iu = false /\ held_of s1 u <> [] /\ open_run s1 P'
        | _, _ => False
        end
    end.

  Lemma open_run_seq P : forall (s s' : state), seq s s' -> open_run s P -> open_run s' P.
  Proof.
    induction P as [|u P IH]; intros s s' Hs H; cbn in *; [exact I|].
    destruct (stp s u) as [s1|] eqn:E; [|contradiction].
    destruct (step_seq s s' u s1 Hs E) as [s1' [E' Hs1]]. rewrite E'.
    rewrite <- (next_item_seq s s' u Hs). destruct (next_item s u) as [iu|]; [|contradiction].
    destruct H as [H1 [H2 H3]]. split; [exact H1|]. split.
    - rewrite <- (held_of_seq s1 s1' u Hs1). exact H2.
    - apply (IH s1 s1'); auto.
  Qed.

  Lemma run_app P Q : forall (s : state),
    rn s (P ++ Q) = match rn s P with Some r => rn r Q | None => None end.
  Proof.
    induction P as [|u P IH]; intros s; cbn; [reflexivity|].
    destruct (stp s u) as [s1|]; [apply IH|reflexivity].
  Qed.

  Lemma open_run_app P Q : forall (s r : state),
    rn s P = Some r -> (open_run s (P ++ Q) <-> open_run s P /\ open_run r Q).
  Proof.
    induction P as [|u P IH]; intros s r H; cbn in *.
    - inversion H. subst. tauto.
    - destruct (stp s u) as [s1|] eqn:E; [|discriminate].
      destruct (next_item s u) as [iu|]; [|tauto].
      specialize (IH s1 r H). tauto.
  Qed.

  Lemma open_run_runs P : forall (s : state), open_run s P -> exists r, rn s P = Some r.
  Proof.
    induction P as [|u P IH]; intros s H; cbn in *; [eauto|].
    destruct (stp s u) as [s1|]; [|contradiction]. destruct (next_item s u); [|contradiction].
    apply IH. apply H.
  Qed.

  (* threads that step in an open schedule hold a lock at its end *)
  Lemma open_run_holds P : forall (s r : state) u,
    open_run s P -> rn s P = Some r -> In u P -> held_of r u <> [].
  Proof.
    induction P as [|v P IH]; intros s r u Ho Hr Hin; [contradiction|]. cbn in Ho, Hr.
    destruct (stp s v) as [s1|] eqn:E; [|discriminate].
    destruct (next_item s v) as [iv|]; [|contradiction]. destruct Ho as [H1 [H2 H3]].
    destruct (in_dec Nat.eq_dec u P) as [HinP|HnP].
    - apply (IH s1 r u); auto.
    - destruct Hin as [->|Hin]; [|contradiction].
      rewrite (held_of_nth s1 r u (run_frame P s1 r u Hr HnP)). exact H2.
  Qed.

  (* an open schedule has no commit events *)
  Lemma open_run_commits P : forall (s : state), open_run s P -> cmts s P = [].
  Proof.
    induction P as [|u P IH]; intros s H; cbn in *; [reflexivity|].
    destruct (stp s u) as [s1|]; [|contradiction]. destruct (next_item s u); [|contradiction].
    destruct H as [H1 [H2 H3]]. destruct (held_of s1 u); [contradiction|]. apply IH. exact H3.
  Qed.

  (* ---------------------------------------------------------------- moving a step to the left *)
  Lemma pull_left P : forall (s r r2 : state) t,
    inv s -> rn s P = Some r -> open_run s P -> ~ In t P -> stp r t = Some r2 ->
    exists s' r2', stp s t = Some s' /\ rn s' P = Some r2' /\ seq r2' r2 /\ open_run s' P.
  Proof.
    induction P as [|u P IH]; intros s r r2 t Hi Hr Ho Hn Ht; cbn in Hr.
    - inversion Hr. subst r. exists r2, r2. cbn. split; [exact Ht|]. split; [reflexivity|].
      split; [apply seq_refl|exact I].
    - destruct (stp s u) as [s1|] eqn:Eu; [|discriminate].
      cbn in Ho. rewrite Eu in Ho. destruct (next_item s u) as [iu|] eqn:Enu; [|contradiction].
      destruct Ho as [Hrel [Hheld Ho]].
      assert (Htu : t <> u) by (intro F; apply Hn; left; auto).
      assert (HnP : ~ In t P) by (intro F; apply Hn; right; exact F).
      destruct (IH s1 r r2 t (inv_step _ _ _ _ _ g false s u s1 Hi Eu) Hr Ho HnP Ht)
        as [s1' [r2' [Ht1 [Hr1 [Hs1 Ho1]]]]].
      assert (exists it, next_item s t = Some it) as [it Hnt].
      { rewrite <- (next_item_nth s s1 t (step_frame s u s1 t Eu Htu)).
        destruct (step_inv _ _ _ _ _ _ _ _ Ht1) as [th [it [rest [_ [_ [Hn1 [Htd _]]]]]]].
        exists it. unfold next_item. rewrite Hn1, Htd. reflexivity. }
      destruct (swap s u t s1 s1' iu it Hi Htu Enu Hnt Eu Ht1 (or_introl Hrel))
        as [sa [sb [Hta [Hub Hsb]]]].
      destruct (run_seq P s1' sb r2' (seq_sym _ _ Hsb) Hr1) as [r2'' [Hr2 Hs2]].
      exists sa, r2''. split; [exact Hta|]. split; [cbn; rewrite Hub; exact Hr2|].
      split; [apply (seq_trans _ r2'); [apply seq_sym; exact Hs2|exact Hs1]|].
      cbn. rewrite Hub.
      rewrite (next_item_nth s sa u (step_frame s t sa u Hta (not_eq_sym Htu))). rewrite Enu.
      split; [exact Hrel|]. split.
      + rewrite (held_of_seq sb s1' u Hsb).
        rewrite (held_of_nth s1 s1' u (step_frame s1 t s1' u Ht1 (not_eq_sym Htu))). exact Hheld.
      + apply (open_run_seq P s1' sb (seq_sym _ _ Hsb)). exact Ho1.
  Qed.

  (* ---------------------------------------------------------------- sifting one thread's steps to the front *)
  Definition only (t : tid) (P : list tid) : list tid := filter (Nat.eqb t) P.
  Definition without (t : tid) (P : list tid) : list tid := filter (fun u => negb (Nat.eqb t u)) P.

  Lemma without_notin t P : ~ In t (without t P).
  Proof.
    unfold without. intro H. apply filter_In in H. destruct H as [_ H]. rewrite Nat.eqb_refl in H. discriminate.
  Qed.

  Lemma only_all t P : forall u, In u (only t P) -> u = t.
  Proof.
    unfold only. intros u H. apply filter_In in H. destruct H as [_ H]. apply Nat.eqb_eq in H. auto.
  Qed.

  Lemma only_without_perm t P : Permutation (only t P ++ without t P) P.
  Proof.
    induction P as [|u P IH]; cbn; [constructor|].
    destruct (Nat.eqb t u) eqn:E; cbn.
    - constructor. exact IH.
    - apply Permutation_sym. apply Permutation_cons_app. apply Permutation_sym. exact IH.
  Qed.

  Lemma only_snoc t P u : only t (P ++ [u]) = if Nat.eqb t u then only t P ++ [u] else only t P.
  Proof. unfold only. rewrite filter_app. cbn. destruct (Nat.eqb t u); [reflexivity|apply app_nil_r]. Qed.

  Lemma without_snoc t P u : without t (P ++ [u]) = if Nat.eqb t u then without t P else without t P ++ [u].
  Proof. unfold without. rewrite filter_app. cbn. destruct (Nat.eqb t u); cbn; [apply app_nil_r|reflexivity]. Qed.

  Lemma sift t P : forall (s r : state),
    inv s -> rn s P = Some r -> open_run s P ->
    exists sm r', rn s (only t P) = Some sm /\ rn sm (without t P) = Some r' /\ seq r' r /\
                  open_run s (only t P) /\ open_run sm (without t P).
  Proof.
    induction P as [|u P IH] using rev_ind; intros s r Hi Hr Ho.
    - cbn in Hr. inversion Hr. subst. exists r, r. cbn. repeat split; auto.
    - rewrite run_app in Hr. destruct (rn s P) as [rp|] eqn:Ep; [|discriminate].
      apply (open_run_app P [u] s rp Ep) in Ho. destruct Ho as [HoP Hou].
      destruct (IH s rp Hi Ep HoP) as [sm [r' [H1 [H2 [H3 [H4 H5]]]]]].
      cbn in Hr. destruct (stp rp u) as [rpu|] eqn:Eu; [|discriminate]. inversion Hr. subst rpu.
      destruct (step_seq rp r' u r (seq_sym _ _ H3) Eu) as [r1 [Eu' Hs1]].
      rewrite only_snoc, without_snoc. destruct (Nat.eqb t u) eqn:Etu.
      + (* a step of t: pull it left past the other threads' steps *)
        apply Nat.eqb_eq in Etu. subst u.
        assert (Hism : inv sm) by (apply (inv_run _ _ _ _ _ g false (only t P) s sm Hi H1)).
        destruct (pull_left (without t P) sm r' r1 t Hism H2 H5 (without_notin t P) Eu')
          as [sm' [r2' [Ha [Hb [Hc Hd]]]]].
        exists sm', r2'. split; [rewrite run_app, H1; cbn; rewrite Ha; reflexivity|].
        split; [exact Hb|]. split; [apply (seq_trans _ r1); [exact Hc|apply seq_sym; exact Hs1]|].
        split; [|exact Hd].
        apply (open_run_app (only t P) [t] s sm H1). split; [exact H4|].
        cbn. rewrite Ha.
        (* t's record in sm equals its record in rp (up to the equivalence), as nobody else touched it *)
        assert (Hnth : nth_error (threads sm) t = nth_error (threads rp) t).
        { rewrite <- (run_frame (without t P) sm r' t H2 (without_notin t P)).
          destruct H3 as [H3 _]. rewrite H3. reflexivity. }
        rewrite (next_item_nth rp sm t Hnth).
        cbn in Hou. rewrite Eu in Hou. destruct (next_item rp t) as [it|]; [|contradiction].
        destruct Hou as [Hr1 [Hr2 _]]. split; [exact Hr1|]. split; [|exact I].
        rewrite (held_of_nth r2' sm' t).
        * rewrite (held_of_seq r2' r1 t Hc). rewrite <- (held_of_seq r r1 t Hs1). exact Hr2.
        * symmetry. apply (run_frame (without t P) sm' r2' t Hb (without_notin t P)).
      + (* a step of another thread stays at the end *)
        exists sm, r1. split; [exact H1|]. split; [rewrite run_app, H2; cbn; rewrite Eu'; reflexivity|].
        split; [apply seq_sym; exact Hs1|]. split; [exact H4|].
        apply (open_run_app (without t P) [u] sm r' H2). split; [exact H5|].
        apply (open_run_seq [u] rp r' (seq_sym _ _ H3)). exact Hou.
  Qed.

  (* ---------------------------------------------------------------- serial runs *)
  Lemma serial_app C D : forall (s sC : state),
    rn s C = Some sC -> (srl s (C ++ D) <-> srl s C /\ srl sC D).
  Proof.
    induction C as [|t C IH]; intros s sC H; cbn in *.
    - inversion H. subst. tauto.
    - destruct (stp s t) as [s1|]; [|discriminate]. specialize (IH s1 sC H). tauto.
  Qed.

  Lemma commits_app C D : forall (s sC : state),
    rn s C = Some sC -> cmts s (C ++ D) = cmts s C ++ cmts sC D.
  Proof.
    induction C as [|t C IH]; intros s sC H; cbn in *.
    - inversion H. reflexivity.
    - destruct (stp s t) as [s1|] eqn:E; [|discriminate].
      destruct (next_item s t) as [it|] eqn:En.
      + destruct (held_of s1 t); cbn; rewrite (IH s1 sC H); reflexivity.
      + exfalso. destruct (step_inv _ _ _ _ _ _ _ _ E) as [th [it [rest [_ [_ [Hn [Htd _]]]]]]].
        unfold next_item in En. rewrite Hn, Htd in En. discriminate.
  Qed.

  (* steps of one thread from a quiescent state form a serial schedule *)
  Lemma serial_own t B : forall (s r : state),
    (forall u, u <> t -> held_of s u = []) -> (forall u, In u B -> u = t) -> rn s B = Some r ->
    srl s B /\ (forall u, u <> t -> held_of r u = []).
  Proof.
    induction B as [|v B IH]; intros s r Hq Hall Hr; cbn in *.
    - inversion Hr. subst. auto.
    - assert (v = t) by (apply Hall; left; reflexivity). subst v.
      destruct (stp s t) as [s1|] eqn:E; [|discriminate].
      assert (Hq1 : forall u, u <> t -> held_of s1 u = []).
      { intros u Hu. rewrite (held_of_nth s s1 u (step_frame s t s1 u E Hu)). apply Hq. exact Hu. }
      destruct (IH s1 r Hq1 (fun u Hu => Hall u (or_intror Hu)) Hr) as [H1 H2].
      split; [|exact H2]. split; [exact Hq|exact H1].
  Qed.

  (* ---------------------------------------------------------------- the reduction theorem *)
  Lemma held_after_release (s : state) t s1 it :
    inv s -> next_item s t = Some it -> stp s t = Some s1 -> held_of s1 t <> [] -> is_rel_item it = false.
  Proof.
    intros [Hf _] Hn H Hh. destruct (step_inv _ _ _ _ _ _ _ _ H) as [th [it' [rest [th' [w [Hnth [Htd [He ->]]]]]]]].
    assert (it' = it) by (unfold next_item in Hn; rewrite Hnth, Htd in Hn; inversion Hn; reflexivity). subst it'.
    destruct it as [tag|[l md|l md|x|x| | |]|]; try reflexivity. exfalso. apply Hh.
    unfold held_of. cbn. rewrite (nth_error_set_nth_eq _ _ _ _ Hnth).
    destruct (Forall_nth_error _ _ _ _ Hf Hnth) as [h [Hhl Hd]]. rewrite Htd in Hd. cbn in Hd.
    destruct h as [e|]; [|discriminate]. destruct (entry_eqb (l, md) e) eqn:Ee; [|discriminate].
    apply exec_item_held in He. cbn in He. rewrite Hhl in He. cbn in He. rewrite Ee in He. inversion He. reflexivity.
  Qed.

  Theorem reduction tr : forall (s0 s : state),
    inv s0 -> quiescent s0 -> rn s0 tr = Some s ->
    exists C P sC r,
      rn s0 C = Some sC /\ srl s0 C /\ quiescent sC /\ cmts s0 C = cmts s0 tr /\
      rn sC P = Some r /\ seq r s /\ open_run sC P /\ Permutation (C ++ P) tr.
  Proof.
    induction tr as [|t tr IH] using rev_ind; intros s0 s Hi Hq Hr.
    - cbn in Hr. inversion Hr. subst s. exists [], [], s0, s0. cbn.
      repeat split; auto.
    - rewrite run_app in Hr. destruct (rn s0 tr) as [sp|] eqn:Ep; [|discriminate].
      cbn in Hr. destruct (stp sp t) as [sn|] eqn:Et; [|discriminate]. inversion Hr. subst sn. clear Hr.
      destruct (IH s0 sp Hi Hq Ep) as [C [P [sC [r [HC [Hser [HqC [Hcm [HP [Hseq [Hop Hperm]]]]]]]]]]].
      destruct (step_seq sp r t s (seq_sym _ _ Hseq) Et) as [rn' [Et' Hsn]].
      assert (HiC : inv sC) by (apply (inv_run _ _ _ _ _ g false C s0 sC Hi HC)).
      assert (Hir : inv r) by (apply (inv_run _ _ _ _ _ g false P sC r HiC HP)).
      assert (exists it, next_item sp t = Some it) as [it Hnt].
      { destruct (step_inv _ _ _ _ _ _ _ _ Et) as [th [it [rest [_ [_ [Hn1 [Htd _]]]]]]].
        exists it. unfold next_item. rewrite Hn1, Htd. reflexivity. }
      assert (Hcm_tr : cmts s0 (tr ++ [t]) =
                       cmts s0 tr ++ match held_of s t with [] => [(t, it)] | _ => [] end).
      { rewrite (commits_app tr [t] s0 sp Ep). cbn. rewrite Et, Hnt. destruct (held_of s t); reflexivity. }
      destruct (held_of s t) as [|e hs] eqn:Ehs.
      + (* a commit step: serialise t's open section (if any), then this step *)
        destruct (sift t P sC r HiC HP Hop) as [sm [r' [H1 [H2 [H3 [H4 H5]]]]]].
        destruct (step_seq r r' t rn' (seq_sym _ _ H3) Et') as [r1 [Et1 Hs1]].
        assert (Hism : inv sm) by (apply (inv_run _ _ _ _ _ g false (only t P) sC sm HiC H1)).
        destruct (pull_left (without t P) sm r' r1 t Hism H2 H5 (without_notin t P) Et1)
          as [sm' [r2' [Ha [Hb [Hc Hd]]]]].
        assert (Hnth_m : nth_error (threads sm) t = nth_error (threads sp) t).
        { rewrite <- (run_frame (without t P) sm r' t H2 (without_notin t P)).
          destruct H3 as [H3 _]. rewrite H3. destruct Hseq as [Hseq _]. rewrite Hseq. reflexivity. }
        assert (Hheld_m' : held_of sm' t = []).
        { rewrite (held_of_nth r2' sm' t).
          - rewrite (held_of_seq r2' r1 t Hc). rewrite <- (held_of_seq rn' r1 t Hs1).
            rewrite <- (held_of_seq s rn' t Hsn). exact Ehs.
          - symmetry. apply (run_frame (without t P) sm' r2' t Hb (without_notin t P)). }
        destruct (serial_own t (only t P ++ [t]) sC sm') as [Hso Hqo].
        { intros u _. apply HqC. }
        { intros u Hu. apply in_app_or in Hu. destruct Hu as [Hu|[Hu|[]]]; [apply (only_all t P u Hu)|auto]. }
        { rewrite run_app, H1. cbn. rewrite Ha. reflexivity. }
        exists (C ++ only t P ++ [t]), (without t P), sm', r2'.
        split; [rewrite run_app, HC, run_app, H1; cbn; rewrite Ha; reflexivity|].
        split; [apply (serial_app C _ s0 sC HC); split; [exact Hser|exact Hso]|].
        split.
        { intro u. destruct (Nat.eq_dec u t) as [->|Hu]; [exact Hheld_m'|apply Hqo; exact Hu]. }
        split.
        { rewrite Hcm_tr. rewrite (commits_app C _ s0 sC HC). rewrite Hcm. f_equal.
          rewrite (commits_app (only t P) [t] sC sm H1). rewrite (open_run_commits _ _ H4). cbn.
          rewrite Ha. rewrite (next_item_nth sp sm t Hnth_m), Hnt. rewrite Hheld_m'. reflexivity. }
        split; [exact Hb|].
        split; [apply (seq_trans _ r1); [exact Hc|]; apply (seq_trans _ rn'); [apply seq_sym; exact Hs1|apply seq_sym; exact Hsn]|].
        split; [exact Hd|].
        rewrite <- app_assoc. rewrite <- app_assoc. cbn.
        apply (Permutation_trans (l' := C ++ (only t P ++ without t P) ++ [t])).
        { apply Permutation_app_head. rewrite <- app_assoc. apply Permutation_app_head.
          apply Permutation_sym. change (t :: without t P) with ([t] ++ without t P). apply Permutation_app_comm. }
        rewrite app_assoc. apply Permutation_app_tail.
        apply (Permutation_trans (l' := C ++ P)); [|exact Hperm].
        apply Permutation_app_head. apply only_without_perm.
      + (* the thread still holds a lock afterwards: the step joins the open part *)
        assert (Hnr : is_rel_item it = false).
        { apply (held_after_release sp t s it); auto.
          - apply (inv_run _ _ _ _ _ g false tr s0 sp Hi Ep).
          - rewrite Ehs. discriminate. }
        exists C, (P ++ [t]), sC, rn'.
        split; [exact HC|]. split; [exact Hser|]. split; [exact HqC|].
        split; [rewrite Hcm_tr, app_nil_r; exact Hcm|].
        split; [rewrite run_app, HP; cbn; rewrite Et'; reflexivity|].
        split; [apply seq_sym; exact Hsn|].
        split.
        { apply (open_run_app P [t] sC r HP). split; [exact Hop|]. cbn. rewrite Et'.
          rewrite <- (next_item_seq sp r t (seq_sym _ _ Hseq)) , Hnt.
          split; [exact Hnr|]. split; [|exact I]. rewrite <- (held_of_seq s rn' t Hsn), Ehs. discriminate. }
        rewrite app_assoc. apply Permutation_app_tail. exact Hperm.
  Qed.

End Lin.
