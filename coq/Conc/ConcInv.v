(* ConcInv.v — the invariant of all reachable states and its first consequences:
   race freedom (mutual exclusion), no nested lock requests, deadlock freedom, parameters never written. *)
From Coq Require Import List Bool Arith PeanoNat Lia.
Import ListNotations.
From BWConc Require Import Conc ConcStatic.

(* ------------------------------------------------------------------ list plumbing *)
Lemma nth_error_set_nth_eq {A} (l : list A) n a x :
  nth_error l n = Some x -> nth_error (set_nth n a l) n = Some a.
Proof.
  revert n. induction l as [|b l IH]; intros [|n] H; cbn in *; try discriminate; auto.
Qed.

Lemma nth_error_set_nth_neq {A} (l : list A) n m a :
  n <> m -> nth_error (set_nth n a l) m = nth_error l m.
Proof.
  revert n m. induction l as [|b l IH]; intros [|n] [|m] H; cbn; auto; try contradiction.
Qed.

Lemma set_nth_comm {A} (l : list A) n m a b :
  n <> m -> set_nth n a (set_nth m b l) = set_nth m b (set_nth n a l).
Proof.
  revert n m. induction l as [|c l IH]; intros [|n] [|m] H; cbn; auto; try contradiction.
  f_equal. apply IH. auto.
Qed.

Lemma Forall_set_nth {A} (P : A -> Prop) (l : list A) n a :
  Forall P l -> P a -> Forall P (set_nth n a l).
Proof.
  intros H Ha. revert n. induction H as [|b l Hb Hl IH]; intros [|n]; cbn; constructor; auto.
Qed.

Lemma Forall_nth_error {A} (P : A -> Prop) (l : list A) n x :
  Forall P l -> nth_error l n = Some x -> P x.
Proof.
  intros H Hn. rewrite Forall_forall in H. apply H. eapply nth_error_In. exact Hn.
Qed.

Section Inv.
  Context {Local Value : Type}.
  Variable begin_local : nat -> Local.
  Variable rd_eff : Local -> loc -> Value -> Local.
  Variable wr_eff : Local -> loc -> Value * Local.
  Variable send_val : Local -> Value.
  Variable sends_ready : tid -> bool.

  Notation thread := (@thread Local Value).
  Notation state := (@state Local Value).
  Notation stp := (step begin_local rd_eff wr_eff send_val sends_ready).
  Notation rn := (run begin_local rd_eff wr_eff send_val sends_ready).
  Notation exi := (exec_item begin_local rd_eff wr_eff send_val sends_ready).

  (* ---------------------------------------------------------------- step decomposition *)
  Lemma step_inv (s : state) t s' :
    stp s t = Some s' ->
    exists th it rest th' w,
      nth_error (threads s) t = Some th /\ todo th = it :: rest /\
      exi (threads s) (mem s) t th it rest = Some (th', w) /\
      s' = {| threads := set_nth t th' (threads s); mem := apply_w w (mem s) |}.
  Proof.
    unfold step. intro H.
    destruct (nth_error (threads s) t) as [th|] eqn:E1; [|discriminate].
    destruct (todo th) as [|it rest] eqn:E2; [discriminate|].
    destruct (exi (threads s) (mem s) t th it rest) as [[th' w]|] eqn:E3; [|discriminate].
    inversion H. exists th, it, rest, th', w. auto.
  Qed.

  Lemma step_intro (s : state) t th it rest th' w :
    nth_error (threads s) t = Some th -> todo th = it :: rest ->
    exi (threads s) (mem s) t th it rest = Some (th', w) ->
    stp s t = Some {| threads := set_nth t th' (threads s); mem := apply_w w (mem s) |}.
  Proof. intros H1 H2 H3. unfold step. rewrite H1, H2, H3. reflexivity. Qed.

  Lemma exec_item_todo ths m t (th : thread) it rest th' w :
    exi ths m t th it rest = Some (th', w) -> todo th' = rest.
  Proof.
    destruct it as [tag|[l md|l md|x|x| | |]|]; cbn; intro H;
      repeat match type of H with
             | (if ?c then _ else _) = _ => destruct c; [|discriminate]
             | match ?c with _ => _ end = _ => destruct c; [|discriminate]
             end; inversion H; reflexivity.
  Qed.

  (* the held list after a step *)
  Definition held_after (it : item) (h : list (rtlock * mode)) : option (list (rtlock * mode)) :=
    match it with
    | IAct (AAcq l m) => Some ((l, m) :: h)
    | IAct (ARel l m) => remove_one (l, m) h
    | _ => Some h
    end.

  Lemma exec_item_held ths m t (th : thread) it rest th' w :
    exi ths m t th it rest = Some (th', w) -> held_after it (held th) = Some (held th').
  Proof.
    destruct it as [tag|[l md|l md|x|x| | |]|]; cbn; intro H;
      repeat match type of H with
             | (if ?c then _ else _) = _ => destruct c; [|discriminate]
             | match ?c with _ => _ end = _ => destruct c eqn:?; [|discriminate]
             end; inversion H; reflexivity.
  Qed.

  Lemma exec_item_acq ths m t (th : thread) l md rest th' w :
    exi ths m t th (IAct (AAcq l md)) rest = Some (th', w) -> compat_all l md ths = true.
  Proof. cbn. destruct (compat_all l md ths); [reflexivity|discriminate]. Qed.

  (* the write performed *)
  Definition write_of (it : item) : option loc := match it with IAct (AWr x) => Some x | _ => None end.

  Lemma exec_item_write ths m t (th : thread) it rest th' w :
    exi ths m t th it rest = Some (th', w) ->
    match write_of it with Some x => exists v, w = Some (x, v) | None => w = None end.
  Proof.
    destruct it as [tag|[l md|l md|x|x| | |]|]; cbn; intro H;
      repeat match type of H with
             | (if ?c then _ else _) = _ => destruct c; [|discriminate]
             | match ?c with _ => _ end = _ => destruct c eqn:?; [|discriminate]
             end; inversion H; eauto.
  Qed.

  (* ---------------------------------------------------------------- the invariant *)
  Variable g : list (fieldid * option lockid).
  Variable pw : bool.

  Definition thread_ok (th : thread) : Prop :=
    exists h, held th = held_list h /\ dchk g pw h (todo th) = Some None.

  Definition compat_inv (ths : list thread) : Prop :=
    forall t u tht thu e e',
      t <> u -> nth_error ths t = Some tht -> nth_error ths u = Some thu ->
      In e (held tht) -> In e' (held thu) -> fst e = fst e' -> snd e = R /\ snd e' = R.

  Definition inv (s : state) : Prop := Forall thread_ok (threads s) /\ compat_inv (threads s).

  Lemma remove_one_single e e' : entry_eqb e e' = true -> remove_one e [e'] = Some [].
  Proof. intro H. cbn. rewrite H. reflexivity. Qed.

  Lemma thread_ok_step ths m t (th : thread) it rest th' w :
    thread_ok th -> todo th = it :: rest -> exi ths m t th it rest = Some (th', w) -> thread_ok th'.
  Proof.
    intros [h [Hh Hd]] Ht He. rewrite Ht in Hd. cbn in Hd.
    destruct (dchk_item g pw h it) as [h1|] eqn:E; [|discriminate].
    exists h1. rewrite (exec_item_todo _ _ _ _ _ _ _ _ He). split; [|exact Hd].
    apply exec_item_held in He. rewrite Hh in He.
    destruct it as [tag|[l md|l md|x|x| | |]|]; cbn in E, He.
    - destruct h; [discriminate|]. inversion E; inversion He; subst; reflexivity.
    - destruct h; [discriminate|]. inversion E; inversion He; subst; reflexivity.
    - destruct h as [e|]; [|discriminate]. destruct (entry_eqb (l, md) e) eqn:Ee; [|discriminate].
      inversion E. cbn in He. rewrite Ee in He. inversion He. reflexivity.
    - inversion He. destruct (rguard g x) as [[gl|]|]; try discriminate.
      + destruct h as [[l' m']|]; [|discriminate]. destruct (rtlock_eqb gl l'); [|discriminate].
        inversion E; subst; reflexivity.
      + inversion E; subst; reflexivity.
    - inversion He. destruct (rguard g x) as [[gl|]|]; try discriminate.
      + destruct h as [[l' [|]]|]; try discriminate. destruct (rtlock_eqb gl l'); [|discriminate].
        inversion E; subst; reflexivity.
      + destruct (is_param x && pw); [|discriminate]. inversion E; subst; reflexivity.
    - inversion E; inversion He; subst; reflexivity.
    - inversion E; inversion He; subst; reflexivity.
    - inversion E; inversion He; subst; reflexivity.
    - destruct h; [discriminate|]. inversion E; inversion He; subst; reflexivity.
  Qed.

  Lemma compat_all_entry l md (ths : list thread) u thu e :
    compat_all l md ths = true -> nth_error ths u = Some thu -> In e (held thu) ->
    entry_compat l md e = true.
  Proof.
    unfold compat_all. intros H Hu He. rewrite forallb_forall in H.
    specialize (H thu (nth_error_In _ _ Hu)). rewrite forallb_forall in H. apply H. exact He.
  Qed.

  Lemma entry_compat_RR l md e : entry_compat l md e = true -> l = fst e -> md = R /\ snd e = R.
  Proof.
    unfold entry_compat. intros H ->. rewrite rtlock_eqb_refl in H.
    destruct md, (snd e); try discriminate. auto.
  Qed.

  Lemma remove_one_incl e l r : remove_one e l = Some r -> forall x, In x r -> In x l.
  Proof.
    revert r. induction l as [|y l IH]; intros r H x Hx; cbn in H; [discriminate|].
    destruct (entry_eqb e y); [inversion H; subst; right; exact Hx|].
    destruct (remove_one e l) as [r'|]; [|discriminate]. inversion H. subst r.
    destruct Hx as [->|Hx]; [left; reflexivity|right; apply (IH r'); auto].
  Qed.

  Lemma compat_inv_step (ths : list thread) m t (th : thread) it rest th' w :
    compat_inv ths -> nth_error ths t = Some th -> exi ths m t th it rest = Some (th', w) ->
    compat_inv (set_nth t th' ths).
  Proof.
    intros Hc Ht He.
    assert (Hnew : forall e, In e (held th') ->
                     In e (held th) \/
                     (forall u thu e', u <> t -> nth_error ths u = Some thu -> In e' (held thu) ->
                                       fst e = fst e' -> snd e = R /\ snd e' = R)).
    { intros e Hin. pose proof (exec_item_held _ _ _ _ _ _ _ _ He) as Hh.
      destruct it as [tag|[l md|l md|x|x| | |]|]; cbn in Hh; try (inversion Hh; subst; left; rewrite H0; exact Hin).
      - inversion Hh as [Hh']. rewrite <- Hh' in Hin. destruct Hin as [<-|Hin]; [right|left; exact Hin].
        intros u thu e' Hu Hnu Hine' Hf. pose proof (exec_item_acq _ _ _ _ _ _ _ _ _ He) as Hca. cbn in Hf.
        apply (entry_compat_RR l md e'); [|exact Hf].
        apply (compat_all_entry l md ths u thu e'); auto.
      - left. apply (remove_one_incl _ _ _ Hh). exact Hin. }
    intros a b tha thb e e' Hab Ha Hb Hea Heb Hf.
    destruct (Nat.eq_dec a t) as [->|Hat].
    - rewrite (nth_error_set_nth_eq _ _ _ _ Ht) in Ha. inversion Ha. subst tha.
      rewrite nth_error_set_nth_neq in Hb by auto.
      destruct (Hnew e Hea) as [Hold|Hfresh].
      + apply (Hc t b th thb e e'); auto.
      + apply (Hfresh b thb e'); auto.
    - rewrite nth_error_set_nth_neq in Ha by auto.
      destruct (Nat.eq_dec b t) as [->|Hbt].
      + rewrite (nth_error_set_nth_eq _ _ _ _ Ht) in Hb. inversion Hb. subst thb.
        destruct (Hnew e' Heb) as [Hold|Hfresh].
        * apply (Hc a t tha th e e'); auto.
        * destruct (Hfresh a tha e) as [X Y]; auto.
      + rewrite nth_error_set_nth_neq in Hb by auto. apply (Hc a b tha thb e e'); auto.
  Qed.

  Lemma inv_step s t s' : inv s -> stp s t = Some s' -> inv s'.
  Proof.
    intros [Hf Hc] H. destruct (step_inv _ _ _ H) as [th [it [rest [th' [w [Ht [Htd [He ->]]]]]]]].
    split; cbn.
    - apply Forall_set_nth; [exact Hf|].
      apply (thread_ok_step (threads s) (mem s) t th it rest th' w); auto. apply (Forall_nth_error _ _ _ _ Hf Ht).
    - apply (compat_inv_step (threads s) (mem s) t th it rest th' w); auto.
  Qed.

  Lemma inv_run sched : forall s s', inv s -> rn s sched = Some s' -> inv s'.
  Proof.
    induction sched as [|t sched IH]; intros s s' Hi H; cbn in H.
    - inversion H. subst. exact Hi.
    - destruct (stp s t) as [s1|] eqn:E; [|discriminate]. apply (IH s1 s'); auto. apply (inv_step s t); auto.
  Qed.

  (* ---------------------------------------------------------------- consequences *)
  Lemma next_item_inv (s : state) t it :
    next_item s t = Some it -> exists th rest, nth_error (threads s) t = Some th /\ todo th = it :: rest.
  Proof.
    unfold next_item. destruct (nth_error (threads s) t) as [th|]; [|discriminate].
    destruct (todo th) as [|i rest] eqn:E; [discriminate|]. intro H. inversion H. subst. eauto.
  Qed.

  (* what the discipline says about a thread that is about to access x *)
  Lemma about_to_write (s : state) t th rest x :
    inv s -> nth_error (threads s) t = Some th -> todo th = IAct (AWr x) :: rest ->
    (exists gl, rguard g x = Some (Some gl) /\ held th = [(gl, W)]) \/
    (rguard g x = Some None /\ is_param x = true /\ pw = true).
  Proof.
    intros [Hf _] Ht Htd. destruct (Forall_nth_error _ _ _ _ Hf Ht) as [h [Hh Hd]].
    rewrite Htd in Hd. cbn in Hd. destruct (rguard g x) as [[gl|]|]; try discriminate.
    - left. destruct h as [[l' [|]]|]; try discriminate.
      destruct (rtlock_eqb gl l') eqn:E; [|discriminate]. apply rtlock_eqb_eq in E. subst l'.
      exists gl. split; [reflexivity|exact Hh].
    - right. destruct (is_param x && pw) eqn:E; [|discriminate]. apply andb_true_iff in E. destruct E as [E1 E2]. split; [reflexivity|]. split; [exact E1|exact E2].
  Qed.

  Lemma about_to_read (s : state) t th rest x :
    inv s -> nth_error (threads s) t = Some th -> todo th = IAct (ARd x) :: rest ->
    (exists gl md, rguard g x = Some (Some gl) /\ held th = [(gl, md)]) \/ rguard g x = Some None.
  Proof.
    intros [Hf _] Ht Htd. destruct (Forall_nth_error _ _ _ _ Hf Ht) as [h [Hh Hd]].
    rewrite Htd in Hd. cbn in Hd. destruct (rguard g x) as [[gl|]|]; try discriminate.
    - left. destruct h as [[l' md]|]; try discriminate.
      destruct (rtlock_eqb gl l') eqn:E; [|discriminate]. apply rtlock_eqb_eq in E. subst l'.
      exists gl, md. split; [reflexivity|exact Hh].
    - right. reflexivity.
  Qed.

  (* two different threads about to perform conflicting accesses: only possible on a parameter location, and
     only when parameter writes are tolerated *)
  Lemma conflict_only_params (s : state) t u tht thu rt ru x iu :
    inv s -> t <> u ->
    nth_error (threads s) t = Some tht -> todo tht = IAct (AWr x) :: rt ->
    nth_error (threads s) u = Some thu -> todo thu = iu :: ru ->
    (iu = IAct (AWr x) \/ iu = IAct (ARd x)) ->
    is_param x = true /\ pw = true.
  Proof.
    intros Hi Htu Ht Htd Hu Hud Hiu.
    destruct (about_to_write s t tht rt x Hi Ht Htd) as [[gl [Hg Hh]]|[_ [H1 H2]]]; [exfalso|auto].
    destruct Hi as [Hf Hc]. destruct Hiu as [-> | ->].
    - destruct (about_to_write s u thu ru x (conj Hf Hc) Hu Hud) as [[gl' [Hg' Hh']]|[Hg' _]];
        [|rewrite Hg in Hg'; discriminate].
      rewrite Hg in Hg'. inversion Hg'. subst gl'.
      destruct (Hc t u tht thu (gl, W) (gl, W)) as [X _]; auto;
        [rewrite Hh; left; reflexivity|rewrite Hh'; left; reflexivity|discriminate].
    - destruct (about_to_read s u thu ru x (conj Hf Hc) Hu Hud) as [[gl' [md [Hg' Hh']]]|Hg'];
        [|rewrite Hg in Hg'; discriminate].
      rewrite Hg in Hg'. inversion Hg'. subst gl'.
      destruct (Hc t u tht thu (gl, W) (gl, md)) as [X _]; auto;
        [rewrite Hh; left; reflexivity|rewrite Hh'; left; reflexivity|discriminate].
  Qed.

  Lemma race_only_params (s : state) :
    inv s -> race s -> pw = true /\
      exists t u x, t <> u /\ is_param x = true /\ next_item s t = Some (IAct (AWr x)).
  Proof.
    intros Hi [t [u [x [it [iu [Htu [Hnt [Hnu [Hw Ha]]]]]]]]].
    unfold writes_loc in Hw. subst it. unfold accesses_loc in Ha.
    destruct (next_item_inv s t _ Hnt) as [tht [rt [Ht Htd]]].
    destruct (next_item_inv s u _ Hnu) as [thu [ru [Hu Hud]]].
    destruct (conflict_only_params s t u tht thu rt ru x iu Hi Htu Ht Htd Hu Hud Ha) as [H1 H2].
    split; [exact H2|]. exists t, u, x. auto.
  Qed.

  Lemma no_nested (s : state) : inv s -> nested_request s -> False.
  Proof.
    intros [Hf _] [t [l [m [Hn Hh]]]]. destruct (next_item_inv s t _ Hn) as [th [rest [Ht Htd]]].
    destruct (Forall_nth_error _ _ _ _ Hf Ht) as [h [Hhl Hd]]. rewrite Htd in Hd. cbn in Hd.
    destruct h; [discriminate|]. unfold held_of in Hh. rewrite Ht in Hh. apply Hh. exact Hhl.
  Qed.

  (* ---------------------------------------------------------------- deadlock freedom *)
  Lemma compat_all_idle l md (ths : list thread) :
    Forall (fun th => held th = []) ths -> compat_all l md ths = true.
  Proof.
    intro H. unfold compat_all. apply forallb_forall. intros th Hin. rewrite Forall_forall in H.
    rewrite (H th Hin). reflexivity.
  Qed.

  Lemma holder_or_idle (ths : list thread) :
    Forall (fun th => held th = []) ths \/ exists t th, nth_error ths t = Some th /\ held th <> [].
  Proof.
    induction ths as [|th ths IH]; [left; constructor|].
    destruct (held th) as [|e r] eqn:E.
    - destruct IH as [IH|[t [th' [H1 H2]]]]; [left; constructor; auto|right].
      exists (S t), th'. auto.
    - right. exists 0, th. cbn. split; [reflexivity|]. rewrite E. discriminate.
  Qed.

  Lemma deadlock_free (s : state) :
    inv s -> (forall t, sends_ready t = true) ->
    (exists t it, next_item s t = Some it) -> can_step begin_local rd_eff wr_eff send_val sends_ready s.
  Proof.
    intros [Hf Hc] Hsr [t0 [it0 Hn0]].
    destruct (holder_or_idle (threads s)) as [Hidle|[t [th [Ht Hheld]]]].
    - (* nobody holds a lock: the unfinished thread t0 can step *)
      destruct (next_item_inv s t0 _ Hn0) as [th [rest [Ht Htd]]].
      destruct (Forall_nth_error _ _ _ _ Hf Ht) as [h [Hh Hd]].
      assert (Hemp : held th = []) by (rewrite Forall_forall in Hidle; apply Hidle; eapply nth_error_In; eauto).
      rewrite Hemp in Hh. destruct h; [discriminate|]. rewrite Htd in Hd. cbn in Hd.
      assert (exists r, exi (threads s) (mem s) t0 th it0 rest = Some r) as [[th' w] He].
      { destruct it0 as [tag|[l md|l md|x|x| | |]|]; cbn; eauto.
        - rewrite (compat_all_idle l md _ Hidle). eauto.
        - cbn in Hd. discriminate.
        - rewrite Hsr. eauto. }
      exists t0. eexists. apply (step_intro s t0 th it0 rest th' w); auto.
    - (* some thread holds a lock: it is not waiting for another one, so it can step *)
      destruct (Forall_nth_error _ _ _ _ Hf Ht) as [h [Hh Hd]].
      destruct h as [e|]; [|contradiction]. cbn in Hh.
      destruct (todo th) as [|it rest] eqn:Htd; [cbn in Hd; discriminate|]. cbn in Hd.
      assert (exists r, exi (threads s) (mem s) t th it rest = Some r) as [[th' w] He].
      { destruct it as [tag|[l md|l md|x|x| | |]|]; cbn; eauto; cbn in Hd; try discriminate.
        - destruct (entry_eqb (l, md) e) eqn:Ee; [|discriminate]. rewrite Hh. cbn. rewrite Ee. eauto.
        - rewrite Hsr. eauto. }
      exists t. eexists. apply (step_intro s t th it rest th' w); auto.
  Qed.

  (* ---------------------------------------------------------------- parameters are never written *)
  Lemma params_frame_step (s : state) t s' :
    inv s -> pw = false -> stp s t = Some s' -> forall o p, mem s' (LP o p) = mem s (LP o p).
  Proof.
    intros Hi Hpw H o p. destruct (step_inv _ _ _ H) as [th [it [rest [th' [w [Ht [Htd [He ->]]]]]]]].
    cbn. pose proof (exec_item_write _ _ _ _ _ _ _ _ He) as Hw.
    destruct it as [tag|[l md|l md|x|x| | |]|]; cbn in Hw; try (subst w; reflexivity).
    destruct Hw as [v ->]. cbn. unfold upd.
    destruct (about_to_write s t th rest x Hi Ht Htd) as [[gl [Hg _]]|[_ [_ Hp]]].
    - destruct x as [o' f|o' p']; [reflexivity|]. cbn in Hg. discriminate.
    - rewrite Hpw in Hp. discriminate.
  Qed.

  Lemma params_frame_run sched : forall (s s' : state),
    inv s -> pw = false -> rn s sched = Some s' -> forall o p, mem s' (LP o p) = mem s (LP o p).
  Proof.
    induction sched as [|t sched IH]; intros s s' Hi Hpw H o p; cbn in H.
    - inversion H. reflexivity.
    - destruct (stp s t) as [s1|] eqn:E; [|discriminate].
      rewrite (IH s1 s' (inv_step s t s1 Hi E) Hpw H). apply (params_frame_step s t s1); auto.
  Qed.

  (* ---------------------------------------------------------------- every execution can be completed *)
  Definition total (ths : list thread) : nat := fold_right (fun th n => List.length (todo th) + n) 0 ths.

  Lemma total_set_nth (ths : list thread) t th th' :
    nth_error ths t = Some th ->
    total (set_nth t th' ths) + List.length (todo th) = total ths + List.length (todo th').
  Proof.
    unfold total. revert t. induction ths as [|a ths IH]; intros [|t] H; cbn in *; try discriminate.
    - inversion H. subst. lia.
    - specialize (IH t H). lia.
  Qed.

  Lemma step_total (s : state) t s' : stp s t = Some s' -> total (threads s) = S (total (threads s')).
  Proof.
    intro H. destruct (step_inv _ _ _ H) as [th [it [rest [th' [w [Ht [Htd [He ->]]]]]]]]. cbn [threads].
    pose proof (total_set_nth (threads s) t th th' Ht) as E.
    rewrite (exec_item_todo _ _ _ _ _ _ _ _ He) in E. rewrite Htd in E. cbn in E. unfold total in *. lia.
  Qed.

  Lemma total_zero_finished (s : state) : total (threads s) = 0 -> finished s.
  Proof.
    intros H t. unfold next_item. destruct (nth_error (threads s) t) as [th|] eqn:E; [|reflexivity].
    destruct (todo th) as [|it r] eqn:Et; [reflexivity|]. exfalso.
    unfold total in H. revert t E H. generalize (threads s). induction l as [|a l IH]; intros [|t] E H; cbn in *; try discriminate.
    - inversion E. subst. rewrite Et in H. cbn in H. lia.
    - apply (IH t E). lia.
  Qed.

  Lemma total_pos_unfinished (s : state) : total (threads s) <> 0 -> exists t it, next_item s t = Some it.
  Proof.
    unfold next_item, total. generalize (threads s). induction l as [|a l IH]; intro H; cbn in H; [contradiction|].
    destruct (todo a) as [|it r] eqn:Et.
    - cbn in H. destruct (IH H) as [t [it Ht]]. exists (S t), it. exact Ht.
    - exists 0, it. cbn. rewrite Et. reflexivity.
  Qed.

  Lemma can_complete n : forall (s : state),
    total (threads s) = n -> inv s -> (forall t, sends_ready t = true) ->
    exists sched s', rn s sched = Some s' /\ finished s' /\ List.length sched = n.
  Proof.
    induction n as [|n IH]; intros s Hn Hi Hsr.
    - exists [], s. split; [reflexivity|]. split; [apply total_zero_finished; exact Hn|reflexivity].
    - assert (Hne : total (threads s) <> 0) by lia.
      destruct (deadlock_free s Hi Hsr (total_pos_unfinished s Hne)) as [t [s1 Hst]].
      pose proof (step_total s t s1 Hst) as Ht.
      destruct (IH s1) as [sched [s' [Hr [Hf Hl]]]]; [lia|apply (inv_step s t s1 Hi Hst)|exact Hsr|].
      exists (t :: sched), s'. cbn. rewrite Hst. split; [exact Hr|]. split; [exact Hf|]. rewrite Hl. reflexivity.
  Qed.

End Inv.

(* ------------------------------------------------------------------ initial states satisfy the invariant *)
Section Init.
  Context {Local Value : Type}.

  Lemma init_inv g pw (l0 : Local) (m0 : loc -> Value) (progs : list (list call)) :
    Forall (fun cs => dchk g pw None (program cs) = Some None) progs ->
    inv g pw (init_state l0 m0 progs).
  Proof.
    intro H. split; cbn.
    - rewrite Forall_forall in *. intros th Hin. apply in_map_iff in Hin. destruct Hin as [cs [<- Hin]].
      exists None. split; [reflexivity|]. cbn. apply H. exact Hin.
    - intros t u tht thu e e' _ Ht _ He. apply nth_error_In in Ht. apply in_map_iff in Ht.
      destruct Ht as [cs [<- _]]. cbn in He. contradiction.
  Qed.
End Init.
